"""Generic runner: drives one property module (harness/props/cXX.py) through the pipeline.

A property module defines:

  ID                 "C12"
  COQ_TARGETS        make targets (relative to coq/), e.g. ["Tie/C12.vo", "Properties/C12.vo"]
  PROPERTY_FILE      "Properties/C12.v"  (only ``Theorem … exact …`` + Print Assumptions)
  THEOREMS           names of the property theorems, in file order
  TIE                "Tie.C12"  Coq module defining case_t, check_model, check_spec
  DRIVER             "c12_driver.py" (payload {"cases": [...]} -> {"obs": [...]})
  MODES              ("c", "py")
  generate(run, tier)            -> list of JSON-able cases (mostly valid + malformed stream)
  coq_case(case, obs, mode)      -> Coq term of type <TIE>.case_t, or None to skip the case
  classify(case, obs)            -> hashable signature if the case is non-trivial else None
  finding_key(case, obs, mode)   -> str signature used to match known_findings.txt (optional)
  replay_text(case, obs, mode)   -> human-readable python snippet reproducing the case (optional)
  regenerate(run)                -> optional: translators rewriting coq/Gen/*.v; returns
                                    list of error strings (a fail-closed abort is an error)
  extra(run, impl)               -> optional extra checks; calls run.add_violation itself and
                                    may add keys to run.coverage
  TRUSTED_BASE, ASSUMPTIONS, RULE text
"""
import json
import os
import sys
import time

from . import common as C


def run_property(P, tier, seed, replay=None):
    run = C.Run(P.ID, tier, seed)
    known = C.load_known(P.ID)
    impl = C.Impl()
    cov = run.coverage
    try:
        modes = list(getattr(P, "MODES", ("c", "py")))
        if "c" in modes and not impl.c_ok:
            C.log("C extension does not compile:\n" + impl.c_error)
            print("BUILD-FAILED property=%s (C extension does not compile; no verdict)" % P.ID)
            return 2

        # ---- 1. translators + proofs
        proof_errors = []
        if hasattr(P, "regenerate"):
            try:
                proof_errors += ["translator: " + e for e in (P.regenerate(run) or [])]
            except Exception as e:  # fail closed
                proof_errors.append("translator aborted: %r" % (e,))
        hits = C.scan_forbidden(C.coq_closure(list(P.COQ_TARGETS) + [P.PROPERTY_FILE]))
        if hits:
            proof_errors += ["forbidden token: " + h for h in hits]
        ok, out = C.coq_make(P.COQ_TARGETS)
        assumptions = {}
        if not ok:
            proof_errors.append("coq build failed:\n" + out[-3000:])
        else:
            rc, pout, perr = C.coqc_file(os.path.join(C.COQ, P.PROPERTY_FILE), cwd=C.COQ)
            if rc != 0:
                proof_errors.append("property file does not check: " + perr[-2000:])
            assumptions, nchunks = C.parse_assumptions(pout, P.THEOREMS)
            src = open(os.path.join(C.COQ, P.PROPERTY_FILE)).read()
            for t in P.THEOREMS:
                if ("Theorem %s " % t) not in src and ("Theorem %s\n" % t) not in src and ("Theorem %s:" % t) not in src:
                    proof_errors.append("theorem %s not stated in %s" % (t, P.PROPERTY_FILE))
                if assumptions.get(t) == "MISSING":
                    proof_errors.append("no Print Assumptions output for %s" % t)
            allowed = getattr(P, "ALLOWED_AXIOMS", ())
            for t, a in assumptions.items():
                if a.startswith("Axioms:"):
                    names = [l.split(":")[0].strip() for l in a.split("\n")[1:] if l and not l.startswith(" ") and ":" in l]
                    bad = [n for n in names if n not in allowed]
                    if bad:
                        proof_errors.append("theorem %s depends on axioms %s" % (t, bad))
        cov["obligations"] = len(P.THEOREMS) + (1 if hasattr(P, "regenerate") else 0)
        cov["theorems"] = list(P.THEOREMS)
        cov["print_assumptions"] = assumptions
        cov["checker_cmd"] = "make -f Makefile.coq %s && coqc -Q coq ZI coq/%s  (Coq 8.16.1, full .vo build, no -vos)" % (" ".join(P.COQ_TARGETS), P.PROPERTY_FILE)
        cov["trusted_base"] = list(getattr(P, "TRUSTED_BASE", [])) + [
            "Coq 8.16.1 kernel + vm_compute (no native_compute)",
            "correspondence harness (generators, driver, canonicaliser) in /verif/harness",
            "gcc build of the C extension from the working tree; CPython 3.12 semantics",
        ]

        # thorough tier: independent re-check of the compiled property module and everything it
        # depends on with coqchk, recording the axioms it reports
        if tier == "thorough" and not proof_errors:
            import subprocess
            mod = "ZI." + P.PROPERTY_FILE[:-2].replace("/", ".")
            pr = subprocess.run(["timeout", "3000", "coqchk", "-silent", "-o", "-Q", C.COQ, "ZI", mod],
                                capture_output=True, text=True, cwd=C.COQ)
            txt = pr.stdout + pr.stderr
            ax = txt.split("* Axioms:")[1].split("* Constants")[0].strip() if "* Axioms:" in txt else "coqchk output not understood"
            cov["coqchk"] = {"module": mod, "exit": pr.returncode, "axioms": ax}
            if pr.returncode != 0 or (ax != "<none>" and not all(a.strip() in getattr(P, "ALLOWED_AXIOMS", ()) for a in ax.split("\n") if a.strip())):
                proof_errors.append("coqchk rejects %s or reports axioms: %s" % (mod, txt[-1500:]))

        # ---- 2. cases
        if replay:
            with open(replay) as fh:
                rp = json.load(fh)
            cases = rp.get("cases") or [rp["case"]]
            corpus_n = 0
        else:
            corpus = C.load_corpus(P.ID)
            corpus_n = len(corpus)
            cases = corpus + P.generate(run, tier)
        cov["corpus_cases"] = corpus_n

        obs = {}
        for mode in modes:
            st, res = impl.run(P.DRIVER, {"cases": cases, "tier": tier}, mode,
                               timeout=getattr(P, "DRIVER_TIMEOUT", 900))
            if st != "ok":
                if hasattr(P, "on_driver_crash"):
                    P.on_driver_crash(run, mode, res, cases)
                    obs[mode] = None
                    continue
                raise C.HarnessError("driver %s failed in mode %s: %s" % (P.DRIVER, mode, json.dumps(res)[:3000]))
            obs[mode] = res["obs"]
            assert len(obs[mode]) == len(cases)

        # proof / translator failures are recorded first so that the cap on replay files never hides them
        import zlib
        for e in proof_errors:
            rp = {"property": P.ID, "kind": "proof obligation no longer checks", "broken": e,
                  "theorems": P.THEOREMS, "note": "the Spec oracle is run on every generated and corpus case of this run"}
            run.add_violation("proof: " + e.split("\n")[0], rp, "proof_%d" % (zlib.crc32(e.encode()) % 10000), no_input=True)

        # ---- 3. Coq evaluation
        total_model_bad = total_spec_bad = 0
        sigs = set()
        dist = {}
        for mode in modes:
            if obs[mode] is None:
                continue
            terms, idx = [], []
            for i, (c, o) in enumerate(zip(cases, obs[mode])):
                t = P.coq_case(c, o, mode)
                if t is not None:
                    terms.append(t)
                    idx.append(i)
                if mode == modes[0]:
                    s = P.classify(c, o)
                    if s is not None:
                        sigs.add(s)
                    if hasattr(P, "kind"):
                        k = P.kind(c, o)
                        dist[k] = dist.get(k, 0) + 1
            bad_model, bad_spec, errors = C.coq_eval_cases(P.TIE, terms, shard=getattr(P, "SHARD", 300))
            if errors:
                raise C.HarnessError("coqc failed on generated cases: " + json.dumps(errors)[:3000])
            total_model_bad += len(bad_model)
            total_spec_bad += len(bad_spec)
            for j in bad_spec:
                i = idx[j]
                key = P.finding_key(cases[i], obs[mode][i], mode) if hasattr(P, "finding_key") else None
                rp = {"property": P.ID, "kind": "implementation contradicts Spec on this input", "mode": mode,
                      "case": cases[i], "observed": obs[mode][i],
                      "how_to_replay": "bin/check %s --replay <this file>" % P.ID}
                if hasattr(P, "replay_text"):
                    rp["python"] = P.replay_text(cases[i], obs[mode][i], mode)
                run.add_violation("spec violated by implementation (mode %s) on case %d" % (mode, i), rp,
                                  "spec_%s_%d" % (mode, i), key=key, known=known)
            spec_set = set(bad_spec)
            for j in bad_model:
                if j in spec_set:
                    continue
                i = idx[j]
                model_says = ""
                if getattr(P, "HAS_MODEL_OUT", True) and len(run.violations) < 6:   # diagnostics for the first few only
                    model_says = C.coq_eval_expr(P.TIE, terms[j], "%s.model_out c" % P.TIE)
                rp = {"property": P.ID, "kind": "correspondence broken: model and implementation differ; "
                      "the Spec oracle accepts the implementation's answer on every explored input",
                      "broken": "correspondence %s.check_model (the theorems of %s are about a model that no longer matches the code)" % (P.TIE, P.PROPERTY_FILE),
                      "mode": mode, "case": cases[i], "observed": obs[mode][i], "model": model_says}
                run.add_violation("model/implementation disagreement (mode %s) on case %d" % (mode, i), rp,
                                  "tie_%s_%d" % (mode, i), no_input=True)

        cov["discharged"] = cov["obligations"] - min(cov["obligations"], len(proof_errors))
        cov["evaluations"] = len(cases) * len(modes)
        cov["distinct_nontrivial"] = len(sigs)
        cov["rule"] = getattr(P, "RULE", "")
        cov["distribution"] = dist
        cov["model_disagreements"] = total_model_bad
        cov["spec_contradictions"] = total_spec_bad
        cov["modes"] = modes
        cov["samples"] = [{"case": cases[i], "observed_c_mode": (obs[modes[0]] or [None] * len(cases))[i]}
                          for i in _sample_indices(len(cases), 3)]
        c_py_diff = 0
        if len(modes) == 2 and all(obs[m] is not None for m in modes):
            c_py_diff = sum(1 for a, b in zip(obs[modes[0]], obs[modes[1]]) if a != b)
        cov["c_vs_py_differences"] = c_py_diff

        # ---- 4. extras
        if hasattr(P, "extra") and not replay:
            P.extra(run, impl, known)
        run.assumptions = list(getattr(P, "ASSUMPTIONS", []))
        return run.finish("proof")
    finally:
        impl.cleanup()


def _sample_indices(n, k):
    if n == 0:
        return []
    return sorted(set([0, n // 2, n - 1][:k]))


def main(argv=None):
    import argparse
    import importlib

    ap = argparse.ArgumentParser()
    ap.add_argument("prop")
    ap.add_argument("--tier", default=os.environ.get("VERIF_TIER", "quick"), choices=["quick", "thorough"])
    ap.add_argument("--seed", type=int, default=int(os.environ.get("VERIF_SEED", "0") or 0))
    ap.add_argument("--replay")
    a = ap.parse_args(argv)
    P = importlib.import_module("harness.props." + a.prop.lower())
    try:
        rc = run_property(P, a.tier, a.seed, a.replay)
    except C.HarnessError as e:
        C.log("HARNESS-ERROR:", e)
        rc = 3
    except SystemExit:
        raise
    except BaseException as e:   # never exit 1 without a VIOLATION line
        import traceback
        traceback.print_exc()
        C.log("HARNESS-ERROR (unexpected exception):", repr(e))
        rc = 3
    sys.exit(rc)


if __name__ == "__main__":
    main()
