"""Regenerates /verif/MANIFEST.json from harness/props/*.py (one entry per built property) and
lists every other property of properties.jsonl under not_applicable with its reason."""
import importlib
import json
import os
import pkgutil

from . import common as C
from . import props

REASONS = {}    # explicit reasons for properties deliberately not claimed

# Properties whose check has been confirmed by the coordinator (OK on the unchanged tree for
# several seeds, teeth demonstrated).  Anything else is listed under not_applicable until then.
CONFIRMED = ["C%02d" % i for i in range(1, 21)]


def main():
    ids = [json.loads(l)["id"] for l in open(os.path.join(C.VERIF, "properties.jsonl"))]
    mods = {}
    for m in pkgutil.iter_modules(props.__path__):
        P = importlib.import_module("harness.props." + m.name)
        if not hasattr(P, "ID"):
            continue
        if getattr(P, "CLAIMED", True) and P.ID in CONFIRMED and all(hasattr(P, a) for a in ("TECHNIQUE", "LEVEL_TEXT", "LEVEL_NOTE")):
            mods[P.ID] = P
        elif not getattr(P, "CLAIMED", True):
            REASONS[P.ID] = P.NOT_CLAIMED_REASON
    checks = []
    for i in ids:
        if i not in mods:
            continue
        P = mods[i]
        checks.append({
            "property_id": i,
            "quick_cmd": "bin/check %s --tier quick" % i,
            "thorough_cmd": "bin/check %s --tier thorough" % i,
            "evidence_file": "evidence/%s.json" % i,
            "replay_cmd_template": "bin/check %s --replay {path}" % i,
            "engine": "coq-model+correspondence",
            "level_claimed": {
                "category": "proof",
                "text": P.LEVEL_TEXT,
                "design_ref": "DESIGN.md section 5, %s" % i,
            },
            "level_note": P.LEVEL_NOTE,
            "technique": P.TECHNIQUE,
        })
    na = [{"property_id": i, "reason": REASONS.get(i, "check not built yet in this session (see DESIGN.md section 10 build order); no claim is made")}
          for i in ids if i not in mods]
    man = {
        "version": 1,
        "setup_cmd": "bin/setup",
        "hooks": {
            "guard": "ZOPE_INTERFACE_VERIF",
            "enable": "no source hook exists: checks copy /repo/src into a scratch directory, compile the C extension there with gcc and set ZOPE_INTERFACE_VERIF=1 (reserved, unused)",
            "baseline_off_cmd": "cd /repo && /venv/bin/python -m pytest -ra -q -p no:cacheprovider --timeout=900 --continue-on-collection-errors",
            "source_commits": [],
            "add_only": True,
        },
        "engines": [{
            "name": "coq-model+correspondence",
            "path": "coq/ + harness/",
            "serves_properties": [c["property_id"] for c in checks],
            "kind_free_text": "Gallina models with machine-checked theorems (Coq 8.16.1); model tied to /repo by differential correspondence evaluated inside Coq with vm_compute on every run, plus regenerated kernels where stated",
        }],
        "checks": checks,
        "not_applicable": na,
        "notes": "All checks: bin/check <ID> [--tier quick|thorough] [--seed N] [--replay file]; VERIF_SEED / VERIF_TIER honoured.",
    }
    with open(os.path.join(C.VERIF, "MANIFEST.json"), "w") as fh:
        json.dump(man, fh, indent=1)
    print("MANIFEST: %d checks, %d not claimed" % (len(checks), len(na)))


if __name__ == "__main__":
    main()
