(* Proofs for C16: rebuildUtilityRegistryFromLocalCache.  With rebuild=False it is the probe of
   Model/Components.v and changes nothing; with rebuild=True, on ANY state with duplicate-free
   registrations (however the utilities registry was tampered with), afterwards every listed
   utility is registered and subscribed, nothing else in the object changed, and a second probe
   finds nothing to repair. *)
From Coq Require Import List Arith Bool Lia.
Import ListNotations.
From ZI Require Import Model.Ro Model.Adapter Model.Components Spec.Components Proofs.Components.

Section Repair.
  Variable W : world.

  Lemma v_is_v_eq a b : v_is a b = true -> v_eq a b = true.
  Proof. unfold v_is, v_eq. intros ->. reflexivity. Qed.

  Lemma registered_register u p n v p' n' :
    registered (register W u [] p n (Some v)) [] p' n'
    = if akey_eqb ([], p', n') ([], p, n)
      then match registered u [] p n with
           | Some old => if v_is old v then Some old else Some v
           | None => Some v
           end
      else registered u [] p' n'.
  Proof.
    unfold registered, register. cbn [map].
    destruct (aget akey_eqb (adapters u) ([], p, n)) as [old|] eqn:E.
    - destruct (v_is old v) eqn:Ev.
      + destruct (akey_eqb ([], p', n') ([], p, n)) eqn:Ek; auto.
        apply akey_eqb_eq in Ek. injection Ek as -> ->. exact E.
      + unfold changed, provide_incr. cbn [adapters]. rewrite (aget_aset _ akey_eqb_eq).
        destruct (akey_eqb ([], p', n') ([], p, n)); reflexivity.
    - unfold changed, provide_incr. cbn [adapters]. rewrite (aget_aset _ akey_eqb_eq).
      destruct (akey_eqb ([], p', n') ([], p, n)); reflexivity.
  Qed.

  Lemma subscribed_register u p n v q c : subscribed (register W u [] p n (Some v)) [] q c = subscribed u [] q c.
  Proof. unfold subscribed, sub_leaf. now rewrite register_subscribers. Qed.

  Lemma registered_subscribe u p v p' n' : registered (subscribe W u [] (Some p) v) [] p' n' = registered u [] p' n'.
  Proof. unfold registered. now rewrite subscribe_adapters. Qed.

  Lemma subscribed_subscribe u p v q c :
    subscribed (subscribe W u [] (Some p) v) [] q c
    = if ospec_eqb q (Some p) then subscribed u [] (Some p) c || v_eq v c else subscribed u [] q c.
  Proof.
    unfold subscribed. cbn [map]. change (@nil (option spec)) with (map (@Some spec) []).
    rewrite sub_leaf_subscribe. cbn [map]. unfold skey_eqb. cbn [fst snd lspec_eqb andb].
    destruct (ospec_eqb q (Some p)) eqn:E; auto.
    apply ospec_eqb_eq in E. subst q. rewrite existsb_app. cbn. now rewrite orb_false_r.
  Qed.

  Definition repaired (u : reg) (kv : (spec * name) * (value * info * option nat)) : Prop :=
    (exists v', registered u [] (uprov kv) (uname kv) = Some v' /\ v_eq v' (ucomp kv) = true)
    /\ subscribed u [] (Some (uprov kv)) (ucomp kv) = true.

  Definition loop_step (rebuild : bool) (acc : reg * (nat * nat * nat * nat))
             (kv : (spec * name) * (value * info * option nat)) : reg * (nat * nat * nat * nat) :=
    let '(u, (nr, dr, ns, ds)) := acc in
    let '((p, n), (v, _, _)) := kv in
    let ok_reg := match registered u [] p n with Some v' => v_eq v' v | None => false end in
    let u1 := if ok_reg then u else if rebuild then register W u [] p n (Some v) else u in
    let ok_sub := subscribed u1 [] (Some p) v in
    let u2 := if ok_sub then u1 else if rebuild then subscribe W u1 [] (Some p) v else u1 in
    (u2, ((if ok_reg then nr else S nr), (if ok_reg then S dr else dr),
          (if ok_sub then ns else S ns), (if ok_sub then S ds else ds))).

  Lemma rebuild_loop_fold rebuild u0 regs : rebuild_loop W rebuild u0 regs = fold_left (loop_step rebuild) regs (u0, (0, 0, 0, 0)).
  Proof. reflexivity. Qed.

  (* one round of the loop repairs its entry and keeps every entry with a different key repaired *)
  Lemma loop_step_true acc kv :
    repaired (fst (loop_step true acc kv)) kv
    /\ forall kv', fst kv' <> fst kv -> repaired (fst acc) kv' -> repaired (fst (loop_step true acc kv)) kv'.
  Proof.
    destruct acc as [u [[[nr dr] ns] ds]]. destruct kv as [[p n] [[v i] f]]. cbn [loop_step fst].
    set (ok_reg := match registered u [] p n with Some v' => v_eq v' v | None => false end).
    set (u1 := if ok_reg then u else register W u [] p n (Some v)).
    assert (H1 : exists v', registered u1 [] p n = Some v' /\ v_eq v' v = true).
    { subst u1 ok_reg. destruct (registered u [] p n) as [old|] eqn:E.
      - destruct (v_eq old v) eqn:Ev; [eauto|]. rewrite registered_register, (eqb_refl _ akey_eqb_eq), E.
        destruct (v_is old v) eqn:Ei; [apply v_is_v_eq in Ei; congruence|]. exists v. split; auto. apply v_eq_refl.
      - rewrite registered_register, (eqb_refl _ akey_eqb_eq), E. exists v. split; auto. apply v_eq_refl. }
    assert (Hother1 : forall p' n', (p', n') <> (p, n) -> registered u1 [] p' n' = registered u [] p' n').
    { intros p' n' Hne. subst u1. destruct ok_reg; auto. rewrite registered_register.
      destruct (akey_eqb ([], p', n') ([], p, n)) eqn:Ek; auto.
      apply akey_eqb_eq in Ek. injection Ek as -> ->. congruence. }
    assert (Hsub1 : forall q c, subscribed u1 [] q c = subscribed u [] q c).
    { intros. subst u1. destruct ok_reg; auto; try apply subscribed_register. }
    set (ok_sub := subscribed u1 [] (Some p) v).
    set (u2 := if ok_sub then u1 else subscribe W u1 [] (Some p) v).
    assert (Hreg2 : forall p' n', registered u2 [] p' n' = registered u1 [] p' n').
    { intros. subst u2. destruct ok_sub; auto; try apply registered_subscribe. }
    assert (Hsub2 : forall q c, subscribed u1 [] q c = true -> subscribed u2 [] q c = true).
    { intros q c H. subst u2. destruct ok_sub; auto. rewrite subscribed_subscribe.
      destruct (ospec_eqb q (Some p)) eqn:E; auto. apply ospec_eqb_eq in E. subst q. now rewrite H. }
    split.
    - split.
      + unfold uprov, uname, ucomp. cbn [fst snd]. now rewrite Hreg2.
      + unfold uprov, ucomp. cbn [fst snd]. subst u2. destruct ok_sub eqn:E; [exact E|].
        rewrite subscribed_subscribe, (eqb_refl _ ospec_eqb_eq), v_eq_refl. apply orb_true_r.
    - intros [[p' n'] [[v' i'] f']] Hne [[w [Hw Hw']] Hs]. unfold uprov, uname, ucomp in *. cbn [fst snd] in *.
      split.
      + exists w. split; auto. rewrite Hreg2, Hother1; auto.
      + apply Hsub2. now rewrite Hsub1.
  Qed.

  Lemma loop_true_all regs : forall acc done,
    NoDup (map fst (done ++ regs)) -> (forall kv, In kv done -> repaired (fst acc) kv) ->
    forall kv, In kv (done ++ regs) -> repaired (fst (fold_left (loop_step true) regs acc)) kv.
  Proof.
    induction regs as [|x regs IH]; intros acc done ND Hd kv Hin; cbn [fold_left].
    - rewrite app_nil_r in Hin. auto.
    - destruct (loop_step_true acc x) as [Hx Hkeep].
      apply (IH (loop_step true acc x) (done ++ [x])).
      + now rewrite <- app_assoc.
      + intros kv' Hin'. apply in_app_iff in Hin'. destruct Hin' as [Hin'|[<-|[]]]; auto.
        apply Hkeep; auto. intros E. rewrite map_app in ND.
        clear -ND E Hin'. induction done as [|d done IHd]; [contradiction|].
        cbn in ND. inversion ND; subst. destruct Hin' as [->|Hin'].
        * apply H1. apply in_app_iff. right. left. now symmetry.
        * apply IHd; auto.
      + now rewrite <- app_assoc.
  Qed.

  (* the loop never touches anything but the registry it is given, and with rebuild=False not even that *)
  Lemma loop_false_fst regs : forall acc, fst (fold_left (loop_step false) regs acc) = fst acc.
  Proof.
    induction regs as [|[[p n] [[v i] f]] regs IH]; intros [u [[[nr dr] ns] ds]]; cbn [fold_left]; auto.
    rewrite IH. cbn. destruct (match registered u [] p n with Some v' => v_eq v' v | None => false end);
      destruct (subscribed u [] (Some p) v); reflexivity.
  Qed.

  Lemma loop_false_counts regs u : forall cnts,
    snd (fold_left (loop_step false) regs (u, cnts))
    = fold_left (fun acc kv =>
                   let '(nr, dr, ns, ds) := acc in
                   let '((p, n), (v, _, _)) := kv in
                   let ok_reg := match registered u [] p n with Some v' => v_eq v' v | None => false end in
                   let ok_sub := subscribed u [] (Some p) v in
                   ((if ok_reg then nr else S nr), (if ok_reg then S dr else dr),
                    (if ok_sub then ns else S ns), (if ok_sub then S ds else ds))) regs cnts.
  Proof.
    induction regs as [|[[p n] [[v i] f]] regs IH]; intros [[[nr dr] ns] ds]; cbn [fold_left]; auto.
    cbn [loop_step].
    destruct (match registered u [] p n with Some v' => v_eq v' v | None => false end);
      destruct (subscribed u [] (Some p) v); apply IH.
  Qed.

  Lemma set_gen_same u : set_gen u (generation u) = u.
  Proof. destruct u; reflexivity. Qed.

  (* rebuild=False: the probe; nothing changes *)
  Theorem rebuild_false_is_probe st :
    rebuildUtilityRegistry W false st = (st, probe st).
  Proof.
    unfold rebuildUtilityRegistry. rewrite rebuild_loop_fold.
    pose proof (loop_false_fst (c_ureg st) (c_utils st, (0, 0, 0, 0))) as Hu.
    pose proof (loop_false_counts (c_ureg st) (c_utils st) (0, 0, 0, 0)) as Hc.
    destruct (fold_left (loop_step false) (c_ureg st) (c_utils st, (0, 0, 0, 0))) as [u [[[nr dr] ns] ds]].
    cbn [fst snd] in Hu, Hc. subst u. cbn [andb]. rewrite set_gen_same.
    unfold probe. rewrite <- Hc. destruct st; reflexivity.
  Qed.

  (* rebuild=True repairs: on any state whose registrations have distinct keys *)
  Theorem rebuild_true_repairs st : NoDup (map fst (c_ureg st)) ->
    let st' := fst (rebuildUtilityRegistry W true st) in
    (forall p n v i f, In ((p, n), (v, i, f)) (c_ureg st) ->
       (exists v', registered (c_utils st') [] p n = Some v' /\ v_eq v' v = true)
       /\ subscribed (c_utils st') [] (Some p) v = true)
    /\ c_ureg st' = c_ureg st /\ c_cache st' = c_cache st /\ c_adapters st' = c_adapters st
    /\ c_areg st' = c_areg st /\ c_sreg st' = c_sreg st /\ c_hreg st' = c_hreg st
    /\ probe st' = (0, length (c_ureg st), 0, length (c_ureg st)).
  Proof.
    intros ND st'. subst st'. unfold rebuildUtilityRegistry. rewrite rebuild_loop_fold.
    pose proof (loop_true_all (c_ureg st) (c_utils st, (0, 0, 0, 0)) [] ND (fun kv H => match H with end)) as Hall.
    cbn [app] in Hall.
    destruct (fold_left (loop_step true) (c_ureg st) (c_utils st, (0, 0, 0, 0))) as [u [[[nr dr] ns] ds]].
    cbn [fst snd] in *.
    set (g := if true && (negb (Nat.eqb ns 0) || negb (Nat.eqb nr 0)) then S (generation (c_utils st)) else generation (c_utils st)).
    assert (Hrep : forall kv, In kv (c_ureg st) -> repaired (set_gen u g) kv).
    { intros kv Hkv. exact (Hall kv Hkv). }
    split; [|repeat split].
    - intros p n v i f Hin. exact (Hrep _ Hin).
    - unfold probe. cbn [with_utils c_utils c_ureg].
      rewrite (probe_fold (set_gen u g) (c_ureg st)); auto.
  Qed.
End Repair.
