(* Proofs for C17.  The arity kernel is the GENERATED Gen/Incompat.v (re-translated from
   verify.py:_incompat on every run): the proofs below only case-split on whatever comparisons
   and flags occur in it and finish with lia, so they survive harmless rewrites of the kernel
   and fail when its meaning changes. *)
From Coq Require Import List Arith Bool Lia.
Import ListNotations.
From ZI Require Import Spec.Binds Model.Verify Gen.Incompat.

(* ---- boolean versions ---- *)

Lemma admitsb_spec s sh : admitsb s sh = true <-> admits s sh.
Proof.
  unfold admitsb, admits. destruct sh as [k kw]; cbn [fst snd].
  rewrite andb_true_iff, orb_true_iff, !andb_true_iff, !Nat.leb_le, Nat.ltb_lt.
  destruct kw, (kwargs s); cbn; intuition congruence.
Qed.

Lemma bindsb_spec s sh : bindsb s sh = true <-> binds s sh.
Proof.
  unfold bindsb, binds. destruct sh as [k kw]; cbn [fst snd].
  rewrite !andb_true_iff, orb_true_iff, !Nat.leb_le.
  destruct kw, (kwargs s); cbn; intuition congruence.
Qed.

Lemma call_bindsb_spec self raw sh : call_bindsb self raw sh = true <-> call_binds self raw sh.
Proof. unfold call_bindsb, call_binds. destruct self; apply bindsb_spec. Qed.

Lemma wfb_spec s : wfb s = true <-> wf s.
Proof. unfold wfb, wf. apply Nat.leb_le. Qed.

(* the admitted shapes of a signature are exactly the calls that would bind to a function with
   that signature *)
Lemma admits_iff_binds s sh : wf s -> (admits s sh <-> binds s sh).
Proof.
  unfold wf, admits, binds. destruct sh as [k kw]; cbn [fst snd]. intros Hwf. split.
  - intros [[[A B]|[A B]] C]; (split; [lia|split; [|exact C]]); [left; lia|right; exact B].
  - intros [A [[B|B] C]]; (split; [|exact C]); [left; lia|].
    destruct (le_lt_dec k (npos s)); [left; lia|right; split; [lia|exact B]].
Qed.

(* ---- the kernel ---- *)

Ltac split_kernel :=
  repeat match goal with
         | |- context [Nat.ltb ?a ?b] => destruct (Nat.ltb_spec a b)
         | |- context [Nat.leb ?a ?b] => destruct (Nat.leb_spec a b)
         | |- context [Nat.eqb ?a ?b] => destruct (Nat.eqb_spec a b)
         end.

Lemma incompat_none_iff_all_shapes_bind : forall i m, wf i ->
  (incompat i m = None <-> forall sh, admits i sh -> binds m sh).
Proof.
  intros [ri ni vi ki] [rm nm vm km]. unfold wf, admits, binds, incompat.
  cbn [req npos varargs kwargs]. intros Hwf.
  destruct vi, ki, vm, km; cbn [andb orb negb]; split_kernel; cbn [andb orb negb];
    (split;
     [ try discriminate; intros _ [k kw]; cbn [fst snd]; intuition (try lia; try congruence)
     | intros Hall; try reflexivity; exfalso;
       pose proof (Hall (ri, false)) as Hs1; pose proof (Hall (ni, false)) as Hs2;
       pose proof (Hall (ri, true)) as Hs3; pose proof (Hall (S (Nat.max ni nm), false)) as Hs4;
       clear Hall;
       cbn [fst snd] in *;
       first [ solve [intuition (try lia; try congruence)] | lia ] ]).
Qed.

(* the kernel only looks at the four numbers/flags, so the verdict for a self-bearing raw
   function is the verdict for the shifted calls *)
Lemma from_function_0 raw : wf raw -> from_function raw 0 = raw.
Proof.
  destruct raw as [r n v k]. unfold wf, from_function. cbn [req npos varargs kwargs]. intros H.
  f_equal; lia.
Qed.

Lemma binds_from_method raw sh : wf raw -> (1 <= npos raw \/ varargs raw = true) ->
  (binds (from_function raw 1) sh <-> binds raw (S (fst sh), snd sh)).
Proof.
  destruct raw as [r n v k], sh as [j kw]. unfold wf, from_function, binds.
  cbn [req npos varargs kwargs fst snd]. intros Hwf Hself.
  destruct n as [|n]; cbn [Nat.min].
  - destruct Hself as [Hself|Hself]; [lia|]. subst v. intuition lia.
  - intuition lia.
Qed.

Lemma from_function_wf raw l : wf (from_function raw l).
Proof. destruct raw as [r n v k]. unfold wf, from_function. cbn [req npos varargs kwargs]. lia. Qed.

(* ---- enumeration of shapes ---- *)

Lemma In_shapes_upto k kw n : In (k, kw) (shapes_upto n) <-> k <= n.
Proof.
  unfold shapes_upto. rewrite in_flat_map. split.
  - intros [j [Hj Hin]]. apply in_seq in Hj. cbn in Hin.
    destruct Hin as [E|[E|[]]]; inversion E; subst; lia.
  - intros H. exists k. split; [apply in_seq; lia|]. destruct kw; cbn; auto.
Qed.

Lemma bounded_shapes_suffice : forall i self raw,
  (all_admitted_bindb i self raw = true <-> forall sh, admits i sh -> call_binds self raw sh).
Proof.
  intros i self raw. unfold all_admitted_bindb. rewrite forallb_forall. split.
  - intros H [k kw] Hadm.
    destruct (le_lt_dec k (shape_bound i raw)) as [Hle|Hgt].
    + specialize (H (k, kw) (proj2 (In_shapes_upto k kw _) Hle)).
      rewrite <- admitsb_spec in Hadm. rewrite Hadm in H. cbn in H. apply call_bindsb_spec, H.
    + (* beyond the bound only *args admits the shape; the shape at the bound decides *)
      set (b := shape_bound i raw) in *.
      assert (Hb : admits i (b, kw)).
      { unfold admits, shape_bound in *. cbn [fst snd] in *. subst b. intuition lia. }
      specialize (H (b, kw) (proj2 (In_shapes_upto b kw _) (le_n _))).
      rewrite <- admitsb_spec in Hb. rewrite Hb in H. cbn in H. apply call_bindsb_spec in H.
      unfold call_binds, binds, shape_bound in *. subst b. destruct self; cbn [fst snd] in *; intuition lia.
  - intros H sh _. destruct (admitsb i sh) eqn:E; [|reflexivity]. cbn.
    apply call_bindsb_spec, H, admitsb_spec, E.
Qed.

(* ---- one element ---- *)

Lemma check_sigs_none n i m : check_sigs incompat n i m = None <-> incompat i m = None.
Proof. unfold check_sigs. destruct (incompat i m); split; congruence. Qed.

Lemma check_sigs_class n i m :
  option_map err_class (check_sigs incompat n i m)
  = if match incompat i m with None => true | Some _ => false end then None else Some (FBrokenMethod n).
Proof. unfold check_sigs. destruct (incompat i m); reflexivity. Qed.

Lemma kernel_decides i self raw : wf i -> wf raw -> (self = true -> 1 <= npos raw \/ varargs raw = true) ->
  (incompat i (from_function raw (if self then 1 else 0)) = None
   <-> all_admitted_bindb i self raw = true).
Proof.
  intros Hi Hraw Hself. rewrite bounded_shapes_suffice, incompat_none_iff_all_shapes_bind by assumption.
  destruct self; cbn [call_binds].
  - split; intros H sh Ha; specialize (H sh Ha); apply binds_from_method in H; auto.
  - rewrite from_function_0 by assumption. reflexivity.
Qed.

Lemma kernel_decides_b i self raw : wf i -> wf raw -> (self = true -> 1 <= npos raw \/ varargs raw = true) ->
  match incompat i (from_function raw (if self then 1 else 0)) with None => true | Some _ => false end
  = all_admitted_bindb i self raw.
Proof.
  intros Hi Hraw Hself. pose proof (kernel_decides i self raw Hi Hraw Hself) as K.
  destruct (incompat i _), (all_admitted_bindb i self raw); intuition congruence.
Qed.

Lemma verify_element_class vt cit e : elem_wf vt cit e ->
  option_map err_class (verify_element incompat vt cit e) = elem_failure vt cit e.
Proof.
  destruct e as [[n d] a]. unfold elem_wf. intros [Hd Ha].
  destruct d as [|i]; [destruct a, vt; reflexivity|].
  specialize (Hd i eq_refl).
  destruct a; try (destruct vt; reflexivity).
  - (* a Python function *)
    cbn [verify_element elem_failure callee].
    rewrite check_sigs_class.
    set (self := match vt with VClass => cit | VObject => false end).
    destruct (Ha self raw eq_refl) as [Hraw Hself].
    replace (match vt with VClass => if cit then 1 else 0 | VObject => 0 end)
      with (if self then 1 else 0) by (subst self; destruct vt, cit; reflexivity).
    rewrite kernel_decides_b by assumption. reflexivity.
  - (* a bound method *)
    cbn [verify_element elem_failure callee]. unfold from_method.
    rewrite check_sigs_class.
    destruct (Ha true raw eq_refl) as [Hraw Hself].
    pose proof (kernel_decides_b i true raw Hd Hraw Hself) as K.
    change (if true then 1 else 0) with 1 in K. rewrite K. reflexivity.
Qed.

(* ---- the whole verification ---- *)

Lemma filter_map_class vt cit elems : Forall (elem_wf vt cit) elems ->
  map err_class (filter_map (verify_element incompat vt cit) elems)
  = filter_map (elem_failure vt cit) elems.
Proof.
  induction 1 as [|e l He Hl IH]; [reflexivity|]. cbn [filter_map].
  rewrite <- (verify_element_class vt cit e He).
  destruct (verify_element incompat vt cit e); cbn [option_map map]; congruence.
Qed.

Lemma verify_errors_class vt tent decl cit elems : Forall (elem_wf vt cit) elems ->
  map err_class (verify_errors incompat vt tent decl cit elems) = spec_failures vt tent decl cit elems.
Proof.
  intros H. unfold verify_errors, spec_failures. rewrite map_app, filter_map_class by assumption.
  destruct (negb tent && negb decl); reflexivity.
Qed.

Lemma errors_reported_exactly : forall vt tentative declares cand_is_type elems,
  Forall (elem_wf vt cand_is_type) elems ->
  match verify incompat vt tentative declares cand_is_type elems with
  | Ok => spec_failures vt tentative declares cand_is_type elems = []
  | Single e => spec_failures vt tentative declares cand_is_type elems = [err_class e]
  | Multiple es => 2 <= length es /\
                   map err_class es = spec_failures vt tentative declares cand_is_type elems
  end.
Proof.
  intros vt tent decl cit elems H. pose proof (verify_errors_class vt tent decl cit elems H) as E.
  unfold verify. destruct (verify_errors incompat vt tent decl cit elems) as [|e [|e' l]]; cbn in *; auto.
  split; [lia|assumption].
Qed.

(* conversely the outcome is determined by the number of failures *)
Lemma outcome_by_count : forall vt tentative declares cand_is_type elems,
  Forall (elem_wf vt cand_is_type) elems ->
  let fs := spec_failures vt tentative declares cand_is_type elems in
  (length fs = 0 -> verify incompat vt tentative declares cand_is_type elems = Ok) /\
  (length fs = 1 -> exists e, verify incompat vt tentative declares cand_is_type elems = Single e) /\
  (2 <= length fs -> exists es, verify incompat vt tentative declares cand_is_type elems = Multiple es).
Proof.
  intros vt tent decl cit elems H fs. subst fs.
  rewrite <- (verify_errors_class vt tent decl cit elems H), map_length.
  unfold verify. destruct (verify_errors incompat vt tent decl cit elems) as [|e [|e' l]]; cbn;
    repeat split; intros; try lia; eauto.
Qed.

Lemma filter_map_nil {A B} (f : A -> option B) l :
  filter_map f l = [] <-> forall x, In x l -> f x = None.
Proof.
  induction l as [|x l IH]; cbn; [tauto|].
  destruct (f x) eqn:E.
  - split; [discriminate|]. intros H. specialize (H x (or_introl eq_refl)). congruence.
  - rewrite IH. split; [intros H y [<-|Hy]; auto | intros H y Hy; auto].
Qed.

(* one element has no failure iff it conforms, in the property's words *)
Definition elem_conforms (vt : vtype) (cit : bool) (e : elem) : Prop :=
  let '(_, d, a) := e in
  (a = VMissing -> d = DAttr /\ vt = VClass) /\
  (forall s, d = DMethod s -> a <> VOther /\ (a = VProperty -> vt = VClass)) /\
  (forall s self_bound raw, d = DMethod s -> callee vt cit a = Some (self_bound, raw) ->
     forall sh, admits s sh -> call_binds self_bound raw sh).

Lemma elem_failure_none vt cit e : elem_failure vt cit e = None <-> elem_conforms vt cit e.
Proof.
  destruct e as [[n d] a]. unfold elem_conforms.
  destruct d as [|i].
  - destruct a, vt; cbn [elem_failure];
      (split;
       [ first [ discriminate
               | intros _; split;
                 [ first [ discriminate | intros _; split; reflexivity ]
                 | split; intros; discriminate ] ]
       | first [ reflexivity | intros [H _]; destruct (H eq_refl) as [_ X]; discriminate ] ]).
  - destruct a; cbn [elem_failure callee].
    + split; [discriminate|]. intros [H _]. destruct (H eq_refl); discriminate.
    + pose proof (bounded_shapes_suffice i (match vt with VClass => cit | VObject => false end) raw) as B.
      destruct (all_admitted_bindb i _ raw).
      * split; [intros _|reflexivity]. repeat split; try discriminate.
        intros s sb r E1 E2. inversion E1; inversion E2; subst. apply B; reflexivity.
      * split; [discriminate|]. intros [_ [_ H]]. exfalso.
        assert (false = true); [|discriminate]. apply B. apply (H i _ raw eq_refl eq_refl).
    + pose proof (bounded_shapes_suffice i true raw) as B.
      destruct (all_admitted_bindb i true raw).
      * split; [intros _|reflexivity]. repeat split; try discriminate.
        intros s sb r E1 E2. inversion E1; inversion E2; subst. apply B; reflexivity.
      * split; [discriminate|]. intros [_ [_ H]]. exfalso.
        assert (false = true); [|discriminate]. apply B. apply (H i _ raw eq_refl eq_refl).
    + split; [intros _|reflexivity]. repeat split; discriminate.
    + destruct vt; split; try discriminate; try reflexivity.
      * intros _. repeat split; try discriminate; auto.
      * intros [_ [H _]]. destruct (H i eq_refl) as [_ H']. specialize (H' eq_refl). discriminate.
    + split; [intros _|reflexivity]. repeat split; discriminate.
    + split; [discriminate|]. intros [_ [H _]]. destruct (H i eq_refl) as [H' _]. congruence.
Qed.

Lemma verify_success_iff : forall vt tentative declares cand_is_type elems,
  Forall (elem_wf vt cand_is_type) elems ->
  (verify incompat vt tentative declares cand_is_type elems = Ok <->
   (tentative = true \/ declares = true) /\
   forall n d a, In (n, d, a) elems ->
     (a = VMissing -> d = DAttr /\ vt = VClass) /\
     (forall s, d = DMethod s -> a <> VOther /\ (a = VProperty -> vt = VClass)) /\
     (forall s self_bound raw, d = DMethod s -> callee vt cand_is_type a = Some (self_bound, raw) ->
        forall sh, admits s sh -> call_binds self_bound raw sh)).
Proof.
  intros vt tent decl cit elems H.
  pose proof (errors_reported_exactly vt tent decl cit elems H) as E.
  pose proof (outcome_by_count vt tent decl cit elems H) as [C0 _].
  assert (S : verify incompat vt tent decl cit elems = Ok <-> spec_failures vt tent decl cit elems = []).
  { split.
    - intros V. rewrite V in E. exact E.
    - intros F. apply C0. rewrite F. reflexivity. }
  rewrite S. unfold spec_failures. split.
  - intros F. apply app_eq_nil in F. destruct F as [F1 F2]. split.
    + destruct tent, decl; cbn in F1; auto; discriminate.
    + intros n d a Hin. rewrite filter_map_nil in F2. specialize (F2 _ Hin).
      apply elem_failure_none in F2. exact F2.
  - intros [D F]. assert (negb tent && negb decl = false) as ->.
    { destruct D as [-> | ->]; [reflexivity|apply andb_false_r]. }
    cbn [app]. apply filter_map_nil. intros [[n d] a] Hin. apply elem_failure_none. exact (F n d a Hin).
Qed.

(* the well-formedness hypothesis is decidable (used by the Examples and by Tie/C17.v) *)
Lemma elem_wfb_sound vt cit e : elem_wfb vt cit e = true -> elem_wf vt cit e.
Proof.
  destruct e as [[n d] a]. unfold elem_wfb, elem_wf. rewrite andb_true_iff. intros [Hd Ha]. split.
  - intros s ->. apply wfb_spec, Hd.
  - intros sb raw E. rewrite E in Ha. rewrite andb_true_iff, orb_true_iff in Ha.
    destruct Ha as [Hw Hs]. split; [apply wfb_spec, Hw|].
    intros ->. rewrite orb_true_iff in Hs. destruct Hs as [[Hs|Hs]|Hs];
      [discriminate|left; apply Nat.leb_le, Hs|right; exact Hs].
Qed.

Lemma forallb_elem_wfb vt cit l : forallb (elem_wfb vt cit) l = true -> Forall (elem_wf vt cit) l.
Proof.
  intros H. apply Forall_forall. intros e He. apply elem_wfb_sound.
  rewrite forallb_forall in H. apply H, He.
Qed.

(* Outside the property's scope (a method with neither a first parameter nor *args cannot be
   called through an instance at all), recorded honestly: the code accepts such a method. *)
Lemma selfless_method_accepted :
  exists iface raw, wf iface /\ wf raw /\ npos raw = 0 /\ varargs raw = false /\
    incompat iface (from_function raw 1) = None /\
    (forall sh, ~ call_binds true raw sh).
Proof.
  exists (mkSig 0 0 false false), (mkSig 0 0 false true).
  repeat split; try (vm_compute; auto; fail).
  intros [k kw]. unfold call_binds, binds. cbn. intros [_ [[H|H] _]]; [inversion H|discriminate].
Qed.
