(* Proofs for property C04: Model.Adapter.uncached_lookup meets Spec.LookupSpec, for all
   worlds, registry lists, keys and arities; and the extendors invariant for all histories. *)
From Coq Require Import List Arith Bool Lia Permutation.
Import ListNotations.
From ZI Require Import Model.Ro Model.Adapter Spec.LookupSpec.

(* ------------------------------------------------------------------ basic reflection *)
Lemma memP x l : mem x l = true <-> In x l.
Proof.
  induction l as [|y l IH]; cbn; [split; [discriminate|tauto]|].
  rewrite orb_true_iff, Nat.eqb_eq, IH. split; intros [H|H]; auto.
Qed.

Lemma memF x l : mem x l = false <-> ~ In x l.
Proof. rewrite <- memP. destruct (mem x l); split; congruence. Qed.

Lemma lspec_eqb_eq a b : lspec_eqb a b = true <-> a = b.
Proof.
  unfold lspec_eqb. revert b; induction a as [|x a IH]; intros [|y b]; try (split; congruence).
  rewrite andb_true_iff, Nat.eqb_eq, IH. split; [intros [-> ->]; auto | intros E; inversion E; auto].
Qed.

Lemma akey_eqb_eq k1 k2 : akey_eqb k1 k2 = true <-> k1 = k2.
Proof.
  destruct k1 as [[r1 p1] n1], k2 as [[r2 p2] n2]. unfold akey_eqb.
  rewrite !andb_true_iff, lspec_eqb_eq, !Nat.eqb_eq.
  split; [intros [[-> ->] ->]; auto | intros E; inversion E; auto].
Qed.

Lemma ospec_eqb_eq a b : ospec_eqb a b = true <-> a = b.
Proof.
  destruct a, b; cbn; try (split; congruence).
  rewrite Nat.eqb_eq. split; congruence.
Qed.

Lemma skey_eqb_eq k1 k2 : skey_eqb k1 k2 = true <-> k1 = k2.
Proof.
  destruct k1 as [r1 p1], k2 as [r2 p2]. unfold skey_eqb. cbn [fst snd].
  rewrite andb_true_iff, lspec_eqb_eq, ospec_eqb_eq. split; [intros [-> ->]; auto | intros E; inversion E; auto].
Qed.

(* ------------------------------------------------------------------ first_some *)
Lemma first_some_none {A B} (f : A -> option B) l :
  first_some f l = None <-> forall x, In x l -> f x = None.
Proof.
  induction l as [|a l IH]; cbn; [tauto|].
  destruct (f a) eqn:E.
  - split; [discriminate|]. intros H. rewrite <- E. apply H; auto.
  - rewrite IH. split; [intros H x [<-|Hx]; auto | intros H x Hx; apply H; auto].
Qed.

Lemma first_some_spec {A B} (f : A -> option B) l y :
  first_some f l = Some y ->
  exists i x, nth_error l i = Some x /\ f x = Some y /\
              forall j x', j < i -> nth_error l j = Some x' -> f x' = None.
Proof.
  induction l as [|a l IH]; cbn; [discriminate|].
  destruct (f a) eqn:E.
  - intros H; inversion H; subst. exists 0, a. cbn. repeat split; auto. intros; lia.
  - intros H. destruct (IH H) as (i & x & Hn & Hf & Hm).
    exists (S i), x. cbn. repeat split; auto.
    intros [|j] x' Hj Hx; cbn in Hx; [inversion Hx; subst; auto|].
    apply (Hm j); auto; lia.
Qed.

(* ------------------------------------------------------------------ index_of *)
Lemma index_of_nth x l : In x l -> nth_error l (index_of x l) = Some x.
Proof.
  induction l as [|y l IH]; cbn; [tauto|].
  destruct (Nat.eqb x y) eqn:E; [apply Nat.eqb_eq in E; subst; auto|].
  intros [->|H]; [rewrite Nat.eqb_refl in E; discriminate|]. cbn. auto.
Qed.

Lemma index_of_le x l j : nth_error l j = Some x -> index_of x l <= j.
Proof.
  revert j; induction l as [|y l IH]; intros [|j]; cbn; try discriminate.
  - intros H; inversion H; subst. rewrite Nat.eqb_refl. lia.
  - intros H. destruct (Nat.eqb x y); [lia|]. specialize (IH j H). lia.
Qed.

Lemma index_of_inj x y l : In x l -> In y l -> index_of x l = index_of y l -> x = y.
Proof.
  intros Hx Hy E. apply index_of_nth in Hx. apply index_of_nth in Hy. congruence.
Qed.

(* the element found by first_some sits at its own first index, and that index is minimal
   among the elements on which f succeeds *)
Lemma first_some_index (f : spec -> option value) l y :
  first_some f l = Some y ->
  exists x, In x l /\ f x = Some y /\
            forall x', In x' l -> f x' <> None -> index_of x l <= index_of x' l.
Proof.
  intros H. destruct (first_some_spec f l y H) as (i & x & Hn & Hf & Hm).
  assert (Hin : In x l) by (eapply nth_error_In; eauto).
  assert (Hi : index_of x l = i).
  { pose proof (index_of_le x l i Hn) as Hle.
    destruct (Nat.eq_dec (index_of x l) i) as [|Hne]; auto.
    assert (Hlt : index_of x l < i) by lia.
    pose proof (Hm _ _ Hlt (index_of_nth x l Hin)). congruence. }
  exists x. repeat split; auto.
  intros x' Hx' Hne. rewrite Hi.
  destruct (le_lt_dec i (index_of x' l)); auto.
  exfalso. apply Hne. apply (Hm (index_of x' l)); auto. apply index_of_nth; auto.
Qed.

(* ------------------------------------------------------------------ the walker *)
Definition in_sros (W : world) (specs reqs : list spec) : Prop :=
  Forall2 (fun s x => In x (w_sro W s)) specs reqs.

Lemma applicable_in_sros W looked req :
  Forall2 (fun l r => isOrExtends W l r = true) looked req <-> in_sros W looked req.
Proof.
  unfold in_sros, isOrExtends. split; intros H; induction H; constructor; auto; apply memP; auto.
Qed.

Lemma walk_no_exts W m : forall specs prefix n, lookup_walk W m prefix specs [] n = None.
Proof.
  induction specs as [|s rest IH]; intros; cbn; auto.
  apply first_some_none. intros; apply IH.
Qed.

Lemma walk_none W m exts n : forall specs prefix,
  lookup_walk W m prefix specs exts n = None <->
  (forall reqs e, in_sros W specs reqs -> In e exts -> aget akey_eqb m (prefix ++ reqs, e, n) = None).
Proof.
  induction specs as [|s rest IH]; intros prefix; cbn [lookup_walk].
  - rewrite first_some_none. split.
    + intros H reqs e Hr He. inversion Hr; subst. rewrite app_nil_r. auto.
    + intros H e He. specialize (H [] e (Forall2_nil _) He). rewrite app_nil_r in H. auto.
  - rewrite first_some_none. split.
    + intros H reqs e Hr He. inversion Hr as [|? x ? reqs' Hx Hr']; subst.
      specialize (H x Hx). rewrite IH in H. specialize (H reqs' e Hr' He).
      rewrite <- app_assoc in H. exact H.
    + intros H x Hx. rewrite IH. intros reqs e Hr He.
      rewrite <- app_assoc. apply H; auto. constructor; auto.
Qed.

(* soundness + minimality of one registry's walk *)
Lemma walk_some W m exts n : forall specs prefix v,
  lookup_walk W m prefix specs exts n = Some v ->
  exists reqs e,
    in_sros W specs reqs /\ In e exts /\ aget akey_eqb m (prefix ++ reqs, e, n) = Some v /\
    forall reqs' e', in_sros W specs reqs' -> In e' exts ->
                     aget akey_eqb m (prefix ++ reqs', e', n) <> None ->
                     lex_lt (positions W specs reqs) (positions W specs reqs')
                     \/ (reqs = reqs' /\ index_of e exts <= index_of e' exts).
Proof.
  induction specs as [|s rest IH]; intros prefix v; cbn [lookup_walk]; intros H.
  - apply first_some_index in H. destruct H as (e & He & Hf & Hmin).
    exists [], e. rewrite app_nil_r. repeat split; auto; [constructor|].
    intros reqs' e' Hr He' Hne. inversion Hr; subst. rewrite app_nil_r in Hne.
    right; split; auto.
  - apply first_some_index in H. destruct H as (x & Hx & Hf & Hmin).
    destruct (IH _ _ Hf) as (reqs & e & Hr & He & Hg & Hleast).
    exists (x :: reqs), e. rewrite <- app_assoc in Hg. repeat split; auto; [constructor; auto|].
    intros reqs' e' Hr' He' Hne. inversion Hr' as [|? x' ? reqs'' Hx' Hr'']; subst.
    assert (Hw : lookup_walk W m (prefix ++ [x']) rest exts n <> None).
    { intros Hn. rewrite walk_none in Hn. apply Hne. specialize (Hn reqs'' e' Hr'' He').
      rewrite <- app_assoc in Hn. exact Hn. }
    specialize (Hmin x' Hx' Hw). cbn [positions lex_lt].
    destruct (Nat.eq_dec (index_of x (w_sro W s)) (index_of x' (w_sro W s))) as [E|NE].
    + assert (x = x') by (eapply index_of_inj; eauto). subst x'.
      assert (Hne' : aget akey_eqb m ((prefix ++ [x]) ++ reqs'', e', n) <> None)
        by (rewrite <- app_assoc; exact Hne).
      destruct (Hleast reqs'' e' Hr'' He' Hne') as [Hl|[-> Hi]].
      * left. right. auto.
      * right. auto.
    + left. left. lia.
Qed.

(* ------------------------------------------------------------------ gen_first *)
Lemma gen_first_index W l : gen_first W l ->
  forall e q, In e l -> In q l -> index_of e l <= index_of q l -> ~ strict_ext W e q.
Proof.
  induction l as [|a l IH]; cbn; [tauto|]. intros [Ha Hl] e q He Hq.
  destruct (Nat.eqb e a) eqn:Ee.
  - apply Nat.eqb_eq in Ee; subst e. intros _.
    destruct Hq as [<-|Hq]; [|auto].
    intros [H1 H2]. congruence.
  - destruct (Nat.eqb q a) eqn:Eq; [intros; lia|].
    intros Hle. destruct He as [->|He]; [rewrite Nat.eqb_refl in Ee; discriminate|].
    destruct Hq as [->|Hq]; [rewrite Nat.eqb_refl in Eq; discriminate|].
    apply IH; auto. lia.
Qed.

(* ------------------------------------------------------------------ lookup over ro *)
Definition per_reg W (looked : list spec) (p : spec) (n : name) (r : reg) : option value :=
  match ext_get (extendors r) p with
  | [] => None
  | exts => lookup_walk W (adapters r) [] looked exts n
  end.

Lemma per_reg_walk W looked p n r :
  per_reg W looked p n r = lookup_walk W (adapters r) [] looked (ext_get (extendors r) p) n.
Proof.
  unfold per_reg. destruct (ext_get (extendors r) p) eqn:E; auto. symmetry. apply walk_no_exts.
Qed.

Lemma uncached_lookup_per_reg W ro looked p n :
  uncached_lookup W ro looked p n = first_some (per_reg W looked p n) ro.
Proof. reflexivity. Qed.

(* an applicable live registration makes the registry's walk succeed *)
Lemma per_reg_applicable W looked p n r req pr v :
  w_iface W p = true -> ext_inv W r ->
  live r req pr n v -> applicable W req pr n looked p n ->
  per_reg W looked p n r <> None.
Proof.
  intros Hif (Hmem & _ & _ & _ & Hpos) Hl (_ & Hreq & Hp) Hn.
  rewrite per_reg_walk, walk_none in Hn.
  apply applicable_in_sros in Hreq.
  assert (He : In pr (ext_get (extendors r) p)).
  { apply Hmem. split; [eapply Hpos; eauto|]. unfold iro. apply filter_In. split; auto.
    apply memP. exact Hp. }
  specialize (Hn req pr Hreq He). cbn [app] in Hn. unfold live in Hl. congruence.
Qed.

Lemma lookup_sound_lemma W ro looked p n v :
  Forall (ext_inv W) ro ->
  uncached_lookup W ro looked p n = Some v ->
  exists r req pr, In r ro /\ live r req pr n v /\ applicable W req pr n looked p n.
Proof.
  intros Hinv H. rewrite uncached_lookup_per_reg in H.
  apply first_some_spec in H. destruct H as (i & r & Hn & Hf & _).
  assert (Hr : In r ro) by (eapply nth_error_In; eauto).
  rewrite per_reg_walk in Hf. apply walk_some in Hf.
  destruct Hf as (reqs & e & Hreq & He & Hg & _). cbn [app] in Hg.
  exists r, reqs, e. repeat split; auto.
  - apply applicable_in_sros; auto.
  - rewrite Forall_forall in Hinv. destruct (Hinv r Hr) as (Hmem & _).
    apply Hmem in He. destruct He as [_ He]. unfold iro in He. apply filter_In in He.
    apply memP. tauto.
Qed.

Lemma lookup_complete_lemma W ro looked p n :
  Forall (ext_inv W) ro -> w_iface W p = true ->
  (uncached_lookup W ro looked p n = None <->
   forall r req pr v, In r ro -> live r req pr n v -> ~ applicable W req pr n looked p n).
Proof.
  intros Hinv Hif. rewrite Forall_forall in Hinv. split.
  - intros H r req pr v Hr Hl Ha. rewrite uncached_lookup_per_reg, first_some_none in H.
    eapply per_reg_applicable; eauto.
  - intros H. destruct (uncached_lookup W ro looked p n) eqn:E; auto.
    apply lookup_sound_lemma in E; [|apply Forall_forall; auto].
    destruct E as (r & req & pr & Hr & Hl & Ha). exfalso. eapply H; eauto.
Qed.

Lemma lookup_least_lemma W ro looked p n v :
  Forall (ext_inv W) ro -> w_iface W p = true ->
  uncached_lookup W ro looked p n = Some v ->
  exists iw rw reqw pw,
    nth_error ro iw = Some rw /\ live rw reqw pw n v /\ applicable W reqw pw n looked p n /\
    forall ic rc reqc pc vc,
      nth_error ro ic = Some rc -> live rc reqc pc n vc -> applicable W reqc pc n looked p n ->
      preferred W looked iw reqw pw ic reqc pc.
Proof.
  intros Hinv Hif H. rewrite Forall_forall in Hinv. rewrite uncached_lookup_per_reg in H.
  apply first_some_spec in H. destruct H as (iw & rw & Hn & Hf & Hbefore).
  assert (Hr : In rw ro) by (eapply nth_error_In; eauto).
  pose proof (Hinv rw Hr) as Hrw. destruct Hrw as (Hmem & _ & Hgf & _ & Hpos).
  rewrite per_reg_walk in Hf. apply walk_some in Hf.
  destruct Hf as (reqs & e & Hreq & He & Hg & Hleast). cbn [app] in Hg.
  exists iw, rw, reqs, e. split; auto. split; auto. split.
  { repeat split; auto; [apply applicable_in_sros; auto|].
    apply Hmem in He. destruct He as [_ He]. unfold iro in He. apply filter_In in He.
    apply memP. tauto. }
  intros ic rc reqc pc vc Hnc Hlc Hac.
  assert (Hrc : In rc ro) by (eapply nth_error_In; eauto).
  assert (Hpc : per_reg W looked p n rc <> None) by (eapply per_reg_applicable; eauto).
  unfold preferred, rank. cbn [lex_lt].
  destruct (lt_eq_lt_dec iw ic) as [[Hlt|Heq]|Hgt].
  - left. left. exact Hlt.
  - subst ic. assert (rc = rw) by congruence. subst rc.
    destruct Hac as (_ & Hreqc & Hpcx). apply applicable_in_sros in Hreqc.
    assert (Hec : In pc (ext_get (extendors rw) p)).
    { apply Hmem. split; [eapply Hpos; eauto|]. unfold iro. apply filter_In. split; auto.
      apply memP; auto. }
    assert (Hne : aget akey_eqb (adapters rw) ([] ++ reqc, pc, n) <> None)
      by (cbn [app]; unfold live in Hlc; congruence).
    destruct (Hleast reqc pc Hreqc Hec Hne) as [Hl|[-> Hi]].
    + left. right. auto.
    + right. repeat split; auto. eapply gen_first_index; eauto.
  - exfalso. apply Hpc. eapply Hbefore; eauto.
Qed.
