(* C08 - the kernels GENERATED from the source text (coq/Gen/LookupPy.v from adapter.py by
   harness/translate/lookup_py.py; coq/Gen/LookupC.v from _zope_interface_coptimizations.c by
   harness/translate/lookup_c.py) are the functions of the shared model Model/Lookup.v resp. of
   Model/CLookup.v, for all inputs and all cache states.  Re-checked on every run against the
   regenerated text. *)
From Coq Require Import List Arith Bool.
Import ListNotations.
From ZI Require Import Model.Ro Model.Adapter Model.Lookup Model.CLookup Model.LookupPrims Gen.LookupPy Gen.LookupC.

(* case analysis on whatever the two sides still branch on *)
Ltac split_match :=
  match goal with
  | |- context [match ?x with _ => _ end] =>
      first [ is_var x; destruct x | destruct x eqn:? ]
  end.
Ltac split_hyp :=
  match goal with
  | H : context [match ?x with _ => _ end] |- _ => destruct x eqn:?; cbn in H; try discriminate
  end.
Ltac crush :=
  cbn; repeat (first [split_match | split_hyp]; cbn in *; try discriminate; try reflexivity); try reflexivity.

Lemma py_getcache_flat p n : py_getcache p n = (p, n).
Proof. unfold py_getcache, str_truthy, h_named, h_top. destruct n; reflexivity. Qed.

Lemma gen_c_getcache_eq p name : gen_c_getcache p name = c_getcache p name.
Proof.
  unfold gen_c_getcache, c_getcache, c_present, c_is_true, str_truthy, h_named, h_top, c_name_str.
  destruct name as [[[|n]|]|]; reflexivity.
Qed.

Lemma c_getcache_flat p name : c_getcache p name = (p, c_name_str name).
Proof. destruct name as [[[|n]|]|]; reflexivity. Qed.

Section GenEq.
  Variable u_lookup : list spec -> spec -> Adapter.name -> option value.
  Variable u_lookupAll : list spec -> spec -> list (Adapter.name * value).
  Variable u_subscriptions : list spec -> option spec -> list value.
  Variable call : value -> list nat -> option nat.

  (* ---------------------------------------------------------------- Python *)
  Lemma py_subscribe_eq c req : py_subscribe c req = subscribe_required c req.
  Proof. reflexivity. Qed.

  Lemma py_changed_eq c : py_changed c = cache_changed c /\ py_lb_changed c = mkC [] [] [] (c_required c).
  Proof. split; reflexivity. Qed.

  Lemma py_lookup_eq c req p n : py_lookup u_lookup c req p n = lookup u_lookup c req p n.
  Proof.
    unfold py_lookup, lookup. destruct n as [n|]; [|reflexivity].
    rewrite !py_getcache_flat. unfold h_get, h_set, py_subscribe, set_required, subscribe_required.
    destruct req as [|s [|s' l]]; crush.
  Qed.

  Lemma py_lookup1_eq c r p n : py_lookup1 u_lookup c r p n = lookup1 u_lookup c r p n.
  Proof.
    unfold py_lookup1, lookup1. destruct n as [n|]; [|reflexivity].
    rewrite !py_getcache_flat, py_lookup_eq. unfold h_get. crush.
  Qed.

  Lemma py_adapter_hook_eq c p o n :
    py_adapter_hook u_lookup call c p o n = adapter_hook u_lookup call c p o n.
  Proof.
    unfold py_adapter_hook, adapter_hook. destruct n as [n|]; [|reflexivity].
    rewrite !py_getcache_flat, py_lookup_eq. unfold h_get, unwrap, lookup. crush.
  Qed.

  Lemma py_queryAdapter_eq c o p n :
    py_queryAdapter u_lookup call c o p n = adapter_hook u_lookup call c p o n.
  Proof. unfold py_queryAdapter. apply py_adapter_hook_eq. Qed.

  Lemma py_queryMultiAdapter_eq c os p n :
    py_queryMultiAdapter u_lookup call c os p n = queryMultiAdapter u_lookup call c os p n.
  Proof.
    unfold py_queryMultiAdapter, queryMultiAdapter. rewrite py_lookup_eq.
    change (map (fun o => match o_super_of o with Some u => u | None => o_id o end) os) with (map unwrap os).
    destruct (lookup u_lookup c (map o_provides os) p n) as [c' [f| |]]; crush.
  Qed.

  Lemma py_lookupAll_eq c req p : py_lookupAll u_lookupAll c req p = lookupAll u_lookupAll c req p.
  Proof. unfold py_lookupAll, lookupAll, m_get, m_set, py_subscribe, set_required, subscribe_required. crush. Qed.

  Lemma py_subscriptions_eq c req p :
    py_subscriptions u_subscriptions c req p = subscriptions u_subscriptions c req p.
  Proof. unfold py_subscriptions, subscriptions, s_get, s_set, py_subscribe, set_required, subscribe_required. crush. Qed.

  Lemma py_names_eq c req p : py_names u_lookupAll c req p = names u_lookupAll c req p.
  Proof. unfold py_names, names. rewrite py_lookupAll_eq. reflexivity. Qed.

  Lemma py_subscribers_eq c os p :
    py_subscribers u_subscriptions call c os p = subscribers u_subscriptions call c os p.
  Proof.
    unfold py_subscribers, subscribers. rewrite py_subscriptions_eq.
    destruct (subscriptions u_subscriptions c (map o_provides os) p) as [c' s]. destruct p; reflexivity.
  Qed.

  (* ---------------------------------------------------------------- C *)
  Lemma gen_c_lookup_eq c req p name d :
    gen_c_lookup u_lookup c req p name d = c_lookup u_lookup c req p name d.
  Proof.
    unfold gen_c_lookup, c_lookup. rewrite !gen_c_getcache_eq, !c_getcache_flat.
    unfold h_get, h_set.
    destruct name as [[n|]|]; cbn [c_present c_is_unicode c_name_bad c_name_str];
      try reflexivity; destruct req as [|s [|s' l]]; destruct d; crush.
  Qed.

  Lemma gen_c_lookup1_eq c r p name d :
    gen_c_lookup1 u_lookup c r p name d = c_lookup1 u_lookup c r p name d.
  Proof.
    unfold gen_c_lookup1, c_lookup1. rewrite !gen_c_getcache_eq, !c_getcache_flat, !gen_c_lookup_eq.
    unfold h_get.
    destruct name as [[n|]|]; cbn [c_present c_is_unicode c_name_bad c_name_str fst snd];
      try reflexivity; destruct d; crush.
  Qed.

  Lemma gen_c_adapter_hook_eq c p o name d :
    gen_c_adapter_hook u_lookup call c p o name d = c_adapter_hook u_lookup call c p o name d.
  Proof.
    unfold gen_c_adapter_hook, c_adapter_hook, c_hook_finish. rewrite !gen_c_lookup1_eq.
    destruct name as [[n|]|]; cbn [c_present c_is_unicode c_name_bad]; try reflexivity;
      (destruct (c_lookup1 u_lookup c (o_provides o) p _ DNone) as [c' [f| |]]; [|reflexivity|reflexivity];
       destruct f; cbn [is_none negb call_obj]; destruct d; cbn; try reflexivity;
       destruct (o_super_of o); cbn; try reflexivity;
       destruct (call _ _); reflexivity).
  Qed.

  Lemma gen_c_queryAdapter_eq c o p name d :
    gen_c_queryAdapter u_lookup call c o p name d = c_queryAdapter u_lookup call c o p name d.
  Proof. unfold gen_c_queryAdapter, c_queryAdapter. apply gen_c_adapter_hook_eq. Qed.

  Lemma gen_c_lookupAll_eq c req p : gen_c_lookupAll u_lookupAll c req p = c_lookupAll u_lookupAll c req p.
  Proof. unfold gen_c_lookupAll, c_lookupAll, m_get, m_set, subscribe_required. crush. Qed.

  Lemma gen_c_subscriptions_eq c req p :
    gen_c_subscriptions u_subscriptions c req p = c_subscriptions u_subscriptions c req p.
  Proof. unfold gen_c_subscriptions, c_subscriptions, s_get, s_set, subscribe_required. crush. Qed.
End GenEq.
