(* Proofs for property C19 (Model/Super.v against Spec/Super.v). *)
From Coq Require Import List Arith Bool Lia.
Import ListNotations.
From ZI Require Import Spec.C3 Proofs.Ro Model.Ro Model.Adapter Model.Lookup Model.Super Spec.Super.

(* ------------------------------------------------------------------ dictionaries *)
Section NatMapFacts.
Context {V : Type}.
Implicit Types m : list (nat * V).

Lemma nget_nset_eq m k v : nget (nset m k v) k = Some v.
Proof.
  induction m as [|[k' v'] m IH]; cbn; [rewrite Nat.eqb_refl; auto|].
  destruct (Nat.eqb k k') eqn:E; cbn; rewrite E; auto.
Qed.

Lemma nget_nset_neq m k k' v : k <> k' -> nget (nset m k v) k' = nget m k'.
Proof.
  intros N. induction m as [|[k0 v0] m IH]; cbn.
  - destruct (Nat.eqb k' k) eqn:E; auto. apply Nat.eqb_eq in E. congruence.
  - destruct (Nat.eqb k k0) eqn:E; cbn.
    + apply Nat.eqb_eq in E. subst k0. destruct (Nat.eqb k' k) eqn:E'; auto.
      apply Nat.eqb_eq in E'. congruence.
    + destruct (Nat.eqb k' k0); auto.
Qed.

Lemma nget_ndel_eq m k : nget (ndel m k) k = None.
Proof.
  induction m as [|[k0 v0] m IH]; cbn; auto.
  destruct (Nat.eqb k k0) eqn:E; cbn; auto. rewrite E. auto.
Qed.

Lemma nget_ndel_neq m k k' : k <> k' -> nget (ndel m k) k' = nget m k'.
Proof.
  intros N. induction m as [|[k0 v0] m IH]; cbn; auto.
  destruct (Nat.eqb k k0) eqn:E; cbn.
  - apply Nat.eqb_eq in E. subst k0. destruct (Nat.eqb k' k) eqn:E'; auto.
    apply Nat.eqb_eq in E'. congruence.
  - destruct (Nat.eqb k' k0); auto.
Qed.

Lemma nget_ndel_some m k k' v : nget (ndel m k) k' = Some v -> nget m k' = Some v.
Proof.
  destruct (Nat.eq_dec k k') as [->|N]; [rewrite nget_ndel_eq; discriminate|].
  rewrite nget_ndel_neq; auto.
Qed.
End NatMapFacts.

(* ------------------------------------------------------------------ index / rest_after *)
Lemma index_of_In x l i : index_of x l = Some i -> In x l.
Proof.
  revert i. induction l as [|y l IH]; cbn; intros i H; [discriminate|].
  destruct (Nat.eqb x y) eqn:E; [apply Nat.eqb_eq in E; auto|].
  destruct (index_of x l); [|discriminate]. right. eapply IH; eauto.
Qed.

Lemma index_of_notIn x l : index_of x l = None -> ~ In x l.
Proof.
  induction l as [|y l IH]; cbn; intros H; [tauto|].
  destruct (Nat.eqb x y) eqn:E; [discriminate|]. apply Nat.eqb_neq in E.
  destruct (index_of x l); [discriminate|]. intros [A|A]; [congruence|]. apply IH; auto.
Qed.

Lemma rest_after_index C (l : list cls) i : index_of C l = Some i -> rest_after C l = skipn (S i) l.
Proof.
  revert i. induction l as [|y l IH]; cbn [index_of rest_after]; intros i H; [discriminate|].
  rewrite Nat.eqb_sym. destruct (Nat.eqb C y) eqn:E.
  - inversion H; subst. reflexivity.
  - destruct (index_of C l) as [k|] eqn:K; [|discriminate]. inversion H; subst.
    rewrite (IH k eq_refl). reflexivity.
Qed.

Lemma rest_after_notIn C l : ~ In C l -> rest_after C l = [].
Proof.
  induction l as [|y l IH]; cbn; intros N; auto.
  destruct (Nat.eqb y C) eqn:E; [apply Nat.eqb_eq in E; subst; tauto|]. apply IH. tauto.
Qed.

Lemma NoDup_index_nth l : NoDup l -> forall k y, nth_error l k = Some y -> index_of y l = Some k.
Proof.
  induction 1 as [|x l NI ND IH]; intros k y H; [destruct k; discriminate|].
  destruct k; cbn in H |- *.
  - inversion H; subst. rewrite Nat.eqb_refl. auto.
  - destruct (Nat.eqb y x) eqn:E.
    + apply Nat.eqb_eq in E. subst. exfalso. apply NI. eapply nth_error_In; eauto.
    + rewrite (IH k y H). reflexivity.
Qed.

Lemma nth_error_skipn {A} (l : list A) k : nth_error l k = hd_error (skipn k l).
Proof.
  revert l. induction k; intros [|x l]; cbn; auto.
Qed.

(* a decomposition around the first occurrence *)
Lemma rest_after_split C l : In C l -> exists l1, l = l1 ++ C :: rest_after C l /\ ~ In C l1.
Proof.
  induction l as [|y l IH]; cbn; intros H; [tauto|].
  destruct (Nat.eqb y C) eqn:E.
  - apply Nat.eqb_eq in E. subst. exists []. split; auto.
  - apply Nat.eqb_neq in E. destruct H as [H|H]; [congruence|].
    destruct (IH H) as (l1 & E1 & N1). exists (y :: l1). split.
    + cbn. congruence.
    + intros [A|A]; auto.
Qed.

Lemma rest_after_app C l1 l2 : ~ In C l1 -> rest_after C (l1 ++ C :: l2) = l2.
Proof.
  induction l1 as [|y l1 IH]; cbn; intros N.
  - rewrite Nat.eqb_refl. auto.
  - destruct (Nat.eqb y C) eqn:E; [apply Nat.eqb_eq in E; subst; tauto|]. apply IH. tauto.
Qed.

Lemma NoDup_split_facts (l1 l2 : list nat) C : NoDup (l1 ++ C :: l2) ->
  ~ In C l1 /\ ~ In C l2 /\ forall c, In c l1 -> ~ In c l2.
Proof.
  intros N. split; [|split].
  - apply NoDup_remove_2 in N. intros H. apply N. apply in_or_app; auto.
  - apply NoDup_remove_2 in N. intros H. apply N. apply in_or_app; auto.
  - intros c H1 H2. induction l1 as [|y l1 IH]; [destruct H1|].
    cbn in N. inversion N; subst. destruct H1 as [->|H1].
    + apply H3. apply in_or_app. right. right. auto.
    + apply IH; auto.
Qed.

(* ------------------------------------------------------------------ well-formed worlds *)
Lemma lspec_eqb_eq a : forall b, lspec_eqb a b = true -> a = b.
Proof.
  unfold lspec_eqb. induction a as [|x a IH]; intros [|y b] H; try discriminate; auto.
  apply andb_true_iff in H. destruct H as [H1 H2]. apply Nat.eqb_eq in H1. f_equal; auto.
Qed.

Lemma bases_nokey g x : ~ In x (map fst g) -> bases g x = [].
Proof.
  induction g as [|[y bs] g IH]; cbn; intros N; auto.
  destruct (Nat.eqb x y) eqn:E; [apply Nat.eqb_eq in E; subst; tauto|]. apply IH. tauto.
Qed.

(* rank of a class: its number (bases come earlier); anything outside the world has no bases *)
Definition crk (E : env) (x : nat) : nat := if Nat.ltb x (cfuel E) then x else 0.

Section World.
Variable E : env.
Hypothesis OK : env_ok E = true.

Lemma ok_parts :
  wfb (fun x => x) (e_cg E) = true /\
  (exists g', e_cg E = (0, []) :: g') /\
  (forall e, In e (e_cg E) -> fst e = 0 \/ snd e <> []) /\
  map fst (e_cg E) = seq 0 (cfuel E).
Proof.
  pose proof OK as K. unfold env_ok in K.
  apply andb_true_iff in K. destruct K as [K _]. apply andb_true_iff in K. destruct K as [K _].
  apply andb_true_iff in K. destruct K as [K K4]. apply andb_true_iff in K. destruct K as [K K3].
  apply andb_true_iff in K. destruct K as [K1 K2].
  split; [auto|]. split; [|split].
  - destruct (e_cg E) as [|[[|k] [|b bs]] g']; try discriminate. eauto.
  - intros e He. rewrite forallb_forall in K3. specialize (K3 e He). apply orb_true_iff in K3.
    destruct K3 as [A|A]; [apply Nat.eqb_eq in A; auto|]. right. destruct e as [k [|z zs]]; cbn in *; [discriminate A|discriminate].
  - apply lspec_eqb_eq. auto.
Qed.

Lemma cfuel_pos : 0 < cfuel E.
Proof. destruct ok_parts as (_ & (g' & EQ) & _). unfold cfuel. rewrite EQ. cbn. lia. Qed.

Lemma class_in x : In x (map fst (e_cg E)) <-> x < cfuel E.
Proof. destruct ok_parts as (_ & _ & _ & K). rewrite K, in_seq. lia. Qed.

Lemma bases_outside x : cfuel E <= x -> bases (e_cg E) x = [].
Proof. intros H. apply bases_nokey. rewrite class_in. lia. Qed.

Lemma bases_object : bases (e_cg E) 0 = [].
Proof. destruct ok_parts as (_ & (g' & EQ) & _). rewrite EQ. reflexivity. Qed.

Lemma bases_lt x b : In b (bases (e_cg E) x) -> b < x /\ x < cfuel E.
Proof.
  intros H. destruct ok_parts as (W & _).
  destruct (wfb_wf _ _ W x) as [_ R]. split; [apply R; auto|].
  destruct (Nat.lt_ge_cases x (cfuel E)); auto. rewrite bases_outside in H; [destruct H|auto].
Qed.

Lemma env_wf : wf (crk E) (bases (e_cg E)).
Proof.
  intros x. destruct ok_parts as (W & _). destruct (wfb_wf _ _ W x) as [N _]. split; auto.
  intros b Hb. destruct (bases_lt x b Hb) as [L1 L2]. unfold crk.
  assert (A : Nat.ltb x (cfuel E) = true) by (apply Nat.ltb_lt; auto).
  assert (B : Nat.ltb b (cfuel E) = true) by (apply Nat.ltb_lt; lia).
  rewrite A, B. auto.
Qed.

Lemma crk_lt x : crk E x < cfuel E.
Proof.
  unfold crk. destruct (Nat.ltb x (cfuel E)) eqn:L; [apply Nat.ltb_lt in L; auto|apply cfuel_pos].
Qed.

Lemma crk_zero_bases x : crk E x = 0 -> bases (e_cg E) x = [].
Proof.
  unfold crk. destruct (Nat.ltb x (cfuel E)) eqn:L.
  - intros ->. apply bases_object.
  - intros _. apply bases_outside. apply Nat.ltb_ge. auto.
Qed.

(* Python's MRO as modelled = the textbook C3 linearisation over the class graph *)
Lemma mro_is_c3 T : mro_of E T = c3_lin (bases (e_cg E)) (S (cfuel E)) T.
Proof.
  unfold mro_of. rewrite (resolve_strict _ _ env_wf); [|pose proof (crk_lt T); lia].
  destruct (c3_lin (bases (e_cg E)) (S (cfuel E)) T); auto.
Qed.

Lemma mro_lin T m : mro_of E T = Some m -> Lin (bases (e_cg E)) T m.
Proof.
  rewrite mro_is_c3. intros H. apply (c3_lin_lin _ _ env_wf) in H. tauto.
Qed.

Lemma mro_NoDup T m : mro_of E T = Some m -> NoDup m.
Proof. intros H. apply mro_lin in H. eapply Lin_NoDup; eauto. Qed.
End World.

(* ------------------------------------------------------------------ the cache invariant *)
Definition rest_of (E : env) (T C : cls) : option (list cls) :=
  match mro_of E T with
  | Some mro => match rest_after C mro with [] => None | l => Some l end
  | None => None
  end.

(* every cached entry is a synthesized specification whose bases are the classes after C *)
Definition Inv (E : env) (st : state) : Prop :=
  forall T cache C s, nget (st_cache st) T = Some cache -> nget cache C = Some s ->
    exists l2 y, rest_of E T C = Some l2 /\ nth_error (st_synth st) s = Some y /\ sy_bases y = l2.

Lemma Inv_init E : Inv E init.
Proof. intros T cache C s H. discriminate. Qed.

Lemma Inv_clear E st : Inv E (clear_caches st).
Proof. intros T cache C s H. discriminate. Qed.

Lemma Inv_same E st st' :
  st_synth st' = st_synth st -> st_cache st' = st_cache st -> Inv E st -> Inv E st'.
Proof. intros S K I T cache C s. rewrite S, K. apply I. Qed.

Lemma Inv_drop E st c : Inv E st -> Inv E (drop_cache st c).
Proof.
  intros I T cache C s H1 H2. cbn in H1. apply nget_ndel_some in H1. exact (I T cache C s H1 H2).
Qed.

Lemma Inv_drops E l : forall st, Inv E st -> Inv E (fold_left drop_cache l st).
Proof. induction l as [|c l IH]; cbn; intros st I; auto. apply IH. apply Inv_drop. auto. Qed.

Lemma drops_decl l : forall st, st_decl (fold_left drop_cache l st) = st_decl st
                                 /\ st_regs (fold_left drop_cache l st) = st_regs st
                                 /\ st_synth (fold_left drop_cache l st) = st_synth st.
Proof. induction l as [|c l IH]; cbn; intros st; auto. destruct (IH (drop_cache st c)) as (A & B & D). auto. Qed.

Lemma Inv_notify E st c : Inv E st -> Inv E (notify E st c).
Proof. apply Inv_drops. Qed.

Lemma notify_decl E st c : st_decl (notify E st c) = st_decl st /\ st_regs (notify E st c) = st_regs st
                           /\ st_synth (notify E st c) = st_synth st.
Proof. apply drops_decl. Qed.

Lemma Inv_set_decl E st c x : Inv E st -> Inv E (set_decl st c x).
Proof. apply Inv_same; reflexivity. Qed.

Lemma cache_of_inv E st T C s : Inv E st -> nget (cache_of st T) C = Some s ->
  exists l2 y, rest_of E T C = Some l2 /\ nth_error (st_synth st) s = Some y /\ sy_bases y = l2.
Proof.
  intros I H. unfold cache_of in H. destruct (nget (st_cache st) T) as [cache|] eqn:K; [|discriminate].
  eapply I; eauto.
Qed.

Lemma Inv_touch E st T : Inv E st ->
  Inv E (mkSt (st_decl st) (st_synth st) (nset (st_cache st) T (cache_of st T)) (st_regs st)).
Proof.
  intros I T' cache C s H1 H2. cbn in *.
  destruct (Nat.eq_dec T T') as [<-|N].
  - rewrite nget_nset_eq in H1. inversion H1; subst. eapply cache_of_inv; eauto.
  - rewrite nget_nset_neq in H1 by auto. eapply I; eauto.
Qed.

Section WorldInv.
Variable E : env.
Hypothesis OK : env_ok E = true.

(* _implementedBy_super: the declarations are untouched, the invariant is kept, and the result
   is a specification over exactly the classes after C (an exception when there is none) *)
Lemma ibs_spec st T C : Inv E st ->
  exists st' r, implementedBy_super E st T C = (st', r) /\
    st_decl st' = st_decl st /\ st_regs st' = st_regs st /\ Inv E st' /\
    match rest_of E T C with
    | Some l2 => exists s y, r = Some s /\ nth_error (st_synth st') s = Some y /\ sy_bases y = l2
    | None => r = None
    end.
Proof.
  intros I. unfold implementedBy_super.
  set (cache := cache_of st T).
  set (st0 := mkSt (st_decl st) (st_synth st) (nset (st_cache st) T cache) (st_regs st)).
  assert (I0 : Inv E st0) by (apply Inv_touch; auto).
  destruct (nget cache C) as [s|] eqn:HC.
  - exists st0, (Some s). repeat split; auto.
    destruct (cache_of_inv E st T C s I HC) as (l2 & y & R & N & B). rewrite R. eauto.
  - destruct (mro_of E T) as [mro|] eqn:M.
    2:{ exists st0, None. unfold rest_of. rewrite M. auto. }
    assert (RO : rest_of E T C = match rest_after C mro with [] => None | l => Some l end)
      by (unfold rest_of; rewrite M; auto).
    unfold next_super_class. destruct (index_of C mro) as [i|] eqn:IX.
    2:{ exists st0, None. repeat split; auto. rewrite RO, rest_after_notIn; auto.
        apply index_of_notIn; auto. }
    rewrite (rest_after_index _ _ _ IX) in RO.
    rewrite nth_error_skipn. destruct (skipn (S i) mro) as [|nxt t] eqn:SK; cbn [hd_error].
    { exists st0, None. repeat split; auto. rewrite RO. reflexivity. }
    assert (NX : nth_error mro (S i) = Some nxt) by (rewrite nth_error_skipn, SK; auto).
    rewrite (NoDup_index_nth mro (mro_NoDup E OK T mro M) _ _ NX). rewrite SK.
    eexists _, (Some (length (st_synth st))). split; [reflexivity|]. cbn [st_decl st_regs st_synth st_cache].
    repeat split; auto.
    + intros T' cache' C' s' H1 H2. cbn [st_cache st_synth] in *.
      assert (OLD : forall s1, (exists l2 y, rest_of E T' C' = Some l2 /\ nth_error (st_synth st) s1 = Some y /\ sy_bases y = l2) ->
                    exists l2 y, rest_of E T' C' = Some l2 /\
                                 nth_error (st_synth st ++ [mkSynth (nxt :: t) (inherit (st_decl st) nxt) (declared (st_decl st) nxt) (dspecs (st_decl st) nxt)]) s1 = Some y /\
                                 sy_bases y = l2).
      { intros s1 (l2 & y & R & N & B). exists l2, y. repeat split; auto.
        rewrite nth_error_app1; auto. apply nth_error_Some. congruence. }
      destruct (Nat.eq_dec T T') as [<-|NT].
      * rewrite nget_nset_eq in H1. inversion H1; subst cache'. clear H1.
        destruct (Nat.eq_dec C C') as [<-|NC].
        -- rewrite nget_nset_eq in H2. inversion H2; subst s'.
           eexists _, _. split; [rewrite RO; reflexivity|]. split.
           ++ rewrite nth_error_app2 by lia. rewrite Nat.sub_diag. reflexivity.
           ++ reflexivity.
        -- rewrite nget_nset_neq in H2 by auto. apply OLD. eapply cache_of_inv; eauto.
      * rewrite nget_nset_neq in H1 by auto. apply OLD. eapply I; eauto.
    + rewrite RO. eexists _, _. split; [reflexivity|]. split.
      * rewrite nth_error_app2 by lia. rewrite Nat.sub_diag. reflexivity.
      * reflexivity.
Qed.

(* providedBy / implementedBy on a proxy are _implementedBy_super in both implementations *)
Lemma providedBy_super uc st C j :
  providedBy uc E st (ASuper C j) =
  (let '(st', r) := implementedBy_super E st (obj_cls E j) C in (st', option_map RSynth r)).
Proof. destruct uc; reflexivity. Qed.

Lemma implementedBy_super_eq uc st C j :
  implementedBy uc E st (ASuper C j) =
  (let '(st', r) := implementedBy_super E st (obj_cls E j) C in (st', option_map RSynth r)).
Proof. destruct uc; reflexivity. Qed.

Lemma implementedBy_eq_providedBy uc uc' st C j :
  implementedBy uc E st (ASuper C j) = providedBy uc' E st (ASuper C j).
Proof. rewrite providedBy_super, implementedBy_super_eq. reflexivity. Qed.

Lemma providedBy_superC uc st C T :
  providedBy uc E st (ASuperC C T) =
  (let '(st', r) := implementedBy_super E st T C in (st', option_map RSynth r)).
Proof. destruct uc; reflexivity. Qed.

Lemma implementedBy_superC uc st C T :
  implementedBy uc E st (ASuperC C T) =
  (let '(st', r) := implementedBy_super E st T C in (st', option_map RSynth r)).
Proof. destruct uc; reflexivity. Qed.

Lemma class_bound_eq_instance_bound uc uc' st C T j : obj_cls E j = T ->
  providedBy uc E st (ASuperC C T) = providedBy uc' E st (ASuper C j) /\
  implementedBy uc E st (ASuperC C T) = implementedBy uc' E st (ASuper C j).
Proof.
  intros <-. rewrite providedBy_superC, implementedBy_superC, providedBy_super, implementedBy_super_eq. auto.
Qed.

Lemma providedBy_inv uc st a : Inv E st ->
  exists st' r, providedBy uc E st a = (st', r) /\
    st_decl st' = st_decl st /\ st_regs st' = st_regs st /\ Inv E st'.
Proof.
  intros I. destruct a as [j|C j|C T|C].
  4:{ exists st, (Some REmpty). destruct uc; cbn; repeat split; auto. }
  3:{ rewrite providedBy_superC. destruct (ibs_spec st T C I) as (st' & r & Q & A & B & D & _).
      rewrite Q. eexists _, _. split; [reflexivity|]. repeat split; auto. }
  - exists st, (Some (provided_by_instance E j)). destruct uc; cbn; repeat split; auto.
  - rewrite providedBy_super. destruct (ibs_spec st (obj_cls E j) C I) as (st' & r & Q & A & B & D & _).
    rewrite Q. eexists _, _. split; [reflexivity|]. repeat split; auto.
Qed.

Lemma implementedBy_inv uc st a : Inv E st ->
  exists st' r, implementedBy uc E st a = (st', r) /\
    st_decl st' = st_decl st /\ st_regs st' = st_regs st /\ Inv E st'.
Proof.
  intros I. destruct a as [j|C j|C T|C].
  - exists st, None. destruct uc; cbn; repeat split; auto.
  - rewrite (implementedBy_eq_providedBy uc uc). apply providedBy_inv; auto.
  - rewrite implementedBy_superC, <- (providedBy_superC uc). apply providedBy_inv; auto.
  - exists st, (Some REmpty). destruct uc; cbn; repeat split; auto.
Qed.

(* the content answered for a proxy, in any state meeting the invariant *)
Definition fresh_answer (d : decls) (T C : cls) : option (list iface) :=
  option_map (fun l2 => iroot :: flat_map (flat E d) l2) (rest_of E T C).

Lemma answer_super uc st C j : Inv E st ->
  answer uc E st (ASuper C j) = fresh_answer (st_decl st) (obj_cls E j) C.
Proof.
  intros I. unfold answer. rewrite providedBy_super.
  destruct (ibs_spec st (obj_cls E j) C I) as (st' & r & Q & A & B & D & R).
  rewrite Q. unfold fresh_answer. destruct (rest_of E (obj_cls E j) C) as [l2|].
  - destruct R as (s & y & -> & N & BS). cbn. unfold flat_synth. rewrite N, BS, A. reflexivity.
  - subst r. reflexivity.
Qed.
End WorldInv.

(* ------------------------------------------------------------------ histories *)
(* what a step does to the declarations table, as a function of that table alone *)
Definition decl_ordered (E : env) (d : decls) (c : cls) (before after : list iface) : decls :=
  nset d c (mkCD (dedupe (elide E d c before ++ declared d c ++ elide E d c after) []) (dspecs d c) (inherit d c)).

Definition decl_step (E : env) (d : decls) (o : op) : decls :=
  match o with
  | OImplements c ifs =>
      let front x := existsb (fun b => i_extends E x b) (declared d c) in
      decl_ordered E d c (filter front ifs) (filter (fun x => negb (front x)) ifs)
  | OOnly c ifs => decl_ordered E (nset d c (mkCD [] [] false)) c ifs []
  | OFirst c i => decl_ordered E d c [i] []
  | OImplSpec c b =>
      if Nat.ltb b c && Nat.ltb c (cfuel E) then
        nset d c (mkCD (declared d c) (if mem b (contrib E d c) then dspecs d c else dspecs d c ++ [b]) (inherit d c))
      else d
  | _ => d
  end.

Section Histories.
Variable E : env.
Hypothesis OK : env_ok E = true.
Variable uc : bool.

Lemma ordered_facts st c b a :
  st_decl (ordered E st c b a) = decl_ordered E (st_decl st) c b a /\
  (Inv E st -> Inv E (ordered E st c b a)).
Proof.
  unfold ordered. split.
  - destruct (notify_decl E (set_decl st c (mkCD (dedupe (elide E (st_decl st) c b ++ declared (st_decl st) c ++ elide E (st_decl st) c a) [])
                                                 (dspecs (st_decl st) c) (inherit (st_decl st) c))) c) as (A & _). rewrite A. reflexivity.
  - intros I. apply Inv_notify. apply Inv_set_decl. auto.
Qed.

Lemma objs_of_inv args : forall st, Inv E st ->
  exists st' r, objs_of uc E st args = (st', r) /\
    st_decl st' = st_decl st /\ st_regs st' = st_regs st /\ Inv E st'.
Proof.
  induction args as [|a rest IH]; intros st I; cbn [objs_of].
  - exists st, (Some []). repeat split; auto.
  - destruct (providedBy_inv E OK uc st a I) as (st1 & r & Q & A & B & I1). rewrite Q.
    destruct r as [r|].
    + destruct (IH st1 I1) as (st2 & r2 & Q2 & A2 & B2 & I2). rewrite Q2.
      destruct r2; eexists _, _; (split; [reflexivity|]); repeat split; auto; congruence.
    + eexists _, _; (split; [reflexivity|]); repeat split; auto.
Qed.

Lemma adapt_inv st v args p n : Inv E st ->
  exists st' r, adapt uc E st v args p n = (st', r) /\
    st_decl st' = st_decl st /\ st_regs st' = st_regs st /\ Inv E st'.
Proof.
  intros I. unfold adapt. destruct (objs_of_inv args st I) as (st' & r & Q & A & B & I').
  rewrite Q. destruct r as [os|].
  - destruct v; [destruct os as [|o [|o2 os']]..|]; eexists _, _; (split; [reflexivity|]); repeat split; auto.
  - eexists _, _; (split; [reflexivity|]); repeat split; auto.
Qed.

Lemma step_facts st o : Inv E st ->
  Inv E (fst (step uc E st o)) /\ st_decl (fst (step uc E st o)) = decl_step E (st_decl st) o.
Proof.
  intros I. destruct o as [c ifs|c ifs|c i|c b|a|a|r|v args p n]; cbn [step fst decl_step].
  - unfold class_implements. destruct (ordered_facts st c
      (filter (fun x => existsb (fun b => i_extends E x b) (declared (st_decl st) c)) ifs)
      (filter (fun x => negb (existsb (fun b => i_extends E x b) (declared (st_decl st) c))) ifs)) as [A B].
    split; auto.
  - unfold class_implements_only.
    destruct (ordered_facts (notify E (set_decl st c (mkCD [] [] false)) c) c ifs []) as [A B].
    split.
    + apply B. apply Inv_notify. apply Inv_set_decl. auto.
    + rewrite A. destruct (notify_decl E (set_decl st c (mkCD [] [] false)) c) as (D & _). rewrite D. reflexivity.
  - unfold class_implements_first. destruct (ordered_facts st c [i] []) as [A B]. split; auto.
  - unfold class_implements_spec. destruct (Nat.ltb b c && Nat.ltb c (cfuel E)); [|auto].
    split.
    + apply Inv_notify. apply Inv_set_decl. auto.
    + match goal with |- st_decl (notify E ?s c) = _ => destruct (notify_decl E s c) as (D & _); rewrite D end.
      reflexivity.
  - destruct (providedBy_inv E OK uc st a I) as (st' & r & Q & A & B & I'). rewrite Q. cbn. auto.
  - destruct (implementedBy_inv E OK uc st a I) as (st' & r & Q & A & B & I'). rewrite Q. cbn. auto.
  - cbn. split; auto.
  - destruct (adapt_inv st v args p n I) as (st' & r & Q & A & B & I'). rewrite Q. cbn. auto.
Qed.

Lemma run_facts ops : forall st, Inv E st ->
  Inv E (fold_left (fun st o => fst (step uc E st o)) ops st) /\
  st_decl (fold_left (fun st o => fst (step uc E st o)) ops st) = fold_left (decl_step E) ops (st_decl st).
Proof.
  induction ops as [|o ops IH]; intros st I; cbn [fold_left]; auto.
  destruct (step_facts st o I) as [I1 D1]. destruct (IH _ I1) as [I2 D2]. split; auto.
  rewrite D2, D1. reflexivity.
Qed.

Lemma final_inv ops : Inv E (final uc E ops).
Proof. apply run_facts. apply Inv_init. Qed.

Lemma final_decl ops : st_decl (final uc E ops) = fold_left (decl_step E) ops [].
Proof. apply (run_facts ops init (Inv_init E)). Qed.

Lemma decl_filter ops : forall d,
  fold_left (decl_step E) (filter is_declaration ops) d = fold_left (decl_step E) ops d.
Proof.
  induction ops as [|o ops IH]; intros d; cbn [filter fold_left]; auto.
  destruct o; cbn [is_declaration fold_left decl_step]; auto.
Qed.
End Histories.

(* ------------------------------------------------------------------ the main statements *)
Lemma iroot_in_flat E d c : In iroot (flat E d c).
Proof. unfold flat. destruct (cfuel E); cbn; auto. Qed.

Lemma rest_of_split E (OK : env_ok E = true) T C mro l1 l2 :
  mro_of E T = Some mro -> mro = l1 ++ C :: l2 -> l2 <> [] -> rest_of E T C = Some l2.
Proof.
  intros M EQ NE. unfold rest_of. rewrite M.
  pose proof (mro_NoDup E OK T mro M) as ND. rewrite EQ in ND.
  destruct (NoDup_split_facts _ _ _ ND) as (N1 & _). rewrite EQ, rest_after_app by auto.
  destruct l2; congruence.
Qed.

Lemma super_spec_exact_lemma uc E ops C j mro l1 l2 :
  env_ok E = true -> mro_of E (obj_cls E j) = Some mro -> mro = l1 ++ C :: l2 -> l2 <> [] ->
  exists st' s, providedBy uc E (final uc E ops) (ASuper C j) = (st', Some (RSynth s)) /\
    st_decl st' = st_decl (final uc E ops) /\
    forall i, In i (flat_ref E st' (RSynth s)) <->
              exists c, In c l2 /\ In i (flat E (st_decl (final uc E ops)) c).
Proof.
  intros OK M EQ NE. set (st := final uc E ops).
  pose proof (final_inv E OK uc ops) as I. fold st in I.
  rewrite providedBy_super.
  destruct (ibs_spec E OK st (obj_cls E j) C I) as (st' & r & Q & A & B & D & R).
  rewrite (rest_of_split E OK _ _ _ _ _ M EQ NE) in R. destruct R as (s & y & -> & N & BS).
  rewrite Q. exists st', s. split; [reflexivity|]. split; auto.
  intros i. cbn [flat_ref]. unfold flat_synth. rewrite N, BS, A. split.
  - intros [<-|H].
    + destruct l2 as [|c l2]; [congruence|]. exists c. split; [cbn; auto|apply iroot_in_flat].
    + apply in_flat_map in H. auto.
  - intros (c & Hc & Hi). right. apply in_flat_map. eauto.
Qed.

Lemma super_fails_lemma uc E ops C j mro :
  env_ok E = true -> mro_of E (obj_cls E j) = Some mro -> rest_after C mro = [] ->
  snd (providedBy uc E (final uc E ops) (ASuper C j)) = None.
Proof.
  intros OK M RA. pose proof (final_inv E OK uc ops) as I. rewrite providedBy_super.
  destruct (ibs_spec E OK _ (obj_cls E j) C I) as (st' & r & Q & A & B & D & R).
  unfold rest_of in R. rewrite M, RA in R. subst r. rewrite Q. reflexivity.
Qed.

Lemma excludes_lemma E T C mro l1 l2 :
  env_ok E = true -> mro_of E T = Some mro -> mro = l1 ++ C :: l2 ->
  ~ In C l2 /\ ~ In C l1 /\ forall c, In c l1 -> ~ In c l2.
Proof.
  intros OK M EQ. pose proof (mro_NoDup E OK T mro M) as ND. rewrite EQ in ND.
  destruct (NoDup_split_facts _ _ _ ND) as (A & B & D). auto.
Qed.

Lemma answer_implementedBy_eq uc uc' E st C j :
  answer_implementedBy uc E st (ASuper C j) = answer uc' E st (ASuper C j).
Proof. unfold answer_implementedBy, answer. rewrite (implementedBy_eq_providedBy E uc uc'). reflexivity. Qed.

Lemma cache_transparent_lemma uc E ops C j :
  env_ok E = true ->
  answer uc E (final uc E ops) (ASuper C j) = answer uc E (clear_caches (final uc E ops)) (ASuper C j) /\
  answer_implementedBy uc E (final uc E ops) (ASuper C j) =
    answer_implementedBy uc E (clear_caches (final uc E ops)) (ASuper C j).
Proof.
  intros OK. rewrite !(answer_implementedBy_eq uc uc).
  rewrite (answer_super E OK uc _ C j (final_inv E OK uc ops)).
  rewrite (answer_super E OK uc _ C j (Inv_clear E _)). auto.
Qed.

Lemma earlier_queries_irrelevant_lemma uc uc' E ops C j :
  env_ok E = true ->
  answer uc E (final uc E ops) (ASuper C j) =
  answer uc' E (final uc' E (filter is_declaration ops)) (ASuper C j).
Proof.
  intros OK.
  rewrite (answer_super E OK uc _ C j (final_inv E OK uc ops)).
  rewrite (answer_super E OK uc' _ C j (final_inv E OK uc' _)).
  rewrite !final_decl by auto. rewrite decl_filter. reflexivity.
Qed.

Lemma ignores_instance_lemma uc E st C j j' :
  obj_cls E j = obj_cls E j' -> providedBy uc E st (ASuper C j) = providedBy uc E st (ASuper C j').
Proof. intros H. destruct uc; cbn; rewrite H; reflexivity. Qed.

(* worlds that differ only in what the instances declare directly *)
Section SameGraphs.
Variables E E' : env.
Hypothesis G1 : e_cg E = e_cg E'.
Hypothesis G2 : e_ig E = e_ig E'.

Lemma ianc_ext j : ianc E j = ianc E' j.
Proof. unfold ianc. rewrite G2. reflexivity. Qed.

Lemma flat_cls_ext f : forall d c, flat_cls E f d c = flat_cls E' f d c.
Proof.
  induction f as [|f IH]; intros d c; cbn [flat_cls]; f_equal; f_equal.
  - apply flat_map_ext. apply ianc_ext.
  - apply flat_map_ext. apply ianc_ext.
  - rewrite G1. f_equal.
    + apply flat_map_ext. intros b. apply IH.
    + destruct (inherit d c); auto. apply flat_map_ext. intros b. apply IH.
Qed.

Lemma contrib_f_ext f : forall d c, contrib_f E f d c = contrib_f E' f d c.
Proof.
  induction f as [|f IH]; intros d c; cbn [contrib_f]; f_equal.
  rewrite G1. f_equal.
  - apply flat_map_ext. intros b. apply IH.
  - destruct (inherit d c); auto. apply flat_map_ext. intros b. apply IH.
Qed.

Lemma contrib_ext d c : contrib E d c = contrib E' d c.
Proof. unfold contrib, cfuel. rewrite G1. apply contrib_f_ext. Qed.

Lemma flat_ext d c : flat E d c = flat E' d c.
Proof. unfold flat, cfuel. rewrite G1. apply flat_cls_ext. Qed.

Lemma i_extends_ext a b : i_extends E a b = i_extends E' a b.
Proof. unfold i_extends, i_isOrExtends. rewrite ianc_ext. reflexivity. Qed.

Lemma elide_ext d c xs : elide E d c xs = elide E' d c xs.
Proof. unfold elide. apply filter_ext. intros x. rewrite flat_ext. reflexivity. Qed.

Lemma decl_ordered_ext d c b a : decl_ordered E d c b a = decl_ordered E' d c b a.
Proof. unfold decl_ordered. rewrite !elide_ext. reflexivity. Qed.

Lemma existsb_ext' {A} (f g : A -> bool) l : (forall x, f x = g x) -> existsb f l = existsb g l.
Proof. intros H. induction l; cbn; auto. rewrite H, IHl. auto. Qed.

Lemma decl_step_ext d o : decl_step E d o = decl_step E' d o.
Proof.
  destruct o; cbn [decl_step]; auto using decl_ordered_ext.
  - rewrite decl_ordered_ext. f_equal.
    + apply filter_ext. intros x. apply existsb_ext'. intros b. apply i_extends_ext.
    + apply filter_ext. intros x. f_equal. apply existsb_ext'. intros b. apply i_extends_ext.
  - rewrite contrib_ext. unfold cfuel. rewrite G1. reflexivity.
Qed.

Lemma decl_run_ext ops : forall d, fold_left (decl_step E) ops d = fold_left (decl_step E') ops d.
Proof. induction ops as [|o ops IH]; intros d; cbn; auto. rewrite decl_step_ext. apply IH. Qed.

Lemma rest_of_ext T C : rest_of E T C = rest_of E' T C.
Proof. unfold rest_of, mro_of, cfuel. rewrite G1. reflexivity. Qed.

Lemma fresh_answer_ext d T C : fresh_answer E d T C = fresh_answer E' d T C.
Proof.
  unfold fresh_answer. rewrite rest_of_ext. destruct (rest_of E' T C); cbn; auto.
  do 2 f_equal. apply flat_map_ext. intros c. apply flat_ext.
Qed.
End SameGraphs.

Lemma ignores_direct_lemma uc E E' ops C j :
  env_ok E = true -> e_cg E = e_cg E' -> e_ig E = e_ig E' -> obj_cls E j = obj_cls E' j ->
  answer uc E (final uc E ops) (ASuper C j) = answer uc E' (final uc E' ops) (ASuper C j).
Proof.
  intros OK G1 G2 OC.
  assert (OK' : env_ok E' = true) by (unfold env_ok in *; rewrite <- G1, <- G2; auto).
  rewrite (answer_super E OK uc _ C j (final_inv E OK uc ops)).
  rewrite (answer_super E' OK' uc _ C j (final_inv E' OK' uc ops)).
  rewrite !final_decl by auto. rewrite OC, (decl_run_ext E E' G1 G2). apply fresh_answer_ext; auto.
Qed.

(* ------------------------------------------------------------------ adaptation (Model/Lookup.v) *)
Section Adaptation.
Variable ul : list spec -> spec -> name -> option value.
Variable fcall : value -> list nat -> option nat.

Definition coherent (c : caches) : Prop :=
  forall req p n v, aget cache_key_eqb (c_cache c) (p, n, ckey_of req) = Some v -> v = ul req p n.

Definition invoke (f : option value) (os : list nat) : res nat :=
  match f with
  | Some f' => match fcall f' os with Some r => RVal r | None => RDefault end
  | None => RDefault
  end.

Lemma lookup_coherent c req p n : coherent c ->
  snd (lookup ul c req p (NStr n)) = match ul req p n with Some v => RVal v | None => RDefault end.
Proof.
  intros CO. unfold lookup.
  destruct (aget cache_key_eqb (c_cache c) (p, n, ckey_of req)) as [[v|]|] eqn:K; cbn [snd].
  - rewrite <- (CO _ _ _ _ K). reflexivity.
  - rewrite <- (CO _ _ _ _ K). reflexivity.
  - reflexivity.
Qed.

Lemma adapter_hook_super_lemma c p o n ob : o_super_of o = Some ob -> coherent c ->
  snd (adapter_hook ul fcall c p o (NStr n)) = invoke (ul [o_provides o] p n) [ob].
Proof.
  intros SU CO. unfold adapter_hook.
  assert (UW : unwrap o = ob) by (unfold unwrap; rewrite SU; reflexivity).
  destruct (aget cache_key_eqb (c_cache c) (p, n, CSingle (o_provides o))) as [f|] eqn:K.
  - rewrite (CO [o_provides o] p n f K). rewrite UW. unfold invoke.
    destruct (ul [o_provides o] p n) as [f'|]; cbn; auto. destruct (fcall f' [ob]); auto.
  - pose proof (lookup_coherent c [o_provides o] p n CO) as L.
    destruct (lookup ul c [o_provides o] p (NStr n)) as [c' r]. cbn [snd] in L. subst r.
    rewrite UW. unfold invoke. destruct (ul [o_provides o] p n) as [f'|]; cbn; auto.
    destruct (fcall f' [ob]); auto.
Qed.

Lemma queryMultiAdapter_lemma c os p n : coherent c ->
  snd (queryMultiAdapter ul fcall c os p (NStr n)) = invoke (ul (map o_provides os) p n) (map unwrap os).
Proof.
  intros CO. unfold queryMultiAdapter.
  pose proof (lookup_coherent c (map o_provides os) p n CO) as L.
  destruct (lookup ul c (map o_provides os) p (NStr n)) as [c' r]. cbn [snd] in L. subst r.
  unfold invoke. destruct (ul (map o_provides os) p n) as [f'|]; cbn; auto.
  destruct (fcall f' (map unwrap os)); auto.
Qed.

Lemma coherent_empty : coherent empty_caches.
Proof. intros req p n v H. discriminate. Qed.
End Adaptation.

Lemma unwrap_super o ob : o_super_of o = Some ob -> unwrap o = ob.
Proof. unfold unwrap. intros ->. reflexivity. Qed.

Lemma ref_of_synth s : ref_of (4 * s) = RSynth s.
Proof.
  unfold ref_of. rewrite Nat.mul_comm, Nat.mod_mul, Nat.div_mul by lia. reflexivity.
Qed.

Lemma in_rest_content E d l2 q : l2 <> [] ->
  (In q (iroot :: flat_map (flat E d) l2) <-> exists c, In c l2 /\ In q (flat E d c)).
Proof.
  intros NE. split.
  - intros [<-|H].
    + destruct l2 as [|c l2]; [congruence|]. exists c. split; [cbn; auto|apply iroot_in_flat].
    + apply in_flat_map in H. auto.
  - intros (c & Hc & Hi). right. apply in_flat_map. eauto.
Qed.

Lemma all_mem_single r fl : all_mem r [fl] = true <-> exists q, r = [q] /\ In q fl.
Proof.
  destruct r as [|q [|q2 r]]; cbn.
  - split; [discriminate|intros (q & A & _); discriminate].
  - rewrite andb_true_r, mem_In. split; [eauto|]. intros (q' & A & B). inversion A; subst; auto.
  - split; [rewrite andb_false_r; discriminate|intros (q' & A & _); discriminate].
Qed.

(* the model's adaptation of super(C, ob): which factory runs, and on which object *)
Lemma adapter_selected_core uc E ops v a C T u p n mro l1 l2 :
  (forall st, providedBy uc E st a =
              (let '(st', r) := implementedBy_super E st T C in (st', option_map RSynth r))) ->
  (forall st, objs_of uc E st [a] =
              match providedBy uc E st a with
              | (st1, Some r) => (st1, Some [mkObj (code_of r) proxy_id (Some u)])
              | (st1, None) => (st1, None)
              end) ->
  env_ok E = true -> mro_of E T = Some mro -> mro = l1 ++ C :: l2 -> l2 <> [] ->
  let st := final uc E ops in
  exists st' r, adapt uc E st v [a] p n = (st', Some r) /\
    (forall x, r = RVal x ->
       exists reg q, In reg (st_regs st) /\ r_name reg = n /\ r_req reg = [q] /\
                     (exists c, In c l2 /\ In q (flat E (st_decl st) c)) /\
                     i_isOrExtends E (r_prov reg) p = true /\
                     x = vid (r_val reg) * 1000 + u mod 10) /\
    (r = RDefault ->
       forall reg q, In reg (st_regs st) -> r_name reg = n -> r_req reg = [q] ->
                     i_isOrExtends E (r_prov reg) p = true ->
                     ~ exists c, In c l2 /\ In q (flat E (st_decl st) c)) /\
    r <> RValueError.
Proof.
  intros HP HO OK M EQ NE st.
  pose proof (final_inv E OK uc ops) as I. fold st in I.
  unfold adapt. rewrite HO, HP.
  destruct (ibs_spec E OK st T C I) as (st' & r0 & Q & A & B & D & R).
  rewrite (rest_of_split E OK _ _ _ _ _ M EQ NE) in R. destruct R as (s & y & -> & N & BS).
  rewrite Q. cbn [option_map code_of].
  set (o := mkObj (4 * s) proxy_id (Some u)).
  set (fl := iroot :: flat_map (flat E (st_decl st)) l2).
  assert (UL : u_lookup E st' [4 * s] p n =
               option_map r_val (find (fun r => Nat.eqb (r_name r) n && all_mem (r_req r) [fl]
                                                && i_isOrExtends E (r_prov r) p) (st_regs st))).
  { unfold u_lookup, lookup_flat. cbn [map]. rewrite ref_of_synth. cbn [flat_ref]. unfold flat_synth.
    rewrite N, BS, A, B. reflexivity. }
  assert (RES : exists r, (match v with
                           | ViaMulti => (st', Some (snd (queryMultiAdapter (u_lookup E st') call empty_caches [o] p (NStr n))))
                           | _ => (st', Some (snd (adapter_hook (u_lookup E st') call empty_caches p o (NStr n))))
                           end) = (st', Some r) /\
                          r = invoke call (u_lookup E st' [4 * s] p n) [u]).
  { destruct v; eexists; (split; [reflexivity|]).
    - apply (adapter_hook_super_lemma _ _ empty_caches p o n u eq_refl (coherent_empty _)).
    - apply (adapter_hook_super_lemma _ _ empty_caches p o n u eq_refl (coherent_empty _)).
    - apply (queryMultiAdapter_lemma _ _ empty_caches [o] p n (coherent_empty _)). }
  destruct RES as (r & RQ & RV).
  exists st', r. split.
  { destruct v; exact RQ. }
  rewrite UL in RV. unfold invoke, call in RV. cbn [fold_left] in RV.
  destruct (find _ (st_regs st)) as [reg|] eqn:F; cbn [option_map] in RV.
  - apply find_some in F. destruct F as [IN F].
    apply andb_true_iff in F. destruct F as [F F3]. apply andb_true_iff in F. destruct F as [F1 F2].
    apply Nat.eqb_eq in F1. apply all_mem_single in F2. destruct F2 as (q & RQ' & INQ).
    apply (in_rest_content E (st_decl st) l2 q NE) in INQ.
    subst r. repeat split; try discriminate.
    intros x HX. inversion HX; subst x. exists reg, q. repeat split; auto.
  - subst r. repeat split; try discriminate.
    intros _ reg q IN NM RQ' PE EX.
    pose proof (find_none _ _ F reg IN) as FN. cbn in FN.
    assert (T1 : Nat.eqb (r_name reg) n = true) by (apply Nat.eqb_eq; auto).
    assert (T2 : all_mem (r_req reg) [fl] = true).
    { apply all_mem_single. exists q. split; auto. apply (in_rest_content E (st_decl st) l2 q NE). auto. }
    rewrite T1, T2, PE in FN. discriminate.
Qed.

Lemma adapter_selected_lemma uc E ops v C j p n mro l1 l2 :
  env_ok E = true -> mro_of E (obj_cls E j) = Some mro -> mro = l1 ++ C :: l2 -> l2 <> [] ->
  let st := final uc E ops in
  exists st' r, adapt uc E st v [ASuper C j] p n = (st', Some r) /\
    (forall x, r = RVal x ->
       exists reg q, In reg (st_regs st) /\ r_name reg = n /\ r_req reg = [q] /\
                     (exists c, In c l2 /\ In q (flat E (st_decl st) c)) /\
                     i_isOrExtends E (r_prov reg) p = true /\
                     x = vid (r_val reg) * 1000 + j mod 10) /\
    (r = RDefault ->
       forall reg q, In reg (st_regs st) -> r_name reg = n -> r_req reg = [q] ->
                     i_isOrExtends E (r_prov reg) p = true ->
                     ~ exists c, In c l2 /\ In q (flat E (st_decl st) c)) /\
    r <> RValueError.
Proof.
  apply adapter_selected_core.
  - intros st. apply providedBy_super.
  - intros st. cbn [objs_of]. destruct (providedBy uc E st (ASuper C j)) as [st1 [r|]]; reflexivity.
Qed.

(* the class-bound proxy super(C, T): same selection, the factory receives the class object T *)
Lemma adapter_selected_class_bound_lemma uc E ops v C T p n mro l1 l2 :
  env_ok E = true -> mro_of E T = Some mro -> mro = l1 ++ C :: l2 -> l2 <> [] ->
  let st := final uc E ops in
  exists st' r, adapt uc E st v [ASuperC C T] p n = (st', Some r) /\
    (forall x, r = RVal x ->
       exists reg q, In reg (st_regs st) /\ r_name reg = n /\ r_req reg = [q] /\
                     (exists c, In c l2 /\ In q (flat E (st_decl st) c)) /\
                     i_isOrExtends E (r_prov reg) p = true /\
                     x = vid (r_val reg) * 1000 + cls_ident T mod 10) /\
    (r = RDefault ->
       forall reg q, In reg (st_regs st) -> r_name reg = n -> r_req reg = [q] ->
                     i_isOrExtends E (r_prov reg) p = true ->
                     ~ exists c, In c l2 /\ In q (flat E (st_decl st) c)) /\
    r <> RValueError.
Proof.
  apply adapter_selected_core.
  - intros st. apply providedBy_superC.
  - intros st. cbn [objs_of]. destruct (providedBy uc E st (ASuperC C T)) as [st1 [r|]]; reflexivity.
Qed.

(* ------------------------------------------------------------------ what the content means *)
Lemma ianc_f_flatten f g j : ianc_f f g j = legacy_flatten f g j.
Proof.
  revert j. induction f as [|f IH]; intros j; cbn; auto. f_equal. apply flat_map_ext. auto.
Qed.

Definition irk (E : env) (x : nat) : nat := if Nat.leb x (length (e_ig E)) then x else 0.

Section Meaning.
Variable E : env.
Hypothesis OK : env_ok E = true.

Lemma iface_wf : wf (irk E) (bases (e_ig E)).
Proof.
  pose proof OK as K. unfold env_ok in K.
  apply andb_true_iff in K. destruct K as [K K6]. apply andb_true_iff in K. destruct K as [_ K5].
  intros x. destruct (wfb_wf _ _ K5 x) as [N R]. split; auto.
  intros b Hb. specialize (R b Hb). cbn in R. unfold irk.
  destruct (Nat.leb x (length (e_ig E))) eqn:L.
  - apply Nat.leb_le in L. assert (B : Nat.leb b (length (e_ig E)) = true) by (apply Nat.leb_le; lia).
    rewrite B. auto.
  - exfalso. apply Nat.leb_gt in L.
    assert (NK : ~ In x (map fst (e_ig E))).
    { intros IN. apply in_map_iff in IN. destruct IN as (e & <- & IN).
      rewrite forallb_forall in K6. specialize (K6 e IN). apply Nat.leb_le in K6. unfold node, iface, cls in *. lia. }
    rewrite (bases_nokey _ _ NK) in Hb. destruct Hb.
Qed.

(* an interface and everything reachable through __bases__ *)
Lemma ianc_reach q i : In i (ianc E q) <-> Reach (bases (e_ig E)) q i.
Proof.
  unfold ianc. rewrite ianc_f_flatten. apply (flatten_In _ _ iface_wf).
  unfold irk. destruct (Nat.leb q (length (e_ig E))) eqn:L; [apply Nat.leb_le in L|]; lia.
Qed.

Lemma crk_spec d c b : specs_ok E d -> In b (dspecs d c) -> crk E b < crk E c.
Proof.
  intros SO H. destruct (SO c b H) as [L1 L2]. unfold crk, cfuel.
  assert (A : Nat.ltb c (length (e_cg E)) = true) by (apply Nat.ltb_lt; auto).
  assert (B : Nat.ltb b (length (e_cg E)) = true) by (apply Nat.ltb_lt; lia).
  rewrite A, B. auto.
Qed.

Lemma flat_cls_spec d f : specs_ok E d -> forall c i, crk E c <= f ->
  (In i (flat_cls E f d c) <->
   i = iroot \/ exists c' q, Contributes E d c c' /\ In q (declared d c') /\ In i (ianc E q)).
Proof.
  intros SO. induction f as [|f IH]; intros c i H.
  - cbn [flat_cls]. rewrite app_nil_r. split.
    + intros [<-|HI]; auto. right. apply in_flat_map in HI. destruct HI as (q & Hq & Hi).
      exists c, q. split; [constructor|auto].
    + intros [->|(c' & q & CO & Hq & Hi)]; [cbn; auto|]. right. apply in_flat_map.
      inversion CO; subst; eauto.
      * exfalso. assert (Z : crk E c = 0) by lia. rewrite (crk_zero_bases E OK c Z) in H1. destruct H1.
      * exfalso. pose proof (crk_spec d c b SO H0). lia.
  - cbn [flat_cls]. split.
    + intros [<-|HI]; auto. apply in_app_or in HI. destruct HI as [HI|HI].
      * right. apply in_flat_map in HI. destruct HI as (q & Hq & Hi). exists c, q. split; [constructor|auto].
      * apply in_app_or in HI. destruct HI as [HI|HI].
        -- apply in_flat_map in HI. destruct HI as (b & Hb & Hi).
           pose proof (crk_spec d c b SO Hb) as R.
           apply IH in Hi; [|lia]. destruct Hi as [->|(c' & q & CO & Hq & Hi)]; auto.
           right. exists c', q. split; auto. eapply Contributes_spec; eauto.
        -- destruct (inherit d c) eqn:INH; [|destruct HI].
           apply in_flat_map in HI. destruct HI as (b & Hb & Hi).
           destruct (env_wf E OK c) as [_ R]. specialize (R b Hb).
           apply IH in Hi; [|lia]. destruct Hi as [->|(c' & q & CO & Hq & Hi)]; auto.
           right. exists c', q. split; auto. eapply Contributes_base; eauto.
    + intros [->|(c' & q & CO & Hq & Hi)]; [cbn; auto|]. right. apply in_or_app.
      inversion CO; subst.
      * left. apply in_flat_map. eauto.
      * right. apply in_or_app. right. rewrite H0. apply in_flat_map. exists b. split; auto.
        destruct (env_wf E OK c) as [_ R]. specialize (R b H1).
        apply IH; [lia|]. right. eauto.
      * right. apply in_or_app. left. apply in_flat_map. exists b. split; auto.
        pose proof (crk_spec d c b SO H0) as R.
        apply IH; [lia|]. right. eauto.
Qed.

Lemma flat_semantics_lemma d c i : specs_ok E d ->
  (In i (flat E d c) <->
   i = iroot \/ exists c' q, Contributes E d c c' /\ In q (declared d c') /\ Reach (bases (e_ig E)) q i).
Proof.
  intros SO. unfold flat. rewrite flat_cls_spec by (auto; pose proof (crk_lt E OK c); lia).
  split; (intros [->|(c' & q & A & B & D)]; [auto|right; exists c', q; repeat split; auto; apply ianc_reach; auto]).
Qed.

(* the classes in the __sro__ of implementedBy(c) *)
Lemma contrib_f_spec d f : specs_ok E d -> forall c x, crk E c <= f ->
  (In x (contrib_f E f d c) <-> Contributes E d c x).
Proof.
  intros SO. induction f as [|f IH]; intros c x H.
  - cbn [contrib_f]. split.
    + intros [<-|[]]. constructor.
    + intros CO. inversion CO; subst; [cbn; auto| |].
      * exfalso. assert (Z : crk E c = 0) by lia. rewrite (crk_zero_bases E OK c Z) in H1. destruct H1.
      * exfalso. pose proof (crk_spec d c b SO H0). lia.
  - cbn [contrib_f]. split.
    + intros [<-|HI]; [constructor|]. apply in_app_or in HI. destruct HI as [HI|HI].
      * apply in_flat_map in HI. destruct HI as (b & Hb & Hi).
        pose proof (crk_spec d c b SO Hb) as R. apply IH in Hi; [|lia]. eapply Contributes_spec; eauto.
      * destruct (inherit d c) eqn:INH; [|destruct HI].
        apply in_flat_map in HI. destruct HI as (b & Hb & Hi).
        destruct (env_wf E OK c) as [_ R]. specialize (R b Hb).
        apply IH in Hi; [|lia]. eapply Contributes_base; eauto.
    + intros CO. inversion CO; subst; [cbn; auto| |]; right; apply in_or_app.
      * right. rewrite H0. apply in_flat_map. exists b. split; auto.
        destruct (env_wf E OK c) as [_ R]. specialize (R b H1). apply IH; [lia|auto].
      * left. apply in_flat_map. exists b. split; auto.
        pose proof (crk_spec d c b SO H0) as R. apply IH; [lia|auto].
Qed.

Lemma contrib_lemma d c x : specs_ok E d -> (In x (contrib E d c) <-> Contributes E d c x).
Proof. intros SO. unfold contrib. apply contrib_f_spec; auto. pose proof (crk_lt E OK c). lia. Qed.

(* ---- who is notified *)
Lemma in_dependents d c y :
  In y (dependents E d c) <->
  In y (map fst (e_cg E)) /\ ((inherit d y = true /\ In c (bases (e_cg E) y)) \/ In c (dspecs d y)).
Proof.
  unfold dependents. rewrite filter_In, orb_true_iff, andb_true_iff, !mem_In. tauto.
Qed.

Lemma notified_sound d f : forall c x, In x (notified E d f c) -> Hears E d x c.
Proof.
  induction f as [|f IH]; intros c x; cbn [notified].
  - intros [<-|[]]. constructor.
  - intros [<-|H]; [constructor|]. apply in_flat_map in H. destruct H as (y & Hy & Hx).
    apply in_dependents in Hy. destruct Hy as (A & [[B D]|B]).
    + eapply Hears_sub; eauto.
    + eapply Hears_decl; eauto.
Qed.

Lemma notified_complete d f : specs_ok E d ->
  forall c x, cfuel E - c <= f -> Hears E d x c -> In x (notified E d f c).
Proof.
  intros SO. induction f as [|f IH]; intros c x H HE.
  - cbn. inversion HE; subst; auto.
    + exfalso. destruct (bases_lt E OK y c H2). lia.
    + exfalso. destruct (SO y c H1). unfold cfuel in H. lia.
  - cbn [notified]. inversion HE; subst; [cbn; auto| |]; right; apply in_flat_map; exists y; split.
    + apply in_dependents. auto.
    + apply IH; auto. destruct (bases_lt E OK y c H2). lia.
    + apply in_dependents. auto.
    + apply IH; auto. destruct (SO y c H1). unfold cfuel in *. lia.
Qed.

Lemma notified_lemma d c x : specs_ok E d -> (In x (notified E d (cfuel E) c) <-> Hears E d x c).
Proof. intros SO. split; [apply notified_sound|apply notified_complete; auto; lia]. Qed.

(* notify deletes exactly the caches of the classes that hear about the change *)
Lemma drops_cache l : forall st T,
  nget (st_cache (fold_left drop_cache l st)) T = if mem T l then None else nget (st_cache st) T.
Proof.
  induction l as [|c l IH]; intros st T; cbn [fold_left mem]; auto.
  rewrite IH. cbn [drop_cache st_cache]. destruct (Nat.eqb T c) eqn:EQ; cbn [orb].
  - apply Nat.eqb_eq in EQ. subst. destruct (mem c l); auto. apply nget_ndel_eq.
  - apply Nat.eqb_neq in EQ. destruct (mem T l); auto. apply nget_ndel_neq. auto.
Qed.

Lemma notify_cache_lemma st c T : specs_ok E (st_decl st) ->
  (Hears E (st_decl st) T c -> nget (st_cache (notify E st c)) T = None) /\
  (~ Hears E (st_decl st) T c -> nget (st_cache (notify E st c)) T = nget (st_cache st) T).
Proof.
  intros SO. unfold notify. rewrite drops_cache. split; intros H.
  - apply notified_lemma in H; auto. apply mem_In in H. rewrite H. auto.
  - destruct (mem T (notified E (st_decl st) (cfuel E) c)) eqn:M; auto.
    apply mem_In in M. apply notified_lemma in M; auto. tauto.
Qed.
End Meaning.

(* ------------------------------------------------------------------ statements in the shape Properties/C19.v uses *)
Lemma multi_adaptation_lemma (ul : list spec -> spec -> name -> option value)
      (fcall : value -> list nat -> option nat) c os p n :
  (forall req p' n' v, aget cache_key_eqb (c_cache c) (p', n', ckey_of req) = Some v -> v = ul req p' n') ->
  snd (queryMultiAdapter ul fcall c os p (NStr n)) =
  match ul (map o_provides os) p n with
  | Some f => match fcall f (map unwrap os) with Some r => RVal r | None => RDefault end
  | None => RDefault
  end /\
  forall o ob, o_super_of o = Some ob -> unwrap o = ob.
Proof. intros. split; [apply queryMultiAdapter_lemma; assumption|exact unwrap_super]. Qed.

Lemma flat_semantics_thm E d c i : env_ok E = true -> specs_ok E d ->
  (In i (flat E d c) <->
   i = iroot \/ exists c' q, Contributes E d c c' /\ In q (declared d c') /\ Reach (bases (e_ig E)) q i).
Proof. intros OK. apply flat_semantics_lemma. exact OK. Qed.

Lemma notified_thm E st c T : env_ok E = true -> specs_ok E (st_decl st) ->
  (In T (notified E (st_decl st) (cfuel E) c) <-> Hears E (st_decl st) T c) /\
  (Hears E (st_decl st) T c -> nget (st_cache (notify E st c)) T = None) /\
  (~ Hears E (st_decl st) T c -> nget (st_cache (notify E st c)) T = nget (st_cache st) T).
Proof.
  intros OK SO. split; [apply notified_lemma; auto|apply notify_cache_lemma; auto].
Qed.

(* ---- every history keeps declared class specifications pointing backwards *)
Lemma dspecs_nset d c x c' : dspecs (nset d c x) c' = if Nat.eqb c c' then cd_specs x else dspecs d c'.
Proof.
  unfold dspecs, decl_of. destruct (Nat.eqb c c') eqn:Q.
  - apply Nat.eqb_eq in Q. subst. rewrite nget_nset_eq. reflexivity.
  - apply Nat.eqb_neq in Q. rewrite nget_nset_neq by auto. reflexivity.
Qed.

Lemma specs_ok_keep E d c x : specs_ok E d -> (forall b, In b (cd_specs x) -> b < c /\ c < length (e_cg E)) ->
  specs_ok E (nset d c x).
Proof.
  intros SO H c' b. rewrite dspecs_nset. destruct (Nat.eqb c c') eqn:Q; [|apply SO].
  apply Nat.eqb_eq in Q. subst. apply H.
Qed.

Lemma decl_step_specs_ok E d o : specs_ok E d -> specs_ok E (decl_step E d o).
Proof.
  intros SO. destruct o as [c ifs|c ifs|c i|c b|a|a|r|v args p n]; cbn [decl_step]; auto.
  - unfold decl_ordered. apply specs_ok_keep; auto.
  - unfold decl_ordered. apply specs_ok_keep.
    + apply specs_ok_keep; auto. cbn. tauto.
    + cbn. rewrite dspecs_nset, Nat.eqb_refl. cbn. tauto.
  - unfold decl_ordered. apply specs_ok_keep; auto.
  - destruct (Nat.ltb b c && Nat.ltb c (cfuel E)) eqn:G; auto.
    apply andb_true_iff in G. destruct G as [G1 G2]. apply Nat.ltb_lt in G1. apply Nat.ltb_lt in G2.
    apply specs_ok_keep; auto. cbn. intros b' H.
    destruct (mem b (contrib E d c)); [apply SO; auto|].
    apply in_app_or in H. destruct H as [H|[<-|[]]]; [apply SO; auto|]. unfold cfuel in G2. auto.
Qed.

Lemma final_specs_ok uc E ops : env_ok E = true -> specs_ok E (st_decl (final uc E ops)).
Proof.
  intros OK. rewrite final_decl by auto.
  assert (G : forall d, specs_ok E d -> specs_ok E (fold_left (decl_step E) ops d)).
  { induction ops as [|o ops IH]; intros d SO; cbn; auto. apply IH. apply decl_step_specs_ok. auto. }
  apply G. intros c b H. destruct H.
Qed.

(* ------------------------------------------------------------------ class-bound proxies super(C, T) *)
Lemma class_bound_spec_exact_lemma uc E ops C T mro l1 l2 :
  env_ok E = true -> mro_of E T = Some mro -> mro = l1 ++ C :: l2 -> l2 <> [] ->
  exists st' s, providedBy uc E (final uc E ops) (ASuperC C T) = (st', Some (RSynth s)) /\
    implementedBy uc E (final uc E ops) (ASuperC C T) = (st', Some (RSynth s)) /\
    st_decl st' = st_decl (final uc E ops) /\
    forall i, In i (flat_ref E st' (RSynth s)) <->
              exists c, In c l2 /\ In i (flat E (st_decl (final uc E ops)) c).
Proof.
  intros OK M EQ NE. set (st := final uc E ops).
  pose proof (final_inv E OK uc ops) as I. fold st in I.
  rewrite implementedBy_superC, providedBy_superC.
  destruct (ibs_spec E OK st T C I) as (st' & r & Q & A & B & D & R).
  rewrite (rest_of_split E OK _ _ _ _ _ M EQ NE) in R. destruct R as (s & y & -> & N & BS).
  rewrite Q. exists st', s. split; [reflexivity|]. split; [reflexivity|]. split; auto.
  intros i. cbn [flat_ref]. unfold flat_synth. rewrite N, BS, A. apply in_rest_content. auto.
Qed.

Lemma class_bound_thm E uc uc' st C T j : obj_cls E j = T ->
  providedBy uc E st (ASuperC C T) = providedBy uc' E st (ASuper C j) /\
  implementedBy uc E st (ASuperC C T) = implementedBy uc' E st (ASuper C j).
Proof. apply class_bound_eq_instance_bound. Qed.

(* an unbound proxy super(C) answers the empty declaration and leaves the state alone *)
Lemma unbound_thm E uc st C :
  providedBy uc E st (AUnbound C) = (st, Some REmpty) /\
  implementedBy uc E st (AUnbound C) = (st, Some REmpty) /\
  flat_ref E st REmpty = [iroot].
Proof. destruct uc; repeat split; reflexivity. Qed.
