(* Proofs for property C05: lookup caches are transparent.
   Part 1: the cache layer of Model/Lookup.v (flavour independent): if every cached entry equals
           the uncached function, every entry point answers what it answers with empty caches,
           and keeps that invariant.
   Part 2: what the uncached functions depend on: the orders of the REQUIRED specs of the key
           and the stores (adapters, subscribers, extendors) of the registries of the order.
   Part 3: re-basing a specification changes the order of its descendants only.
   Part 4: systems: invariant CacheValid, preserved by every operation of a MIXED system (verifying
           registries over invalidating ones), on top of the chain invariant MInv of
           Proofs/RegChainMixed.v (property C06).
   Part 5: the theorems (state form, erased-history form) for mixed histories; the single-flavour
           statements are corollaries. *)
From Coq Require Import List Arith Bool Lia.
Import ListNotations.
From ZI Require Import Model.Ro Model.Adapter Model.Lookup Model.RegSys Spec.RegChain Model.CacheSys
  Proofs.RegChain Proofs.RegChainMixed.

Ltac nlia := unfold node, spec, name in *; lia.

(* ================================================================== Part 0: decidable equalities *)

Lemma lspec_eqb_eq : forall a b, lspec_eqb a b = true -> a = b.
Proof.
  induction a as [|x a IH]; destruct b as [|y b]; cbn; intros H; try discriminate; auto.
  apply andb_true_iff in H. destruct H as [E H]. apply Nat.eqb_eq in E. subst. f_equal. apply IH. exact H.
Qed.

Lemma ckey_eqb_eq a b : ckey_eqb a b = true -> a = b.
Proof.
  destruct a, b; cbn; intros H; try discriminate.
  - apply Nat.eqb_eq in H. congruence.
  - apply lspec_eqb_eq in H. congruence.
Qed.

Lemma cache_key_eqb_eq a b : cache_key_eqb a b = true -> a = b.
Proof.
  destruct a as [[p1 n1] k1], b as [[p2 n2] k2]. cbn. intros H.
  apply andb_true_iff in H. destruct H as [H K]. apply andb_true_iff in H. destruct H as [P N].
  apply Nat.eqb_eq in P. apply Nat.eqb_eq in N. apply ckey_eqb_eq in K. congruence.
Qed.

Lemma mkey_eqb_eq a b : mkey_eqb a b = true -> a = b.
Proof.
  destruct a as [p1 r1], b as [p2 r2]. unfold mkey_eqb. cbn. intros H.
  apply andb_true_iff in H. destruct H as [P R]. apply Nat.eqb_eq in P. apply lspec_eqb_eq in R. congruence.
Qed.

Lemma ospec_eqb_eq a b : ospec_eqb a b = true -> a = b.
Proof. destruct a, b; cbn; intros H; try discriminate; auto. apply Nat.eqb_eq in H. congruence. Qed.

Lemma sckey_eqb_eq a b : sckey_eqb a b = true -> a = b.
Proof.
  destruct a as [p1 r1], b as [p2 r2]. unfold sckey_eqb. cbn. intros H.
  apply andb_true_iff in H. destruct H as [P R]. apply ospec_eqb_eq in P. apply lspec_eqb_eq in R. congruence.
Qed.

Section AssocFacts.
  Context {K V : Type} (eqb : K -> K -> bool).
  Hypothesis eqb_eq : forall a b, eqb a b = true -> a = b.

  Lemma aget_In (m : list (K * V)) k v : aget eqb m k = Some v -> In (k, v) m.
  Proof.
    induction m as [|[k' v'] m IH]; cbn; [discriminate|].
    destruct (eqb k k') eqn:E.
    - intros H. inversion H; subst. apply eqb_eq in E. subst. auto.
    - auto.
  Qed.

  Lemma In_aset (m : list (K * V)) k v k' v' : In (k', v') (aset eqb m k v) -> (k', v') = (k, v) \/ In (k', v') m.
  Proof.
    induction m as [|[k0 v0] m IH]; cbn.
    - intros [H|[]]; auto.
    - destruct (eqb k k0) eqn:E; cbn.
      + apply eqb_eq in E. subst. intros [H|H]; auto.
      + intros [H|H]; auto. destruct (IH H); auto.
  Qed.
End AssocFacts.

(* ================================================================== Part 1: the cache layer *)

Definition req_of (k : ckey) : list spec := match k with CSingle s => [s] | CMulti l => l end.

Lemma req_of_ckey_of r : req_of (ckey_of r) = r.
Proof. destruct r as [|s [|t r]]; reflexivity. Qed.

Lemma subscribe_fold_In req : forall acc x,
  In x (fold_left (fun acc r => if mem r acc then acc else acc ++ [r]) req acc) <-> In x acc \/ In x req.
Proof.
  induction req as [|r req IH]; intros acc x; cbn [fold_left].
  - cbn. tauto.
  - rewrite IH. destruct (mem r acc) eqn:E.
    + apply mem_In in E. cbn. split; [tauto|]. intros [H|[<-|H]]; auto.
    + rewrite in_app_iff. cbn. tauto.
Qed.

Lemma subscribe_required_incl c req :
  incl (c_required c) (c_required (subscribe_required c req)) /\
  incl req (c_required (subscribe_required c req)).
Proof.
  unfold subscribe_required; cbn. split; intros x H; apply subscribe_fold_In; auto.
Qed.

Section Layer.
  Variable ul : list spec -> spec -> name -> option value.
  Variable ua : list spec -> spec -> list (name * value).
  Variable us : list spec -> option spec -> list value.
  Variable call : value -> list nat -> option nat.

  (* every cached entry equals the uncached function, and its required specs are subscribed *)
  Definition ent_ok (c : caches) : Prop :=
    (forall p n k v, In ((p, n, k), v) (c_cache c) -> v = ul (req_of k) p n /\ incl (req_of k) (c_required c)) /\
    (forall p req v, In ((p, req), v) (c_mcache c) -> v = ua req p /\ incl req (c_required c)) /\
    (forall p req v, In ((p, req), v) (c_scache c) -> v = us req p /\ incl req (c_required c)).

  Lemma ent_ok_empty : ent_ok empty_caches.
  Proof. repeat split; intros; cbn in *; contradiction. Qed.

  Lemma lookup_ok c req p n : ent_ok c ->
    ent_ok (fst (lookup ul c req p n)) /\ snd (lookup ul c req p n) = snd (lookup ul empty_caches req p n).
  Proof.
    intros H0. pose proof H0 as (H1 & H2 & H3). unfold lookup. destruct n as [n|]; [|split; [exact H0|reflexivity]].
    cbn [aget c_cache empty_caches].
    destruct (aget cache_key_eqb (c_cache c) (p, n, ckey_of req)) as [[v|]|] eqn:E.
    - apply (aget_In _ cache_key_eqb_eq) in E. apply H1 in E. rewrite req_of_ckey_of in E.
      destruct E as (E & _). cbn. split; [exact H0|]. rewrite <- E. reflexivity.
    - apply (aget_In _ cache_key_eqb_eq) in E. apply H1 in E. rewrite req_of_ckey_of in E.
      destruct E as (E & _). cbn. split; [exact H0|]. rewrite <- E. reflexivity.
    - cbn [fst snd]. split; [|reflexivity].
      set (c0 := mkC _ _ _ _). destruct (subscribe_required_incl c0 req) as (I1 & I2).
      unfold ent_ok. unfold subscribe_required at 1 2 3. cbn [c_cache c_mcache c_scache]. subst c0. cbn [c_cache c_mcache c_scache] in *.
      repeat split.
      + apply (In_aset _ cache_key_eqb_eq) in H. destruct H as [H|H].
        * inversion H; subst. rewrite req_of_ckey_of. reflexivity.
        * apply H1 in H. apply H.
      + apply (In_aset _ cache_key_eqb_eq) in H. destruct H as [H|H].
        * inversion H; subst. rewrite req_of_ckey_of. exact I2.
        * apply H1 in H. destruct H as (_ & H). eapply incl_tran; eauto.
      + apply H2 in H. apply H.
      + apply H2 in H. destruct H as (_ & H). eapply incl_tran; eauto.
      + apply H3 in H. apply H.
      + apply H3 in H. destruct H as (_ & H). eapply incl_tran; eauto.
  Qed.

  Lemma lookup_empty_single s p n :
    snd (lookup ul empty_caches [s] p (NStr n)) = match ul [s] p n with Some v => RVal v | None => RDefault end.
  Proof. reflexivity. Qed.

  Lemma lookup1_ok c s p n : ent_ok c ->
    ent_ok (fst (lookup1 ul c s p n)) /\ snd (lookup1 ul c s p n) = snd (lookup1 ul empty_caches s p n).
  Proof.
    intros H. unfold lookup1. destruct n as [n|]; [|split; auto].
    cbn [aget c_cache empty_caches].
    destruct (aget cache_key_eqb (c_cache c) (p, n, CSingle s)) as [[v|]|] eqn:E.
    - apply (aget_In _ cache_key_eqb_eq) in E. apply H in E. cbn [req_of] in E. destruct E as (E & _).
      split; auto. cbn [snd]. rewrite lookup_empty_single, <- E. reflexivity.
    - apply (aget_In _ cache_key_eqb_eq) in E. apply H in E. cbn [req_of] in E. destruct E as (E & _).
      split; auto. cbn [snd]. rewrite lookup_empty_single, <- E. reflexivity.
    - apply lookup_ok; auto.
  Qed.

  Lemma adapter_hook_empty p o n :
    snd (adapter_hook ul call empty_caches p o (NStr n)) =
    match ul [o_provides o] p n with
    | Some f => match call f [unwrap o] with Some r => RVal r | None => RDefault end
    | None => RDefault
    end.
  Proof.
    unfold adapter_hook, lookup. cbn [aget c_cache empty_caches ckey_of].
    destruct (ul [o_provides o] p n) as [f|]; [destruct (call f [unwrap o])|]; reflexivity.
  Qed.

  Lemma adapter_hook_ok c p o n : ent_ok c ->
    ent_ok (fst (adapter_hook ul call c p o n)) /\
    snd (adapter_hook ul call c p o n) = snd (adapter_hook ul call empty_caches p o n).
  Proof.
    intros H. destruct n as [n|]; [|split; auto].
    rewrite adapter_hook_empty. unfold adapter_hook.
    destruct (lookup_ok c [o_provides o] p (NStr n) H) as (L1 & L2).
    rewrite lookup_empty_single in L2.
    destruct (aget cache_key_eqb (c_cache c) (p, n, CSingle (o_provides o))) as [f|] eqn:E.
    - apply (aget_In _ cache_key_eqb_eq) in E. apply H in E. cbn [req_of] in E. destruct E as (E & _).
      rewrite <- E. destruct f as [f|]; [destruct (call f [unwrap o])|]; split; auto.
    - destruct (lookup ul c [o_provides o] p (NStr n)) as [c1 r1]. cbn [fst snd] in *.
      destruct (ul [o_provides o] p n) as [f|]; subst r1; [destruct (call f [unwrap o])|]; split; auto.
  Qed.

  Lemma queryMultiAdapter_ok c os p n : ent_ok c ->
    ent_ok (fst (queryMultiAdapter ul call c os p n)) /\
    snd (queryMultiAdapter ul call c os p n) = snd (queryMultiAdapter ul call empty_caches os p n).
  Proof.
    intros H. unfold queryMultiAdapter.
    destruct (lookup_ok c (map o_provides os) p n H) as (L1 & L2).
    destruct (lookup ul c (map o_provides os) p n) as [c1 r1].
    destruct (lookup ul empty_caches (map o_provides os) p n) as [c2 r2].
    cbn [fst snd] in *. subst r2. destruct r1 as [v| |].
    - destruct (call v (map unwrap os)); split; auto.
    - split; auto.
    - split; auto.
  Qed.

  Lemma lookupAll_ok c req p : ent_ok c ->
    ent_ok (fst (lookupAll ua c req p)) /\ snd (lookupAll ua c req p) = snd (lookupAll ua empty_caches req p).
  Proof.
    intros H0. pose proof H0 as (H1 & H2 & H3). unfold lookupAll. cbn [aget c_mcache empty_caches].
    destruct (aget mkey_eqb (c_mcache c) (p, req)) as [r|] eqn:E.
    - apply (aget_In _ mkey_eqb_eq) in E. apply H2 in E. destruct E as (E & _).
      split; [exact H0|]. cbn. auto.
    - cbn [fst snd]. split; [|reflexivity].
      set (c0 := mkC _ _ _ _). destruct (subscribe_required_incl c0 req) as (I1 & I2).
      unfold ent_ok. unfold subscribe_required at 1 2 3. cbn [c_cache c_mcache c_scache]. subst c0. cbn [c_cache c_mcache c_scache] in *.
      repeat split.
      + apply H1 in H. apply H.
      + apply H1 in H. destruct H as (_ & H). eapply incl_tran; eauto.
      + apply (In_aset _ mkey_eqb_eq) in H. destruct H as [H|H].
        * inversion H; subst. reflexivity.
        * apply H2 in H. apply H.
      + apply (In_aset _ mkey_eqb_eq) in H. destruct H as [H|H].
        * inversion H; subst. exact I2.
        * apply H2 in H. destruct H as (_ & H). eapply incl_tran; eauto.
      + apply H3 in H. apply H.
      + apply H3 in H. destruct H as (_ & H). eapply incl_tran; eauto.
  Qed.

  Lemma names_ok c req p : ent_ok c ->
    ent_ok (fst (names ua c req p)) /\ snd (names ua c req p) = snd (names ua empty_caches req p).
  Proof.
    intros H. unfold names. destruct (lookupAll_ok c req p H) as (L1 & L2).
    destruct (lookupAll ua c req p) as [c1 r1]. destruct (lookupAll ua empty_caches req p) as [c2 r2].
    cbn [fst snd] in *. subst. auto.
  Qed.

  Lemma subscriptions_ok c req p : ent_ok c ->
    ent_ok (fst (subscriptions us c req p)) /\
    snd (subscriptions us c req p) = snd (subscriptions us empty_caches req p).
  Proof.
    intros H0. pose proof H0 as (H1 & H2 & H3). unfold subscriptions. cbn [aget c_scache empty_caches].
    destruct (aget sckey_eqb (c_scache c) (p, req)) as [r|] eqn:E.
    - apply (aget_In _ sckey_eqb_eq) in E. apply H3 in E. destruct E as (E & _).
      split; [exact H0|]. cbn. auto.
    - cbn [fst snd]. split; [|reflexivity].
      set (c0 := mkC _ _ _ _). destruct (subscribe_required_incl c0 req) as (I1 & I2).
      unfold ent_ok. unfold subscribe_required at 1 2 3. cbn [c_cache c_mcache c_scache]. subst c0. cbn [c_cache c_mcache c_scache] in *.
      repeat split.
      + apply H1 in H. apply H.
      + apply H1 in H. destruct H as (_ & H). eapply incl_tran; eauto.
      + apply H2 in H. apply H.
      + apply H2 in H. destruct H as (_ & H). eapply incl_tran; eauto.
      + apply (In_aset _ sckey_eqb_eq) in H. destruct H as [H|H].
        * inversion H; subst. reflexivity.
        * apply H3 in H. apply H.
      + apply (In_aset _ sckey_eqb_eq) in H. destruct H as [H|H].
        * inversion H; subst. exact I2.
        * apply H3 in H. destruct H as (_ & H). eapply incl_tran; eauto.
  Qed.

  Lemma subscribers_ok c os p : ent_ok c ->
    ent_ok (fst (subscribers us call c os p)) /\
    snd (subscribers us call c os p) = snd (subscribers us call empty_caches os p).
  Proof.
    intros H. unfold subscribers. destruct (subscriptions_ok c (map o_provides os) p H) as (L1 & L2).
    destruct (subscriptions us c (map o_provides os) p) as [c1 r1].
    destruct (subscriptions us empty_caches (map o_provides os) p) as [c2 r2].
    cbn [fst snd] in *. subst. destruct p; auto.
  Qed.
End Layer.

(* ent_ok only looks at the uncached functions on the keys' required specs *)
Lemma ent_ok_ext ul ua us ul' ua' us' c :
  (forall req p n, incl req (c_required c) -> ul req p n = ul' req p n) ->
  (forall req p, incl req (c_required c) -> ua req p = ua' req p) ->
  (forall req p, incl req (c_required c) -> us req p = us' req p) ->
  ent_ok ul ua us c -> ent_ok ul' ua' us' c.
Proof.
  intros E1 E2 E3 (H1 & H2 & H3). repeat split.
  - apply H1 in H. destruct H as (-> & I). apply E1; auto.
  - apply H1 in H. apply H.
  - apply H2 in H. destruct H as (-> & I). apply E2; auto.
  - apply H2 in H. apply H.
  - apply H3 in H. destruct H as (-> & I). apply E3; auto.
  - apply H3 in H. apply H.
Qed.

(* ================================================================== Part 2: dependence *)

Definition store (r : reg) := (adapters r, Adapter.subscribers r, extendors r).

Lemma first_some_ext {A B} (f g : A -> option B) l :
  (forall x, In x l -> f x = g x) -> first_some f l = first_some g l.
Proof.
  induction l as [|x l IH]; cbn; intros H; auto.
  rewrite (H x) by auto. destruct (g x); auto.
Qed.

Lemma fold_left_ext_in {A B} (f g : A -> B -> A) l : forall a,
  (forall a x, In x l -> f a x = g a x) -> fold_left f l a = fold_left g l a.
Proof.
  induction l as [|x l IH]; cbn; intros a H; auto.
  rewrite (H a x) by auto. apply IH. intros; apply H; auto.
Qed.

Section Dep.
  Variables W W' : world.

  Lemma lookup_walk_ext m exts n : forall specs prefix,
    (forall s, In s specs -> w_sro W s = w_sro W' s) ->
    lookup_walk W m prefix specs exts n = lookup_walk W' m prefix specs exts n.
  Proof.
    induction specs as [|s rest IH]; intros prefix H; cbn [lookup_walk]; auto.
    rewrite <- (H s) by (left; auto). apply first_some_ext. intros x _. apply IH.
    intros; apply H; right; auto.
  Qed.

  Lemma lookupAll_walk_ext m exts : forall specs prefix acc,
    (forall s, In s specs -> w_sro W s = w_sro W' s) ->
    lookupAll_walk W m prefix specs exts acc = lookupAll_walk W' m prefix specs exts acc.
  Proof.
    induction specs as [|s rest IH]; intros prefix acc H; cbn [lookupAll_walk]; auto.
    rewrite <- (H s) by (left; auto). apply fold_left_ext_in. intros a x _. apply IH.
    intros; apply H; right; auto.
  Qed.

  Lemma subs_walk_ext m exts : forall specs prefix,
    (forall s, In s specs -> w_sro W s = w_sro W' s) ->
    subs_walk W m prefix specs exts = subs_walk W' m prefix specs exts.
  Proof.
    induction specs as [|s rest IH]; intros prefix H; cbn [subs_walk]; auto.
    rewrite <- (H s) by (left; auto). apply flat_map_ext_in. intros x _. apply IH.
    intros; apply H; right; auto.
  Qed.

  Lemma uncached_lookup_ext req p n : (forall s, In s req -> w_sro W s = w_sro W' s) ->
    forall regs regs', map store regs = map store regs' ->
    uncached_lookup W regs req p n = uncached_lookup W' regs' req p n.
  Proof.
    intros H. unfold uncached_lookup.
    induction regs as [|r regs IH]; destruct regs' as [|r' regs']; cbn [map first_some]; intros E;
      try discriminate; auto.
    inversion E as [[E1 E2 E3 E4]]. rewrite E3, E1, (IH regs' E4).
    destruct (ext_get (extendors r') p); auto. rewrite (lookup_walk_ext _ _ _ req [] H). reflexivity.
  Qed.

  Lemma uncached_lookupAll_ext req p : (forall s, In s req -> w_sro W s = w_sro W' s) ->
    forall regs regs', map store regs = map store regs' ->
    uncached_lookupAll W regs req p = uncached_lookupAll W' regs' req p.
  Proof.
    intros H regs regs' E. unfold uncached_lookupAll.
    assert (E' : map store (rev regs) = map store (rev regs')) by (rewrite !map_rev; congruence).
    generalize (@nil (name * value)). revert E'. generalize (rev regs) (rev regs'). clear E regs regs'.
    intros l. induction l as [|r l IH]; intros [|r' l'] E acc; cbn [map fold_left] in *;
      try discriminate; auto.
    inversion E as [[E1 E2 E3 E4]]. rewrite E3, E1.
    destruct (ext_get (extendors r') p); [apply IH; exact E4|].
    rewrite (lookupAll_walk_ext _ _ req [] acc H). apply IH. exact E4.
  Qed.

  Lemma uncached_subscriptions_ext req p : (forall s, In s req -> w_sro W s = w_sro W' s) ->
    forall regs regs', map store regs = map store regs' ->
    uncached_subscriptions W regs req p = uncached_subscriptions W' regs' req p.
  Proof.
    intros H regs regs' E. unfold uncached_subscriptions.
    assert (E' : map store (rev regs) = map store (rev regs')) by (rewrite !map_rev; congruence).
    revert E'. generalize (rev regs) (rev regs'). clear E regs regs'.
    intros l. induction l as [|r l IH]; intros [|r' l'] E; cbn [map flat_map] in *;
      try discriminate; auto.
    inversion E as [[E1 E2 E3 E4]]. rewrite (IH l' E4). f_equal.
    destruct p as [p'|].
    - rewrite E3. destruct (aget Nat.eqb (extendors r') p'); auto.
      rewrite E2. apply subs_walk_ext; auto.
    - rewrite E2. apply subs_walk_ext; auto.
  Qed.
End Dep.

(* ================================================================== Part 3: re-basing a spec *)

Lemma nth_map_seq {A} (f : nat -> A) d n x : nth x (map f (seq 0 n)) d = if Nat.ltb x n then f x else d.
Proof.
  destruct (Nat.ltb x n) eqn:E.
  - apply Nat.ltb_lt in E. rewrite (nth_indep _ d (f 0)) by (rewrite map_length, seq_length; auto).
    rewrite map_nth, seq_nth; auto.
  - apply Nat.ltb_ge in E. apply nth_overflow. rewrite map_length, seq_length. auto.
Qed.

Lemma world_of_sro g ifs x : w_sro (world_of g ifs) x = sro_of g x.
Proof. unfold world_of, sro_of. cbn [w_sro]. apply nth_map_seq. Qed.

Lemma set_spec_bases_length g x bs : length (set_spec_bases g x bs) = length g.
Proof. apply map_length. Qed.

Lemma set_spec_bases_other g x bs y : y <> x -> bases (set_spec_bases g x bs) y = bases g y.
Proof.
  intros N. induction g as [|[z zs] g IH]; cbn; auto.
  destruct (Nat.eqb z x) eqn:E; cbn.
  - apply Nat.eqb_eq in E. subst z. destruct (Nat.eqb y x) eqn:E2; auto. apply Nat.eqb_eq in E2. congruence.
  - destruct (Nat.eqb y z); auto.
Qed.

Section Rebase.
  Variables g g' : graph.
  Variable x : node.
  Hypothesis off : forall y, y <> x -> bases g' y = bases g y.

  Lemma reachb_false_inv f y : reachb (S f) g y x = false ->
    y <> x /\ forall b, In b (bases g y) -> reachb f g b x = false.
  Proof.
    cbn [reachb]. intros H. apply orb_false_iff in H. destruct H as [H1 H2].
    apply Nat.eqb_neq in H1. split; auto. intros b Hb.
    destruct (reachb f g b x) eqn:E; auto.
    assert (existsb (fun b => reachb f g b x) (bases g y) = true) by (apply existsb_exists; eauto).
    congruence.
  Qed.

  Lemma reachb_0_inv y : reachb 0 g y x = false -> y <> x.
  Proof. cbn. rewrite orb_false_r. apply Nat.eqb_neq. Qed.

  Lemma flatten_rebase : forall f y, reachb f g y x = false ->
    legacy_flatten (S f) g' y = legacy_flatten (S f) g y.
  Proof.
    induction f as [|f IH]; intros y H.
    - apply reachb_0_inv in H. cbn [legacy_flatten]. rewrite off; auto.
    - apply reachb_false_inv in H. destruct H as [N Hb].
      change (legacy_flatten (S (S f)) g' y) with (y :: flat_map (legacy_flatten (S f) g') (bases g' y)).
      change (legacy_flatten (S (S f)) g y) with (y :: flat_map (legacy_flatten (S f) g) (bases g y)).
      rewrite off; auto. f_equal. apply flat_map_ext_in. intros b B. apply IH. auto.
  Qed.

  Lemma fresh_sro_rebase root : forall f y, reachb f g y x = false ->
    fresh_sro (S f) root g' y = fresh_sro (S f) root g y.
  Proof.
    induction f as [|f IH]; intros y H.
    - pose proof (flatten_rebase 0 y H) as F. apply reachb_0_inv in H.
      cbn [fresh_sro]. unfold calc_sro, legacy_ro. rewrite F, off; auto.
    - pose proof (flatten_rebase (S f) y H) as F. apply reachb_false_inv in H. destruct H as [N Hb].
      change (fresh_sro (S (S f)) root g' y) with
        (match calc_sro false root (S (S f)) g' (fresh_sro (S f) root g') y with ROk m _ => m | _ => [] end).
      change (fresh_sro (S (S f)) root g y) with
        (match calc_sro false root (S (S f)) g (fresh_sro (S f) root g) y with ROk m _ => m | _ => [] end).
      unfold calc_sro, legacy_ro. rewrite F, off; auto.
      replace (map (fresh_sro (S f) root g') (bases g y)) with (map (fresh_sro (S f) root g) (bases g y)); auto.
      apply map_ext_in. intros b B. symmetry. apply IH. auto.
  Qed.
End Rebase.

(* a lookup object that did not subscribe to x or a descendant keeps the orders of all its specs *)
Lemma untouched_sro g ifs x bs c : touched g x c = false ->
  forall y, In y (c_required c) ->
  w_sro (world_of (set_spec_bases g x bs) ifs) y = w_sro (world_of g ifs) y.
Proof.
  intros T y Hy. rewrite !world_of_sro. unfold sro_of. rewrite set_spec_bases_length.
  destruct (Nat.ltb y (length g)); auto.
  apply (fresh_sro_rebase g (set_spec_bases g x bs) x).
  - intros z Nz. apply set_spec_bases_other; auto.
  - unfold touched in T. destruct (reachb (length g) g y x) eqn:E; auto.
    assert (existsb (fun y => reachb (length g) g y x) (c_required c) = true) by (apply existsb_exists; eauto).
    congruence.
Qed.

(* ================================================================== Part 4: systems *)

(* the snapshot of a verifying registry still matches (always true for a push registry) *)
Definition valid_snap (s : sys) (r : nat) : Prop :=
  match rs_flavour (get s r) with
  | Push => True
  | Verifying => gens s (rs_vro (get s r)) = rs_vgen (get s r)
  end.

Definition ents (W : world) (s : sys) (r : nat) (c : caches) : Prop :=
  ent_ok (uncached_lookup W (ro_regs s r)) (uncached_lookupAll W (ro_regs s r))
         (uncached_subscriptions W (ro_regs s r)) c.

(* CacheValid: every cached entry of every registry whose snapshot is still valid equals the
   uncached function of the CURRENT state and world, and its required specs are subscribed *)
Definition cv_at (W : world) (s : sys) (r : nat) : Prop :=
  valid_snap s r -> ents W s r (rs_caches (get s r)).

Definition CV (W : world) (s : sys) : Prop := forall r, cv_at W s r.

Lemma ents_ext W W' regs regs' c :
  map store regs' = map store regs ->
  (forall y, In y (c_required c) -> w_sro W' y = w_sro W y) ->
  ent_ok (uncached_lookup W regs) (uncached_lookupAll W regs) (uncached_subscriptions W regs) c ->
  ent_ok (uncached_lookup W' regs') (uncached_lookupAll W' regs') (uncached_subscriptions W' regs') c.
Proof.
  intros E Hw. apply ent_ok_ext; intros req p; intros.
  - apply uncached_lookup_ext; auto. intros y Hy. symmetry. apply Hw. auto.
  - apply uncached_lookupAll_ext; auto. intros y Hy. symmetry. apply Hw. auto.
  - apply uncached_subscriptions_ext; auto. intros y Hy. symmetry. apply Hw. auto.
Qed.

Lemma cv_empty W s r : rs_caches (get s r) = empty_caches -> cv_at W s r.
Proof. intros E _. unfold ents. rewrite E. apply ent_ok_empty. Qed.

Lemma cv_frame W W' s s' i :
  cv_at W s i ->
  (valid_snap s' i -> valid_snap s i) ->
  rs_caches (get s' i) = rs_caches (get s i) ->
  map store (ro_regs s' i) = map store (ro_regs s i) ->
  (forall y, In y (c_required (rs_caches (get s i))) -> w_sro W' y = w_sro W y) ->
  cv_at W' s' i.
Proof.
  intros C V Ec Er Hw V'. unfold ents. rewrite Ec. apply (ents_ext W W' (ro_regs s i)); auto.
  apply C. auto.
Qed.

Lemma CV_nil W : CV W [].
Proof. intros r. apply cv_empty. unfold get. destruct r; reflexivity. Qed.

Lemma get_oob_caches s i : length s <= i -> rs_caches (get s i) = empty_caches.
Proof. intros H. rewrite get_oob; auto. Qed.

Lemma ro_regs_store_ext s s' i :
  rs_ro (get s' i) = rs_ro (get s i) ->
  (forall j, In j (rs_ro (get s i)) -> store (rs_reg (get s' j)) = store (rs_reg (get s j))) ->
  map store (ro_regs s' i) = map store (ro_regs s i).
Proof.
  intros E H. unfold ro_regs. rewrite E, !map_map. apply map_ext_in. exact H.
Qed.

(* ---- entry points as functions of the caches *)
Definition transparent_f {A}
  (f : (list spec -> spec -> name -> option value) -> (list spec -> spec -> list (name * value)) ->
       (list spec -> option spec -> list value) -> caches -> caches * A) : Prop :=
  forall ul ua us c, ent_ok ul ua us c ->
    ent_ok ul ua us (fst (f ul ua us c)) /\ snd (f ul ua us c) = snd (f ul ua us empty_caches).

Lemma with_lookup_fst' W {A} s r (f : _ -> _ -> _ -> caches -> caches * A) :
  fst (with_lookup W s r f) =
  upd (verify s r) r (fun x => set_caches x
    (fst (f (uncached_lookup W (ro_regs (verify s r) r)) (uncached_lookupAll W (ro_regs (verify s r) r))
            (uncached_subscriptions W (ro_regs (verify s r) r)) (rs_caches (get (verify s r) r))))).
Proof.
  unfold with_lookup. cbv zeta.
  destruct (f (uncached_lookup W (ro_regs (verify s r) r)) (uncached_lookupAll W (ro_regs (verify s r) r))
              (uncached_subscriptions W (ro_regs (verify s r) r)) (rs_caches (get (verify s r) r))) as [c' a].
  reflexivity.
Qed.


Lemma gens_same_regs s s' l : (forall i, rs_reg (get s' i) = rs_reg (get s i)) -> gens s' l = gens s l.
Proof. intros H. apply gens_ext. intros i _. unfold gen_of. rewrite H. reflexivity. Qed.

Lemma ro_regs_same_regs s s' i : (forall j, rs_reg (get s' j) = rs_reg (get s j)) ->
  rs_ro (get s' i) = rs_ro (get s i) -> ro_regs s' i = ro_regs s i.
Proof. intros H E. unfold ro_regs. rewrite E. apply map_ext. intros j. apply H. Qed.

(* a registry whose record and whose registries' storages are untouched keeps its validity *)
Lemma cv_keep W s s' i : (forall j, rs_reg (get s' j) = rs_reg (get s j)) -> get s' i = get s i ->
  cv_at W s i -> cv_at W s' i.
Proof.
  intros H E C. apply (cv_frame W W s s' i); auto.
  - unfold valid_snap. rewrite E. destruct (rs_flavour (get s i)); auto.
    rewrite (gens_same_regs s s'); auto.
  - rewrite E. reflexivity.
  - rewrite (ro_regs_same_regs s s'); auto. rewrite E. reflexivity.
Qed.

(* ---- what _verify leaves behind (registries of either flavour in one system) *)
Lemma m_verify_facts W s r : MInv s -> CV W s -> r < length s ->
  length (verify s r) = length s /\
  (forall i, rs_reg (get (verify s r) i) = rs_reg (get s i)) /\
  (forall i, i <> r -> get (verify s r) i = get s i) /\
  ents W (verify s r) r (rs_caches (get (verify s r) r)).
Proof.
  intros M C Lr. destruct (fl s r) eqn:F.
  - rewrite verify_push by apply F. split; [|split; [|split]]; auto. apply C. unfold valid_snap.
    unfold fl in F. rewrite F. exact Logic.I.
  - destruct (m_verify_ver s r M Lr F) as (_ & L & _ & _ & Rg & _ & Ot & Ne & Eq).
    split; [|split; [|split]]; auto.
    destruct (list_eq_dec Nat.eq_dec (gens s (rs_vro (get s r))) (rs_vgen (get s r))) as [E|N].
    + rewrite (Eq E). apply C. unfold valid_snap. unfold fl in F. rewrite F. exact E.
    + unfold ents. rewrite (Ne N). apply ent_ok_empty.
Qed.

Lemma CV_with_lookup W {A} s r (f : _ -> _ -> _ -> caches -> caches * A) :
  MInv s -> CV W s -> r < length s -> transparent_f f -> CV W (fst (with_lookup W s r f)).
Proof.
  intros I C Lr T. rewrite with_lookup_fst'.
  destruct (m_verify_facts W s r I C Lr) as (L1 & Rg & Ot & E1).
  set (s1 := verify s r) in *.
  set (c' := fst (f _ _ _ _)).
  assert (Rg' : forall j, rs_reg (get (upd s1 r (fun x => set_caches x c')) j) = rs_reg (get s1 j)).
  { intros j. rewrite get_upd. destruct (Nat.eqb j r && Nat.ltb r (length s1)) eqn:E; auto.
    apply andb_true_iff in E. destruct E as (E & _). apply Nat.eqb_eq in E. subst. reflexivity. }
  intros i. destruct (Nat.eq_dec i r) as [->|N].
  - intros _. unfold ents. rewrite (ro_regs_same_regs s1); auto.
    + rewrite get_upd_same by lia. cbn [set_caches rs_caches]. apply T. exact E1.
    + rewrite get_upd_same by lia. reflexivity.
  - apply (cv_keep W s); auto.
    + intros j. rewrite Rg'. apply Rg.
    + rewrite get_upd_other by auto. apply Ot. auto.
Qed.

(* the answer of an entry point = its answer with empty caches over the current chain *)
Lemma with_lookup_answer W {A} s r (f : _ -> _ -> _ -> caches -> caches * A) :
  MInv s -> CV W s -> r < length s -> transparent_f f ->
  snd (with_lookup W s r f) =
  snd (f (uncached_lookup W (chain_regs s r)) (uncached_lookupAll W (chain_regs s r))
         (uncached_subscriptions W (chain_regs s r)) empty_caches).
Proof.
  intros I C Lr T. rewrite with_lookup_snd.
  destruct (m_verify_facts W s r I C Lr) as (_ & _ & _ & E1). unfold ents in E1.
  rewrite (m_chain_after_verify s r I Lr) in *.
  apply T. exact E1.
Qed.

(* ---- what the mutating primitives of Model/RegSys.v leave alone, whatever the flavours:
   __bases__, flavour and storage (up to the generation) of every registry; and a cache is either
   emptied or untouched *)
Definition fr1 (x y : rstate) : Prop :=
  rs_bases y = rs_bases x /\ rs_flavour y = rs_flavour x /\ store (rs_reg y) = store (rs_reg x) /\
  (rs_caches y = empty_caches \/ rs_caches y = rs_caches x).

Definition frame (a b : sys) : Prop := length b = length a /\ forall i, fr1 (get a i) (get b i).

Lemma fr1_refl x : fr1 x x.
Proof. repeat split; auto. Qed.

Lemma fr1_trans x y z : fr1 x y -> fr1 y z -> fr1 x z.
Proof.
  intros (A & B & C & D) (A' & B' & C' & D'). split; [congruence|]. split; [congruence|]. split; [congruence|].
  destruct D' as [D'|D']; auto. destruct D as [D|D]; [left|right]; congruence.
Qed.

Lemma frame_refl s : frame s s.
Proof. split; auto. intros; apply fr1_refl. Qed.

Lemma frame_trans a b c : frame a b -> frame b c -> frame a c.
Proof. intros (L & H) (L' & H'). split; [congruence|]. intros i. eapply fr1_trans; eauto. Qed.

Lemma frame_set_pres s r x : fr1 (get s r) x -> frame s (set s r x).
Proof.
  intros Hx. split; [apply set_length|]. intros i. rewrite get_set.
  destruct (Nat.eqb i r && Nat.ltb r (length s)) eqn:E; [|apply fr1_refl].
  apply andb_true_iff in E. destruct E as (E & _). apply Nat.eqb_eq in E. subst. auto.
Qed.

Lemma frame_upd_pres s r h : (forall x, fr1 x (h x)) -> frame s (upd s r h).
Proof. intros Hh. unfold upd. apply frame_set_pres. apply Hh. Qed.

Lemma frame_fold_pres {B} (F : sys -> B -> sys) l : (forall a x, frame a (F a x)) ->
  forall s, frame s (fold_left F l s).
Proof.
  intros HF. induction l as [|x l IH]; intros s; cbn [fold_left]; [apply frame_refl|].
  eapply frame_trans; [apply HF|apply IH].
Qed.

Lemma refresh_ro_frame : forall f s r, frame s (refresh_ro f s r).
Proof.
  induction f as [|f IH]; intros s r; cbn [refresh_ro].
  - apply frame_set_pres. repeat split; auto.
  - set (s1 := set s r _). assert (E1 : frame s s1) by (apply frame_set_pres; repeat split; auto).
    destruct (rs_flavour (get s r)); auto.
    eapply frame_trans; [exact E1|]. apply frame_fold_pres. intros; apply IH.
Qed.

Lemma lookup_changed_frame b s r : frame s (lookup_changed b s r).
Proof.
  unfold lookup_changed. destruct (rs_flavour (get s r)) eqn:F.
  - apply frame_set_pres. repeat split; cbn; auto.
  - eapply frame_trans; [apply (refresh_ro_frame 0 s r)|].
    set (s0 := refresh_ro 0 s r).
    assert (F0 : rs_flavour (get s0 r) = Verifying).
    { destruct (refresh_ro_frame 0 s r) as (_ & H). destruct (H r) as (_ & Hf & _).
      unfold s0. rewrite Hf. auto. }
    apply frame_set_pres. repeat split; cbn; auto.
Qed.

Lemma bump_fr1 x : fr1 x (bump x).
Proof. repeat split; cbn; auto. Qed.

Lemma sub_changed_frame : forall f s r, frame s (sub_changed f s r).
Proof.
  induction f as [|f IH]; intros s r; cbn [sub_changed].
  - eapply frame_trans; [apply (frame_upd_pres s r bump bump_fr1)|apply lookup_changed_frame].
  - set (s1 := lookup_changed false (upd s r bump) r).
    assert (E1 : frame s s1).
    { eapply frame_trans; [apply (frame_upd_pres s r bump bump_fr1)|apply lookup_changed_frame]. }
    destruct (rs_flavour (get s1 r)); auto.
    eapply frame_trans; [exact E1|]. apply frame_fold_pres. intros; apply IH.
Qed.

Lemma after_bump_frame s r : frame s (after_bump s r).
Proof.
  unfold after_bump. pose proof (lookup_changed_frame false s r) as E1.
  destruct (rs_flavour (get (lookup_changed false s r) r)); auto.
  eapply frame_trans; [exact E1|]. apply frame_fold_pres. intros; apply sub_changed_frame.
Qed.

(* _setBases: only the __bases__ of r change *)
Lemma set_bases_fr s r bs :
  length (set_bases s r bs) = length s /\
  forall i, (i <> r -> rs_bases (get (set_bases s r bs) i) = rs_bases (get s i)) /\
            rs_flavour (get (set_bases s r bs) i) = rs_flavour (get s i) /\
            store (rs_reg (get (set_bases s r bs) i)) = store (rs_reg (get s i)) /\
            (rs_caches (get (set_bases s r bs) i) = empty_caches \/
             rs_caches (get (set_bases s r bs) i) = rs_caches (get s i)).
Proof.
  unfold set_bases.
  set (s1 := match rs_flavour (get s r) with Push => _ | Verifying => s end).
  assert (E1 : frame s s1).
  { unfold s1. destruct (rs_flavour (get s r)); [|apply frame_refl].
    eapply frame_trans;
      [|apply (@frame_fold_pres nat); intros a x; destruct (mem x (rs_bases (get s r))); [apply frame_refl|];
        apply frame_upd_pres; intros y; repeat split; cbn; auto].
    apply (@frame_fold_pres nat). intros a x. destruct (mem x bs); [apply frame_refl|].
    apply frame_upd_pres. intros y. repeat split; cbn; auto. }
  set (s2 := upd s1 r _).
  assert (E2 : frame s2 (after_bump (upd (refresh_ro (length s) s2 r) r bump) r)).
  { eapply frame_trans; [apply refresh_ro_frame|].
    eapply frame_trans; [apply (frame_upd_pres _ r bump bump_fr1)|apply after_bump_frame]. }
  destruct E1 as (L1 & H1). destruct E2 as (L2 & H2).
  assert (Ls2 : length s2 = length s1) by (unfold s2; apply upd_length).
  split; [congruence|]. intros i.
  destruct (H1 i) as (B1 & F1 & S1 & C1). destruct (H2 i) as (B2 & F2 & S2 & C2).
  assert (G2 : (i <> r -> rs_bases (get s2 i) = rs_bases (get s1 i)) /\
               rs_flavour (get s2 i) = rs_flavour (get s1 i) /\
               rs_reg (get s2 i) = rs_reg (get s1 i) /\ rs_caches (get s2 i) = rs_caches (get s1 i)).
  { unfold s2. rewrite get_upd. destruct (Nat.eqb i r && Nat.ltb r (length s1)) eqn:E.
    - apply andb_true_iff in E. destruct E as (E & _). apply Nat.eqb_eq in E. subst. cbn.
      repeat split; auto. congruence.
    - repeat split; auto. }
  destruct G2 as (Gb & Gf & Gr & Gc).
  split; [intros N; rewrite B2, Gb, B1; auto|]. split; [congruence|]. split; [rewrite S2, Gr, S1; auto|].
  destruct C2 as [C2|C2]; auto. rewrite C2, Gc. auto.
Qed.

(* the storage of r is replaced, then changed(r) *)
Lemma setreg_fr s r g' :
  let s' := after_bump (set s r (mkRS g' (rs_caches (get s r)) (rs_bases (get s r)) (rs_ro (get s r))
                                      (rs_subs (get s r)) (rs_vro (get s r)) (rs_vgen (get s r))
                                      (rs_flavour (get s r)))) r in
  length s' = length s /\
  forall i, rs_bases (get s' i) = rs_bases (get s i) /\ rs_flavour (get s' i) = rs_flavour (get s i) /\
            (i <> r -> store (rs_reg (get s' i)) = store (rs_reg (get s i))) /\
            (rs_caches (get s' i) = empty_caches \/ rs_caches (get s' i) = rs_caches (get s i)).
Proof.
  set (s4 := set s r _). cbv zeta. destruct (after_bump_frame s4 r) as (L & H).
  split; [rewrite L; apply set_length|]. intros i. destruct (H i) as (B & F & S & C).
  assert (G : rs_bases (get s4 i) = rs_bases (get s i) /\ rs_flavour (get s4 i) = rs_flavour (get s i) /\
              (i <> r -> get s4 i = get s i) /\ rs_caches (get s4 i) = rs_caches (get s i)).
  { unfold s4. rewrite get_set. destruct (Nat.eqb i r && Nat.ltb r (length s)) eqn:E.
    - apply andb_true_iff in E. destruct E as (E & _). apply Nat.eqb_eq in E. subst. cbn.
      repeat split; auto. congruence.
    - repeat split; auto. }
  destruct G as (Gb & Gf & Go & Gc).
  split; [congruence|]. split; [congruence|]. split; [intros N; rewrite S, (Go N); auto|].
  destruct C as [C|C]; auto. rewrite C, Gc. auto.
Qed.

(* the registry an operation works on *)
Definition op_target (s : sys) (o : rop) : nat :=
  match o with
  | ONewReg _ _ => length s
  | OSetRegBases r _ | ORegister r _ _ _ _ | OUnregister r _ _ _ _ | OSubscribe r _ _ _
  | OUnsubscribe r _ _ _ | ORebuild r => r
  | _ => 0
  end.

Lemma mutate_fr s r f :
  length (mutate s r f) = length s /\
  forall i, rs_bases (get (mutate s r f) i) = rs_bases (get s i) /\
            rs_flavour (get (mutate s r f) i) = rs_flavour (get s i) /\
            (i <> r -> store (rs_reg (get (mutate s r f) i)) = store (rs_reg (get s i))) /\
            (rs_caches (get (mutate s r f) i) = empty_caches \/
             rs_caches (get (mutate s r f) i) = rs_caches (get s i)).
Proof.
  unfold mutate. destruct (Nat.eqb _ _); [split; auto; intros; repeat split; auto|].
  apply (setreg_fr s r (f (rs_reg (get s r)))).
Qed.

Lemma step_frame W call s o : is_mutation o = true ->
  length s <= length (fst (step W call s o)) /\
  forall i, (rs_caches (get (fst (step W call s o)) i) = empty_caches \/
             rs_caches (get (fst (step W call s o)) i) = rs_caches (get s i)) /\
            (i <> op_target s o ->
             rs_bases (get (fst (step W call s o)) i) = rs_bases (get s i) /\
             rs_flavour (get (fst (step W call s o)) i) = rs_flavour (get s i) /\
             store (rs_reg (get (fst (step W call s o)) i)) = store (rs_reg (get s i))).
Proof.
  intros Mu. destruct o; try discriminate; cbn [step fst op_target].
  - (* a new registry *)
    unfold new_reg. set (x := mkRS empty_reg empty_caches [] [] [] [] [] fl).
    destruct (set_bases_fr (s ++ [x]) (length s) bs) as (L & H).
    split; [rewrite L, app_length; cbn; lia|]. intros i. destruct (H i) as (B & F & S & C).
    assert (G : rs_caches (get (s ++ [x]) i) = rs_caches (get s i) /\
                (i <> length s -> get (s ++ [x]) i = get s i)).
    { rewrite get_app_cases. destruct (Nat.ltb i (length s)) eqn:E; [auto|]. apply Nat.ltb_ge in E.
      rewrite (get_oob s i E). destruct (Nat.eqb i (length s)) eqn:E2; [|auto].
      apply Nat.eqb_eq in E2. split; [reflexivity|congruence]. }
    destruct G as (Gc & Go). split; [rewrite <- Gc; exact C|].
    intros N. rewrite <- (Go N). auto.
  - destruct (set_bases_fr s r bs) as (L & H). split; [lia|]. intros i.
    destruct (H i) as (B & F & S & C). auto.
  - destruct (mutate_fr s r (fun g => register W g req p n v)) as (L & H). split; [lia|]. intros i.
    destruct (H i) as (B & F & S & C). auto.
  - destruct (mutate_fr s r (fun g => unregister W g req p n v)) as (L & H). split; [lia|]. intros i.
    destruct (H i) as (B & F & S & C). auto.
  - destruct (mutate_fr s r (fun g => subscribe W g req p v)) as (L & H). split; [lia|]. intros i.
    destruct (H i) as (B & F & S & C). auto.
  - destruct (mutate_fr s r (fun g => unsubscribe W g req p v)) as (L & H). split; [lia|]. intros i.
    destruct (H i) as (B & F & S & C). auto.
  - destruct (setreg_fr s r (rebuild W (rs_reg (get s r)))) as (L & H). cbv zeta in L, H.
    split; [lia|]. intros i. destruct (H i) as (B & F & S & C). auto.
Qed.

Lemma Reach_off (B B' : nat -> list nat) m : (forall y, y <> m -> B y = B' y) ->
  forall x, Reach B x m -> Reach B' x m.
Proof.
  intros E x H. induction H as [x|x b y Hb Hr IH]; [apply Reach_refl|].
  destruct (Nat.eq_dec x y) as [->|N]; [apply Reach_refl|].
  eapply Reach_step; [rewrite <- (E x N); eauto|auto].
Qed.

(* ---- the general step: something changed at registry m (its storage, its __bases__, or it is
   new); what the change reaches is cleared (push) or has a stale snapshot (verifying) *)
Lemma CV_change W s s' m :
  MInv s -> CV W s -> MInv s' -> length s <= length s' ->
  (forall i, (rs_caches (get s' i) = empty_caches \/ rs_caches (get s' i) = rs_caches (get s i)) /\
             (i <> m -> rs_bases (get s' i) = rs_bases (get s i) /\
                        rs_flavour (get s' i) = rs_flavour (get s i) /\
                        store (rs_reg (get s' i)) = store (rs_reg (get s i)))) ->
  (forall i, i <> m -> i < length s -> fl s i = Verifying -> get s' i = get s i) ->
  gen_le s s' ->
  (forall i, i < length s' -> fl s' i = Push -> Reach (Bs s') i m -> rs_caches (get s' i) = empty_caches) ->
  (forall i, i <> m -> i < length s -> fl s i = Verifying -> Reach (Bs s') i m ->
             gens s' (rs_vro (get s' i)) <> rs_vgen (get s' i)) ->
  rs_caches (get s' m) = empty_caches ->
  CV W s'.
Proof.
  intros M C M' L Fr Vs GL Cl St Cm i.
  destruct (Nat.eq_dec i m) as [->|N]; [apply cv_empty; auto|].
  destruct (Fr i) as (Ca & Ot). destruct (Ot N) as (Eb & Ef & Es).
  destruct (Nat.lt_ge_cases i (length s)) as [Li|Li].
  2:{ apply cv_empty. destruct Ca as [Ca|Ca]; auto. rewrite Ca. apply get_oob_caches; auto. }
  pose proof M as (R & Fo & S0 & Cp & Cv). pose proof M' as (R' & Fo' & S0' & Cp' & Cv').
  assert (Boff : forall y, y <> m -> Bs s' y = Bs s y).
  { intros y Ny. unfold Bs. destruct (Fr y) as (_ & Oy). apply Oy; auto. }
  destruct (Reach_dec (Bs s') m R' i) as [Y|Nr].
  - (* below the change *)
    destruct (fl s i) eqn:F.
    + apply cv_empty. apply Cl; auto; [lia|]. unfold fl. rewrite Ef. exact F.
    + intros V'. exfalso. unfold valid_snap in V'.
      assert (Fi' : rs_flavour (get s' i) = Verifying) by (rewrite Ef; exact F).
      rewrite Fi' in V'. exact (St i N Li F Y V').
  - (* not below the change: nothing it depends on moved *)
    destruct Ca as [Ca|Ca]; [apply cv_empty; auto|].
    assert (Ag : agree_from (Bs s') (Bs s) i) by (apply Reach_avoid with (r := m); auto).
    assert (Fre : fresh_ro s' i = fresh_ro s i) by (apply fresh_ro_frame; auto; lia).
    assert (Mem : forall j, In j (fresh_ro s i) -> store (rs_reg (get s' j)) = store (rs_reg (get s j))).
    { intros j Hj. rewrite <- Fre in Hj. apply (fresh_ro_mem s' i j R') in Hj; [|lia].
      assert (j <> m) by (intros ->; auto). destruct (Fr j) as (_ & Oj). apply Oj; auto. }
    destruct (fl s i) eqn:F.
    + assert (F' : fl s' i = Push) by (unfold fl; rewrite Ef; exact F).
      apply (cv_frame W W s s' i); auto.
      * intros _. unfold valid_snap. unfold fl in F. rewrite F. exact I.
      * apply ro_regs_store_ext.
        -- rewrite Cp' by (auto; lia). rewrite Cp by auto. exact Fre.
        -- intros j Hj. rewrite Cp in Hj by auto. auto.
    + pose proof (Vs i N Li F) as Gi. destruct (Cv i Li F) as (Ro & _ & Le & Frs).
      intros V'. unfold valid_snap in V'. rewrite Gi in V'. unfold fl in F. rewrite F in V'.
      destruct (gens_sandwich s s' GL _ _ Le V') as (Ev & _).
      assert (Vi : valid_snap s i) by (unfold valid_snap; rewrite F; exact Ev).
      revert V'. intros _. unfold ents. rewrite Gi.
      apply (ents_ext W W (ro_regs s i)); auto.
      * apply ro_regs_store_ext; [rewrite Gi; reflexivity|].
        intros j Hj. rewrite (Frs Ev) in Hj. auto.
      * apply C. exact Vi.
Qed.

Lemma bump_target_target W s o m : bump_target W s o = Some m -> op_target s o = m /\ is_mutation o = true.
Proof.
  assert (CG : forall r f, changed_gen s r f = Some m -> r = m).
  { intros r f H. unfold changed_gen in H. destruct (Nat.eqb _ _) in H; inversion H; auto. }
  destruct o; cbn [bump_target op_target is_mutation]; intros H; try discriminate;
    try (inversion H; auto; fail); split; auto; eapply CG; eauto.
Qed.

Lemma flavours_fl s s' : flavours s' = flavours s -> forall i, fl s' i = fl s i.
Proof. intros E i. rewrite <- !fl_flavours, E. reflexivity. Qed.

(* an operation that bumps the generation of registry m *)
Lemma CV_bump W call s o m : MInv s -> CV W s -> mwf_op (flavours s) o = true ->
  bump_target W s o = Some m -> CV W (fst (step W call s o)).
Proof.
  intros M C Wf Bt.
  destruct (MInv_step W call s o M Wf) as (M' & E' & L').
  destruct (m_change_shape W call s o m M Wf Bt) as (Lm & GL & GS & Bo & ShP & ShV).
  destruct (bump_target_target W s o m Bt) as (Tg & Mu).
  destruct (step_frame W call s o Mu) as (Le & Fr). rewrite Tg in Fr.
  assert (FA : fls_after (flavours s) o = flavours s).
  { destruct o; cbn [bump_target] in Bt; try discriminate; reflexivity. }
  rewrite FA in E'. pose proof (flavours_fl _ _ E') as Ef.
  set (s' := fst (step W call s o)) in *.
  assert (Vs : forall i, i <> m -> i < length s -> fl s i = Verifying -> get s' i = get s i).
  { intros i N Li F. destruct (fl s m) eqn:Fm.
    - destruct (ShP eq_refl) as (V & _). apply V; auto.
    - destruct (ShV eq_refl) as (O & _). apply O; auto. }
  assert (Cl : forall i, i < length s' -> fl s' i = Push -> Reach (Bs s') i m ->
                         rs_caches (get s' i) = empty_caches).
  { intros i Li F Rr. pose proof (m_cleared_after_change W call s o m M Wf Bt i Li Rr) as H.
    fold s' in H. rewrite verify_push in H by apply F. exact H. }
  apply (CV_change W s s' m); auto.
  - intros i N Li F Rr. rewrite (Vs i N Li F).
    pose proof M as (R & _ & _ & _ & Cv).
    pose proof (m_ver_stale s s' m i R Li (Cv i Li F) (Vs i N Li F) GL GS Bo N Rr) as H.
    rewrite (Vs i N Li F) in H. exact H.
  - destruct (fl s m) eqn:Fm.
    + apply Cl; [lia| rewrite Ef; auto | apply Reach_refl].
    + destruct (ShV eq_refl) as (_ & Cm). exact Cm.
Qed.

(* a storage operation that changes nothing *)
Lemma mutate_noop s r f : changed_gen s r f = None -> mutate s r f = s.
Proof.
  unfold changed_gen, mutate. destruct (Nat.eqb _ _); [reflexivity|discriminate].
Qed.

(* a new registry *)
Lemma CV_new_reg W (call : value -> list nat -> option nat) s f bs : MInv s -> CV W s -> mwf_op (flavours s) (ONewReg f bs) = true ->
  CV W (new_reg s f bs).
Proof.
  intros M C Wf.
  destruct (MInv_step W call s (ONewReg f bs) M Wf) as (M' & E' & L').
  destruct (step_frame W call s (ONewReg f bs) eq_refl) as (Le & Fr).
  cbn [step fst op_target n_after] in *.
  cbn [mwf_op] in Wf. apply andb_true_iff in Wf. destruct Wf as (Hlt & Pb).
  rewrite flavours_length in Hlt. pose proof (forallb_ltb _ _ Hlt) as Hbs.
  set (n := length s) in *. set (s' := new_reg s f bs) in *.
  pose proof M' as (R' & _).
  assert (NR : forall i, i < S n -> Reach (Bs s') i n -> i = n).
  { intros i Li Rr. apply (Reach_le _ R') in Rr. lia. }
  assert (GLe : gen_le s s').
  { apply (step_gen W call f s (ONewReg f bs)). cbn [wf_op]. apply andb_true_iff. split; auto.
    destruct f; reflexivity. }
  assert (Cn : rs_caches (get s' n) = empty_caches).
  { destruct (Fr n) as ([Ca|Ca] & _); auto. rewrite Ca. apply get_oob_caches. unfold n. lia. }
  apply (CV_change W s s' n); auto.
  - (* verifying registries are untouched *)
    intros i N Li F. unfold s', new_reg.
    destruct (app_new_struct s f M) as (R0 & Fo0 & S0 & Cp0 & Cv0 & L0 & G1).
    set (s0 := s ++ _) in *. fold n.
    assert (Fn : fl s0 n = f) by (unfold fl, s0, n; rewrite get_app_new; reflexivity).
    destruct f.
    + destruct (m_set_bases_push_shape s0 n bs) as (s4 & -> & M4 & L4 & E4 & V4 & B4); auto; try (unfold n; lia).
      * intros x Lx Fx. apply Cv0; auto. unfold n in Fn. congruence.
      * intros b Hb. split; [apply Hbs; auto|]. unfold fl. rewrite G1 by (apply Hbs; auto).
        apply (push_bases_ok_spec s Push bs Pb eq_refl); auto.
      * assert (F4 : fl s4 n = Push) by (rewrite E4; auto).
        pose proof (m_after_bump_sv s4 n (proj1 (proj2 M4)) F4) as (_ & K).
        assert (F0 : fl s0 i = Verifying) by (unfold fl; rewrite G1 by auto; exact F).
        rewrite K by (rewrite E4; auto). rewrite V4 by auto. apply G1; auto.
    + destruct (set_bases_ver_shape s0 n bs Fn) as (O & _); [unfold n; lia|].
      rewrite O by auto. apply G1; auto.
  - intros i Li F Rr. rewrite L' in Li. rewrite (NR i Li Rr). exact Cn.
  - intros i N Li F Rr. exfalso. apply N. apply NR; auto.
Qed.

(* ---- the entry points are transparent functions of the caches *)
Lemma tr_lookup req p n : transparent_f (fun ul _ _ c => lookup ul c req p n).
Proof. intros ul ua us c H. apply (lookup_ok ul ua us); auto. Qed.
Lemma tr_lookup1 req p n : transparent_f (fun ul _ _ c => lookup1 ul c req p n).
Proof. intros ul ua us c H. apply (lookup1_ok ul ua us); auto. Qed.
Lemma tr_lookupAll req p : transparent_f (fun _ ua _ c => lookupAll ua c req p).
Proof. intros ul ua us c H. apply (lookupAll_ok ul ua us); auto. Qed.
Lemma tr_names req p : transparent_f (fun _ ua _ c => names ua c req p).
Proof. intros ul ua us c H. apply (names_ok ul ua us); auto. Qed.
Lemma tr_subscriptions req p : transparent_f (fun _ _ us c => subscriptions us c req p).
Proof. intros ul ua us c H. apply (subscriptions_ok ul ua us); auto. Qed.
Lemma tr_adapter_hook call p o n : transparent_f (fun ul _ _ c => adapter_hook ul call c p o n).
Proof. intros ul ua us c H. apply (adapter_hook_ok ul ua us); auto. Qed.
Lemma tr_queryMultiAdapter call os p n : transparent_f (fun ul _ _ c => queryMultiAdapter ul call c os p n).
Proof. intros ul ua us c H. apply (queryMultiAdapter_ok ul ua us); auto. Qed.
Lemma tr_subscribers call os p : transparent_f (fun _ _ us c => subscribers us call c os p).
Proof. intros ul ua us c H. apply (subscribers_ok ul ua us); auto. Qed.

(* ---- every well-formed operation keeps CacheValid (static world, mixed flavours) *)
Lemma CV_step W call s o : MInv s -> CV W s -> mwf_op (flavours s) o = true ->
  CV W (fst (step W call s o)).
Proof.
  intros I C Wf.
  destruct (bump_target W s o) as [m|] eqn:Bt; [apply (CV_bump W call s o m); auto|].
  destruct o; cbn [bump_target] in Bt; try discriminate;
    try (cbn [step fst]; rewrite (mutate_noop _ _ _ Bt); exact C);
    try (cbn [step fst]; exact C).
  1: apply (CV_new_reg W call); auto.
  all: cbn [step mwf_op fst] in *; rewrite fst_let; rewrite flavours_length in Wf; apply Nat.ltb_lt in Wf;
    apply CV_with_lookup; auto;
    first [apply tr_lookup | apply tr_lookup1 | apply tr_lookupAll | apply tr_names
          | apply tr_subscriptions | apply tr_adapter_hook | apply tr_queryMultiAdapter
          | apply tr_subscribers].
Qed.

(* ---- re-basing a specification: Specification.changed reaching the lookup objects *)
Lemma MInv_lookup_changed b s r : MInv s -> r < length s ->
  MInv (lookup_changed b s r) /\ flavours (lookup_changed b s r) = flavours s.
Proof.
  intros M Lr. destruct (fl s r) eqn:F.
  - pose proof (lookup_changed_push_sv b s r F) as K. split.
    + apply (MInv_sv s); auto. apply regs_eq_gen_le. apply lookup_changed_regs.
    + apply flavours_same; [apply (sv_length _ _ K)|apply (sv_fl _ _ K)].
  - pose proof M as (R & Fo & S0 & Cp & Cv).
    destruct (m_resnap b s s r) as (M' & L' & E'); auto. { congruence. }
    split; auto. apply flavours_same; auto.
Qed.

Lemma lookup_changed_facts b s r : MInv s -> r < length s ->
  length (lookup_changed b s r) = length s /\
  (forall j, rs_reg (get (lookup_changed b s r) j) = rs_reg (get s j)) /\
  (forall i, i <> r -> get (lookup_changed b s r) i = get s i) /\
  rs_caches (get (lookup_changed b s r) r) = empty_caches.
Proof.
  intros I Lr. destruct (fl s r) eqn:F.
  - rewrite lookup_changed_push by apply F.
    split; [apply upd_length|]. split; [|split].
    + intros j. rewrite get_upd. destruct (Nat.eqb j r && Nat.ltb r (length s)) eqn:E; auto.
      apply andb_true_iff in E. destruct E as (E & _). apply Nat.eqb_eq in E. subst. reflexivity.
    + intros i N. apply get_upd_other; auto.
    + rewrite get_upd_same; auto.
  - destruct (lookup_changed_ver b s r F Lr) as (L & O & G).
    split; auto. split; [|split]; auto.
    + intros j. destruct (Nat.eq_dec j r) as [->|N]; [rewrite G; reflexivity|rewrite O; auto].
    + rewrite G. reflexivity.
Qed.

Section SpecChanged.
  Variable T : nat -> bool.      (* which lookup objects are reached *)
  Variable s : sys.

  Definition sc_step (acc : sys) (r : nat) : sys := if T r then lookup_changed false acc r else acc.

  Definition SCJ (acc : sys) (done : list nat) : Prop :=
    MInv acc /\ length acc = length s /\ flavours acc = flavours s /\
    (forall j, rs_reg (get acc j) = rs_reg (get s j)) /\
    (forall i, In i done -> T i = true -> rs_caches (get acc i) = empty_caches) /\
    (forall i, ~ In i done \/ T i = false -> get acc i = get s i).

  Lemma sc_fold : forall l acc done, (forall k, In k l -> k < length s) -> SCJ acc done ->
    SCJ (fold_left sc_step l acc) (done ++ l).
  Proof.
    induction l as [|k l IH]; intros acc done Hl J; cbn [fold_left].
    - rewrite app_nil_r. exact J.
    - replace (done ++ k :: l) with ((done ++ [k]) ++ l) by (rewrite <- app_assoc; reflexivity).
      apply IH; [intros; apply Hl; right; auto|].
      destruct J as (I & L & Fl & Rg & Cl & Un). unfold sc_step.
      assert (Lk : k < length acc) by (rewrite L; apply Hl; left; auto).
      destruct (T k) eqn:Tk.
      + destruct (lookup_changed_facts false acc k I Lk) as (L' & Rg' & O' & E').
        destruct (MInv_lookup_changed false acc k I Lk) as (I' & Fl').
        split; [auto|]. split; [congruence|]. split; [congruence|]. split; [|split].
        * intros j. rewrite Rg'. apply Rg.
        * intros i Hi Ti. destruct (Nat.eq_dec i k) as [->|N]; auto.
          rewrite O' by auto. apply in_app_iff in Hi. destruct Hi as [Hi|[Hi|[]]]; [auto|congruence].
        * intros i Hi. assert (N : i <> k).
          { intros ->. destruct Hi as [Hi|Hi]; [apply Hi; apply in_app_iff; right; left; auto|congruence]. }
          rewrite O' by auto. apply Un. destruct Hi as [Hi|Hi]; auto. left. intros H. apply Hi.
          apply in_app_iff; auto.
      + split; auto. split; auto. split; auto. split; auto. split.
        * intros i Hi Ti. apply in_app_iff in Hi. destruct Hi as [Hi|[Hi|[]]]; [auto|congruence].
        * intros i Hi. apply Un. destruct Hi as [Hi|Hi]; auto. left. intros H. apply Hi.
          apply in_app_iff; auto.
  Qed.
End SpecChanged.

Lemma spec_changed_facts g x s : MInv s ->
  let s' := spec_changed g x s in
  MInv s' /\ length s' = length s /\ flavours s' = flavours s /\
  (forall j, rs_reg (get s' j) = rs_reg (get s j)) /\
  (forall i, i < length s -> touched g x (rs_caches (get s i)) = true -> rs_caches (get s' i) = empty_caches) /\
  (forall i, length s <= i \/ touched g x (rs_caches (get s i)) = false -> get s' i = get s i).
Proof.
  intros I. cbv zeta.
  pose proof (sc_fold (fun r => touched g x (rs_caches (get s r))) s (seq 0 (length s)) s []) as H.
  cbn [app] in H. destruct H as (I' & L' & Fl' & Rg & Cl & Un).
  - intros k Hk. apply in_seq in Hk. lia.
  - split; auto. split; auto. split; auto. split; auto. split; [intros i []|auto].
  - unfold spec_changed. unfold sc_step in *.
    split; auto. split; auto. split; auto. split; auto. split.
    + intros i Li Ti. apply Cl; auto. apply in_seq. lia.
    + intros i [Li|Ti]; apply Un; auto. left. intros Hi. apply in_seq in Hi. lia.
Qed.

Lemma CV_spec_changed g ifs x bs s : MInv s -> CV (world_of g ifs) s ->
  CV (world_of (set_spec_bases g x bs) ifs) (spec_changed g x s).
Proof.
  intros I C. destruct (spec_changed_facts g x s I) as (I' & L' & _ & Rg & Cl & Un).
  intros i. destruct (Nat.lt_ge_cases i (length s)) as [Li|Li].
  - destruct (touched g x (rs_caches (get s i))) eqn:Ti.
    + apply cv_empty. apply Cl; auto.
    + assert (E : get (spec_changed g x s) i = get s i) by (apply Un; auto).
      apply (cv_frame (world_of g ifs) _ s _ i); auto.
      * unfold valid_snap. rewrite E. destruct (rs_flavour (get s i)); auto.
        rewrite (gens_same_regs s); auto.
      * rewrite E. reflexivity.
      * rewrite (ro_regs_same_regs s); auto. rewrite E. reflexivity.
      * intros y Hy. apply untouched_sro with (c := rs_caches (get s i)); auto.
  - apply cv_empty. rewrite Un by auto. apply get_oob_caches; auto.
Qed.

(* ---- the combined invariant of Model/CacheSys.v states *)
Definition CInv (st : cstate) : Prop :=
  MInv (cs_sys st) /\ CV (world_of (cs_g st) (cs_if st)) (cs_sys st).

Lemma CInv_init g ifs : CInv (mkCS g ifs []).
Proof. split; [apply MInv_nil|apply CV_nil]. Qed.

Lemma cstep_sys_CReg call st o :
  cs_sys (fst (cstep call st (CReg o))) = fst (step (world_of (cs_g st) (cs_if st)) call (cs_sys st) o) /\
  cs_g (fst (cstep call st (CReg o))) = cs_g st /\ cs_if (fst (cstep call st (CReg o))) = cs_if st /\
  snd (cstep call st (CReg o)) = snd (step (world_of (cs_g st) (cs_if st)) call (cs_sys st) o).
Proof.
  cbn [cstep]. destruct (step (world_of (cs_g st) (cs_if st)) call (cs_sys st) o); cbn. auto.
Qed.

Lemma CInv_step call st o : CInv st -> cmwf_op (flavours (cs_sys st)) o = true ->
  CInv (fst (cstep call st o)) /\
  flavours (cs_sys (fst (cstep call st o))) = cfls_after (flavours (cs_sys st)) o.
Proof.
  intros (I & C) Wf. destruct o as [o|x bs].
  - destruct (cstep_sys_CReg call st o) as (Es & Eg & Ei & _). unfold CInv. rewrite Es, Eg, Ei.
    cbn [cmwf_op cfls_after] in *.
    destruct (MInv_step (world_of (cs_g st) (cs_if st)) call _ o I Wf) as (I' & F' & _).
    split; auto. split; auto. apply (CV_step _ call); auto.
  - cbn [cstep fst cs_sys cs_g cs_if cfls_after]. unfold CInv. cbn [cs_sys cs_g cs_if].
    destruct (spec_changed_facts (cs_g st) x (cs_sys st) I) as (I' & _ & F' & _).
    split; auto. split; auto. apply CV_spec_changed; auto.
Qed.

Lemma CInv_final call : forall ops st, CInv st -> cmwf_hist (flavours (cs_sys st)) ops = true ->
  CInv (cfinal call st ops).
Proof.
  induction ops as [|o ops IH]; intros st J Wf; cbn [cfinal fold_left]; auto.
  cbn [cmwf_hist] in Wf. apply andb_true_iff in Wf. destruct Wf as (Wo & Wf).
  destruct (CInv_step call st o J Wo) as (J' & F'). apply IH; auto. rewrite F'. auto.
Qed.

(* ================================================================== Part 5: the theorems *)

Lemma pure_answer_ext W call ch ch' q : (forall r, ch r = ch' r) -> pure_answer W call ch q = pure_answer W call ch' q.
Proof. intros H. destruct q; cbn [pure_answer]; try rewrite H; reflexivity. Qed.

(* in a good state every lookup-family operation answers its pure answer over the current chain *)
Lemma step_answer_chain W call s q : MInv s -> CV W s -> mwf_op (flavours s) q = true ->
  is_lookup q = true -> snd (step W call s q) = pure_answer W call (chain_regs s) q.
Proof.
  intros I C Wf Q.
  destruct q; try discriminate; cbn [step pure_answer mwf_op] in *; rewrite flavours_length in Wf;
    apply Nat.ltb_lt in Wf;
    rewrite snd_let; rewrite (with_lookup_answer W) by
      (auto; first [apply tr_lookup | apply tr_lookup1 | apply tr_lookupAll | apply tr_names
                   | apply tr_subscriptions | apply tr_adapter_hook | apply tr_queryMultiAdapter
                   | apply tr_subscribers]);
    reflexivity.
Qed.

(* ---- dropping every cache *)
Lemma get_drop s i : get (drop_caches s) i = set_caches (get s i) empty_caches.
Proof.
  unfold drop_caches, get.
  change dummy_rs with (set_caches dummy_rs empty_caches) at 1.
  apply (map_nth (fun x : rstate => set_caches x empty_caches)).
Qed.

Lemma drop_length s : length (drop_caches s) = length s.
Proof. apply map_length. Qed.

Lemma drop_CV W s : CV W (drop_caches s).
Proof. intros i. apply cv_empty. rewrite get_drop. reflexivity. Qed.

Lemma drop_skel s : skel_eq s (drop_caches s).
Proof.
  split; [split; [symmetry; apply drop_length|]|]; intros i; rewrite get_drop; cbn; auto.
Qed.

Lemma drop_flavours s : flavours (drop_caches s) = flavours s.
Proof.
  apply flavours_same; [apply drop_length|]. intros i. unfold fl. rewrite get_drop. reflexivity.
Qed.

Lemma drop_MInv s : MInv s -> MInv (drop_caches s).
Proof.
  intros (R & Fo & S0 & Cp & Cv).
  assert (F : forall i, rs_reg (get (drop_caches s) i) = rs_reg (get s i) /\
                        rs_bases (get (drop_caches s) i) = rs_bases (get s i) /\
                        rs_ro (get (drop_caches s) i) = rs_ro (get s i) /\
                        rs_vro (get (drop_caches s) i) = rs_vro (get s i) /\
                        rs_vgen (get (drop_caches s) i) = rs_vgen (get s i) /\
                        rs_flavour (get (drop_caches s) i) = rs_flavour (get s i))
    by (intros i; rewrite get_drop; cbn; repeat split; reflexivity).
  pose proof (drop_skel s) as (G & Ro).
  assert (Ef : forall i, fl (drop_caches s) i = fl s i) by (intros i; unfold fl; apply F).
  split; [|split; [|split; [|split]]].
  - eapply graph_eq_ranked; eauto.
  - eapply graph_eq_flav_ok; eauto.
  - eapply graph_eq_msubs_ok; eauto.
  - intros r Lr Fr. rewrite drop_length in Lr. rewrite Ef in Fr. rewrite <- Ro.
    rewrite <- (graph_eq_fresh _ _ r G). apply Cp; auto.
  - intros x Lx Fx. rewrite drop_length in Lx. rewrite Ef in Fx.
    apply (snap_frame s _ x); auto; try apply F.
    + rewrite drop_length. lia.
    + intros i. unfold gen_of. destruct (F i) as (-> & _). auto.
    + intros i. unfold Bs. destruct (F i) as (_ & -> & _). congruence.
    + unfold Bs. destruct (F x) as (_ & -> & _). auto.
Qed.

Lemma chain_regs_ext s s' r : length s = length s' ->
  (forall i, rs_reg (get s i) = rs_reg (get s' i)) -> (forall i, Bs s i = Bs s' i) ->
  chain_regs s r = chain_regs s' r.
Proof.
  intros L Rg B. unfold chain_regs. rewrite (fresh_ro_ext s s' r L B). apply map_ext. auto.
Qed.

Lemma drop_chain s r : chain_regs (drop_caches s) r = chain_regs s r.
Proof.
  apply chain_regs_ext.
  - apply drop_length.
  - intros i. rewrite get_drop. reflexivity.
  - intros i. unfold Bs. rewrite get_drop. reflexivity.
Qed.

(* state form, one step: in a good state the caches do not influence any lookup-family answer *)
Lemma transparent_state W call s q : MInv s -> CV W s -> mwf_op (flavours s) q = true ->
  is_lookup q = true -> snd (step W call s q) = snd (step W call (drop_caches s) q).
Proof.
  intros I C Wf Q. rewrite (step_answer_chain W call s q); auto.
  rewrite (step_answer_chain W call (drop_caches s) q); auto using drop_MInv, drop_CV.
  - apply pure_answer_ext. intros r. symmetry. apply drop_chain.
  - rewrite drop_flavours. auto.
Qed.

(* ---- the part of a system that mutations read and write (everything but the lookup objects'
   private state: caches, cached ro, snapshots) *)
Definition core1 (x y : rstate) : Prop :=
  rs_reg x = rs_reg y /\ rs_bases x = rs_bases y /\ rs_subs x = rs_subs y /\ rs_flavour x = rs_flavour y.

Definition core_eq (a b : sys) : Prop := length a = length b /\ forall i, core1 (get a i) (get b i).

Lemma core1_refl x : core1 x x.
Proof. repeat split. Qed.
Lemma core1_sym x y : core1 x y -> core1 y x.
Proof. intros (A & B & C & D). repeat split; auto. Qed.
Lemma core1_trans x y z : core1 x y -> core1 y z -> core1 x z.
Proof. intros (A & B & C & D) (A' & B' & C' & D'). repeat split; congruence. Qed.

Lemma core_refl s : core_eq s s.
Proof. split; auto. intros; apply core1_refl. Qed.
Lemma core_sym a b : core_eq a b -> core_eq b a.
Proof. intros (L & H). split; auto. intros; apply core1_sym; auto. Qed.
Lemma core_trans a b c : core_eq a b -> core_eq b c -> core_eq a c.
Proof. intros (L & H) (L' & H'). split; [congruence|]. intros i. eapply core1_trans; eauto. Qed.

Lemma core_set_cong a b r x y : core_eq a b -> core1 x y -> core_eq (set a r x) (set b r y).
Proof.
  intros (L & H) Hx. split; [rewrite !set_length; auto|]. intros i. rewrite !get_set, L.
  destruct (Nat.eqb i r && Nat.ltb r (length b)); auto.
Qed.

Lemma core_upd_cong a b r h : core_eq a b -> (forall x y, core1 x y -> core1 (h x) (h y)) ->
  core_eq (upd a r h) (upd b r h).
Proof. intros E Hh. unfold upd. apply core_set_cong; auto. apply Hh. apply E. Qed.

Lemma core_set_pres s r x : core1 (get s r) x -> core_eq s (set s r x).
Proof.
  intros Hx. split; [rewrite set_length; auto|]. intros i. rewrite get_set.
  destruct (Nat.eqb i r && Nat.ltb r (length s)) eqn:E; [|apply core1_refl].
  apply andb_true_iff in E. destruct E as (E & _). apply Nat.eqb_eq in E. subst. auto.
Qed.

Lemma core_upd_pres s r h : (forall x, core1 x (h x)) -> core_eq s (upd s r h).
Proof. intros Hh. unfold upd. apply core_set_pres. apply Hh. Qed.

Lemma core_fold_pres {B} (F : sys -> B -> sys) l : (forall a x, core_eq a (F a x)) ->
  forall s, core_eq s (fold_left F l s).
Proof.
  intros HF. induction l as [|x l IH]; intros s; cbn [fold_left]; [apply core_refl|].
  eapply core_trans; [apply HF|apply IH].
Qed.

Lemma core_fold_cong {B} (F : sys -> B -> sys) l :
  (forall a b x, core_eq a b -> core_eq (F a x) (F b x)) ->
  forall a b, core_eq a b -> core_eq (fold_left F l a) (fold_left F l b).
Proof.
  intros HF. induction l as [|x l IH]; intros a b E; cbn [fold_left]; auto.
Qed.

Lemma refresh_ro_core : forall f s r, core_eq s (refresh_ro f s r).
Proof.
  induction f as [|f IH]; intros s r; cbn [refresh_ro].
  - apply core_set_pres. repeat split.
  - set (s1 := set s r _). assert (E1 : core_eq s s1) by (apply core_set_pres; repeat split).
    destruct (rs_flavour (get s r)); auto.
    eapply core_trans; [exact E1|]. apply core_fold_pres. intros; apply IH.
Qed.

Lemma lookup_changed_core b s r : core_eq s (lookup_changed b s r).
Proof.
  unfold lookup_changed. destruct (rs_flavour (get s r)) eqn:F.
  - apply core_set_pres. repeat split. auto.
  - eapply core_trans; [apply (refresh_ro_core 0 s r)|].
    set (s0 := refresh_ro 0 s r).
    assert (F0 : rs_flavour (get s0 r) = Verifying).
    { destruct (refresh_ro_core 0 s r) as (_ & H). destruct (H r) as (_ & _ & _ & Hf).
      unfold s0. rewrite <- Hf. auto. }
    apply core_set_pres. repeat split. auto.
Qed.

Lemma bump_core1 x y : core1 x y -> core1 (bump x) (bump y).
Proof. intros (A & B & C & D). unfold bump. repeat split; cbn; congruence. Qed.

Lemma visit_cong a b r : core_eq a b ->
  core_eq (lookup_changed false (upd a r bump) r) (lookup_changed false (upd b r bump) r).
Proof.
  intros E. eapply core_trans; [apply core_sym, lookup_changed_core|].
  eapply core_trans; [|apply lookup_changed_core]. apply core_upd_cong; auto. apply bump_core1.
Qed.

Lemma sub_changed_cong : forall f a b r, core_eq a b -> core_eq (sub_changed f a r) (sub_changed f b r).
Proof.
  induction f as [|f IH]; intros a b r E; cbn [sub_changed]; [apply visit_cong; auto|].
  pose proof (visit_cong a b r E) as E1.
  set (a1 := lookup_changed false (upd a r bump) r) in *.
  set (b1 := lookup_changed false (upd b r bump) r) in *.
  destruct E1 as (L1 & H1). destruct (H1 r) as (_ & _ & Sb & Fl). rewrite Sb, Fl.
  destruct (rs_flavour (get b1 r)); [|split; auto].
  apply core_fold_cong; [|split; auto]. intros; apply IH; auto.
Qed.

Lemma after_bump_cong a b r : core_eq a b -> core_eq (after_bump a r) (after_bump b r).
Proof.
  intros E. unfold after_bump.
  assert (E1 : core_eq (lookup_changed false a r) (lookup_changed false b r)).
  { eapply core_trans; [apply core_sym, lookup_changed_core|].
    eapply core_trans; [exact E|apply lookup_changed_core]. }
  destruct E as (L & _). rewrite L.
  destruct E1 as (L1 & H1). destruct (H1 r) as (_ & _ & Sb & Fl). rewrite Sb, Fl.
  destruct (rs_flavour (get (lookup_changed false b r) r)); [|split; auto].
  apply core_fold_cong; [|split; auto]. intros; apply sub_changed_cong; auto.
Qed.

Lemma mutate_cong a b r f : core_eq a b -> core_eq (mutate a r f) (mutate b r f).
Proof.
  intros E. unfold mutate. destruct E as (L & H). destruct (H r) as (Rg & Bb & Sb & Fl). rewrite Rg.
  destruct (Nat.eqb (generation (f (rs_reg (get b r)))) (generation (rs_reg (get b r)))); [split; auto|].
  apply after_bump_cong. apply core_set_cong; [split; auto|]. repeat split; auto.
Qed.

Lemma set_bases_cong a b r bs : core_eq a b -> core_eq (set_bases a r bs) (set_bases b r bs).
Proof.
  intros E. unfold set_bases. pose proof E as (L & H). destruct (H r) as (Rg & Bb & Sb & Fl).
  rewrite Bb, Fl, L.
  apply after_bump_cong. apply core_upd_cong; [|apply bump_core1].
  eapply core_trans; [apply core_sym, refresh_ro_core|].
  eapply core_trans; [|apply refresh_ro_core].
  apply core_upd_cong; [|intros x y (A & B & C & D); repeat split; cbn; auto].
  destruct (rs_flavour (get b r)); auto.
  apply core_fold_cong.
  - intros a' b' x E'. destruct (mem x (rs_bases (get b r))); auto.
    apply core_upd_cong; auto. intros u v (A & B & C & D). repeat split; cbn; try rewrite C; auto.
  - apply core_fold_cong; auto.
    intros a' b' x E'. destruct (mem x bs); auto.
    apply core_upd_cong; auto. intros u v (A & B & C & D). repeat split; cbn; try rewrite C; auto.
Qed.

Lemma core_app_cong a b x : core_eq a b -> core_eq (a ++ [x]) (b ++ [x]).
Proof.
  intros (L & H). split; [rewrite !app_length; cbn; lia|]. intros i. rewrite !get_app_cases, L.
  destruct (Nat.ltb i (length b)); auto. apply core1_refl.
Qed.

Lemma verify_core s r : core_eq s (verify s r).
Proof.
  unfold verify. destruct (rs_flavour (get s r)); [apply core_refl|].
  destruct (lspec_eqb _ _); [apply core_refl|apply lookup_changed_core].
Qed.

Lemma with_lookup_core W {A} s r (f : _ -> _ -> _ -> caches -> caches * A) :
  core_eq s (fst (with_lookup W s r f)).
Proof.
  rewrite with_lookup_fst'. eapply core_trans; [apply verify_core|].
  apply core_upd_pres. intros x. repeat split.
Qed.

(* queries leave the core alone; mutations act on it alike *)
Lemma step_query_core W call s o : is_mutation o = false -> core_eq s (fst (step W call s o)).
Proof.
  intros Q. destruct o; try discriminate; cbn [step fst]; try rewrite fst_let;
    first [apply with_lookup_core | apply core_refl].
Qed.

Lemma step_mutation_cong W call a b o : is_mutation o = true -> core_eq a b ->
  core_eq (fst (step W call a o)) (fst (step W call b o)).
Proof.
  intros M E. destruct o; try discriminate; cbn [step fst].
  - unfold new_reg. destruct E as (L & H). rewrite L. apply set_bases_cong. apply core_app_cong. split; auto.
  - apply set_bases_cong; auto.
  - apply mutate_cong; auto.
  - apply mutate_cong; auto.
  - apply mutate_cong; auto.
  - apply mutate_cong; auto.
  - apply after_bump_cong. destruct E as (L & H). destruct (H r) as (Rg & Bb & Sb & Fl).
    apply core_set_cong; [split; auto|]. repeat split; cbn; try congruence;
      try (rewrite Fl, Sb; reflexivity).
Qed.

Lemma spec_changed_core g x s : core_eq s (spec_changed g x s).
Proof.
  unfold spec_changed. apply core_fold_pres. intros a r.
  destruct (touched g x (rs_caches (get s r))); [apply lookup_changed_core|apply core_refl].
Qed.

Lemma core_chain a b r : core_eq a b -> chain_regs a r = chain_regs b r.
Proof.
  intros (L & H). apply chain_regs_ext; auto.
  - intros i. apply H.
  - intros i. unfold Bs. apply H.
Qed.

Lemma core_flavours a b : core_eq a b -> flavours a = flavours b.
Proof.
  intros (L & H). apply flavours_same; auto. intros i. unfold fl. destruct (H i) as (_ & _ & _ & E). auto.
Qed.

(* ---- erased histories *)
Lemma cmwf_erase : forall ops fls, cmwf_hist fls ops = true -> cmwf_hist fls (erase_lookups ops) = true.
Proof.
  induction ops as [|o ops IH]; intros fls H; auto.
  cbn [cmwf_hist] in H. apply andb_true_iff in H. destruct H as (Ho & H).
  unfold erase_lookups. cbn [filter]. fold (erase_lookups ops).
  destruct (cis_mutation o) eqn:M.
  - cbn [cmwf_hist]. rewrite Ho. cbn. apply IH; auto.
  - replace (cfls_after fls o) with fls in H; [apply IH; auto|].
    destruct o as [o|]; [|discriminate]. destruct o; try discriminate; reflexivity.
Qed.

Definition same_world (a b : cstate) : Prop := cs_g a = cs_g b /\ cs_if a = cs_if b.

Lemma erase_sim call : forall ops st1 st2,
  CInv st1 -> CInv st2 -> same_world st1 st2 -> core_eq (cs_sys st1) (cs_sys st2) ->
  cmwf_hist (flavours (cs_sys st1)) ops = true ->
  let f1 := cfinal call st1 ops in
  let f2 := cfinal call st2 (erase_lookups ops) in
  CInv f1 /\ CInv f2 /\ same_world f1 f2 /\ core_eq (cs_sys f1) (cs_sys f2).
Proof.
  induction ops as [|o ops IH]; intros st1 st2 J1 J2 Sw E Wf; cbn zeta.
  - cbn. auto.
  - cbn [cmwf_hist] in Wf. apply andb_true_iff in Wf. destruct Wf as (Wo & Wf).
    destruct (CInv_step call st1 o J1 Wo) as (J1' & L1').
    unfold erase_lookups. cbn [filter cfinal fold_left]. fold (erase_lookups ops).
    destruct Sw as (Sg & Si).
    destruct (cis_mutation o) eqn:M.
    + cbn [cfinal fold_left].
      assert (Wo2 : cmwf_op (flavours (cs_sys st2)) o = true) by (rewrite <- (core_flavours _ _ E); auto).
      destruct (CInv_step call st2 o J2 Wo2) as (J2' & L2').
      apply IH; auto.
      * destruct o as [o|x bs].
        -- destruct (cstep_sys_CReg call st1 o) as (_ & G1 & I1 & _).
           destruct (cstep_sys_CReg call st2 o) as (_ & G2 & I2 & _).
           split; congruence.
        -- split; cbn; congruence.
      * destruct o as [o|x bs].
        -- destruct (cstep_sys_CReg call st1 o) as (-> & _).
           destruct (cstep_sys_CReg call st2 o) as (-> & _).
           rewrite <- Sg, <- Si. apply step_mutation_cong; auto.
        -- cbn [cstep fst cs_sys].
           eapply core_trans; [apply core_sym, spec_changed_core|].
           eapply core_trans; [exact E|apply spec_changed_core].
      * rewrite L1'. auto.
    + destruct o as [o|x bs]; [|discriminate]. cbn [cis_mutation] in M.
      destruct (cstep_sys_CReg call st1 o) as (Es & G1 & I1 & _).
      apply IH; auto.
      * split; congruence.
      * rewrite Es. eapply core_trans; [apply core_sym, step_query_core; auto|exact E].
      * rewrite L1'. auto.
Qed.

(* bookkeeping on runs *)
Lemma crun_app call : forall a st b, crun call st (a ++ b) = crun call st a ++ crun call (cfinal call st a) b.
Proof.
  induction a as [|o a IH]; intros st b; cbn [app crun cfinal fold_left]; auto.
  destruct (cstep call st o) as [st' ans] eqn:E. cbn [fst]. rewrite IH. reflexivity.
Qed.

Lemma crun_length call : forall a st, length (crun call st a) = length a.
Proof.
  induction a as [|o a IH]; intros st; cbn [crun length]; auto.
  destruct (cstep call st o). cbn. rewrite IH. reflexivity.
Qed.

Lemma crun_nth call pre o post st d :
  nth (length pre) (crun call st (pre ++ o :: post)) d = snd (cstep call (cfinal call st pre) o).
Proof.
  rewrite crun_app, app_nth2; rewrite crun_length; [|lia]. rewrite Nat.sub_diag.
  cbn [crun]. destruct (cstep call (cfinal call st pre) o). reflexivity.
Qed.

Lemma cmwf_snoc call : forall pre st o, CInv st ->
  cmwf_hist (flavours (cs_sys st)) (pre ++ [o]) = true ->
  cmwf_hist (flavours (cs_sys st)) pre = true /\
  cmwf_op (flavours (cs_sys (cfinal call st pre))) o = true.
Proof.
  induction pre as [|p pre IH]; intros st o J H.
  - cbn [app cmwf_hist cfinal fold_left] in *. apply andb_true_iff in H. destruct H. auto.
  - cbn [app cmwf_hist] in H. apply andb_true_iff in H. destruct H as (Hp & H).
    destruct (CInv_step call st p J Hp) as (J' & L').
    rewrite <- L' in H. destruct (IH _ o J' H) as (H1 & H2).
    cbn [cmwf_hist cfinal fold_left]. rewrite Hp. cbn [andb]. split; [rewrite <- L'; exact H1|exact H2].
Qed.

Lemma crun_fast_eq call : forall ops st, crun_fast call st ops = crun call st ops.
Proof.
  unfold crun_fast. induction ops as [|o ops IH]; intros st; cbn [crun_w crun]; auto.
  destruct o as [o|x bs]; cbn [cstep].
  - destruct (step (world_of (cs_g st) (cs_if st)) call (cs_sys st) o) as [s' a]. f_equal.
    apply (IH (mkCS (cs_g st) (cs_if st) s')).
  - f_equal. apply (IH (mkCS (set_spec_bases (cs_g st) x bs) (cs_if st) (spec_changed (cs_g st) x (cs_sys st)))).
Qed.


(* homogeneous histories are mixed histories (cf. C06_homogeneous_histories_are_mixed) *)
Lemma cwf_cmwf fl : forall ops n, cwf_hist fl n ops = true -> cmwf_hist (repeat fl n) ops = true.
Proof.
  induction ops as [|o ops IH]; intros n H; cbn [cwf_hist cmwf_hist] in *; auto.
  apply andb_true_iff in H. destruct H as (Ho & H). destruct o as [o|x bs]; cbn [cwf_op cmwf_op cfls_after cn_after] in *.
  - destruct (wf_op_mwf fl n o Ho) as (-> & ->). cbn [andb]. apply IH; auto.
  - apply IH; auto.
Qed.

(* ---- C05, state form: at every reachable state, no lookup-family answer depends on the caches *)
Theorem cache_transparent_state_mixed call g ifs ops q :
  cmwf_hist [] (ops ++ [CReg q]) = true -> is_lookup q = true ->
  let st := cfinal call (mkCS g ifs []) ops in
  snd (cstep call st (CReg q)) =
  snd (cstep call (mkCS (cs_g st) (cs_if st) (drop_caches (cs_sys st))) (CReg q)).
Proof.
  intros Wf Q st.
  destruct (cmwf_snoc call ops (mkCS g ifs []) (CReg q) (CInv_init g ifs) Wf) as (W1 & W2).
  destruct (CInv_final call ops _ (CInv_init g ifs) W1) as (I & C). fold st in I, C, W2.
  destruct (cstep_sys_CReg call st q) as (_ & _ & _ & ->).
  destruct (cstep_sys_CReg call (mkCS (cs_g st) (cs_if st) (drop_caches (cs_sys st))) q) as (_ & _ & _ & ->).
  cbn [cs_g cs_if cs_sys]. apply (transparent_state _ call); auto.
Qed.

(* ---- C05: every lookup-family answer is the uncached answer over the current chain *)
Theorem answers_are_uncached_mixed call g ifs ops q :
  cmwf_hist [] (ops ++ [CReg q]) = true -> is_lookup q = true ->
  let st := cfinal call (mkCS g ifs []) ops in
  snd (cstep call st (CReg q)) =
  pure_answer (world_of (cs_g st) (cs_if st)) call (chain_regs (cs_sys st)) q.
Proof.
  intros Wf Q st.
  destruct (cmwf_snoc call ops (mkCS g ifs []) (CReg q) (CInv_init g ifs) Wf) as (W1 & W2).
  destruct (CInv_final call ops _ (CInv_init g ifs) W1) as (I & C). fold st in I, C, W2.
  destruct (cstep_sys_CReg call st q) as (_ & _ & _ & ->).
  apply (step_answer_chain _ call); auto.
Qed.

(* ---- C05, history form: the answer of a lookup inside a history = its answer after the same
   mutations with every earlier query erased *)
Theorem cache_transparent_mixed call g ifs pre q post :
  cmwf_hist [] (pre ++ [CReg q]) = true -> is_lookup q = true ->
  nth (length pre) (crun call (mkCS g ifs []) (pre ++ CReg q :: post)) [] =
  nth (length (erase_lookups pre)) (crun call (mkCS g ifs []) (erase_lookups pre ++ [CReg q])) [].
Proof.
  intros Wf Q. rewrite !crun_nth.
  set (init := mkCS g ifs []).
  destruct (cmwf_snoc call pre init (CReg q) (CInv_init g ifs) Wf) as (W1 & W2).
  destruct (erase_sim call pre init init) as ((I1 & C1) & (I2 & C2) & (Sg & Si) & E);
    try apply CInv_init; try apply core_refl; auto; [split; auto|].
  set (f1 := cfinal call init pre) in *. set (f2 := cfinal call init (erase_lookups pre)) in *.
  destruct (cstep_sys_CReg call f1 q) as (_ & _ & _ & ->).
  destruct (cstep_sys_CReg call f2 q) as (_ & _ & _ & ->).
  cbn [cmwf_op] in W2.
  rewrite (step_answer_chain _ call (cs_sys f1) q); auto.
  rewrite (step_answer_chain _ call (cs_sys f2) q); auto.
  - rewrite Sg, Si. apply pure_answer_ext. intros r. apply core_chain; auto.
  - rewrite <- (core_flavours _ _ E). auto.
Qed.

(* ---- the static-world instance (Model/RegSys.v alone, any world W) *)
Lemma static_sim W call : forall ops s1 s2,
  MInv s1 -> CV W s1 -> MInv s2 -> CV W s2 -> core_eq s1 s2 -> mwf_hist (flavours s1) ops = true ->
  let f1 := final W call s1 ops in
  let f2 := final W call s2 (filter is_mutation ops) in
  MInv f1 /\ CV W f1 /\ MInv f2 /\ CV W f2 /\ core_eq f1 f2.
Proof.
  induction ops as [|o ops IH]; intros s1 s2 I1 C1 I2 C2 E Wf; cbn zeta.
  - cbn. auto 10.
  - cbn [mwf_hist] in Wf. apply andb_true_iff in Wf. destruct Wf as (Wo & Wf).
    destruct (MInv_step W call s1 o I1 Wo) as (I1' & F1' & _).
    pose proof (CV_step W call s1 o I1 C1 Wo) as C1'.
    cbn [filter final fold_left]. destruct (is_mutation o) eqn:M.
    + assert (Wo2 : mwf_op (flavours s2) o = true) by (rewrite <- (core_flavours _ _ E); auto).
      destruct (MInv_step W call s2 o I2 Wo2) as (I2' & _).
      pose proof (CV_step W call s2 o I2 C2 Wo2) as C2'.
      cbn [final fold_left]. apply IH; auto.
      * apply step_mutation_cong; auto.
      * rewrite F1'. auto.
    + apply IH; auto.
      * eapply core_trans; [apply core_sym, step_query_core; auto|exact E].
      * rewrite F1'. auto.
Qed.

Lemma mwf_prefix : forall pre fls o, mwf_hist fls (pre ++ [o]) = true -> mwf_hist fls pre = true.
Proof.
  induction pre as [|p pre IH]; intros fls o H; [reflexivity|].
  cbn [app mwf_hist] in *. apply andb_true_iff in H. destruct H as (Hp & H). rewrite Hp. cbn [andb]. eauto.
Qed.

Theorem cache_transparent_static_mixed W call pre q :
  mwf_hist [] (pre ++ [q]) = true -> is_lookup q = true ->
  snd (step W call (final W call [] pre) q) =
  snd (step W call (final W call [] (filter is_mutation pre)) q).
Proof.
  intros Wf Q. destruct (mwf_hist_app W call pre [] q MInv_nil Wf) as (_ & W2).
  assert (W1 : mwf_hist (flavours []) pre = true) by (apply (mwf_prefix pre [] q Wf)).
  destruct (static_sim W call pre [] []) as (I1 & C1 & I2 & C2 & E);
    try apply MInv_nil; try apply CV_nil; try apply core_refl; auto.
  rewrite (step_answer_chain W call _ q); auto.
  rewrite (step_answer_chain W call (final W call [] (filter is_mutation pre)) q); auto.
  - apply pure_answer_ext. intros r. apply core_chain; auto.
  - rewrite <- (core_flavours _ _ E). auto.
Qed.

(* ---- what re-basing a specification does to the lookup objects (the dependence set) *)
Theorem spec_rebase_frame_mixed call g ifs ops x bs :
  cmwf_hist [] ops = true ->
  let st := cfinal call (mkCS g ifs []) ops in
  let s := cs_sys st in
  let s' := cs_sys (fst (cstep call st (CSetSpecBases x bs))) in
  length s' = length s /\
  (forall i, i < length s -> touched (cs_g st) x (rs_caches (get s i)) = true ->
             rs_caches (get s' i) = empty_caches) /\
  (forall i, touched (cs_g st) x (rs_caches (get s i)) = false ->
             get s' i = get s i /\
             forall y, In y (c_required (rs_caches (get s i))) ->
                       w_sro (world_of (set_spec_bases (cs_g st) x bs) (cs_if st)) y =
                       w_sro (world_of (cs_g st) (cs_if st)) y).
Proof.
  intros Wf st s s'.
  destruct (CInv_final call ops _ (CInv_init g ifs) Wf) as (I & C). fold st in I, C.
  destruct (spec_changed_facts (cs_g st) x s I) as (_ & L' & _ & _ & Cl & Un).
  split; [exact L'|]. split; [exact Cl|].
  intros i Ti. split; [apply Un; auto|]. intros y Hy.
  apply untouched_sro with (c := rs_caches (get s i)); auto.
Qed.

(* ---- the single-flavour statements are special cases *)
Theorem cache_transparent_state call fl g ifs ops q :
  cwf_hist fl 0 (ops ++ [CReg q]) = true -> is_lookup q = true ->
  let st := cfinal call (mkCS g ifs []) ops in
  snd (cstep call st (CReg q)) =
  snd (cstep call (mkCS (cs_g st) (cs_if st) (drop_caches (cs_sys st))) (CReg q)).
Proof. intros Wf. apply cache_transparent_state_mixed. apply (cwf_cmwf fl _ 0 Wf). Qed.

Theorem answers_are_uncached call fl g ifs ops q :
  cwf_hist fl 0 (ops ++ [CReg q]) = true -> is_lookup q = true ->
  let st := cfinal call (mkCS g ifs []) ops in
  snd (cstep call st (CReg q)) =
  pure_answer (world_of (cs_g st) (cs_if st)) call (chain_regs (cs_sys st)) q.
Proof. intros Wf. apply answers_are_uncached_mixed. apply (cwf_cmwf fl _ 0 Wf). Qed.

Theorem cache_transparent call fl g ifs pre q post :
  cwf_hist fl 0 (pre ++ [CReg q]) = true -> is_lookup q = true ->
  nth (length pre) (crun call (mkCS g ifs []) (pre ++ CReg q :: post)) [] =
  nth (length (erase_lookups pre)) (crun call (mkCS g ifs []) (erase_lookups pre ++ [CReg q])) [].
Proof. intros Wf. apply cache_transparent_mixed. apply (cwf_cmwf fl _ 0 Wf). Qed.

Theorem cache_transparent_static W call fl pre q :
  wf_hist fl 0 (pre ++ [q]) = true -> is_lookup q = true ->
  snd (step W call (final W call [] pre) q) =
  snd (step W call (final W call [] (filter is_mutation pre)) q).
Proof. intros Wf. apply cache_transparent_static_mixed. apply (wf_hist_mwf fl _ 0 Wf). Qed.

Theorem spec_rebase_frame call fl g ifs ops x bs :
  cwf_hist fl 0 ops = true ->
  let st := cfinal call (mkCS g ifs []) ops in
  let s := cs_sys st in
  let s' := cs_sys (fst (cstep call st (CSetSpecBases x bs))) in
  length s' = length s /\
  (forall i, i < length s -> touched (cs_g st) x (rs_caches (get s i)) = true ->
             rs_caches (get s' i) = empty_caches) /\
  (forall i, touched (cs_g st) x (rs_caches (get s i)) = false ->
             get s' i = get s i /\
             forall y, In y (c_required (rs_caches (get s i))) ->
                       w_sro (world_of (set_spec_bases (cs_g st) x bs) (cs_if st)) y =
                       w_sro (world_of (cs_g st) (cs_if st)) y).
Proof. intros Wf. apply spec_rebase_frame_mixed. apply (cwf_cmwf fl _ 0 Wf). Qed.
