(* Proofs for property C05: lookup caches are transparent.
   Part 1: the cache layer of Model/Lookup.v (flavour independent): if every cached entry equals
           the uncached function, every entry point answers what it answers with empty caches,
           and keeps that invariant.
   Part 2: what the uncached functions depend on: the orders of the REQUIRED specs of the key
           and the stores (adapters, subscribers, extendors) of the registries of the order.
   Part 3: re-basing a specification changes the order of its descendants only.
   Part 4: systems: invariant CacheValid, preserved by every operation (both flavours).
   Part 5: the theorems (state form, erased-history form). *)
From Coq Require Import List Arith Bool Lia.
Import ListNotations.
From ZI Require Import Model.Ro Model.Adapter Model.Lookup Model.RegSys Spec.RegChain Model.CacheSys
  Proofs.RegChain.

Ltac nlia := unfold node, spec, name in *; lia.

(* ================================================================== Part 0: decidable equalities *)

Lemma lspec_eqb_eq : forall a b, lspec_eqb a b = true -> a = b.
Proof.
  induction a as [|x a IH]; destruct b as [|y b]; cbn; intros H; try discriminate; auto.
  apply andb_true_iff in H. destruct H as [E H]. apply Nat.eqb_eq in E. subst. f_equal. apply IH. exact H.
Qed.

Lemma ckey_eqb_eq a b : ckey_eqb a b = true -> a = b.
Proof.
  destruct a, b; cbn; intros H; try discriminate.
  - apply Nat.eqb_eq in H. congruence.
  - apply lspec_eqb_eq in H. congruence.
Qed.

Lemma cache_key_eqb_eq a b : cache_key_eqb a b = true -> a = b.
Proof.
  destruct a as [[p1 n1] k1], b as [[p2 n2] k2]. cbn. intros H.
  apply andb_true_iff in H. destruct H as [H K]. apply andb_true_iff in H. destruct H as [P N].
  apply Nat.eqb_eq in P. apply Nat.eqb_eq in N. apply ckey_eqb_eq in K. congruence.
Qed.

Lemma mkey_eqb_eq a b : mkey_eqb a b = true -> a = b.
Proof.
  destruct a as [p1 r1], b as [p2 r2]. unfold mkey_eqb. cbn. intros H.
  apply andb_true_iff in H. destruct H as [P R]. apply Nat.eqb_eq in P. apply lspec_eqb_eq in R. congruence.
Qed.

Lemma ospec_eqb_eq a b : ospec_eqb a b = true -> a = b.
Proof. destruct a, b; cbn; intros H; try discriminate; auto. apply Nat.eqb_eq in H. congruence. Qed.

Lemma sckey_eqb_eq a b : sckey_eqb a b = true -> a = b.
Proof.
  destruct a as [p1 r1], b as [p2 r2]. unfold sckey_eqb. cbn. intros H.
  apply andb_true_iff in H. destruct H as [P R]. apply ospec_eqb_eq in P. apply lspec_eqb_eq in R. congruence.
Qed.

Section AssocFacts.
  Context {K V : Type} (eqb : K -> K -> bool).
  Hypothesis eqb_eq : forall a b, eqb a b = true -> a = b.

  Lemma aget_In (m : list (K * V)) k v : aget eqb m k = Some v -> In (k, v) m.
  Proof.
    induction m as [|[k' v'] m IH]; cbn; [discriminate|].
    destruct (eqb k k') eqn:E.
    - intros H. inversion H; subst. apply eqb_eq in E. subst. auto.
    - auto.
  Qed.

  Lemma In_aset (m : list (K * V)) k v k' v' : In (k', v') (aset eqb m k v) -> (k', v') = (k, v) \/ In (k', v') m.
  Proof.
    induction m as [|[k0 v0] m IH]; cbn.
    - intros [H|[]]; auto.
    - destruct (eqb k k0) eqn:E; cbn.
      + apply eqb_eq in E. subst. intros [H|H]; auto.
      + intros [H|H]; auto. destruct (IH H); auto.
  Qed.
End AssocFacts.

(* ================================================================== Part 1: the cache layer *)

Definition req_of (k : ckey) : list spec := match k with CSingle s => [s] | CMulti l => l end.

Lemma req_of_ckey_of r : req_of (ckey_of r) = r.
Proof. destruct r as [|s [|t r]]; reflexivity. Qed.

Lemma subscribe_fold_In req : forall acc x,
  In x (fold_left (fun acc r => if mem r acc then acc else acc ++ [r]) req acc) <-> In x acc \/ In x req.
Proof.
  induction req as [|r req IH]; intros acc x; cbn [fold_left].
  - cbn. tauto.
  - rewrite IH. destruct (mem r acc) eqn:E.
    + apply mem_In in E. cbn. split; [tauto|]. intros [H|[<-|H]]; auto.
    + rewrite in_app_iff. cbn. tauto.
Qed.

Lemma subscribe_required_incl c req :
  incl (c_required c) (c_required (subscribe_required c req)) /\
  incl req (c_required (subscribe_required c req)).
Proof.
  unfold subscribe_required; cbn. split; intros x H; apply subscribe_fold_In; auto.
Qed.

Section Layer.
  Variable ul : list spec -> spec -> name -> option value.
  Variable ua : list spec -> spec -> list (name * value).
  Variable us : list spec -> option spec -> list value.
  Variable call : value -> list nat -> option nat.

  (* every cached entry equals the uncached function, and its required specs are subscribed *)
  Definition ent_ok (c : caches) : Prop :=
    (forall p n k v, In ((p, n, k), v) (c_cache c) -> v = ul (req_of k) p n /\ incl (req_of k) (c_required c)) /\
    (forall p req v, In ((p, req), v) (c_mcache c) -> v = ua req p /\ incl req (c_required c)) /\
    (forall p req v, In ((p, req), v) (c_scache c) -> v = us req p /\ incl req (c_required c)).

  Lemma ent_ok_empty : ent_ok empty_caches.
  Proof. repeat split; intros; cbn in *; contradiction. Qed.

  Lemma lookup_ok c req p n : ent_ok c ->
    ent_ok (fst (lookup ul c req p n)) /\ snd (lookup ul c req p n) = snd (lookup ul empty_caches req p n).
  Proof.
    intros H0. pose proof H0 as (H1 & H2 & H3). unfold lookup. destruct n as [n|]; [|split; [exact H0|reflexivity]].
    cbn [aget c_cache empty_caches].
    destruct (aget cache_key_eqb (c_cache c) (p, n, ckey_of req)) as [[v|]|] eqn:E.
    - apply (aget_In _ cache_key_eqb_eq) in E. apply H1 in E. rewrite req_of_ckey_of in E.
      destruct E as (E & _). cbn. split; [exact H0|]. rewrite <- E. reflexivity.
    - apply (aget_In _ cache_key_eqb_eq) in E. apply H1 in E. rewrite req_of_ckey_of in E.
      destruct E as (E & _). cbn. split; [exact H0|]. rewrite <- E. reflexivity.
    - cbn [fst snd]. split; [|reflexivity].
      set (c0 := mkC _ _ _ _). destruct (subscribe_required_incl c0 req) as (I1 & I2).
      unfold ent_ok. unfold subscribe_required at 1 2 3. cbn [c_cache c_mcache c_scache]. subst c0. cbn [c_cache c_mcache c_scache] in *.
      repeat split.
      + apply (In_aset _ cache_key_eqb_eq) in H. destruct H as [H|H].
        * inversion H; subst. rewrite req_of_ckey_of. reflexivity.
        * apply H1 in H. apply H.
      + apply (In_aset _ cache_key_eqb_eq) in H. destruct H as [H|H].
        * inversion H; subst. rewrite req_of_ckey_of. exact I2.
        * apply H1 in H. destruct H as (_ & H). eapply incl_tran; eauto.
      + apply H2 in H. apply H.
      + apply H2 in H. destruct H as (_ & H). eapply incl_tran; eauto.
      + apply H3 in H. apply H.
      + apply H3 in H. destruct H as (_ & H). eapply incl_tran; eauto.
  Qed.

  Lemma lookup_empty_single s p n :
    snd (lookup ul empty_caches [s] p (NStr n)) = match ul [s] p n with Some v => RVal v | None => RDefault end.
  Proof. reflexivity. Qed.

  Lemma lookup1_ok c s p n : ent_ok c ->
    ent_ok (fst (lookup1 ul c s p n)) /\ snd (lookup1 ul c s p n) = snd (lookup1 ul empty_caches s p n).
  Proof.
    intros H. unfold lookup1. destruct n as [n|]; [|split; auto].
    cbn [aget c_cache empty_caches].
    destruct (aget cache_key_eqb (c_cache c) (p, n, CSingle s)) as [[v|]|] eqn:E.
    - apply (aget_In _ cache_key_eqb_eq) in E. apply H in E. cbn [req_of] in E. destruct E as (E & _).
      split; auto. cbn [snd]. rewrite lookup_empty_single, <- E. reflexivity.
    - apply (aget_In _ cache_key_eqb_eq) in E. apply H in E. cbn [req_of] in E. destruct E as (E & _).
      split; auto. cbn [snd]. rewrite lookup_empty_single, <- E. reflexivity.
    - apply lookup_ok; auto.
  Qed.

  Lemma adapter_hook_empty p o n :
    snd (adapter_hook ul call empty_caches p o (NStr n)) =
    match ul [o_provides o] p n with
    | Some f => match call f [unwrap o] with Some r => RVal r | None => RDefault end
    | None => RDefault
    end.
  Proof.
    unfold adapter_hook, lookup. cbn [aget c_cache empty_caches ckey_of].
    destruct (ul [o_provides o] p n) as [f|]; [destruct (call f [unwrap o])|]; reflexivity.
  Qed.

  Lemma adapter_hook_ok c p o n : ent_ok c ->
    ent_ok (fst (adapter_hook ul call c p o n)) /\
    snd (adapter_hook ul call c p o n) = snd (adapter_hook ul call empty_caches p o n).
  Proof.
    intros H. destruct n as [n|]; [|split; auto].
    rewrite adapter_hook_empty. unfold adapter_hook.
    destruct (lookup_ok c [o_provides o] p (NStr n) H) as (L1 & L2).
    rewrite lookup_empty_single in L2.
    destruct (aget cache_key_eqb (c_cache c) (p, n, CSingle (o_provides o))) as [f|] eqn:E.
    - apply (aget_In _ cache_key_eqb_eq) in E. apply H in E. cbn [req_of] in E. destruct E as (E & _).
      rewrite <- E. destruct f as [f|]; [destruct (call f [unwrap o])|]; split; auto.
    - destruct (lookup ul c [o_provides o] p (NStr n)) as [c1 r1]. cbn [fst snd] in *.
      destruct (ul [o_provides o] p n) as [f|]; subst r1; [destruct (call f [unwrap o])|]; split; auto.
  Qed.

  Lemma queryMultiAdapter_ok c os p n : ent_ok c ->
    ent_ok (fst (queryMultiAdapter ul call c os p n)) /\
    snd (queryMultiAdapter ul call c os p n) = snd (queryMultiAdapter ul call empty_caches os p n).
  Proof.
    intros H. unfold queryMultiAdapter.
    destruct (lookup_ok c (map o_provides os) p n H) as (L1 & L2).
    destruct (lookup ul c (map o_provides os) p n) as [c1 r1].
    destruct (lookup ul empty_caches (map o_provides os) p n) as [c2 r2].
    cbn [fst snd] in *. subst r2. destruct r1 as [v| |].
    - destruct (call v (map unwrap os)); split; auto.
    - split; auto.
    - split; auto.
  Qed.

  Lemma lookupAll_ok c req p : ent_ok c ->
    ent_ok (fst (lookupAll ua c req p)) /\ snd (lookupAll ua c req p) = snd (lookupAll ua empty_caches req p).
  Proof.
    intros H0. pose proof H0 as (H1 & H2 & H3). unfold lookupAll. cbn [aget c_mcache empty_caches].
    destruct (aget mkey_eqb (c_mcache c) (p, req)) as [r|] eqn:E.
    - apply (aget_In _ mkey_eqb_eq) in E. apply H2 in E. destruct E as (E & _).
      split; [exact H0|]. cbn. auto.
    - cbn [fst snd]. split; [|reflexivity].
      set (c0 := mkC _ _ _ _). destruct (subscribe_required_incl c0 req) as (I1 & I2).
      unfold ent_ok. unfold subscribe_required at 1 2 3. cbn [c_cache c_mcache c_scache]. subst c0. cbn [c_cache c_mcache c_scache] in *.
      repeat split.
      + apply H1 in H. apply H.
      + apply H1 in H. destruct H as (_ & H). eapply incl_tran; eauto.
      + apply (In_aset _ mkey_eqb_eq) in H. destruct H as [H|H].
        * inversion H; subst. reflexivity.
        * apply H2 in H. apply H.
      + apply (In_aset _ mkey_eqb_eq) in H. destruct H as [H|H].
        * inversion H; subst. exact I2.
        * apply H2 in H. destruct H as (_ & H). eapply incl_tran; eauto.
      + apply H3 in H. apply H.
      + apply H3 in H. destruct H as (_ & H). eapply incl_tran; eauto.
  Qed.

  Lemma names_ok c req p : ent_ok c ->
    ent_ok (fst (names ua c req p)) /\ snd (names ua c req p) = snd (names ua empty_caches req p).
  Proof.
    intros H. unfold names. destruct (lookupAll_ok c req p H) as (L1 & L2).
    destruct (lookupAll ua c req p) as [c1 r1]. destruct (lookupAll ua empty_caches req p) as [c2 r2].
    cbn [fst snd] in *. subst. auto.
  Qed.

  Lemma subscriptions_ok c req p : ent_ok c ->
    ent_ok (fst (subscriptions us c req p)) /\
    snd (subscriptions us c req p) = snd (subscriptions us empty_caches req p).
  Proof.
    intros H0. pose proof H0 as (H1 & H2 & H3). unfold subscriptions. cbn [aget c_scache empty_caches].
    destruct (aget sckey_eqb (c_scache c) (p, req)) as [r|] eqn:E.
    - apply (aget_In _ sckey_eqb_eq) in E. apply H3 in E. destruct E as (E & _).
      split; [exact H0|]. cbn. auto.
    - cbn [fst snd]. split; [|reflexivity].
      set (c0 := mkC _ _ _ _). destruct (subscribe_required_incl c0 req) as (I1 & I2).
      unfold ent_ok. unfold subscribe_required at 1 2 3. cbn [c_cache c_mcache c_scache]. subst c0. cbn [c_cache c_mcache c_scache] in *.
      repeat split.
      + apply H1 in H. apply H.
      + apply H1 in H. destruct H as (_ & H). eapply incl_tran; eauto.
      + apply H2 in H. apply H.
      + apply H2 in H. destruct H as (_ & H). eapply incl_tran; eauto.
      + apply (In_aset _ sckey_eqb_eq) in H. destruct H as [H|H].
        * inversion H; subst. reflexivity.
        * apply H3 in H. apply H.
      + apply (In_aset _ sckey_eqb_eq) in H. destruct H as [H|H].
        * inversion H; subst. exact I2.
        * apply H3 in H. destruct H as (_ & H). eapply incl_tran; eauto.
  Qed.

  Lemma subscribers_ok c os p : ent_ok c ->
    ent_ok (fst (subscribers us call c os p)) /\
    snd (subscribers us call c os p) = snd (subscribers us call empty_caches os p).
  Proof.
    intros H. unfold subscribers. destruct (subscriptions_ok c (map o_provides os) p H) as (L1 & L2).
    destruct (subscriptions us c (map o_provides os) p) as [c1 r1].
    destruct (subscriptions us empty_caches (map o_provides os) p) as [c2 r2].
    cbn [fst snd] in *. subst. destruct p; auto.
  Qed.
End Layer.

(* ent_ok only looks at the uncached functions on the keys' required specs *)
Lemma ent_ok_ext ul ua us ul' ua' us' c :
  (forall req p n, incl req (c_required c) -> ul req p n = ul' req p n) ->
  (forall req p, incl req (c_required c) -> ua req p = ua' req p) ->
  (forall req p, incl req (c_required c) -> us req p = us' req p) ->
  ent_ok ul ua us c -> ent_ok ul' ua' us' c.
Proof.
  intros E1 E2 E3 (H1 & H2 & H3). repeat split.
  - apply H1 in H. destruct H as (-> & I). apply E1; auto.
  - apply H1 in H. apply H.
  - apply H2 in H. destruct H as (-> & I). apply E2; auto.
  - apply H2 in H. apply H.
  - apply H3 in H. destruct H as (-> & I). apply E3; auto.
  - apply H3 in H. apply H.
Qed.

(* ================================================================== Part 2: dependence *)

Definition store (r : reg) := (adapters r, Adapter.subscribers r, extendors r).

Lemma first_some_ext {A B} (f g : A -> option B) l :
  (forall x, In x l -> f x = g x) -> first_some f l = first_some g l.
Proof.
  induction l as [|x l IH]; cbn; intros H; auto.
  rewrite (H x) by auto. destruct (g x); auto.
Qed.

Lemma fold_left_ext_in {A B} (f g : A -> B -> A) l : forall a,
  (forall a x, In x l -> f a x = g a x) -> fold_left f l a = fold_left g l a.
Proof.
  induction l as [|x l IH]; cbn; intros a H; auto.
  rewrite (H a x) by auto. apply IH. intros; apply H; auto.
Qed.

Section Dep.
  Variables W W' : world.

  Lemma lookup_walk_ext m exts n : forall specs prefix,
    (forall s, In s specs -> w_sro W s = w_sro W' s) ->
    lookup_walk W m prefix specs exts n = lookup_walk W' m prefix specs exts n.
  Proof.
    induction specs as [|s rest IH]; intros prefix H; cbn [lookup_walk]; auto.
    rewrite <- (H s) by (left; auto). apply first_some_ext. intros x _. apply IH.
    intros; apply H; right; auto.
  Qed.

  Lemma lookupAll_walk_ext m exts : forall specs prefix acc,
    (forall s, In s specs -> w_sro W s = w_sro W' s) ->
    lookupAll_walk W m prefix specs exts acc = lookupAll_walk W' m prefix specs exts acc.
  Proof.
    induction specs as [|s rest IH]; intros prefix acc H; cbn [lookupAll_walk]; auto.
    rewrite <- (H s) by (left; auto). apply fold_left_ext_in. intros a x _. apply IH.
    intros; apply H; right; auto.
  Qed.

  Lemma subs_walk_ext m exts : forall specs prefix,
    (forall s, In s specs -> w_sro W s = w_sro W' s) ->
    subs_walk W m prefix specs exts = subs_walk W' m prefix specs exts.
  Proof.
    induction specs as [|s rest IH]; intros prefix H; cbn [subs_walk]; auto.
    rewrite <- (H s) by (left; auto). apply flat_map_ext_in. intros x _. apply IH.
    intros; apply H; right; auto.
  Qed.

  Lemma uncached_lookup_ext req p n : (forall s, In s req -> w_sro W s = w_sro W' s) ->
    forall regs regs', map store regs = map store regs' ->
    uncached_lookup W regs req p n = uncached_lookup W' regs' req p n.
  Proof.
    intros H. unfold uncached_lookup.
    induction regs as [|r regs IH]; destruct regs' as [|r' regs']; cbn [map first_some]; intros E;
      try discriminate; auto.
    inversion E as [[E1 E2 E3 E4]]. rewrite E3, E1, (IH regs' E4).
    destruct (ext_get (extendors r') p); auto. rewrite (lookup_walk_ext _ _ _ req [] H). reflexivity.
  Qed.

  Lemma uncached_lookupAll_ext req p : (forall s, In s req -> w_sro W s = w_sro W' s) ->
    forall regs regs', map store regs = map store regs' ->
    uncached_lookupAll W regs req p = uncached_lookupAll W' regs' req p.
  Proof.
    intros H regs regs' E. unfold uncached_lookupAll.
    assert (E' : map store (rev regs) = map store (rev regs')) by (rewrite !map_rev; congruence).
    generalize (@nil (name * value)). revert E'. generalize (rev regs) (rev regs'). clear E regs regs'.
    intros l. induction l as [|r l IH]; intros [|r' l'] E acc; cbn [map fold_left] in *;
      try discriminate; auto.
    inversion E as [[E1 E2 E3 E4]]. rewrite E3, E1.
    destruct (ext_get (extendors r') p); [apply IH; exact E4|].
    rewrite (lookupAll_walk_ext _ _ req [] acc H). apply IH. exact E4.
  Qed.

  Lemma uncached_subscriptions_ext req p : (forall s, In s req -> w_sro W s = w_sro W' s) ->
    forall regs regs', map store regs = map store regs' ->
    uncached_subscriptions W regs req p = uncached_subscriptions W' regs' req p.
  Proof.
    intros H regs regs' E. unfold uncached_subscriptions.
    assert (E' : map store (rev regs) = map store (rev regs')) by (rewrite !map_rev; congruence).
    revert E'. generalize (rev regs) (rev regs'). clear E regs regs'.
    intros l. induction l as [|r l IH]; intros [|r' l'] E; cbn [map flat_map] in *;
      try discriminate; auto.
    inversion E as [[E1 E2 E3 E4]]. rewrite (IH l' E4). f_equal.
    destruct p as [p'|].
    - rewrite E3. destruct (aget Nat.eqb (extendors r') p'); auto.
      rewrite E2. apply subs_walk_ext; auto.
    - rewrite E2. apply subs_walk_ext; auto.
  Qed.
End Dep.

(* ================================================================== Part 3: re-basing a spec *)

Lemma nth_map_seq {A} (f : nat -> A) d n x : nth x (map f (seq 0 n)) d = if Nat.ltb x n then f x else d.
Proof.
  destruct (Nat.ltb x n) eqn:E.
  - apply Nat.ltb_lt in E. rewrite (nth_indep _ d (f 0)) by (rewrite map_length, seq_length; auto).
    rewrite map_nth, seq_nth; auto.
  - apply Nat.ltb_ge in E. apply nth_overflow. rewrite map_length, seq_length. auto.
Qed.

Lemma world_of_sro g ifs x : w_sro (world_of g ifs) x = sro_of g x.
Proof. unfold world_of, sro_of. cbn [w_sro]. apply nth_map_seq. Qed.

Lemma set_spec_bases_length g x bs : length (set_spec_bases g x bs) = length g.
Proof. apply map_length. Qed.

Lemma set_spec_bases_other g x bs y : y <> x -> bases (set_spec_bases g x bs) y = bases g y.
Proof.
  intros N. induction g as [|[z zs] g IH]; cbn; auto.
  destruct (Nat.eqb z x) eqn:E; cbn.
  - apply Nat.eqb_eq in E. subst z. destruct (Nat.eqb y x) eqn:E2; auto. apply Nat.eqb_eq in E2. congruence.
  - destruct (Nat.eqb y z); auto.
Qed.

Section Rebase.
  Variables g g' : graph.
  Variable x : node.
  Hypothesis off : forall y, y <> x -> bases g' y = bases g y.

  Lemma reachb_false_inv f y : reachb (S f) g y x = false ->
    y <> x /\ forall b, In b (bases g y) -> reachb f g b x = false.
  Proof.
    cbn [reachb]. intros H. apply orb_false_iff in H. destruct H as [H1 H2].
    apply Nat.eqb_neq in H1. split; auto. intros b Hb.
    destruct (reachb f g b x) eqn:E; auto.
    assert (existsb (fun b => reachb f g b x) (bases g y) = true) by (apply existsb_exists; eauto).
    congruence.
  Qed.

  Lemma reachb_0_inv y : reachb 0 g y x = false -> y <> x.
  Proof. cbn. rewrite orb_false_r. apply Nat.eqb_neq. Qed.

  Lemma flatten_rebase : forall f y, reachb f g y x = false ->
    legacy_flatten (S f) g' y = legacy_flatten (S f) g y.
  Proof.
    induction f as [|f IH]; intros y H.
    - apply reachb_0_inv in H. cbn [legacy_flatten]. rewrite off; auto.
    - apply reachb_false_inv in H. destruct H as [N Hb].
      change (legacy_flatten (S (S f)) g' y) with (y :: flat_map (legacy_flatten (S f) g') (bases g' y)).
      change (legacy_flatten (S (S f)) g y) with (y :: flat_map (legacy_flatten (S f) g) (bases g y)).
      rewrite off; auto. f_equal. apply flat_map_ext_in. intros b B. apply IH. auto.
  Qed.

  Lemma fresh_sro_rebase root : forall f y, reachb f g y x = false ->
    fresh_sro (S f) root g' y = fresh_sro (S f) root g y.
  Proof.
    induction f as [|f IH]; intros y H.
    - pose proof (flatten_rebase 0 y H) as F. apply reachb_0_inv in H.
      cbn [fresh_sro]. unfold calc_sro, legacy_ro. rewrite F, off; auto.
    - pose proof (flatten_rebase (S f) y H) as F. apply reachb_false_inv in H. destruct H as [N Hb].
      change (fresh_sro (S (S f)) root g' y) with
        (match calc_sro false root (S (S f)) g' (fresh_sro (S f) root g') y with ROk m _ => m | _ => [] end).
      change (fresh_sro (S (S f)) root g y) with
        (match calc_sro false root (S (S f)) g (fresh_sro (S f) root g) y with ROk m _ => m | _ => [] end).
      unfold calc_sro, legacy_ro. rewrite F, off; auto.
      replace (map (fresh_sro (S f) root g') (bases g y)) with (map (fresh_sro (S f) root g) (bases g y)); auto.
      apply map_ext_in. intros b B. symmetry. apply IH. auto.
  Qed.
End Rebase.

(* a lookup object that did not subscribe to x or a descendant keeps the orders of all its specs *)
Lemma untouched_sro g ifs x bs c : touched g x c = false ->
  forall y, In y (c_required c) ->
  w_sro (world_of (set_spec_bases g x bs) ifs) y = w_sro (world_of g ifs) y.
Proof.
  intros T y Hy. rewrite !world_of_sro. unfold sro_of. rewrite set_spec_bases_length.
  destruct (Nat.ltb y (length g)); auto.
  apply (fresh_sro_rebase g (set_spec_bases g x bs) x).
  - intros z Nz. apply set_spec_bases_other; auto.
  - unfold touched in T. destruct (reachb (length g) g y x) eqn:E; auto.
    assert (existsb (fun y => reachb (length g) g y x) (c_required c) = true) by (apply existsb_exists; eauto).
    congruence.
Qed.

(* ================================================================== Part 4: systems *)

(* the snapshot of a verifying registry still matches (always true for a push registry) *)
Definition valid_snap (s : sys) (r : nat) : Prop :=
  match rs_flavour (get s r) with
  | Push => True
  | Verifying => gens s (rs_vro (get s r)) = rs_vgen (get s r)
  end.

Definition ents (W : world) (s : sys) (r : nat) (c : caches) : Prop :=
  ent_ok (uncached_lookup W (ro_regs s r)) (uncached_lookupAll W (ro_regs s r))
         (uncached_subscriptions W (ro_regs s r)) c.

(* CacheValid: every cached entry of every registry whose snapshot is still valid equals the
   uncached function of the CURRENT state and world, and its required specs are subscribed *)
Definition cv_at (W : world) (s : sys) (r : nat) : Prop :=
  valid_snap s r -> ents W s r (rs_caches (get s r)).

Definition CV (W : world) (s : sys) : Prop := forall r, cv_at W s r.

Lemma ents_ext W W' regs regs' c :
  map store regs' = map store regs ->
  (forall y, In y (c_required c) -> w_sro W' y = w_sro W y) ->
  ent_ok (uncached_lookup W regs) (uncached_lookupAll W regs) (uncached_subscriptions W regs) c ->
  ent_ok (uncached_lookup W' regs') (uncached_lookupAll W' regs') (uncached_subscriptions W' regs') c.
Proof.
  intros E Hw. apply ent_ok_ext; intros req p; intros.
  - apply uncached_lookup_ext; auto. intros y Hy. symmetry. apply Hw. auto.
  - apply uncached_lookupAll_ext; auto. intros y Hy. symmetry. apply Hw. auto.
  - apply uncached_subscriptions_ext; auto. intros y Hy. symmetry. apply Hw. auto.
Qed.

Lemma cv_empty W s r : rs_caches (get s r) = empty_caches -> cv_at W s r.
Proof. intros E _. unfold ents. rewrite E. apply ent_ok_empty. Qed.

Lemma cv_frame W W' s s' i :
  cv_at W s i ->
  (valid_snap s' i -> valid_snap s i) ->
  rs_caches (get s' i) = rs_caches (get s i) ->
  map store (ro_regs s' i) = map store (ro_regs s i) ->
  (forall y, In y (c_required (rs_caches (get s i))) -> w_sro W' y = w_sro W y) ->
  cv_at W' s' i.
Proof.
  intros C V Ec Er Hw V'. unfold ents. rewrite Ec. apply (ents_ext W W' (ro_regs s i)); auto.
  apply C. auto.
Qed.

Lemma CV_nil W : CV W [].
Proof. intros r. apply cv_empty. unfold get. destruct r; reflexivity. Qed.

Lemma get_oob_caches s i : length s <= i -> rs_caches (get s i) = empty_caches.
Proof. intros H. rewrite get_oob; auto. Qed.

Lemma ro_regs_store_ext s s' i :
  rs_ro (get s' i) = rs_ro (get s i) ->
  (forall j, In j (rs_ro (get s i)) -> store (rs_reg (get s' j)) = store (rs_reg (get s j))) ->
  map store (ro_regs s' i) = map store (ro_regs s i).
Proof.
  intros E H. unfold ro_regs. rewrite E, !map_map. apply map_ext_in. exact H.
Qed.

(* ---- entry points as functions of the caches *)
Definition transparent_f {A}
  (f : (list spec -> spec -> name -> option value) -> (list spec -> spec -> list (name * value)) ->
       (list spec -> option spec -> list value) -> caches -> caches * A) : Prop :=
  forall ul ua us c, ent_ok ul ua us c ->
    ent_ok ul ua us (fst (f ul ua us c)) /\ snd (f ul ua us c) = snd (f ul ua us empty_caches).

Lemma with_lookup_fst' W {A} s r (f : _ -> _ -> _ -> caches -> caches * A) :
  fst (with_lookup W s r f) =
  upd (verify s r) r (fun x => set_caches x
    (fst (f (uncached_lookup W (ro_regs (verify s r) r)) (uncached_lookupAll W (ro_regs (verify s r) r))
            (uncached_subscriptions W (ro_regs (verify s r) r)) (rs_caches (get (verify s r) r))))).
Proof.
  unfold with_lookup. cbv zeta.
  destruct (f (uncached_lookup W (ro_regs (verify s r) r)) (uncached_lookupAll W (ro_regs (verify s r) r))
              (uncached_subscriptions W (ro_regs (verify s r) r)) (rs_caches (get (verify s r) r))) as [c' a].
  reflexivity.
Qed.

(* what _verify leaves behind, for either flavour *)
Lemma verify_facts W fl s r : Inv fl s -> CV W s -> r < length s ->
  length (verify s r) = length s /\
  (forall i, rs_reg (get (verify s r) i) = rs_reg (get s i)) /\
  (forall i, i <> r -> get (verify s r) i = get s i) /\
  ents W (verify s r) r (rs_caches (get (verify s r) r)).
Proof.
  intros I C Lr. destruct fl.
  - rewrite verify_push by apply I. split; [|split; [|split]]; auto. apply C. unfold valid_snap.
    destruct I as (Al & _). rewrite (Al r). exact Logic.I.
  - destruct (verify_ver s r I Lr) as (_ & L & _ & Rg & _ & Ot & Ne & Eq).
    split; [|split; [|split]]; auto.
    destruct (list_eq_dec Nat.eq_dec (gens s (rs_vro (get s r))) (rs_vgen (get s r))) as [E|N].
    + rewrite (Eq E). apply C. unfold valid_snap. destruct I as (Al & _). rewrite (Al r Lr). exact E.
    + unfold ents. rewrite (Ne N). apply ent_ok_empty.
Qed.

Lemma gens_same_regs s s' l : (forall i, rs_reg (get s' i) = rs_reg (get s i)) -> gens s' l = gens s l.
Proof. intros H. apply gens_ext. intros i _. unfold gen_of. rewrite H. reflexivity. Qed.

Lemma ro_regs_same_regs s s' i : (forall j, rs_reg (get s' j) = rs_reg (get s j)) ->
  rs_ro (get s' i) = rs_ro (get s i) -> ro_regs s' i = ro_regs s i.
Proof. intros H E. unfold ro_regs. rewrite E. apply map_ext. intros j. apply H. Qed.

(* a registry whose record and whose registries' storages are untouched keeps its validity *)
Lemma cv_keep W s s' i : (forall j, rs_reg (get s' j) = rs_reg (get s j)) -> get s' i = get s i ->
  cv_at W s i -> cv_at W s' i.
Proof.
  intros H E C. apply (cv_frame W W s s' i); auto.
  - unfold valid_snap. rewrite E. destruct (rs_flavour (get s i)); auto.
    rewrite (gens_same_regs s s'); auto.
  - rewrite E. reflexivity.
  - rewrite (ro_regs_same_regs s s'); auto. rewrite E. reflexivity.
Qed.

Lemma CV_with_lookup W fl {A} s r (f : _ -> _ -> _ -> caches -> caches * A) :
  Inv fl s -> CV W s -> r < length s -> transparent_f f -> CV W (fst (with_lookup W s r f)).
Proof.
  intros I C Lr T. rewrite with_lookup_fst'.
  destruct (verify_facts W fl s r I C Lr) as (L1 & Rg & Ot & E1).
  set (s1 := verify s r) in *.
  set (c' := fst (f _ _ _ _)).
  assert (Rg' : forall j, rs_reg (get (upd s1 r (fun x => set_caches x c')) j) = rs_reg (get s1 j)).
  { intros j. rewrite get_upd. destruct (Nat.eqb j r && Nat.ltb r (length s1)) eqn:E; auto.
    apply andb_true_iff in E. destruct E as (E & _). apply Nat.eqb_eq in E. subst. reflexivity. }
  intros i. destruct (Nat.eq_dec i r) as [->|N].
  - intros _. unfold ents. rewrite (ro_regs_same_regs s1); auto.
    + rewrite get_upd_same by lia. cbn [set_caches rs_caches]. apply T. exact E1.
    + rewrite get_upd_same by lia. reflexivity.
  - apply (cv_keep W s); auto.
    + intros j. rewrite Rg'. apply Rg.
    + rewrite get_upd_other by auto. apply Ot. auto.
Qed.

(* the answer of an entry point = its answer with empty caches over the current chain *)
Lemma with_lookup_answer W fl {A} s r (f : _ -> _ -> _ -> caches -> caches * A) :
  Inv fl s -> CV W s -> r < length s -> transparent_f f ->
  snd (with_lookup W s r f) =
  snd (f (uncached_lookup W (chain_regs s r)) (uncached_lookupAll W (chain_regs s r))
         (uncached_subscriptions W (chain_regs s r)) empty_caches).
Proof.
  intros I C Lr T. rewrite with_lookup_snd.
  destruct (verify_facts W fl s r I C Lr) as (_ & _ & _ & E1). unfold ents in E1.
  rewrite (chain_after_verify fl s r I Lr) in *.
  apply T. exact E1.
Qed.

(* ---- push flavour: changed() fan-out only clears caches and bumps generations *)
Definition soft (a b : sys) : Prop :=
  forall i, store (rs_reg (get b i)) = store (rs_reg (get a i)) /\
            (P_c b i \/ rs_caches (get b i) = rs_caches (get a i)).

Lemma soft_refl s : soft s s.
Proof. intros i. split; auto. Qed.

Lemma soft_trans a b c : soft a b -> soft b c -> soft a c.
Proof.
  intros H1 H2 i. destruct (H1 i) as (S1 & C1). destruct (H2 i) as (S2 & C2). split; [congruence|].
  destruct C2 as [C2|C2]; auto. destruct C1 as [C1|C1]; [left; unfold P_c in *; congruence|right; congruence].
Qed.

Lemma lookup_changed_push_soft b s r : allPush s -> soft s (lookup_changed b s r).
Proof.
  intros A i. rewrite lookup_changed_push by apply A. unfold P_c. rewrite get_upd.
  destruct (Nat.eqb i r && Nat.ltb r (length s)) eqn:E; auto.
  apply andb_true_iff in E. destruct E as (E & _). apply Nat.eqb_eq in E. subst. cbn. auto.
Qed.

Lemma bump_soft s r : soft s (upd s r bump).
Proof.
  intros i. rewrite get_upd. destruct (Nat.eqb i r && Nat.ltb r (length s)) eqn:E; auto.
  apply andb_true_iff in E. destruct E as (E & _). apply Nat.eqb_eq in E. subst. cbn. auto.
Qed.

Lemma visit_ch_soft s r : allPush s -> soft s (visit_ch s r).
Proof.
  intros A. unfold visit_ch. eapply soft_trans; [apply bump_soft|].
  apply lookup_changed_push_soft. eapply skel_allPush; eauto. apply bump_skel.
Qed.

Lemma after_bump_soft s r : allPush s -> soft s (after_bump s r).
Proof.
  intros A. rewrite after_bump_push; auto.
  eapply soft_trans; [apply (lookup_changed_push_soft false s r A)|].
  apply (trav_fold_pres visit_ch allPush); auto using soft_refl.
  - intros; apply visit_ch_allPush; auto.
  - intros; eapply soft_trans; eauto.
  - intros; apply visit_ch_soft; auto.
  - eapply skel_allPush; eauto. apply lookup_changed_push_skel; auto.
Qed.

Lemma push_valid_snap s i : allPush s -> valid_snap s i.
Proof. intros A. unfold valid_snap. rewrite (A i). exact I. Qed.

(* [s0]: a good state; [s4]: s0 after the storage / __bases__ of registry r changed (nothing else
   did, caches untouched); then changed(r) runs *)
Lemma CV_after_bump_push W s0 s4 r :
  PInv s0 -> CV W s0 -> PInv s4 -> length s0 <= length s4 -> r < length s4 ->
  (forall i, rs_caches (get s4 i) = rs_caches (get s0 i)) ->
  (forall j, j <> r -> store (rs_reg (get s4 j)) = store (rs_reg (get s0 j))) ->
  (forall y, y <> r -> Bs s4 y = Bs s0 y) ->
  CV W (after_bump s4 r).
Proof.
  intros P0 C P4 L Lr Hc Hs Hb i.
  destruct P4 as (A4 & R4 & S4 & C4). destruct P0 as (A0 & R0 & S0 & C0).
  pose proof (after_bump_soft s4 r A4 i) as (St & Ca).
  destruct (Reach_dec (Bs s4) r R4 i) as [Y|N].
  { apply cv_empty. apply after_bump_empties; auto. }
  destruct Ca as [Ca|Ca]; [apply cv_empty; exact Ca|].
  destruct (Nat.lt_ge_cases i (length s0)) as [Li|Li].
  2:{ apply cv_empty. rewrite Ca, Hc. apply get_oob_caches; auto. }
  assert (Ni : i <> r) by (intros ->; apply N, Reach_refl).
  destruct (after_bump_skel s4 r A4) as ((L' & G') & Ro').
  assert (F : fresh_ro s4 i = fresh_ro s0 i).
  { apply fresh_ro_frame; auto; try lia. apply Reach_avoid with (r := r); auto. }
  apply (cv_frame W W s0 _ i); auto.
  - intros _. apply push_valid_snap; auto.
  - rewrite Ca. apply Hc.
  - apply ro_regs_store_ext.
    + rewrite <- Ro', C4, C0, F; auto; lia.
    + intros j Hj. rewrite C0 in Hj by auto. rewrite <- F in Hj.
      apply (fresh_ro_mem s4 i j R4) in Hj; [|lia].
      assert (j <> r) by (intros ->; auto).
      destruct (after_bump_soft s4 r A4 j) as (-> & _). auto.
Qed.

(* the storage of registry b is replaced (a mutator, or rebuild()), then changed(b) runs *)
Lemma CV_setreg_push W s b g' : PInv s -> CV W s -> b < length s ->
  CV W (after_bump (set s b (mkRS g' (rs_caches (get s b)) (rs_bases (get s b)) (rs_ro (get s b))
                                  (rs_subs (get s b)) (rs_vro (get s b)) (rs_vgen (get s b))
                                  (rs_flavour (get s b)))) b).
Proof.
  intros P C Lb.
  set (s1 := set s b _).
  assert (K : skel_eq s s1) by (exact (set_reg_skel s b g')).
  apply (CV_after_bump_push W s s1 b); auto.
  - eapply PInv_skel; eauto.
  - unfold s1. rewrite set_length. auto.
  - unfold s1. rewrite set_length. auto.
  - intros i. unfold s1. rewrite get_set. destruct (Nat.eqb i b && Nat.ltb b (length s)) eqn:E; auto.
    apply andb_true_iff in E. destruct E as (E & _). apply Nat.eqb_eq in E. subst. reflexivity.
  - intros j N. unfold s1. rewrite get_set_other; auto.
  - intros y N. unfold Bs, s1. rewrite get_set_other; auto.
Qed.

Lemma CV_mutate_push W s b f : PInv s -> CV W s -> b < length s -> CV W (mutate s b f).
Proof.
  intros P C Lb. unfold mutate.
  destruct (Nat.eqb (generation (f (rs_reg (get s b)))) (generation (rs_reg (get s b)))); auto.
  apply CV_setreg_push; auto.
Qed.

(* ---- _setBases of a push registry: everything up to changed() leaves storages and caches alone *)
Definition keeps (a b : sys) : Prop :=
  forall i, rs_reg (get b i) = rs_reg (get a i) /\ rs_caches (get b i) = rs_caches (get a i).

Lemma keeps_refl s : keeps s s.
Proof. intros i. auto. Qed.

Lemma keeps_trans a b c : keeps a b -> keeps b c -> keeps a c.
Proof. intros H1 H2 i. destruct (H1 i), (H2 i). split; congruence. Qed.

Lemma visit_ro_keeps_fields s r : keeps s (visit_ro s r).
Proof.
  intros i. unfold visit_ro. rewrite get_upd.
  destruct (Nat.eqb i r && Nat.ltb r (length s)) eqn:E; auto.
  apply andb_true_iff in E. destruct E as (E & _). apply Nat.eqb_eq in E. subst. cbn. auto.
Qed.

Lemma refresh_ro_keeps_fields f s r : allPush s -> keeps s (refresh_ro f s r).
Proof.
  intros A. rewrite refresh_ro_trav; auto.
  apply (trav_pres visit_ro (fun _ => True)); auto using keeps_refl.
  - intros; eapply keeps_trans; eauto.
  - intros; apply visit_ro_keeps_fields.
Qed.

Lemma set_bases_push_frame s r bs :
  allPush s -> ranked (Bs s) -> subs_ok s -> ro_coherent_except s r ->
  r < length s -> (forall b, In b bs -> b < r) ->
  exists s4, set_bases s r bs = after_bump s4 r /\ PInv s4 /\ length s4 = length s /\
             (forall i, rs_caches (get s4 i) = rs_caches (get s i)) /\
             (forall i, store (rs_reg (get s4 i)) = store (rs_reg (get s i))) /\
             (forall y, y <> r -> Bs s4 y = Bs s y).
Proof.
  intros A R S0 C Lr Hbs. rewrite set_bases_push_eq by apply A. cbv zeta.
  destruct (book_spec (rs_bases (get s r)) bs r s) as (O & B2 & B3 & B4).
  set (sb := book (rs_bases (get s r)) s r bs) in *.
  set (s2 := upd sb r (setb bs)).
  assert (F : forall i, rs_bases (get s2 i) = (if Nat.eqb i r then bs else rs_bases (get s i)) /\
                        rs_subs (get s2 i) = rs_subs (get sb i) /\
                        rs_flavour (get s2 i) = rs_flavour (get s i) /\
                        rs_ro (get s2 i) = rs_ro (get s i)) by (intros; apply s2_fields; auto).
  assert (K2 : keeps s s2).
  { intros i. unfold s2. destruct O as (LO & HO). rewrite get_upd.
    destruct (Nat.eqb i r && Nat.ltb r (length sb)) eqn:E.
    - apply andb_true_iff in E. destruct E as (E & _). apply Nat.eqb_eq in E. subst.
      destruct (HO r) as (l & ->). cbn. auto.
    - destruct (HO i) as (l & ->). cbn. auto. }
  assert (L2 : length s2 = length s) by (unfold s2; rewrite upd_length; apply O).
  assert (A2 : allPush s2) by (intros i; destruct (F i) as (_ & _ & -> & _); apply A).
  assert (R2 : ranked (Bs s2)).
  { intros y b. unfold Bs. destruct (F y) as (-> & _). destruct (Nat.eqb y r) eqn:E.
    - apply Nat.eqb_eq in E. subst. auto.
    - apply R. }
  assert (S2 : subs_ok s2).
  { split.
    - intros i y. destruct (F i) as (_ & -> & _). intros Hy. rewrite L2.
      destruct (B2 _ _ Hy) as [Hy'|(-> & Hi)]; [apply S0; auto|]. split; auto.
    - intros x b. unfold Bs. destruct (F x) as (-> & _). destruct (F b) as (_ & -> & _).
      destruct (Nat.eqb x r) eqn:E.
      + apply Nat.eqb_eq in E. subst. intros Hb. pose proof (Hbs _ Hb). apply B4; auto; try lia.
        intros Ho. apply S0; auto.
      + apply Nat.eqb_neq in E. intros Hb. apply B3; auto. apply S0; auto. }
  assert (C2 : forall x, x < length s2 -> ~ Reach (Bs s2) x r -> P_ro s2 x).
  { intros x Lx N. unfold P_ro. destruct (F x) as (_ & _ & _ & ->).
    assert (x <> r) by (intros ->; apply N, Reach_refl).
    rewrite C; auto; [|lia]. symmetry. apply fresh_ro_frame; auto; try lia.
    apply Reach_avoid with (r := r); auto.
    intros y Hy. unfold Bs. destruct (F y) as (-> & _).
    apply Nat.eqb_neq in Hy. rewrite Hy. auto. }
  set (s3 := refresh_ro (length s) s2 r).
  assert (G3 : graph_eq s2 s3) by (apply refresh_ro_graph; auto).
  assert (K3 : keeps s2 s3) by (apply refresh_ro_keeps_fields; auto).
  assert (P3 : PInv s3).
  { split; [|split; [|split]].
    - eapply graph_eq_allPush; eauto.
    - eapply graph_eq_ranked; eauto.
    - apply (graph_eq_subs_ok _ _ G3 S2).
    - intros x Lx. destruct G3 as (L3 & _). rewrite <- L3 in Lx. fold (P_ro s3 x). unfold s3.
      destruct (Reach_dec (Bs s2) r R2 x) as [Y|N].
      + rewrite <- L2. apply refresh_ro_reaches; auto. lia.
      + apply refresh_ro_keeps; auto. }
  exists (upd s3 r bump). split; [reflexivity|]. split; [|split; [|split; [|split]]].
  - eapply PInv_skel; [apply bump_skel|exact P3].
  - rewrite upd_length. destruct G3 as (<- & _). auto.
  - intros i. destruct (bump_soft s3 r i) as (_ & [Pc|Ec]).
    + destruct (K2 i) as (_ & <-). destruct (K3 i) as (_ & <-).
      revert Pc. unfold P_c. rewrite get_upd.
      destruct (Nat.eqb i r && Nat.ltb r (length s3)) eqn:E; auto.
      apply andb_true_iff in E. destruct E as (E & _). apply Nat.eqb_eq in E. subst. cbn. auto.
    + rewrite Ec. destruct (K2 i) as (_ & <-). destruct (K3 i) as (_ & <-). reflexivity.
  - intros i. destruct (bump_soft s3 r i) as (-> & _).
    destruct (K2 i) as (<- & _). destruct (K3 i) as (<- & _). reflexivity.
  - intros y N. destruct (bump_skel s3 r) as ((_ & Hb) & _). unfold Bs.
    destruct (Hb y) as (<- & _). destruct G3 as (_ & H3). destruct (H3 y) as (<- & _).
    destruct (F y) as (-> & _). apply Nat.eqb_neq in N. rewrite N. reflexivity.
Qed.

Lemma CV_set_bases_push W s r bs : PInv s -> CV W s -> r < length s -> (forall b, In b bs -> b < r) ->
  CV W (set_bases s r bs).
Proof.
  intros P C Lr Hbs. pose proof P as (A & R & S0 & Co).
  destruct (set_bases_push_frame s r bs) as (s4 & -> & P4 & L4 & Hc & Hs & Hb); auto.
  { intros x Lx _. apply Co; auto. }
  apply (CV_after_bump_push W s s4 r); auto; lia.
Qed.

Lemma CV_new_reg_push W s bs : PInv s -> CV W s -> (forall b, In b bs -> b < length s) ->
  CV W (new_reg s Push bs).
Proof.
  intros P C Hbs. pose proof P as (Al & R & S0 & Co). unfold new_reg.
  set (s0 := s ++ [mkRS empty_reg empty_caches [] [] [] [] [] Push]).
  assert (L0 : length s0 = S (length s)) by (unfold s0; rewrite app_length; cbn; lia).
  assert (G : forall i, get s0 i = if Nat.ltb i (length s) then get s i
                                   else if Nat.eqb i (length s) then mkRS empty_reg empty_caches [] [] [] [] [] Push
                                        else dummy_rs) by (intros; apply get_app_cases).
  assert (G' : forall i, rs_caches (get s0 i) = rs_caches (get s i) /\ rs_reg (get s0 i) = rs_reg (get s i)).
  { intros i. rewrite G. destruct (Nat.ltb i (length s)) eqn:E; auto. apply Nat.ltb_ge in E.
    rewrite (get_oob s i E). destruct (Nat.eqb i (length s)); auto. }
  destruct (set_bases_push_frame s0 (length s) bs) as (s4 & -> & P4 & L4 & Hc & Hs & Hb); auto; try lia.
  - intros i. rewrite G. destruct (Nat.ltb i (length s)); [apply Al|].
    destruct (Nat.eqb i (length s)); reflexivity.
  - apply app_new_ranked; auto.
  - split.
    + intros r y. rewrite G, L0. destruct (Nat.ltb r (length s)).
      * intros Hy. apply S0 in Hy. lia.
      * destruct (Nat.eqb r (length s)); cbn; tauto.
    + intros r b. unfold Bs. rewrite (G r). destruct (Nat.ltb r (length s)) eqn:Lr.
      * intros Hb. apply Nat.ltb_lt in Lr. pose proof (R _ _ Hb). rewrite G.
        replace (Nat.ltb b (length s)) with true by (symmetry; apply Nat.ltb_lt; lia). apply S0; auto.
      * destruct (Nat.eqb r (length s)); cbn; tauto.
  - intros x Lx N. rewrite L0 in Lx. rewrite G.
    replace (Nat.ltb x (length s)) with true by (symmetry; apply Nat.ltb_lt; lia).
    unfold s0. rewrite app_new_fresh; auto; try lia. apply Co; lia.
  - apply (CV_after_bump_push W s s4 (length s)); auto; try lia.
    + intros i. rewrite Hc. apply G'.
    + intros j _. rewrite Hs. destruct (G' j) as (_ & ->). reflexivity.
    + intros y N. rewrite Hb by auto. unfold Bs. rewrite G.
      destruct (Nat.ltb y (length s)) eqn:E; auto. apply Nat.ltb_ge in E. rewrite (get_oob s y E).
      apply Nat.eqb_neq in N. rewrite N. reflexivity.
Qed.

(* ---- verifying flavour: a registry whose record is untouched stays valid as long as a storage
   only changes together with its generation (the snapshot then no longer matches) *)
Lemma cv_ver_frame W s s' i :
  VInv s -> i < length s -> get s' i = get s i ->
  (forall j, gen_of s j <= gen_of s' j) ->
  (forall j, gen_of s j = gen_of s' j -> rs_reg (get s' j) = rs_reg (get s j)) ->
  cv_at W s i -> cv_at W s' i.
Proof.
  intros (Al & R & Sn) Li E M Hr C V'.
  destruct (Sn i Li) as (Ro & Mem & Le & _).
  unfold valid_snap in V'. rewrite E, (Al i Li) in V'.
  destruct (gens_sandwich s s' M _ _ Le V') as (Ev & Eq).
  assert (Er : ro_regs s' i = ro_regs s i).
  { unfold ro_regs. rewrite E. apply map_ext_in. intros j Hj. rewrite Ro in Hj.
    destruct Hj as [<-|Hj]; [rewrite E; reflexivity|]. apply Hr. apply Eq. exact Hj. }
  unfold ents. rewrite E, Er. apply C. unfold valid_snap. rewrite (Al i Li). exact Ev.
Qed.

Lemma CV_ver_touch W s s' r :
  VInv s -> CV W s -> length s <= length s' ->
  (forall i, i <> r -> i < length s -> get s' i = get s i) ->
  (forall i, i <> r -> length s <= i -> rs_caches (get s' i) = empty_caches) ->
  rs_caches (get s' r) = empty_caches ->
  (forall j, gen_of s j <= gen_of s' j) ->
  (forall j, gen_of s j = gen_of s' j -> rs_reg (get s' j) = rs_reg (get s j)) ->
  CV W s'.
Proof.
  intros V C L Ot Oo Er M Hr i. destruct (Nat.eq_dec i r) as [->|N]; [apply cv_empty; auto|].
  destruct (Nat.lt_ge_cases i (length s)) as [Li|Li].
  - apply (cv_ver_frame W s s' i); auto.
  - apply cv_empty. auto.
Qed.

Lemma CV_setreg_ver W s b g' : VInv s -> CV W s -> b < length s ->
  generation (rs_reg (get s b)) <= generation g' -> generation g' <> generation (rs_reg (get s b)) ->
  CV W (after_bump (set s b (mkRS g' (rs_caches (get s b)) (rs_bases (get s b)) (rs_ro (get s b))
                                  (rs_subs (get s b)) (rs_vro (get s b)) (rs_vgen (get s b))
                                  (rs_flavour (get s b)))) b).
Proof.
  intros V C Lb Mf Eg.
  set (s1 := set s b _).
  assert (F1 : rs_flavour (get s1 b) = Verifying).
  { unfold s1. rewrite get_set_same by auto. cbn. apply V. auto. }
  assert (L1 : length s1 = length s) by (unfold s1; apply set_length).
  rewrite after_bump_ver by (auto; lia).
  destruct (lookup_changed_ver false s1 b F1) as (L' & O' & G'); [lia|].
  assert (Gb : rs_reg (get s1 b) = g') by (unfold s1; rewrite get_set_same; auto).
  apply (CV_ver_touch W s _ b); auto; try lia.
  - intros i N _. rewrite O' by auto. unfold s1. apply get_set_other; auto.
  - intros i N Li. rewrite O' by auto. unfold s1. rewrite get_set_other by auto. apply get_oob_caches; auto.
  - rewrite G'. reflexivity.
  - intros j. unfold gen_of. destruct (Nat.eq_dec j b) as [->|N].
    + rewrite G'. cbn [rs_reg]. rewrite Gb. apply Mf.
    + rewrite O' by auto. unfold s1. rewrite get_set_other; auto.
  - intros j. unfold gen_of. destruct (Nat.eq_dec j b) as [->|N].
    + rewrite G'. cbn [rs_reg]. rewrite Gb. intros E. congruence.
    + intros _. rewrite O' by auto. unfold s1. rewrite get_set_other; auto.
Qed.

Lemma CV_mutate_ver W s b f : VInv s -> CV W s -> b < length s ->
  (forall g, generation g <= generation (f g)) -> CV W (mutate s b f).
Proof.
  intros V C Lb Mf. unfold mutate.
  destruct (Nat.eqb (generation (f (rs_reg (get s b)))) (generation (rs_reg (get s b)))) eqn:Eg; auto.
  apply Nat.eqb_neq in Eg. apply CV_setreg_ver; auto.
Qed.

Lemma CV_set_bases_ver W s r bs : VInv s -> CV W s -> r < length s -> CV W (set_bases s r bs).
Proof.
  intros V C Lr. pose proof V as (Al & _).
  rewrite set_bases_ver_eq by auto.
  set (s4 := upd (visit_ro (upd s r (setb bs)) r) r bump).
  assert (L4 : length s4 = length s) by (unfold s4, visit_ro; rewrite !upd_length; auto).
  assert (O4 : forall i, i <> r -> get s4 i = get s i).
  { intros i N. unfold s4, visit_ro. rewrite !get_upd_other; auto. }
  assert (G4 : get s4 r = bump (mkRS (rs_reg (get s r)) (rs_caches (get s r)) bs
                                     (fresh_ro (upd s r (setb bs)) r) (rs_subs (get s r)) (rs_vro (get s r))
                                     (rs_vgen (get s r)) (rs_flavour (get s r)))).
  { unfold s4, visit_ro. rewrite get_upd_same by (rewrite !upd_length; auto).
    rewrite get_upd_same by (rewrite upd_length; auto). rewrite get_upd_same by auto. reflexivity. }
  assert (F4 : rs_flavour (get s4 r) = Verifying) by (rewrite G4; cbn; auto).
  destruct (lookup_changed_ver false s4 r F4) as (L' & O' & G'); [lia|].
  apply (CV_ver_touch W s _ r); auto; try lia.
  - intros i N _. rewrite O', O4; auto.
  - intros i N Li. rewrite O', O4 by auto. apply get_oob_caches; auto.
  - rewrite G'. reflexivity.
  - intros j. unfold gen_of. destruct (Nat.eq_dec j r) as [->|N].
    + rewrite G', G4. cbn. lia.
    + rewrite O', O4; auto.
  - intros j. unfold gen_of. destruct (Nat.eq_dec j r) as [->|N].
    + rewrite G', G4. cbn. lia.
    + intros _. rewrite O', O4; auto.
Qed.

Lemma CV_new_reg_ver W s bs : VInv s -> CV W s -> CV W (new_reg s Verifying bs).
Proof.
  intros V C. unfold new_reg.
  set (s0 := s ++ [mkRS empty_reg empty_caches [] [] [] [] [] Verifying]).
  set (n := length s).
  assert (L0 : length s0 = S n) by (unfold s0, n; rewrite app_length; cbn; lia).
  assert (G : forall i, get s0 i = if Nat.ltb i n then get s i
                                   else if Nat.eqb i n
                                        then mkRS empty_reg empty_caches [] [] [] [] [] Verifying
                                        else dummy_rs) by (intros; apply get_app_cases).
  assert (Fn : rs_flavour (get s0 n) = Verifying).
  { rewrite G, Nat.ltb_irrefl, Nat.eqb_refl. reflexivity. }
  rewrite set_bases_ver_eq by (auto; lia).
  set (s4 := upd (visit_ro (upd s0 n (setb bs)) n) n bump).
  assert (L4 : length s4 = S n) by (unfold s4, visit_ro; rewrite !upd_length; auto).
  assert (O4 : forall i, i <> n -> get s4 i = get s0 i).
  { intros i N. unfold s4, visit_ro. rewrite !get_upd_other; auto. }
  assert (G4 : rs_flavour (get s4 n) = Verifying /\ generation (rs_reg (get s4 n)) = 1).
  { unfold s4, visit_ro. rewrite get_upd_same by (rewrite !upd_length; lia).
    rewrite get_upd_same by (rewrite upd_length; lia). rewrite get_upd_same by lia.
    rewrite G, Nat.ltb_irrefl, Nat.eqb_refl. cbn. auto. }
  destruct G4 as (F4 & Gen4).
  destruct (lookup_changed_ver false s4 n F4) as (L' & O' & G'); [lia|].
  assert (Old : forall i, i < n -> get s0 i = get s i).
  { intros i Li. rewrite G. replace (Nat.ltb i n) with true; auto. symmetry. apply Nat.ltb_lt; auto. }
  assert (Dn : gen_of s n = 0) by (unfold gen_of; rewrite get_oob; auto).
  apply (CV_ver_touch W s _ n); auto; try (fold n; lia).
  - intros i N Li. rewrite O', O4 by auto. apply Old. auto.
  - intros i N Li. fold n in Li. rewrite O', O4 by auto. rewrite G.
    replace (Nat.ltb i n) with false by (symmetry; apply Nat.ltb_ge; auto).
    apply Nat.eqb_neq in N. rewrite N. reflexivity.
  - rewrite G'. reflexivity.
  - intros j. destruct (Nat.eq_dec j n) as [->|N]; [lia|].
    unfold gen_of. rewrite O', O4 by auto. rewrite G.
    destruct (Nat.ltb j n) eqn:E; auto. apply Nat.ltb_ge in E. rewrite (get_oob s j) by (fold n; lia).
    apply Nat.eqb_neq in N. rewrite N. auto.
  - intros j. destruct (Nat.eq_dec j n) as [->|N].
    + unfold gen_of at 2. rewrite G'. cbn [rs_reg]. rewrite Gen4, Dn. discriminate.
    + intros _. rewrite O', O4 by auto. rewrite G.
      destruct (Nat.ltb j n) eqn:E; auto. apply Nat.ltb_ge in E. rewrite (get_oob s j) by (fold n; lia).
      apply Nat.eqb_neq in N. rewrite N. auto.
Qed.

(* ---- the entry points are transparent functions of the caches *)
Lemma tr_lookup req p n : transparent_f (fun ul _ _ c => lookup ul c req p n).
Proof. intros ul ua us c H. apply (lookup_ok ul ua us); auto. Qed.
Lemma tr_lookup1 req p n : transparent_f (fun ul _ _ c => lookup1 ul c req p n).
Proof. intros ul ua us c H. apply (lookup1_ok ul ua us); auto. Qed.
Lemma tr_lookupAll req p : transparent_f (fun _ ua _ c => lookupAll ua c req p).
Proof. intros ul ua us c H. apply (lookupAll_ok ul ua us); auto. Qed.
Lemma tr_names req p : transparent_f (fun _ ua _ c => names ua c req p).
Proof. intros ul ua us c H. apply (names_ok ul ua us); auto. Qed.
Lemma tr_subscriptions req p : transparent_f (fun _ _ us c => subscriptions us c req p).
Proof. intros ul ua us c H. apply (subscriptions_ok ul ua us); auto. Qed.
Lemma tr_adapter_hook call p o n : transparent_f (fun ul _ _ c => adapter_hook ul call c p o n).
Proof. intros ul ua us c H. apply (adapter_hook_ok ul ua us); auto. Qed.
Lemma tr_queryMultiAdapter call os p n : transparent_f (fun ul _ _ c => queryMultiAdapter ul call c os p n).
Proof. intros ul ua us c H. apply (queryMultiAdapter_ok ul ua us); auto. Qed.
Lemma tr_subscribers call os p : transparent_f (fun _ _ us c => subscribers us call c os p).
Proof. intros ul ua us c H. apply (subscribers_ok ul ua us); auto. Qed.

(* ---- every well-formed operation keeps CacheValid (static world) *)
Lemma CV_step W call fl s o : Inv fl s -> CV W s -> wf_op fl (length s) o = true ->
  CV W (fst (step W call s o)).
Proof.
  intros I C Wf.
  destruct o; cbn [step wf_op fst] in *; try rewrite fst_let; try discriminate; auto;
    try (apply Nat.ltb_lt in Wf;
         first [ apply (CV_with_lookup W fl); auto;
                 first [apply tr_lookup | apply tr_lookup1 | apply tr_lookupAll | apply tr_names
                       | apply tr_subscriptions | apply tr_adapter_hook | apply tr_queryMultiAdapter
                       | apply tr_subscribers]
               | destruct fl; [apply CV_mutate_push; auto
                              | apply CV_mutate_ver; auto; intros;
                                first [apply register_gen | apply unregister_gen | apply subscribe_gen
                                      | apply unsubscribe_gen]] ]; fail).
  - apply andb_true_iff in Wf. destruct Wf as (Fl & Hb). pose proof (forallb_ltb _ _ Hb).
    destruct fl, fl0; try discriminate; [apply CV_new_reg_push | apply CV_new_reg_ver]; auto.
  - apply andb_true_iff in Wf. destruct Wf as (Lr & Hb). apply Nat.ltb_lt in Lr.
    pose proof (forallb_ltb _ _ Hb).
    destruct fl; [apply CV_set_bases_push | apply CV_set_bases_ver]; auto.
  - (* rebuild(): the storage is rebuilt (generation strictly larger), then changed() *)
    apply Nat.ltb_lt in Wf. pose proof (rebuild_gen W (rs_reg (get s r))).
    destruct fl; [apply CV_setreg_push | apply CV_setreg_ver]; auto; lia.
Qed.

(* ---- re-basing a specification: Specification.changed reaching the lookup objects *)
Lemma Inv_lookup_changed fl b s r : Inv fl s -> r < length s -> Inv fl (lookup_changed b s r).
Proof.
  destruct fl; intros I Lr.
  - eapply PInv_skel; [|exact I]. apply lookup_changed_push_skel. apply I.
  - apply VInv_lookup_changed; auto.
Qed.

Lemma lookup_changed_facts fl b s r : Inv fl s -> r < length s ->
  length (lookup_changed b s r) = length s /\
  (forall j, rs_reg (get (lookup_changed b s r) j) = rs_reg (get s j)) /\
  (forall i, i <> r -> get (lookup_changed b s r) i = get s i) /\
  rs_caches (get (lookup_changed b s r) r) = empty_caches.
Proof.
  destruct fl; intros I Lr.
  - destruct I as (Al & _). rewrite lookup_changed_push by apply Al.
    split; [apply upd_length|]. split; [|split].
    + intros j. rewrite get_upd. destruct (Nat.eqb j r && Nat.ltb r (length s)) eqn:E; auto.
      apply andb_true_iff in E. destruct E as (E & _). apply Nat.eqb_eq in E. subst. reflexivity.
    + intros i N. apply get_upd_other; auto.
    + rewrite get_upd_same; auto.
  - destruct I as (Al & _). destruct (lookup_changed_ver b s r (Al r Lr) Lr) as (L & O & G).
    split; auto. split; [|split]; auto.
    + intros j. destruct (Nat.eq_dec j r) as [->|N]; [rewrite G; reflexivity|rewrite O; auto].
    + rewrite G. reflexivity.
Qed.

Section SpecChanged.
  Variable fl : flavour.
  Variable T : nat -> bool.      (* which lookup objects are reached *)
  Variable s : sys.

  Definition sc_step (acc : sys) (r : nat) : sys := if T r then lookup_changed false acc r else acc.

  Definition SCJ (acc : sys) (done : list nat) : Prop :=
    Inv fl acc /\ length acc = length s /\
    (forall j, rs_reg (get acc j) = rs_reg (get s j)) /\
    (forall i, In i done -> T i = true -> rs_caches (get acc i) = empty_caches) /\
    (forall i, ~ In i done \/ T i = false -> get acc i = get s i).

  Lemma sc_fold : forall l acc done, (forall k, In k l -> k < length s) -> SCJ acc done ->
    SCJ (fold_left sc_step l acc) (done ++ l).
  Proof.
    induction l as [|k l IH]; intros acc done Hl J; cbn [fold_left].
    - rewrite app_nil_r. exact J.
    - replace (done ++ k :: l) with ((done ++ [k]) ++ l) by (rewrite <- app_assoc; reflexivity).
      apply IH; [intros; apply Hl; right; auto|].
      destruct J as (I & L & Rg & Cl & Un). unfold sc_step.
      assert (Lk : k < length acc) by (rewrite L; apply Hl; left; auto).
      destruct (T k) eqn:Tk.
      + destruct (lookup_changed_facts fl false acc k I Lk) as (L' & Rg' & O' & E').
        split; [apply Inv_lookup_changed; auto|]. split; [congruence|]. split; [|split].
        * intros j. rewrite Rg'. apply Rg.
        * intros i Hi Ti. destruct (Nat.eq_dec i k) as [->|N]; auto.
          rewrite O' by auto. apply in_app_iff in Hi. destruct Hi as [Hi|[Hi|[]]]; [auto|congruence].
        * intros i Hi. assert (N : i <> k).
          { intros ->. destruct Hi as [Hi|Hi]; [apply Hi; apply in_app_iff; right; left; auto|congruence]. }
          rewrite O' by auto. apply Un. destruct Hi as [Hi|Hi]; auto. left. intros H. apply Hi.
          apply in_app_iff; auto.
      + split; auto. split; auto. split; auto. split.
        * intros i Hi Ti. apply in_app_iff in Hi. destruct Hi as [Hi|[Hi|[]]]; [auto|congruence].
        * intros i Hi. apply Un. destruct Hi as [Hi|Hi]; auto. left. intros H. apply Hi.
          apply in_app_iff; auto.
  Qed.
End SpecChanged.

Lemma spec_changed_facts fl g x s : Inv fl s ->
  let s' := spec_changed g x s in
  Inv fl s' /\ length s' = length s /\
  (forall j, rs_reg (get s' j) = rs_reg (get s j)) /\
  (forall i, i < length s -> touched g x (rs_caches (get s i)) = true -> rs_caches (get s' i) = empty_caches) /\
  (forall i, length s <= i \/ touched g x (rs_caches (get s i)) = false -> get s' i = get s i).
Proof.
  intros I. cbv zeta.
  pose proof (sc_fold fl (fun r => touched g x (rs_caches (get s r))) s (seq 0 (length s)) s []) as H.
  cbn [app] in H. destruct H as (I' & L' & Rg & Cl & Un).
  - intros k Hk. apply in_seq in Hk. lia.
  - split; auto. split; auto. split; auto. split; [intros i []|auto].
  - unfold spec_changed. unfold sc_step in *.
    split; auto. split; auto. split; auto. split.
    + intros i Li Ti. apply Cl; auto. apply in_seq. lia.
    + intros i [Li|Ti]; apply Un; auto. left. intros Hi. apply in_seq in Hi. lia.
Qed.

Lemma CV_spec_changed fl g ifs x bs s : Inv fl s -> CV (world_of g ifs) s ->
  CV (world_of (set_spec_bases g x bs) ifs) (spec_changed g x s).
Proof.
  intros I C. destruct (spec_changed_facts fl g x s I) as (I' & L' & Rg & Cl & Un).
  intros i. destruct (Nat.lt_ge_cases i (length s)) as [Li|Li].
  - destruct (touched g x (rs_caches (get s i))) eqn:Ti.
    + apply cv_empty. apply Cl; auto.
    + assert (E : get (spec_changed g x s) i = get s i) by (apply Un; auto).
      apply (cv_frame (world_of g ifs) _ s _ i); auto.
      * unfold valid_snap. rewrite E. destruct (rs_flavour (get s i)); auto.
        rewrite (gens_same_regs s); auto.
      * rewrite E. reflexivity.
      * rewrite (ro_regs_same_regs s); auto. rewrite E. reflexivity.
      * intros y Hy. apply untouched_sro with (c := rs_caches (get s i)); auto.
  - apply cv_empty. rewrite Un by auto. apply get_oob_caches; auto.
Qed.

(* ---- the combined invariant of Model/CacheSys.v states *)
Definition CInv (fl : flavour) (st : cstate) : Prop :=
  Inv fl (cs_sys st) /\ CV (world_of (cs_g st) (cs_if st)) (cs_sys st).

Lemma CInv_init fl g ifs : CInv fl (mkCS g ifs []).
Proof. split; [apply Inv_nil|apply CV_nil]. Qed.

Lemma cstep_sys_CReg call st o :
  cs_sys (fst (cstep call st (CReg o))) = fst (step (world_of (cs_g st) (cs_if st)) call (cs_sys st) o) /\
  cs_g (fst (cstep call st (CReg o))) = cs_g st /\ cs_if (fst (cstep call st (CReg o))) = cs_if st /\
  snd (cstep call st (CReg o)) = snd (step (world_of (cs_g st) (cs_if st)) call (cs_sys st) o).
Proof.
  cbn [cstep]. destruct (step (world_of (cs_g st) (cs_if st)) call (cs_sys st) o); cbn. auto.
Qed.

Lemma CInv_step call fl st o : CInv fl st -> cwf_op fl (length (cs_sys st)) o = true ->
  CInv fl (fst (cstep call st o)) /\
  length (cs_sys (fst (cstep call st o))) = cn_after (length (cs_sys st)) o.
Proof.
  intros (I & C) Wf. destruct o as [o|x bs].
  - destruct (cstep_sys_CReg call st o) as (Es & Eg & Ei & _). unfold CInv. rewrite Es, Eg, Ei.
    cbn [cwf_op cn_after] in *.
    destruct (Inv_step (world_of (cs_g st) (cs_if st)) call fl _ o I Wf) as (I' & L').
    split; auto. split; auto. apply (CV_step _ call fl); auto.
  - cbn [cstep fst cs_sys cs_g cs_if cn_after]. unfold CInv. cbn [cs_sys cs_g cs_if].
    destruct (spec_changed_facts fl (cs_g st) x (cs_sys st) I) as (I' & L' & _).
    split; auto. split; auto. apply (CV_spec_changed fl); auto.
Qed.

Lemma CInv_final call fl : forall ops st, CInv fl st -> cwf_hist fl (length (cs_sys st)) ops = true ->
  CInv fl (cfinal call st ops).
Proof.
  induction ops as [|o ops IH]; intros st J Wf; cbn [cfinal fold_left]; auto.
  cbn [cwf_hist] in Wf. apply andb_true_iff in Wf. destruct Wf as (Wo & Wf).
  destruct (CInv_step call fl st o J Wo) as (J' & L'). apply IH; auto. rewrite L'. auto.
Qed.

(* ================================================================== Part 5: the theorems *)

Lemma pure_answer_ext W call ch ch' q : (forall r, ch r = ch' r) -> pure_answer W call ch q = pure_answer W call ch' q.
Proof. intros H. destruct q; cbn [pure_answer]; try rewrite H; reflexivity. Qed.

(* in a good state every lookup-family operation answers its pure answer over the current chain *)
Lemma step_answer_chain W call fl s q : Inv fl s -> CV W s -> wf_op fl (length s) q = true ->
  is_lookup q = true -> snd (step W call s q) = pure_answer W call (chain_regs s) q.
Proof.
  intros I C Wf Q.
  destruct q; try discriminate; cbn [step pure_answer wf_op] in *; apply Nat.ltb_lt in Wf;
    rewrite snd_let; rewrite (with_lookup_answer W fl) by
      (auto; first [apply tr_lookup | apply tr_lookup1 | apply tr_lookupAll | apply tr_names
                   | apply tr_subscriptions | apply tr_adapter_hook | apply tr_queryMultiAdapter
                   | apply tr_subscribers]);
    reflexivity.
Qed.

(* ---- dropping every cache *)
Lemma get_drop s i : get (drop_caches s) i = set_caches (get s i) empty_caches.
Proof.
  unfold drop_caches, get.
  change dummy_rs with (set_caches dummy_rs empty_caches) at 1.
  apply (map_nth (fun x : rstate => set_caches x empty_caches)).
Qed.

Lemma drop_length s : length (drop_caches s) = length s.
Proof. apply map_length. Qed.

Lemma drop_skel s : skel_eq s (drop_caches s).
Proof.
  split; [split; [symmetry; apply drop_length|]|]; intros i; rewrite get_drop; cbn; auto.
Qed.

Lemma drop_CV W s : CV W (drop_caches s).
Proof. intros i. apply cv_empty. rewrite get_drop. reflexivity. Qed.

Lemma drop_Inv fl s : Inv fl s -> Inv fl (drop_caches s).
Proof.
  destruct fl; intros I.
  - eapply PInv_skel; [apply drop_skel|exact I].
  - destruct I as (Al & R & Sn).
    assert (F : forall i, rs_reg (get (drop_caches s) i) = rs_reg (get s i) /\
                          rs_bases (get (drop_caches s) i) = rs_bases (get s i) /\
                          rs_ro (get (drop_caches s) i) = rs_ro (get s i) /\
                          rs_vro (get (drop_caches s) i) = rs_vro (get s i) /\
                          rs_vgen (get (drop_caches s) i) = rs_vgen (get s i) /\
                          rs_flavour (get (drop_caches s) i) = rs_flavour (get s i))
      by (intros i; rewrite get_drop; cbn; repeat split; reflexivity).
    split; [|split].
    + intros i Li. rewrite drop_length in Li. destruct (F i) as (_ & _ & _ & _ & _ & ->). auto.
    + intros y b. unfold Bs. destruct (F y) as (_ & -> & _). apply R.
    + intros x Lx. rewrite drop_length in Lx. apply (snap_frame s _ x); auto; try apply F.
      * rewrite drop_length. lia.
      * intros i. unfold gen_of. destruct (F i) as (-> & _). auto.
      * intros i. unfold Bs. destruct (F i) as (_ & -> & _). congruence.
      * unfold Bs. destruct (F x) as (_ & -> & _). auto.
Qed.

Lemma chain_regs_ext s s' r : length s = length s' ->
  (forall i, rs_reg (get s i) = rs_reg (get s' i)) -> (forall i, Bs s i = Bs s' i) ->
  chain_regs s r = chain_regs s' r.
Proof.
  intros L Rg B. unfold chain_regs. rewrite (fresh_ro_ext s s' r L B). apply map_ext. auto.
Qed.

Lemma drop_chain s r : chain_regs (drop_caches s) r = chain_regs s r.
Proof.
  apply chain_regs_ext.
  - apply drop_length.
  - intros i. rewrite get_drop. reflexivity.
  - intros i. unfold Bs. rewrite get_drop. reflexivity.
Qed.

(* state form, one step: in a good state the caches do not influence any lookup-family answer *)
Lemma transparent_state W call fl s q : Inv fl s -> CV W s -> wf_op fl (length s) q = true ->
  is_lookup q = true -> snd (step W call s q) = snd (step W call (drop_caches s) q).
Proof.
  intros I C Wf Q. rewrite (step_answer_chain W call fl s q); auto.
  rewrite (step_answer_chain W call fl (drop_caches s) q); auto using drop_Inv, drop_CV.
  - apply pure_answer_ext. intros r. symmetry. apply drop_chain.
  - rewrite drop_length. auto.
Qed.

(* ---- the part of a system that mutations read and write (everything but the lookup objects'
   private state: caches, cached ro, snapshots) *)
Definition core1 (x y : rstate) : Prop :=
  rs_reg x = rs_reg y /\ rs_bases x = rs_bases y /\ rs_subs x = rs_subs y /\ rs_flavour x = rs_flavour y.

Definition core_eq (a b : sys) : Prop := length a = length b /\ forall i, core1 (get a i) (get b i).

Lemma core1_refl x : core1 x x.
Proof. repeat split. Qed.
Lemma core1_sym x y : core1 x y -> core1 y x.
Proof. intros (A & B & C & D). repeat split; auto. Qed.
Lemma core1_trans x y z : core1 x y -> core1 y z -> core1 x z.
Proof. intros (A & B & C & D) (A' & B' & C' & D'). repeat split; congruence. Qed.

Lemma core_refl s : core_eq s s.
Proof. split; auto. intros; apply core1_refl. Qed.
Lemma core_sym a b : core_eq a b -> core_eq b a.
Proof. intros (L & H). split; auto. intros; apply core1_sym; auto. Qed.
Lemma core_trans a b c : core_eq a b -> core_eq b c -> core_eq a c.
Proof. intros (L & H) (L' & H'). split; [congruence|]. intros i. eapply core1_trans; eauto. Qed.

Lemma core_set_cong a b r x y : core_eq a b -> core1 x y -> core_eq (set a r x) (set b r y).
Proof.
  intros (L & H) Hx. split; [rewrite !set_length; auto|]. intros i. rewrite !get_set, L.
  destruct (Nat.eqb i r && Nat.ltb r (length b)); auto.
Qed.

Lemma core_upd_cong a b r h : core_eq a b -> (forall x y, core1 x y -> core1 (h x) (h y)) ->
  core_eq (upd a r h) (upd b r h).
Proof. intros E Hh. unfold upd. apply core_set_cong; auto. apply Hh. apply E. Qed.

Lemma core_set_pres s r x : core1 (get s r) x -> core_eq s (set s r x).
Proof.
  intros Hx. split; [rewrite set_length; auto|]. intros i. rewrite get_set.
  destruct (Nat.eqb i r && Nat.ltb r (length s)) eqn:E; [|apply core1_refl].
  apply andb_true_iff in E. destruct E as (E & _). apply Nat.eqb_eq in E. subst. auto.
Qed.

Lemma core_upd_pres s r h : (forall x, core1 x (h x)) -> core_eq s (upd s r h).
Proof. intros Hh. unfold upd. apply core_set_pres. apply Hh. Qed.

Lemma core_fold_pres {B} (F : sys -> B -> sys) l : (forall a x, core_eq a (F a x)) ->
  forall s, core_eq s (fold_left F l s).
Proof.
  intros HF. induction l as [|x l IH]; intros s; cbn [fold_left]; [apply core_refl|].
  eapply core_trans; [apply HF|apply IH].
Qed.

Lemma core_fold_cong {B} (F : sys -> B -> sys) l :
  (forall a b x, core_eq a b -> core_eq (F a x) (F b x)) ->
  forall a b, core_eq a b -> core_eq (fold_left F l a) (fold_left F l b).
Proof.
  intros HF. induction l as [|x l IH]; intros a b E; cbn [fold_left]; auto.
Qed.

Lemma refresh_ro_core : forall f s r, core_eq s (refresh_ro f s r).
Proof.
  induction f as [|f IH]; intros s r; cbn [refresh_ro].
  - apply core_set_pres. repeat split.
  - set (s1 := set s r _). assert (E1 : core_eq s s1) by (apply core_set_pres; repeat split).
    destruct (rs_flavour (get s r)); auto.
    eapply core_trans; [exact E1|]. apply core_fold_pres. intros; apply IH.
Qed.

Lemma lookup_changed_core b s r : core_eq s (lookup_changed b s r).
Proof.
  unfold lookup_changed. destruct (rs_flavour (get s r)) eqn:F.
  - apply core_set_pres. repeat split. auto.
  - eapply core_trans; [apply (refresh_ro_core 0 s r)|].
    set (s0 := refresh_ro 0 s r).
    assert (F0 : rs_flavour (get s0 r) = Verifying).
    { destruct (refresh_ro_core 0 s r) as (_ & H). destruct (H r) as (_ & _ & _ & Hf).
      unfold s0. rewrite <- Hf. auto. }
    apply core_set_pres. repeat split. auto.
Qed.

Lemma bump_core1 x y : core1 x y -> core1 (bump x) (bump y).
Proof. intros (A & B & C & D). unfold bump. repeat split; cbn; congruence. Qed.

Lemma visit_cong a b r : core_eq a b ->
  core_eq (lookup_changed false (upd a r bump) r) (lookup_changed false (upd b r bump) r).
Proof.
  intros E. eapply core_trans; [apply core_sym, lookup_changed_core|].
  eapply core_trans; [|apply lookup_changed_core]. apply core_upd_cong; auto. apply bump_core1.
Qed.

Lemma sub_changed_cong : forall f a b r, core_eq a b -> core_eq (sub_changed f a r) (sub_changed f b r).
Proof.
  induction f as [|f IH]; intros a b r E; cbn [sub_changed]; [apply visit_cong; auto|].
  pose proof (visit_cong a b r E) as E1.
  set (a1 := lookup_changed false (upd a r bump) r) in *.
  set (b1 := lookup_changed false (upd b r bump) r) in *.
  destruct E1 as (L1 & H1). destruct (H1 r) as (_ & _ & Sb & Fl). rewrite Sb, Fl.
  destruct (rs_flavour (get b1 r)); [|split; auto].
  apply core_fold_cong; [|split; auto]. intros; apply IH; auto.
Qed.

Lemma after_bump_cong a b r : core_eq a b -> core_eq (after_bump a r) (after_bump b r).
Proof.
  intros E. unfold after_bump.
  assert (E1 : core_eq (lookup_changed false a r) (lookup_changed false b r)).
  { eapply core_trans; [apply core_sym, lookup_changed_core|].
    eapply core_trans; [exact E|apply lookup_changed_core]. }
  destruct E as (L & _). rewrite L.
  destruct E1 as (L1 & H1). destruct (H1 r) as (_ & _ & Sb & Fl). rewrite Sb, Fl.
  destruct (rs_flavour (get (lookup_changed false b r) r)); [|split; auto].
  apply core_fold_cong; [|split; auto]. intros; apply sub_changed_cong; auto.
Qed.

Lemma mutate_cong a b r f : core_eq a b -> core_eq (mutate a r f) (mutate b r f).
Proof.
  intros E. unfold mutate. destruct E as (L & H). destruct (H r) as (Rg & Bb & Sb & Fl). rewrite Rg.
  destruct (Nat.eqb (generation (f (rs_reg (get b r)))) (generation (rs_reg (get b r)))); [split; auto|].
  apply after_bump_cong. apply core_set_cong; [split; auto|]. repeat split; auto.
Qed.

Lemma set_bases_cong a b r bs : core_eq a b -> core_eq (set_bases a r bs) (set_bases b r bs).
Proof.
  intros E. unfold set_bases. pose proof E as (L & H). destruct (H r) as (Rg & Bb & Sb & Fl).
  rewrite Bb, Fl, L.
  apply after_bump_cong. apply core_upd_cong; [|apply bump_core1].
  eapply core_trans; [apply core_sym, refresh_ro_core|].
  eapply core_trans; [|apply refresh_ro_core].
  apply core_upd_cong; [|intros x y (A & B & C & D); repeat split; cbn; auto].
  destruct (rs_flavour (get b r)); auto.
  apply core_fold_cong.
  - intros a' b' x E'. destruct (mem x (rs_bases (get b r))); auto.
    apply core_upd_cong; auto. intros u v (A & B & C & D). repeat split; cbn; try rewrite C; auto.
  - apply core_fold_cong; auto.
    intros a' b' x E'. destruct (mem x bs); auto.
    apply core_upd_cong; auto. intros u v (A & B & C & D). repeat split; cbn; try rewrite C; auto.
Qed.

Lemma core_app_cong a b x : core_eq a b -> core_eq (a ++ [x]) (b ++ [x]).
Proof.
  intros (L & H). split; [rewrite !app_length; cbn; lia|]. intros i. rewrite !get_app_cases, L.
  destruct (Nat.ltb i (length b)); auto. apply core1_refl.
Qed.

Lemma verify_core s r : core_eq s (verify s r).
Proof.
  unfold verify. destruct (rs_flavour (get s r)); [apply core_refl|].
  destruct (lspec_eqb _ _); [apply core_refl|apply lookup_changed_core].
Qed.

Lemma with_lookup_core W {A} s r (f : _ -> _ -> _ -> caches -> caches * A) :
  core_eq s (fst (with_lookup W s r f)).
Proof.
  rewrite with_lookup_fst'. eapply core_trans; [apply verify_core|].
  apply core_upd_pres. intros x. repeat split.
Qed.

(* queries leave the core alone; mutations act on it alike *)
Lemma step_query_core W call s o : is_mutation o = false -> core_eq s (fst (step W call s o)).
Proof.
  intros Q. destruct o; try discriminate; cbn [step fst]; try rewrite fst_let;
    first [apply with_lookup_core | apply core_refl].
Qed.

Lemma step_mutation_cong W call a b o : is_mutation o = true -> core_eq a b ->
  core_eq (fst (step W call a o)) (fst (step W call b o)).
Proof.
  intros M E. destruct o; try discriminate; cbn [step fst].
  - unfold new_reg. destruct E as (L & H). rewrite L. apply set_bases_cong. apply core_app_cong. split; auto.
  - apply set_bases_cong; auto.
  - apply mutate_cong; auto.
  - apply mutate_cong; auto.
  - apply mutate_cong; auto.
  - apply mutate_cong; auto.
  - apply after_bump_cong. destruct E as (L & H). destruct (H r) as (Rg & Bb & Sb & Fl).
    apply core_set_cong; [split; auto|]. repeat split; cbn; try congruence;
      try (rewrite Fl, Sb; reflexivity).
Qed.

Lemma spec_changed_core g x s : core_eq s (spec_changed g x s).
Proof.
  unfold spec_changed. apply core_fold_pres. intros a r.
  destruct (touched g x (rs_caches (get s r))); [apply lookup_changed_core|apply core_refl].
Qed.

Lemma core_chain a b r : core_eq a b -> chain_regs a r = chain_regs b r.
Proof.
  intros (L & H). apply chain_regs_ext; auto.
  - intros i. apply H.
  - intros i. unfold Bs. apply H.
Qed.

(* ---- erased histories *)
Lemma cwf_erase fl : forall ops n, cwf_hist fl n ops = true -> cwf_hist fl n (erase_lookups ops) = true.
Proof.
  induction ops as [|o ops IH]; intros n H; auto.
  cbn [cwf_hist] in H. apply andb_true_iff in H. destruct H as (Ho & H).
  unfold erase_lookups. cbn [filter]. fold (erase_lookups ops).
  destruct (cis_mutation o) eqn:M.
  - cbn [cwf_hist]. rewrite Ho. cbn. apply IH; auto.
  - replace (cn_after n o) with n in H; [apply IH; auto|].
    destruct o as [o|]; [|discriminate]. destruct o; try discriminate; reflexivity.
Qed.

Definition same_world (a b : cstate) : Prop := cs_g a = cs_g b /\ cs_if a = cs_if b.

Lemma erase_sim call fl : forall ops st1 st2,
  CInv fl st1 -> CInv fl st2 -> same_world st1 st2 -> core_eq (cs_sys st1) (cs_sys st2) ->
  cwf_hist fl (length (cs_sys st1)) ops = true ->
  let f1 := cfinal call st1 ops in
  let f2 := cfinal call st2 (erase_lookups ops) in
  CInv fl f1 /\ CInv fl f2 /\ same_world f1 f2 /\ core_eq (cs_sys f1) (cs_sys f2).
Proof.
  induction ops as [|o ops IH]; intros st1 st2 J1 J2 Sw E Wf; cbn zeta.
  - cbn. auto.
  - cbn [cwf_hist] in Wf. apply andb_true_iff in Wf. destruct Wf as (Wo & Wf).
    destruct (CInv_step call fl st1 o J1 Wo) as (J1' & L1').
    unfold erase_lookups. cbn [filter cfinal fold_left]. fold (erase_lookups ops).
    destruct Sw as (Sg & Si).
    destruct (cis_mutation o) eqn:M.
    + cbn [cfinal fold_left].
      assert (Wo2 : cwf_op fl (length (cs_sys st2)) o = true) by (destruct E as (<- & _); auto).
      destruct (CInv_step call fl st2 o J2 Wo2) as (J2' & L2').
      apply IH; auto.
      * destruct o as [o|x bs].
        -- destruct (cstep_sys_CReg call st1 o) as (_ & G1 & I1 & _).
           destruct (cstep_sys_CReg call st2 o) as (_ & G2 & I2 & _).
           split; congruence.
        -- split; cbn; congruence.
      * destruct o as [o|x bs].
        -- destruct (cstep_sys_CReg call st1 o) as (-> & _).
           destruct (cstep_sys_CReg call st2 o) as (-> & _).
           rewrite <- Sg, <- Si. apply step_mutation_cong; auto.
        -- cbn [cstep fst cs_sys].
           eapply core_trans; [apply core_sym, spec_changed_core|].
           eapply core_trans; [exact E|apply spec_changed_core].
      * rewrite L1'. auto.
    + destruct o as [o|x bs]; [|discriminate]. cbn [cis_mutation] in M.
      destruct (cstep_sys_CReg call st1 o) as (Es & G1 & I1 & _).
      apply IH; auto.
      * split; congruence.
      * rewrite Es. eapply core_trans; [apply core_sym, step_query_core; auto|exact E].
      * rewrite L1'. auto.
Qed.

(* bookkeeping on runs *)
Lemma crun_app call : forall a st b, crun call st (a ++ b) = crun call st a ++ crun call (cfinal call st a) b.
Proof.
  induction a as [|o a IH]; intros st b; cbn [app crun cfinal fold_left]; auto.
  destruct (cstep call st o) as [st' ans] eqn:E. cbn [fst]. rewrite IH. reflexivity.
Qed.

Lemma crun_length call : forall a st, length (crun call st a) = length a.
Proof.
  induction a as [|o a IH]; intros st; cbn [crun length]; auto.
  destruct (cstep call st o). cbn. rewrite IH. reflexivity.
Qed.

Lemma crun_nth call pre o post st d :
  nth (length pre) (crun call st (pre ++ o :: post)) d = snd (cstep call (cfinal call st pre) o).
Proof.
  rewrite crun_app, app_nth2; rewrite crun_length; [|lia]. rewrite Nat.sub_diag.
  cbn [crun]. destruct (cstep call (cfinal call st pre) o). reflexivity.
Qed.

Lemma cwf_snoc call fl : forall pre st o, CInv fl st ->
  cwf_hist fl (length (cs_sys st)) (pre ++ [o]) = true ->
  cwf_hist fl (length (cs_sys st)) pre = true /\
  cwf_op fl (length (cs_sys (cfinal call st pre))) o = true.
Proof.
  induction pre as [|p pre IH]; intros st o J H.
  - cbn [app cwf_hist cfinal fold_left] in *. apply andb_true_iff in H. destruct H. auto.
  - cbn [app cwf_hist] in H. apply andb_true_iff in H. destruct H as (Hp & H).
    destruct (CInv_step call fl st p J Hp) as (J' & L').
    rewrite <- L' in H. destruct (IH _ o J' H) as (H1 & H2).
    cbn [cwf_hist cfinal fold_left]. rewrite Hp. cbn [andb]. split; [rewrite <- L'; exact H1|exact H2].
Qed.

Lemma crun_fast_eq call : forall ops st, crun_fast call st ops = crun call st ops.
Proof.
  unfold crun_fast. induction ops as [|o ops IH]; intros st; cbn [crun_w crun]; auto.
  destruct o as [o|x bs]; cbn [cstep].
  - destruct (step (world_of (cs_g st) (cs_if st)) call (cs_sys st) o) as [s' a]. f_equal.
    apply (IH (mkCS (cs_g st) (cs_if st) s')).
  - f_equal. apply (IH (mkCS (set_spec_bases (cs_g st) x bs) (cs_if st) (spec_changed (cs_g st) x (cs_sys st)))).
Qed.

(* ---- C05, state form: at every reachable state, no lookup-family answer depends on the caches *)
Theorem cache_transparent_state call fl g ifs ops q :
  cwf_hist fl 0 (ops ++ [CReg q]) = true -> is_lookup q = true ->
  let st := cfinal call (mkCS g ifs []) ops in
  snd (cstep call st (CReg q)) =
  snd (cstep call (mkCS (cs_g st) (cs_if st) (drop_caches (cs_sys st))) (CReg q)).
Proof.
  intros Wf Q st.
  destruct (cwf_snoc call fl ops (mkCS g ifs []) (CReg q) (CInv_init fl g ifs) Wf) as (W1 & W2).
  destruct (CInv_final call fl ops _ (CInv_init fl g ifs) W1) as (I & C). fold st in I, C, W2.
  destruct (cstep_sys_CReg call st q) as (_ & _ & _ & ->).
  destruct (cstep_sys_CReg call (mkCS (cs_g st) (cs_if st) (drop_caches (cs_sys st))) q) as (_ & _ & _ & ->).
  cbn [cs_g cs_if cs_sys]. apply (transparent_state _ call fl); auto.
Qed.

(* ---- C05: every lookup-family answer is the uncached answer over the current chain *)
Theorem answers_are_uncached call fl g ifs ops q :
  cwf_hist fl 0 (ops ++ [CReg q]) = true -> is_lookup q = true ->
  let st := cfinal call (mkCS g ifs []) ops in
  snd (cstep call st (CReg q)) =
  pure_answer (world_of (cs_g st) (cs_if st)) call (chain_regs (cs_sys st)) q.
Proof.
  intros Wf Q st.
  destruct (cwf_snoc call fl ops (mkCS g ifs []) (CReg q) (CInv_init fl g ifs) Wf) as (W1 & W2).
  destruct (CInv_final call fl ops _ (CInv_init fl g ifs) W1) as (I & C). fold st in I, C, W2.
  destruct (cstep_sys_CReg call st q) as (_ & _ & _ & ->).
  apply (step_answer_chain _ call fl); auto.
Qed.

(* ---- C05, history form: the answer of a lookup inside a history = its answer after the same
   mutations with every earlier query erased *)
Theorem cache_transparent call fl g ifs pre q post :
  cwf_hist fl 0 (pre ++ [CReg q]) = true -> is_lookup q = true ->
  nth (length pre) (crun call (mkCS g ifs []) (pre ++ CReg q :: post)) [] =
  nth (length (erase_lookups pre)) (crun call (mkCS g ifs []) (erase_lookups pre ++ [CReg q])) [].
Proof.
  intros Wf Q. rewrite !crun_nth.
  set (init := mkCS g ifs []).
  destruct (cwf_snoc call fl pre init (CReg q) (CInv_init fl g ifs) Wf) as (W1 & W2).
  destruct (erase_sim call fl pre init init) as ((I1 & C1) & (I2 & C2) & (Sg & Si) & E);
    try apply CInv_init; try apply core_refl; auto; [split; auto|].
  set (f1 := cfinal call init pre) in *. set (f2 := cfinal call init (erase_lookups pre)) in *.
  destruct (cstep_sys_CReg call f1 q) as (_ & _ & _ & ->).
  destruct (cstep_sys_CReg call f2 q) as (_ & _ & _ & ->).
  cbn [cwf_op] in W2.
  rewrite (step_answer_chain _ call fl (cs_sys f1) q); auto.
  rewrite (step_answer_chain _ call fl (cs_sys f2) q); auto.
  - rewrite Sg, Si. apply pure_answer_ext. intros r. apply core_chain; auto.
  - destruct E as (<- & _). auto.
Qed.

(* ---- the static-world instance (Model/RegSys.v alone, any world W) *)
Lemma static_sim W call fl : forall ops s1 s2,
  Inv fl s1 -> CV W s1 -> Inv fl s2 -> CV W s2 -> core_eq s1 s2 -> wf_hist fl (length s1) ops = true ->
  let f1 := final W call s1 ops in
  let f2 := final W call s2 (filter is_mutation ops) in
  Inv fl f1 /\ CV W f1 /\ Inv fl f2 /\ CV W f2 /\ core_eq f1 f2 /\
  length f1 = fold_left n_after ops (length s1).
Proof.
  induction ops as [|o ops IH]; intros s1 s2 I1 C1 I2 C2 E Wf; cbn zeta.
  - cbn. auto 10.
  - cbn [wf_hist] in Wf. apply andb_true_iff in Wf. destruct Wf as (Wo & Wf).
    destruct (Inv_step W call fl s1 o I1 Wo) as (I1' & L1').
    pose proof (CV_step W call fl s1 o I1 C1 Wo) as C1'.
    cbn [filter final fold_left]. destruct (is_mutation o) eqn:M.
    + assert (Wo2 : wf_op fl (length s2) o = true) by (destruct E as (<- & _); auto).
      destruct (Inv_step W call fl s2 o I2 Wo2) as (I2' & L2').
      pose proof (CV_step W call fl s2 o I2 C2 Wo2) as C2'.
      cbn [final fold_left]. rewrite <- L1'. apply IH; auto.
      * apply step_mutation_cong; auto.
      * rewrite L1'. auto.
    + rewrite <- L1'. apply IH; auto.
      * eapply core_trans; [apply core_sym, step_query_core; auto|exact E].
      * rewrite L1'. auto.
Qed.

Lemma wf_snoc fl : forall pre n o, wf_hist fl n (pre ++ [o]) = true ->
  wf_hist fl n pre = true /\ wf_op fl (fold_left n_after pre n) o = true.
Proof.
  induction pre as [|p pre IH]; intros n o H.
  - cbn in *. apply andb_true_iff in H. destruct H. auto.
  - cbn [app wf_hist fold_left] in *. apply andb_true_iff in H. destruct H as (Hp & H).
    destruct (IH _ _ H) as (H1 & H2). rewrite Hp. auto.
Qed.

Theorem cache_transparent_static W call fl pre q :
  wf_hist fl 0 (pre ++ [q]) = true -> is_lookup q = true ->
  snd (step W call (final W call [] pre) q) =
  snd (step W call (final W call [] (filter is_mutation pre)) q).
Proof.
  intros Wf Q. destruct (wf_snoc fl pre 0 q Wf) as (W1 & W2).
  destruct (static_sim W call fl pre [] []) as (I1 & C1 & I2 & C2 & E & L);
    auto using Inv_nil, CV_nil, core_refl.
  cbn [length] in L. rewrite <- L in W2.
  rewrite (step_answer_chain W call fl _ q); auto.
  rewrite (step_answer_chain W call fl (final W call [] (filter is_mutation pre)) q); auto.
  - apply pure_answer_ext. intros r. apply core_chain; auto.
  - destruct E as (<- & _). auto.
Qed.

(* ---- what re-basing a specification does to the lookup objects (the dependence set) *)
Theorem spec_rebase_frame call fl g ifs ops x bs :
  cwf_hist fl 0 ops = true ->
  let st := cfinal call (mkCS g ifs []) ops in
  let s := cs_sys st in
  let s' := cs_sys (fst (cstep call st (CSetSpecBases x bs))) in
  length s' = length s /\
  (forall i, i < length s -> touched (cs_g st) x (rs_caches (get s i)) = true ->
             rs_caches (get s' i) = empty_caches) /\
  (forall i, touched (cs_g st) x (rs_caches (get s i)) = false ->
             get s' i = get s i /\
             forall y, In y (c_required (rs_caches (get s i))) ->
                       w_sro (world_of (set_spec_bases (cs_g st) x bs) (cs_if st)) y =
                       w_sro (world_of (cs_g st) (cs_if st)) y).
Proof.
  intros Wf st s s'.
  destruct (CInv_final call fl ops _ (CInv_init fl g ifs) Wf) as (I & C). fold st in I, C.
  destruct (spec_changed_facts fl (cs_g st) x s I) as (_ & L' & _ & Cl & Un).
  split; [exact L'|]. split; [exact Cl|].
  intros i Ti. split; [apply Un; auto|]. intros y Hy.
  apply untouched_sro with (c := rs_caches (get s i)); auto.
Qed.
