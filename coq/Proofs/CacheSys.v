(* Proofs for property C05: lookup caches are transparent.
   Part 1: the cache layer of Model/Lookup.v (flavour independent): if every cached entry equals
           the uncached function, every entry point answers what it answers with empty caches,
           and keeps that invariant.
   Part 2: what the uncached functions depend on: the orders of the REQUIRED specs of the key
           and the stores (adapters, subscribers, extendors) of the registries of the order.
   Part 3: re-basing a specification changes the order of its descendants only.
   Part 4: systems: invariant CacheValid, preserved by every operation (both flavours).
   Part 5: the theorems (state form, erased-history form). *)
From Coq Require Import List Arith Bool Lia.
Import ListNotations.
From ZI Require Import Model.Ro Model.Adapter Model.Lookup Model.RegSys Spec.RegChain Model.CacheSys
  Proofs.RegChain.

Ltac nlia := unfold node, spec, name in *; lia.

(* ================================================================== Part 0: decidable equalities *)

Lemma lspec_eqb_eq : forall a b, lspec_eqb a b = true -> a = b.
Proof.
  induction a as [|x a IH]; destruct b as [|y b]; cbn; intros H; try discriminate; auto.
  apply andb_true_iff in H. destruct H as [E H]. apply Nat.eqb_eq in E. subst. f_equal. apply IH. exact H.
Qed.

Lemma ckey_eqb_eq a b : ckey_eqb a b = true -> a = b.
Proof.
  destruct a, b; cbn; intros H; try discriminate.
  - apply Nat.eqb_eq in H. congruence.
  - apply lspec_eqb_eq in H. congruence.
Qed.

Lemma cache_key_eqb_eq a b : cache_key_eqb a b = true -> a = b.
Proof.
  destruct a as [[p1 n1] k1], b as [[p2 n2] k2]. cbn. intros H.
  apply andb_true_iff in H. destruct H as [H K]. apply andb_true_iff in H. destruct H as [P N].
  apply Nat.eqb_eq in P. apply Nat.eqb_eq in N. apply ckey_eqb_eq in K. congruence.
Qed.

Lemma mkey_eqb_eq a b : mkey_eqb a b = true -> a = b.
Proof.
  destruct a as [p1 r1], b as [p2 r2]. unfold mkey_eqb. cbn. intros H.
  apply andb_true_iff in H. destruct H as [P R]. apply Nat.eqb_eq in P. apply lspec_eqb_eq in R. congruence.
Qed.

Lemma ospec_eqb_eq a b : ospec_eqb a b = true -> a = b.
Proof. destruct a, b; cbn; intros H; try discriminate; auto. apply Nat.eqb_eq in H. congruence. Qed.

Lemma sckey_eqb_eq a b : sckey_eqb a b = true -> a = b.
Proof.
  destruct a as [p1 r1], b as [p2 r2]. unfold sckey_eqb. cbn. intros H.
  apply andb_true_iff in H. destruct H as [P R]. apply ospec_eqb_eq in P. apply lspec_eqb_eq in R. congruence.
Qed.

Section AssocFacts.
  Context {K V : Type} (eqb : K -> K -> bool).
  Hypothesis eqb_eq : forall a b, eqb a b = true -> a = b.

  Lemma aget_In (m : list (K * V)) k v : aget eqb m k = Some v -> In (k, v) m.
  Proof.
    induction m as [|[k' v'] m IH]; cbn; [discriminate|].
    destruct (eqb k k') eqn:E.
    - intros H. inversion H; subst. apply eqb_eq in E. subst. auto.
    - auto.
  Qed.

  Lemma In_aset (m : list (K * V)) k v k' v' : In (k', v') (aset eqb m k v) -> (k', v') = (k, v) \/ In (k', v') m.
  Proof.
    induction m as [|[k0 v0] m IH]; cbn.
    - intros [H|[]]; auto.
    - destruct (eqb k k0) eqn:E; cbn.
      + apply eqb_eq in E. subst. intros [H|H]; auto.
      + intros [H|H]; auto. destruct (IH H); auto.
  Qed.
End AssocFacts.

(* ================================================================== Part 1: the cache layer *)

Definition req_of (k : ckey) : list spec := match k with CSingle s => [s] | CMulti l => l end.

Lemma req_of_ckey_of r : req_of (ckey_of r) = r.
Proof. destruct r as [|s [|t r]]; reflexivity. Qed.

Lemma subscribe_fold_In req : forall acc x,
  In x (fold_left (fun acc r => if mem r acc then acc else acc ++ [r]) req acc) <-> In x acc \/ In x req.
Proof.
  induction req as [|r req IH]; intros acc x; cbn [fold_left].
  - cbn. tauto.
  - rewrite IH. destruct (mem r acc) eqn:E.
    + apply mem_In in E. cbn. split; [tauto|]. intros [H|[<-|H]]; auto.
    + rewrite in_app_iff. cbn. tauto.
Qed.

Lemma subscribe_required_incl c req :
  incl (c_required c) (c_required (subscribe_required c req)) /\
  incl req (c_required (subscribe_required c req)).
Proof.
  unfold subscribe_required; cbn. split; intros x H; apply subscribe_fold_In; auto.
Qed.

Section Layer.
  Variable ul : list spec -> spec -> name -> option value.
  Variable ua : list spec -> spec -> list (name * value).
  Variable us : list spec -> option spec -> list value.
  Variable call : value -> list nat -> option nat.

  (* every cached entry equals the uncached function, and its required specs are subscribed *)
  Definition ent_ok (c : caches) : Prop :=
    (forall p n k v, In ((p, n, k), v) (c_cache c) -> v = ul (req_of k) p n /\ incl (req_of k) (c_required c)) /\
    (forall p req v, In ((p, req), v) (c_mcache c) -> v = ua req p /\ incl req (c_required c)) /\
    (forall p req v, In ((p, req), v) (c_scache c) -> v = us req p /\ incl req (c_required c)).

  Lemma ent_ok_empty : ent_ok empty_caches.
  Proof. repeat split; intros; cbn in *; contradiction. Qed.

  Lemma lookup_ok c req p n : ent_ok c ->
    ent_ok (fst (lookup ul c req p n)) /\ snd (lookup ul c req p n) = snd (lookup ul empty_caches req p n).
  Proof.
    intros H0. pose proof H0 as (H1 & H2 & H3). unfold lookup. destruct n as [n|]; [|split; [exact H0|reflexivity]].
    cbn [aget c_cache empty_caches].
    destruct (aget cache_key_eqb (c_cache c) (p, n, ckey_of req)) as [[v|]|] eqn:E.
    - apply (aget_In _ cache_key_eqb_eq) in E. apply H1 in E. rewrite req_of_ckey_of in E.
      destruct E as (E & _). cbn. split; [exact H0|]. rewrite <- E. reflexivity.
    - apply (aget_In _ cache_key_eqb_eq) in E. apply H1 in E. rewrite req_of_ckey_of in E.
      destruct E as (E & _). cbn. split; [exact H0|]. rewrite <- E. reflexivity.
    - cbn [fst snd]. split; [|reflexivity].
      set (c0 := mkC _ _ _ _). destruct (subscribe_required_incl c0 req) as (I1 & I2).
      unfold ent_ok. unfold subscribe_required at 1 2 3. cbn [c_cache c_mcache c_scache]. subst c0. cbn [c_cache c_mcache c_scache] in *.
      repeat split.
      + apply (In_aset _ cache_key_eqb_eq) in H. destruct H as [H|H].
        * inversion H; subst. rewrite req_of_ckey_of. reflexivity.
        * apply H1 in H. apply H.
      + apply (In_aset _ cache_key_eqb_eq) in H. destruct H as [H|H].
        * inversion H; subst. rewrite req_of_ckey_of. exact I2.
        * apply H1 in H. destruct H as (_ & H). eapply incl_tran; eauto.
      + apply H2 in H. apply H.
      + apply H2 in H. destruct H as (_ & H). eapply incl_tran; eauto.
      + apply H3 in H. apply H.
      + apply H3 in H. destruct H as (_ & H). eapply incl_tran; eauto.
  Qed.

  Lemma lookup_empty_single s p n :
    snd (lookup ul empty_caches [s] p (NStr n)) = match ul [s] p n with Some v => RVal v | None => RDefault end.
  Proof. reflexivity. Qed.

  Lemma lookup1_ok c s p n : ent_ok c ->
    ent_ok (fst (lookup1 ul c s p n)) /\ snd (lookup1 ul c s p n) = snd (lookup1 ul empty_caches s p n).
  Proof.
    intros H. unfold lookup1. destruct n as [n|]; [|split; auto].
    cbn [aget c_cache empty_caches].
    destruct (aget cache_key_eqb (c_cache c) (p, n, CSingle s)) as [[v|]|] eqn:E.
    - apply (aget_In _ cache_key_eqb_eq) in E. apply H in E. cbn [req_of] in E. destruct E as (E & _).
      split; auto. cbn [snd]. rewrite lookup_empty_single, <- E. reflexivity.
    - apply (aget_In _ cache_key_eqb_eq) in E. apply H in E. cbn [req_of] in E. destruct E as (E & _).
      split; auto. cbn [snd]. rewrite lookup_empty_single, <- E. reflexivity.
    - apply lookup_ok; auto.
  Qed.

  Lemma adapter_hook_empty p o n :
    snd (adapter_hook ul call empty_caches p o (NStr n)) =
    match ul [o_provides o] p n with
    | Some f => match call f [unwrap o] with Some r => RVal r | None => RDefault end
    | None => RDefault
    end.
  Proof.
    unfold adapter_hook, lookup. cbn [aget c_cache empty_caches ckey_of].
    destruct (ul [o_provides o] p n) as [f|]; [destruct (call f [unwrap o])|]; reflexivity.
  Qed.

  Lemma adapter_hook_ok c p o n : ent_ok c ->
    ent_ok (fst (adapter_hook ul call c p o n)) /\
    snd (adapter_hook ul call c p o n) = snd (adapter_hook ul call empty_caches p o n).
  Proof.
    intros H. destruct n as [n|]; [|split; auto].
    rewrite adapter_hook_empty. unfold adapter_hook.
    destruct (lookup_ok c [o_provides o] p (NStr n) H) as (L1 & L2).
    rewrite lookup_empty_single in L2.
    destruct (aget cache_key_eqb (c_cache c) (p, n, CSingle (o_provides o))) as [f|] eqn:E.
    - apply (aget_In _ cache_key_eqb_eq) in E. apply H in E. cbn [req_of] in E. destruct E as (E & _).
      rewrite <- E. destruct f as [f|]; [destruct (call f [unwrap o])|]; split; auto.
    - destruct (lookup ul c [o_provides o] p (NStr n)) as [c1 r1]. cbn [fst snd] in *.
      destruct (ul [o_provides o] p n) as [f|]; subst r1; [destruct (call f [unwrap o])|]; split; auto.
  Qed.

  Lemma queryMultiAdapter_ok c os p n : ent_ok c ->
    ent_ok (fst (queryMultiAdapter ul call c os p n)) /\
    snd (queryMultiAdapter ul call c os p n) = snd (queryMultiAdapter ul call empty_caches os p n).
  Proof.
    intros H. unfold queryMultiAdapter.
    destruct (lookup_ok c (map o_provides os) p n H) as (L1 & L2).
    destruct (lookup ul c (map o_provides os) p n) as [c1 r1].
    destruct (lookup ul empty_caches (map o_provides os) p n) as [c2 r2].
    cbn [fst snd] in *. subst r2. destruct r1 as [v| |].
    - destruct (call v (map unwrap os)); split; auto.
    - split; auto.
    - split; auto.
  Qed.

  Lemma lookupAll_ok c req p : ent_ok c ->
    ent_ok (fst (lookupAll ua c req p)) /\ snd (lookupAll ua c req p) = snd (lookupAll ua empty_caches req p).
  Proof.
    intros H0. pose proof H0 as (H1 & H2 & H3). unfold lookupAll. cbn [aget c_mcache empty_caches].
    destruct (aget mkey_eqb (c_mcache c) (p, req)) as [r|] eqn:E.
    - apply (aget_In _ mkey_eqb_eq) in E. apply H2 in E. destruct E as (E & _).
      split; [exact H0|]. cbn. auto.
    - cbn [fst snd]. split; [|reflexivity].
      set (c0 := mkC _ _ _ _). destruct (subscribe_required_incl c0 req) as (I1 & I2).
      unfold ent_ok. unfold subscribe_required at 1 2 3. cbn [c_cache c_mcache c_scache]. subst c0. cbn [c_cache c_mcache c_scache] in *.
      repeat split.
      + apply H1 in H. apply H.
      + apply H1 in H. destruct H as (_ & H). eapply incl_tran; eauto.
      + apply (In_aset _ mkey_eqb_eq) in H. destruct H as [H|H].
        * inversion H; subst. reflexivity.
        * apply H2 in H. apply H.
      + apply (In_aset _ mkey_eqb_eq) in H. destruct H as [H|H].
        * inversion H; subst. exact I2.
        * apply H2 in H. destruct H as (_ & H). eapply incl_tran; eauto.
      + apply H3 in H. apply H.
      + apply H3 in H. destruct H as (_ & H). eapply incl_tran; eauto.
  Qed.

  Lemma names_ok c req p : ent_ok c ->
    ent_ok (fst (names ua c req p)) /\ snd (names ua c req p) = snd (names ua empty_caches req p).
  Proof.
    intros H. unfold names. destruct (lookupAll_ok c req p H) as (L1 & L2).
    destruct (lookupAll ua c req p) as [c1 r1]. destruct (lookupAll ua empty_caches req p) as [c2 r2].
    cbn [fst snd] in *. subst. auto.
  Qed.

  Lemma subscriptions_ok c req p : ent_ok c ->
    ent_ok (fst (subscriptions us c req p)) /\
    snd (subscriptions us c req p) = snd (subscriptions us empty_caches req p).
  Proof.
    intros H0. pose proof H0 as (H1 & H2 & H3). unfold subscriptions. cbn [aget c_scache empty_caches].
    destruct (aget sckey_eqb (c_scache c) (p, req)) as [r|] eqn:E.
    - apply (aget_In _ sckey_eqb_eq) in E. apply H3 in E. destruct E as (E & _).
      split; [exact H0|]. cbn. auto.
    - cbn [fst snd]. split; [|reflexivity].
      set (c0 := mkC _ _ _ _). destruct (subscribe_required_incl c0 req) as (I1 & I2).
      unfold ent_ok. unfold subscribe_required at 1 2 3. cbn [c_cache c_mcache c_scache]. subst c0. cbn [c_cache c_mcache c_scache] in *.
      repeat split.
      + apply H1 in H. apply H.
      + apply H1 in H. destruct H as (_ & H). eapply incl_tran; eauto.
      + apply H2 in H. apply H.
      + apply H2 in H. destruct H as (_ & H). eapply incl_tran; eauto.
      + apply (In_aset _ sckey_eqb_eq) in H. destruct H as [H|H].
        * inversion H; subst. reflexivity.
        * apply H3 in H. apply H.
      + apply (In_aset _ sckey_eqb_eq) in H. destruct H as [H|H].
        * inversion H; subst. exact I2.
        * apply H3 in H. destruct H as (_ & H). eapply incl_tran; eauto.
  Qed.

  Lemma subscribers_ok c os p : ent_ok c ->
    ent_ok (fst (subscribers us call c os p)) /\
    snd (subscribers us call c os p) = snd (subscribers us call empty_caches os p).
  Proof.
    intros H. unfold subscribers. destruct (subscriptions_ok c (map o_provides os) p H) as (L1 & L2).
    destruct (subscriptions us c (map o_provides os) p) as [c1 r1].
    destruct (subscriptions us empty_caches (map o_provides os) p) as [c2 r2].
    cbn [fst snd] in *. subst. destruct p; auto.
  Qed.
End Layer.

(* ent_ok only looks at the uncached functions on the keys' required specs *)
Lemma ent_ok_ext ul ua us ul' ua' us' c :
  (forall req p n, incl req (c_required c) -> ul req p n = ul' req p n) ->
  (forall req p, incl req (c_required c) -> ua req p = ua' req p) ->
  (forall req p, incl req (c_required c) -> us req p = us' req p) ->
  ent_ok ul ua us c -> ent_ok ul' ua' us' c.
Proof.
  intros E1 E2 E3 (H1 & H2 & H3). repeat split.
  - apply H1 in H. destruct H as (-> & I). apply E1; auto.
  - apply H1 in H. apply H.
  - apply H2 in H. destruct H as (-> & I). apply E2; auto.
  - apply H2 in H. apply H.
  - apply H3 in H. destruct H as (-> & I). apply E3; auto.
  - apply H3 in H. apply H.
Qed.

(* ================================================================== Part 2: dependence *)

Definition store (r : reg) := (adapters r, Adapter.subscribers r, extendors r).

Lemma first_some_ext {A B} (f g : A -> option B) l :
  (forall x, In x l -> f x = g x) -> first_some f l = first_some g l.
Proof.
  induction l as [|x l IH]; cbn; intros H; auto.
  rewrite (H x) by auto. destruct (g x); auto.
Qed.

Lemma fold_left_ext_in {A B} (f g : A -> B -> A) l : forall a,
  (forall a x, In x l -> f a x = g a x) -> fold_left f l a = fold_left g l a.
Proof.
  induction l as [|x l IH]; cbn; intros a H; auto.
  rewrite (H a x) by auto. apply IH. intros; apply H; auto.
Qed.

Section Dep.
  Variables W W' : world.

  Lemma lookup_walk_ext m exts n : forall specs prefix,
    (forall s, In s specs -> w_sro W s = w_sro W' s) ->
    lookup_walk W m prefix specs exts n = lookup_walk W' m prefix specs exts n.
  Proof.
    induction specs as [|s rest IH]; intros prefix H; cbn [lookup_walk]; auto.
    rewrite <- (H s) by (left; auto). apply first_some_ext. intros x _. apply IH.
    intros; apply H; right; auto.
  Qed.

  Lemma lookupAll_walk_ext m exts : forall specs prefix acc,
    (forall s, In s specs -> w_sro W s = w_sro W' s) ->
    lookupAll_walk W m prefix specs exts acc = lookupAll_walk W' m prefix specs exts acc.
  Proof.
    induction specs as [|s rest IH]; intros prefix acc H; cbn [lookupAll_walk]; auto.
    rewrite <- (H s) by (left; auto). apply fold_left_ext_in. intros a x _. apply IH.
    intros; apply H; right; auto.
  Qed.

  Lemma subs_walk_ext m exts : forall specs prefix,
    (forall s, In s specs -> w_sro W s = w_sro W' s) ->
    subs_walk W m prefix specs exts = subs_walk W' m prefix specs exts.
  Proof.
    induction specs as [|s rest IH]; intros prefix H; cbn [subs_walk]; auto.
    rewrite <- (H s) by (left; auto). apply flat_map_ext_in. intros x _. apply IH.
    intros; apply H; right; auto.
  Qed.

  Lemma uncached_lookup_ext req p n : (forall s, In s req -> w_sro W s = w_sro W' s) ->
    forall regs regs', map store regs = map store regs' ->
    uncached_lookup W regs req p n = uncached_lookup W' regs' req p n.
  Proof.
    intros H. unfold uncached_lookup.
    induction regs as [|r regs IH]; destruct regs' as [|r' regs']; cbn [map first_some]; intros E;
      try discriminate; auto.
    inversion E as [[E1 E2 E3 E4]]. rewrite E3, E1, (IH regs' E4).
    destruct (ext_get (extendors r') p); auto. rewrite (lookup_walk_ext _ _ _ req [] H). reflexivity.
  Qed.

  Lemma uncached_lookupAll_ext req p : (forall s, In s req -> w_sro W s = w_sro W' s) ->
    forall regs regs', map store regs = map store regs' ->
    uncached_lookupAll W regs req p = uncached_lookupAll W' regs' req p.
  Proof.
    intros H regs regs' E. unfold uncached_lookupAll.
    assert (E' : map store (rev regs) = map store (rev regs')) by (rewrite !map_rev; congruence).
    generalize (@nil (name * value)). revert E'. generalize (rev regs) (rev regs'). clear E regs regs'.
    intros l. induction l as [|r l IH]; intros [|r' l'] E acc; cbn [map fold_left] in *;
      try discriminate; auto.
    inversion E as [[E1 E2 E3 E4]]. rewrite E3, E1.
    destruct (ext_get (extendors r') p); [apply IH; exact E4|].
    rewrite (lookupAll_walk_ext _ _ req [] acc H). apply IH. exact E4.
  Qed.

  Lemma uncached_subscriptions_ext req p : (forall s, In s req -> w_sro W s = w_sro W' s) ->
    forall regs regs', map store regs = map store regs' ->
    uncached_subscriptions W regs req p = uncached_subscriptions W' regs' req p.
  Proof.
    intros H regs regs' E. unfold uncached_subscriptions.
    assert (E' : map store (rev regs) = map store (rev regs')) by (rewrite !map_rev; congruence).
    revert E'. generalize (rev regs) (rev regs'). clear E regs regs'.
    intros l. induction l as [|r l IH]; intros [|r' l'] E; cbn [map flat_map] in *;
      try discriminate; auto.
    inversion E as [[E1 E2 E3 E4]]. rewrite (IH l' E4). f_equal.
    destruct p as [p'|].
    - rewrite E3. destruct (aget Nat.eqb (extendors r') p'); auto.
      rewrite E2. apply subs_walk_ext; auto.
    - rewrite E2. apply subs_walk_ext; auto.
  Qed.
End Dep.

(* ================================================================== Part 3: re-basing a spec *)

Lemma nth_map_seq {A} (f : nat -> A) d n x : nth x (map f (seq 0 n)) d = if Nat.ltb x n then f x else d.
Proof.
  destruct (Nat.ltb x n) eqn:E.
  - apply Nat.ltb_lt in E. rewrite (nth_indep _ d (f 0)) by (rewrite map_length, seq_length; auto).
    rewrite map_nth, seq_nth; auto.
  - apply Nat.ltb_ge in E. apply nth_overflow. rewrite map_length, seq_length. auto.
Qed.

Lemma world_of_sro g ifs x : w_sro (world_of g ifs) x = sro_of g x.
Proof. unfold world_of, sro_of. cbn [w_sro]. apply nth_map_seq. Qed.

Lemma set_spec_bases_length g x bs : length (set_spec_bases g x bs) = length g.
Proof. apply map_length. Qed.

Lemma set_spec_bases_other g x bs y : y <> x -> bases (set_spec_bases g x bs) y = bases g y.
Proof.
  intros N. induction g as [|[z zs] g IH]; cbn; auto.
  destruct (Nat.eqb z x) eqn:E; cbn.
  - apply Nat.eqb_eq in E. subst z. destruct (Nat.eqb y x) eqn:E2; auto. apply Nat.eqb_eq in E2. congruence.
  - destruct (Nat.eqb y z); auto.
Qed.

Section Rebase.
  Variables g g' : graph.
  Variable x : node.
  Hypothesis off : forall y, y <> x -> bases g' y = bases g y.

  Lemma reachb_false_inv f y : reachb (S f) g y x = false ->
    y <> x /\ forall b, In b (bases g y) -> reachb f g b x = false.
  Proof.
    cbn [reachb]. intros H. apply orb_false_iff in H. destruct H as [H1 H2].
    apply Nat.eqb_neq in H1. split; auto. intros b Hb.
    destruct (reachb f g b x) eqn:E; auto.
    assert (existsb (fun b => reachb f g b x) (bases g y) = true) by (apply existsb_exists; eauto).
    congruence.
  Qed.

  Lemma reachb_0_inv y : reachb 0 g y x = false -> y <> x.
  Proof. cbn. rewrite orb_false_r. apply Nat.eqb_neq. Qed.

  Lemma flatten_rebase : forall f y, reachb f g y x = false ->
    legacy_flatten (S f) g' y = legacy_flatten (S f) g y.
  Proof.
    induction f as [|f IH]; intros y H.
    - apply reachb_0_inv in H. cbn [legacy_flatten]. rewrite off; auto.
    - apply reachb_false_inv in H. destruct H as [N Hb].
      change (legacy_flatten (S (S f)) g' y) with (y :: flat_map (legacy_flatten (S f) g') (bases g' y)).
      change (legacy_flatten (S (S f)) g y) with (y :: flat_map (legacy_flatten (S f) g) (bases g y)).
      rewrite off; auto. f_equal. apply flat_map_ext_in. intros b B. apply IH. auto.
  Qed.

  Lemma fresh_sro_rebase root : forall f y, reachb f g y x = false ->
    fresh_sro (S f) root g' y = fresh_sro (S f) root g y.
  Proof.
    induction f as [|f IH]; intros y H.
    - pose proof (flatten_rebase 0 y H) as F. apply reachb_0_inv in H.
      cbn [fresh_sro]. unfold calc_sro, legacy_ro. rewrite F, off; auto.
    - pose proof (flatten_rebase (S f) y H) as F. apply reachb_false_inv in H. destruct H as [N Hb].
      change (fresh_sro (S (S f)) root g' y) with
        (match calc_sro false root (S (S f)) g' (fresh_sro (S f) root g') y with ROk m _ => m | _ => [] end).
      change (fresh_sro (S (S f)) root g y) with
        (match calc_sro false root (S (S f)) g (fresh_sro (S f) root g) y with ROk m _ => m | _ => [] end).
      unfold calc_sro, legacy_ro. rewrite F, off; auto.
      replace (map (fresh_sro (S f) root g') (bases g y)) with (map (fresh_sro (S f) root g) (bases g y)); auto.
      apply map_ext_in. intros b B. symmetry. apply IH. auto.
  Qed.
End Rebase.

(* a lookup object that did not subscribe to x or a descendant keeps the orders of all its specs *)
Lemma untouched_sro g ifs x bs c : touched g x c = false ->
  forall y, In y (c_required c) ->
  w_sro (world_of (set_spec_bases g x bs) ifs) y = w_sro (world_of g ifs) y.
Proof.
  intros T y Hy. rewrite !world_of_sro. unfold sro_of. rewrite set_spec_bases_length.
  destruct (Nat.ltb y (length g)); auto.
  apply (fresh_sro_rebase g (set_spec_bases g x bs) x).
  - intros z Nz. apply set_spec_bases_other; auto.
  - unfold touched in T. destruct (reachb (length g) g y x) eqn:E; auto.
    assert (existsb (fun y => reachb (length g) g y x) (c_required c) = true) by (apply existsb_exists; eauto).
    congruence.
Qed.

(* ================================================================== Part 4: systems *)

(* the snapshot of a verifying registry still matches (always true for a push registry) *)
Definition valid_snap (s : sys) (r : nat) : Prop :=
  match rs_flavour (get s r) with
  | Push => True
  | Verifying => gens s (rs_vro (get s r)) = rs_vgen (get s r)
  end.

Definition ents (W : world) (s : sys) (r : nat) (c : caches) : Prop :=
  ent_ok (uncached_lookup W (ro_regs s r)) (uncached_lookupAll W (ro_regs s r))
         (uncached_subscriptions W (ro_regs s r)) c.

(* CacheValid: every cached entry of every registry whose snapshot is still valid equals the
   uncached function of the CURRENT state and world, and its required specs are subscribed *)
Definition cv_at (W : world) (s : sys) (r : nat) : Prop :=
  valid_snap s r -> ents W s r (rs_caches (get s r)).

Definition CV (W : world) (s : sys) : Prop := forall r, cv_at W s r.

Lemma ents_ext W W' regs regs' c :
  map store regs' = map store regs ->
  (forall y, In y (c_required c) -> w_sro W' y = w_sro W y) ->
  ent_ok (uncached_lookup W regs) (uncached_lookupAll W regs) (uncached_subscriptions W regs) c ->
  ent_ok (uncached_lookup W' regs') (uncached_lookupAll W' regs') (uncached_subscriptions W' regs') c.
Proof.
  intros E Hw. apply ent_ok_ext; intros req p; intros.
  - apply uncached_lookup_ext; auto. intros y Hy. symmetry. apply Hw. auto.
  - apply uncached_lookupAll_ext; auto. intros y Hy. symmetry. apply Hw. auto.
  - apply uncached_subscriptions_ext; auto. intros y Hy. symmetry. apply Hw. auto.
Qed.

Lemma cv_empty W s r : rs_caches (get s r) = empty_caches -> cv_at W s r.
Proof. intros E _. unfold ents. rewrite E. apply ent_ok_empty. Qed.

Lemma cv_frame W W' s s' i :
  cv_at W s i ->
  (valid_snap s' i -> valid_snap s i) ->
  rs_caches (get s' i) = rs_caches (get s i) ->
  map store (ro_regs s' i) = map store (ro_regs s i) ->
  (forall y, In y (c_required (rs_caches (get s i))) -> w_sro W' y = w_sro W y) ->
  cv_at W' s' i.
Proof.
  intros C V Ec Er Hw V'. unfold ents. rewrite Ec. apply (ents_ext W W' (ro_regs s i)); auto.
  apply C. auto.
Qed.

Lemma CV_nil W : CV W [].
Proof. intros r. apply cv_empty. unfold get. destruct r; reflexivity. Qed.

Lemma get_oob_caches s i : length s <= i -> rs_caches (get s i) = empty_caches.
Proof. intros H. rewrite get_oob; auto. Qed.

Lemma ro_regs_store_ext s s' i :
  rs_ro (get s' i) = rs_ro (get s i) ->
  (forall j, In j (rs_ro (get s i)) -> store (rs_reg (get s' j)) = store (rs_reg (get s j))) ->
  map store (ro_regs s' i) = map store (ro_regs s i).
Proof.
  intros E H. unfold ro_regs. rewrite E, !map_map. apply map_ext_in. exact H.
Qed.

(* ---- entry points as functions of the caches *)
Definition transparent_f {A}
  (f : (list spec -> spec -> name -> option value) -> (list spec -> spec -> list (name * value)) ->
       (list spec -> option spec -> list value) -> caches -> caches * A) : Prop :=
  forall ul ua us c, ent_ok ul ua us c ->
    ent_ok ul ua us (fst (f ul ua us c)) /\ snd (f ul ua us c) = snd (f ul ua us empty_caches).

Lemma with_lookup_fst' W {A} s r (f : _ -> _ -> _ -> caches -> caches * A) :
  fst (with_lookup W s r f) =
  upd (verify s r) r (fun x => set_caches x
    (fst (f (uncached_lookup W (ro_regs (verify s r) r)) (uncached_lookupAll W (ro_regs (verify s r) r))
            (uncached_subscriptions W (ro_regs (verify s r) r)) (rs_caches (get (verify s r) r))))).
Proof.
  unfold with_lookup. cbv zeta.
  destruct (f (uncached_lookup W (ro_regs (verify s r) r)) (uncached_lookupAll W (ro_regs (verify s r) r))
              (uncached_subscriptions W (ro_regs (verify s r) r)) (rs_caches (get (verify s r) r))) as [c' a].
  reflexivity.
Qed.

(* what _verify leaves behind, for either flavour *)
Lemma verify_facts W fl s r : Inv fl s -> CV W s -> r < length s ->
  length (verify s r) = length s /\
  (forall i, rs_reg (get (verify s r) i) = rs_reg (get s i)) /\
  (forall i, i <> r -> get (verify s r) i = get s i) /\
  ents W (verify s r) r (rs_caches (get (verify s r) r)).
Proof.
  intros I C Lr. destruct fl.
  - rewrite verify_push by apply I. split; [|split; [|split]]; auto. apply C. unfold valid_snap.
    destruct I as (Al & _). rewrite (Al r). exact Logic.I.
  - destruct (verify_ver s r I Lr) as (_ & L & _ & Rg & _ & Ot & Ne & Eq).
    split; [|split; [|split]]; auto.
    destruct (list_eq_dec Nat.eq_dec (gens s (rs_vro (get s r))) (rs_vgen (get s r))) as [E|N].
    + rewrite (Eq E). apply C. unfold valid_snap. destruct I as (Al & _). rewrite (Al r Lr). exact E.
    + unfold ents. rewrite (Ne N). apply ent_ok_empty.
Qed.

Lemma gens_same_regs s s' l : (forall i, rs_reg (get s' i) = rs_reg (get s i)) -> gens s' l = gens s l.
Proof. intros H. apply gens_ext. intros i _. unfold gen_of. rewrite H. reflexivity. Qed.

Lemma ro_regs_same_regs s s' i : (forall j, rs_reg (get s' j) = rs_reg (get s j)) ->
  rs_ro (get s' i) = rs_ro (get s i) -> ro_regs s' i = ro_regs s i.
Proof. intros H E. unfold ro_regs. rewrite E. apply map_ext. intros j. apply H. Qed.

(* a registry whose record and whose registries' storages are untouched keeps its validity *)
Lemma cv_keep W s s' i : (forall j, rs_reg (get s' j) = rs_reg (get s j)) -> get s' i = get s i ->
  cv_at W s i -> cv_at W s' i.
Proof.
  intros H E C. apply (cv_frame W W s s' i); auto.
  - unfold valid_snap. rewrite E. destruct (rs_flavour (get s i)); auto.
    rewrite (gens_same_regs s s'); auto.
  - rewrite E. reflexivity.
  - rewrite (ro_regs_same_regs s s'); auto. rewrite E. reflexivity.
Qed.

Lemma CV_with_lookup W fl {A} s r (f : _ -> _ -> _ -> caches -> caches * A) :
  Inv fl s -> CV W s -> r < length s -> transparent_f f -> CV W (fst (with_lookup W s r f)).
Proof.
  intros I C Lr T. rewrite with_lookup_fst'.
  destruct (verify_facts W fl s r I C Lr) as (L1 & Rg & Ot & E1).
  set (s1 := verify s r) in *.
  set (c' := fst (f _ _ _ _)).
  assert (Rg' : forall j, rs_reg (get (upd s1 r (fun x => set_caches x c')) j) = rs_reg (get s1 j)).
  { intros j. rewrite get_upd. destruct (Nat.eqb j r && Nat.ltb r (length s1)) eqn:E; auto.
    apply andb_true_iff in E. destruct E as (E & _). apply Nat.eqb_eq in E. subst. reflexivity. }
  intros i. destruct (Nat.eq_dec i r) as [->|N].
  - intros _. unfold ents. rewrite (ro_regs_same_regs s1); auto.
    + rewrite get_upd_same by lia. cbn [set_caches rs_caches]. apply T. exact E1.
    + rewrite get_upd_same by lia. reflexivity.
  - apply (cv_keep W s); auto.
    + intros j. rewrite Rg'. apply Rg.
    + rewrite get_upd_other by auto. apply Ot. auto.
Qed.

(* the answer of an entry point = its answer with empty caches over the current chain *)
Lemma with_lookup_answer W fl {A} s r (f : _ -> _ -> _ -> caches -> caches * A) :
  Inv fl s -> CV W s -> r < length s -> transparent_f f ->
  snd (with_lookup W s r f) =
  snd (f (uncached_lookup W (chain_regs s r)) (uncached_lookupAll W (chain_regs s r))
         (uncached_subscriptions W (chain_regs s r)) empty_caches).
Proof.
  intros I C Lr T. rewrite with_lookup_snd.
  destruct (verify_facts W fl s r I C Lr) as (_ & _ & _ & E1). unfold ents in E1.
  rewrite (chain_after_verify fl s r I Lr) in *.
  apply T. exact E1.
Qed.

(* ---- push flavour: changed() fan-out only clears caches and bumps generations *)
Definition soft (a b : sys) : Prop :=
  forall i, store (rs_reg (get b i)) = store (rs_reg (get a i)) /\
            (P_c b i \/ rs_caches (get b i) = rs_caches (get a i)).

Lemma soft_refl s : soft s s.
Proof. intros i. split; auto. Qed.

Lemma soft_trans a b c : soft a b -> soft b c -> soft a c.
Proof.
  intros H1 H2 i. destruct (H1 i) as (S1 & C1). destruct (H2 i) as (S2 & C2). split; [congruence|].
  destruct C2 as [C2|C2]; auto. destruct C1 as [C1|C1]; [left; unfold P_c in *; congruence|right; congruence].
Qed.

Lemma lookup_changed_push_soft b s r : allPush s -> soft s (lookup_changed b s r).
Proof.
  intros A i. rewrite lookup_changed_push by apply A. unfold P_c. rewrite get_upd.
  destruct (Nat.eqb i r && Nat.ltb r (length s)) eqn:E; auto.
  apply andb_true_iff in E. destruct E as (E & _). apply Nat.eqb_eq in E. subst. cbn. auto.
Qed.

Lemma bump_soft s r : soft s (upd s r bump).
Proof.
  intros i. rewrite get_upd. destruct (Nat.eqb i r && Nat.ltb r (length s)) eqn:E; auto.
  apply andb_true_iff in E. destruct E as (E & _). apply Nat.eqb_eq in E. subst. cbn. auto.
Qed.

Lemma visit_ch_soft s r : allPush s -> soft s (visit_ch s r).
Proof.
  intros A. unfold visit_ch. eapply soft_trans; [apply bump_soft|].
  apply lookup_changed_push_soft. eapply skel_allPush; eauto. apply bump_skel.
Qed.

Lemma after_bump_soft s r : allPush s -> soft s (after_bump s r).
Proof.
  intros A. rewrite after_bump_push; auto.
  eapply soft_trans; [apply (lookup_changed_push_soft false s r A)|].
  apply (trav_fold_pres visit_ch allPush); auto using soft_refl.
  - intros; apply visit_ch_allPush; auto.
  - intros; eapply soft_trans; eauto.
  - intros; apply visit_ch_soft; auto.
  - eapply skel_allPush; eauto. apply lookup_changed_push_skel; auto.
Qed.

Lemma push_valid_snap s i : allPush s -> valid_snap s i.
Proof. intros A. unfold valid_snap. rewrite (A i). exact I. Qed.

(* [s0]: a good state; [s4]: s0 after the storage / __bases__ of registry r changed (nothing else
   did, caches untouched); then changed(r) runs *)
Lemma CV_after_bump_push W s0 s4 r :
  PInv s0 -> CV W s0 -> PInv s4 -> length s0 <= length s4 -> r < length s4 ->
  (forall i, rs_caches (get s4 i) = rs_caches (get s0 i)) ->
  (forall j, j <> r -> store (rs_reg (get s4 j)) = store (rs_reg (get s0 j))) ->
  (forall y, y <> r -> Bs s4 y = Bs s0 y) ->
  CV W (after_bump s4 r).
Proof.
  intros P0 C P4 L Lr Hc Hs Hb i.
  destruct P4 as (A4 & R4 & S4 & C4). destruct P0 as (A0 & R0 & S0 & C0).
  pose proof (after_bump_soft s4 r A4 i) as (St & Ca).
  destruct (Reach_dec (Bs s4) r R4 i) as [Y|N].
  { apply cv_empty. apply after_bump_empties; auto. }
  destruct Ca as [Ca|Ca]; [apply cv_empty; exact Ca|].
  destruct (Nat.lt_ge_cases i (length s0)) as [Li|Li].
  2:{ apply cv_empty. rewrite Ca, Hc. apply get_oob_caches; auto. }
  assert (Ni : i <> r) by (intros ->; apply N, Reach_refl).
  destruct (after_bump_skel s4 r A4) as ((L' & G') & Ro').
  assert (F : fresh_ro s4 i = fresh_ro s0 i).
  { apply fresh_ro_frame; auto; try lia. apply Reach_avoid with (r := r); auto. }
  apply (cv_frame W W s0 _ i); auto.
  - intros _. apply push_valid_snap; auto.
  - rewrite Ca. apply Hc.
  - apply ro_regs_store_ext.
    + rewrite <- Ro', C4, C0, F; auto; lia.
    + intros j Hj. rewrite C0 in Hj by auto. rewrite <- F in Hj.
      apply (fresh_ro_mem s4 i j R4) in Hj; [|lia].
      assert (j <> r) by (intros ->; auto).
      destruct (after_bump_soft s4 r A4 j) as (-> & _). auto.
Qed.
