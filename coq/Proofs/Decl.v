(* Proofs for C01: the model of Model/Decl.v against the ledger of Spec/Provided.v. *)
From Coq Require Import List Arith Bool Lia.
Import ListNotations.
From ZI Require Import Lib.Util Model.Decl Spec.Provided.

(* ------------------------------------------------------------------ lists *)

Definition same (a b : list nat) : Prop := forall x, In x a <-> In x b.

Lemma same_refl a : same a a.
Proof. intro; tauto. Qed.
Lemma same_sym a b : same a b -> same b a.
Proof. intros H x; specialize (H x); tauto. Qed.
Lemma same_trans a b c : same a b -> same b c -> same a c.
Proof. intros H1 H2 x; specialize (H1 x); specialize (H2 x); tauto. Qed.
Lemma same_app a a' b b' : same a a' -> same b b' -> same (a ++ b) (a' ++ b').
Proof. intros H1 H2 x; rewrite !in_app_iff, (H1 x), (H2 x); tauto. Qed.
Lemma same_incl a b : same a b -> incl a b.
Proof. intros H x; apply H. Qed.

Lemma same_flat_map (F F' : nat -> list nat) l :
  (forall b, In b l -> same (F b) (F' b)) -> same (flat_map F l) (flat_map F' l).
Proof.
  intros H x; rewrite !in_flat_map; split; intros [b [Hb Hx]]; exists b; split; auto; apply (H b Hb); auto.
Qed.

Lemma same_flat_map_arg (F : nat -> list nat) l l' : same l l' -> same (flat_map F l) (flat_map F l').
Proof.
  intros H x; rewrite !in_flat_map; split; intros [b [Hb Hx]]; exists b; split; auto; apply H; auto.
Qed.

Lemma mem_nat_same x a b : same a b -> mem_nat x a = mem_nat x b.
Proof.
  intros H. destruct (mem_nat x a) eqn:Ea, (mem_nat x b) eqn:Eb; auto.
  - apply mem_nat_In in Ea. apply H in Ea. apply mem_nat_In in Ea. congruence.
  - apply mem_nat_In in Eb. apply H in Eb. apply mem_nat_In in Eb. congruence.
Qed.

Lemma mem_nat_false x l : mem_nat x l = false <-> ~ In x l.
Proof. rewrite <- mem_nat_In. destruct (mem_nat x l); split; congruence. Qed.

Lemma same_filter (p q : nat -> bool) l l' :
  (forall x, p x = q x) -> same l l' -> same (filter p l) (filter q l').
Proof. intros Hp H x; rewrite !filter_In, (Hp x), (H x); tauto. Qed.

Lemma In_dedup x l : In x (dedup l) <-> In x l.
Proof.
  induction l as [|y l IH]; cbn [dedup]; [tauto|].
  cbn [In]. rewrite filter_In, IH, negb_true_iff, Nat.eqb_neq.
  destruct (Nat.eq_dec y x); [subst; tauto|]. split; [tauto|]. intros [H|H]; auto.
Qed.

Lemma same_dedup l : same (dedup l) l.
Proof. intro x; apply In_dedup. Qed.

Lemma length_upd {A} (l : list A) n x : length (upd l n x) = length l.
Proof. revert n; induction l as [|h t IH]; intros [|n]; cbn; auto. Qed.

Lemma nth_error_upd_eq {A} (l : list A) n x : n < length l -> nth_error (upd l n x) n = Some x.
Proof. revert n; induction l as [|h t IH]; intros [|n] H; cbn in *; try lia; auto. apply IH; lia. Qed.

Lemma nth_error_upd_ne {A} (l : list A) n m x : n <> m -> nth_error (upd l n x) m = nth_error l m.
Proof.
  revert n m; induction l as [|h t IH]; intros [|n] [|m] H; cbn; auto; try congruence.
Qed.

Lemma upd_upd {A} (l : list A) n x y : upd (upd l n x) n y = upd l n y.
Proof. revert n; induction l as [|h t IH]; intros [|n]; cbn; auto. f_equal; auto. Qed.

Lemma nth_error_upd_inv {A} (l : list A) n m x r :
  nth_error (upd l n x) m = Some r -> (n = m /\ r = x /\ n < length l) \/ (n <> m /\ nth_error l m = Some r).
Proof.
  intros H. destruct (Nat.eq_dec n m) as [->|Hn].
  - left. assert (m < length l).
    { apply nth_error_Some. intro E. assert (m < length (upd l m x)) by (apply nth_error_Some; congruence).
      rewrite length_upd in *. apply nth_error_None in E. lia. }
    rewrite nth_error_upd_eq in H by auto. inversion H; auto.
  - right. rewrite nth_error_upd_ne in H; auto.
Qed.

Lemma nth_error_lt {A} (l : list A) n r : nth_error l n = Some r -> n < length l.
Proof. intro H; apply nth_error_Some; congruence. Qed.

Lemma Forall2_nth_l {A B} (P : A -> B -> Prop) l l' n a :
  Forall2 P l l' -> nth_error l n = Some a -> exists b, nth_error l' n = Some b /\ P a b.
Proof.
  intros H; revert n; induction H; intros [|n] E; cbn in *; try discriminate.
  - inversion E; subst; eauto.
  - eauto.
Qed.

Lemma Forall2_nth_r {A B} (P : A -> B -> Prop) l l' n b :
  Forall2 P l l' -> nth_error l' n = Some b -> exists a, nth_error l n = Some a /\ P a b.
Proof.
  intros H; revert n; induction H; intros [|n] E; cbn in *; try discriminate.
  - inversion E; subst; eauto.
  - eauto.
Qed.

Lemma F2_length {A B} (P : A -> B -> Prop) l l' : Forall2 P l l' -> length l = length l'.
Proof. induction 1; cbn; auto. Qed.

Lemma Forall2_nth_none {A B} (P : A -> B -> Prop) l l' n :
  Forall2 P l l' -> nth_error l n = None -> nth_error l' n = None.
Proof.
  intros H E. apply nth_error_None. apply nth_error_None in E. rewrite <- (F2_length _ _ _ H). auto.
Qed.

Lemma Forall2_upd {A B} (P : A -> B -> Prop) l l' n a b :
  Forall2 P l l' -> P a b -> Forall2 P (upd l n a) (upd l' n b).
Proof.
  intros H Hab; revert n; induction H; intros [|n]; cbn; auto.
Qed.

(* ------------------------------------------------------------------ closure = reachability *)

Inductive Reach (g : igraph) : iface -> iface -> Prop :=
| Reach_refl : forall x, Reach g x x
| Reach_step : forall x b y, In b (ibases g x) -> Reach g b y -> Reach g x y.

Lemma up_sound g f : forall x y, In y (up g f x) -> Reach g x y.
Proof.
  induction f as [|f IH]; intros x y H; cbn [up] in H.
  - destruct H as [->|[]]. constructor.
  - destruct H as [->|H]; [constructor|].
    apply in_flat_map in H. destruct H as [b [Hb Hy]]. eapply Reach_step; eauto.
Qed.

Lemma up_head g f x : In x (up g f x).
Proof. destruct f; cbn; auto. Qed.

Lemma up_complete g : wf_igraph g -> forall x y, Reach g x y -> forall f, x <= f -> In y (up g f x).
Proof.
  intros W x y R. induction R as [x|x b y Hb R IH]; intros f Hf.
  - apply up_head.
  - pose proof (W _ _ Hb) as Hlt. destruct f as [|f]; [lia|].
    cbn [up]. right. apply in_flat_map. exists b. split; auto. apply IH. lia.
Qed.

Lemma ups_iff_reach g : wf_igraph g -> forall x y, In y (ups g x) <-> Reach g x y.
Proof.
  intros W x y. split; [apply up_sound|]. intro R. unfold ups.
  destruct (le_lt_dec x (length g)) as [H|H]; [apply up_complete; auto|].
  assert (E : ibases g x = []) by (unfold ibases; apply nth_overflow; lia).
  destruct R as [x|x b y Hb _]; [apply up_head|]. rewrite E in Hb. destruct Hb.
Qed.

Lemma wf_igraphb_ok g : wf_igraphb g = true -> wf_igraph g.
Proof.
  unfold wf_igraphb, wf_igraph, ibases. intros H i b Hb.
  rewrite forallb_forall in H.
  destruct (le_lt_dec (length g) i) as [Hi|Hi]; [rewrite nth_overflow in Hb by lia; destruct Hb|].
  assert (Hin : In (i, nth i g []) (combine (seq 0 (length g)) g)).
  { assert (E : nth i (combine (seq 0 (length g)) g) (0, []) = (i, nth i g [])).
    { rewrite combine_nth by (rewrite seq_length; auto). rewrite seq_nth by auto. auto. }
    rewrite <- E. apply nth_In. rewrite combine_length, seq_length. lia. }
  specialize (H _ Hin). cbn in H. rewrite forallb_forall in H. specialize (H _ Hb).
  apply Nat.ltb_lt in H. auto.
Qed.

Lemma In_closure g l x : In x (closure g l) <-> exists y, In y l /\ In x (ups g y).
Proof. unfold closure. apply in_flat_map. Qed.

Lemma closure_same g l l' : same l l' -> same (closure g l) (closure g l').
Proof. apply same_flat_map_arg. Qed.

Lemma closure_incl g l l' : incl l l' -> incl (closure g l) (closure g l').
Proof. intros H x. rewrite !In_closure. intros [y [Hy Hx]]. exists y; split; auto. Qed.

Lemma In_keepnew fl l x : In x (keepnew fl l) <-> In x l /\ ~ In x fl.
Proof. unfold keepnew. rewrite filter_In, negb_true_iff, mem_nat_false. tauto. Qed.

Lemma keepnew_same fl fl' l l' : same fl fl' -> same l l' -> same (keepnew fl l) (keepnew fl' l').
Proof. intros H1 H2 x. rewrite !In_keepnew, (H1 x), (H2 x). tauto. Qed.

Lemma keepnew_nil l : keepnew [] l = l.
Proof. unfold keepnew. induction l; cbn; auto. f_equal; auto. Qed.

(* ------------------------------------------------------------------ the ledger's impl is inheritance *)

Lemma impl_f_sound sel cs f : forall c x, In x (impl_f sel cs f c) -> Impl sel cs c x.
Proof.
  induction f as [|f IH]; intros c x H; cbn [impl_f] in H; [destruct H|].
  destruct (nth_error cs c) as [r|] eqn:E; [|destruct H].
  apply in_app_iff in H. destruct H as [H|H]; [eapply Impl_own; eauto|].
  destruct (lc_inherit r) eqn:Ei; [|destruct H].
  apply in_flat_map in H. destruct H as [b [Hb Hx]]. eapply Impl_inh; eauto.
Qed.

Lemma impl_f_complete sel cs : wf_lcs cs -> forall c x, Impl sel cs c x -> forall f, c < f -> In x (impl_f sel cs f c).
Proof.
  intros W c x H. induction H as [c r x E Hx|c r b x E Ei Hb H IH]; intros f Hf;
    (destruct f as [|f]; [lia|]); cbn [impl_f]; rewrite E; apply in_app_iff.
  - auto.
  - right. rewrite Ei. apply in_flat_map. exists b. split; auto. apply IH.
    pose proof (W _ _ _ E Hb). lia.
Qed.

Lemma impl_f_mono sel sel' cs f :
  (forall c r, nth_error cs c = Some r -> incl (sel r) (sel' r)) ->
  forall c, incl (impl_f sel cs f c) (impl_f sel' cs f c).
Proof.
  intros H. induction f as [|f IH]; intros c x Hx; cbn [impl_f] in *; auto.
  destruct (nth_error cs c) as [r|] eqn:E; auto.
  apply in_app_iff in Hx. apply in_app_iff. destruct Hx as [Hx|Hx]; [left; eapply H; eauto|right].
  destruct (lc_inherit r); auto.
  apply in_flat_map in Hx. destruct Hx as [b [Hb Hx]]. apply in_flat_map. exists b; split; auto. apply IH; auto.
Qed.

(* ledger invariants: bases precede the class; kept is a part of asked *)
Definition Kinv (L : ledger) : Prop :=
  wf_lcs (lcs L) /\
  (forall c r, nth_error (lcs L) c = Some r -> incl (lc_kept r) (lc_asked r)) /\
  (forall o r, nth_error (los L) o = Some r -> incl (lo_kept r) (lo_asked r)).

Lemma fresh_now_incl g L c l : incl (fresh_now g L c l) l.
Proof. intros x H. unfold fresh_now in H. apply filter_In in H. tauto. Qed.

Lemma Kinv_set_cls L c r r' :
  Kinv L -> nth_error (lcs L) c = Some r -> lc_bases r' = lc_bases r -> incl (lc_kept r') (lc_asked r') ->
  Kinv (lset_cls L c r').
Proof.
  intros [W [K1 K2]] E Hb Hk. unfold lset_cls. split; [|split]; cbn.
  - intros d rd b Hd Hin. apply nth_error_upd_inv in Hd. destruct Hd as [[-> [-> _]]|[_ Hd]].
    + rewrite Hb in Hin. eapply W; eauto.
    + eapply W; eauto.
  - intros d rd Hd. apply nth_error_upd_inv in Hd. destruct Hd as [[-> [-> _]]|[_ Hd]]; eauto.
  - auto.
Qed.

Lemma Kinv_set_obj L o r' :
  Kinv L -> incl (lo_kept r') (lo_asked r') -> Kinv (lset_obj L o r').
Proof.
  intros [W [K1 K2]] Hk. unfold lset_obj. split; [|split]; cbn; auto.
  intros d rd Hd. apply nth_error_upd_inv in Hd. destruct Hd as [[-> [-> _]]|[_ Hd]]; eauto.
Qed.

Lemma incl_filter_filter (p : nat -> bool) a b : incl a b -> incl (filter p a) (filter p b).
Proof. intros H x. rewrite !filter_In. intros [? ?]; split; auto. Qed.

Lemma Kinv_l_object g L t fa fk :
  Kinv L -> (forall a k, incl k a -> incl (fk k) (fa a)) -> Kinv (l_object g L t fa fk).
Proof.
  intros K H. unfold l_object. destruct t as [o|c].
  - destruct (nth_error (los L) o) as [r|] eqn:E; auto. destruct (lo_live r); auto.
    apply Kinv_set_obj; auto. cbn. intros x Hx. apply fresh_now_incl in Hx. revert x Hx.
    apply H. destruct K as [_ [_ K2]]. eauto.
  - destruct (nth_error (lcs L) c) as [r|] eqn:E; auto.
    eapply Kinv_set_cls; eauto. cbn. destruct K as [_ [K1 _]]. eauto.
Qed.

Lemma Kinv_l_declare g L c l : Kinv L -> Kinv (l_declare g L c l).
Proof.
  intros K. unfold l_declare. destruct (nth_error (lcs L) c) as [r|] eqn:E; auto.
  eapply Kinv_set_cls; eauto. cbn [lc_kept lc_asked]. destruct K as [_ [K1 _]].
  apply incl_app; [apply incl_appl; eauto|apply incl_appr; apply fresh_now_incl].
Qed.

Lemma Kinv_l_only L c l : Kinv L -> Kinv (l_only L c l).
Proof.
  intros K. unfold l_only. destruct (nth_error (lcs L) c) as [r|] eqn:E; auto.
  eapply Kinv_set_cls; eauto. cbn. apply incl_refl.
Qed.

Lemma Kinv_step g L o : Kinv L -> Kinv (lstep g L o).
Proof.
  intros K. destruct o; cbn [lstep].
  - (* NewClass *) destruct K as [W [K1 K2]]. split; [|split]; cbn; auto.
    + intros c r b Hc Hin. destruct (lt_dec c (length (lcs L))) as [Hl|Hl].
      * rewrite nth_error_app1 in Hc by auto. eapply W; eauto.
      * rewrite nth_error_app2 in Hc by lia. destruct (c - length (lcs L)) as [|k] eqn:Ek.
        -- cbn in Hc. inversion Hc; subst r. cbn in Hin. apply filter_In in Hin.
           destruct Hin as [_ Hin]. apply Nat.ltb_lt in Hin. lia.
        -- cbn in Hc. destruct k; discriminate.
    + intros c r Hc. destruct (lt_dec c (length (lcs L))) as [Hl|Hl].
      * rewrite nth_error_app1 in Hc by auto. eauto.
      * rewrite nth_error_app2 in Hc by lia. destruct (c - length (lcs L)) as [|k].
        -- cbn in Hc. inversion Hc; subst r. cbn. apply incl_refl.
        -- cbn in Hc. destruct k; discriminate.
  - (* NewInstance *) destruct (Nat.ltb c (length (lcs L))); auto.
    destruct K as [W [K1 K2]]. split; [|split]; cbn; auto.
    intros o r Ho. destruct (lt_dec o (length (los L))) as [Hl|Hl].
    + rewrite nth_error_app1 in Ho by auto. eauto.
    + rewrite nth_error_app2 in Ho by lia. destruct (o - length (los L)) as [|k].
      * cbn in Ho. inversion Ho; subst r. cbn. apply incl_refl.
      * cbn in Ho. destruct k; discriminate.
  - (* DropInstance *) destruct (nth_error (los L) o) as [r|] eqn:E; auto.
    apply Kinv_set_obj; auto. cbn. destruct K as [_ [_ K2]]. eauto.
  - (* Implementer *) apply Kinv_l_declare; auto.
  - (* ImplementerOnly *) apply Kinv_l_only; auto.
  - apply Kinv_l_declare; auto.
  - apply Kinv_l_only; auto.
  - apply Kinv_l_declare; auto.
  - apply Kinv_l_object; auto. intros; apply incl_refl.
  - apply Kinv_l_object; auto. intros a k H. apply incl_app; [apply incl_appl; auto|apply incl_appr; apply incl_refl].
  - apply Kinv_l_object; auto. intros a k H. apply incl_filter_filter; auto.
  - apply Kinv_l_object; auto. intros; apply incl_refl.
Qed.

Lemma Kinv_init : Kinv linit.
Proof.
  split; [|split]; cbn; intros c r; try (intros b); destruct c; discriminate.
Qed.

Lemma Kinv_fold g ops : forall L, Kinv L -> Kinv (fold_left (lstep g) ops L).
Proof. induction ops as [|o ops IH]; cbn; auto. intros L K. apply IH. apply Kinv_step; auto. Qed.

Lemma Kinv_lrun g ops : Kinv (lrun g ops).
Proof. apply Kinv_fold. apply Kinv_init. Qed.

Lemma lo_incl_hi_impl L c : Kinv L -> incl (impl_lo L c) (impl_hi L c).
Proof. intros [_ [K1 _]]. apply impl_f_mono. auto. Qed.

Lemma lo_incl_hi_provided g L t : Kinv L -> incl (lo_provided g L t) (hi_provided g L t).
Proof.
  intros K. apply closure_incl. unfold lo_direct, hi_direct. destruct t as [o|c].
  - destruct (nth_error (los L) o) as [r|] eqn:E; [|apply incl_refl].
    apply incl_app; [apply incl_appl|apply incl_appr; apply lo_incl_hi_impl; auto].
    destruct K as [_ [_ K2]]. eauto.
  - apply incl_refl.
Qed.

(* ------------------------------------------------------------------ model: frame lemmas *)

Lemma flat_map_ext_in {A B} (F G : A -> list B) l : (forall a, In a l -> F a = G a) -> flat_map F l = flat_map G l.
Proof.
  induction l as [|a l IH]; cbn; auto. intros H. rewrite (H a) by auto. f_equal. apply IH. auto.
Qed.

Lemma existsb_false {A} (p : A -> bool) l : existsb p l = false -> forall a, In a l -> p a = false.
Proof.
  intros H a Ha. destruct (p a) eqn:E; auto.
  assert (existsb p l = true) by (apply existsb_exists; eauto). congruence.
Qed.

Definition wf_classes (cs : list crec) : Prop :=
  forall c r b, nth_error cs c = Some r -> In b (c_bases r) -> b < c.

(* a class that does not depend on c does not see c's record at all *)
Lemma cdirect_f_upd cs c r' f : forall d,
  depends_f cs f d c = false -> cdirect_f (upd cs c r') f d = cdirect_f cs f d.
Proof.
  induction f as [|f IH]; intros d H; cbn [cdirect_f]; auto.
  cbn [depends_f] in H. apply orb_false_iff in H. destruct H as [Hne H].
  apply Nat.eqb_neq in Hne. rewrite nth_error_upd_ne by auto.
  destruct (nth_error cs d) as [r|]; auto. f_equal.
  destruct (c_inherit r); auto. cbn [andb] in H.
  apply flat_map_ext_in. intros b Hb. apply IH. eapply (existsb_false _ _ H); auto.
Qed.

Lemma existsb_ext_in {A} (p q : A -> bool) l : (forall a, In a l -> p a = q a) -> existsb p l = existsb q l.
Proof.
  induction l as [|a l IH]; cbn; auto. intros H. rewrite (H a) by auto. f_equal. apply IH. auto.
Qed.

Lemma depends_f_upd cs c r' f : forall d e,
  depends_f cs f d c = false -> depends_f (upd cs c r') f d e = depends_f cs f d e.
Proof.
  induction f as [|f IH]; intros d e H; cbn [depends_f] in *; auto.
  apply orb_false_iff in H. destruct H as [Hne H]. apply Nat.eqb_neq in Hne.
  rewrite nth_error_upd_ne by auto. apply (f_equal (orb (Nat.eqb d e))).
  destruct (nth_error cs d) as [r|]; auto. destruct (c_inherit r); auto. cbn [andb] in *.
  apply existsb_ext_in. intros b Hb. apply IH. eapply (existsb_false _ _ H); auto.
Qed.

Lemma cdirect_f_app cs r : wf_classes cs -> forall f d, d < length cs ->
  cdirect_f (cs ++ [r]) f d = cdirect_f cs f d.
Proof.
  intros W. induction f as [|f IH]; intros d Hd; cbn [cdirect_f]; auto.
  rewrite nth_error_app1 by auto. destruct (nth_error cs d) as [rd|] eqn:E; auto. f_equal.
  destruct (c_inherit rd); auto. apply flat_map_ext_in. intros b Hb. apply IH.
  pose proof (W _ _ _ E Hb). lia.
Qed.

Lemma cdirect_f_upd_same cs c r r' :
  nth_error cs c = Some r -> c_bases r' = c_bases r -> c_decl r' = c_decl r -> c_inherit r' = c_inherit r ->
  forall f d, cdirect_f (upd cs c r') f d = cdirect_f cs f d.
Proof.
  intros E Hb Hd Hi. induction f as [|f IH]; intros d; cbn [cdirect_f]; auto.
  destruct (Nat.eq_dec c d) as [->|Hne].
  - rewrite nth_error_upd_eq by (eapply nth_error_lt; eauto). rewrite E, Hb, Hd, Hi. f_equal.
    destruct (c_inherit r); auto. apply flat_map_ext_in. intros; apply IH.
  - rewrite nth_error_upd_ne by auto. destruct (nth_error cs d) as [rd|]; auto. f_equal.
    destruct (c_inherit rd); auto. apply flat_map_ext_in. intros; apply IH.
Qed.

Lemma depends_f_upd_same cs c r r' :
  nth_error cs c = Some r -> c_bases r' = c_bases r -> c_inherit r' = c_inherit r ->
  forall f d e, depends_f (upd cs c r') f d e = depends_f cs f d e.
Proof.
  intros E Hb Hi. induction f as [|f IH]; intros d e; cbn [depends_f]; auto.
  apply (f_equal (orb (Nat.eqb d e))).
  destruct (Nat.eq_dec c d) as [->|Hne].
  - rewrite nth_error_upd_eq by (eapply nth_error_lt; eauto). rewrite E, Hb, Hi.
    destruct (c_inherit r); auto. cbn [andb]. apply existsb_ext_in. intros; apply IH.
  - rewrite nth_error_upd_ne by auto. destruct (nth_error cs d) as [rd|]; auto.
    destruct (c_inherit rd); auto. cbn [andb]. apply existsb_ext_in. intros; apply IH.
Qed.

(* ------------------------------------------------------------------ model: invariant *)

Lemma key_eqb_eq k k' : key_eqb k k' = true -> k = k'.
Proof.
  destruct k as [c l], k' as [c' l']. unfold key_eqb. cbn. intros H.
  apply andb_true_iff in H. destruct H as [H1 H2]. apply Nat.eqb_eq in H1.
  apply (list_eqb_eq Nat.eqb Nat.eqb_eq) in H2. congruence.
Qed.

Lemma cache_get_some k ca v : cache_get k ca = Some v -> In (k, v) ca.
Proof.
  induction ca as [|[k' v'] ca IH]; cbn; [discriminate|].
  destruct (key_eqb k k') eqn:E.
  - intros H. inversion H; subst. apply key_eqb_eq in E. subst. auto.
  - auto.
Qed.

Record Inv (g : igraph) (st : state) : Prop := mkInv {
  inv_wf : wf_classes (classes st);
  inv_icls : forall o r, nth_error (insts st) o = Some r -> i_cls r < length (classes st);
  inv_ckey : forall k v, In (k, v) (cache st) -> fst k < length (classes st);
  (* a cache hit returns what a rebuild would return *)
  inv_fresh : forall k v, In (k, v) (cache st) -> v = keepnew (cflat g st (fst k)) (snd k) }.

Lemma Inv_init g : Inv g init.
Proof.
  split; cbn.
  - intros c r b H. destruct c; discriminate.
  - intros o r H. destruct o; discriminate.
  - intros k v [].
  - intros k v [].
Qed.

Lemma Inv_set_class g st c r r' :
  Inv g st -> nth_error (classes st) c = Some r -> c_bases r' = c_bases r -> Inv g (set_class true st c r').
Proof.
  intros [W I1 I2 I3] E Hb. unfold set_class. split; cbn [classes insts cache evict].
  - intros d rd b Hd Hin. apply nth_error_upd_inv in Hd. destruct Hd as [[-> [-> _]]|[_ Hd]].
    + rewrite Hb in Hin. eapply W; eauto.
    + eapply W; eauto.
  - intros o ro Ho. rewrite length_upd. eauto.
  - intros k v Hin. apply filter_In in Hin. rewrite length_upd. destruct Hin as [Hin _]. eauto.
  - intros k v Hin. apply filter_In in Hin. destruct Hin as [Hin Hd]. cbn [fst] in Hd.
    apply negb_true_iff in Hd. rewrite (I3 _ _ Hin). unfold cflat, cdirect. cbn [classes].
    rewrite cdirect_f_upd; auto.
Qed.

Lemma Inv_class_ordered g st c b a : Inv g st -> Inv g (class_ordered true g st c b a).
Proof.
  intros I. unfold class_ordered. destruct (nth_error (classes st) c) as [r|] eqn:E; auto.
  eapply Inv_set_class; eauto.
Qed.

Lemma Inv_class_implements g st c l : Inv g st -> Inv g (class_implements true g st c l).
Proof.
  intros I. unfold class_implements. destruct (nth_error (classes st) c) as [r|] eqn:E; auto.
  apply Inv_class_ordered; auto.
Qed.

Lemma Inv_class_only g st c l : Inv g st -> Inv g (class_only true g st c l).
Proof.
  intros I. unfold class_only. destruct (nth_error (classes st) c) as [r|] eqn:E; auto.
  apply Inv_class_ordered. eapply Inv_set_class; eauto.
Qed.

Lemma provides_spec g st d args st1 k :
  Inv g st -> provides g st d args = (st1, k) ->
  k = keepnew (cflat g st d) args /\ classes st1 = classes st /\ insts st1 = insts st /\
  (forall e, In e (cache st1) -> e = ((d, args), k) \/ In e (cache st)).
Proof.
  intros I H. unfold provides in H. destruct (cache_get (d, args) (cache st)) as [v|] eqn:E.
  - inversion H; subst. apply cache_get_some in E. rewrite (inv_fresh _ _ I _ _ E). cbn. auto.
  - inversion H; subst. cbn. repeat split; auto. intros e [<-|He]; auto.
Qed.

Lemma cflat_classes g st st' c : classes st' = classes st -> cflat g st' c = cflat g st c.
Proof. unfold cflat, cdirect. intros ->. auto. Qed.

Lemma Inv_direct_inst g st o args : Inv g st -> Inv g (direct_inst g st o args).
Proof.
  intros I. unfold direct_inst. destruct (nth_error (insts st) o) as [r|] eqn:E; auto.
  destruct (i_live r); auto. destruct (provides g st (i_cls r) args) as [st1 k] eqn:P.
  destruct (provides_spec _ _ _ _ _ _ I P) as [Hk [Hc [Hi Hca]]].
  destruct I as [W I1 I2 I3]. split; cbn [classes insts cache]; rewrite ?Hc.
  - auto.
  - intros o' r' Ho'. rewrite Hi in Ho'. apply nth_error_upd_inv in Ho'.
    destruct Ho' as [[-> [-> _]]|[_ Ho']]; cbn; eauto.
  - intros k' v Hin. apply Hca in Hin. destruct Hin as [Heq|Hin]; eauto.
    inversion Heq; subst. cbn. eauto.
  - intros k' v Hin. rewrite (cflat_classes g st) by (cbn; auto). apply Hca in Hin.
    destruct Hin as [Heq|Hin]; eauto. inversion Heq; subst. cbn. auto.
Qed.

Lemma Inv_direct_cls g st c args : Inv g st -> Inv g (direct_cls st c args).
Proof.
  intros I. unfold direct_cls. destruct (nth_error (classes st) c) as [r|] eqn:E; auto.
  destruct I as [W I1 I2 I3]. split; cbn [classes insts cache]; rewrite ?length_upd; auto.
  - intros d rd b Hd Hin. apply nth_error_upd_inv in Hd. destruct Hd as [[-> [-> _]]|[_ Hd]].
    + cbn in Hin. eapply W; eauto.
    + eapply W; eauto.
  - intros k v Hin. rewrite (I3 _ _ Hin). unfold cflat, cdirect. cbn [classes].
    erewrite cdirect_f_upd_same; eauto.
Qed.

Lemma Inv_directly g st t args : Inv g st -> Inv g (directly g st t args).
Proof. destruct t; cbn; [apply Inv_direct_inst|apply Inv_direct_cls]. Qed.

Lemma nth_error_snoc {A} (l : list A) x n r :
  nth_error (l ++ [x]) n = Some r -> (n < length l /\ nth_error l n = Some r) \/ (n = length l /\ r = x).
Proof.
  intros H. destruct (lt_dec n (length l)) as [Hl|Hl].
  - rewrite nth_error_app1 in H by auto. auto.
  - rewrite nth_error_app2 in H by lia. destruct (n - length l) as [|k] eqn:Ek.
    + cbn in H. inversion H. right. split; auto. lia.
    + cbn in H. destruct k; discriminate.
Qed.

Lemma Inv_step g st o : Inv g st -> Inv g (step true g st o).
Proof.
  intros I. destruct o; cbn [step];
    try (apply Inv_class_implements; auto); try (apply Inv_class_only; auto);
    try (apply Inv_class_ordered; auto); try (apply Inv_directly; auto).
  - (* NewClass *) destruct I as [W I1 I2 I3]. split; cbn [classes insts cache]; rewrite ?app_length; cbn [length].
    + intros c r b Hc Hin. apply nth_error_snoc in Hc. destruct Hc as [[_ Hc]|[-> ->]].
      * eapply W; eauto.
      * cbn in Hin. apply filter_In in Hin. destruct Hin as [_ Hin]. apply Nat.ltb_lt in Hin. auto.
    + intros o r Ho. apply I1 in Ho. lia.
    + intros k v Hin. apply I2 in Hin. lia.
    + intros k v Hin. rewrite (I3 _ _ Hin). unfold cflat, cdirect. cbn [classes].
      rewrite cdirect_f_app; auto. eauto.
  - (* NewInstance *) destruct (Nat.ltb c (length (classes st))) eqn:Ec; auto.
    apply Nat.ltb_lt in Ec. destruct I as [W I1 I2 I3]. split; cbn [classes insts cache]; auto.
    intros o r Ho. apply nth_error_snoc in Ho. destruct Ho as [[_ Ho]|[-> ->]]; eauto.
  - (* DropInstance *) destruct (nth_error (insts st) o) as [r|] eqn:E; auto.
    destruct I as [W I1 I2 I3]. split; cbn [classes insts cache]; auto.
    intros o' r' Ho'. apply nth_error_upd_inv in Ho'. destruct Ho' as [[-> [-> _]]|[_ Ho']]; cbn; eauto.
Qed.

Lemma Inv_fold g ops : forall st, Inv g st -> Inv g (fold_left (step true g) ops st).
Proof. induction ops as [|o ops IH]; cbn; auto. intros st I. apply IH. apply Inv_step; auto. Qed.

Lemma Inv_run g ops : Inv g (run true g ops).
Proof. apply Inv_fold. apply Inv_init. Qed.
