(* Proofs for C01: the model of Model/Decl.v against the ledger of Spec/Provided.v. *)
From Coq Require Import List Arith Bool Lia.
Import ListNotations.
From ZI Require Import Lib.Util Model.Decl Spec.Provided.

(* ------------------------------------------------------------------ lists *)

Definition same (a b : list nat) : Prop := forall x, In x a <-> In x b.

Lemma same_refl a : same a a.
Proof. intro; tauto. Qed.
Lemma same_sym a b : same a b -> same b a.
Proof. intros H x; specialize (H x); tauto. Qed.
Lemma same_trans a b c : same a b -> same b c -> same a c.
Proof. intros H1 H2 x; specialize (H1 x); specialize (H2 x); tauto. Qed.
Lemma same_app a a' b b' : same a a' -> same b b' -> same (a ++ b) (a' ++ b').
Proof. intros H1 H2 x; rewrite !in_app_iff, (H1 x), (H2 x); tauto. Qed.
Lemma same_incl a b : same a b -> incl a b.
Proof. intros H x; apply H. Qed.

Lemma same_flat_map (F F' : nat -> list nat) l :
  (forall b, In b l -> same (F b) (F' b)) -> same (flat_map F l) (flat_map F' l).
Proof.
  intros H x; rewrite !in_flat_map; split; intros [b [Hb Hx]]; exists b; split; auto; apply (H b Hb); auto.
Qed.

Lemma same_flat_map_arg (F : nat -> list nat) l l' : same l l' -> same (flat_map F l) (flat_map F l').
Proof.
  intros H x; rewrite !in_flat_map; split; intros [b [Hb Hx]]; exists b; split; auto; apply H; auto.
Qed.

Lemma mem_nat_same x a b : same a b -> mem_nat x a = mem_nat x b.
Proof.
  intros H. destruct (mem_nat x a) eqn:Ea, (mem_nat x b) eqn:Eb; auto.
  - apply mem_nat_In in Ea. apply H in Ea. apply mem_nat_In in Ea. congruence.
  - apply mem_nat_In in Eb. apply H in Eb. apply mem_nat_In in Eb. congruence.
Qed.

Lemma mem_nat_false x l : mem_nat x l = false <-> ~ In x l.
Proof. rewrite <- mem_nat_In. destruct (mem_nat x l); split; congruence. Qed.

Lemma same_filter (p q : nat -> bool) l l' :
  (forall x, p x = q x) -> same l l' -> same (filter p l) (filter q l').
Proof. intros Hp H x; rewrite !filter_In, (Hp x), (H x); tauto. Qed.

Lemma In_dedup x l : In x (dedup l) <-> In x l.
Proof.
  induction l as [|y l IH]; cbn [dedup]; [tauto|].
  cbn [In]. rewrite filter_In, IH, negb_true_iff, Nat.eqb_neq.
  destruct (Nat.eq_dec y x); [subst; tauto|]. split; [tauto|]. intros [H|H]; auto.
Qed.

Lemma same_dedup l : same (dedup l) l.
Proof. intro x; apply In_dedup. Qed.

Lemma length_upd {A} (l : list A) n x : length (upd l n x) = length l.
Proof. revert n; induction l as [|h t IH]; intros [|n]; cbn; auto. Qed.

Lemma nth_error_upd_eq {A} (l : list A) n x : n < length l -> nth_error (upd l n x) n = Some x.
Proof. revert n; induction l as [|h t IH]; intros [|n] H; cbn in *; try lia; auto. apply IH; lia. Qed.

Lemma nth_error_upd_ne {A} (l : list A) n m x : n <> m -> nth_error (upd l n x) m = nth_error l m.
Proof.
  revert n m; induction l as [|h t IH]; intros [|n] [|m] H; cbn; auto; try congruence.
Qed.

Lemma upd_upd {A} (l : list A) n x y : upd (upd l n x) n y = upd l n y.
Proof. revert n; induction l as [|h t IH]; intros [|n]; cbn; auto. f_equal; auto. Qed.

Lemma nth_error_upd_inv {A} (l : list A) n m x r :
  nth_error (upd l n x) m = Some r -> (n = m /\ r = x /\ n < length l) \/ (n <> m /\ nth_error l m = Some r).
Proof.
  intros H. destruct (Nat.eq_dec n m) as [->|Hn].
  - left. assert (m < length l).
    { apply nth_error_Some. intro E. assert (m < length (upd l m x)) by (apply nth_error_Some; congruence).
      rewrite length_upd in *. apply nth_error_None in E. lia. }
    rewrite nth_error_upd_eq in H by auto. inversion H; auto.
  - right. rewrite nth_error_upd_ne in H; auto.
Qed.

Lemma nth_error_lt {A} (l : list A) n r : nth_error l n = Some r -> n < length l.
Proof. intro H; apply nth_error_Some; congruence. Qed.

Lemma nth_error_snoc {A} (l : list A) x n r :
  nth_error (l ++ [x]) n = Some r -> (n < length l /\ nth_error l n = Some r) \/ (n = length l /\ r = x).
Proof.
  intros H. destruct (lt_dec n (length l)) as [Hl|Hl].
  - rewrite nth_error_app1 in H by auto. auto.
  - rewrite nth_error_app2 in H by lia. destruct (n - length l) as [|k] eqn:Ek.
    + cbn in H. inversion H. right. split; auto. lia.
    + cbn in H. destruct k; discriminate.
Qed.

Lemma Forall2_nth_l {A B} (P : A -> B -> Prop) l l' n a :
  Forall2 P l l' -> nth_error l n = Some a -> exists b, nth_error l' n = Some b /\ P a b.
Proof.
  intros H; revert n; induction H; intros [|n] E; cbn in *; try discriminate.
  - inversion E; subst; eauto.
  - eauto.
Qed.

Lemma Forall2_nth_r {A B} (P : A -> B -> Prop) l l' n b :
  Forall2 P l l' -> nth_error l' n = Some b -> exists a, nth_error l n = Some a /\ P a b.
Proof.
  intros H; revert n; induction H; intros [|n] E; cbn in *; try discriminate.
  - inversion E; subst; eauto.
  - eauto.
Qed.

Lemma F2_length {A B} (P : A -> B -> Prop) l l' : Forall2 P l l' -> length l = length l'.
Proof. induction 1; cbn; auto. Qed.

Lemma Forall2_nth_none {A B} (P : A -> B -> Prop) l l' n :
  Forall2 P l l' -> nth_error l n = None -> nth_error l' n = None.
Proof.
  intros H E. apply nth_error_None. apply nth_error_None in E. rewrite <- (F2_length _ _ _ H). auto.
Qed.

Lemma Forall2_upd {A B} (P : A -> B -> Prop) l l' n a b :
  Forall2 P l l' -> P a b -> Forall2 P (upd l n a) (upd l' n b).
Proof.
  intros H Hab; revert n; induction H; intros [|n]; cbn; auto.
Qed.

(* ------------------------------------------------------------------ closure = reachability *)

Inductive Reach (g : igraph) : iface -> iface -> Prop :=
| Reach_refl : forall x, Reach g x x
| Reach_step : forall x b y, In b (ibases g x) -> Reach g b y -> Reach g x y.

Lemma up_sound g f : forall x y, In y (up g f x) -> Reach g x y.
Proof.
  induction f as [|f IH]; intros x y H; cbn [up] in H.
  - destruct H as [->|[]]. constructor.
  - destruct H as [->|H]; [constructor|].
    apply in_flat_map in H. destruct H as [b [Hb Hy]]. eapply Reach_step; eauto.
Qed.

Lemma up_head g f x : In x (up g f x).
Proof. destruct f; cbn; auto. Qed.

Lemma up_complete g : wf_igraph g -> forall x y, Reach g x y -> forall f, x <= f -> In y (up g f x).
Proof.
  intros W x y R. induction R as [x|x b y Hb R IH]; intros f Hf.
  - apply up_head.
  - pose proof (W _ _ Hb) as Hlt. destruct f as [|f]; [lia|].
    cbn [up]. right. apply in_flat_map. exists b. split; auto. apply IH. lia.
Qed.

Lemma ups_iff_reach g : wf_igraph g -> forall x y, In y (ups g x) <-> Reach g x y.
Proof.
  intros W x y. split; [apply up_sound|]. intro R. unfold ups.
  destruct (le_lt_dec x (length g)) as [H|H]; [apply up_complete; auto|].
  assert (E : ibases g x = []) by (unfold ibases; apply nth_overflow; lia).
  destruct R as [x|x b y Hb _]; [apply up_head|]. rewrite E in Hb. destruct Hb.
Qed.

Lemma wf_igraphb_ok g : wf_igraphb g = true -> wf_igraph g.
Proof.
  unfold wf_igraphb, wf_igraph, ibases. intros H i b Hb.
  rewrite forallb_forall in H.
  destruct (le_lt_dec (length g) i) as [Hi|Hi]; [rewrite nth_overflow in Hb by lia; destruct Hb|].
  assert (Hin : In (i, nth i g []) (combine (seq 0 (length g)) g)).
  { assert (E : nth i (combine (seq 0 (length g)) g) (0, []) = (i, nth i g [])).
    { rewrite combine_nth by (rewrite seq_length; auto). rewrite seq_nth by auto. auto. }
    rewrite <- E. apply nth_In. rewrite combine_length, seq_length. lia. }
  specialize (H _ Hin). cbn in H. rewrite forallb_forall in H. specialize (H _ Hb).
  apply Nat.ltb_lt in H. auto.
Qed.

Lemma In_closure g l x : In x (closure g l) <-> exists y, In y l /\ In x (ups g y).
Proof. unfold closure. apply in_flat_map. Qed.

Lemma closure_same g l l' : same l l' -> same (closure g l) (closure g l').
Proof. apply same_flat_map_arg. Qed.

Lemma closure_incl g l l' : incl l l' -> incl (closure g l) (closure g l').
Proof. intros H x. rewrite !In_closure. intros [y [Hy Hx]]. exists y; split; auto. Qed.

Lemma In_keepnew fl l x : In x (keepnew fl l) <-> In x l /\ x <> 0 /\ ~ In x fl.
Proof.
  unfold keepnew, implied_by. rewrite filter_In, negb_true_iff, orb_false_iff, Nat.eqb_neq, mem_nat_false. tauto.
Qed.

Lemma keepnew_same fl fl' l l' : same fl fl' -> same l l' -> same (keepnew fl l) (keepnew fl' l').
Proof. intros H1 H2 x. rewrite !In_keepnew, (H1 x), (H2 x). tauto. Qed.

Lemma implied_by_same fl fl' x : same fl fl' -> implied_by fl x = implied_by fl' x.
Proof. intros H. unfold implied_by. rewrite (mem_nat_same x fl fl' H). auto. Qed.

Lemma same_nil_l (l : list nat) : same [] l -> l = [].
Proof. intros H. destruct l as [|x l]; auto. destruct (proj2 (H x) (or_introl eq_refl)). Qed.

Lemma is_nil_same (a b : list nat) : same a b ->
  match a with [] => true | _ => false end = match b with [] => true | _ => false end.
Proof.
  intros H. destruct a as [|x a]; [rewrite (same_nil_l _ H); auto|].
  destruct b as [|y b]; auto. destruct (proj1 (H x) (or_introl eq_refl)).
Qed.

Lemma celide_same fl fl' d d' l l' : same fl fl' -> same d d' -> same l l' ->
  same (celide fl d l) (celide fl' d' l').
Proof.
  intros H1 Hd H2 x. unfold celide. rewrite !filter_In, (H2 x), (implied_by_same _ _ x H1).
  pose proof (is_nil_same _ _ Hd) as E. destruct d, d'; try discriminate; tauto.
Qed.

Lemma filter_id_on' {A} (p : A -> bool) l : (forall x, In x l -> p x = true) -> filter p l = l.
Proof. induction l as [|x l IH]; cbn; auto. intros H. rewrite (H x) by auto. f_equal. apply IH. auto. Qed.

Lemma celide_nil l : celide [] [] l = l.
Proof.
  unfold celide. apply filter_id_on'. intros x _. unfold implied_by. cbn [mem_nat].
  destruct (Nat.eqb x 0); reflexivity.
Qed.



(* ------------------------------------------------------------------ the ledger's impl is inheritance *)

Lemma impl_f_sound sel cs f : forall c x, In x (impl_f sel cs f c) -> Impl sel cs c x.
Proof.
  induction f as [|f IH]; intros c x H; cbn [impl_f] in H; [destruct H|].
  destruct (nth_error cs c) as [r|] eqn:E; [|destruct H].
  apply in_app_iff in H. destruct H as [H|H]; [eapply Impl_own; eauto|].
  destruct (lc_inherit r) eqn:Ei; [|destruct H].
  apply in_flat_map in H. destruct H as [b [Hb Hx]]. eapply Impl_inh; eauto.
Qed.

Lemma impl_f_complete sel cs : wf_lcs cs -> forall c x, Impl sel cs c x -> forall f, c < f -> In x (impl_f sel cs f c).
Proof.
  intros W c x H. induction H as [c r x E Hx|c r b x E Ei Hb H IH]; intros f Hf;
    (destruct f as [|f]; [lia|]); cbn [impl_f]; rewrite E; apply in_app_iff.
  - auto.
  - right. rewrite Ei. apply in_flat_map. exists b. split; auto. apply IH.
    pose proof (W _ _ _ E Hb). lia.
Qed.

Lemma impl_f_mono sel sel' cs f :
  (forall c r, nth_error cs c = Some r -> incl (sel r) (sel' r)) ->
  forall c, incl (impl_f sel cs f c) (impl_f sel' cs f c).
Proof.
  intros H. induction f as [|f IH]; intros c x Hx; cbn [impl_f] in *; auto.
  destruct (nth_error cs c) as [r|] eqn:E; auto.
  apply in_app_iff in Hx. apply in_app_iff. destruct Hx as [Hx|Hx]; [left; eapply H; eauto|right].
  destruct (lc_inherit r); auto.
  apply in_flat_map in Hx. destruct Hx as [b [Hb Hx]]. apply in_flat_map. exists b; split; auto. apply IH; auto.
Qed.

(* ledger invariants: bases precede the class; kept is a part of asked *)
Definition Kinv (L : ledger) : Prop :=
  wf_lcs (lcs L) /\
  (forall c r, nth_error (lcs L) c = Some r -> incl (lc_kept r) (lc_asked r)) /\
  (forall o r, nth_error (los L) o = Some r -> incl (lo_kept r) (lo_asked r)) /\
  (forall c r, nth_error (lcs L) c = Some r -> incl (lc_okept r) (lc_oasked r)).

Lemma fresh_now_incl g L c l : incl (fresh_now g L c l) l.
Proof. intros x H. unfold fresh_now, keepnew in H. apply filter_In in H. tauto. Qed.
Lemma fresh_cls_incl g L c k l : incl (fresh_cls g L c k l) l.
Proof. intros x H. unfold fresh_cls, celide in H. apply filter_In in H. tauto. Qed.

Lemma Kinv_set_cls L c r r' :
  Kinv L -> nth_error (lcs L) c = Some r -> lc_bases r' = lc_bases r -> incl (lc_kept r') (lc_asked r') ->
  incl (lc_okept r') (lc_oasked r') ->
  Kinv (lset_cls L c r').
Proof.
  intros [W [K1 [K2 K3]]] E Hb Hk Ho. unfold lset_cls. split; [|split; [|split]]; cbn.
  - intros d rd b Hd Hin. apply nth_error_upd_inv in Hd. destruct Hd as [[-> [-> _]]|[_ Hd]].
    + rewrite Hb in Hin. eapply W; eauto.
    + eapply W; eauto.
  - intros d rd Hd. apply nth_error_upd_inv in Hd. destruct Hd as [[-> [-> _]]|[_ Hd]]; eauto.
  - auto.
  - intros d rd Hd. apply nth_error_upd_inv in Hd. destruct Hd as [[-> [-> _]]|[_ Hd]]; eauto.
Qed.

Lemma Kinv_set_obj L o r' :
  Kinv L -> incl (lo_kept r') (lo_asked r') -> Kinv (lset_obj L o r').
Proof.
  intros [W [K1 [K2 K3]]] Hk. unfold lset_obj. split; [|split; [|split]]; cbn; auto.
  intros d rd Hd. apply nth_error_upd_inv in Hd. destruct Hd as [[-> [-> _]]|[_ Hd]]; eauto.
Qed.

Lemma incl_filter_filter (p : nat -> bool) a b : incl a b -> incl (filter p a) (filter p b).
Proof. intros H x. rewrite !filter_In. intros [? ?]; split; auto. Qed.

Lemma Kinv_l_object g L t fa fk :
  Kinv L -> (forall a k, incl k a -> incl (fk k) (fa a)) -> Kinv (l_object g L t fa fk).
Proof.
  intros K H. unfold l_object. destruct t as [o|c].
  - destruct (nth_error (los L) o) as [r|] eqn:E; auto.
    destruct (lo_live r && negb (lclass_builtin L (lo_cls r))); auto.
    apply Kinv_set_obj; auto. cbn. intros x Hx. apply fresh_now_incl in Hx. revert x Hx.
    apply H. destruct K as [_ [_ [K2 _]]]. eauto.
  - destruct (nth_error (lcs L) c) as [r|] eqn:E; auto. destruct (lc_builtin r); auto.
    eapply Kinv_set_cls; eauto; cbn [lc_kept lc_asked lc_okept lc_oasked].
    + destruct K as [_ [K1 _]]. eauto.
    + intros x Hx. unfold keepnew in Hx. apply filter_In in Hx. destruct Hx as [Hx _]. revert x Hx. apply H.
      destruct K as [_ [_ [_ K3]]]. eauto.
Qed.

Lemma Kinv_l_declare g L c lh l : Kinv L -> incl l lh -> Kinv (l_declare g L c lh l).
Proof.
  intros K Hl. unfold l_declare. destruct (nth_error (lcs L) c) as [r|] eqn:E; auto.
  eapply Kinv_set_cls; eauto; cbn [lc_kept lc_asked lc_okept lc_oasked].
  - destruct K as [_ [K1 _]].
    apply incl_app; [apply incl_appl; eauto|apply incl_appr; eapply incl_tran; [apply fresh_cls_incl|auto]].
  - destruct K as [_ [_ [_ K3]]]. eauto.
Qed.

Lemma Kinv_l_only L c lh l : Kinv L -> incl l lh -> Kinv (l_only L c lh l).
Proof.
  intros K Hl. unfold l_only. destruct (nth_error (lcs L) c) as [r|] eqn:E; auto.
  eapply Kinv_set_cls; eauto; cbn [lc_kept lc_asked lc_okept lc_oasked]; auto.
  destruct K as [_ [_ [_ K3]]]. eauto.
Qed.

Lemma lo_incl_hi_impl L c : Kinv L -> incl (impl_lo L c) (impl_hi L c).
Proof. intros [_ [K1 _]]. apply impl_f_mono. auto. Qed.

Lemma lo_direct_incl_hi L t : Kinv L -> incl (lo_direct L t) (hi_direct L t).
Proof.
  intros K. unfold lo_direct, hi_direct. destruct t as [o|c].
  - destruct (nth_error (los L) o) as [r|] eqn:E; [|apply incl_refl].
    apply incl_app; [apply incl_appl|apply incl_appr; apply lo_incl_hi_impl; auto].
    destruct K as [_ [_ [K2 _]]]. eauto.
  - destruct (nth_error (lcs L) c) as [r|] eqn:E; [|apply incl_refl].
    apply incl_app; [apply incl_appl|apply incl_appr, incl_refl]. destruct K as [_ [_ [_ K3]]]. eauto.
Qed.

Lemma lo_dpb_incl_hi L t : Kinv L -> incl (lo_dpb L t) (hi_dpb L t).
Proof.
  intros K. unfold lo_dpb, hi_dpb. destruct t as [o|c].
  - destruct (nth_error (los L) o) as [r|] eqn:E; [|apply incl_refl]. destruct K as [_ [_ [K2 _]]]. eauto.
  - destruct (nth_error (lcs L) c) as [r|] eqn:E; [|apply incl_refl]. destruct K as [_ [_ [_ K3]]]. eauto.
Qed.

Lemma nargs_lo_incl_hi L l : Kinv L -> incl (nargs_lo L l) (nargs_hi L l).
Proof.
  intros K x. unfold nargs_lo, nargs_hi. rewrite !in_flat_map. intros [a [Ha Hx]]. exists a. split; auto.
  destruct a; cbn in *; auto; [eapply lo_dpb_incl_hi|eapply lo_direct_incl_hi]; eauto.
Qed.

Lemma Kinv_step g L o : Kinv L -> Kinv (lstep g L o).
Proof.
  intros K. destruct o; cbn [lstep].
  - (* NewClass *) destruct K as [W [K1 [K2 K3]]]. split; [|split; [|split]]; cbn; auto.
    + intros c r b Hc Hin. apply nth_error_snoc in Hc. destruct Hc as [[_ Hc]|[-> ->]].
      * eapply W; eauto.
      * cbn in Hin. rewrite In_dedup in Hin. apply filter_In in Hin. destruct Hin as [_ Hin]. apply Nat.ltb_lt in Hin. lia.
    + intros c r Hc. apply nth_error_snoc in Hc. destruct Hc as [[_ Hc]|[-> ->]]; eauto. cbn. apply incl_refl.
    + intros c r Hc. apply nth_error_snoc in Hc. destruct Hc as [[_ Hc]|[-> ->]]; eauto. cbn. apply incl_refl.
  - (* NewInstance *) destruct (Nat.ltb c (length (lcs L))); auto.
    destruct K as [W [K1 [K2 K3]]]. split; [|split; [|split]]; cbn; auto.
    intros o r Ho. apply nth_error_snoc in Ho. destruct Ho as [[_ Ho]|[-> ->]]; eauto. cbn. apply incl_refl.
  - (* DropInstance *) destruct (nth_error (los L) o) as [r|] eqn:E; auto.
    apply Kinv_set_obj; auto. cbn. destruct K as [_ [_ [K2 _]]]. eauto.
  - (* Implementer *) apply Kinv_l_declare; auto. apply nargs_lo_incl_hi; auto.
  - (* ImplementerOnly *) apply Kinv_l_only; auto. apply nargs_lo_incl_hi; auto.
  - apply Kinv_l_declare; auto. apply nargs_lo_incl_hi; auto.
  - apply Kinv_l_only; auto. apply nargs_lo_incl_hi; auto.
  - apply Kinv_l_declare; auto. apply incl_refl.
  - apply Kinv_l_object; auto. intros; apply nargs_lo_incl_hi; auto.
  - apply Kinv_l_object; auto. intros a k H. apply incl_app; [apply incl_appl; auto|apply incl_appr; apply nargs_lo_incl_hi; auto].
  - apply Kinv_l_object; auto. intros a k H. apply incl_filter_filter; auto.
  - apply Kinv_l_object; auto. intros; apply nargs_lo_incl_hi; auto.
Qed.

Lemma Kinv_init : Kinv linit.
Proof.
  split; [|split; [|split]]; cbn; intros c r; try (intros b); destruct c; discriminate.
Qed.

Lemma Kinv_fold g ops : forall L, Kinv L -> Kinv (fold_left (lstep g) ops L).
Proof. induction ops as [|o ops IH]; cbn; auto. intros L K. apply IH. apply Kinv_step; auto. Qed.

Lemma Kinv_lrun g ops : Kinv (lrun g ops).
Proof. apply Kinv_fold. apply Kinv_init. Qed.

Lemma lo_incl_hi_provided g L t : Kinv L -> incl (lo_provided g L t) (hi_provided g L t).
Proof. intros K. apply closure_incl. apply lo_direct_incl_hi; auto. Qed.

(* ------------------------------------------------------------------ model: frame lemmas *)

Lemma flat_map_ext_in {A B} (F G : A -> list B) l : (forall a, In a l -> F a = G a) -> flat_map F l = flat_map G l.
Proof.
  induction l as [|a l IH]; cbn; auto. intros H. rewrite (H a) by auto. f_equal. apply IH. auto.
Qed.

Lemma existsb_false {A} (p : A -> bool) l : existsb p l = false -> forall a, In a l -> p a = false.
Proof.
  intros H a Ha. destruct (p a) eqn:E; auto.
  assert (existsb p l = true) by (apply existsb_exists; eauto). congruence.
Qed.

Definition wf_classes (cs : list crec) : Prop :=
  forall c r b, nth_error cs c = Some r -> In b (c_bases r) -> b < c.

(* a class that does not depend on c does not see c's record at all *)
Lemma cdirect_f_upd cs c r' f : forall d,
  depends_f cs f d c = false -> cdirect_f (upd cs c r') f d = cdirect_f cs f d.
Proof.
  induction f as [|f IH]; intros d H; cbn [cdirect_f]; auto.
  cbn [depends_f] in H. apply orb_false_iff in H. destruct H as [Hne H].
  apply Nat.eqb_neq in Hne. rewrite nth_error_upd_ne by auto.
  destruct (nth_error cs d) as [r|]; auto. f_equal.
  destruct (c_inherit r); auto. cbn [andb] in H.
  apply flat_map_ext_in. intros b Hb. apply IH. eapply (existsb_false _ _ H); auto.
Qed.

Lemma existsb_ext_in {A} (p q : A -> bool) l : (forall a, In a l -> p a = q a) -> existsb p l = existsb q l.
Proof.
  induction l as [|a l IH]; cbn; auto. intros H. rewrite (H a) by auto. f_equal. apply IH. auto.
Qed.

Lemma depends_f_upd cs c r' f : forall d e,
  depends_f cs f d c = false -> depends_f (upd cs c r') f d e = depends_f cs f d e.
Proof.
  induction f as [|f IH]; intros d e H; cbn [depends_f] in *; auto.
  apply orb_false_iff in H. destruct H as [Hne H]. apply Nat.eqb_neq in Hne.
  rewrite nth_error_upd_ne by auto. apply (f_equal (orb (Nat.eqb d e))).
  destruct (nth_error cs d) as [r|]; auto. destruct (c_inherit r); auto. cbn [andb] in *.
  apply existsb_ext_in. intros b Hb. apply IH. eapply (existsb_false _ _ H); auto.
Qed.

Lemma cdirect_f_app cs r : wf_classes cs -> forall f d, d < length cs ->
  cdirect_f (cs ++ [r]) f d = cdirect_f cs f d.
Proof.
  intros W. induction f as [|f IH]; intros d Hd; cbn [cdirect_f]; auto.
  rewrite nth_error_app1 by auto. destruct (nth_error cs d) as [rd|] eqn:E; auto. f_equal.
  destruct (c_inherit rd); auto. apply flat_map_ext_in. intros b Hb. apply IH.
  pose proof (W _ _ _ E Hb). lia.
Qed.

Lemma cdirect_f_upd_same cs c r r' :
  nth_error cs c = Some r -> c_bases r' = c_bases r -> c_decl r' = c_decl r -> c_inherit r' = c_inherit r ->
  forall f d, cdirect_f (upd cs c r') f d = cdirect_f cs f d.
Proof.
  intros E Hb Hd Hi. induction f as [|f IH]; intros d; cbn [cdirect_f]; auto.
  destruct (Nat.eq_dec c d) as [->|Hne].
  - rewrite nth_error_upd_eq by (eapply nth_error_lt; eauto). rewrite E, Hb, Hd, Hi. f_equal.
    destruct (c_inherit r); auto. apply flat_map_ext_in. intros; apply IH.
  - rewrite nth_error_upd_ne by auto. destruct (nth_error cs d) as [rd|]; auto. f_equal.
    destruct (c_inherit rd); auto. apply flat_map_ext_in. intros; apply IH.
Qed.

Lemma depends_f_upd_same cs c r r' :
  nth_error cs c = Some r -> c_bases r' = c_bases r -> c_inherit r' = c_inherit r ->
  forall f d e, depends_f (upd cs c r') f d e = depends_f cs f d e.
Proof.
  intros E Hb Hi. induction f as [|f IH]; intros d e; cbn [depends_f]; auto.
  apply (f_equal (orb (Nat.eqb d e))).
  destruct (Nat.eq_dec c d) as [->|Hne].
  - rewrite nth_error_upd_eq by (eapply nth_error_lt; eauto). rewrite E, Hb, Hi.
    destruct (c_inherit r); auto. cbn [andb]. apply existsb_ext_in. intros; apply IH.
  - rewrite nth_error_upd_ne by auto. destruct (nth_error cs d) as [rd|]; auto.
    destruct (c_inherit rd); auto. cbn [andb]. apply existsb_ext_in. intros; apply IH.
Qed.

(* ------------------------------------------------------------------ model: invariant *)

Lemma key_eqb_eq k k' : key_eqb k k' = true -> k = k'.
Proof.
  destruct k as [c l], k' as [c' l']. unfold key_eqb. cbn. intros H.
  apply andb_true_iff in H. destruct H as [H1 H2]. apply Nat.eqb_eq in H1.
  apply (list_eqb_eq Nat.eqb Nat.eqb_eq) in H2. congruence.
Qed.

Lemma cache_get_some k ca v : cache_get k ca = Some v -> In (k, v) ca.
Proof.
  induction ca as [|[k' v'] ca IH]; cbn; [discriminate|].
  destruct (key_eqb k k') eqn:E.
  - intros H. inversion H; subst. apply key_eqb_eq in E. subst. auto.
  - auto.
Qed.

Record Inv (g : igraph) (st : state) : Prop := mkInv {
  inv_wf : wf_classes (classes st);
  inv_icls : forall o r, nth_error (insts st) o = Some r -> i_cls r < length (classes st);
  inv_ckey : forall k v, In (k, v) (cache st) -> fst k < length (classes st);
  (* a cache hit returns what a rebuild would return *)
  inv_fresh : forall k v, In (k, v) (cache st) -> v = keepnew (cflat g st (fst k)) (snd k) }.

Lemma Inv_init g : Inv g init.
Proof.
  split; cbn.
  - intros c r b H. destruct c; discriminate.
  - intros o r H. destruct o; discriminate.
  - intros k v [].
  - intros k v [].
Qed.

Lemma Inv_set_class g st c r r' :
  Inv g st -> nth_error (classes st) c = Some r -> c_bases r' = c_bases r -> Inv g (set_class true st c r').
Proof.
  intros [W I1 I2 I3] E Hb. unfold set_class. split; cbn [classes insts cache evict].
  - intros d rd b Hd Hin. apply nth_error_upd_inv in Hd. destruct Hd as [[-> [-> _]]|[_ Hd]].
    + rewrite Hb in Hin. eapply W; eauto.
    + eapply W; eauto.
  - intros o ro Ho. rewrite length_upd. eauto.
  - intros k v Hin. apply filter_In in Hin. rewrite length_upd. destruct Hin as [Hin _]. eauto.
  - intros k v Hin. apply filter_In in Hin. destruct Hin as [Hin Hd]. cbn [fst] in Hd.
    apply negb_true_iff in Hd. rewrite (I3 _ _ Hin). unfold cflat, cdirect. cbn [classes].
    rewrite cdirect_f_upd; auto.
Qed.

Lemma Inv_class_ordered g st c b a : Inv g st -> Inv g (class_ordered true g st c b a).
Proof.
  intros I. unfold class_ordered. destruct (nth_error (classes st) c) as [r|] eqn:E; auto.
  eapply Inv_set_class; eauto.
Qed.

Lemma Inv_class_implements g st c l : Inv g st -> Inv g (class_implements true g st c l).
Proof.
  intros I. unfold class_implements. destruct (nth_error (classes st) c) as [r|] eqn:E; auto.
  apply Inv_class_ordered; auto.
Qed.

Lemma Inv_set_plain g st c pl : Inv g st -> Inv g (set_plain st c pl).
Proof.
  intros I. unfold set_plain. destruct (nth_error (classes st) c) as [r|] eqn:E; auto.
  destruct I as [W I1 I2 I3]. split; cbn [classes insts cache]; rewrite ?length_upd; auto.
  - intros d rd b Hd Hin. apply nth_error_upd_inv in Hd. destruct Hd as [[-> [-> _]]|[_ Hd]].
    + cbn in Hin. eapply W; eauto.
    + eapply W; eauto.
  - intros k v Hin. rewrite (I3 _ _ Hin). unfold cflat, cdirect. cbn [classes].
    erewrite cdirect_f_upd_same; eauto.
Qed.

Lemma Inv_class_only g st c l pl : Inv g st -> Inv g (class_only true g st c l pl).
Proof.
  intros I. unfold class_only. destruct (nth_error (classes st) c) as [r|] eqn:E; auto.
  apply Inv_set_plain. apply Inv_class_ordered. eapply Inv_set_class; eauto.
Qed.

Lemma provides_spec g st d args st1 k :
  Inv g st -> provides g st d args = (st1, k) ->
  k = keepnew (cflat g st d) args /\ classes st1 = classes st /\ insts st1 = insts st /\
  (forall e, In e (cache st1) -> e = ((d, args), k) \/ In e (cache st)).
Proof.
  intros I H. unfold provides in H. destruct (cache_get (d, args) (cache st)) as [v|] eqn:E.
  - inversion H; subst. apply cache_get_some in E. rewrite (inv_fresh _ _ I _ _ E). cbn. auto.
  - inversion H; subst. cbn. repeat split; auto. intros e [<-|He]; auto.
Qed.

Lemma cflat_classes g st st' c : classes st' = classes st -> cflat g st' c = cflat g st c.
Proof. unfold cflat, cdirect. intros ->. auto. Qed.

Lemma Inv_direct_inst g st o args : Inv g st -> Inv g (direct_inst g st o args).
Proof.
  intros I. unfold direct_inst. destruct (nth_error (insts st) o) as [r|] eqn:E; auto.
  destruct (i_live r && negb (class_builtin st (i_cls r))); auto.
  destruct (provides g st (i_cls r) args) as [st1 k] eqn:P.
  destruct (provides_spec _ _ _ _ _ _ I P) as [Hk [Hc [Hi Hca]]].
  destruct I as [W I1 I2 I3]. split; cbn [classes insts cache]; rewrite ?Hc.
  - auto.
  - intros o' r' Ho'. rewrite Hi in Ho'. apply nth_error_upd_inv in Ho'.
    destruct Ho' as [[-> [-> _]]|[_ Ho']]; cbn; eauto.
  - intros k' v Hin. apply Hca in Hin. destruct Hin as [Heq|Hin]; eauto.
    inversion Heq; subst. cbn. eauto.
  - intros k' v Hin. rewrite (cflat_classes g st) by (cbn; auto). apply Hca in Hin.
    destruct Hin as [Heq|Hin]; eauto. inversion Heq; subst. cbn. auto.
Qed.

Lemma Inv_direct_cls g st c args : Inv g st -> Inv g (direct_cls g st c args).
Proof.
  intros I. unfold direct_cls. destruct (nth_error (classes st) c) as [r|] eqn:E; auto.
  destruct (c_builtin r); auto.
  destruct I as [W I1 I2 I3]. split; cbn [classes insts cache]; rewrite ?length_upd; auto.
  - intros d rd b Hd Hin. apply nth_error_upd_inv in Hd. destruct Hd as [[-> [-> _]]|[_ Hd]].
    + cbn in Hin. eapply W; eauto.
    + eapply W; eauto.
  - intros k v Hin. rewrite (I3 _ _ Hin). unfold cflat, cdirect. cbn [classes].
    erewrite cdirect_f_upd_same; eauto.
Qed.

Lemma Inv_directly g st t args : Inv g st -> Inv g (directly g st t args).
Proof. destruct t; cbn; [apply Inv_direct_inst|apply Inv_direct_cls]. Qed.

Lemma Inv_step g st o : Inv g st -> Inv g (step true g st o).
Proof.
  intros I. destruct o; cbn [step];
    try (apply Inv_class_implements; auto); try (apply Inv_class_only; auto);
    try (apply Inv_class_ordered; auto); try (apply Inv_directly; auto).
  - (* NewClass *) destruct I as [W I1 I2 I3]. split; cbn [classes insts cache]; rewrite ?app_length; cbn [length].
    + intros c r b Hc Hin. apply nth_error_snoc in Hc. destruct Hc as [[_ Hc]|[-> ->]].
      * eapply W; eauto.
      * cbn in Hin. rewrite In_dedup in Hin. apply filter_In in Hin. destruct Hin as [_ Hin]. apply Nat.ltb_lt in Hin. auto.
    + intros o r Ho. apply I1 in Ho. lia.
    + intros k v Hin. apply I2 in Hin. lia.
    + intros k v Hin. rewrite (I3 _ _ Hin). unfold cflat, cdirect. cbn [classes].
      rewrite cdirect_f_app; auto. eauto.
  - (* NewInstance *) destruct (Nat.ltb c (length (classes st))) eqn:Ec; auto.
    apply Nat.ltb_lt in Ec. destruct I as [W I1 I2 I3]. split; cbn [classes insts cache]; auto.
    intros o r Ho. apply nth_error_snoc in Ho. destruct Ho as [[_ Ho]|[-> ->]]; eauto.
  - (* DropInstance *) destruct (nth_error (insts st) o) as [r|] eqn:E; auto.
    destruct I as [W I1 I2 I3]. split; cbn [classes insts cache]; auto.
    intros o' r' Ho'. apply nth_error_upd_inv in Ho'. destruct Ho' as [[-> [-> _]]|[_ Ho']]; cbn; eauto.
Qed.

Lemma Inv_fold g ops : forall st, Inv g st -> Inv g (fold_left (step true g) ops st).
Proof. induction ops as [|o ops IH]; cbn; auto. intros st I. apply IH. apply Inv_step; auto. Qed.

Lemma Inv_run g ops : Inv g (run true g ops).
Proof. apply Inv_fold. apply Inv_init. Qed.

(* ------------------------------------------------------------------ simulation: model vs ledger *)

Definition kept_of (r : irec) : list iface := match i_prov r with Some k => k | None => [] end.

Definition crel (r : crec) (l : lcls) : Prop :=
  c_bases r = lc_bases l /\ c_inherit r = lc_inherit l /\
  same (c_decl r) (lc_kept l) /\ (same (c_cprov r) (lc_okept l) /\ meta_direct r = lc_meta l /\ c_builtin r = lc_builtin l).
Definition irel (r : irec) (l : lobj) : Prop :=
  i_cls r = lo_cls l /\ i_live r = lo_live l /\ same (kept_of r) (lo_kept l).
Definition R (st : state) (L : ledger) : Prop :=
  Forall2 crel (classes st) (lcs L) /\ Forall2 irel (insts st) (los L).

Lemma sim_direct cs ls : Forall2 crel cs ls -> forall f c, same (cdirect_f cs f c) (impl_f lc_kept ls f c).
Proof.
  intros H. induction f as [|f IH]; intros c; cbn [cdirect_f impl_f]; [apply same_refl|].
  destruct (nth_error cs c) as [r|] eqn:E.
  - destruct (Forall2_nth_l _ _ _ _ _ H E) as [l [E' [Hb [Hi [Hd _]]]]]. rewrite E'.
    apply same_app; auto. rewrite <- Hi, <- Hb. destruct (c_inherit r); [|apply same_refl].
    apply same_flat_map. intros; apply IH.
  - rewrite (Forall2_nth_none _ _ _ _ H E). apply same_refl.
Qed.

Lemma cflat_same g st L c : R st L -> same (cflat g st c) (closure g (impl_lo L c)).
Proof. intros [H _]. apply closure_same. apply sim_direct. auto. Qed.

Lemma fresh_now_keepnew g L c l : fresh_now g L c l = keepnew (closure g (impl_lo L c)) l.
Proof. reflexivity. Qed.

Lemma upd_same_id {A} (l : list A) n x : nth_error l n = Some x -> upd l n x = l.
Proof. revert n; induction l as [|h t IH]; intros [|n] H; cbn in *; try discriminate; [inversion H; auto|f_equal; auto]. Qed.

Lemma R_set_class ev st L c r' l' : R st L -> crel r' l' -> R (set_class ev st c r') (lset_cls L c l').
Proof. intros [H1 H2] H. split; cbn; auto. apply Forall2_upd; auto. Qed.

Lemma R_class_ordered g st L c b a lh l :
  R st L -> same (b ++ a) l -> R (class_ordered true g st c b a) (l_declare g L c lh l).
Proof.
  intros HR Hs. unfold class_ordered, l_declare. destruct (nth_error (classes st) c) as [r|] eqn:E.
  - destruct (Forall2_nth_l _ _ _ _ _ (proj1 HR) E) as [rl [E' [Hb [Hi [Hd Hp]]]]]. rewrite E'.
    apply R_set_class; auto.
    split; [|split; [|split]]; cbn [c_bases c_decl c_inherit c_cprov c_meta c_builtin lc_bases lc_kept lc_inherit lc_oasked lc_okept lc_meta lc_builtin]; auto.
    pose proof (celide_same _ _ _ _ _ _ (cflat_same g st L c HR) Hd Hs) as Hc.
    intro x. rewrite In_dedup, !in_app_iff. specialize (Hc x). unfold fresh_cls.
    unfold celide in Hc at 1. rewrite filter_app, in_app_iff in Hc. fold (celide (cflat g st c) (c_decl r) b) in Hc.
    fold (celide (cflat g st c) (c_decl r) a) in Hc. pose proof (Hd x). tauto.
  - rewrite (Forall2_nth_none _ _ _ _ (proj1 HR) E). auto.
Qed.

Lemma same_filter_split (p : nat -> bool) l : same (filter p l ++ filter (fun x => negb (p x)) l) l.
Proof.
  intro x. rewrite in_app_iff, !filter_In, negb_true_iff. destruct (p x); intuition congruence.
Qed.

Lemma R_class_implements g st L c l lh ll :
  R st L -> same l ll -> R (class_implements true g st c l) (l_declare g L c lh ll).
Proof.
  intros HR Hs. unfold class_implements. destruct (nth_error (classes st) c) as [r|] eqn:E.
  - apply R_class_ordered; auto. eapply same_trans; [apply same_filter_split|auto].
  - unfold l_declare. rewrite (Forall2_nth_none _ _ _ _ (proj1 HR) E). auto.
Qed.

Lemma R_set_plain st L c pl : R st L -> R (set_plain st c pl) L.
Proof.
  intros [H1 H2]. unfold set_plain. destruct (nth_error (classes st) c) as [r|] eqn:E; [|split; auto].
  split; cbn [classes insts]; auto.
  destruct (Forall2_nth_l _ _ _ _ _ H1 E) as [rl [E' Hc]].
  rewrite <- (upd_same_id (lcs L) c rl E'). apply Forall2_upd; auto.
Qed.

Lemma R_class_only g st L c l pl lh ll :
  R st L -> same l ll -> R (class_only true g st c l pl) (l_only L c lh ll).
Proof.
  intros HR Hs. unfold class_only, l_only. destruct (nth_error (classes st) c) as [r|] eqn:E;
    [apply R_set_plain|].
  - destruct (Forall2_nth_l _ _ _ _ _ (proj1 HR) E) as [rl [E' [Hb [Hi [Hd Hp]]]]]. rewrite E'.
    pose proof (nth_error_lt _ _ _ E) as Hlt.
    unfold class_ordered. cbn [set_class classes]. rewrite nth_error_upd_eq by auto.
    unfold set_class. cbn [classes insts cache]. rewrite upd_upd.
    destruct HR as [H1 H2]. split; cbn [classes insts lset_cls lcs los]; auto.
    apply Forall2_upd; auto.
    split; [|split; [|split]]; cbn [c_bases c_decl c_inherit c_cprov c_meta c_builtin lc_bases lc_kept lc_inherit lc_oasked lc_okept lc_meta lc_builtin]; auto.
    assert (Ec : cflat g (mkS (upd (classes st) c (mkC (c_bases r) [] false (c_cprov r) (c_meta r) (c_builtin r) [])) (insts st)
                              (evict true (classes st) c (cache st))) c = []).
    { unfold cflat, cdirect. cbn [classes cdirect_f]. rewrite nth_error_upd_eq by auto. reflexivity. }
    rewrite Ec. cbn [c_decl]. rewrite !celide_nil, !app_nil_r. eapply same_trans; [apply same_dedup|auto].
  - rewrite (Forall2_nth_none _ _ _ _ (proj1 HR) E). auto.
Qed.

Lemma class_builtin_R st L c : R st L -> class_builtin st c = lclass_builtin L c.
Proof.
  intros HR. unfold class_builtin, lclass_builtin. destruct (nth_error (classes st) c) as [r|] eqn:E.
  - destruct (Forall2_nth_l _ _ _ _ _ (proj1 HR) E) as [rl [E' [_ [_ [_ [_ [_ Hb]]]]]]]. rewrite E'. auto.
  - rewrite (Forall2_nth_none _ _ _ _ (proj1 HR) E). auto.
Qed.

Lemma R_direct_inst g st L o args fa fk :
  R st L -> Inv g st ->
  (forall ri rl, nth_error (insts st) o = Some ri -> nth_error (los L) o = Some rl -> same args (fk (lo_kept rl))) ->
  R (direct_inst g st o args) (l_object g L (TInst o) fa fk).
Proof.
  intros HR I Ha. unfold direct_inst, l_object. destruct (nth_error (insts st) o) as [ri|] eqn:E.
  - destruct (Forall2_nth_l _ _ _ _ _ (proj2 HR) E) as [rl [E' [Hc [Hl Hk]]]].
    rewrite E', <- Hl, <- Hc, <- (class_builtin_R st L _ HR).
    destruct (i_live ri && negb (class_builtin st (i_cls ri))); auto.
    destruct (provides g st (i_cls ri) args) as [st1 k] eqn:P.
    destruct (provides_spec _ _ _ _ _ _ I P) as [Hkk [Hcs [His _]]].
    destruct HR as [H1 H2]. split; cbn [classes insts lset_obj lcs los]; rewrite ?Hcs, ?His; auto.
    apply Forall2_upd; auto. repeat split; cbn [i_cls i_live kept_of i_prov lo_cls lo_live lo_kept]; auto; intro H.
    + rewrite fresh_now_keepnew. subst k.
      eapply (keepnew_same _ _ _ _ (cflat_same g st L (i_cls ri) (conj H1 H2)) (Ha _ _ eq_refl E')); auto.
    + rewrite fresh_now_keepnew in H. subst k.
      eapply (keepnew_same _ _ _ _ (cflat_same g st L (i_cls ri) (conj H1 H2)) (Ha _ _ eq_refl E')); auto.
  - rewrite (Forall2_nth_none _ _ _ _ (proj2 HR) E). auto.
Qed.

Lemma R_direct_cls g st L c args fa fk :
  R st L ->
  (forall rc rl, nth_error (classes st) c = Some rc -> nth_error (lcs L) c = Some rl -> same args (fk (lc_okept rl))) ->
  R (direct_cls g st c args) (l_object g L (TCls c) fa fk).
Proof.
  intros HR Ha. unfold direct_cls, l_object. destruct (nth_error (classes st) c) as [rc|] eqn:E.
  - destruct (Forall2_nth_l _ _ _ _ _ (proj1 HR) E) as [rl [E' [Hb [Hi [Hd [Hp [Hm Hbi]]]]]]]. rewrite E', <- Hbi.
    destruct (c_builtin rc) eqn:Ebi; auto.
    destruct HR as [H1 H2]. split; cbn [classes insts lset_cls lcs los]; auto.
    apply Forall2_upd; auto. split; [|split; [|split; [|split; [|split]]]]; cbn; auto.
    rewrite Hm. apply same_filter; auto. apply (Ha _ _ eq_refl E').
  - rewrite (Forall2_nth_none _ _ _ _ (proj1 HR) E). auto.
Qed.

Lemma dpb_same st L t :
  R st L -> same (dpb st t) (lo_dpb L t).
Proof.
  intros HR. unfold dpb, lo_dpb. destruct t as [o|c].
  - destruct (nth_error (insts st) o) as [ri|] eqn:E.
    + destruct (Forall2_nth_l _ _ _ _ _ (proj2 HR) E) as [rl [E' [_ [_ Hk]]]]. rewrite E'.
      unfold kept_of in Hk. destruct (i_prov ri); auto. eapply same_trans; [apply same_dedup|auto].
    + rewrite (Forall2_nth_none _ _ _ _ (proj2 HR) E). apply same_refl.
  - destruct (nth_error (classes st) c) as [rc|] eqn:E.
    + destruct (Forall2_nth_l _ _ _ _ _ (proj1 HR) E) as [rl [E' [_ [_ [_ [Hp _]]]]]]. rewrite E'.
      eapply same_trans; [apply same_dedup|auto].
    + rewrite (Forall2_nth_none _ _ _ _ (proj1 HR) E). apply same_refl.
Qed.

Lemma R_directly g st L t fa fk (args : list iface) :
  R st L -> Inv g st -> same args (fk (lo_dpb L t)) ->
  R (directly g st t args) (l_object g L t fa fk).
Proof.
  intros HR I Hk. destruct t as [o|c]; cbn [directly].
  - apply R_direct_inst; auto. intros ri rl E E'. unfold lo_dpb in Hk. rewrite E' in Hk. auto.
  - apply R_direct_cls; auto. intros rc rl E E'. unfold lo_dpb in Hk. rewrite E' in Hk. auto.
Qed.

Lemma spec_direct_same st L t : R st L -> same (spec_direct st t) (lo_direct L t).
Proof.
  intros HR. unfold spec_direct, lo_direct. destruct t as [o|c].
  - destruct (nth_error (insts st) o) as [ri|] eqn:E.
    + destruct (Forall2_nth_l _ _ _ _ _ (proj2 HR) E) as [rl [E' [Hc [_ Hk]]]]. rewrite E', <- Hc.
      pose proof (sim_direct _ _ (proj1 HR) (S (i_cls ri)) (i_cls ri)) as Hs.
      unfold kept_of in Hk. destruct (i_prov ri).
      * apply same_app; auto.
      * intro x. rewrite in_app_iff. specialize (Hk x). specialize (Hs x). cbn in Hk.
        unfold cdirect, impl_lo. tauto.
    + rewrite (Forall2_nth_none _ _ _ _ (proj2 HR) E). apply same_refl.
  - destruct (nth_error (classes st) c) as [rc|] eqn:E.
    + destruct (Forall2_nth_l _ _ _ _ _ (proj1 HR) E) as [rl [E' [_ [_ [_ [Hp [Hm _]]]]]]]. rewrite E', Hm.
      apply same_app; auto. apply same_refl.
    + rewrite (Forall2_nth_none _ _ _ _ (proj1 HR) E). apply same_refl.
Qed.

Lemma nargs_same st L l : R st L -> same (nargs st l) (nargs_lo L l).
Proof.
  intros HR x. unfold nargs, nargs_lo. rewrite !in_flat_map.
  assert (H : forall a, same (narg st a) (narg_lo L a)).
  { intros a. destruct a; cbn [narg narg_lo].
    - apply same_refl.
    - apply dpb_same; auto.
    - eapply same_trans; [apply same_dedup|apply spec_direct_same; auto]. }
  split; intros [a [Ha Hx]]; exists a; split; auto; apply (H a); auto.
Qed.

Lemma R_step g st L o : R st L -> Inv g st -> R (step true g st o) (lstep g L o).
Proof.
  intros HR I. pose proof (fun l => nargs_same st L l HR) as Hn.
  destruct o; cbn [step lstep];
    try (apply R_class_implements; auto); try (apply R_class_only; auto).
  - (* NewClass *) destruct HR as [H1 H2]. split; cbn; auto. apply Forall2_app; auto.
    constructor; [|constructor]. rewrite (F2_length _ _ _ H1). repeat split; cbn; auto; apply same_refl.
  - (* NewInstance *) rewrite (F2_length _ _ _ (proj1 HR)).
    destruct (Nat.ltb c (length (lcs L))); auto. destruct HR as [H1 H2]. split; cbn; auto.
    apply Forall2_app; auto. constructor; [|constructor]. repeat split; cbn; auto.
  - (* DropInstance *) destruct (nth_error (insts st) o) as [ri|] eqn:E.
    + destruct (Forall2_nth_l _ _ _ _ _ (proj2 HR) E) as [rl [E' [Hc [Hl Hk]]]]. rewrite E'.
      destruct HR as [H1 H2]. split; cbn; auto. apply Forall2_upd; auto. repeat split; cbn; auto; apply Hk.
    + rewrite (Forall2_nth_none _ _ _ _ (proj2 HR) E). auto.
  - (* ClassImplementsFirst *) apply R_class_ordered; auto. apply same_refl.
  - (* DirectlyProvides *) apply R_directly; auto.
  - (* AlsoProvides *) apply R_directly; auto. apply same_app; auto. apply dpb_same; auto.
  - (* NoLongerProvides *) apply R_directly; auto. apply same_filter; auto; apply dpb_same; auto.
  - (* Provider *) apply R_directly; auto.
Qed.

Lemma R_init : R init linit.
Proof. split; constructor. Qed.

Lemma R_fold g ops : forall st L, R st L -> Inv g st ->
  R (fold_left (step true g) ops st) (fold_left (lstep g) ops L).
Proof.
  induction ops as [|o ops IH]; cbn; auto. intros st L HR I. apply IH; [apply R_step|apply Inv_step]; auto.
Qed.

Lemma R_run g ops : R (run true g ops) (lrun g ops).
Proof. apply R_fold; [apply R_init|apply Inv_init]. Qed.

(* ------------------------------------------------------------------ the model answers the lower bound *)

Lemma provided_same g st L t : R st L -> same (provided g st t) (lo_provided g L t).
Proof. intros HR. apply closure_same. apply spec_direct_same. auto. Qed.

Lemma model_is_lower_bound_lemma g ops :
  (forall t, same (provided g (run true g ops) t) (lo_provided g (lrun g ops) t)) /\
  (forall c, same (implemented g (run true g ops) c) (lo_implemented g (lrun g ops) c)) /\
  (forall t, same (dpb (run true g ops) t) (lo_dpb (lrun g ops) t)).
Proof.
  pose proof (R_run g ops) as HR. split; [|split]; intros.
  - apply provided_same; auto.
  - apply cflat_same; auto.
  - apply dpb_same; auto.
Qed.

Lemma provided_within_ledger_lemma g ops :
  (forall t, admissible (lo_provided g (lrun g ops) t) (hi_provided g (lrun g ops) t)
                        (provided g (run true g ops) t)) /\
  (forall c, admissible (lo_implemented g (lrun g ops) c) (hi_implemented g (lrun g ops) c)
                        (implemented g (run true g ops) c)).
Proof.
  destruct (model_is_lower_bound_lemma g ops) as [H1 [H2 _]]. pose proof (Kinv_lrun g ops) as K.
  split; intros; split.
  - apply same_incl, same_sym, H1.
  - eapply incl_tran; [apply same_incl, H1|apply lo_incl_hi_provided; auto].
  - apply same_incl, same_sym, H2.
  - eapply incl_tran; [apply same_incl, H2|]. apply closure_incl. apply lo_incl_hi_impl; auto.
Qed.

(* ------------------------------------------------------------------ I.providedBy(ob) <-> I in providedBy(ob) *)

Lemma existsb_ext_closure g l i : existsb (fun y => ext g y i) l = true <-> In i (closure g l).
Proof.
  rewrite existsb_exists, In_closure. unfold ext.
  split; intros [y [Hy H]]; exists y; split; auto; apply mem_nat_In; auto.
Qed.

Lemma I_providedBy_iff_lemma g st :
  (forall t i, i_providedBy g st t i = true <-> i = 0 \/ In i (provided g st t)) /\
  (forall c i, i_implementedBy g st c i = true <-> i = 0 \/ In i (implemented g st c)).
Proof.
  split; intros; unfold i_providedBy, i_implementedBy; rewrite orb_true_iff, Nat.eqb_eq, existsb_ext_closure; tauto.
Qed.

(* ------------------------------------------------------------------ one-step non-interference *)

Definition cframe (c : cls) (st st' : state) : Prop :=
  insts st' = insts st /\
  (forall d, depends st d c = false -> cdirect st' d = cdirect st d /\ depends st' d c = false) /\
  (forall c', spec_direct st' (TCls c') = spec_direct st (TCls c') /\ dpb st' (TCls c') = dpb st (TCls c')).

Lemma cframe_refl c st : cframe c st st.
Proof. repeat split; auto. Qed.

Lemma cframe_trans c st1 st2 st3 : cframe c st1 st2 -> cframe c st2 st3 -> cframe c st1 st3.
Proof.
  intros [A1 [B1 C1]] [A2 [B2 C2]]. split; [congruence|split].
  - intros d Hd. destruct (B1 d Hd) as [E1 D1]. destruct (B2 d D1) as [E2 D2]. split; congruence.
  - intros c'. destruct (C1 c'), (C2 c'). split; congruence.
Qed.

Lemma cframe_set_class ev c st r r' :
  nth_error (classes st) c = Some r -> c_cprov r' = c_cprov r -> c_meta r' = c_meta r ->
  cframe c st (set_class ev st c r').
Proof.
  intros E Hp Hm. split; [reflexivity|split].
  - intros d Hd. unfold cdirect, depends, set_class in *. cbn [classes]. split.
    + apply cdirect_f_upd; auto.
    + rewrite depends_f_upd; auto.
  - intros c'. cbn [spec_direct dpb set_class classes]. destruct (Nat.eq_dec c c') as [<-|Hne].
    + rewrite nth_error_upd_eq by (eapply nth_error_lt; eauto). rewrite E. unfold meta_direct. rewrite Hp, Hm. auto.
    + rewrite nth_error_upd_ne by auto. auto.
Qed.

Lemma cframe_class_ordered ev g c st b a : cframe c st (class_ordered ev g st c b a).
Proof.
  unfold class_ordered. destruct (nth_error (classes st) c) as [r|] eqn:E; [|apply cframe_refl].
  eapply cframe_set_class; eauto.
Qed.

Lemma cframe_class_implements ev g c st l : cframe c st (class_implements ev g st c l).
Proof.
  unfold class_implements. destruct (nth_error (classes st) c) as [r|] eqn:E; [|apply cframe_refl].
  apply cframe_class_ordered.
Qed.

Lemma cframe_set_plain c st pl : cframe c st (set_plain st c pl).
Proof.
  unfold set_plain. destruct (nth_error (classes st) c) as [r|] eqn:E; [|apply cframe_refl].
  split; [reflexivity|split].
  - intros d Hd. unfold cdirect, depends in *. cbn [classes]. split.
    + apply cdirect_f_upd; auto.
    + rewrite depends_f_upd; auto.
  - intros c'. cbn [spec_direct dpb classes]. destruct (Nat.eq_dec c c') as [<-|Hne].
    + rewrite nth_error_upd_eq by (eapply nth_error_lt; eauto). rewrite E. auto.
    + rewrite nth_error_upd_ne by auto. auto.
Qed.

Lemma cframe_class_only ev g c st l pl : cframe c st (class_only ev g st c l pl).
Proof.
  unfold class_only. destruct (nth_error (classes st) c) as [r|] eqn:E; [|apply cframe_refl].
  eapply cframe_trans; [|apply cframe_set_plain].
  eapply cframe_trans; [|apply cframe_class_ordered]. eapply cframe_set_class; eauto.
Qed.

Lemma provides_frame g st d args st1 k :
  provides g st d args = (st1, k) -> classes st1 = classes st /\ insts st1 = insts st.
Proof.
  unfold provides. destruct (cache_get (d, args) (cache st)); intros H; inversion H; subst; auto.
Qed.

Lemma directly_frame g st t args :
  (forall d, cdirect (directly g st t args) d = cdirect st d) /\
  (forall t', t' <> t -> spec_direct (directly g st t args) t' = spec_direct st t' /\
                         dpb (directly g st t args) t' = dpb st t').
Proof.
  destruct t as [o|c]; cbn [directly].
  - unfold direct_inst. destruct (nth_error (insts st) o) as [r|] eqn:E; [|split; auto].
    destruct (i_live r && negb (class_builtin st (i_cls r))); [|split; auto].
    destruct (provides g st (i_cls r) args) as [st1 k] eqn:P.
    destruct (provides_frame _ _ _ _ _ _ P) as [Hc Hi].
    split.
    + intros d. unfold cdirect. cbn [classes]. rewrite Hc. auto.
    + intros [o'|c'] Hne; unfold spec_direct, dpb, cdirect; cbn [classes insts]; rewrite ?Hc, ?Hi; auto.
      rewrite nth_error_upd_ne by congruence. auto.
  - unfold direct_cls. destruct (nth_error (classes st) c) as [r|] eqn:E; [|split; auto].
    destruct (c_builtin r) eqn:Ebi; [split; auto|].
    assert (Hd : forall f d, cdirect_f (upd (classes st) c (mkC (c_bases r) (c_decl r) (c_inherit r) (keepnew (closure g (meta_direct r)) args) (c_meta r) false (c_plain r))) f d
                             = cdirect_f (classes st) f d)
      by (intros; eapply cdirect_f_upd_same; eauto).
    split.
    + intros d. unfold cdirect. cbn [classes]. apply Hd.
    + intros [o'|c'] Hne; unfold spec_direct, dpb, cdirect; cbn [classes insts].
      * split; auto. destruct (nth_error (insts st) o') as [ri|]; auto. rewrite Hd. auto.
      * rewrite nth_error_upd_ne by congruence. auto.
Qed.

Lemma non_interference_lemma ev g st o :
  (forall c, decl_class o = Some c ->
     (forall d, depends st d c = false -> implemented g (step ev g st o) d = implemented g st d) /\
     (forall o' r, nth_error (insts st) o' = Some r -> depends st (i_cls r) c = false ->
        provided g (step ev g st o) (TInst o') = provided g st (TInst o') /\
        dpb (step ev g st o) (TInst o') = dpb st (TInst o')) /\
     (forall c', provided g (step ev g st o) (TCls c') = provided g st (TCls c') /\
                 dpb (step ev g st o) (TCls c') = dpb st (TCls c'))) /\
  (forall t, decl_target o = Some t ->
     (forall d, implemented g (step ev g st o) d = implemented g st d) /\
     (forall t', t' <> t -> provided g (step ev g st o) t' = provided g st t' /\
                            dpb (step ev g st o) t' = dpb st t')).
Proof.
  split.
  - intros c Hc.
    assert (F : cframe c st (step ev g st o)).
    { destruct o; cbn in Hc; inversion Hc; subst; cbn [step];
        first [apply cframe_class_implements|apply cframe_class_only|apply cframe_class_ordered]. }
    destruct F as [Fi [Fd Fc]]. split; [|split].
    + intros d Hd. unfold implemented, cflat. rewrite (proj1 (Fd d Hd)). auto.
    + intros o' r E Hd. unfold provided, spec_direct, dpb. rewrite Fi, E.
      rewrite (proj1 (Fd _ Hd)). auto.
    + intros c'. destruct (Fc c') as [A B]. unfold provided. rewrite A. auto.
  - intros t Ht.
    assert (F : (forall d, cdirect (step ev g st o) d = cdirect st d) /\
                (forall t', t' <> t -> spec_direct (step ev g st o) t' = spec_direct st t' /\
                                       dpb (step ev g st o) t' = dpb st t')).
    { destruct o; cbn in Ht; inversion Ht; subst; cbn [step]; apply directly_frame. }
    destruct F as [Fd Ft]. split.
    + intros d. unfold implemented, cflat. rewrite Fd. auto.
    + intros t' Hne. destruct (Ft t' Hne) as [A B]. unfold provided. rewrite A. auto.
Qed.

(* ------------------------------------------------------------------ history-level non-interference
   The ledger has no state shared between instances, so what it says about instance o does
   not depend on the declaration calls made on other instances; the model answers the
   ledger's lower bound (thanks to the eviction), hence neither does the model. *)

Definition lagree (o : obj) (L L' : ledger) : Prop :=
  lcs L = lcs L' /\ length (los L) = length (los L') /\ nth_error (los L) o = nth_error (los L') o.

Lemma lagree_refl o L : lagree o L L.
Proof. repeat split; auto. Qed.

Lemma fresh_now_lcs g L L' c l : lcs L = lcs L' -> fresh_now g L c l = fresh_now g L' c l.
Proof. unfold fresh_now, impl_lo. intros ->. auto. Qed.

Lemma nth_error_upd_agree {A} (l l' : list A) n m x :
  length l = length l' -> nth_error l m = nth_error l' m -> nth_error (upd l n x) m = nth_error (upd l' n x) m.
Proof.
  intros Hl H. destruct (Nat.eq_dec n m) as [->|Hne].
  - destruct (lt_dec m (length l)) as [Hm|Hm].
    + rewrite !nth_error_upd_eq by lia. auto.
    + assert (E1 : nth_error (upd l m x) m = None) by (apply nth_error_None; rewrite length_upd; lia).
      assert (E2 : nth_error (upd l' m x) m = None) by (apply nth_error_None; rewrite length_upd; lia).
      congruence.
  - rewrite !nth_error_upd_ne by auto. auto.
Qed.

Lemma nth_error_snoc_agree {A} (l l' : list A) x m :
  length l = length l' -> nth_error l m = nth_error l' m -> nth_error (l ++ [x]) m = nth_error (l' ++ [x]) m.
Proof.
  intros Hl H. destruct (lt_dec m (length l)) as [Hm|Hm].
  - rewrite !nth_error_app1 by lia. auto.
  - rewrite !nth_error_app2 by lia. rewrite Hl. auto.
Qed.

Lemma lagree_cls_only o L L' (F : ledger -> ledger) :
  lagree o L L' ->
  (forall M, los (F M) = los M) -> (forall M M', lcs M = lcs M' -> lcs (F M) = lcs (F M')) ->
  lagree o (F L) (F L').
Proof. intros [A [B C]] H1 H2. split; [|split]; rewrite ?H1; auto. Qed.

Lemma l_declare_los g L c lh l : los (l_declare g L c lh l) = los L.
Proof. unfold l_declare. destruct (nth_error (lcs L) c); auto. Qed.
Lemma l_declare_lcs g L L' c lh l : lcs L = lcs L' -> lcs (l_declare g L c lh l) = lcs (l_declare g L' c lh l).
Proof.
  intros H. unfold l_declare. rewrite <- H. destruct (nth_error (lcs L) c); auto. cbn.
  unfold fresh_cls, impl_lo. rewrite H. auto.
Qed.
Lemma l_only_los L c lh l : los (l_only L c lh l) = los L.
Proof. unfold l_only. destruct (nth_error (lcs L) c); auto. Qed.
Lemma l_only_lcs L L' c lh l : lcs L = lcs L' -> lcs (l_only L c lh l) = lcs (l_only L' c lh l).
Proof. intros H. unfold l_only. rewrite <- H. destruct (nth_error (lcs L) c); auto. cbn. rewrite H. auto. Qed.

Lemma lagree_declare g o L L' c lh l : lagree o L L' -> lagree o (l_declare g L c lh l) (l_declare g L' c lh l).
Proof.
  intros H. apply (lagree_cls_only o L L' (fun M => l_declare g M c lh l)); auto.
  - intros; apply l_declare_los.
  - intros; apply l_declare_lcs; auto.
Qed.
Lemma lagree_only o L L' c lh l : lagree o L L' -> lagree o (l_only L c lh l) (l_only L' c lh l).
Proof.
  intros H. apply (lagree_cls_only o L L' (fun M => l_only M c lh l)); auto.
  - intros; apply l_only_los.
  - intros; apply l_only_lcs; auto.
Qed.

Lemma lagree_object_cls g o L L' c fa fk :
  lagree o L L' -> lagree o (l_object g L (TCls c) fa fk) (l_object g L' (TCls c) fa fk).
Proof.
  intros H. apply (lagree_cls_only o L L' (fun M => l_object g M (TCls c) fa fk)); auto.
  - intros M. cbn. destruct (nth_error (lcs M) c) as [r|]; auto. destruct (lc_builtin r); auto.
  - intros M M' E. cbn. rewrite <- E. destruct (nth_error (lcs M) c) as [r|]; auto.
    destruct (lc_builtin r); auto. cbn. rewrite E. auto.
Qed.

Lemma lagree_object_same g o L L' fa fk :
  lagree o L L' -> lagree o (l_object g L (TInst o) fa fk) (l_object g L' (TInst o) fa fk).
Proof.
  intros [A [B C]]. cbn [l_object]. rewrite <- C. destruct (nth_error (los L) o) as [r|] eqn:E.
  - assert (Eb : lclass_builtin L' (lo_cls r) = lclass_builtin L (lo_cls r)) by (unfold lclass_builtin; rewrite A; auto).
    rewrite Eb. destruct (lo_live r && negb (lclass_builtin L (lo_cls r))); [|repeat split; auto; congruence].
    rewrite (fresh_now_lcs g L L') by auto.
    split; [|split]; cbn; auto.
    + rewrite !length_upd. auto.
    + apply nth_error_upd_agree; auto. congruence.
  - repeat split; auto. congruence.
Qed.

Lemma lagree_object_other_l g o o1 L L' fa fk :
  o1 <> o -> lagree o L L' -> lagree o (l_object g L (TInst o1) fa fk) L'.
Proof.
  intros Hne [A [B C]]. cbn [l_object]. destruct (nth_error (los L) o1) as [r|]; [|repeat split; auto].
  destruct (lo_live r && negb (lclass_builtin L (lo_cls r))); [|repeat split; auto].
  split; [|split]; cbn; auto.
  - rewrite length_upd. auto.
  - rewrite nth_error_upd_ne by auto. auto.
Qed.

Lemma lagree_drop g o o1 L L' :
  lagree o L L' -> lagree o (lstep g L (DropInstance o1)) (lstep g L' (DropInstance o1)).
Proof.
  intros [A [B C]]. cbn [lstep]. destruct (Nat.eq_dec o1 o) as [->|Hne].
  - rewrite <- C. destruct (nth_error (los L) o) as [r|] eqn:E; [|repeat split; auto; congruence].
    split; [|split]; cbn; auto.
    + rewrite !length_upd. auto.
    + apply nth_error_upd_agree; auto. congruence.
  - assert (H1 : lagree o (match nth_error (los L) o1 with
                           | Some r => lset_obj L o1 (mkLO (lo_cls r) false (lo_asked r) (lo_kept r))
                           | None => L end) L).
    { destruct (nth_error (los L) o1); [|apply lagree_refl]. split; [|split]; cbn; auto.
      - rewrite length_upd; auto.
      - rewrite nth_error_upd_ne by auto. auto. }
    assert (H2 : lagree o L' (match nth_error (los L') o1 with
                           | Some r => lset_obj L' o1 (mkLO (lo_cls r) false (lo_asked r) (lo_kept r))
                           | None => L' end)).
    { destruct (nth_error (los L') o1); [|apply lagree_refl]. split; [|split]; cbn; auto.
      - rewrite length_upd; auto.
      - rewrite nth_error_upd_ne by auto. auto. }
    destruct H1 as [A1 [B1 C1]]. destruct H2 as [A2 [B2 C2]]. split; [|split]; congruence.
Qed.

Lemma nargs_agree o L L' l : lagree o L L' -> forallb (arg_local o) l = true ->
  nargs_lo L l = nargs_lo L' l /\ nargs_hi L l = nargs_hi L' l.
Proof.
  intros [A [B C]] Hl. unfold nargs_lo, nargs_hi. rewrite forallb_forall in Hl.
  split; apply flat_map_ext_in; intros a Ha; specialize (Hl a Ha); destruct a as [i|[o1|c1]|[o1|c1]];
    cbn [narg_lo narg_hi lo_dpb hi_dpb lo_direct hi_direct arg_local] in *; auto;
    try (apply Nat.eqb_eq in Hl; subst o1); unfold impl_lo, impl_hi; rewrite ?C, ?A; auto.
Qed.

Lemma lstep_agree_keep g o L L' p :
  lagree o L L' -> other_inst_decl o p = false -> op_local o p = true -> lagree o (lstep g L p) (lstep g L' p).
Proof.
  intros H Hp Hloc.
  assert (Hobj : forall t fa fk, (match t with TInst o' => negb (Nat.eqb o' o) | _ => false end) = false ->
                 lagree o (l_object g L t fa fk) (l_object g L' t fa fk)).
  { intros [o1|c1] fa fk Ht.
    - apply negb_false_iff, Nat.eqb_eq in Ht. subst. apply lagree_object_same; auto.
    - apply lagree_object_cls; auto. }
  unfold op_local in Hloc.
  destruct p; unfold other_inst_decl in Hp; cbn [decl_target] in Hp; cbn [op_args] in Hloc; cbn [lstep]; auto;
    try (destruct (nargs_agree o L L' l H Hloc) as [E1 E2]; rewrite <- E1, <- E2);
    try (apply lagree_declare; auto); try (apply lagree_only; auto); try (apply Hobj; auto; fail).
  - (* NewClass *) destruct H as [A [B C]]. split; [|split]; cbn; auto. rewrite A. auto.
  - (* NewInstance *) destruct H as [A [B C]]. rewrite <- A.
    destruct (Nat.ltb c (length (lcs L))); [|repeat split; auto].
    split; [|split]; cbn; auto.
    + rewrite !app_length. cbn. lia.
    + apply nth_error_snoc_agree; auto.
  - apply (lagree_drop g); auto.
Qed.

Lemma lstep_agree_skip g o L L' p :
  lagree o L L' -> other_inst_decl o p = true -> lagree o (lstep g L p) L'.
Proof.
  intros H Hp. unfold other_inst_decl in Hp.
  destruct p; cbn [decl_target] in Hp; try discriminate; destruct t as [o1|c1]; try discriminate;
    apply negb_true_iff, Nat.eqb_neq in Hp; cbn [lstep]; apply lagree_object_other_l; auto.
Qed.

Lemma lagree_fold g o ops : forall L L', lagree o L L' ->
  forallb (fun p => other_inst_decl o p || op_local o p) ops = true ->
  lagree o (fold_left (lstep g) ops L)
           (fold_left (lstep g) (filter (fun p => negb (other_inst_decl o p)) ops) L').
Proof.
  induction ops as [|p ops IH]; cbn [fold_left filter forallb]; auto. intros L L' H Hl.
  apply andb_true_iff in Hl. destruct Hl as [Hp Hl].
  destruct (other_inst_decl o p) eqn:E; cbn [negb orb] in *.
  - apply IH; auto. apply lstep_agree_skip; auto.
  - cbn [fold_left]. apply IH; auto. apply lstep_agree_keep; auto.
Qed.

Lemma lagree_lo g o L L' : lagree o L L' ->
  lo_provided g L (TInst o) = lo_provided g L' (TInst o) /\ lo_dpb L (TInst o) = lo_dpb L' (TInst o).
Proof.
  intros [A [B C]]. unfold lo_provided, lo_direct, lo_dpb, impl_lo. rewrite C, A. auto.
Qed.

Lemma history_non_interference_lemma g ops o :
  forallb (fun p => other_inst_decl o p || op_local o p) ops = true ->
  let ops' := filter (fun p => negb (other_inst_decl o p)) ops in
  same (provided g (run true g ops) (TInst o)) (provided g (run true g ops') (TInst o)) /\
  same (dpb (run true g ops) (TInst o)) (dpb (run true g ops') (TInst o)).
Proof.
  intros Hloc ops'.
  destruct (model_is_lower_bound_lemma g ops) as [H1 [_ H3]].
  destruct (model_is_lower_bound_lemma g ops') as [H1' [_ H3']].
  destruct (lagree_lo g o _ _ (lagree_fold g o ops linit linit (lagree_refl o linit) Hloc)) as [E1 E2].
  fold (lrun g ops) in E1, E2. fold ops' in E1, E2. fold (lrun g ops') in E1, E2.
  split.
  - eapply same_trans; [apply H1|]. rewrite E1. apply same_sym, H1'.
  - eapply same_trans; [apply H3|]. rewrite E2. apply same_sym, H3'.
Qed.

(* ------------------------------------------------------------------ remaining corollaries *)

Lemma cache_entries_fresh_lemma g ops d args k :
  In ((d, args), k) (cache (run true g ops)) -> k = keepnew (cflat g (run true g ops) d) args.
Proof. intros H. apply (inv_fresh _ _ (Inv_run g ops) _ _ H). Qed.

Lemma ledger_impl_is_inheritance_lemma g ops c x :
  (In x (impl_lo (lrun g ops) c) <-> Impl lc_kept (lcs (lrun g ops)) c x) /\
  (In x (impl_hi (lrun g ops) c) <-> Impl lc_asked (lcs (lrun g ops)) c x).
Proof.
  destruct (Kinv_lrun g ops) as [W _]. unfold impl_lo, impl_hi.
  split; split; try apply impl_f_sound; intro H; apply impl_f_complete; auto.
Qed.

Lemma raises_iff_lemma ev g st t x :
  raises g (step ev g st (NoLongerProvides t x)) (NoLongerProvides t x) = true <->
  x = 0 \/ In x (provided g (step ev g st (NoLongerProvides t x)) t).
Proof. cbn [raises]. apply (proj1 (I_providedBy_iff_lemma g _)). Qed.

Lemma class_instance_no_leak_lemma ev g st o :
  (forall c, decl_target o = Some (TCls c) ->
     (forall d, implemented g (step ev g st o) d = implemented g st d) /\
     (forall o', provided g (step ev g st o) (TInst o') = provided g st (TInst o') /\
                 dpb (step ev g st o) (TInst o') = dpb st (TInst o'))) /\
  (forall o1, decl_target o = Some (TInst o1) ->
     forall c, provided g (step ev g st o) (TCls c) = provided g st (TCls c) /\
               dpb (step ev g st o) (TCls c) = dpb st (TCls c)).
Proof.
  destruct (non_interference_lemma ev g st o) as [_ H]. split.
  - intros c Hc. destruct (H _ Hc) as [A B]. split; auto. intros o'. apply B. discriminate.
  - intros o1 Ho c. destruct (H _ Ho) as [_ B]. apply B. discriminate.
Qed.

(* ------------------------------------------------------------------ the fix matters *)

(* the history of finding F1: @implementer(I0) class C; a = C(); directlyProvides(a, I0);
   classImplementsOnly(C, I1); b = C(); directlyProvides(b, I0) *)
Definition f1_graph : igraph := [[]; [0]; [0]].
Definition f1_history : list op :=
  [NewClass [] None false None; Implementer 0 [AI 1]; NewInstance 0; DirectlyProvides (TInst 0) [AI 1];
   ClassImplementsOnly 0 [AI 2]; NewInstance 0; DirectlyProvides (TInst 1) [AI 1]].

Lemma stale_cache_refuted_lemma :
  exists g ops o,
    ~ incl (lo_provided g (lrun g ops) (TInst o)) (provided g (run false g ops) (TInst o)) /\
    ~ same (provided g (run false g ops) (TInst o))
           (provided g (run false g (filter (fun p => negb (other_inst_decl o p)) ops)) (TInst o)) /\
    (exists k, In ((0, [1]), k) (cache (run false g ops)) /\
               k <> keepnew (cflat g (run false g ops) 0) [1]).
Proof.
  exists f1_graph, f1_history, 1. split; [|split].
  - intro H. specialize (H 1). vm_compute in H. destruct (H (or_introl eq_refl)) as [E|[E|[]]]; discriminate.
  - intro H. specialize (H 1). vm_compute in H. destruct H as [_ H].
    destruct (H (or_introl eq_refl)) as [E|[E|[]]]; discriminate.
  - exists []. split; [vm_compute; auto|vm_compute; discriminate].
Qed.

(* ------------------------------------------------------------------ super proxies *)
Lemma incl_flat_map {A} (F G : A -> list nat) l : (forall a, incl (F a) (G a)) -> incl (flat_map F l) (flat_map G l).
Proof.
  intros H x. rewrite !in_flat_map. intros [a [Ha Hx]]. exists a. split; auto. apply (H a); auto.
Qed.

Lemma super_within_ledger_lemma g ops rest :
  incl (flat_map (lo_implemented g (lrun g ops)) rest) (super_implemented g (run true g ops) rest) /\
  incl (super_implemented g (run true g ops) rest) (flat_map (hi_implemented g (lrun g ops)) rest).
Proof.
  destruct (provided_within_ledger_lemma g ops) as [_ B]. unfold super_implemented.
  split; apply incl_flat_map; intros c; apply (B c).
Qed.
