(* C10 proofs: equivalence of the C-derived and the Python-derived model of each twin kernel of
   Model/CTwins.v, for all inputs meeting the stated (boolean / propositional) conditions, and a
   refutation with a concrete witness wherever the two texts really differ. *)
From Coq Require Import List NArith Bool ZArith Arith Lia.
Import ListNotations.
From ZI Require Import Lib.Str Lib.Util Model.Order Model.CTwins.

(* ------------------------------------------------------------------------------------------
   1. membership *)

Lemma SB_extends_eq_py_lemma slot k : c_SB_extends slot k = py_isOrExtends slot k.
Proof. destruct slot as [v|]; cbn; [destruct (contains v k)|]; reflexivity. Qed.

Lemma SB_call_eq_py_lemma slot args : c_SB_call slot args = py_spec_call slot args.
Proof.
  destruct args as [|k [|k' rest]]; try reflexivity.
  unfold c_SB_call, py_spec_call. apply SB_extends_eq_py_lemma.
Qed.

Lemma SB_providedBy_eq_py_lemma decl self : c_SB_providedBy decl self = py_spec_providedBy decl self.
Proof.
  destruct decl as [d|e]; [|reflexivity]. cbn.
  unfold c_foreign_decl_implies.
  destruct (d_is_sb d); [|reflexivity].
  destruct (d_implied d) as [v|[| | |t]]; try reflexivity.
  cbn. destruct (contains v self); reflexivity.
Qed.

(* the answers on the inputs that used to diverge *)
Lemma SB_membership_error_paths :
  (* an operand whose __hash__ raises TypeError (a list) *)
  c_SB_extends (Some (IvDict [1; 2])) (mkK 7 (Some EType)) = Raise EType /\
  (* a specification whose _implied slot was never assigned *)
  c_SB_extends None (mkK 1 None) = Raise EAttr /\
  (* _implied = None *)
  c_SB_extends (Some IvNone) (mkK 1 None) = Raise EType /\
  (* ob.__provides__ = 5: providedBy(ob) is the int, not callable, without _implied *)
  c_SB_providedBy (Ok (mkDecl false (Raise EAttr) (Raise EType))) (mkK 1 None) = Raise EType /\
  (* a callable stand-in with an empty _implied that would answer True *)
  c_SB_providedBy (Ok (mkDecl false (Ok (IvDict [])) (Ok true))) (mkK 1 None) = Ok false /\
  (* a bare SpecificationBase(): calling it is isOrExtends, which raises AttributeError *)
  c_SB_providedBy (Ok (mkDecl true (Raise EAttr) (Raise EAttr))) (mkK 1 None) = Raise EAttr.
Proof. repeat split. Qed.

(* ------------------------------------------------------------------------------------------
   2. the cached hash *)

(* the states the two implementations are in after the same calls, for a key whose tuple hash is [h] *)
Definition hash_rel (h : Z) (c : c_hstate) (p : py_hstate) : Prop :=
  ch_name_set c = ph_name_set p /\ ch_module_set c = ph_module_set p /\
  ((ch_cached c = 0%Z /\ ph_cached p = None) \/
   (ch_cached c = 0%Z /\ ph_cached p = Some 0%Z /\ h = 0%Z /\ ch_name_set c = true /\ ch_module_set c = true) \/
   (ch_cached c = h /\ h <> 0%Z /\ ph_cached p = Some h /\ ch_name_set c = true /\ ch_module_set c = true)).

Lemma hash_step h c p : hash_rel h c p ->
  fst (c_IB_hash (Ok h) c) = fst (py_hash (Ok h) p) /\
  hash_rel h (snd (c_IB_hash (Ok h) c)) (snd (py_hash (Ok h) p)).
Proof.
  intros (Hn & Hm & H).
  destruct c as [cn cm cc], p as [pn pm pc]; cbn in *. subst pn pm.
  unfold c_IB_hash, py_hash; cbn.
  destruct H as [[Hc Hp] | [(Hc & Hp & Hh & Hn' & Hm') | (Hc & Hnz & Hp & Hn' & Hm')]]; subst.
  - (* nothing cached on either side *)
    destruct cm, cn; cbn.
    + destruct (Z.eqb h 0) eqn:E.
      * apply Z.eqb_eq in E; subst h. split; [reflexivity|].
        repeat split; cbn; auto. right; left; repeat split; auto.
      * split; [reflexivity|]. apply Z.eqb_neq in E.
        repeat split; cbn; auto. right; right; repeat split; auto.
    + split; [reflexivity|]. repeat split; cbn; auto.
    + split; [reflexivity|]. repeat split; cbn; auto.
    + split; [reflexivity|]. repeat split; cbn; auto.
  - (* hash value 0: C recomputes it, Python reads its cache *)
    cbn. split; [reflexivity|]. repeat split; cbn; auto.
    right; left; repeat split; auto.
  - cbn. destruct (Z.eqb h 0) eqn:E; [apply Z.eqb_eq in E; contradiction|]. cbn.
    split; [reflexivity|]. repeat split; cbn; auto.
    right; right; repeat split; auto.
Qed.

(* an unhashable key: neither side remembers anything *)
Lemma hash_step_fail e c p : ch_cached c = 0%Z -> ph_cached p = None ->
  ch_name_set c = ph_name_set p -> ch_module_set c = ph_module_set p ->
  fst (c_IB_hash (Raise e) c) = fst (py_hash (Raise e) p) /\
  snd (c_IB_hash (Raise e) c) = c /\ snd (py_hash (Raise e) p) = p.
Proof.
  destruct c as [cn cm cc], p as [pn pm pc]; cbn. intros -> -> <- <-.
  unfold c_IB_hash, py_hash; cbn. destruct cm, cn; cbn; repeat split.
Qed.

Lemma hash_run_rel h n : forall c p, hash_rel h c p ->
  c_hash_run (Ok h) n c = py_hash_run (Ok h) n p.
Proof.
  induction n as [|n IH]; intros c p R; [reflexivity|].
  cbn [c_hash_run py_hash_run].
  destruct (hash_step h c p R) as [E R'].
  destruct (c_IB_hash (Ok h) c) as [rc c'], (py_hash (Ok h) p) as [rp p']; cbn in *.
  subst rp. f_equal. apply IH; assumption.
Qed.

Lemma hash_run_fail e n : forall c p, ch_cached c = 0%Z -> ph_cached p = None ->
  ch_name_set c = ph_name_set p -> ch_module_set c = ph_module_set p ->
  c_hash_run (Raise e) n c = py_hash_run (Raise e) n p.
Proof.
  induction n as [|n IH]; intros c p H1 H2 H3 H4; [reflexivity|].
  cbn [c_hash_run py_hash_run].
  destruct (hash_step_fail e c p H1 H2 H3 H4) as (E & Ec & Ep).
  destruct (c_IB_hash (Raise e) c) as [rc c'], (py_hash (Raise e) p) as [rp p']; cbn in *.
  subst rp c' p'. f_equal. apply IH; assumption.
Qed.

(* from a freshly initialised interface (whatever slots are set), any number of hash() calls, for
   a key that hashes to [h] or whose hashing raises *)
Lemma hash_c_eq_py_lemma th n ns ms :
  c_hash_run th n (mkCH ns ms 0) = py_hash_run th n (mkPH ns ms None).
Proof.
  destruct th as [h|e].
  - apply hash_run_rel. repeat split; cbn; auto.
  - apply hash_run_fail; reflexivity.
Qed.

(* ------------------------------------------------------------------------------------------
   3. implementedBy *)

Lemma implementedBy_c_eq_py_lemma d : cls_regular d = true -> c_implementedBy d = py_implementedBy d.
Proof.
  unfold cls_regular, c_implementedBy, py_implementedBy.
  destruct d as [sup ty dict entry builtin]; cbn.
  destruct sup; [reflexivity|].
  destruct ty.
  - destruct dict; try discriminate. intros _.
    destruct entry as [| |v [|]]; try reflexivity; destruct builtin; reflexivity.
  - intros _. destruct dict; try reflexivity.
    destruct entry as [| |v [|]]; try reflexivity; destruct builtin; reflexivity.
Qed.

(* latent: a metaclass that overrides __dict__ (the C code reads tp_dict, the Python code asks the
   attribute protocol) *)
Lemma implementedBy_metaclass_dict_refuted_lemma :
  let d := mkClsD false true (DExc 2) (ESpec 9 true) None in
  c_implementedBy d = IRet 9 /\ py_implementedBy d = IRaise 2.
Proof. split; reflexivity. Qed.

(* ------------------------------------------------------------------------------------------
   4. getObjectSpecification / providedBy *)

Lemma getObjectSpecification_c_eq_py_lemma d : c_getObjectSpecification d = py_getObjectSpecification d.
Proof. reflexivity. Qed.

Lemma providedBy_c_eq_py_lemma d : pb_regular d = true -> c_providedBy d = py_providedBy d.
Proof.
  unfold pb_regular, c_providedBy, py_providedBy.
  destruct d as [sup pb pbsb ext prov provsb cls cprov implby implself empty]; cbn.
  destruct sup; cbn; try reflexivity; try discriminate.
  intros _. destruct pb as [r|e]; cbn; [|destruct e; reflexivity].
  destruct pbsb; cbn; [reflexivity|].
  destruct ext; reflexivity.
Qed.

(* the answers on the inputs that used to diverge (value numbers: 5 = what __providedBy__ holds,
   7 = the instance's __provides__, 3 = the class, 8 = the class's __provides__,
   4 = implementedBy(class), 0 = _empty), and the one latent difference *)
Lemma providedBy_error_paths :
  (* __provides__ raises ValueError (tag 2) on the "class does not understand descriptors" path *)
  let g4 := mkObjD SupFalse (Ok 5) false ExtAttrErr (Raise (EOther 2)) false (Ok 3) (Raise EAttr) (Ok 4) (Ok 4) 0 in
  (* the class's __provides__ raises ValueError *)
  let g4' := mkObjD SupFalse (Ok 5) false ExtAttrErr (Ok 7) false (Ok 3) (Raise (EOther 2)) (Ok 4) (Ok 4) 0 in
  (* reading .extends raises ValueError *)
  let g5 := mkObjD SupFalse (Ok 5) false (ExtExc 2) (Raise EAttr) false (Ok 3) (Raise EAttr) (Ok 4) (Ok 4) 0 in
  (* __providedBy__ holds a bare SpecificationBase() (no .extends) *)
  let g6 := mkObjD SupFalse (Ok 5) true ExtAttrErr (Raise EAttr) false (Ok 3) (Raise EAttr) (Ok 4) (Ok 4) 0 in
  (* __class__ raises AttributeError while the instance has a __provides__ *)
  let g7 := mkObjD SupFalse (Ok 5) false ExtAttrErr (Ok 7) false (Raise EAttr) (Raise EAttr) (Raise EAttr) (Ok 4) 0 in
  c_providedBy g4 = Raise (EOther 2) /\ c_providedBy g4' = Raise (EOther 2) /\
  c_providedBy g5 = Raise (EOther 2) /\ c_providedBy g6 = Ok 5 /\ py_providedBy g6 = Ok 5 /\
  c_providedBy g7 = Ok 7.
Proof. repeat split. Qed.

(* latent: isinstance(ob, super) raising AttributeError leaves is_instance == -1, which is true *)
Lemma providedBy_isinstance_refuted_lemma :
  let g0 := mkObjD SupAttrErr (Ok 5) true ExtPresent (Ok 7) true (Ok 3) (Ok 8) (Ok 4) (Ok 6) 0 in
  c_providedBy g0 = Ok 6 /\ py_providedBy g0 = Ok 7.
Proof. split; reflexivity. Qed.

(* ------------------------------------------------------------------------------------------
   5. descriptors *)

Lemma OSD_descr_get_eq_py_lemma d : c_OSD_descr_get d = py_osd_get d.
Proof.
  unfold c_OSD_descr_get, py_osd_get. destruct (os_inst_none d); [reflexivity|].
  destruct (os_prov d) as [v|[| | |t]]; reflexivity.
Qed.

Lemma CPB_descr_get_eq_py_lemma d : c_CPB_descr_get d = py_cpb_get d.
Proof. reflexivity. Qed.

(* ------------------------------------------------------------------------------------------
   6. comparison with non-string names *)

Lemma pyname_eqb_cmp a b c : pyname_cmp a b = Some c -> (pyname_eqb a b = true <-> c = Eq).
Proof.
  destruct a as [x|x], b as [y|y]; cbn; try discriminate; intros H; inversion H; subst.
  - unfold str_eqb. destruct (str_cmp x y); split; congruence.
  - rewrite Nat.eqb_eq, Nat.compare_eq_iff. reflexivity.
Qed.

Lemma pyname_eqb_true_cmp a b : pyname_eqb a b = true -> pyname_cmp a b = Some Eq.
Proof.
  destruct a as [x|x], b as [y|y]; cbn; try discriminate.
  - unfold str_eqb. destruct (str_cmp x y); congruence.
  - rewrite Nat.eqb_eq. intros ->. rewrite Nat.compare_refl. reflexivity.
Qed.

(* the pair of names that decides the comparison *)
Definition deciding (n1 m1 n2 m2 : pyname) : pyname * pyname :=
  if pyname_eqb n1 n2 then (m1, m2) else (n1, n2).

Lemma richcompare_x_eq_py_lemma o n1 m1 n2 m2 :
  pyname_cmp (fst (deciding n1 m1 n2 m2)) (snd (deciding n1 m1 n2 m2)) <> None ->
  c_richcompare_x o n1 m1 n2 m2 = py_method_x o n1 m1 n2 m2.
Proof.
  unfold deciding, c_richcompare_x, py_method_x, py_compare_x, tuple_order.
  destruct (pyname_eqb n1 n2) eqn:En; cbn [fst snd]; intros H.
  - destruct (pyname_cmp m1 m2) as [c|] eqn:Ec; [|contradiction].
    pose proof (pyname_eqb_cmp m1 m2 c Ec) as Hm.
    unfold pyname_op. rewrite Ec.
    destruct (pyname_eqb m1 m2) eqn:Em.
    + assert (c = Eq) by (apply Hm; reflexivity). subst c. destruct o; reflexivity.
    + destruct c; [exfalso; assert (false = true) by (apply Hm; reflexivity); discriminate| |];
        destruct o; reflexivity.
  - destruct (pyname_cmp n1 n2) as [c|] eqn:Ec; [|contradiction].
    pose proof (pyname_eqb_cmp n1 n2 c Ec) as Hn. rewrite En in Hn.
    unfold pyname_op. rewrite Ec.
    destruct c; [exfalso; assert (false = true) by (apply Hn; reflexivity); discriminate| |];
      destruct o; reflexivity.
Qed.

Lemma richcompare_x_str_eq_py_lemma o n1 m1 n2 m2 :
  names_are_str n1 m1 n2 m2 = true -> c_richcompare_x o n1 m1 n2 m2 = py_method_x o n1 m1 n2 m2.
Proof.
  intros H. apply richcompare_x_eq_py_lemma. unfold deciding.
  destruct n1, m1, n2, m2; try discriminate.
  destruct (pyname_eqb (VStr s) (VStr s1)); cbn; discriminate.
Qed.

(* I == N() and I != N() where N().__name__ = 5: the C slot answers, the Python method raises *)
Lemma richcompare_nonstr_refuted_lemma :
  let I := [73%N] in let m := [109%N] in
  c_richcompare_x OpEq (VStr I) (VStr m) (VInt 5) (VStr m) = XBool false /\
  py_method_x OpEq (VStr I) (VStr m) (VInt 5) (VStr m) = XTypeErr /\
  c_richcompare_x OpNe (VStr I) (VStr m) (VInt 5) (VStr m) = XBool true /\
  py_method_x OpNe (VStr I) (VStr m) (VInt 5) (VStr m) = XTypeErr /\
  (* equal names, module 5 *)
  c_richcompare_x OpEq (VStr I) (VStr m) (VStr I) (VInt 5) = XBool false /\
  py_method_x OpEq (VStr I) (VStr m) (VStr I) (VInt 5) = XTypeErr.
Proof. repeat split. Qed.

(* model 6 extends the C slot of Model/Order.v (C12's model) to non-string names: on operands
   with string names that are not the same object and not None they are the same function *)
Lemma richcompare_x_extends_order o a b :
  same_obj a b = false -> has_key b = true ->
  c_richcompare o a b =
  match c_richcompare_x o (VStr (oname a)) (VStr (omodule a)) (VStr (oname b)) (VStr (omodule b)) with
  | XBool r => MBool r
  | XTypeErr => MNotImpl
  end.
Proof.
  intros Hs Hk. unfold c_richcompare, c_richcompare_x. rewrite Hs. cbn [andb].
  unfold has_key in *. destruct (okind_of b); try discriminate; cbn;
    destruct (str_eqb (oname a) (oname b)); reflexivity.
Qed.
