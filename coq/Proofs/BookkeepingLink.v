(* C09: Model/RegSys.step (the system of registries the correspondence runs) acts on each registry's
   storage exactly as the storage operations of Model/Adapter.v the theorems of Proofs/Bookkeeping.v
   are about; caches, invalidation, generations and bases never touch it. *)
From Coq Require Import List Arith Bool Lia Permutation.
Import ListNotations.
From ZI Require Import Model.Ro Model.Adapter Model.Lookup Model.RegSys Model.Bookkeeping Spec.Bookkeeping Proofs.Bookkeeping.

(* ------------------------------------------------------------------ link to Model/RegSys.step *)
Definition storage (g : reg) := (adapters g, Adapter.subscribers g, provided_cnt g, extendors g).
Definition sto (s : sys) (i : nat) := storage (rs_reg (get s i)).
Definition same_sto (s s' : sys) : Prop := forall i, sto s' i = sto s i.

Lemma same_sto_refl s : same_sto s s.
Proof. intros i; reflexivity. Qed.
Lemma same_sto_trans s1 s2 s3 : same_sto s1 s2 -> same_sto s2 s3 -> same_sto s1 s3.
Proof. intros H1 H2 i. rewrite H2, H1; auto. Qed.

Lemma length_set s : forall r x, length (set s r x) = length s.
Proof. induction s as [|y s IH]; intros [|r] x; cbn; auto. Qed.

Lemma get_set_eq s : forall r x, r < length s -> get (set s r x) r = x.
Proof.
  unfold get. induction s as [|y s IH]; intros [|r] x H; cbn in *; try lia; auto.
  apply IH. lia.
Qed.

Lemma get_set_neq s : forall r x i, i <> r -> get (set s r x) i = get s i.
Proof.
  unfold get. induction s as [|y s IH]; intros [|r] x [|i] H; cbn; auto; try congruence.
Qed.

Lemma set_oob s : forall r x, length s <= r -> set s r x = s.
Proof.
  induction s as [|y s IH]; intros [|r] x H; cbn in *; auto; try lia.
  f_equal. apply IH. lia.
Qed.

Lemma sto_set s r x i :
  sto (set s r x) i = if Nat.eqb i r && Nat.ltb r (length s) then storage (rs_reg x) else sto s i.
Proof.
  unfold sto. destruct (Nat.eqb i r) eqn:E; cbn [andb].
  - apply Nat.eqb_eq in E; subst i. destruct (Nat.ltb r (length s)) eqn:L.
    + apply Nat.ltb_lt in L. rewrite get_set_eq; auto.
    + apply Nat.ltb_ge in L. rewrite set_oob; auto.
  - apply Nat.eqb_neq in E. rewrite get_set_neq; auto.
Qed.

Lemma same_sto_set s r x : storage (rs_reg x) = sto s r -> same_sto s (set s r x).
Proof.
  intros H i. rewrite sto_set. destruct (Nat.eqb i r) eqn:E; cbn [andb]; auto.
  apply Nat.eqb_eq in E; subst. destruct (Nat.ltb r (length s)); auto.
Qed.

Lemma same_sto_upd s r f : (forall x, storage (rs_reg (f x)) = storage (rs_reg x)) -> same_sto s (upd s r f).
Proof. intros H. unfold upd. apply same_sto_set. rewrite H. reflexivity. Qed.

Lemma same_sto_fold {A} (f : sys -> A -> sys) l :
  (forall s a, same_sto s (f s a)) -> forall s, same_sto s (fold_left f l s).
Proof.
  intros H. induction l as [|a l IH]; intros s; cbn; [apply same_sto_refl|].
  eapply same_sto_trans; [apply H | apply IH].
Qed.

Lemma same_sto_refresh_ro fuel : forall s r, same_sto s (refresh_ro fuel s r).
Proof.
  induction fuel as [|f IH]; intros s r; cbn [refresh_ro]; cbv zeta.
  - apply same_sto_set. reflexivity.
  - match goal with |- context [set s r ?X] =>
      assert (H1 : same_sto s (set s r X)) by (apply same_sto_set; reflexivity) end.
    destruct (rs_flavour (get s r)); auto.
    eapply same_sto_trans; [exact H1|]. apply same_sto_fold. intros; apply IH.
Qed.

Lemma same_sto_lookup_changed b s r : same_sto s (lookup_changed b s r).
Proof.
  unfold lookup_changed. destruct (rs_flavour (get s r)).
  - apply same_sto_set. reflexivity.
  - cbv zeta. eapply same_sto_trans; [apply (same_sto_refresh_ro 0 s r)|]. apply same_sto_set. reflexivity.
Qed.

Lemma same_sto_upd_bump s r : same_sto s (upd s r bump).
Proof. apply same_sto_upd. intros x; reflexivity. Qed.

Lemma same_sto_sub_changed fuel : forall s r, same_sto s (sub_changed fuel s r).
Proof.
  induction fuel as [|f IH]; intros s r; cbn [sub_changed]; cbv zeta.
  - apply (same_sto_trans _ (upd s r bump)); [apply same_sto_upd_bump | apply same_sto_lookup_changed].
  - set (s1 := lookup_changed false (upd s r bump) r).
    assert (H1 : same_sto s s1).
    { apply (same_sto_trans _ (upd s r bump)); [apply same_sto_upd_bump | apply same_sto_lookup_changed]. }
    destruct (rs_flavour (get s1 r)); auto.
    eapply same_sto_trans; [exact H1|]. apply same_sto_fold. intros; apply IH.
Qed.

Lemma same_sto_after_bump s r : same_sto s (after_bump s r).
Proof.
  unfold after_bump. cbv zeta. set (s1 := lookup_changed false s r).
  assert (H1 : same_sto s s1) by apply same_sto_lookup_changed.
  destruct (rs_flavour (get s1 r)); auto.
  eapply same_sto_trans; [exact H1|]. apply same_sto_fold. intros; apply same_sto_sub_changed.
Qed.

Lemma same_sto_fold_cond_upd (c : nat -> bool) (g : nat -> rstate -> rstate) l :
  (forall b x, storage (rs_reg (g b x)) = storage (rs_reg x)) ->
  forall s, same_sto s (fold_left (fun acc b => if c b then acc else upd acc b (g b)) l s).
Proof.
  intros H. apply same_sto_fold. intros s b. destruct (c b); [apply same_sto_refl | apply same_sto_upd, H].
Qed.

Lemma same_sto_set_bases s r bs : same_sto s (set_bases s r bs).
Proof.
  unfold set_bases. cbv zeta.
  match goal with |- same_sto s (after_bump (upd (refresh_ro ?n (upd ?s1 r ?f) r) r bump) r) =>
    assert (H1 : same_sto s s1);
    [| apply (same_sto_trans _ s1); [exact H1|];
       apply (same_sto_trans _ (upd s1 r f)); [apply same_sto_upd; intros x; reflexivity|];
       apply (same_sto_trans _ (refresh_ro n (upd s1 r f) r)); [apply same_sto_refresh_ro|];
       apply (same_sto_trans _ (upd (refresh_ro n (upd s1 r f) r) r bump)); [apply same_sto_upd_bump|];
       apply same_sto_after_bump]
  end.
  destruct (rs_flavour (get s r)); [|apply same_sto_refl].
  eapply same_sto_trans; [apply same_sto_fold_cond_upd | apply same_sto_fold_cond_upd]; intros b x; reflexivity.
Qed.

Lemma sto_app_fresh s x i : storage (rs_reg x) = storage empty_reg -> sto (s ++ [x]) i = sto s i.
Proof.
  intros H. unfold sto, get. destruct (Nat.lt_ge_cases i (length s)) as [L|L].
  - rewrite app_nth1; auto.
  - rewrite app_nth2; auto. rewrite (nth_overflow s); auto.
    destruct (i - length s) as [|k]; cbn; auto. destruct k; auto.
Qed.

Lemma same_sto_new_reg s fl bs : same_sto s (new_reg s fl bs).
Proof.
  unfold new_reg. eapply same_sto_trans; [|apply same_sto_set_bases].
  intros i. apply sto_app_fresh. reflexivity.
Qed.

Lemma same_sto_verify s r : same_sto s (verify s r).
Proof.
  unfold verify. destruct (rs_flavour (get s r)); [apply same_sto_refl|].
  destruct (lspec_eqb _ _); [apply same_sto_refl | apply same_sto_lookup_changed].
Qed.

Section Link.
  Variable W : world.
  Variable call : value -> list nat -> option nat.

  Lemma same_sto_with_lookup {A} s r f : same_sto s (fst (@with_lookup W A s r f)).
  Proof.
    unfold with_lookup. destruct (f _ _ _ _) as [c' a]. cbn [fst].
    eapply same_sto_trans; [apply same_sto_verify|]. apply same_sto_upd. intros x; reflexivity.
  Qed.

  (* a storage mutator either leaves the registry alone or bumps the generation *)
  Lemma mutator_gen g b : b <> BRebuild -> bstep W g b = g \/ generation (bstep W g b) = S (generation g).
  Proof.
    intros NB. destruct b as [req p n v|req p n v|req p v|req p v|]; cbn [bstep]; [| | | |congruence].
    - destruct v as [v|].
      + pose proof (register_cases W g req p n v) as C; cbv zeta in C.
        destruct C as [[C _]|[C _]]; rewrite C; auto.
      + unfold register. pose proof (unregister_cases W g req p n None) as C; cbv zeta in C.
        destruct C as [[C _]|[C _]]; rewrite C; auto. right. cbn.
        destruct (provide_decr_fields W (set_ad g (adel akey_eqb (adapters g) (map conv req, p, n))) p 1) as (_ & _ & G).
        rewrite G. reflexivity.
    - pose proof (unregister_cases W g req p n v) as C; cbv zeta in C.
      destruct C as [[C _]|[C _]]; rewrite C; auto. right. cbn.
      destruct (provide_decr_fields W (set_ad g (adel akey_eqb (adapters g) (map conv req, p, n))) p 1) as (_ & _ & G).
      rewrite G. reflexivity.
    - right. rewrite subscribe_form. cbv zeta. destruct p; reflexivity.
    - pose proof (unsubscribe_cases W g req p v) as C; cbv zeta in C.
      destruct C as [[C _]|[_ C]]; rewrite C; auto. right. cbn. destruct p as [p'|]; [|reflexivity].
      match goal with |- S (generation (provide_decr W ?x p' ?k)) = _ =>
        destruct (provide_decr_fields W x p' k) as (_ & _ & G); rewrite G end.
      reflexivity.
  Qed.

  Lemma sto_mutate s r b i : b <> BRebuild ->
    sto (mutate s r (fun g => bstep W g b)) i
    = if Nat.eqb i r && Nat.ltb r (length s) then storage (bstep W (rs_reg (get s r)) b) else sto s i.
  Proof.
    intros NB. unfold mutate.
    destruct (Nat.eqb (generation (bstep W (rs_reg (get s r)) b)) (generation (rs_reg (get s r)))) eqn:E.
    - apply Nat.eqb_eq in E. destruct (mutator_gen (rs_reg (get s r)) b NB) as [H|H]; [|lia].
      rewrite H. destruct (Nat.eqb i r) eqn:Q; cbn [andb]; auto.
      apply Nat.eqb_eq in Q; subst. destruct (Nat.ltb r (length s)); auto.
    - rewrite same_sto_after_bump. apply sto_set.
  Qed.

  (* every step of the registry SYSTEM (caches, invalidation, generations, bases) acts on the storage
     of each registry exactly as the corresponding storage operation of Model/Adapter.v, or not at all *)
  Lemma regsys_step_storage s o i :
    sto (fst (step W call s o)) i
    = match as_bop o with
      | Some (r, b) => if Nat.eqb i r && Nat.ltb r (length s)
                       then storage (bstep W (rs_reg (get s r)) b) else sto s i
      | None => sto s i
      end.
  Proof.
    destruct o; cbn [step as_bop fst].
    - apply same_sto_new_reg.
    - apply same_sto_set_bases.
    - apply (sto_mutate s r (BRegister req p n v)). discriminate.
    - apply (sto_mutate s r (BUnregister req p n v)). discriminate.
    - apply (sto_mutate s r (BSubscribe req p v)). discriminate.
    - apply (sto_mutate s r (BUnsubscribe req p v)). discriminate.
    - rewrite same_sto_after_bump. apply sto_set.
    - destruct (with_lookup W s r _) as [s' a] eqn:E. cbn [fst].
      change s' with (fst (s', a)). rewrite <- E. apply same_sto_with_lookup.
    - destruct (with_lookup W s r _) as [s' a] eqn:E. cbn [fst].
      change s' with (fst (s', a)). rewrite <- E. apply same_sto_with_lookup.
    - destruct (with_lookup W s r _) as [s' a] eqn:E. cbn [fst].
      change s' with (fst (s', a)). rewrite <- E. apply same_sto_with_lookup.
    - destruct (with_lookup W s r _) as [s' a] eqn:E. cbn [fst].
      change s' with (fst (s', a)). rewrite <- E. apply same_sto_with_lookup.
    - destruct (with_lookup W s r _) as [s' a] eqn:E. cbn [fst].
      change s' with (fst (s', a)). rewrite <- E. apply same_sto_with_lookup.
    - reflexivity.
    - reflexivity.
    - reflexivity.
    - reflexivity.
    - destruct (with_lookup W s r _) as [s' a] eqn:E. cbn [fst].
      change s' with (fst (s', a)). rewrite <- E. apply same_sto_with_lookup.
    - destruct (with_lookup W s r _) as [s' a] eqn:E. cbn [fst].
      change s' with (fst (s', a)). rewrite <- E. apply same_sto_with_lookup.
    - destruct (with_lookup W s r _) as [s' a] eqn:E. cbn [fst].
      change s' with (fst (s', a)). rewrite <- E. apply same_sto_with_lookup.
    - destruct (with_lookup W s r _) as [s' a] eqn:E. cbn [fst].
      change s' with (fst (s', a)). rewrite <- E. apply same_sto_with_lookup.
  Qed.
End Link.

(* ------------------------------------------------------------------ every registry of every reachable system
   satisfies the invariant of reachable storages (so RegSys-level consumers can cite the C09 theorems
   stated for registries with [inv]) *)
Lemma inv_storage W g g' : storage g = storage g' -> inv W g -> inv W g'.
Proof.
  destruct g as [a s c e n], g' as [a' s' c' e' n']. unfold storage; cbn. intros E. inversion E; subst.
  intros [[I1 I2 I3 I4 I5] G]. split; [constructor; cbn in *; auto | intros q; apply (G q)].
Qed.

Lemma nd_storage g g' : storage g = storage g' -> nd g -> nd g'.
Proof.
  destruct g as [a s c e n], g' as [a' s' c' e' n']. unfold storage; cbn. intros E. inversion E; subst. auto.
Qed.

Section Reach.
  Variable W : world.
  Variable call : value -> list nat -> option nat.

  Lemma inv2_bstep g b : world_ok W -> inv2 W g -> inv2 W (bstep W g b).
  Proof.
    intros WOK H. destruct b; cbn [bstep].
    - apply inv2_register; auto.
    - apply inv2_unregister; auto.
    - apply inv2_subscribe; auto.
    - apply inv2_unsubscribe; auto.
    - rewrite rebuild_is_replay. apply inv2_replay; auto. repeat split.
  Qed.

  Lemma final_snoc s ops o : final W call s (ops ++ [o]) = fst (step W call (final W call s ops) o).
  Proof. unfold final. rewrite fold_left_app. reflexivity. Qed.

  Lemma regsys_reachable_inv ops : forall i,
    inv W (rs_reg (get (final W call [] ops) i))
    /\ (world_ok W -> nd (rs_reg (get (final W call [] ops) i))).
  Proof.
    induction ops as [|o ops IH] using rev_ind; intros i.
    - cbn. destruct i; (split; [apply inv_empty | intros _ j; constructor]).
    - rewrite final_snoc. set (s := final W call [] ops) in *.
      pose proof (regsys_step_storage W call s o i) as E. unfold sto in E.
      destruct (as_bop o) as [[r b]|].
      + destruct (Nat.eqb i r && Nat.ltb r (length s)).
        * destruct (IH r) as [I N]. split.
          -- eapply inv_storage; [symmetry; exact E | apply inv_bstep; auto].
          -- intros WOK. eapply nd_storage; [symmetry; exact E|]. apply (inv2_bstep _ b WOK). split; auto.
        * destruct (IH i) as [I N]. split; [eapply inv_storage; [symmetry; exact E | auto]|].
          intros WOK. eapply nd_storage; [symmetry; exact E | auto].
      + destruct (IH i) as [I N]. split; [eapply inv_storage; [symmetry; exact E | auto]|].
        intros WOK. eapply nd_storage; [symmetry; exact E | auto].
  Qed.
End Reach.
