(* The data semantics extracted from the C functions VB_clear / _generations_tuple / verify_changed /
   _verify (Gen/VerifyC.v, harness/translate/verify_c.py) equal the definitions the Python
   VerifyingBase.changed / _verify kernel (Gen/RegChainKernel.v) is proved equal to: Model/RegSys.v's
   lookup_changed / verify. *)
From Coq Require Import List Arith Bool Lia.
Import ListNotations.
From ZI Require Import Model.Ro Model.Adapter Model.Lookup Model.RegSys Model.RegPrim Model.VerifyCPrims
     Spec.RegChain Proofs.RegChain Gen.RegChainKernel Proofs.RegChainKernel Gen.VerifyC.

Lemma p_slice_tail l : p_slice l 1 (length l) = tl l.
Proof.
  unfold p_slice. destruct l as [|x l]; [reflexivity|]. cbn [length skipn tl].
  replace (S (length l) - 1) with (length l) by lia. apply firstn_all.
Qed.

Lemma upd_oob (s : sys) r f : length s <= r -> upd s r f = s.
Proof. intros. unfold upd. apply set_oob; auto. Qed.

Lemma c_generations_tuple_eq st l : gen_c_generations_tuple st l = gens (c_sys st) l.
Proof. reflexivity. Qed.

Lemma lspec_eqb_sym a b : lspec_eqb a b = lspec_eqb b a.
Proof.
  destruct (lspec_eqb a b) eqn:E.
  - apply lspec_eqb_eq in E. subst. symmetry. apply lspec_eqb_refl.
  - destruct (lspec_eqb b a) eqn:E'; auto. apply lspec_eqb_eq in E'. subst. rewrite lspec_eqb_refl in E. discriminate.
Qed.

(* verify_changed (the C VerifyingBase.changed) = the Python VerifyingBase.changed kernel; both slots end filled *)
Lemma c_verify_changed_eq st r :
  gen_c_verify_changed st r = mkCst (g_VerifyingBase_changed (c_sys st) r) false false.
Proof.
  destruct st as [s n1 n2]. unfold gen_c_verify_changed, gen_c_VB_clear, gen_c_LB_clear, pc_store_ro, pc_store_gens,
    pc_clear_slot_ro, pc_clear_slot_gens, pc_lift, pc_registry_ro. cbn [c_sys c_null_ro c_null_gens].
  f_equal. rewrite p_slice_tail, c_generations_tuple_eq. cbn [c_sys].
  unfold g_VerifyingBase_changed, g_LookupBase_changed, p_set_verify_ro, p_gens_of_verify_ro, p_store_verify_ro,
    p_set_verify_gens.
  set (s1 := p_clear_scache (p_clear_mcache (p_clear_cache s r) r) r).
  destruct (Nat.lt_ge_cases r (length s1)) as [L|L].
  - apply sys_ext; [rewrite !upd_length; reflexivity|]. intros i.
    destruct (Nat.eq_dec i r) as [->|N].
    + rewrite !get_upd_same by (rewrite ?upd_length; auto).
      rewrite !gens_upd by (intros; reflexivity). reflexivity.
    + rewrite !get_upd_other by auto. reflexivity.
  - rewrite !upd_oob by (rewrite ?upd_length; auto). reflexivity.
Qed.

(* hence, with the C accelerator, the verifying lookup's changed() — the Python
   VerifyingAdapterLookup.changed / AdapterLookupBase.changed around the C VerifyingBase.changed — is the
   model's lookup_changed *)
Lemma c_lookup_changed_eq b n1 n2 s r : rs_flavour (get s r) = Verifying ->
  g_AdapterLookupBase_changed (fun s r => c_sys (gen_c_verify_changed (mkCst s n1 n2) r))
                              (g_refresh_ro (length s) s r) r = lookup_changed b s r.
Proof.
  intros F. rewrite <- (lookup_changed_eq b). unfold g_lookup_changed. rewrite F.
  unfold g_VerifyingAdapterLookup_changed, g_AdapterLookupBase_changed. rewrite c_verify_changed_eq. reflexivity.
Qed.

(* _verify: with both slots filled (they are from the first changed() on) *)
Lemma c_verify_shape chg s r :
  c_sys (gen_c_verify chg (mkCst s false false) r) =
  if lspec_eqb (gens s (rs_vro (get s r))) (rs_vgen (get s r)) then s else c_sys (chg (mkCst s false false) r).
Proof.
  unfold gen_c_verify, pc_slot_ro, pc_slot_gens, p_gens_neqb. cbn [c_sys c_null_ro c_null_gens negb andb].
  rewrite c_generations_tuple_eq. cbn [c_sys]. rewrite lspec_eqb_sym.
  destruct (lspec_eqb (gens s (rs_vro (get s r))) (rs_vgen (get s r))); reflexivity.
Qed.

(* a NULL slot forces changed() *)
Lemma c_verify_null chg st r : c_null_ro st = true \/ c_null_gens st = true -> gen_c_verify chg st r = chg st r.
Proof.
  intros H. unfold gen_c_verify. destruct (c_null_ro st), (c_null_gens st); cbn; try reflexivity.
  destruct H; discriminate.
Qed.

Lemma c_verify_eq_model b s r : rs_flavour (get s r) = Verifying ->
  c_sys (gen_c_verify (fun st r => mkCst (lookup_changed b (c_sys st) r) false false) (mkCst s false false) r)
  = verify s r.
Proof.
  intros F. rewrite c_verify_shape. unfold verify. rewrite F. cbn [c_sys].
  destruct (lspec_eqb (gens s (rs_vro (get s r))) (rs_vgen (get s r))); [reflexivity|].
  destruct b; rewrite <- !(lookup_changed_eq); reflexivity.
Qed.
