(* The kernel regenerated from adapter.py by harness/translate/regchain.py (Gen/RegChainKernel.v)
   IS the chain logic of Model/RegSys.v, for all system states: the theorems of Properties/C06.v
   about RegSys.v are therefore theorems about what the source text says now. *)
From Coq Require Import List Arith Bool Lia.
Import ListNotations.
From ZI Require Import Model.Ro Model.Adapter Model.Lookup Model.RegSys Model.RegPrim Spec.RegChain
     Proofs.RegChain Gen.RegChainKernel.

(* ---- composing updates of one registry *)
Lemma set_set s : forall r a b, set (set s r a) r b = set s r b.
Proof. induction s as [|y s IH]; intros [|r] a b; cbn; auto. rewrite IH; auto. Qed.

Lemma upd_upd s r f g : upd (upd s r f) r g = upd s r (fun x => g (f x)).
Proof.
  unfold upd. destruct (Nat.lt_ge_cases r (length s)) as [L|L].
  - rewrite get_set_same by auto. apply set_set.
  - rewrite (set_oob s r (f (get s r))) by auto. rewrite !set_oob by auto. reflexivity.
Qed.

Lemma set_get s : forall r, set s r (get s r) = s.
Proof.
  induction s as [|y s IH]; intros [|r]; cbn; auto. f_equal. apply IH.
Qed.

Lemma upd_same s r f : f (get s r) = get s r -> upd s r f = s.
Proof. intros H. unfold upd. rewrite H. apply set_get. Qed.

Lemma fold_left_ext {A B} (f g : A -> B -> A) l : (forall a b, f a b = g a b) -> forall a, fold_left f l a = fold_left g l a.
Proof. intros H. induction l as [|b l IH]; intros a; cbn; auto. rewrite H. apply IH. Qed.

Lemma sys_ext (s s' : sys) : length s = length s' -> (forall i, get s i = get s' i) -> s = s'.
Proof. intros L H. apply (nth_ext _ _ dummy_rs dummy_rs); auto. intros n _. apply H. Qed.

Lemma gens_upd s r f l : (forall x, rs_reg (f x) = rs_reg x) -> gens (upd s r f) l = gens s l.
Proof.
  intros H. apply gens_ext. intros i _. unfold gen_of. rewrite get_upd.
  destruct (Nat.eqb i r && Nat.ltb r (length s)) eqn:E; auto.
  apply andb_true_iff in E. destruct E as (E & _). apply Nat.eqb_eq in E. subst. rewrite H. reflexivity.
Qed.

Lemma lspec_eqb_refl a : lspec_eqb a a = true.
Proof. apply lspec_eqb_eq. reflexivity. Qed.

Lemma flavour_oob s r : length s <= r -> rs_flavour (get s r) = Push.
Proof. intros H. rewrite get_oob; auto. Qed.

(* ---- BaseAdapterRegistry._refresh_ro: the re-check loop exits in its first round, because the
   order is a function of the __bases__ of the registries, which storing an order does not touch *)
Lemma base_refresh_loop_one_round n s r : g_Base_refresh_ro_loop (S n) s r = Some (refresh_ro 0 s r).
Proof.
  cbn [g_Base_refresh_ro_loop]. unfold p_ro, p_order_eqb.
  change (p_store_ro s r (fresh_ro s r)) with (visit_ro s r).
  rewrite <- (graph_eq_fresh _ _ r (visit_ro_graph s r)), lspec_eqb_refl. reflexivity.
Qed.

Lemma base_refresh_eq s r : g_Base_refresh_ro s r = refresh_ro 0 s r.
Proof. unfold g_Base_refresh_ro. rewrite base_refresh_loop_one_round. reflexivity. Qed.

Lemma refresh0_visit s r : refresh_ro 0 s r = visit_ro s r.
Proof. reflexivity. Qed.

(* ---- registry._refresh_ro() *)
Lemma refresh_ro_S f s r :
  refresh_ro (S f) s r =
  match rs_flavour (get s r) with
  | Push => fold_left (fun acc sub => refresh_ro f acc sub) (rs_subs (get s r)) (visit_ro s r)
  | Verifying => visit_ro s r
  end.
Proof. reflexivity. Qed.

Lemma refresh_ro_eq : forall fuel s r, g_refresh_ro fuel s r = refresh_ro fuel s r.
Proof.
  induction fuel as [|f IH]; intros s r; cbn [g_refresh_ro]; rewrite base_refresh_eq.
  - destruct (rs_flavour (get s r)); reflexivity.
  - rewrite refresh_ro_S, refresh0_visit. destruct (rs_flavour (get s r)) eqn:F; [|reflexivity].
    unfold p_subs.
    replace (rs_subs (get (visit_ro s r) r)) with (rs_subs (get s r))
      by (destruct (visit_ro_graph s r) as (_ & H); apply H).
    apply fold_left_ext. intros; apply IH.
Qed.

(* ---- the lookup object's changed() *)
Lemma lookup_changed_eq b s r : g_lookup_changed s r = lookup_changed b s r.
Proof.
  unfold g_lookup_changed, lookup_changed. destruct (rs_flavour (get s r)) eqn:F.
  - unfold g_AdapterLookup_changed, g_AdapterLookupBase_changed, g_LookupBase_changed,
      p_drop_required, p_clear_scache, p_clear_mcache, p_clear_cache, p_with_caches.
    rewrite !upd_upd. unfold upd. f_equal. cbn. rewrite F. reflexivity.
  - unfold g_VerifyingAdapterLookup_changed. rewrite refresh_ro_eq.
    rewrite (refresh_ro_ver (length s) s r F). change (refresh_ro 0 s r) with (visit_ro s r).
    set (s0 := visit_ro s r).
    assert (L : r < length s).
    { destruct (Nat.lt_ge_cases r (length s)); auto. rewrite flavour_oob in F; auto. discriminate. }
    assert (L0 : r < length s0) by (unfold s0, visit_ro; rewrite upd_length; auto).
    assert (F0 : rs_flavour (get s0 r) = Verifying).
    { unfold s0, visit_ro. rewrite get_upd_same; auto. }
    unfold g_AdapterLookupBase_changed, g_VerifyingBase_changed, g_LookupBase_changed,
      p_drop_required, p_set_verify_gens, p_set_verify_ro, p_clear_scache, p_clear_mcache, p_clear_cache,
      p_with_caches, p_gens_of_verify_ro.
    apply sys_ext.
    + rewrite !upd_length, set_length. reflexivity.
    + intros i. destruct (Nat.eq_dec i r) as [->|N].
      * rewrite get_set_same by auto.
        rewrite !get_upd_same by (rewrite ?upd_length; auto).
        rewrite !gens_upd by (intros; reflexivity).
        cbn. rewrite F0. reflexivity.
      * rewrite !get_upd_other by auto. rewrite get_set_other by auto. reflexivity.
Qed.

Lemma lookup_changed_flavour b s r i : rs_flavour (get (lookup_changed b s r) i) = rs_flavour (get s i).
Proof.
  destruct (rs_flavour (get s r)) eqn:F.
  - rewrite lookup_changed_push by auto. rewrite get_upd.
    destruct (Nat.eqb i r && Nat.ltb r (length s)) eqn:E; auto.
    apply andb_true_iff in E. destruct E as (E & _). apply Nat.eqb_eq in E. subst. cbn. auto.
  - assert (L : r < length s).
    { destruct (Nat.lt_ge_cases r (length s)); auto. rewrite flavour_oob in F; auto. discriminate. }
    destruct (lookup_changed_ver b s r F L) as (_ & O & G).
    destruct (Nat.eq_dec i r) as [->|N]; [rewrite G; cbn; auto | rewrite O; auto].
Qed.

Lemma bump_flavour s r i : rs_flavour (get (upd s r bump) i) = rs_flavour (get s i).
Proof.
  rewrite get_upd. destruct (Nat.eqb i r && Nat.ltb r (length s)) eqn:E; auto.
  apply andb_true_iff in E. destruct E as (E & _). apply Nat.eqb_eq in E. subst. reflexivity.
Qed.

(* ---- registry.changed(...) *)
Lemma base_changed_eq s r : g_Base_changed s r = lookup_changed false (upd s r bump) r.
Proof. unfold g_Base_changed, p_bump_gen. apply lookup_changed_eq. Qed.

Lemma changed_eq : forall fuel s r, g_changed fuel s r = sub_changed fuel s r.
Proof.
  induction fuel as [|f IH]; intros s r; cbn [g_changed sub_changed]; rewrite base_changed_eq.
  - destruct (rs_flavour (get s r)); reflexivity.
  - rewrite lookup_changed_flavour, bump_flavour.
    destruct (rs_flavour (get s r)); [|reflexivity].
    unfold p_subs. apply fold_left_ext. intros; apply IH.
Qed.

Lemma changed_eq_after_bump s r : g_changed (S (length s)) s r = after_bump (upd s r bump) r.
Proof.
  rewrite changed_eq. cbn [sub_changed]. unfold after_bump. rewrite upd_length. reflexivity.
Qed.

(* ---- lengths *)
Lemma lookup_changed_length b s r : length (lookup_changed b s r) = length s.
Proof.
  unfold lookup_changed. destruct (rs_flavour (get s r)); cbn [refresh_ro]; rewrite !set_length; auto.
Qed.

Lemma refresh_ro_length : forall fuel s r, length (refresh_ro fuel s r) = length s.
Proof.
  induction fuel as [|f IH]; intros s r; cbn [refresh_ro]; [apply set_length|].
  destruct (rs_flavour (get s r)); [|apply set_length].
  apply (fold_left_inv (fun a => length a = length s)); [apply set_length|].
  intros a b Ha _. rewrite IH; auto.
Qed.

(* ---- registry.__bases__ = bases *)
Lemma remove_nat_absent r l : mem r l = false -> remove_nat r l = l.
Proof.
  intros H. unfold remove_nat. induction l as [|y l IH]; cbn in *; auto.
  apply orb_false_iff in H. destruct H as (H1 & H2). rewrite H1. cbn. rewrite IH; auto.
Qed.

Lemma removeSubregistry_eq s b r :
  g_removeSubregistry s b r =
  upd s b (fun y => mkRS (rs_reg y) (rs_caches y) (rs_bases y) (rs_ro y) (remove_nat r (rs_subs y)) (rs_vro y)
                         (rs_vgen y) (rs_flavour y)).
Proof.
  unfold g_removeSubregistry, p_del_sub, p_with_subs, p_subs. destruct (mem r (rs_subs (get s b))) eqn:M.
  - reflexivity.
  - symmetry. apply upd_same. rewrite remove_nat_absent by auto. destruct (get s b); reflexivity.
Qed.

Lemma addSubregistry_eq s b r :
  g_addSubregistry s b r =
  upd s b (fun y => mkRS (rs_reg y) (rs_caches y) (rs_bases y) (rs_ro y)
                         (if mem r (rs_subs y) then rs_subs y else rs_subs y ++ [r]) (rs_vro y) (rs_vgen y)
                         (rs_flavour y)).
Proof. reflexivity. Qed.

Lemma base_setBases_eq (s0 s : sys) r bs : length s = length s0 ->
  g_Base_setBases (length s0) (S (length s0)) s r bs =
  after_bump (upd (refresh_ro (length s0)
                     (upd s r (fun y => mkRS (rs_reg y) (rs_caches y) bs (rs_ro y) (rs_subs y) (rs_vro y) (rs_vgen y)
                                             (rs_flavour y))) r) r bump) r.
Proof.
  intros L. unfold g_Base_setBases, p_set_bases. rewrite refresh_ro_eq.
  set (s3 := refresh_ro _ _ r).
  assert (L3 : length s3 = length s0) by (unfold s3; rewrite refresh_ro_length, upd_length; auto).
  rewrite <- L3. apply changed_eq_after_bump.
Qed.

Lemma gen_book (s0 : sys) r bs :
  fold_left (fun s b => if negb (mem b (rs_bases (get s0 r))) then g_addSubregistry s b r else s) bs
    (fold_left (fun s b => if negb (mem b bs) then g_removeSubregistry s b r else s) (rs_bases (get s0 r)) s0)
  = book (rs_bases (get s0 r)) s0 r bs.
Proof.
  unfold book.
  rewrite (fold_left_ext (fun s b => if negb (mem b bs) then g_removeSubregistry s b r else s)
                         (fun acc b => if mem b bs then acc else upd acc b (rm_sub r))).
  2:{ intros a b. rewrite removeSubregistry_eq. destruct (mem b bs); reflexivity. }
  apply fold_left_ext. intros a b. rewrite addSubregistry_eq.
  destruct (mem b (rs_bases (get s0 r))); reflexivity.
Qed.

Lemma book_length old (s : sys) r bs : length (book old s r bs) = length s.
Proof.
  unfold book. apply (fold_left_inv (fun a => length a = length s)).
  - apply (fold_left_inv (fun a => length a = length s)); auto.
    intros a b Ha _. destruct (mem b bs); auto. rewrite upd_length; auto.
  - intros a b Ha _. destruct (mem b old); auto. rewrite upd_length; auto.
Qed.

Lemma setBases_eq (s : sys) r bs : g_setBases (length s) (S (length s)) s r bs = set_bases s r bs.
Proof.
  unfold g_setBases. destruct (rs_flavour (get s r)) eqn:F.
  - rewrite set_bases_push_eq by auto. cbv zeta.
    unfold g_AR_setBases, p_bases. rewrite gen_book.
    rewrite base_setBases_eq by apply book_length. reflexivity.
  - unfold set_bases. rewrite F. apply base_setBases_eq. reflexivity.
Qed.

(* ---- _verify *)
Lemma verify_eq s r : g_verify s r = verify s r.
Proof.
  unfold g_verify, verify, g_VerifyingBase_verify, p_gens_neqb, p_gens_of_verify_ro, p_verify_gens.
  destruct (rs_flavour (get s r)); [reflexivity|].
  rewrite (lookup_changed_eq true).
  destruct (lspec_eqb (gens s (rs_vro (get s r))) (rs_vgen (get s r))); reflexivity.
Qed.

(* ---- AdapterRegistry.__init__ : a new registry starts without sub-registries, rebuild() keeps them *)
Lemma init_subs_new : g_AR_init_subs None = [].
Proof. reflexivity. Qed.

Lemma init_subs_rebuild l : g_AR_init_subs (Some l) = l.
Proof. reflexivity. Qed.

Lemma new_reg_uses_init s fl bs :
  new_reg s fl bs = set_bases (s ++ [mkRS empty_reg empty_caches [] [] (g_AR_init_subs None) [] [] fl]) (length s) bs.
Proof. reflexivity. Qed.

Lemma rebuild_uses_init W call s r :
  fst (step W call s (ORebuild r)) =
  after_bump (set s r (mkRS (rebuild W (rs_reg (get s r))) (rs_caches (get s r)) (rs_bases (get s r))
                            (rs_ro (get s r)) (g_AR_init_subs (Some (rs_subs (get s r)))) (rs_vro (get s r))
                            (rs_vgen (get s r)) (rs_flavour (get s r)))) r.
Proof. reflexivity. Qed.

Lemma init_eq W call s r fl bs :
  new_reg s fl bs = set_bases (s ++ [mkRS empty_reg empty_caches [] [] (g_AR_init_subs None) [] [] fl]) (length s) bs /\
  fst (step W call s (ORebuild r)) =
  after_bump (set s r (mkRS (rebuild W (rs_reg (get s r))) (rs_caches (get s r)) (rs_bases (get s r))
                            (rs_ro (get s r)) (g_AR_init_subs (Some (rs_subs (get s r)))) (rs_vro (get s r))
                            (rs_vgen (get s r)) (rs_flavour (get s r)))) r.
Proof. split; reflexivity. Qed.
