(* C20: the kernel regenerated from the source text (Gen/DeclAlgKernel.v, written on every run
   by harness/translate/declalg.py) equals the model (Model/DeclAlg.v) for all inputs, once the
   abstract vocabulary is instantiated with the model's notions:

     o_interfaces      := decl_interfaces g ifs
     o_extends d x s   := the generated Specification.extends on the declaration node
                          (y in _implied := mem y (decl_sro g d), self := fresh_id g d)
     o_iro             := flattened g ifs
     o_is_Implements   := fun _ => false     (a stored __provides__ is a Provides object;
                          the class-level Implements seen through the descriptor is state None)
     n_in_implied x y  := is_or_extends g x y           (y in x._implied)
     n_extends         := the generated Specification.extends over that
     n_isOrExtends     := the generated SpecificationBase.isOrExtends over that
     implementedBy c   := c                  (a class is represented by its specification)
     directlyProvides _ args := Some (directly_provides g ifs c args)
     n_providedBy i st := i in the _implied of the Provides object of st

   A change of the source that changes a generated definition makes these proofs fail. *)
From Coq Require Import List Arith Bool Lia.
Import ListNotations.
From ZI Require Import Model.Ro Model.DeclAlg Spec.DeclAlg Proofs.DeclAlg Gen.DeclAlgKernel.

Lemma fold_left_ext {A B} (f h : A -> B -> A) l : (forall a b, f a b = h a b) ->
  forall a, fold_left f l a = fold_left h l a.
Proof. intros E. induction l as [|x l IH]; intros a; cbn; [reflexivity|]. rewrite E. apply IH. Qed.

Lemma nonempty_filter (p : node -> bool) l : nonempty (filter p l) = existsb p l.
Proof. induction l as [|x l IH]; cbn; [reflexivity|]. destruct (p x); cbn; [reflexivity|assumption]. Qed.

Lemma fold_append (l : list node) : forall out, fold_left (fun o v => o ++ [v]) l out = out ++ l.
Proof.
  induction l as [|x l IH]; intros out; cbn; [rewrite app_nil_r; reflexivity|].
  rewrite IH, <- app_assoc. reflexivity.
Qed.

(* ---------------------------------------------------------------- extends / isOrExtends *)
Lemma gen_extends_strict g x y : gen_extends (is_or_extends g) x y true = extends_strict g x y.
Proof. reflexivity. Qed.

Lemma gen_extends_nonstrict g x y : gen_extends (is_or_extends g) x y false = is_or_extends g x y.
Proof. unfold gen_extends. cbn. apply andb_true_r. Qed.

Lemma gen_isOrExtends_eq g x y : gen_isOrExtends (is_or_extends g) x y = is_or_extends g x y.
Proof. reflexivity. Qed.

(* ---------------------------------------------------------------- Specification.interfaces *)
Definition si_step (st : list node * list node) (x : node) : list node * list node :=
  if negb (mem x (fst st)) then (x :: fst st, snd st ++ [x]) else st.

Lemma si_inner l : forall seen out,
  exists seen', fold_left si_step l (seen, out) = (seen', out ++ dedupe_acc seen l) /\
                same_mem seen' (l ++ seen).
Proof.
  induction l as [|x t IH]; intros seen out.
  - exists seen. cbn. rewrite app_nil_r. split; [reflexivity|intros y; reflexivity].
  - cbn [fold_left dedupe_acc]. unfold si_step at 2. cbn [fst snd]. destruct (mem x seen) eqn:E; cbn [negb].
    + destruct (IH seen out) as [s' [H1 H2]]. exists s'. split; [assumption|].
      intros y. rewrite (H2 y). cbn. rewrite !mem_app.
      destruct (Nat.eqb y x) eqn:Ey; cbn; [|reflexivity]. apply Nat.eqb_eq in Ey. subst y.
      rewrite E, orb_true_r. reflexivity.
    + destruct (IH (x :: seen) (out ++ [x])) as [s' [H1 H2]]. exists s'. split.
      * rewrite H1, <- app_assoc. reflexivity.
      * intros y. rewrite (H2 y). cbn. rewrite !mem_app. cbn.
        destruct (Nat.eqb y x); cbn; [rewrite orb_true_r|]; reflexivity.
Qed.

Lemma si_outer (nI : node -> list node) bs : forall seen out,
  exists seen', fold_left (fun st b => fold_left si_step (nI b) st) bs (seen, out)
                = (seen', out ++ dedupe_acc seen (flat_map nI bs)) /\
                same_mem seen' (flat_map nI bs ++ seen).
Proof.
  induction bs as [|b t IH]; intros seen out.
  - exists seen. cbn. rewrite app_nil_r. split; [reflexivity|intros y; reflexivity].
  - cbn [fold_left flat_map]. destruct (si_inner (nI b) seen out) as [s1 [H1 H2]]. rewrite H1.
    destruct (IH s1 (out ++ dedupe_acc seen (nI b))) as [s2 [H3 H4]]. exists s2. split.
    + rewrite H3, <- app_assoc. f_equal. f_equal. symmetry. apply dedupe_acc_app. assumption.
    + intros y. rewrite (H4 y), !mem_app, (H2 y), mem_app. rewrite orb_assoc. f_equal. apply orb_comm.
Qed.

Lemma gen_spec_interfaces_eq nI bs : gen_Specification_interfaces nI bs = dedupe (flat_map nI bs).
Proof.
  unfold gen_Specification_interfaces.
  rewrite (fold_left_ext _ (fun st b => fold_left si_step (nI b) st)).
  - destruct (si_outer nI bs [] []) as [s [H _]]. rewrite H. reflexivity.
  - intros [seen out] b.
    rewrite (fold_left_ext _ si_step).
    + destruct (fold_left si_step (nI b) (seen, out)). reflexivity.
    + intros [s o] x. unfold si_step. cbn [fst snd]. destruct (negb (mem x s)); reflexivity.
Qed.

Lemma gen_iface_interfaces_eq x : gen_InterfaceClass_interfaces x = [x].
Proof. reflexivity. Qed.

(* ---------------------------------------------------------------- _normalizeargs *)
Section K.
  Variable g : graph.
  Variable ifs : list node.

  Definition K_oI := decl_interfaces g ifs.
  Definition K_nE := gen_extends (is_or_extends g).
  Definition K_nIOE := gen_isOrExtends (is_or_extends g).
  Definition K_oE (d : decl) (x : node) (s : bool) : bool :=
    gen_extends (fun _ y => mem y (decl_sro g d)) (fresh_id g d) x s.
  Definition K_isImpl (d : decl) : bool := false.
  Definition K_dP (c : node) (st : option decl) (args : list tree) : option decl :=
    Some (directly_provides g ifs c args).
  Definition K_pB (i : node) (st : option decl) : bool :=
    match st with Some bs => mem i (decl_sro g bs) | None => false end.

  Lemma gen_normalizeargs_eq t : forall out,
    gen_normalizeargs K_oI t out = out ++ normalize g ifs t.
  Proof.
    induction t as [x|ts IH|d] using tree_ind2; intros out.
    - reflexivity.
    - cbn [gen_normalizeargs normalize]. revert out. induction ts as [|t ts IHts]; intros out; cbn [fold_left flat_map].
      + rewrite app_nil_r. reflexivity.
      + inversion IH as [|? ? Ht Hts]; subst. rewrite Ht, (IHts Hts), app_assoc. reflexivity.
    - cbn [gen_normalizeargs normalize]. apply fold_append.
  Qed.

  Lemma gen_Declaration_eq args : gen_Declaration K_oI args = mk_decl g ifs args.
  Proof. unfold gen_Declaration. rewrite gen_normalizeargs_eq. reflexivity. Qed.

  Lemma mk_decl_leaves l : mk_decl g ifs (map Leaf l) = l.
  Proof. induction l as [|x l IH]; cbn; [reflexivity|]. f_equal. exact IH. Qed.

  Lemma gen_Declaration_leaves l : gen_Declaration K_oI (map Leaf l) = l.
  Proof. rewrite gen_Declaration_eq. apply mk_decl_leaves. Qed.

  (* ---------------------------------------------------------------- queries *)
  Lemma gen_contains_eq d x : gen_contains K_oI K_oE d x = contains g ifs d x.
  Proof. reflexivity. Qed.

  Lemma gen_iter_eq d : gen_iter K_oI d = iter g ifs d.
  Proof. reflexivity. Qed.

  Lemma gen_flattened_eq d : gen_flattened (flattened g ifs) d = flattened g ifs d.
  Proof. reflexivity. Qed.

  (* ---------------------------------------------------------------- __sub__ *)
  Lemma gen_sub_eq a b : gen_sub K_oI K_nE a b = sub g ifs a b.
  Proof.
    unfold gen_sub. rewrite gen_Declaration_leaves. unfold sub, K_oI. apply filter_ext.
    intros i. rewrite nonempty_filter. f_equal. clear. induction (decl_interfaces g ifs b) as [|j l IH]; cbn; [reflexivity|].
    rewrite IH. f_equal. apply gen_extends_nonstrict.
  Qed.

  (* ---------------------------------------------------------------- __add__ *)
  Definition add_step (st : list node * list node * list node) (i : node) :=
    let '(seen, before, result) := st in
    if mem i seen then (seen, before, result)
    else if existsb (fun x => extends_strict g i x) result
         then (i :: seen, before ++ [i], result)
         else (i :: seen, before, result ++ [i]).

  Lemma add_step_loop l : forall seen before result,
    (let '(_, b, r) := fold_left add_step l (seen, before, result) in (b, r)) =
    add_loop g before result seen l.
  Proof.
    induction l as [|i t IH]; intros seen before result; [reflexivity|].
    cbn [fold_left add_loop]. unfold add_step at 2. destruct (mem i seen); [apply IH|].
    destruct (existsb (fun x => extends_strict g i x) result); apply IH.
  Qed.

  Lemma gen_add_eq a b : gen_add K_oI K_nE a b = add g ifs a b.
  Proof.
    unfold gen_add, add.
    rewrite (fold_left_ext _ add_step).
    - pose proof (add_step_loop (K_oI b) (K_oI a) [] (K_oI a)) as H. unfold K_oI in *.
      destruct (fold_left add_step (decl_interfaces g ifs b) _) as [[s bf] res].
      rewrite <- H. apply gen_Declaration_leaves.
    - intros [[s bf] res] i. unfold add_step. destruct (mem i s); [reflexivity|].
      destruct (existsb _ res); reflexivity.
  Qed.

  Lemma gen_radd_eq x a : gen_radd K_oI K_nE a [x] = radd g ifs x a.
  Proof. unfold gen_radd, radd. apply gen_add_eq. Qed.

  (* ---------------------------------------------------------------- instances *)
  Lemma gen_add_interfaces_to_cls_eq l c :
    gen_add_interfaces_to_cls K_nIOE (fun k => k) l c = strip_cls g c l ++ [c].
  Proof. reflexivity. Qed.

  Lemma directly_provides_via_kernel c args :
    directly_provides g ifs c args =
    gen_add_interfaces_to_cls K_nIOE (fun k => k) (gen_Declaration K_oI args) c.
  Proof. rewrite gen_Declaration_eq. reflexivity. Qed.

  Lemma gen_directlyProvidedBy_eq p : gen_directlyProvidedBy K_oI K_isImpl p = directly_provided_by p.
  Proof.
    destruct p as [bs|]; [|reflexivity]. unfold gen_directlyProvidedBy, K_isImpl, directly_provided_by.
    rewrite gen_Declaration_eq. unfold mk_decl. cbn [flat_map normalize]. rewrite app_nil_r.
    change (flat_map (normalize g ifs) (map Leaf (removelast bs))) with (mk_decl g ifs (map Leaf (removelast bs))).
    apply mk_decl_leaves.
  Qed.

  Lemma gen_alsoProvides_eq c p args :
    gen_alsoProvides K_oI K_isImpl (K_dP c) p args = (also_provides g ifs c p args, false).
  Proof.
    unfold gen_alsoProvides, K_dP, also_provides. rewrite gen_directlyProvidedBy_eq. reflexivity.
  Qed.

  Lemma gen_noLongerProvides_eq c p i :
    gen_noLongerProvides K_oI K_isImpl K_nE K_pB (K_dP c) p i = no_longer_provides g ifs c p i.
  Proof.
    unfold gen_noLongerProvides, K_dP, K_pB, no_longer_provides.
    rewrite gen_directlyProvidedBy_eq, gen_sub_eq.
    destruct (mem i (decl_sro g (directly_provides g ifs c [OfDecl (sub g ifs (directly_provided_by p) [i])]))); reflexivity.
  Qed.
End K.
