(* The kernel regenerated from interface.py / declarations.py on every run (Gen/ReduceKernel.v)
   equals the hand-written model the C13 theorems are about.  If the source changes, either the
   translator aborts or one of these proofs stops checking (a broken proof obligation). *)
From Coq Require Import List NArith ZArith Bool Arith.
Import ListNotations.
From ZI Require Import Lib.Str Lib.Util Model.Pickle Gen.ReduceKernel.

Lemma gen_iface_reduce_eq w i : gen_iface_reduce w i = reduce_iface w i.
Proof. reflexivity. Qed.

Lemma gen_empty_reduce_eq : gen_empty_reduce = reduce_empty.
Proof. reflexivity. Qed.

Lemma gen_impl_reduce_eq w r : gen_impl_reduce w r = reduce_impl w r.
Proof. unfold gen_impl_reduce, reduce_impl. destruct (im_inherit r); reflexivity. Qed.

Lemma gen_prov_reduce_eq w pr : gen_prov_reduce w pr = reduce_prov w pr.
Proof. reflexivity. Qed.

Lemma gen_cprov_reduce_eq w qr : gen_cprov_reduce w qr = reduce_cprov w qr.
Proof. reflexivity. Qed.

Lemma gen_default_impl_eq w c : gen_default_impl w c = default_impl w c.
Proof. reflexivity. Qed.

Lemma gen_provides_factory_eq fuel w st c is :
  gen_provides_factory fuel w st c is = provides_factory fuel w st c is.
Proof.
  unfold gen_provides_factory, provides_factory, cache_get.
  destruct (assoc_key (c, is) (st_cache st)); reflexivity.
Qed.

Lemma filter_ext' {A} (f g : A -> bool) l : (forall a, f a = g a) -> filter f l = filter g l.
Proof. intros H. induction l as [|x l IH]; cbn; [reflexivity|]. rewrite H, IH. reflexivity. Qed.

(* notify = every declaration whose class depends on the changed one receives changed() from
   outside (originally_changed is the class specification, not itself); an entry of the cache is
   the cached value for its own key; it goes exactly when the source's two guards say so *)
Lemma gen_prov_changed_eq fuel w st c :
  notify fuel w st c =
  mkState (st_impl st) (st_cprov_of st) (st_cprovs st) (st_provs st)
          (filter (fun kp : ckey * nat =>
                     negb (prov_depends fuel w st (fst kp) c && gen_prov_changed true true))
                  (st_cache st))
          (st_insts st).
Proof.
  unfold notify. f_equal. apply filter_ext'. intros kp. cbn [gen_prov_changed]. rewrite andb_true_r. reflexivity.
Qed.

Lemma gen_prov_changed_guards :
  gen_prov_changed false true = false /\ gen_prov_changed true false = false /\ gen_prov_changed true true = true.
Proof. repeat split. Qed.

(* directlyProvides hands both constructors the normalised interface list -- which is why the
   model's class_provides / directly_provides take a [list nat] and __args can only hold names *)
Lemma gen_dp_args_normalised (A : Type) (normalizeargs : A -> list nat) (raw : A) :
  gen_dp_class_args normalizeargs raw = inr (normalizeargs raw) /\
  gen_dp_instance_args normalizeargs raw = inr (normalizeargs raw).
Proof. split; reflexivity. Qed.
