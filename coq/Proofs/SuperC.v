(* The data-level kernel extracted from the C extension on this run (Gen/SuperC.v), interpreted by
   Model/SuperCPrims.v, IS the model of the C twins: c_implementedBy / c_providedBy of Model/Super.v and
   adapter_hook of Model/Lookup.v. *)
From Coq Require Import List Arith Bool String.
Import ListNotations.
From ZI Require Import Model.Ro Model.Adapter Model.Lookup Model.Super Model.SuperPrims Model.SuperCPrims Gen.SuperC.

Lemma gen_c_implementedBy_eq E st a :
  interp_c_implementedBy gen_c_implementedBy_branch gen_c_fallback E st a = c_implementedBy E st a.
Proof. destruct a; reflexivity. Qed.

Lemma gen_c_providedBy_eq E st a :
  interp_c_providedBy gen_c_providedBy_branch gen_c_implementedBy_branch gen_c_fallback E st a = c_providedBy E st a.
Proof. destruct a; reflexivity. Qed.

Lemma hook_arg_unwrap o : hook_arg gen_c_adapter_hook o = unwrap o.
Proof.
  unfold hook_arg, gen_c_adapter_hook. cbn [ch_test_arg ch_test_type ch_attr_of ch_attr ch_assigned ch_call_arg].
  cbn [String.eqb Ascii.eqb Bool.eqb andb]. unfold is_super_obj, obj_self, unwrap.
  destruct (o_super_of o); reflexivity.
Qed.

Lemma gen_c_adapter_hook_eq ul fcall c p o n :
  interp_c_hook gen_c_adapter_hook ul fcall c p o n = adapter_hook ul fcall c p o n.
Proof.
  unfold interp_c_hook, adapter_hook. destruct n as [n|]; [|reflexivity].
  rewrite hook_arg_unwrap.
  change ((ch_prov_fn gen_c_adapter_hook =? "providedBy")%string && (ch_prov_arg gen_c_adapter_hook =? "object")%string
          && (ch_lookup_fn gen_c_adapter_hook =? "_lookup1")%string) with true. cbv iota.
  unfold lookup1.
  destruct (aget cache_key_eqb (c_cache c) (p, n, CSingle (o_provides o))) as [[f|]|]; cbn [res_opt].
  - destruct (fcall f [unwrap o]); reflexivity.
  - reflexivity.
  - destruct (lookup ul c [o_provides o] p (NStr n)) as [c' [f| |]]; cbn [res_opt]; try reflexivity.
Qed.
