(* C09 extension, second part: the enumeration of the nested dictionaries (_all_entries) is a NoDup-key
   permutation of the flat listings that keeps each subscription key's order; hence rebuild() in nested
   order preserves both maps, and the nested-dictionary run agrees with the plain flat run [brun] and
   with the ledger through rebuild(). *)
From Coq Require Import List Arith Bool Lia Permutation.
Import ListNotations.
From ZI Require Import Model.Ro Model.Adapter Model.Trie Model.Bookkeeping Spec.Bookkeeping Proofs.Bookkeeping
     Spec.TrieRel Proofs.TrieRefines.

(* ------------------------------------------------------------------ lists *)
Lemma NoDup_app_intro {A} (l l' : list A) :
  NoDup l -> NoDup l' -> (forall x, In x l -> ~ In x l') -> NoDup (l ++ l').
Proof.
  induction l as [|a l IH]; intros N N' D; cbn; auto.
  inversion N; subst. constructor.
  - rewrite in_app_iff. intros [H|H]; [contradiction | apply (D a); cbn; auto].
  - apply IH; auto. intros x Hx. apply D; cbn; auto.
Qed.

Lemma NoDup_map_inj_in {A B} (f : A -> B) (l : list A) :
  NoDup l -> (forall x y, In x l -> In y l -> f x = f y -> x = y) -> NoDup (map f l).
Proof.
  induction l as [|a l IH]; intros N I; cbn; [constructor|].
  inversion N; subst. constructor.
  - rewrite in_map_iff. intros (y & E & Hy). assert (y = a) by (apply I; cbn; auto). subst. contradiction.
  - apply IH; auto. intros x y Hx Hy. apply I; cbn; auto.
Qed.

Lemma NoDup_map_elim {A B} (f : A -> B) (l : list A) x y :
  NoDup (map f l) -> In x l -> In y l -> f x = f y -> x = y.
Proof.
  induction l as [|a l IH]; cbn; [tauto|]. intros N Hx Hy E. inversion N as [|? ? NI N']; subst.
  destruct Hx as [->|Hx], Hy as [->|Hy]; auto.
  - exfalso. apply NI. rewrite E. apply in_map; auto.
  - exfalso. apply NI. rewrite <- E. apply in_map; auto.
Qed.

Lemma NoDup_flat_map_disjoint {A B} (f : A -> list B) (l : list A) :
  NoDup l -> (forall x, In x l -> NoDup (f x)) ->
  (forall x y z, In x l -> In y l -> In z (f x) -> In z (f y) -> x = y) ->
  NoDup (flat_map f l).
Proof.
  induction l as [|a l IH]; intros N P D; cbn; [constructor|].
  inversion N; subst. apply NoDup_app_intro.
  - apply P; cbn; auto.
  - apply IH; auto; [intros; apply P; cbn; auto | intros x y z Hx Hy; apply D; cbn; auto].
  - intros z Hz H. apply in_flat_map in H. destruct H as (y & Hy & Hz').
    assert (a = y) by (apply (D a y z); cbn; auto). subst. contradiction.
Qed.

Lemma map_flat_map {A B C} (g : B -> C) (f : A -> list B) l :
  map g (flat_map f l) = flat_map (fun x => map g (f x)) l.
Proof. induction l as [|a l IH]; cbn; auto. rewrite map_app, IH. reflexivity. Qed.

Lemma flat_map_as_map {A B} (f : A -> list B) (g : A -> B) l :
  (forall x, In x l -> f x = [g x]) -> flat_map f l = map g l.
Proof. induction l as [|a l IH]; intros H; cbn; auto. rewrite (H a), IH; cbn; auto. intros; apply H; cbn; auto. Qed.

(* ------------------------------------------------------------------ key paths of one tree are distinct *)
Section PathsNoDup.
  Context {P : Type}.
  Variable okp : P -> Prop.

  Lemma tfind_full_leaf : forall n (t : trie P) q x, wfd okp n t -> length q = S n -> tfind q t = Some x ->
    exists p, x = Leaf p /\ okp p.
  Proof.
    induction n as [|n IH]; intros t q x Wf L F.
    - destruct q as [|k [|? ?]]; cbn in L; try lia. cbn [tfind] in F.
      destruct (tget t k) as [d|] eqn:G; [|discriminate]. inversion F; subst.
      destruct Wf as (_ & _ & C). apply (aget_Some_In Nat.eqb Nat.eqb_eq) in G. apply (C _ _ G).
    - destruct q as [|k q]; cbn in L; [lia|]. cbn [tfind] in F.
      destruct (tget t k) as [d|] eqn:G; [|discriminate].
      destruct Wf as (_ & _ & C). apply (aget_Some_In Nat.eqb Nat.eqb_eq) in G.
      destruct (C _ _ G) as [Wd _]. apply (IH d q x Wd); auto.
  Qed.

  Lemma all_keys_nodup : forall n (t : trie P) parent, wfd okp n t -> NoDup (map fst (all_keys n t parent)).
  Proof.
    induction n as [|n IH]; intros t parent Wf; cbn [all_keys].
    - rewrite map_map. cbn [fst].
      apply NoDup_map_inj_in.
      + apply (NoDup_map_inv fst). apply (wfd_nodup okp 0 t Wf).
      + intros [k c] [k' c'] H H' E. cbn [fst] in E. apply app_inv_head in E. inversion E; subst.
        f_equal. pose proof (wfd_nodup okp 0 t Wf) as ND.
        pose proof (In_aget Nat.eqb Nat.eqb_eq _ _ _ ND H) as A1.
        pose proof (In_aget Nat.eqb Nat.eqb_eq _ _ _ ND H') as A2. congruence.
    - rewrite map_flat_map. pose proof Wf as (ND & _ & C).
      apply NoDup_flat_map_disjoint.
      + apply (NoDup_map_inv fst). exact ND.
      + intros [k c] H. cbn [fst snd]. apply IH. apply (C _ _ H).
      + intros [k c] [k' c'] z H H' Hz Hz'. cbn [fst snd] in *.
        apply in_map_iff in Hz. destruct Hz as ((q & x) & <- & Hq).
        apply in_map_iff in Hz'. destruct Hz' as ((q' & x') & E & Hq'). cbn [fst] in E. subst q'.
        apply (all_keys_spec okp n c (parent ++ [k])) in Hq; [|apply (C _ _ H)].
        apply (all_keys_spec okp n c' (parent ++ [k'])) in Hq'; [|apply (C _ _ H')].
        destruct Hq as (q1 & E1 & L1 & _). destruct Hq' as (q2 & E2 & L2 & _).
        rewrite E1 in E2. rewrite <- !app_assoc in E2. apply app_inv_head in E2. cbn in E2. inversion E2; subst.
        f_equal. pose proof (In_aget Nat.eqb Nat.eqb_eq _ _ _ ND H) as A1.
        pose proof (In_aget Nat.eqb Nat.eqb_eq _ _ _ ND H') as A2. congruence.
  Qed.

  Definition ipath (e : nat * (list nat * trie P)) : nat * list nat := (fst e, fst (snd e)).

  Lemma all_entries_nodup : forall (b : list (trie P)) i,
    (forall j, wfd okp (S (i + j)) (order_get b j)) -> NoDup (map ipath (all_entries_from i b)).
  Proof.
    induction b as [|c b IH]; intros i Wf; cbn [all_entries_from]; [constructor|].
    rewrite map_app. apply NoDup_app_intro.
    - rewrite map_map. unfold ipath. cbn [fst snd].
      specialize (Wf 0). rewrite Nat.add_0_r in Wf. cbn in Wf.
      pose proof (all_keys_nodup (S i) c [] Wf) as N.
      rewrite <- (map_map fst (fun q => (i, q))). apply NoDup_map_inj_in; auto.
      intros x y _ _ E. inversion E; auto.
    - apply (IH (S i)). intros j. specialize (Wf (S j)). cbn in Wf. replace (S i + j) with (i + S j) by lia. exact Wf.
    - intros [i' q] H H'. apply in_map_iff in H. destruct H as (e & E & He).
      apply in_map_iff in He. destruct He as (e0 & <- & _). unfold ipath in E. cbn in E. inversion E; subst.
      apply in_map_iff in H'. destruct H' as ((i2 & q2 & x2) & E2 & H2). unfold ipath in E2. cbn in E2. inversion E2; subst.
      apply (all_entries_spec okp b (S i')) in H2.
      + destruct H2 as (j & Ej & _). lia.
      + intros j. specialize (Wf (S j)). cbn in Wf. replace (S i' + j) with (i' + S j) by lia. exact Wf.
  Qed.
End PathsNoDup.

(* ------------------------------------------------------------------ adapters: NoDup keys, permutation *)
Lemma ipath_key_inj i path i' path' :
  length path = S (S i) -> length path' = S (S i') ->
  firstn i path = firstn i' path' -> nth i path 0 = nth i' path' 0 -> nth (S i) path 0 = nth (S i') path' 0 ->
  i = i' /\ path = path'.
Proof.
  intros L L' E1 E2 E3. destruct (path_split i path L) as [P1 P2]. destruct (path_split i' path' L') as [P1' P2'].
  assert (i = i') by (rewrite <- P2, <- P2', E1; reflexivity). subst i'. split; auto.
  rewrite P1, P1', E1, E2, E3. reflexivity.
Qed.

Lemma t_allRegistrations_nodup t : binv okv (t_adapters t) -> NoDup (map fst (t_allRegistrations t)).
Proof.
  intros B. unfold t_allRegistrations. rewrite map_flat_map.
  assert (Wf : forall j, wfd okv (S (0 + j)) (order_get (t_adapters t) j)) by (intros j; apply B).
  pose proof (all_entries_nodup okv (t_adapters t) 0 Wf) as NE.
  apply NoDup_flat_map_disjoint.
  - apply (NoDup_map_inv ipath). exact NE.
  - intros (i & path & [v|l]) _; cbn; repeat constructor. cbn. tauto.
  - intros (i & path & x) (i' & path' & x') z H H' Hz Hz'.
    pose proof H as S1. pose proof H' as S2.
    apply (all_entries_spec okv (t_adapters t) 0 Wf) in S1. apply (all_entries_spec okv (t_adapters t) 0 Wf) in S2.
    destruct S1 as (j & _ & _ & L & _). destruct S2 as (j' & _ & _ & L' & _).
    destruct x as [v|l]; [|destruct Hz]. destruct x' as [v'|l']; [|destruct Hz'].
    cbn in Hz, Hz'. destruct Hz as [Hz|[]]. destruct Hz' as [Hz'|[]]. rewrite <- Hz in Hz'. inversion Hz' as [[E1 E2 E3]].
    destruct (ipath_key_inj i' path' i path L' L E1 E2 E3) as [-> ->].
    apply (NoDup_map_elim ipath _ _ _ NE H H'). reflexivity.
Qed.

Lemma NoDup_pairs_of_keys {K V} (l : list (K * V)) : NoDup (map fst l) -> NoDup l.
Proof. apply NoDup_map_inv. Qed.

Lemma t_allRegistrations_perm W t r : R W t r -> Permutation (t_allRegistrations t) (allRegistrations r).
Proof.
  intros ((Ba & _) & (I & _) & A & _). apply NoDup_Permutation.
  - apply NoDup_pairs_of_keys, t_allRegistrations_nodup; auto.
  - apply NoDup_pairs_of_keys. apply I.
  - intros [k v]. rewrite t_allRegistrations_spec; auto. rewrite A. unfold allRegistrations. split.
    + apply (aget_Some_In akey_eqb akey_eqb_eq).
    + apply (In_aget akey_eqb akey_eqb_eq). apply I.
Qed.

(* ------------------------------------------------------------------ subscribers: the leaf dictionary has the
   single key '' *)
Definition skeys0 (b : list (trie (list value))) : Prop :=
  forall i q x, length q = S (S i) -> tfind q (order_get b i) = Some x -> nth (S i) q 0 = 0.

Lemma skeys0_nil : skeys0 [].
Proof. intros i q x L F. unfold order_get in F. rewrite nth_overflow in F; [|cbn; lia]. rewrite tfind_tempty in F; [discriminate | destruct q; [cbn in L; lia | discriminate]]. Qed.

Lemma skeys0_pad b o : skeys0 b -> skeys0 (pad b o).
Proof. intros H i q x L F. rewrite order_get_pad in F. eapply H; eauto. Qed.
Lemma skeys0_strip b : skeys0 b -> skeys0 (strip b).
Proof. intros H i q x L F. rewrite order_get_strip in F. eapply H; eauto. Qed.

Lemma skeys0_upsert b o path f : length path = S o -> o < length b -> skeys0 b ->
  skeys0 (set_nth b o (tupsert path 0 f (order_get b o))).
Proof.
  intros Lp Lb H i q x L F.
  rewrite (bfind_upsert b o path 0 f q i Lp Lb L) in F.
  destruct (Nat.eq_dec i o) as [->|NE]; [|eapply H; eauto].
  destruct (list_eq_dec Nat.eq_dec q (path ++ [0])) as [->|NQ]; [|eapply H; eauto].
  rewrite app_nth2; [|lia]. rewrite Lp, Nat.sub_diag. reflexivity.
Qed.

Lemma skeys0_remove b o path : length path = S o -> o < length b -> wfd okl (S o) (order_get b o) -> skeys0 b ->
  skeys0 (set_nth b o (tremove path 0 (order_get b o))).
Proof.
  intros Lp Lb Wf H i q x L F.
  rewrite (bfind_remove okl b o path 0 q i Lp Lb L Wf) in F.
  destruct (Nat.eq_dec i o) as [->|NE]; [|eapply H; eauto].
  destruct (list_eq_dec Nat.eq_dec q (path ++ [0])) as [->|NQ]; [discriminate | eapply H; eauto].
Qed.

Definition sk (t : treg) : Prop := skeys0 (t_subscribers t).

Lemma t_subscribers_unregister W t req p n v : t_subscribers (t_unregister W t req p n v) = t_subscribers t.
Proof.
  unfold t_unregister. cbv zeta.
  repeat match goal with |- context [match ?x with _ => _ end] => destruct x end; reflexivity.
Qed.

Lemma t_subscribers_register W t req p n v : t_subscribers (t_register W t req p n v) = t_subscribers t.
Proof.
  destruct v as [v'|]; [|apply t_subscribers_unregister].
  unfold t_register. cbv zeta.
  repeat match goal with |- context [match ?x with _ => _ end] => destruct x end; reflexivity.
Qed.

Lemma sk_subscribe W t req p v : sk t -> sk (t_subscribe W t req p v).
Proof.
  intros H. unfold sk, t_subscribe. cbv zeta. cbn [t_subscribers with_bk].
  apply skeys0_upsert; [rewrite app_length; cbn; lia | apply length_pad | apply skeys0_pad; auto].
Qed.

Lemma sk_unsubscribe W t req p v : TrieInv t -> sk t -> sk (t_unsubscribe W t req p v).
Proof.
  intros (_ & Bs & _) H. unfold sk, t_unsubscribe. cbv zeta.
  destruct (Nat.leb (length (t_subscribers t)) (length (map conv req))) eqn:LE; auto.
  apply Nat.leb_gt in LE.
  destruct (leaf_tuple _) as [|x old'] eqn:EO; auto.
  match goal with |- context [Nat.eqb ?a ?b] => destruct (Nat.eqb a b) end; auto.
  cbn [t_subscribers with_bk].
  match goal with |- skeys0 (match ?new with [] => _ | _ => _ end) => destruct new end.
  - apply skeys0_strip, skeys0_remove; [rewrite app_length; cbn; lia | exact LE | apply Bs | exact H].
  - apply skeys0_upsert; [rewrite app_length; cbn; lia | exact LE | exact H].
Qed.

(* ------------------------------------------------------------------ R together with the leaf-key invariant *)
Definition R2 (W : world) (t : treg) (r : reg) : Prop := R W t r /\ sk t.

Section Sim2.
  Variable W : world.

  Lemma sim2_register t r req p n v : R2 W t r -> R2 W (t_register W t req p n v) (register W r req p n v).
  Proof. intros [H K]. split; [apply sim_register; auto|]. unfold sk. rewrite t_subscribers_register. exact K. Qed.

  Lemma sim2_unregister t r req p n v : R2 W t r -> R2 W (t_unregister W t req p n v) (unregister W r req p n v).
  Proof. intros [H K]. split; [apply sim_unregister; auto|]. unfold sk. rewrite t_subscribers_unregister. exact K. Qed.

  Lemma sim2_subscribe t r req p v : R2 W t r -> R2 W (t_subscribe W t req p v) (subscribe W r req p v).
  Proof. intros [H K]. split; [apply sim_subscribe; auto | apply sk_subscribe; auto]. Qed.

  Lemma sim2_unsubscribe t r req p v : R2 W t r -> R2 W (t_unsubscribe W t req p v) (unsubscribe W r req p v).
  Proof. intros [H K]. split; [apply sim_unsubscribe; auto | apply sk_unsubscribe; auto; apply H]. Qed.

  Lemma R2_fresh g : R2 W (t_fresh g) (fresh_reg g).
  Proof. split; [apply R_fresh | apply skeys0_nil]. Qed.
  Lemma R2_empty : R2 W t_empty empty_reg.
  Proof. split; [apply R_empty | apply skeys0_nil]. Qed.

  Lemma sim2_replay regs subs : forall t0 r0, R2 W t0 r0 ->
    R2 W (t_replay W t0 regs subs) (replay_into W r0 regs subs).
  Proof.
    unfold t_replay, replay_into, replay_regs, replay_subs.
    assert (H1 : forall regs t0 r0, R2 W t0 r0 ->
              R2 W (fold_left (fun acc kv => let '(req, p, n) := fst kv in
                                             t_register W acc (map Some req) p n (Some (snd kv))) regs t0)
                   (fold_left (fun acc kv => let '(req, p, n) := fst kv in
                                             register W acc (map Some req) p n (Some (snd kv))) regs r0)).
    { induction regs0 as [|[[[rq p] n] v] regs0 IH]; intros t0 r0 H; cbn [fold_left fst snd]; auto.
      apply IH. apply sim2_register; auto. }
    assert (H2 : forall subs t0 r0, R2 W t0 r0 ->
              R2 W (fold_left (fun acc kv => t_subscribe W acc (map Some (fst (fst kv))) (snd (fst kv)) (snd kv)) subs t0)
                   (fold_left (fun acc kv => subscribe W acc (map Some (fst (fst kv))) (snd (fst kv)) (snd kv)) subs r0)).
    { induction subs0 as [|[[rq p] v] subs0 IH]; intros t0 r0 H; cbn [fold_left fst snd]; auto.
      apply IH. apply sim2_subscribe; auto. }
    intros t0 r0 H. apply H2, H1, H.
  Qed.

  Lemma lock_step_R2 t r o : R2 W t r -> R2 W (fst (lock_step W (t, r) o)) (snd (lock_step W (t, r) o)).
  Proof.
    intros H. destruct o; cbn [lock_step fst snd t_bstep bstep].
    - apply sim2_register; auto.
    - apply sim2_unregister; auto.
    - apply sim2_subscribe; auto.
    - apply sim2_unsubscribe; auto.
    - unfold t_rebuild. destruct H as [(_ & _ & _ & _ & (_ & _ & G)) _]. cbn [bk generation] in G. rewrite G.
      apply sim2_replay. apply R2_fresh.
  Qed.

  Lemma lock_run_R2 ops : R2 W (fst (lock_run W ops)) (snd (lock_run W ops)).
  Proof.
    unfold lock_run. induction ops as [|o ops IH] using rev_ind; [apply R2_empty|].
    rewrite fold_left_app. cbn [fold_left]. destruct (fold_left (lock_step W) ops (t_empty, empty_reg)) as [t r].
    apply lock_step_R2; auto.
  Qed.
End Sim2.

(* ------------------------------------------------------------------ the subscription listing *)
Definition abs_s (t : treg) : list (skey * list value) :=
  flat_map (fun e => let '(i, (path, x)) := e in
                     match x with
                     | Leaf l => [((firstn i path, unpkey (nth i path 0)), l)]
                     | Node _ => []
                     end) (all_entries_from 0 (t_subscribers t)).

Lemma flat_map_flat_map {A B C} (g : B -> list C) (f : A -> list B) l :
  flat_map g (flat_map f l) = flat_map (fun x => flat_map g (f x)) l.
Proof. induction l as [|a l IH]; cbn; auto. rewrite flat_map_app, IH. reflexivity. Qed.

Lemma t_allSubscriptions_abs t :
  t_allSubscriptions t = flat_map (fun kv => map (fun v => (fst kv, v)) (snd kv)) (abs_s t).
Proof.
  unfold t_allSubscriptions, abs_s. rewrite flat_map_flat_map. apply flat_map_ext_in'.
  intros (i & path & [l|l]) _; cbn; [rewrite app_nil_r|]; reflexivity.
Qed.

Lemma pkey_unpkey k : pkey (unpkey k) = k.
Proof. destruct k; reflexivity. Qed.
Lemma unpkey_inj k k' : unpkey k = unpkey k' -> k = k'.
Proof. destruct k, k'; cbn; congruence. Qed.

Lemma abs_s_spec t : binv okl (t_subscribers t) -> sk t -> forall k l,
  In (k, l) (abs_s t) <-> (l <> [] /\ sfind (t_subscribers t) k = l).
Proof.
  intros B K k l.
  assert (Wf : forall j, wfd okl (S (0 + j)) (order_get (t_subscribers t) j)) by (intros j; apply B).
  unfold abs_s. rewrite in_flat_map. split.
  - intros ((i & path & x) & H & H').
    apply (all_entries_spec okl (t_subscribers t) 0 Wf) in H. destruct H as (j & -> & Lj & Lp & F). cbn [Nat.add] in *.
    destruct x as [l'|l']; [|destruct H']. destruct H' as [H'|[]]. inversion H'; subst.
    destruct (tfind_full_leaf okl (S j) _ path (Leaf l) (B j) Lp F) as (l0 & E0 & OK). inversion E0; subst l0.
    split; [exact OK|].
    destruct (path_split j path Lp) as [E1 E2]. pose proof (K j path (Leaf l) Lp F) as Z.
    unfold sfind. cbn [fst snd]. rewrite pkey_unpkey.
    change (leaf_tuple (tfind (firstn j path ++ [nth j path 0; 0]) (order_get (t_subscribers t) (length (firstn j path)))) = l).
    assert (E1' : firstn j path ++ [nth j path 0; 0] = path).
    { transitivity (firstn j path ++ [nth j path 0; nth (S j) path 0]); [f_equal; f_equal; f_equal; symmetry; exact Z | symmetry; exact E1]. }
    rewrite E2, E1', F. reflexivity.
  - destruct k as [req p]. intros [NE S]. unfold sfind in S. cbn [fst snd] in S.
    destruct (tfind (req ++ [pkey p; 0]) (order_get (t_subscribers t) (length req))) as [[l'|l']|] eqn:F; cbn in S; try congruence.
    subst l'.
    exists (length req, (req ++ [pkey p; 0], Leaf l)). split.
    + apply (all_entries_spec okl (t_subscribers t) 0 Wf).
      exists (length req). cbn. split; auto. split.
      * destruct (Nat.lt_ge_cases (length req) (length (t_subscribers t))) as [L|L]; auto.
        unfold order_get in F. rewrite nth_overflow in F; auto.
        rewrite tfind_tempty in F; [discriminate | destruct req; discriminate].
      * split; [rewrite app_length; cbn; lia | exact F].
    + destruct (key_of_path req (pkey p) 0) as (E1 & E2 & E3). cbv beta iota. left.
      f_equal. f_equal; [exact E1|]. 
      transitivity (unpkey (pkey p)); [f_equal; exact E2 | destruct p; reflexivity].
Qed.

Lemma abs_s_nodup t : binv okl (t_subscribers t) -> sk t -> NoDup (map fst (abs_s t)).
Proof.
  intros B K. unfold abs_s. rewrite map_flat_map.
  assert (Wf : forall j, wfd okl (S (0 + j)) (order_get (t_subscribers t) j)) by (intros j; apply B).
  pose proof (all_entries_nodup okl (t_subscribers t) 0 Wf) as NE.
  apply NoDup_flat_map_disjoint.
  - apply (NoDup_map_inv ipath). exact NE.
  - intros (i & path & [v|l]) _; cbn; repeat constructor. cbn. tauto.
  - intros (i & path & x) (i' & path' & x') z H H' Hz Hz'.
    pose proof H as S1. pose proof H' as S2.
    apply (all_entries_spec okl (t_subscribers t) 0 Wf) in S1. apply (all_entries_spec okl (t_subscribers t) 0 Wf) in S2.
    destruct S1 as (j & Ej & _ & L & F). destruct S2 as (j' & Ej' & _ & L' & F'). cbn in Ej, Ej'. subst j j'.
    destruct x as [v|l]; [|destruct Hz]. destruct x' as [v'|l']; [|destruct Hz'].
    cbn in Hz, Hz'. destruct Hz as [Hz|[]]. destruct Hz' as [Hz'|[]]. rewrite <- Hz in Hz'. inversion Hz' as [[E1 E2]].
    apply unpkey_inj in E2.
    pose proof (K i path _ L F) as Z. pose proof (K i' path' _ L' F') as Z'.
    destruct (ipath_key_inj i' path' i path L' L E1 E2) as [-> ->]; [congruence|].
    apply (NoDup_map_elim ipath _ _ _ NE H H'). reflexivity.
Qed.

Lemma t_allSubscriptions_proj t : binv okl (t_subscribers t) -> sk t -> forall k,
  map snd (filter (fun kv : skey * value => skey_eqb (fst kv) k) (t_allSubscriptions t)) = sfind (t_subscribers t) k.
Proof.
  intros B K k. rewrite t_allSubscriptions_abs, proj_allsubs; [|apply abs_s_nodup; auto].
  destruct (aget skey_eqb (abs_s t) k) as [l|] eqn:E.
  - apply (aget_Some_In skey_eqb skey_eqb_eq) in E. apply (abs_s_spec t B K) in E. symmetry. apply E.
  - destruct (sfind (t_subscribers t) k) as [|x l] eqn:S; auto. exfalso.
    apply (aget_None_notin skey_eqb skey_eqb_eq) in E. apply E.
    assert (H : In (k, x :: l) (abs_s t)) by (apply (abs_s_spec t B K); split; [discriminate | exact S]).
    apply (in_map fst) in H. exact H.
Qed.

Lemma abs_s_perm W t r : R2 W t r -> Permutation (abs_s t) (subscribers r).
Proof.
  intros [((_ & Bs & _) & (I & _) & _ & Sf & _) K]. apply NoDup_Permutation.
  - apply NoDup_pairs_of_keys, abs_s_nodup; auto.
  - apply NoDup_pairs_of_keys. apply I.
  - intros [k l]. rewrite (abs_s_spec t Bs K), Sf. split.
    + intros [NE S]. rewrite <- S. apply (aget_Some_In skey_eqb skey_eqb_eq). apply sub_leaf_aget. rewrite S. exact NE.
    + intros H. split; [eapply (inv_ne W r I); eauto|].
      unfold sub_leaf. rewrite (In_aget skey_eqb skey_eqb_eq _ k l); auto. apply I.
Qed.

Lemma t_allSubscriptions_perm W t r : R2 W t r -> Permutation (t_allSubscriptions t) (allSubscriptions r).
Proof.
  intros H. rewrite t_allSubscriptions_abs. unfold allSubscriptions.
  apply Permutation_flat_map. apply (abs_s_perm W t r H).
Qed.

(* ------------------------------------------------------------------ rebuild() in nested order preserves the maps;
   the lockstep flat run and the plain flat run carry the same maps *)
Definition same_maps (r r' : reg) : Prop :=
  (forall k, aget akey_eqb (adapters r) k = aget akey_eqb (adapters r') k)
  /\ (forall k, sub_leaf r k = sub_leaf r' k).

Lemma bop_is_rebuild (o : bop) : {o = BRebuild} + {o <> BRebuild}.
Proof. destruct o; [right|right|right|right|left]; congruence. Qed.

Section Through.
  Variable W : world.

  Lemma nested_replay_preserves t r r0 : R2 W t r -> storage_empty r0 ->
    let r' := replay_into W r0 (t_allRegistrations t) (t_allSubscriptions t) in
    inv W r' /\ same_maps r' r /\ (forall q, cnt_get (provided_cnt r') q = live_count r q).
  Proof.
    intros H E r'. pose proof H as [HR K]. pose proof HR as ((_ & Bs & _) & I & _ & Sf & _).
    destruct (replay_preserves_lemma W r r0 (t_allRegistrations t) (t_allSubscriptions t) I E) as (I' & A' & L' & C').
    - apply (t_allRegistrations_perm W t r HR).
    - apply (t_allSubscriptions_perm W t r H).
    - intros k. rewrite t_allSubscriptions_proj; auto.
    - split; [exact I'|]. split; [split; auto | exact C'].
  Qed.

  Lemma same_maps_bstep r r' o : inv W r -> inv W r' -> same_maps r r' -> o <> BRebuild ->
    same_maps (bstep W r o) (bstep W r' o).
  Proof.
    intros I I' [A S] NB. destruct o as [req p n v|req p n v|req p v|req p v|]; cbn [bstep]; [| | | |congruence].
    - split.
      + intros k. destruct v as [v'|].
        * rewrite !adapters_register, !A. reflexivity.
        * unfold register. rewrite !adapters_unregister; [|apply I'|apply I]. rewrite !A. reflexivity.
      + intros k. rewrite !sub_leaf_register. apply S.
    - split.
      + intros k. rewrite !adapters_unregister; [|apply I'|apply I]. rewrite !A. reflexivity.
      + intros k. rewrite !sub_leaf_unregister. apply S.
    - split.
      + intros k. rewrite !adapters_subscribe. apply A.
      + intros k. rewrite !leaf_subscribe, !S. reflexivity.
    - split.
      + intros k. rewrite !adapters_unsubscribe. apply A.
      + intros k. rewrite !leaf_unsubscribe; [|apply I'|apply I]. rewrite !S. reflexivity.
  Qed.

  Lemma lock_run_same_maps ops :
    same_maps (snd (lock_run W ops)) (brun W ops) /\ inv W (snd (lock_run W ops)).
  Proof.
    induction ops as [|o ops [IH I]] using rev_ind.
    - split; [split; intros; reflexivity | apply inv_empty].
    - pose proof (lock_run_R2 W ops) as H2. pose proof (lock_step_R2 W _ _ o H2) as H2'.
      unfold lock_run in *. rewrite fold_left_app. cbn [fold_left].
      destruct (fold_left (lock_step W) ops (t_empty, empty_reg)) as [t r] eqn:E. cbn [fst snd] in *.
      rewrite brun_snoc. split; [|apply H2'].
      destruct (bop_is_rebuild o) as [->|NB].
      + cbn [lock_step fst snd bstep].
        destruct (nested_replay_preserves t r (fresh_reg (generation r)) H2) as (_ & [A S] & _); [repeat split|].
        destruct (rebuild_preserves_lemma W (brun W ops) (inv_brun W ops)) as (_ & A' & S' & _).
        destruct IH as [A0 S0].
        split; intros k; [rewrite A, A', A0 | rewrite S, S', S0]; reflexivity.
      + assert (E' : snd (lock_step W (t, r) o) = bstep W r o) by (destruct o; auto; congruence).
        rewrite E'. apply same_maps_bstep; auto. apply inv_brun.
  Qed.
End Through.

(* ------------------------------------------------------------------ corollaries *)
Section Corollaries2.
  Variable W : world.

  Lemma lock_run_nd ops : world_ok W -> nd (snd (lock_run W ops)).
  Proof.
    intros WOK.
    assert (H : inv2 W (snd (lock_run W ops))).
    { unfold lock_run. induction ops as [|o ops IH] using rev_ind.
      - split; [apply inv_empty | intros i; constructor].
      - rewrite fold_left_app. cbn [fold_left]. destruct (fold_left (lock_step W) ops (t_empty, empty_reg)) as [t r].
        cbn [snd lock_step fst] in *. destruct o; cbn [bstep].
        + apply inv2_register; auto.
        + apply inv2_unregister; auto.
        + apply inv2_subscribe; auto.
        + apply inv2_unsubscribe; auto.
        + apply inv2_replay; auto. repeat split. }
    apply H.
  Qed.

  (* the nested-dictionary run answers the ledger, through rebuild() *)
  Lemma trie_ledger_lemma ops :
    let t := t_brun W ops in
    (identity_ok (avalues ops) -> forall req p n, t_registered t req p n = aledger ops (akey_of req p n))
    /\ (forall req p v, t_subscribed t req p v = existsb (fun x => v_eq x v) (sledger ops (skey_of req p)))
    /\ (identity_ok (avalues ops) -> forall k v, In (k, v) (t_allRegistrations t) <-> aledger ops k = Some v)
    /\ (forall k, map snd (filter (fun kv : skey * value => skey_eqb (fst kv) k) (t_allSubscriptions t)) = sledger ops k)
    /\ NoDup (map fst (t_allRegistrations t))
    /\ Permutation (t_allRegistrations t) (allRegistrations (brun W ops))
    /\ Permutation (t_allSubscriptions t) (allSubscriptions (brun W ops)).
  Proof.
    intros t. pose proof (lock_run_R2 W ops) as H2. rewrite sim_run_trie in H2. fold t in H2.
    destruct (lock_run_same_maps W ops) as ([A S] & I).
    set (r := snd (lock_run W ops)) in *.
    pose proof H2 as [HR K]. pose proof HR as ((Ba & Bs & _) & _ & Af & Sf & _).
    split; [|split; [|split; [|split; [|split; [|split]]]]].
    - intros ID req p n. change (t_registered t req p n) with (afind (t_adapters t) (map conv req, p, n)).
      rewrite Af, A. apply (registered_is_last_lemma W ops ID).
    - intros req p v. unfold t_subscribed. f_equal.
      change (t_sub_leaf t (map conv req) p) with (sfind (t_subscribers t) (map conv req, p)).
      rewrite Sf, S. apply (sub_leaf_is_ledger W ops).
    - intros ID k v. rewrite t_allRegistrations_spec; auto. rewrite Af, A. rewrite (registered_is_last_lemma W ops ID). reflexivity.
    - intros k. rewrite t_allSubscriptions_proj; auto. rewrite Sf, S. apply (sub_leaf_is_ledger W ops).
    - apply t_allRegistrations_nodup; auto.
    - eapply perm_trans; [apply (t_allRegistrations_perm W t r HR)|].
      pose proof (inv_brun W ops) as [I' _]. destruct I as [I _].
      apply NoDup_Permutation; [apply NoDup_pairs_of_keys, I | apply NoDup_pairs_of_keys, I'|].
      intros [k v]. unfold allRegistrations. split; intros H.
      + apply (aget_Some_In akey_eqb akey_eqb_eq). rewrite <- A. apply (In_aget akey_eqb akey_eqb_eq); auto. apply I.
      + apply (aget_Some_In akey_eqb akey_eqb_eq). rewrite A. apply (In_aget akey_eqb akey_eqb_eq); auto. apply I'.
    - eapply perm_trans; [apply (t_allSubscriptions_perm W t r H2)|].
      unfold allSubscriptions. apply Permutation_flat_map.
      pose proof (inv_brun W ops) as [I' _]. destruct I as [I _].
      apply NoDup_Permutation; [apply NoDup_pairs_of_keys, I | apply NoDup_pairs_of_keys, I'|].
      intros [k l]. split; intros H.
      + apply (aget_Some_In skey_eqb skey_eqb_eq).
        assert (E : sub_leaf r k = l) by (unfold sub_leaf; rewrite (In_aget skey_eqb skey_eqb_eq _ k l); auto; apply I).
        rewrite <- E, S. apply sub_leaf_aget. rewrite <- S, E. eapply (inv_ne W r I); eauto.
      + apply (aget_Some_In skey_eqb skey_eqb_eq).
        assert (E : sub_leaf (brun W ops) k = l) by (unfold sub_leaf; rewrite (In_aget skey_eqb skey_eqb_eq _ k l); auto; apply I').
        rewrite <- E, <- S. apply sub_leaf_aget. rewrite S, E. eapply (inv_ne W _ I'); eauto.
  Qed.

  (* ... and every unambiguous lookup as the plain flat run does *)
  Lemma trie_unambiguous_lemma ops required : identity_ok (avalues ops) ->
    (forall p n, unamb_lookup W (aledger ops) required p n ->
       t_uncached_lookup W [t_brun W ops] required p n = uncached_lookup W [brun W ops] required p n)
    /\ (world_ok W -> forall p,
          match p with Some p' => unamb_subs W (sledger ops) required p' | None => True end ->
          t_uncached_subscriptions W [t_brun W ops] required p = uncached_subscriptions W [brun W ops] required p).
  Proof.
    intros ID. pose proof (lock_run_R2 W ops) as [HR _]. rewrite sim_run_trie in HR.
    destruct (lock_run_same_maps W ops) as ([A S] & I).
    set (r := snd (lock_run W ops)) in *.
    assert (F2 : Forall2 (R W) [t_brun W ops] [r]) by (constructor; [exact HR | constructor]).
    split.
    - intros p n U. rewrite (t_uncached_lookup_flat W _ _ required p n F2).
      apply unambiguous_lookup_coincides_lemma. constructor; [|constructor].
      split; [apply inv_brun|]. split; [exact I|]. split; [exact A|].
      eapply unamb_lookup_ext; [|exact U]. intros k. symmetry. apply registered_is_last_lemma; auto.
    - intros WOK p U. rewrite (t_uncached_subscriptions_flat W _ _ required p F2).
      apply unambiguous_subscriptions_coincide_lemma. constructor; [|constructor].
      split; [apply inv_brun|]. split; [apply (inv2_brun W WOK ops)|]. split; [exact I|].
      split; [apply lock_run_nd; auto|]. split; [exact S|].
      destruct p as [p'|]; auto. eapply unamb_subs_ext; [|exact U]. intros k. symmetry. apply sub_leaf_is_ledger.
  Qed.

  (* any two replays of the listings of a registry satisfying the invariant, in orders that are
     permutations keeping each subscription key's order, answer every unambiguous query identically
     (and as the registry itself does) *)
  Lemma order_irrelevant_lemma r r1 r2 regs1 subs1 regs2 subs2 required :
    inv W r -> storage_empty r1 -> storage_empty r2 ->
    Permutation regs1 (allRegistrations r) -> Permutation subs1 (allSubscriptions r) ->
    (forall k, map snd (filter (fun kv => skey_eqb (fst kv) k) subs1) = sub_leaf r k) ->
    Permutation regs2 (allRegistrations r) -> Permutation subs2 (allSubscriptions r) ->
    (forall k, map snd (filter (fun kv => skey_eqb (fst kv) k) subs2) = sub_leaf r k) ->
    (forall p n, unamb_lookup W (fun k => aget akey_eqb (adapters r) k) required p n ->
       uncached_lookup W [replay_into W r1 regs1 subs1] required p n
       = uncached_lookup W [replay_into W r2 regs2 subs2] required p n
       /\ uncached_lookup W [replay_into W r1 regs1 subs1] required p n = uncached_lookup W [r] required p n)
    /\ (world_ok W -> forall p,
          match p with Some p' => unamb_subs W (fun k => sub_leaf r k) required p' | None => True end ->
          uncached_subscriptions W [replay_into W r1 regs1 subs1] required p
          = uncached_subscriptions W [replay_into W r2 regs2 subs2] required p).
  Proof.
    intros I E1 E2 PR1 PS1 PK1 PR2 PS2 PK2.
    destruct (replay_preserves_lemma W r r1 regs1 subs1 I E1 PR1 PS1 PK1) as (I1 & A1 & L1 & _).
    destruct (replay_preserves_lemma W r r2 regs2 subs2 I E2 PR2 PS2 PK2) as (I2 & A2 & L2 & _).
    split.
    - intros p n U. split.
      + apply unambiguous_lookup_coincides_lemma. constructor; [|constructor].
        split; [exact I2|]. split; [exact I1|]. split; [intros k; rewrite A1, A2; reflexivity|].
        eapply unamb_lookup_ext; [|exact U]. intros k. symmetry. apply A2.
      + apply unambiguous_lookup_coincides_lemma. constructor; [|constructor].
        split; [exact I|]. split; [exact I1|]. split; [exact A1 | exact U].
    - intros WOK p U. apply unambiguous_subscriptions_coincide_lemma. constructor; [|constructor].
      split; [exact I2|]. split; [apply (inv2_replay W WOK r2 regs2 subs2 E2)|]. split; [exact I1|].
      split; [apply (inv2_replay W WOK r1 regs1 subs1 E1)|]. split; [intros k; rewrite L1, L2; reflexivity|].
      destruct p as [p'|]; auto. eapply unamb_subs_ext; [|exact U]. intros k. symmetry. apply L2.
  Qed.
End Corollaries2.
