(* C14 proofs: the model of InterfaceBase.__call__ (Model/Adapt.v) meets the PEP 246
   precedence specification (Spec/Pep246.v); the C fast path equals the Python path for every
   inheritance chain under the current _CALL_CUSTOM_ADAPT / _CALL_CUSTOM_PROVIDEDBY logic. *)
From Coq Require Import List Bool Arith Lia.
Import ListNotations.
From ZI Require Import Model.Adapt Spec.Pep246.

(* ------------------------------------------------------------------ first_yield *)

Lemma first_yield_app l rest :
  first_yield (l ++ rest) =
  let (lg, r) := first_yield l in
  match r with
  | Pass => let (lg', r') := first_yield rest in (lg ++ lg', r')
  | Yield x => (lg, Yield x)
  end.
Proof.
  induction l as [|[evs [|x]] t IH]; cbn [app first_yield].
  - destruct (first_yield rest); reflexivity.
  - rewrite IH. destruct (first_yield t) as [lg [|y]].
    + destruct (first_yield rest) as [lg' r']. rewrite app_assoc. reflexivity.
    + reflexivity.
  - reflexivity.
Qed.

(* the relational reading of first_yield: a passing prefix, then the deciding step *)
Lemma first_yield_prefix l :
  exists pre rest,
    l = pre ++ rest /\ Forall passes pre /\
    match rest with
    | [] => first_yield l = (concat (map fst pre), Pass)
    | s :: _ => exists r, snd s = Yield r /\ first_yield l = (concat (map fst pre) ++ fst s, Yield r)
    end.
Proof.
  induction l as [|[evs [|x]] t IH].
  - exists [], []. cbn. auto.
  - destruct IH as (pre & rest & E & F & H).
    exists ((evs, Pass) :: pre), rest. split; [cbn; congruence|]. split; [constructor; [reflexivity|assumption]|].
    cbn [first_yield map concat fst]. destruct rest as [|s rest'].
    + rewrite H. reflexivity.
    + destruct H as (r & Hs & H). exists r. split; [assumption|]. rewrite H, app_assoc. reflexivity.
  - exists [], ((evs, Yield x) :: t). cbn. split; [reflexivity|]. split; [constructor|]. exists x. auto.
Qed.

(* ------------------------------------------------------------------ provided-check, hooks, default adapt, custom adapt *)

Definition to_sres (r : res (option value)) : sres :=
  match r with
  | Raise x => Yield (RaiseE x)
  | Ok (Some VObj) => Yield ReturnObj
  | Ok (Some (VVal v)) => Yield (Return v)
  | Ok None => Pass
  end.

Definition prov_sres (r : res bool) : sres :=
  match r with
  | Raise x => Yield (RaiseE x)
  | Ok true => Yield ReturnObj
  | Ok false => Pass
  end.

Lemma hooks_spec hs : forall i,
  first_yield (hook_steps i hs) = let (lg, r) := run_hooks i hs in (lg, to_sres r).
Proof.
  induction hs as [|h t IH]; intros i; cbn [hook_steps run_hooks first_yield hook_step].
  - reflexivity.
  - destruct h as [|v|e]; cbn [call_hook].
    + rewrite IH. destruct (run_hooks (S i) t). reflexivity.
    + reflexivity.
    + reflexivity.
Qed.

Lemma prov_spec pdefs o :
  first_yield (prov_steps pdefs o) = let (lg, r) := prov_mro pdefs o in (lg, prov_sres r).
Proof.
  induction pdefs as [|[i b] rest IH]; cbn [prov_steps prov_mro].
  - unfold provided_step. destruct (provides o); reflexivity.
  - destruct b; cbn [first_yield]; try reflexivity.
    rewrite IH. destruct (prov_mro rest o). reflexivity.
Qed.

Lemma default_spec k o :
  first_yield (default_steps (k_prov k) o) = let (lg, r) := py_default_adapt k o in (lg, to_sres r).
Proof.
  unfold default_steps, py_default_adapt. rewrite first_yield_app, prov_spec.
  destruct (prov_mro (k_prov k) o) as [lp [[|]|x]]; cbn [prov_sres to_sres]; try reflexivity.
  rewrite hooks_spec. destruct (run_hooks 0 (hooks o)). reflexivity.
Qed.

Lemma adapt_spec k defs o :
  first_yield (adapt_steps defs (k_prov k) o) =
  let (lg, r) := adapt_mro (py_default_adapt k) defs o in (lg, to_sres r).
Proof.
  induction defs as [|[i b] rest IH]; cbn [adapt_steps adapt_mro].
  - apply default_spec.
  - destruct b; cbn [first_yield]; try reflexivity.
    rewrite IH. destruct (adapt_mro (py_default_adapt k) rest o). reflexivity.
Qed.

(* ------------------------------------------------------------------ the class of a chain *)

Lemma new_kls_adapt p isc i cls l :
  k_adapt (new_kls_gen p isc i cls l) =
  match l_adapt l with Some b => [(i, b)] | None => [] end ++ k_adapt cls.
Proof.
  unfold new_kls_gen, has_methods. destruct (l_plain l), (l_adapt l), (l_prov l), (l_other l); reflexivity.
Qed.

Lemma new_kls_prov p isc i cls l :
  k_prov (new_kls_gen p isc i cls l) =
  match l_prov l with Some b => [(i, b)] | None => [] end ++ k_prov cls.
Proof.
  unfold new_kls_gen, has_methods. destruct (l_plain l), (l_adapt l), (l_prov l), (l_other l); reflexivity.
Qed.

Lemma build_kls_adapt p isc chain : forall i cls,
  k_adapt (build_kls_gen p isc i cls chain) = custom_defs i chain ++ k_adapt cls.
Proof.
  induction chain as [|l t IH]; intros i cls; cbn [build_kls_gen custom_defs].
  - reflexivity.
  - rewrite IH, new_kls_adapt, app_assoc. reflexivity.
Qed.

Lemma build_kls_prov p isc chain : forall i cls,
  k_prov (build_kls_gen p isc i cls chain) = prov_defs i chain ++ k_prov cls.
Proof.
  induction chain as [|l t IH]; intros i cls; cbn [build_kls_gen prov_defs].
  - reflexivity.
  - rewrite IH, new_kls_prov, app_assoc. reflexivity.
Qed.

Lemma chain_adapt p isc chain : k_adapt (type_of_chain_gen p isc chain) = custom_defs 0 chain.
Proof. unfold type_of_chain_gen. rewrite build_kls_adapt. cbn. apply app_nil_r. Qed.

Lemma chain_prov p isc chain : k_prov (type_of_chain_gen p isc chain) = prov_defs 0 chain.
Proof. unfold type_of_chain_gen. rewrite build_kls_prov. cbn. apply app_nil_r. Qed.

(* the invariant the C fast paths rely on: each flag sits in the exact class's dict exactly
   when an override is visible on its MRO *)
Definition flag_ok (k : kls) : Prop :=
  k_flag_own k = negb (is_nil (k_adapt k)) /\ k_flag_mro k = negb (is_nil (k_adapt k)) /\
  k_pflag_own k = negb (is_nil (k_prov k)).

Lemma new_kls_flag_ok p i cls l : flag_ok cls -> flag_ok (new_kls_gen p true i cls l).
Proof.
  intros (Ho & Hm & Hp). unfold new_kls_gen, has_methods, flag_ok.
  destruct (l_plain l), (l_adapt l) as [b|], (l_prov l) as [q|], (l_other l); cbn;
    rewrite ?Hm, ?Hp, ?Ho; destruct p, (k_adapt cls), (k_prov cls); cbn; auto.
Qed.

Lemma build_kls_flag_ok p chain : forall i cls, flag_ok cls -> flag_ok (build_kls_gen p true i cls chain).
Proof.
  induction chain as [|l t IH]; intros i cls H; cbn [build_kls_gen]; [assumption|].
  apply IH, new_kls_flag_ok, H.
Qed.

Lemma chain_flag_ok p chain : flag_ok (type_of_chain p chain).
Proof. apply build_kls_flag_ok. repeat split; reflexivity. Qed.

(* ------------------------------------------------------------------ precedence *)

Lemma call_tail k evs defs o :
  (let (l, r) := first_yield ((evs, Pass) :: adapt_steps defs (k_prov k) o ++ [alternate_step (alternate o)])
   in (l, decide r)) =
  let (lg, a) := adapt_mro (py_default_adapt k) defs o in finish o (evs ++ lg) a.
Proof.
  pose proof (adapt_spec k defs o) as HA.
  destruct (adapt_mro (py_default_adapt k) defs o) as [lg a].
  cbn [first_yield]. rewrite first_yield_app, HA. unfold finish, alternate_step.
  destruct a as [[[|v]|]|x]; cbn [to_sres first_yield decide]; try reflexivity.
  destruct (alternate o); cbn [decide]; rewrite ?app_nil_r; reflexivity.
Qed.

Lemma py_call_spec_defs k o :
  py_call k o = let (lg, r) := first_yield (steps (k_adapt k) (k_prov k) o) in (lg, decide r).
Proof.
  unfold py_call, steps, py_adapt.
  pose proof (call_tail k [EvGetConform] (k_adapt k) o) as H1.
  pose proof (call_tail k [EvGetConform; EvCallConform] (k_adapt k) o) as H2.
  cbn [app] in H1, H2.
  destruct (conf o) as [|e| | |v|e|]; cbn [getattr_conform call_conform apply_conform conform_step
    is_attribute_error is_type_error tb_single].
  - symmetry. exact H1.
  - destruct e as [[| |] t]; cbn [e_kind].
    + symmetry. exact H1.
    + reflexivity.
    + reflexivity.
  - symmetry. exact H1.
  - symmetry. exact H2.
  - reflexivity.
  - destruct e as [[| |] t]; reflexivity.
  - symmetry. exact H2.
Qed.

Lemma call_follows_precedence_gen p isc chain o :
  py_call (type_of_chain_gen p isc chain) o = spec chain o.
Proof. rewrite py_call_spec_defs, chain_adapt, chain_prov. reflexivity. Qed.

Lemma call_follows_precedence p chain o : py_call (type_of_chain p chain) o = spec chain o.
Proof. apply call_follows_precedence_gen. Qed.

Lemma adapt_follows_precedence p chain o :
  (let (lg, r) := py_adapt (type_of_chain p chain) o in (lg, to_sres r)) = spec_adapt chain o.
Proof.
  unfold py_adapt, spec_adapt, type_of_chain. rewrite chain_adapt.
  rewrite <- (chain_prov p true chain), adapt_spec. reflexivity.
Qed.

(* ------------------------------------------------------------------ laziness *)

Lemma lazy_prefix p chain o :
  exists pre rest,
    steps (custom_defs 0 chain) (prov_defs 0 chain) o = pre ++ rest /\ Forall passes pre /\
    match rest with
    | [] => py_call (type_of_chain p chain) o = (concat (map fst pre), RaiseCouldNotAdapt)
    | s :: _ => exists r, snd s = Yield r /\
                py_call (type_of_chain p chain) o = (concat (map fst pre) ++ fst s, r)
    end.
Proof.
  destruct (first_yield_prefix (steps (custom_defs 0 chain) (prov_defs 0 chain) o)) as (pre & rest & E & F & H).
  exists pre, rest. split; [assumption|]. split; [assumption|].
  rewrite call_follows_precedence. unfold spec. destruct rest as [|s rest'].
  - rewrite H. reflexivity.
  - destruct H as (r & Hs & H). exists r. split; [assumption|]. rewrite H. reflexivity.
Qed.

Lemma run_hooks_in hs : forall i j,
  In (EvHook j) (fst (run_hooks i hs)) ->
  i <= j /\ forall m, i <= m -> m < j -> nth_error hs (m - i) = Some HNone.
Proof.
  induction hs as [|h t IH]; intros i j; cbn [run_hooks].
  - cbn. tauto.
  - destruct h as [|v|e]; cbn [call_hook].
    + destruct (run_hooks (S i) t) as [lg r] eqn:E. cbn [fst]. intros [H|H].
      * inversion H; subst. split; [lia|]. intros; lia.
      * specialize (IH (S i) j). rewrite E in IH. destruct (IH H) as [Hle Hm].
        split; [lia|]. intros m H1 H2. destruct (Nat.eq_dec m i) as [->|Hne].
        -- rewrite Nat.sub_diag. reflexivity.
        -- replace (m - i) with (S (m - S i)) by lia. cbn. apply Hm; lia.
    + cbn. intros [H|[]]. inversion H; subst. split; [lia|]. intros; lia.
    + cbn. intros [H|[]]. inversion H; subst. split; [lia|]. intros; lia.
Qed.

Lemma run_hooks_only_hooks hs : forall i x,
  In x (fst (run_hooks i hs)) -> exists j, x = EvHook j /\ i <= j.
Proof.
  induction hs as [|h t IH]; intros i x; cbn [run_hooks].
  - cbn. tauto.
  - destruct h as [|v|e]; cbn [call_hook].
    + destruct (run_hooks (S i) t) as [lg r] eqn:E. cbn [fst]. intros [H|H].
      * exists i. auto.
      * specialize (IH (S i) x). rewrite E in IH. destruct (IH H) as (j & -> & Hle). exists j. split; [auto|lia].
    + cbn. intros [H|[]]. exists i. auto.
    + cbn. intros [H|[]]. exists i. auto.
Qed.

Lemma run_hooks_nodup hs : forall i, NoDup (fst (run_hooks i hs)).
Proof.
  induction hs as [|h t IH]; intros i; cbn [run_hooks].
  - constructor.
  - destruct h as [|v|e]; cbn [call_hook].
    + specialize (IH (S i)). pose proof (run_hooks_only_hooks t (S i)) as HO.
      destruct (run_hooks (S i) t) as [lg r]. cbn [fst] in *. constructor; [|assumption].
      intros H. destruct (HO _ H) as (j & Hj & Hle). inversion Hj. lia.
    + cbn. constructor; [tauto|constructor].
    + cbn. constructor; [tauto|constructor].
Qed.

Definition delegates (d : nat * cbeh) : Prop := snd d = CADelegate.
Definition pdelegates (d : nat * pbeh) : Prop := snd d = PBDelegate.

(* the log of a provided-check: overrides called, then possibly the built-in check *)
Lemma prov_mro_only pdefs o x :
  In x (fst (prov_mro pdefs o)) ->
  x = EvProvided \/ exists i, x = EvCustomProv i /\ In i (map fst pdefs).
Proof.
  induction pdefs as [|[i b] rest IH]; cbn [prov_mro].
  - cbn. intros [<-|[]]. auto.
  - destruct b; try (cbn; intros [<-|[]]; right; exists i; cbn; auto).
    destruct (prov_mro rest o) as [lg r]. cbn [fst map] in *. intros [<-|H].
    + right. exists i. cbn. auto.
    + destruct (IH H) as [->|(i' & -> & Hi)]; [auto|right; exists i'; cbn; auto].
Qed.

Lemma prov_mro_in_builtin pdefs o :
  In EvProvided (fst (prov_mro pdefs o)) -> Forall pdelegates pdefs.
Proof.
  induction pdefs as [|[i b] rest IH]; cbn [prov_mro].
  - constructor.
  - destruct b; try (cbn; intros [H|[]]; discriminate).
    destruct (prov_mro rest o) as [lg r]. cbn [fst] in *. intros [H|H]; [discriminate|].
    constructor; [reflexivity|auto].
Qed.

Lemma prov_mro_nodup pdefs o : NoDup (map fst pdefs) -> NoDup (fst (prov_mro pdefs o)).
Proof.
  induction pdefs as [|[i b] rest IH]; cbn [prov_mro map fst]; intros HN.
  - cbn. constructor; [tauto|constructor].
  - inversion HN as [|? ? Hni HN']; subst.
    destruct b; try (cbn; constructor; [tauto|constructor]).
    specialize (IH HN'). pose proof (prov_mro_only rest o (EvCustomProv i)) as HO.
    destruct (prov_mro rest o) as [lg r]. cbn [fst] in *.
    constructor; [|assumption]. intros H. destruct (HO H) as [E|(i' & E & Hi)].
    + discriminate.
    + inversion E; subst. contradiction.
Qed.

Lemma provided_passes_mro pdefs o :
  provided_passes pdefs o = match snd (prov_mro pdefs o) with Ok false => true | _ => false end.
Proof.
  unfold provided_passes. rewrite prov_spec. destruct (prov_mro pdefs o) as [lg [[|]|x]]; reflexivity.
Qed.

Lemma default_adapt_in_hook k o j :
  In (EvHook j) (fst (py_default_adapt k o)) ->
  provided_passes (k_prov k) o = true /\ forall m, m < j -> nth_error (hooks o) m = Some HNone.
Proof.
  rewrite provided_passes_mro. unfold py_default_adapt.
  pose proof (prov_mro_only (k_prov k) o (EvHook j)) as HP.
  destruct (prov_mro (k_prov k) o) as [lp [[|]|x]]; cbn [fst snd] in *.
  - intros H. destruct (HP H) as [E|(i & E & _)]; discriminate.
  - pose proof (run_hooks_in (hooks o) 0 j) as HR. destruct (run_hooks 0 (hooks o)) as [lg r].
    cbn [fst] in *. rewrite in_app_iff. intros [H|H].
    + destruct (HP H) as [E|(i & E & _)]; discriminate.
    + destruct (HR H) as [_ Hm]. split; [reflexivity|].
      intros m Hlt. specialize (Hm m). rewrite Nat.sub_0_r in Hm. apply Hm; lia.
  - intros H. destruct (HP H) as [E|(i & E & _)]; discriminate.
Qed.

Definition default_event (x : ev) : Prop :=
  x = EvProvided \/ (exists j, x = EvHook j) \/ (exists i, x = EvCustomProv i).

Lemma default_adapt_only k o x :
  In x (fst (py_default_adapt k o)) ->
  x = EvProvided \/ (exists j, x = EvHook j) \/ (exists i, x = EvCustomProv i /\ In i (map fst (k_prov k))).
Proof.
  unfold py_default_adapt.
  pose proof (prov_mro_only (k_prov k) o x) as HP.
  destruct (prov_mro (k_prov k) o) as [lp [[|]|r]]; cbn [fst] in *.
  - intros H. destruct (HP H) as [E|(i & E & Hi)]; eauto.
  - pose proof (run_hooks_only_hooks (hooks o) 0 x) as HR. destruct (run_hooks 0 (hooks o)) as [lg r].
    cbn [fst] in *. rewrite in_app_iff. intros [H|H].
    + destruct (HP H) as [E|(i & E & Hi)]; eauto.
    + destruct (HR H) as (j & -> & _). eauto.
  - intros H. destruct (HP H) as [E|(i & E & Hi)]; eauto.
Qed.

Lemma default_adapt_event k o x : In x (fst (py_default_adapt k o)) -> default_event x.
Proof.
  intros H. destruct (default_adapt_only _ _ _ H) as [E|[E|(i & E & _)]]; unfold default_event; eauto.
Qed.

Lemma default_adapt_in_builtin k o :
  In EvProvided (fst (py_default_adapt k o)) -> Forall pdelegates (k_prov k).
Proof.
  unfold py_default_adapt. pose proof (prov_mro_in_builtin (k_prov k) o) as HP.
  destruct (prov_mro (k_prov k) o) as [lp [[|]|r]]; cbn [fst] in *; auto.
  pose proof (run_hooks_only_hooks (hooks o) 0 EvProvided) as HR. destruct (run_hooks 0 (hooks o)) as [lg r].
  cbn [fst] in *. rewrite in_app_iff. intros [H|H]; [auto|]. destruct (HR H) as (j & E & _). discriminate.
Qed.

Lemma default_adapt_nodup k o : NoDup (map fst (k_prov k)) -> NoDup (fst (py_default_adapt k o)).
Proof.
  intros HN. unfold py_default_adapt.
  pose proof (prov_mro_only (k_prov k) o) as HP. pose proof (prov_mro_nodup (k_prov k) o HN) as HD.
  destruct (prov_mro (k_prov k) o) as [lp [[|]|r]]; cbn [fst] in *; auto.
  pose proof (run_hooks_only_hooks (hooks o) 0) as HR. pose proof (run_hooks_nodup (hooks o) 0) as HH.
  destruct (run_hooks 0 (hooks o)) as [lg r]. cbn [fst] in *.
  clear HN. induction lp as [|a lp IH]; cbn [app]; [assumption|].
  inversion HD; subst. constructor.
  - rewrite in_app_iff. intros [H|H]; [contradiction|].
    destruct (HR _ H) as (j & -> & _). destruct (HP (EvHook j)) as [E|(i & E & _)]; [left; reflexivity| |]; discriminate.
  - apply IH; [|assumption]. intros x Hx. apply HP. right. assumption.
Qed.

(* events of the default adapt appear only below a stack of delegating customs *)
Lemma adapt_mro_in_default k defs o x :
  default_event x ->
  In x (fst (adapt_mro (py_default_adapt k) defs o)) ->
  Forall delegates defs /\ In x (fst (py_default_adapt k o)).
Proof.
  intros Hx. induction defs as [|[i b] rest IH]; cbn [adapt_mro].
  - intros H. split; [constructor|assumption].
  - assert (HN : x <> EvCustom i) by (destruct Hx as [->|[[j ->]|[j ->]]]; discriminate).
    destruct b; try (cbn; intros [H|[]]; congruence).
    destruct (adapt_mro (py_default_adapt k) rest o) as [lg r]. cbn [fst] in *. intros [H|H].
    + congruence.
    + destruct (IH H) as [F I]. split; [constructor; [reflexivity|assumption]|assumption].
Qed.

Lemma adapt_mro_only k defs o x :
  In x (fst (adapt_mro (py_default_adapt k) defs o)) ->
  (exists i, x = EvCustom i /\ In i (map fst defs)) \/ In x (fst (py_default_adapt k o)).
Proof.
  induction defs as [|[i b] rest IH]; cbn [adapt_mro].
  - auto.
  - destruct b; try (cbn; intros [<-|[]]; left; exists i; cbn; auto).
    destruct (adapt_mro (py_default_adapt k) rest o) as [lg r]. cbn [fst map] in *. intros [<-|H].
    + left. exists i. cbn. auto.
    + destruct (IH H) as [(i' & -> & Hi)|Hd]; [left; exists i'; cbn; auto|right; assumption].
Qed.

Lemma adapt_mro_nodup k defs o :
  NoDup (map fst defs) -> NoDup (map fst (k_prov k)) ->
  NoDup (fst (adapt_mro (py_default_adapt k) defs o)).
Proof.
  intros HN HP. induction defs as [|[i b] rest IH]; cbn [adapt_mro map fst] in *.
  - apply default_adapt_nodup, HP.
  - inversion HN as [|? ? Hni HN']; subst.
    destruct b; try (cbn; constructor; [tauto|constructor]).
    specialize (IH HN'). pose proof (adapt_mro_only k rest o (EvCustom i)) as HO.
    destruct (adapt_mro (py_default_adapt k) rest o) as [lg r]. cbn [fst] in *.
    constructor; [|assumption]. intros H. destruct (HO H) as [(i' & E & Hi)|Hd].
    + inversion E; subst. contradiction.
    + destruct (default_adapt_event _ _ _ Hd) as [E|[[j E]|[j E]]]; discriminate.
Qed.

Lemma nodup_snoc {A} (l : list A) a : NoDup l -> ~ In a l -> NoDup (l ++ [a]).
Proof.
  induction l as [|x l IH]; cbn; intros HN Hn.
  - constructor; [tauto|constructor].
  - inversion HN; subst. constructor.
    + rewrite in_app_iff. cbn. intuition.
    + apply IH; [assumption|]. intuition.
Qed.

Lemma custom_defs_ge chain : forall i j, In j (map fst (custom_defs i chain)) -> i <= j.
Proof.
  induction chain as [|l t IH]; intros i j; cbn [custom_defs]; [cbn; tauto|].
  rewrite map_app, in_app_iff. intros [H|H].
  - apply IH in H. lia.
  - destruct (l_adapt l); cbn in H; [destruct H as [<-|[]]; lia|tauto].
Qed.

Lemma custom_defs_nodup chain : forall i, NoDup (map fst (custom_defs i chain)).
Proof.
  induction chain as [|l t IH]; intros i; cbn [custom_defs]; [constructor|].
  rewrite map_app. destruct (l_adapt l); cbn [map fst].
  - apply nodup_snoc; [apply IH|]. intros H. apply custom_defs_ge in H. lia.
  - rewrite app_nil_r. apply IH.
Qed.

Lemma prov_defs_ge chain : forall i j, In j (map fst (prov_defs i chain)) -> i <= j.
Proof.
  induction chain as [|l t IH]; intros i j; cbn [prov_defs]; [cbn; tauto|].
  rewrite map_app, in_app_iff. intros [H|H].
  - apply IH in H. lia.
  - destruct (l_prov l); cbn in H; [destruct H as [<-|[]]; lia|tauto].
Qed.

Lemma prov_defs_nodup chain : forall i, NoDup (map fst (prov_defs i chain)).
Proof.
  induction chain as [|l t IH]; intros i; cbn [prov_defs]; [constructor|].
  rewrite map_app. destruct (l_prov l); cbn [map fst].
  - apply nodup_snoc; [apply IH|]. intros H. apply prov_defs_ge in H. lia.
  - rewrite app_nil_r. apply IH.
Qed.

Lemma py_call_log_split k o :
  exists pre, (pre = [EvGetConform] \/ pre = [EvGetConform; EvCallConform]) /\
    ((conform_passes (conf o) = false /\ fst (py_call k o) = pre) \/
     (conform_passes (conf o) = true /\ fst (py_call k o) = pre ++ fst (py_adapt k o))).
Proof.
  unfold py_call, conform_passes.
  assert (HF : forall lg0, fst (let (lg, r) := py_adapt k o in finish o (lg0 ++ lg) r) = lg0 ++ fst (py_adapt k o)).
  { intros lg0. destruct (py_adapt k o) as [lg a]. unfold finish.
    destruct a as [[[|v]|]|x]; try reflexivity. destruct (alternate o); reflexivity. }
  destruct (conf o) as [|e| | |v|e|]; cbn [getattr_conform call_conform apply_conform conform_step
    is_attribute_error is_type_error tb_single snd].
  - exists [EvGetConform]. split; [auto|]. right. split; [reflexivity|]. apply (HF [EvGetConform]).
  - exists [EvGetConform]. split; [auto|]. destruct e as [[| |] t]; cbn [e_kind].
    + right. split; [reflexivity|]. apply (HF [EvGetConform]).
    + left. split; reflexivity.
    + left. split; reflexivity.
  - exists [EvGetConform]. split; [auto|]. right. split; [reflexivity|]. apply (HF [EvGetConform]).
  - exists [EvGetConform; EvCallConform]. split; [auto|]. right. split; [reflexivity|].
    apply (HF [EvGetConform; EvCallConform]).
  - exists [EvGetConform; EvCallConform]. split; [auto|]. left. split; reflexivity.
  - exists [EvGetConform; EvCallConform]. split; [auto|]. left. destruct e as [[| |] t]; split; reflexivity.
  - exists [EvGetConform; EvCallConform]. split; [auto|]. right. split; [reflexivity|].
    apply (HF [EvGetConform; EvCallConform]).
Qed.

Lemma py_call_in_adapt k o x :
  (x <> EvGetConform /\ x <> EvCallConform) ->
  In x (fst (py_call k o)) -> conform_passes (conf o) = true /\ In x (fst (py_adapt k o)).
Proof.
  intros [N1 N2] H. destruct (py_call_log_split k o) as (pre & Hpre & [[_ E]|[Hc E]]).
  - rewrite E in H. destruct Hpre as [->| ->]; cbn in H; intuition congruence.
  - split; [assumption|]. rewrite E, in_app_iff in H. destruct H as [H|H]; [|assumption].
    destruct Hpre as [->| ->]; cbn in H; intuition congruence.
Qed.

Lemma lazy_hooks p chain o i :
  In (EvHook i) (fst (py_call (type_of_chain p chain) o)) ->
  conform_passes (conf o) = true /\ provided_passes (prov_defs 0 chain) o = true /\
  (forall j, j < i -> nth_error (hooks o) j = Some HNone) /\
  Forall delegates (custom_defs 0 chain).
Proof.
  intros H. apply py_call_in_adapt in H; [|split; discriminate]. destruct H as [Hc H].
  unfold py_adapt, type_of_chain in H. rewrite chain_adapt in H.
  apply adapt_mro_in_default in H; [|right; left; exists i; reflexivity]. destruct H as [F H].
  apply default_adapt_in_hook in H. rewrite chain_prov in H. destruct H as [Hp Hm]. auto.
Qed.

Lemma lazy_provided p chain o :
  In EvProvided (fst (py_call (type_of_chain p chain) o)) ->
  conform_passes (conf o) = true /\ Forall delegates (custom_defs 0 chain) /\
  Forall pdelegates (prov_defs 0 chain).
Proof.
  intros H. apply py_call_in_adapt in H; [|split; discriminate]. destruct H as [Hc H].
  unfold py_adapt, type_of_chain in H. rewrite chain_adapt in H.
  apply adapt_mro_in_default in H; [|left; reflexivity]. destruct H as [F H].
  apply default_adapt_in_builtin in H. rewrite chain_prov in H. auto.
Qed.

Lemma lazy_custom_prov p chain o i :
  In (EvCustomProv i) (fst (py_call (type_of_chain p chain) o)) ->
  conform_passes (conf o) = true /\ Forall delegates (custom_defs 0 chain).
Proof.
  intros H. apply py_call_in_adapt in H; [|split; discriminate]. destruct H as [Hc H].
  unfold py_adapt, type_of_chain in H. rewrite chain_adapt in H.
  apply adapt_mro_in_default in H; [|right; right; exists i; reflexivity]. destruct H as [F _]. auto.
Qed.

Lemma log_nodup p chain o : NoDup (fst (py_call (type_of_chain p chain) o)).
Proof.
  set (k := type_of_chain p chain).
  assert (HA : k_adapt k = custom_defs 0 chain) by apply chain_adapt.
  assert (HP : k_prov k = prov_defs 0 chain) by apply chain_prov.
  pose proof (adapt_mro_nodup k (k_adapt k) o) as HN.
  rewrite HA, HP in HN. specialize (HN (custom_defs_nodup chain 0) (prov_defs_nodup chain 0)).
  pose proof (adapt_mro_only k (custom_defs 0 chain) o) as HO.
  destruct (py_call_log_split k o) as (pre & Hpre & [[_ E]|[_ E]]); rewrite E.
  - destruct Hpre as [->| ->]; repeat constructor; cbn; intuition discriminate.
  - unfold py_adapt. rewrite HA.
    assert (HX : forall x, In x (fst (adapt_mro (py_default_adapt k) (custom_defs 0 chain) o)) ->
                 x <> EvGetConform /\ x <> EvCallConform).
    { intros x Hx. destruct (HO x Hx) as [(i & -> & _)|Hd]; [split; discriminate|].
      destruct (default_adapt_event _ _ _ Hd) as [->|[[j ->]|[j ->]]]; split; discriminate. }
    destruct Hpre as [->| ->]; cbn [app].
    + constructor; [|assumption]. intros Hin. apply HX in Hin. tauto.
    + constructor; [|constructor; [|assumption]].
      * cbn. intros [Hd|Hin]; [discriminate|]. apply HX in Hin. tauto.
      * intros Hin. apply HX in Hin. tauto.
Qed.

(* ------------------------------------------------------------------ exceptions *)

Lemma spec_conform_decides chain o r :
  snd (conform_step (conf o)) = Yield r -> snd (spec chain o) = r.
Proof.
  unfold spec, steps. cbn [first_yield]. destruct (conform_step (conf o)) as [evs [|x]]; cbn [snd].
  - discriminate.
  - intros E. inversion E. reflexivity.
Qed.

Lemma spec_after_conform chain o :
  conform_passes (conf o) = true ->
  snd (spec chain o) =
  decide (snd (first_yield (adapt_steps (custom_defs 0 chain) (prov_defs 0 chain) o
                            ++ [alternate_step (alternate o)]))).
Proof.
  unfold spec, steps, conform_passes. cbn [first_yield].
  destruct (conform_step (conf o)) as [evs [|x]]; cbn [snd]; [|discriminate]. intros _.
  destruct (first_yield (adapt_steps (custom_defs 0 chain) (prov_defs 0 chain) o
                         ++ [alternate_step (alternate o)])).
  reflexivity.
Qed.

Lemma hook_steps_raise pre : forall i e post,
  Forall (fun h => h = HNone) pre ->
  snd (first_yield (hook_steps i (pre ++ HRaise e :: post))) = Yield (RaiseE (User e)).
Proof.
  induction pre as [|h t IH]; intros i e post F; cbn [app hook_steps first_yield hook_step].
  - reflexivity.
  - inversion F; subst. specialize (IH (S i) e post H2).
    destruct (first_yield (hook_steps (S i) (t ++ HRaise e :: post))). cbn [snd] in *. assumption.
Qed.

Lemma adapt_steps_delegates dels : forall rest pdefs o,
  Forall delegates dels ->
  snd (first_yield (adapt_steps (dels ++ rest) pdefs o)) = snd (first_yield (adapt_steps rest pdefs o)).
Proof.
  induction dels as [|[i b] t IH]; intros rest pdefs o F; cbn [app]; [reflexivity|].
  inversion F as [|? ? Hd F']; subst. unfold delegates in Hd. cbn in Hd. subst b.
  cbn [adapt_steps first_yield]. specialize (IH rest pdefs o F').
  destruct (first_yield (adapt_steps (t ++ rest) pdefs o)). cbn [snd] in *. assumption.
Qed.

Lemma prov_steps_delegates dels : forall rest o,
  Forall pdelegates dels ->
  snd (first_yield (prov_steps (dels ++ rest) o)) = snd (first_yield (prov_steps rest o)).
Proof.
  induction dels as [|[i b] t IH]; intros rest o F; cbn [app]; [reflexivity|].
  inversion F as [|? ? Hd F']; subst. unfold pdelegates in Hd. cbn in Hd. subst b.
  cbn [prov_steps first_yield]. specialize (IH rest o F').
  destruct (first_yield (prov_steps (t ++ rest) o)). cbn [snd] in *. assumption.
Qed.

Lemma snd_first_yield_app_yield l rest x :
  snd (first_yield l) = Yield x -> snd (first_yield (l ++ rest)) = Yield x.
Proof.
  intros H. rewrite first_yield_app. destruct (first_yield l) as [lg [|y]]; cbn [snd] in *.
  - discriminate.
  - assumption.
Qed.

Lemma snd_first_yield_app_pass l rest :
  snd (first_yield l) = Pass -> snd (first_yield (l ++ rest)) = snd (first_yield rest).
Proof.
  intros H. rewrite first_yield_app. destruct (first_yield l) as [lg [|y]]; cbn [snd] in *.
  - destruct (first_yield rest). reflexivity.
  - discriminate.
Qed.

Lemma exceptions_propagate p chain o e :
  let out := snd (py_call (type_of_chain p chain) o) in
  (conf o = CGetRaise e -> e_kind e <> EAttr -> out = RaiseE (User e)) /\
  (conf o = CRaise e -> out = RaiseE (User e)) /\
  (conform_passes (conf o) = true ->
     forall dels i rest, custom_defs 0 chain = dels ++ (i, CARaise e) :: rest ->
     Forall delegates dels -> out = RaiseE (User e)) /\
  (conform_passes (conf o) = true -> Forall delegates (custom_defs 0 chain) ->
     forall pdels i rest, prov_defs 0 chain = pdels ++ (i, PBRaise e) :: rest ->
     Forall pdelegates pdels -> out = RaiseE (User e)) /\
  (conform_passes (conf o) = true -> Forall delegates (custom_defs 0 chain) ->
     provided_passes (prov_defs 0 chain) o = true ->
     forall pre post, hooks o = pre ++ HRaise e :: post -> Forall (fun h => h = HNone) pre ->
     out = RaiseE (User e)).
Proof.
  cbn zeta. rewrite call_follows_precedence. repeat split.
  - intros Hc Hk. apply spec_conform_decides. rewrite Hc. cbn. destruct (e_kind e); congruence.
  - intros Hc. apply spec_conform_decides. rewrite Hc. reflexivity.
  - intros Hc dels i rest Hd F. rewrite spec_after_conform by assumption. rewrite Hd.
    erewrite snd_first_yield_app_yield; [reflexivity|].
    rewrite adapt_steps_delegates by assumption. reflexivity.
  - intros Hc F pdels i rest Hd Fp. rewrite spec_after_conform by assumption.
    erewrite snd_first_yield_app_yield; [reflexivity|].
    rewrite <- (app_nil_r (custom_defs 0 chain)), adapt_steps_delegates by assumption.
    cbn [adapt_steps]. unfold default_steps. apply snd_first_yield_app_yield.
    rewrite Hd, prov_steps_delegates by assumption. reflexivity.
  - intros Hc F Hp pre post Hh Fp. rewrite spec_after_conform by assumption.
    erewrite snd_first_yield_app_yield; [reflexivity|].
    rewrite <- (app_nil_r (custom_defs 0 chain)), adapt_steps_delegates by assumption.
    cbn [adapt_steps]. unfold default_steps. rewrite snd_first_yield_app_pass.
    + rewrite Hh. apply hook_steps_raise, Fp.
    + unfold provided_passes in Hp. destruct (snd (first_yield (prov_steps (prov_defs 0 chain) o))); congruence.
Qed.

(* converse: every exception that comes out was raised by one of the behaviours *)
Lemma run_hooks_raise_source hs : forall i lg r,
  run_hooks i hs = (lg, Raise r) -> exists e, r = User e /\ In (HRaise e) hs.
Proof.
  induction hs as [|h t IH]; intros i lg r; cbn [run_hooks]; [discriminate|].
  destruct h as [|v|e]; cbn [call_hook].
  - destruct (run_hooks (S i) t) as [lg' r'] eqn:E. intros H. inversion H; subst.
    destruct (IH _ _ _ E) as (e & -> & Hin). exists e. cbn. auto.
  - discriminate.
  - intros H. inversion H; subst. exists e. cbn. auto.
Qed.

Lemma prov_mro_raise_source pdefs o : forall lg r,
  prov_mro pdefs o = (lg, Raise r) -> exists e i, r = User e /\ In (i, PBRaise e) pdefs.
Proof.
  induction pdefs as [|[i b] rest IH]; intros lg r; cbn [prov_mro]; [discriminate|].
  destruct b; try discriminate.
  - intros H. inversion H; subst. exists e, i. cbn. auto.
  - destruct (prov_mro rest o) as [lg' r'] eqn:E. intros H. inversion H; subst.
    destruct (IH _ _ eq_refl) as (e & i' & -> & Hin). exists e, i'. cbn. auto.
Qed.

Definition raise_source (defs : list (nat * cbeh)) (pdefs : list (nat * pbeh)) (o : obj) (e : exn) : Prop :=
  In (HRaise e) (hooks o) \/ (exists i, In (i, CARaise e) defs) \/ (exists i, In (i, PBRaise e) pdefs).

Lemma default_adapt_raise_source k o lg r :
  py_default_adapt k o = (lg, Raise r) -> exists e, r = User e /\ raise_source [] (k_prov k) o e.
Proof.
  unfold py_default_adapt. destruct (prov_mro (k_prov k) o) as [lp [[|]|x]] eqn:EP.
  - discriminate.
  - destruct (run_hooks 0 (hooks o)) as [lg' r'] eqn:E. intros H. inversion H; subst.
    destruct (run_hooks_raise_source _ _ _ _ E) as (e & -> & Hin). exists e. split; [reflexivity|]. left. assumption.
  - intros H. inversion H; subst. destruct (prov_mro_raise_source _ _ _ _ EP) as (e & i & -> & Hin).
    exists e. split; [reflexivity|]. right. right. exists i. assumption.
Qed.

Lemma adapt_mro_raise_source k defs o lg r :
  adapt_mro (py_default_adapt k) defs o = (lg, Raise r) ->
  exists e, r = User e /\ raise_source defs (k_prov k) o e.
Proof.
  revert lg. induction defs as [|[i b] rest IH]; intros lg; cbn [adapt_mro].
  - apply default_adapt_raise_source.
  - destruct b; try discriminate.
    + intros H. inversion H; subst. exists e. split; [reflexivity|]. right. left. exists i. cbn. auto.
    + destruct (adapt_mro (py_default_adapt k) rest o) as [lg' r'] eqn:E. intros H. inversion H; subst.
      destruct (IH _ eq_refl) as (e & -> & [Hin|[[i' Hin]|Hin]]); exists e; split; try reflexivity.
      * left. assumption.
      * right. left. exists i'. cbn. auto.
      * right. right. assumption.
Qed.

Lemma no_other_exceptions p chain o r :
  snd (py_call (type_of_chain p chain) o) = RaiseE r ->
  exists e, r = User e /\
    (conf o = CGetRaise e \/ conf o = CRaise e \/ In (HRaise e) (hooks o) \/
     (exists i, In (i, CARaise e) (custom_defs 0 chain)) \/
     (exists i, In (i, PBRaise e) (prov_defs 0 chain))).
Proof.
  set (k := type_of_chain p chain).
  assert (HA : k_adapt k = custom_defs 0 chain) by apply chain_adapt.
  assert (HP : k_prov k = prov_defs 0 chain) by apply chain_prov.
  unfold py_call, py_adapt. rewrite HA.
  pose proof (adapt_mro_raise_source k (custom_defs 0 chain) o) as HS. rewrite HP in HS.
  destruct (adapt_mro (py_default_adapt k) (custom_defs 0 chain) o) as [lg a].
  assert (HF : forall lg0, snd (finish o lg0 a) = RaiseE r ->
     exists e, r = User e /\
    (conf o = CGetRaise e \/ conf o = CRaise e \/ In (HRaise e) (hooks o) \/
     (exists i, In (i, CARaise e) (custom_defs 0 chain)) \/
     (exists i, In (i, PBRaise e) (prov_defs 0 chain)))).
  { intros lg0. unfold finish. destruct a as [[[|v]|]|x]; cbn [snd]; try discriminate.
    - destruct (alternate o); discriminate.
    - intros H. inversion H; subst. destruct (HS lg r eq_refl) as (e & -> & Hs). exists e.
      unfold raise_source in Hs. tauto. }
  destruct (conf o) as [|e| | |v|e|]; cbn [getattr_conform call_conform apply_conform
    is_attribute_error is_type_error tb_single]; try apply HF.
  - destruct e as [[| |] t]; cbn [e_kind]; try apply HF.
    + cbn. intros H. inversion H. eexists; eauto.
    + cbn. intros H. inversion H. eexists; eauto.
  - discriminate.
  - destruct e as [[| |] t]; cbn; intros H; inversion H; eexists; eauto.
Qed.

(* ------------------------------------------------------------------ custom __adapt__ replaces *)

Lemma adapt_mro_nondelegate i b rest base o :
  b <> CADelegate ->
  adapt_mro base ((i, b) :: rest) o =
  ([EvCustom i], match b with CAValue v => Ok (Some (VVal v)) | CARaise e => Raise (User e) | _ => Ok None end).
Proof. intros H. destruct b; try reflexivity. congruence. Qed.

Lemma custom_adapt_replaces p chain o i b rest :
  custom_defs 0 chain = (i, b) :: rest -> b <> CADelegate ->
  let r := py_call (type_of_chain p chain) o in
  ~ In EvProvided (fst r) /\ (forall j, ~ In (EvHook j) (fst r)) /\
  (forall j, ~ In (EvCustomProv j) (fst r)) /\
  (forall pr hs, py_call (type_of_chain p chain) (mkObj (conf o) pr hs (alternate o)) = r) /\
  (conform_passes (conf o) = true ->
     In (EvCustom i) (fst r) /\
     snd r = match b with
             | CAValue v => Return v
             | CARaise e => RaiseE (User e)
             | _ => match alternate o with Some _ => ReturnAlt | None => RaiseCouldNotAdapt end
             end).
Proof.
  intros Hd Hb. cbn zeta.
  assert (HA : k_adapt (type_of_chain p chain) = (i, b) :: rest) by (rewrite <- Hd; apply chain_adapt).
  repeat split.
  - intros H. apply lazy_provided in H. destruct H as (_ & F & _). rewrite Hd in F.
    inversion F as [|? ? Hx _]; subst. apply Hb, Hx.
  - intros j H. apply lazy_hooks in H. destruct H as (_ & _ & _ & F). rewrite Hd in F.
    inversion F as [|? ? Hx _]; subst. apply Hb, Hx.
  - intros j H. apply lazy_custom_prov in H. destruct H as (_ & F). rewrite Hd in F.
    inversion F as [|? ? Hx _]; subst. apply Hb, Hx.
  - intros pr hs. unfold py_call, py_adapt. rewrite HA.
    rewrite !adapt_mro_nondelegate by assumption. cbn [conf alternate]. unfold finish. cbn [alternate].
    reflexivity.
  - destruct (py_call_log_split (type_of_chain p chain) o) as (pre & _ & [[Hc _]|[_ E]]).
    + congruence.
    + rewrite E. apply in_or_app. right. unfold py_adapt.
      rewrite HA, adapt_mro_nondelegate by assumption. cbn. auto.
  - unfold py_call, py_adapt. rewrite HA, adapt_mro_nondelegate by assumption.
    revert H. unfold conform_passes.
    destruct (conf o) as [|e| | |v|e|]; cbn [getattr_conform call_conform apply_conform conform_step
      is_attribute_error is_type_error tb_single snd]; try discriminate;
      try (destruct e as [[| |] t]; cbn [e_kind]; try discriminate);
      intros _; unfold finish; destruct b; try congruence; try reflexivity;
      destruct (alternate o); reflexivity.
Qed.

(* an overridden providedBy (that does not delegate) is asked instead of the built-in check *)
Lemma prov_mro_nondelegate i b rest o :
  b <> PBDelegate ->
  prov_mro ((i, b) :: rest) o =
  ([EvCustomProv i], match b with PBTrue => Ok true | PBRaise e => Raise (User e) | _ => Ok false end).
Proof. intros H. destruct b; try reflexivity. congruence. Qed.

Lemma providedBy_override_replaces p chain o i b rest :
  prov_defs 0 chain = (i, b) :: rest -> b <> PBDelegate ->
  ~ In EvProvided (fst (py_call (type_of_chain p chain) o)) /\
  (forall pr, py_call (type_of_chain p chain) (mkObj (conf o) pr (hooks o) (alternate o)) =
              py_call (type_of_chain p chain) o).
Proof.
  intros Hd Hb. split.
  - intros H. apply lazy_provided in H. destruct H as (_ & _ & F). rewrite Hd in F.
    inversion F as [|? ? Hx _]; subst. apply Hb, Hx.
  - intros pr. rewrite !call_follows_precedence. unfold spec, steps. cbn [conf alternate].
    assert (HE : forall o', hooks o' = hooks o ->
              adapt_steps (custom_defs 0 chain) (prov_defs 0 chain) o' =
              adapt_steps (custom_defs 0 chain) (prov_defs 0 chain) o).
    { intros o' Hh. induction (custom_defs 0 chain) as [|[j c] t IH]; cbn [adapt_steps].
      - unfold default_steps. rewrite Hh, Hd. destruct b; try congruence; reflexivity.
      - destruct c; try reflexivity. rewrite IH. reflexivity. }
    rewrite (HE (mkObj (conf o) pr (hooks o) (alternate o)) eq_refl). reflexivity.
Qed.

(* ------------------------------------------------------------------ C = Python *)

Lemma c_hook_loop_eq t : forall pre,
  c_hook_loop (length t) (length pre) (pre ++ t) = run_hooks (length pre) t.
Proof.
  induction t as [|h t IH]; intros pre; cbn [length c_hook_loop run_hooks].
  - reflexivity.
  - rewrite nth_error_app2 by lia. rewrite Nat.sub_diag. cbn [nth_error].
    destruct (call_hook h) as [[a|]|r]; try reflexivity.
    specialize (IH (pre ++ [h])). rewrite <- app_assoc, app_length in IH. cbn [app length] in IH.
    rewrite Nat.add_1_r in IH. rewrite IH. reflexivity.
Qed.

Lemma c_default_adapt_eq k o : flag_ok k -> c_default_adapt k o = py_default_adapt k o.
Proof.
  intros (_ & _ & Hp). unfold c_default_adapt, py_default_adapt.
  assert (HP : (if k_pflag_own k then prov_mro (k_prov k) o else ([EvProvided], Ok (provides o)))
               = prov_mro (k_prov k) o).
  { rewrite Hp. destruct (k_prov k); reflexivity. }
  rewrite HP. destruct (prov_mro (k_prov k) o) as [lp [[|]|x]]; try reflexivity.
  pose proof (c_hook_loop_eq (hooks o) []) as H. cbn [length app] in H. rewrite H. reflexivity.
Qed.

Lemma adapt_mro_ext f g defs o : (forall x, f x = g x) -> adapt_mro f defs o = adapt_mro g defs o.
Proof.
  intros H. induction defs as [|[i b] rest IH]; cbn [adapt_mro]; [apply H|].
  destruct b; try reflexivity. rewrite IH. reflexivity.
Qed.

Lemma c_adapt_eq k o : flag_ok k -> c_adapt k o = py_adapt k o.
Proof. intros H. apply adapt_mro_ext. intros x. apply c_default_adapt_eq, H. Qed.

Lemma c_call_eq_py_call_flag k o : flag_ok k -> c_call k o = py_call k o.
Proof.
  intros HK. pose proof HK as (Ho & _ & _). unfold c_call, py_call.
  assert (HA : (if k_flag_own k then c_adapt k o else c_default_adapt k o) = py_adapt k o).
  { rewrite c_adapt_eq, c_default_adapt_eq by assumption. rewrite Ho. unfold py_adapt.
    destruct (k_adapt k); reflexivity. }
  rewrite HA.
  destruct (getattr_conform (conf o)) as [[u|]|r].
  - destruct (call_conform (conf o)) as [[v|]|r]; reflexivity.
  - reflexivity.
  - destruct (is_attribute_error r); reflexivity.
Qed.

Lemma c_call_eq_py_call_any p chain o :
  c_call (type_of_chain p chain) o = py_call (type_of_chain p chain) o.
Proof. apply c_call_eq_py_call_flag, chain_flag_ok. Qed.

Lemma c_call_eq_py_call chain o :
  c_call (type_of_chain true chain) o = py_call (type_of_chain true chain) o.
Proof. apply c_call_eq_py_call_any. Qed.

Lemma c_call_follows_precedence chain o : c_call (type_of_chain true chain) o = spec chain o.
Proof. rewrite c_call_eq_py_call. apply call_follows_precedence. Qed.

(* ------------------------------------------------------------------ registry hook *)

Lemma hook_equals_queryAdapter p c q alt :
  conform_passes c = true ->
  snd (py_call (type_of_chain p []) (mkObj c false [registry_hook q] alt)) =
  match q with
  | Some v => Return v
  | None => match alt with Some _ => ReturnAlt | None => RaiseCouldNotAdapt end
  end.
Proof.
  unfold conform_passes. destruct c as [|e| | |v|e|]; cbn [conform_step snd]; try discriminate;
    try (destruct e as [[| |] t]; cbn [e_kind]; try discriminate); intros _;
    destruct q, alt; reflexivity.
Qed.
