(* C14, tie to the source text: the kernels regenerated from interface.py (Gen/AdaptPy.v, by
   harness/translate/adapt_py.py) and from _zope_interface_coptimizations.c (Gen/AdaptC.v, by
   harness/translate/adapt_c.py), run by the interpreters of Model/PyKernel.v and Model/CKernel.v,
   compute exactly py_call / c_call (and their pieces) of Model/Adapt.v, for all inputs.
   The proofs go by computation on whatever text was generated (plus one induction for the hook
   loop); a change of the source that changes the meaning of a kernel breaks them. *)
From Coq Require Import List Bool Arith String Lia.
Import ListNotations.
From ZI Require Import Model.Adapt Model.PyKernel Model.CKernel Gen.AdaptPy Gen.AdaptC.
Local Open Scope string_scope.

(* ================================================================== Python *)

(* InterfaceClass._call_conform(self, conform) as generated *)
Definition gen_call_conform (o : obj) (c : conform) : list ev * eres :=
  let (lg, r) := run_fn o no_methods [PSelf; PConform c] call_conform_body in (lg, eres_of_ctl r).

Definition eres_of_cres (r : res (option nat)) : eres :=
  match r with Ok None => EV PNone | Ok (Some v) => EV (PVal v) | Raise x => EX x end.

Lemma gen_call_conform_eq o c :
  gen_call_conform o c = ([EvCallConform], eres_of_cres (call_conform c)).
Proof.
  destruct c as [|e| | |v|e|]; try (destruct e as [[| |] t]); reflexivity.
Qed.

Definition adapt_methods (k : kls) (o : obj) (m : meth) (a : pv) : list ev * eres :=
  match m, a with
  | MProvidedBy, PObj =>
      let (lg, r) := prov_mro (k_prov k) o in
      (lg, match r with Ok b => EV (PBool b) | Raise x => EX x end)
  | _, _ => ([], EStuck)
  end.

Definition ctl_of_ares (r : res (option value)) : ctl :=
  match r with Ok None => CRet PNone | Ok (Some a) => CRet (of_value a) | Raise x => CExc x end.

Definition gen_default_adapt (k : kls) (o : obj) : list ev * ctl :=
  run_fn o (adapt_methods k o) [PSelf; PObj] adapt_body.

Lemma for_hooks_run_hooks (rb : env -> list ev * ctl) (x : string) :
  (forall i h l, exists l',
     rb ((x, PHook i h) :: l) =
     ([EvHook i], match call_hook h with Ok None => CNorm l' | Ok (Some a) => CRet (of_value a) | Raise r => CExc r end)) ->
  forall hs i l, exists l',
    for_hooks rb x i hs l =
    (fst (run_hooks i hs),
     match snd (run_hooks i hs) with Ok None => CNorm l' | Ok (Some a) => CRet (of_value a) | Raise r => CExc r end).
Proof.
  intros H hs. induction hs as [|h t IH]; intros i l; cbn [for_hooks run_hooks].
  - exists l. reflexivity.
  - destruct (H i h l) as [l1 E]. rewrite E.
    destruct (call_hook h) as [[a|]|r].
    + exists l. reflexivity.
    + destruct (IH (S i) l1) as [l2 E2]. rewrite E2. exists l2.
      destruct (run_hooks (S i) t) as [lg r]. reflexivity.
    + exists l. reflexivity.
Qed.

Lemma gen_default_adapt_eq k o :
  gen_default_adapt k o = (fst (py_default_adapt k o), ctl_of_ares (snd (py_default_adapt k o))).
Proof.
  unfold gen_default_adapt, py_default_adapt, run_fn, adapt_body.
  cbn [block exec eval nth_error adapt_methods].
  destruct (prov_mro (k_prov k) o) as [lp [[|]|x]]; cbn.
  - rewrite app_nil_r. reflexivity.
  - match goal with |- context [for_hooks ?rb ?x 0 (hooks o) ?l] =>
      assert (HB : forall i h l0, exists l',
        rb ((x, PHook i h) :: l0) =
        ([EvHook i], match call_hook h with Ok None => CNorm l' | Ok (Some a) => CRet (of_value a) | Raise r => CExc r end))
        by (intros i h l0; destruct h as [|v|e]; [eexists|exists l0|exists l0]; cbn; reflexivity);
      destruct (for_hooks_run_hooks rb x HB (hooks o) 0 l) as [l' ->]
    end.
    destruct (run_hooks 0 (hooks o)) as [lg [[[|v]|]|r]]; cbn; rewrite ?app_nil_r; reflexivity.
  - reflexivity.
Qed.

Definition decode_ares (r : list ev * ctl) : list ev * res (option value) :=
  (fst r, match snd r with
          | CRet PNone => Ok None | CRet PObj => Ok (Some VObj) | CRet (PVal v) => Ok (Some (VVal v))
          | CExc x => Raise x
          | _ => Raise InterpTE0
          end).

Definition gen_adapt (k : kls) (o : obj) : list ev * res (option value) :=
  adapt_mro (fun o' => decode_ares (gen_default_adapt k o')) (k_adapt k) o.

Definition call_methods (k : kls) (o : obj) (m : meth) (a : pv) : list ev * eres :=
  match m, a with
  | MCallConform, PConform c => gen_call_conform o c
  | MAdapt, PObj => let (lg, r) := gen_adapt k o in (lg, eres_of_ares r)
  | _, _ => ([], EStuck)
  end.

Definition alt_pv (o : obj) : pv := match alternate o with Some _ => PAlt | None => PMarker end.

Definition gen_call (k : kls) (o : obj) : list ev * ctl :=
  run_fn o (call_methods k o) [PSelf; PObj; alt_pv o] call_body.

Definition ctl_of_outcome (r : outcome) : ctl :=
  match r with
  | Return v => CRet (PVal v) | ReturnObj => CRet PObj | ReturnAlt => CRet PAlt
  | RaiseE x => CExc x | RaiseCouldNotAdapt => CCna
  end.

Lemma gen_adapt_eq k o : gen_adapt k o = py_adapt k o.
Proof.
  unfold gen_adapt, py_adapt. generalize (k_adapt k) as defs.
  induction defs as [|[i b] rest IH]; cbn [adapt_mro].
  - rewrite gen_default_adapt_eq. unfold decode_ares. cbn [fst snd].
    destruct (py_default_adapt k o) as [lg [[[|v]|]|r]]; reflexivity.
  - destruct b; try reflexivity. rewrite IH. reflexivity.
Qed.

Lemma gen_call_eq k o :
  gen_call k o = (fst (py_call k o), ctl_of_outcome (snd (py_call k o))).
Proof.
  unfold gen_call, py_call, run_fn, call_body, call_methods, alt_pv, finish. rewrite gen_adapt_eq.
  destruct (py_adapt k o) as [lg [[[|v]|]|r]]; destruct o as [c pr hs [a|]];
    destruct c as [|e| | |w|e|]; try (destruct e as [[| |] t]);
    cbn; rewrite ?app_nil_r; reflexivity.
Qed.

(* ------------------------------------------------------------------ the flags *)

(* new_kls of Model/Adapt.v with the conditions read from InterfaceClass.__new__ /
   __init_subclass__ in place of the hand-written ones *)
Definition gen_new_kls (i : nat) (cls : kls) (l : lvl) : kls :=
  if l_plain l || has_methods l then
    let adapt' := match l_adapt l with Some b => (i, b) :: k_adapt cls | None => k_adapt cls end in
    let prov' := match l_prov l with Some b => (i, b) :: k_prov cls | None => k_prov cls end in
    let new_flag := negb (l_plain l) && new_flag_adapt (is_some (l_adapt l)) (k_flag_mro cls) in
    let flag := new_flag || isc_flag_adapt (negb (is_nil adapt')) (negb (is_nil prov')) in
    mkKls flag (flag || k_flag_mro cls) adapt'
          (isc_flag_prov (negb (is_nil adapt')) (negb (is_nil prov'))) prov'
  else cls.

Lemma gen_new_kls_eq i cls l : gen_new_kls i cls l = new_kls true i cls l.
Proof.
  unfold gen_new_kls, new_kls, new_kls_gen, new_flag_adapt, isc_flag_adapt, isc_flag_prov.
  destruct (l_plain l), (l_adapt l), (l_prov l), (l_other l), (k_flag_mro cls), (k_adapt cls), (k_prov cls);
    reflexivity.
Qed.

(* ------------------------------------------------------------------ class construction in __new__ *)

(* The class InterfaceClass.__new__ gives to an interface whose body has interfacemethods, with the
   bases read from the source: the definitions visible on the new class are its own followed by
   those of its bases in order ([CCls] contributes those of cls, _InterfaceClassWithCustomMethods
   none), and the flags are those of gen_new_kls. *)
Definition bases_adapt (bs : list cbase) (cls : kls) : list (nat * cbeh) :=
  flat_map (fun b => match b with CCls => k_adapt cls | CWcm => [] end) bs.
Definition bases_prov (bs : list cbase) (cls : kls) : list (nat * pbeh) :=
  flat_map (fun b => match b with CCls => k_prov cls | CWcm => [] end) bs.
Definition bases_flag_mro (bs : list cbase) (cls : kls) : bool :=
  existsb (fun b => match b with CCls => k_flag_mro cls | CWcm => false end) bs.

Definition gen_new_class (is_custom is_ic : bool) (i : nat) (cls : kls) (l : lvl) : kls :=
  if has_methods l then
    let bs := new_class_bases is_custom is_ic in
    let adapt' := match l_adapt l with Some b => (i, b) :: bases_adapt bs cls | None => bases_adapt bs cls end in
    let prov' := match l_prov l with Some b => (i, b) :: bases_prov bs cls | None => bases_prov bs cls end in
    let new_flag := new_flag_adapt (is_some (l_adapt l)) (k_flag_mro cls) in
    let flag := new_flag || isc_flag_adapt (negb (is_nil adapt')) (negb (is_nil prov')) in
    mkKls flag (flag || bases_flag_mro bs cls) adapt'
          (isc_flag_prov (negb (is_nil adapt')) (negb (is_nil prov'))) prov'
  else cls.

(* [is_ic]: cls is InterfaceClass itself, i.e. base_kls; otherwise any class *)
Lemma generated_new_eq_model is_custom is_ic i cls l :
  (is_ic = true -> cls = base_kls) -> l_plain l = false ->
  gen_new_class is_custom is_ic i cls l = new_kls true i cls l.
Proof.
  intros Hic Hpl. unfold gen_new_class, new_kls, new_kls_gen, new_class_bases, new_flag_adapt,
    isc_flag_adapt, isc_flag_prov, bases_adapt, bases_prov, bases_flag_mro.
  rewrite Hpl. cbn [orb].
  destruct is_custom, is_ic; try (rewrite (Hic eq_refl)); cbn [flat_map existsb app k_adapt k_prov k_flag_mro base_kls];
    rewrite ?app_nil_r, ?orb_false_r;
    destruct (has_methods l), (l_adapt l), (l_prov l); try reflexivity.
Qed.

Lemma generated_py_eq_model k o :
  gen_call k o = (fst (py_call k o), ctl_of_outcome (snd (py_call k o))) /\
  gen_default_adapt k o = (fst (py_default_adapt k o), ctl_of_ares (snd (py_default_adapt k o))) /\
  (forall c, gen_call_conform o c = ([EvCallConform], eres_of_cres (call_conform c))) /\
  (forall i cls l, gen_new_kls i cls l = new_kls true i cls l).
Proof.
  split; [apply gen_call_eq|]. split; [apply gen_default_adapt_eq|].
  split; [intros c; apply gen_call_conform_eq|apply gen_new_kls_eq].
Qed.

(* ================================================================== C *)

Definition kctl_of_ares (r : res (option value)) : kctl :=
  match r with
  | Ok None => KRet WNone None
  | Ok (Some a) => KRet (cv_of_value a) None
  | Raise x => KRet WNull (Some (ERaised x))
  end.

Definition no_adapt : list ev * res (option value) := ([], Raise InterpTE0).

Definition gen_c_default_adapt (k : kls) (o : obj) : list ev * kctl :=
  run_cfn o k no_adapt no_adapt [("self", WSelf); ("obj", WObj)] c_adapt_body.

Lemma kfor_step O K run c st bd n err l :
  kfor O K run c st bd (S n) err l =
  match ceval O K err l c with
  | Some v =>
      match ctruth v with
      | Some true =>
          match run err l bd with
          | (l1, KNorm l1' e1) =>
              match run e1 (firstn (List.length l) l1') st with
              | (l2, KNorm l2' e2) => let (l3, r) := kfor O K run c st bd n e2 l2' in ((l1 ++ l2 ++ l3)%list, r)
              | (l2, r) => ((l1 ++ l2)%list, r)
              end
          | r => r
          end
      | Some false => ([], KNorm l err)
      | None => ([], KStuck)
      end
  | None => ([], KStuck)
  end.
Proof. reflexivity. Qed.

(* the hook loop of the extracted IB__adapt__, from any index: stated for the loop found in the goal *)
Ltac hook_loop hs :=
  lazymatch goal with |- context [kfor ?O ?K ?run ?cnd ?stp ?bd (S (List.length hs)) None ?l] =>
    let HL := fresh "HL" in
    assert (HL : forall n i a, i + n = List.length hs -> exists l',
      kfor O K run cnd stp bd (S n) None (cset "i" (WInt i) (cset "adapter" a l)) =
      (fst (c_hook_loop n i hs),
       match snd (c_hook_loop n i hs) with
       | Ok None => KNorm l' None
       | Ok (Some v) => KRet (cv_of_value v) None
       | Raise r => KRet WNull (Some (ERaised r))
       end));
    [ let n := fresh "n" in let IH := fresh "IH" in
      induction n as [|n IH]; intros i a Hn;
      [ assert (i = List.length hs) by lia; subst i; rewrite kfor_step; cbn -[Nat.ltb kfor];
        rewrite Nat.ltb_irrefl; cbn; eexists; reflexivity
      | assert (Hlt : Nat.ltb i (List.length hs) = true) by (apply Nat.ltb_lt; lia);
        rewrite kfor_step; cbn -[Nat.ltb nth_error kfor]; rewrite Hlt; cbn -[Nat.ltb nth_error kfor];
        destruct (nth_error hs i) as [h|] eqn:E;
        [ destruct h as [|v|e]; cbn -[Nat.ltb nth_error kfor];
          [ destruct (IH (i + 1) WNone ltac:(lia)) as [l' E'];
            cbn -[Nat.ltb nth_error kfor] in E'; exists l'; rewrite <- (Nat.add_1_r i); rewrite E';
            destruct (c_hook_loop n (i + 1) hs) as [lg r]; reflexivity
          | exists (@nil (string * cv)); reflexivity
          | exists (@nil (string * cv)); reflexivity ]
        | exfalso; apply nth_error_None in E; lia ] ]
    | destruct (HL (List.length hs) 0 WUninit eq_refl) as [l' E']; cbn -[kfor] in E'; rewrite E'; clear E' HL ]
  end.

Lemma gen_c_default_adapt_eq k o :
  gen_c_default_adapt k o = (fst (c_default_adapt k o), kctl_of_ares (snd (c_default_adapt k o))).
Proof.
  unfold gen_c_default_adapt, c_default_adapt, run_cfn, c_adapt_body.
  destruct k as [fo fm ad pf pd]. destruct o as [c pr hs al]. cbn [k_pflag_own k_prov provides hooks].
  destruct pf.
  - cbn -[kfor]. destruct (prov_mro pd (mkObj c pr hs al)) as [lp [[|]|x]]; cbn -[kfor].
    + rewrite ?app_nil_r. reflexivity.
    + hook_loop hs.
      destruct (c_hook_loop (List.length hs) 0 hs) as [lg [[[|v]|]|r]]; cbn; rewrite ?app_nil_r; reflexivity.
    + rewrite ?app_nil_r. reflexivity.
  - destruct pr; cbn -[kfor].
    + reflexivity.
    + hook_loop hs.
      destruct (c_hook_loop (List.length hs) 0 hs) as [lg [[[|v]|]|r]]; cbn; rewrite ?app_nil_r; reflexivity.
Qed.

Definition decode_kares (r : list ev * kctl) : list ev * res (option value) :=
  (fst r, match ares_of_kctl (snd r) with Some a => a | None => Raise InterpTE0 end).

Definition gen_c_adapt (k : kls) (o : obj) : list ev * res (option value) :=
  adapt_mro (fun o' => decode_kares (gen_c_default_adapt k o')) (k_adapt k) o.

Definition gen_c_call (k : kls) (o : obj) : list ev * kctl :=
  run_cfn o k (gen_c_adapt k o) (decode_kares (gen_c_default_adapt k o)) [("self", WSelf)] c_call_body.

Definition kctl_of_outcome (r : outcome) : kctl :=
  match r with
  | Return v => KRet (WVal v) None | ReturnObj => KRet WObj None | ReturnAlt => KRet WAlt None
  | RaiseE x => KRet WNull (Some (ERaised x))
  | RaiseCouldNotAdapt => KRet WNull (Some ECouldNotAdapt)
  end.

Lemma decode_gen_c_default k o : decode_kares (gen_c_default_adapt k o) = c_default_adapt k o.
Proof.
  rewrite gen_c_default_adapt_eq. unfold decode_kares. cbn [fst snd].
  destruct (c_default_adapt k o) as [lg [[[|v]|]|r]]; reflexivity.
Qed.

Lemma gen_c_adapt_eq k o : gen_c_adapt k o = c_adapt k o.
Proof.
  unfold gen_c_adapt, c_adapt. generalize (k_adapt k) as defs.
  induction defs as [|[i b] rest IH]; cbn [adapt_mro].
  - apply decode_gen_c_default.
  - destruct b; try reflexivity. rewrite IH. reflexivity.
Qed.

Lemma gen_c_call_eq k o :
  gen_c_call k o = (fst (c_call k o), kctl_of_outcome (snd (c_call k o))).
Proof.
  unfold gen_c_call. rewrite gen_c_adapt_eq, decode_gen_c_default.
  unfold c_call, run_cfn, c_call_body, finish.
  destruct k as [fo fm ad pf pd]; destruct o as [c pr hs al]; destruct fo; cbn [k_flag_own].
  - generalize (c_default_adapt (mkKls true fm ad pf pd) (mkObj c pr hs al)) as unused. intros unused.
    destruct (c_adapt (mkKls true fm ad pf pd) (mkObj c pr hs al)) as [lg [[[|v]|]|r]]; destruct al as [a|];
      destruct c as [|e| | |w|e|]; try (destruct e as [[| |] t]);
      cbv -[app]; rewrite ?app_nil_r; reflexivity.
  - generalize (c_adapt (mkKls false fm ad pf pd) (mkObj c pr hs al)) as unused. intros unused.
    destruct (c_default_adapt (mkKls false fm ad pf pd) (mkObj c pr hs al)) as [lg [[[|v]|]|r]]; destruct al as [a|];
      destruct c as [|e| | |w|e|]; try (destruct e as [[| |] t]);
      cbv -[app]; rewrite ?app_nil_r; reflexivity.
Qed.

Lemma generated_c_eq_model k o :
  gen_c_call k o = (fst (c_call k o), kctl_of_outcome (snd (c_call k o))) /\
  gen_c_default_adapt k o = (fst (c_default_adapt k o), kctl_of_ares (snd (c_default_adapt k o))).
Proof. split; [apply gen_c_call_eq|apply gen_c_default_adapt_eq]. Qed.
