(* C09 extension: the nested-dictionary storage (Model/Trie.v) refines the flat finite map of
   Model/Adapter.v: pruning is invisible, the walkers' ``if comps:`` tests and ``order >= len(byorder)``
   guards are redundant, rebuild() is a replay in _all_entries order. *)
From Coq Require Import List Arith Bool Lia Permutation.
Import ListNotations.
From ZI Require Import Model.Ro Model.Adapter Model.Trie Model.Bookkeeping Spec.Bookkeeping Proofs.Bookkeeping Spec.TrieRel.

(* ------------------------------------------------------------------ one dictionary tree *)
Section TrieFacts.
  Context {P : Type}.
  Variable okp : P -> Prop.          (* what a stored payload satisfies *)


  Lemma wfd_nodup n t : wfd okp n t -> NoDup (map fst (items t)).
  Proof. destruct n; cbn; tauto. Qed.

  Lemma wfd_tempty n : wfd okp n (@tempty P).
  Proof. destruct n; cbn; (split; [constructor|]; split; [exists []; reflexivity | tauto]). Qed.

  Lemma truthy_false (t : trie P) : truthy t = false -> t = Node [].
  Proof. destruct t as [p|[|x l]]; cbn; congruence. Qed.

  Lemma tget_Node l k : tget (Node l : trie P) k = aget Nat.eqb l k.
  Proof. reflexivity. Qed.

  Lemma tfind_tempty q : q <> [] -> tfind q (@tempty P) = None.
  Proof. destruct q; [congruence | reflexivity]. Qed.

  Lemma tfind_cons k q (t : trie P) :
    tfind (k :: q) t = match tget t k with Some d => tfind q d | None => None end.
  Proof. reflexivity. Qed.

  Lemma app_last_neq_nil {A} (l : list A) x : l ++ [x] <> [].
  Proof. destruct l; discriminate. Qed.

  (* ---- tupsert *)
  Lemma tfind_tupsert_same f : forall path last (t : trie P),
    tfind (path ++ [last]) (tupsert path last f t) = Some (f (tfind (path ++ [last]) t)).
  Proof.
    induction path as [|k path IH]; intros last t; cbn [app tupsert].
    - rewrite tfind_cons, tget_Node, (aget_aset_same Nat.eqb Nat.eqb_eq). cbn [tfind].
      destruct (tget t last); reflexivity.
    - rewrite tfind_cons, tget_Node, (aget_aset_same Nat.eqb Nat.eqb_eq), IH, tfind_cons.
      destruct (tget t k); [reflexivity|]. rewrite tfind_tempty; [reflexivity | apply app_last_neq_nil].
  Qed.

  Lemma tfind_tupsert_other f : forall path last (t : trie P) q,
    length q = S (length path) -> q <> path ++ [last] ->
    tfind q (tupsert path last f t) = tfind q t.
  Proof.
    induction path as [|k path IH]; intros last t q L N; cbn [tupsert].
    - destruct q as [|k' [|? ?]]; cbn in L; try lia.
      rewrite !tfind_cons, tget_Node, (aget_aset_other Nat.eqb Nat.eqb_eq); [reflexivity|].
      intros ->. apply N. reflexivity.
    - destruct q as [|k' q]; cbn in L; [lia|].
      rewrite !tfind_cons, tget_Node. destruct (Nat.eq_dec k' k) as [->|NE].
      + rewrite (aget_aset_same Nat.eqb Nat.eqb_eq), IH; [|lia|intros ->; apply N; reflexivity].
        destruct (tget t k); [reflexivity|]. apply tfind_tempty. destruct q; [cbn in L; lia | discriminate].
      + rewrite (aget_aset_other Nat.eqb Nat.eqb_eq); auto.
  Qed.

  Lemma truthy_tupsert f path last (t : trie P) : truthy (tupsert path last f t) = true.
  Proof.
    assert (H : forall (l : list (nat * trie P)) k x, aset Nat.eqb l k x <> []).
    { intros l k x. destruct l as [|[k0 x0] l]; cbn; [discriminate|]. destruct (Nat.eqb k k0); discriminate. }
    destruct path; cbn [tupsert];
      match goal with |- truthy (Node ?l) = true => destruct l eqn:E; [exfalso; eapply H; eauto | reflexivity] end.
  Qed.

  Lemma wfd_tupsert f : (forall o, exists p, f o = Leaf p /\ okp p) ->
    forall path last t, wfd okp (length path) t -> wfd okp (length path) (tupsert path last f t).
  Proof.
    intros F. induction path as [|k path IH]; intros last t W; cbn [length tupsert wfd] in *.
    - destruct W as (ND & _ & C). split; [|split].
      + cbn [items]. apply NoDup_aset; [apply Nat.eqb_eq | auto].
      + eexists; reflexivity.
      + cbn [items]. intros k c H. apply (In_aset Nat.eqb Nat.eqb_eq) in H. destruct H as [H|H].
        * inversion H; subst. apply F.
        * eapply C; eauto.
    - destruct W as (ND & _ & C). split; [|split].
      + cbn [items]. apply NoDup_aset; [apply Nat.eqb_eq | auto].
      + eexists; reflexivity.
      + cbn [items]. intros k' c H. apply (In_aset Nat.eqb Nat.eqb_eq) in H. destruct H as [H|H].
        * inversion H; subst. split; [|apply truthy_tupsert]. apply IH.
          destruct (tget t k) as [d|] eqn:E; [|apply wfd_tempty].
          apply (aget_Some_In Nat.eqb Nat.eqb_eq) in E. apply (C _ _ E).
        * eapply C; eauto.
  Qed.

  (* ---- tremove *)
  Lemma tfind_tremove_same : forall path last (t : trie P), wfd okp (length path) t ->
    tfind (path ++ [last]) (tremove path last t) = None.
  Proof.
    induction path as [|k path IH]; intros last t W; cbn [app tremove length] in *.
    - rewrite tfind_cons, tget_Node.
      rewrite (aget_adel_same Nat.eqb Nat.eqb_eq) by (eapply wfd_nodup; eauto). reflexivity.
    - destruct (tget t k) as [d|] eqn:E; [|rewrite tfind_cons, E; reflexivity].
      assert (Wd : wfd okp (length path) d).
      { destruct W as (_ & _ & C). apply (aget_Some_In Nat.eqb Nat.eqb_eq) in E. apply (C _ _ E). }
      destruct (truthy (tremove path last d)) eqn:T; rewrite tfind_cons, tget_Node.
      + rewrite (aget_aset_same Nat.eqb Nat.eqb_eq). apply IH; auto.
      + rewrite (aget_adel_same Nat.eqb Nat.eqb_eq) by (eapply wfd_nodup; eauto). reflexivity.
  Qed.

  Lemma tfind_tremove_other : forall path last (t : trie P) q, wfd okp (length path) t ->
    length q = S (length path) -> q <> path ++ [last] ->
    tfind q (tremove path last t) = tfind q t.
  Proof.
    induction path as [|k path IH]; intros last t q W L N; cbn [tremove length] in *.
    - destruct q as [|k' [|? ?]]; cbn in L; try lia.
      rewrite !tfind_cons, tget_Node, (aget_adel_other Nat.eqb Nat.eqb_eq); [reflexivity|].
      intros ->. apply N. reflexivity.
    - destruct q as [|k' q]; cbn in L; [lia|].
      destruct (tget t k) as [d|] eqn:E; [|reflexivity].
      assert (Wd : wfd okp (length path) d).
      { destruct W as (_ & _ & C). apply (aget_Some_In Nat.eqb Nat.eqb_eq) in E. apply (C _ _ E). }
      destruct (Nat.eq_dec k' k) as [->|NE].
      + assert (Q : tfind q (tremove path last d) = tfind q d).
        { apply IH; [exact Wd | lia | intros ->; apply N; reflexivity]. }
        destruct (truthy (tremove path last d)) eqn:T; rewrite !tfind_cons, tget_Node.
        * rewrite (aget_aset_same Nat.eqb Nat.eqb_eq), E. exact Q.
        * rewrite (aget_adel_same Nat.eqb Nat.eqb_eq) by (eapply wfd_nodup; eauto). rewrite E.
          rewrite <- Q, (truthy_false _ T). symmetry. apply tfind_tempty. destruct q; [cbn in L; lia | discriminate].
      + destruct (truthy (tremove path last d)); rewrite !tfind_cons, tget_Node.
        * rewrite (aget_aset_other Nat.eqb Nat.eqb_eq); auto.
        * rewrite (aget_adel_other Nat.eqb Nat.eqb_eq); auto.
  Qed.

  Lemma wfd_tremove : forall path last t, wfd okp (length path) t -> wfd okp (length path) (tremove path last t).
  Proof.
    induction path as [|k path IH]; intros last t W; cbn [length tremove] in *.
    - cbn [wfd] in *. destruct W as (ND & _ & C). split; [|split].
      + cbn [items]. apply NoDup_adel; auto.
      + eexists; reflexivity.
      + cbn [items]. intros k c H. apply In_adel in H. eapply C; eauto.
    - destruct (tget t k) as [d|] eqn:E; auto.
      pose proof W as W0. cbn [wfd] in W. destruct W as (ND & _ & C).
      assert (Wd : wfd okp (length path) d).
      { apply (aget_Some_In Nat.eqb Nat.eqb_eq) in E. apply (C _ _ E). }
      destruct (truthy (tremove path last d)) eqn:T; cbn [wfd]; (split; [|split]); cbn [items].
      + apply NoDup_aset; [apply Nat.eqb_eq | auto].
      + eexists; reflexivity.
      + intros k' c H. apply (In_aset Nat.eqb Nat.eqb_eq) in H. destruct H as [H|H].
        * inversion H; subst. split; auto.
        * eapply C; eauto.
      + apply NoDup_adel; auto.
      + eexists; reflexivity.
      + intros k' c H. apply In_adel in H. eapply C; eauto.
  Qed.
End TrieFacts.

(* ------------------------------------------------------------------ the byorder list *)
Section ByOrder.
  Context {P : Type}.
  Variable okp : P -> Prop.


  Lemma order_get_pad (b : list (trie P)) o i : order_get (pad b o) i = order_get b i.
  Proof.
    unfold order_get, pad. destruct (Nat.lt_ge_cases i (length b)) as [L|L].
    - rewrite app_nth1; auto.
    - rewrite app_nth2; auto. rewrite (nth_overflow b); auto.
      generalize (S o - length b) (i - length b). intros m j. revert j.
      induction m as [|m IH]; intros [|j]; cbn; auto.
  Qed.

  Lemma length_pad (b : list (trie P)) o : o < length (pad b o).
  Proof. unfold pad. rewrite app_length, repeat_length. lia. Qed.

  Lemma order_get_set_nth : forall (b : list (trie P)) i x j, i < length b ->
    order_get (set_nth b i x) j = if Nat.eqb j i then x else order_get b j.
  Proof.
    unfold order_get. induction b as [|c b IH]; intros [|i] x [|j] L; cbn in *; try lia; auto.
    apply IH. lia.
  Qed.

  Lemma order_get_strip : forall (b : list (trie P)) i, order_get (strip b) i = order_get b i.
  Proof.
    unfold order_get. induction b as [|c b IH]; intros i; cbn [strip]; auto.
    destruct (strip b) as [|c' r'] eqn:E.
    - destruct i as [|i].
      + destruct (truthy c) eqn:T; cbn; auto. symmetry. apply truthy_false; auto.
      + specialize (IH i). cbn [nth] in *. rewrite <- IH. destruct (truthy c); destruct i; reflexivity.
    - destruct i as [|i]; cbn [nth]; auto. apply (IH i).
  Qed.

  Lemma binv_pad b o : binv okp b -> binv okp (pad b o).
  Proof. intros H i. rewrite order_get_pad. apply H. Qed.
  Lemma binv_strip b : binv okp b -> binv okp (strip b).
  Proof. intros H i. rewrite order_get_strip. apply H. Qed.
  Lemma binv_set_nth b i x : i < length b -> binv okp b -> wfd okp (S i) x -> binv okp (set_nth b i x).
  Proof.
    intros L H Wx j. rewrite order_get_set_nth; auto. destruct (Nat.eqb j i) eqn:E; [|apply H].
    apply Nat.eqb_eq in E; subst. exact Wx.
  Qed.

  (* ---- no trailing empty entries *)
  Lemma strip_idem : forall (b : list (trie P)), strip (strip b) = strip b.
  Proof.
    induction b as [|c b IH]; cbn [strip]; auto.
    destruct (strip b) as [|c' r'] eqn:E.
    - destruct (truthy c) eqn:T; cbn [strip]; [rewrite T|]; reflexivity.
    - assert (X : forall l, strip (c :: l) = match strip l with [] => if truthy c then [c] else [] | r => c :: r end) by reflexivity.
      rewrite X, IH. reflexivity.
  Qed.

  Lemma strip_last_truthy : forall (l : list (trie P)) x, truthy x = true -> strip (l ++ [x]) = l ++ [x].
  Proof.
    induction l as [|c l IH]; intros x T; cbn [app strip].
    - rewrite T. reflexivity.
    - rewrite IH; auto. destruct (l ++ [x]) eqn:E; [destruct l; discriminate | reflexivity].
  Qed.

  Lemma strip_set_nth : forall (b : list (trie P)) i x, i < length b -> strip b = b -> truthy x = true ->
    strip (set_nth b i x) = set_nth b i x.
  Proof.
    induction b as [|c b IH]; intros [|i] x L S T; cbn in L; try lia.
    - cbn [set_nth]. cbn [strip] in *. destruct (strip b) as [|c' r'] eqn:E.
      + destruct (truthy c); [|discriminate]. inversion S; subst. cbn. rewrite T. reflexivity.
      + congruence.
    - cbn [set_nth]. assert (Sb : strip b = b).
      { cbn [strip] in S. destruct (strip b) as [|c' r'] eqn:E.
        - destruct (truthy c); [|discriminate]. inversion S; subst. cbn in L. lia.
        - inversion S; subst. reflexivity. }
      cbn [strip]. rewrite IH; auto; [|lia].
      destruct (set_nth b i x) eqn:E; [|reflexivity].
      destruct b; cbn in L; [lia|]. destruct i; discriminate.
  Qed.

  Lemma set_nth_last : forall (l : list (trie P)) y x, set_nth (l ++ [y]) (length l) x = l ++ [x].
  Proof. induction l as [|c l IH]; intros y x; cbn; [reflexivity | rewrite IH; reflexivity]. Qed.

  Lemma strip_set_nth_pad (b : list (trie P)) o x : strip b = b -> truthy x = true ->
    strip (set_nth (pad b o) o x) = set_nth (pad b o) o x.
  Proof.
    intros St T. unfold pad. destruct (Nat.lt_ge_cases o (length b)) as [L|L].
    - replace (S o - length b) with 0 by lia. cbn [repeat]. rewrite app_nil_r. apply strip_set_nth; auto.
    - replace (S o - length b) with (S (o - length b)) by lia.
      assert (E : b ++ repeat tempty (S (o - length b)) = (b ++ repeat tempty (o - length b)) ++ [tempty]).
      { rewrite <- app_assoc. f_equal. rewrite <- repeat_cons. reflexivity. }
      rewrite E.
      assert (Lo : o = length (b ++ repeat (@tempty P) (o - length b))) by (rewrite app_length, repeat_length; lia).
      rewrite Lo at 2 4. rewrite set_nth_last. apply strip_last_truthy; auto.
  Qed.

  (* when the leaf dictionary stays non-empty nothing is pruned: the entry stays non-empty *)
  Lemma truthy_tremove : forall path last (t d : trie P), tfind path t = Some d ->
    truthy (Node (adel Nat.eqb (items d) last)) = true -> truthy (tremove path last t) = true.
  Proof.
    induction path as [|k path IH]; intros last t d F T; cbn [tfind tremove] in *.
    - inversion F; subst. exact T.
    - destruct (tget t k) as [d0|] eqn:E; [|discriminate].
      rewrite (IH last d0 d F T).
      destruct (aset Nat.eqb (items t) k (tremove path last d0)) eqn:A; [|reflexivity].
      destruct (items t) as [|[k0 x0] l]; cbn in A; [discriminate|]. destruct (Nat.eqb k k0); discriminate.
  Qed.
End ByOrder.

(* ------------------------------------------------------------------ keys, finds, the simulation relation *)
Lemma app_eq_len {A} : forall (a a' l l' : list A), length a = length a' -> a ++ l = a' ++ l' -> a = a' /\ l = l'.
Proof.
  induction a as [|x a IH]; intros [|x' a'] l l' L E; cbn in *; try lia; auto.
  inversion E; subst. destruct (IH a' l l') as [-> ->]; auto.
Qed.

Section Generic.
  Context {P : Type}.
  Variable okp : P -> Prop.

  Lemma bfind_upsert (b : list (trie P)) o path last f q o' :
    length path = S o -> o < length b -> length q = S (S o') ->
    tfind q (order_get (set_nth b o (tupsert path last f (order_get b o))) o')
    = if Nat.eq_dec o' o
      then if list_eq_dec Nat.eq_dec q (path ++ [last])
           then Some (f (tfind q (order_get b o))) else tfind q (order_get b o')
      else tfind q (order_get b o').
  Proof.
    intros Lp Lb Lq. rewrite order_get_set_nth; auto.
    destruct (Nat.eq_dec o' o) as [->|NE].
    - rewrite Nat.eqb_refl. destruct (list_eq_dec Nat.eq_dec q (path ++ [last])) as [->|NQ].
      + apply tfind_tupsert_same.
      + apply tfind_tupsert_other; auto. lia.
    - apply Nat.eqb_neq in NE. rewrite NE. reflexivity.
  Qed.

  Lemma bfind_remove (b : list (trie P)) o path last q o' :
    length path = S o -> o < length b -> length q = S (S o') -> wfd okp (S o) (order_get b o) ->
    tfind q (order_get (set_nth b o (tremove path last (order_get b o))) o')
    = if Nat.eq_dec o' o
      then if list_eq_dec Nat.eq_dec q (path ++ [last]) then None else tfind q (order_get b o')
      else tfind q (order_get b o').
  Proof.
    intros Lp Lb Lq W. rewrite order_get_set_nth; auto.
    destruct (Nat.eq_dec o' o) as [->|NE].
    - rewrite Nat.eqb_refl. rewrite <- Lp in W. destruct (list_eq_dec Nat.eq_dec q (path ++ [last])) as [->|NQ].
      + apply (tfind_tremove_same okp); auto.
      + apply (tfind_tremove_other okp); auto. lia.
    - apply Nat.eqb_neq in NE. rewrite NE. reflexivity.
  Qed.
End Generic.


Lemma akey_path (req : list nat) (p n : nat) (req' : list nat) (p' n' : nat) :
  (length req' = length req /\ req' ++ [p'; n'] = (req ++ [p]) ++ [n]) <-> (req', p', n') = (req, p, n).
Proof.
  split.
  - intros [L E]. rewrite <- app_assoc in E. cbn in E.
    destruct (app_eq_len req' req _ _ L E) as [-> E']. inversion E'; subst. reflexivity.
  - intros E; inversion E; subst. split; auto. rewrite <- app_assoc. reflexivity.
Qed.

Lemma pkey_inj p p' : pkey p = pkey p' -> p = p'.
Proof. destruct p, p'; cbn; congruence. Qed.

Lemma skey_path (req : list nat) (p : option spec) (req' : list nat) (p' : option spec) :
  (length req' = length req /\ req' ++ [pkey p'; 0] = (req ++ [pkey p]) ++ [0]) <-> (req', p') = (req, p).
Proof.
  split.
  - intros [L E]. rewrite <- app_assoc in E. cbn in E.
    destruct (app_eq_len req' req _ _ L E) as [-> E']. inversion E' as [E'']. apply pkey_inj in E''. subst. reflexivity.
  - intros E; inversion E; subst. split; auto. rewrite <- app_assoc. reflexivity.
Qed.



Lemma same_bk_incr W x y p : same_bk x y -> same_bk (provide_incr W x p) (provide_incr W y p).
Proof. intros (A & B & C). unfold provide_incr, same_bk; cbn. rewrite A, B, C. auto. Qed.
Lemma same_bk_decr W x y p k : same_bk x y -> same_bk (provide_decr W x p k) (provide_decr W y p k).
Proof.
  intros (A & B & C). unfold provide_decr, same_bk. rewrite A.
  destruct (Nat.eqb (cnt_get (provided_cnt y) p - k) 0); cbn; rewrite ?A, ?B, ?C; auto.
Qed.
Lemma same_bk_changed x y : same_bk x y -> same_bk (changed x) (changed y).
Proof. intros (A & B & C). unfold same_bk; cbn. rewrite A, B, C. auto. Qed.
Lemma same_bk_with_bk t a s x : same_bk (bk (with_bk t a s x)) x.
Proof. repeat split. Qed.
Lemma same_bk_trans x y z : same_bk x y -> same_bk y z -> same_bk x z.
Proof. intros (A & B & C) (A' & B' & C'). repeat split; congruence. Qed.


(* ------------------------------------------------------------------ one operation on both models *)
Section Sim.
  Variable W : world.

  Lemma afind_pad b o k : afind (pad b o) k = afind b k.
  Proof. destruct k as [[rq p] n]. unfold afind. rewrite order_get_pad. reflexivity. Qed.
  Lemma afind_strip b k : afind (strip b) k = afind b k.
  Proof. destruct k as [[rq p] n]. unfold afind. rewrite order_get_strip. reflexivity. Qed.
  Lemma sfind_pad b o k : sfind (pad b o) k = sfind b k.
  Proof. unfold sfind. rewrite order_get_pad. reflexivity. Qed.
  Lemma sfind_strip b k : sfind (strip b) k = sfind b k.
  Proof. unfold sfind. rewrite order_get_strip. reflexivity. Qed.

  Lemma akey_neq_dec (k k' : akey) : akey_eqb k' k = false -> k' <> k.
  Proof. intros E ->. rewrite (eqb_refl akey_eqb akey_eqb_eq) in E. discriminate. Qed.

  (* ---- adapters: insertion *)
  Lemma afind_insert b (rq : list spec) (p : spec) (n : name) v' k' : length rq < length b ->
    afind (set_nth b (length rq) (tupsert (rq ++ [p]) n (fun _ => Leaf v') (order_get b (length rq)))) k'
    = if akey_eqb k' (rq, p, n) then Some v' else afind b k'.
  Proof.
    intros L. destruct k' as [[rq' p'] n']. unfold afind.
    rewrite (bfind_upsert b (length rq) (rq ++ [p]) n _ (rq' ++ [p'; n']) (length rq'));
      [| rewrite app_length; cbn; lia | auto | rewrite app_length; cbn; lia].
    destruct (akey_eqb (rq', p', n') (rq, p, n)) eqn:K.
    - apply akey_eqb_eq in K. pose proof (proj2 (akey_path rq p n rq' p' n') K) as [E1 E2].
      match goal with |- context [Nat.eq_dec ?a ?b] => destruct (Nat.eq_dec a b) end; [|contradiction].
      match goal with |- context [list_eq_dec ?d ?a ?b] => destruct (list_eq_dec d a b) end; [reflexivity | contradiction].
    - apply akey_neq_dec in K.
      match goal with |- context [Nat.eq_dec ?a ?b] => destruct (Nat.eq_dec a b) as [E1|] end; [|reflexivity].
      match goal with |- context [list_eq_dec ?d ?a ?b] => destruct (list_eq_dec d a b) as [E2|] end; [|rewrite E1; reflexivity].
      exfalso. apply K. apply akey_path. auto.
  Qed.

  Lemma afind_delete b (rq : list spec) (p : spec) (n : name) k' : length rq < length b -> wfd okv (S (length rq)) (order_get b (length rq)) ->
    afind (set_nth b (length rq) (tremove (rq ++ [p]) n (order_get b (length rq)))) k'
    = if akey_eqb k' (rq, p, n) then None else afind b k'.
  Proof.
    intros L Wf. destruct k' as [[rq' p'] n']. unfold afind.
    rewrite (bfind_remove okv b (length rq) (rq ++ [p]) n (rq' ++ [p'; n']) (length rq'));
      [| rewrite app_length; cbn; lia | auto | rewrite app_length; cbn; lia | auto].
    destruct (akey_eqb (rq', p', n') (rq, p, n)) eqn:K.
    - apply akey_eqb_eq in K. pose proof (proj2 (akey_path rq p n rq' p' n') K) as [E1 E2].
      match goal with |- context [Nat.eq_dec ?a ?b] => destruct (Nat.eq_dec a b) end; [|contradiction].
      match goal with |- context [list_eq_dec ?d ?a ?b] => destruct (list_eq_dec d a b) end; [reflexivity | contradiction].
    - apply akey_neq_dec in K.
      match goal with |- context [Nat.eq_dec ?a ?b] => destruct (Nat.eq_dec a b) as [E1|] end; [|reflexivity].
      match goal with |- context [list_eq_dec ?d ?a ?b] => destruct (list_eq_dec d a b) as [E2|] end; [|rewrite E1; reflexivity].
      exfalso. apply K. apply akey_path. auto.
  Qed.

  Lemma R_insert t r rq p n v' :
    R W t r -> (forall old, aget akey_eqb (adapters r) (rq, p, n) = Some old -> v_is old v' = false) ->
    let o := length rq in
    let b := pad (t_adapters t) o in
    R W (with_bk t (set_nth b o (tupsert (rq ++ [p]) n (fun _ => Leaf v') (order_get b o))) (t_subscribers t)
                 (changed (provide_incr W (bk t) p)))
        (changed (provide_incr W (set_ad r (aset akey_eqb (adapters r) (rq, p, n) v')) p)).
  Proof.
    intros (TI & I & A & Sf & B) N o b.
    assert (E : register W r (map Some rq) p n (Some v')
                = changed (provide_incr W (set_ad r (aset akey_eqb (adapters r) (rq, p, n) v')) p)).
    { unfold register. rewrite map_conv_Some.
      destruct (aget akey_eqb (adapters r) (rq, p, n)) as [old|] eqn:G; [rewrite (N old eq_refl)|]; reflexivity. }
    destruct TI as (Ba & Bs & Sa & Ss).
    assert (Lo : o < length b) by apply length_pad.
    split; [|split; [|split; [|split]]].
    - split; [|split; [|split]]; cbn [t_adapters t_subscribers with_bk]; auto.
      + apply binv_set_nth; auto; [apply binv_pad; auto|].
        replace (S o) with (length (rq ++ [p])) by (rewrite app_length; cbn; lia).
        apply wfd_tupsert; [intros _; exists v'; split; [reflexivity | exact Logic.I]|].
        rewrite app_length; cbn. replace (length rq + 1) with (S o) by lia. apply binv_pad; auto.
      + apply strip_set_nth_pad; auto. apply truthy_tupsert.
    - rewrite <- E. apply inv_register; auto.
    - intros k'. cbn [t_adapters with_bk]. rewrite adapters_chg_incr. cbn [adapters set_ad].
      subst o. rewrite afind_insert; auto. subst b. rewrite afind_pad, A.
      match goal with |- context [if ?c then _ else _] => destruct c eqn:K end.
      + apply akey_eqb_eq in K; subst. rewrite ?(eqb_refl akey_eqb akey_eqb_eq), (aget_aset_same akey_eqb akey_eqb_eq). reflexivity.
      + rewrite (aget_aset_other akey_eqb akey_eqb_eq); auto. apply akey_neq_dec; auto.
    - intros k'. cbn [t_subscribers with_bk]. rewrite Sf. apply sub_leaf_ext. rewrite subscribers_chg_incr. reflexivity.
    - eapply same_bk_trans; [apply same_bk_with_bk|]. apply same_bk_changed, same_bk_incr.
      destruct B as (B1 & B2 & B3). repeat split; auto.
  Qed.

  (* ---- adapters: removal (with pruning and stripping) *)
  Lemma R_delete t r rq p n (emptied : bool) :
    R W t r -> length rq < length (t_adapters t) ->
    (exists old, aget akey_eqb (adapters r) (rq, p, n) = Some old) ->
    (emptied = false -> truthy (tremove (rq ++ [p]) n (order_get (t_adapters t) (length rq))) = true) ->
    let o := length rq in
    let b1 := set_nth (t_adapters t) o (tremove (rq ++ [p]) n (order_get (t_adapters t) o)) in
    R W (with_bk t (if emptied then strip b1 else b1) (t_subscribers t) (changed (provide_decr W (bk t) p 1)))
        (changed (provide_decr W (set_ad r (adel akey_eqb (adapters r) (rq, p, n))) p 1)).
  Proof.
    intros (TI & I & A & Sf & B) Lo (old & G) NE o b1.
    assert (E : unregister W r (map Some rq) p n None
                = changed (provide_decr W (set_ad r (adel akey_eqb (adapters r) (rq, p, n))) p 1)).
    { unfold unregister. rewrite map_conv_Some, G. reflexivity. }
    destruct TI as (Ba & Bs & Sa & Ss).
    assert (Wf : wfd okv (S o) (order_get (t_adapters t) o)) by apply Ba.
    assert (B1 : binv okv b1).
    { apply binv_set_nth; auto.
      replace (S o) with (length (rq ++ [p])) by (rewrite app_length; cbn; lia).
      apply wfd_tremove. rewrite app_length; cbn. replace (length rq + 1) with (S o) by lia. exact Wf. }
    assert (F : forall k', afind (if emptied then strip b1 else b1) k'
                           = if akey_eqb k' (rq, p, n) then None else afind (t_adapters t) k').
    { intros k'. destruct emptied; [rewrite afind_strip|]; apply afind_delete; auto. }
    split; [|split; [|split; [|split]]].
    - split; [|split; [|split]]; cbn [t_adapters t_subscribers with_bk]; auto.
      + destruct emptied; [apply binv_strip|]; auto.
      + destruct emptied; [apply strip_idem|]. apply strip_set_nth; auto.
    - rewrite <- E. apply inv_unregister; auto.
    - intros k'. cbn [t_adapters with_bk]. rewrite adapters_chg_decr. cbn [adapters set_ad]. rewrite F, A.
      match goal with |- context [if ?c then _ else _] => destruct c eqn:K end.
      + apply akey_eqb_eq in K; subst. rewrite (aget_adel_same akey_eqb akey_eqb_eq); [reflexivity | apply I].
      + rewrite (aget_adel_other akey_eqb akey_eqb_eq); auto. apply akey_neq_dec; auto.
    - intros k'. cbn [t_subscribers with_bk]. rewrite Sf. apply sub_leaf_ext. rewrite subscribers_chg_decr. reflexivity.
    - eapply same_bk_trans; [apply same_bk_with_bk|]. apply same_bk_changed, same_bk_decr.
      destruct B as (B1' & B2 & B3). repeat split; auto.
  Qed.

  Lemma afind_oob b rq p n : length b <= length rq -> afind b (rq, p, n) = None.
  Proof.
    intros L. unfold afind, order_get. rewrite nth_overflow; auto.
    rewrite tfind_tempty; [reflexivity | destruct rq; discriminate].
  Qed.

  Lemma sim_unregister t r req p n v : R W t r -> R W (t_unregister W t req p n v) (unregister W r req p n v).
  Proof.
    intros HR. pose proof HR as (TI & I & A & Sf & B).
    unfold t_unregister, unregister. cbv zeta. set (rq := map conv req).
    destruct (Nat.leb (length (t_adapters t)) (length rq)) eqn:LE.
    - apply Nat.leb_le in LE. rewrite <- A, afind_oob; auto.
    - apply Nat.leb_gt in LE.
      change (leaf_value (tfind (rq ++ [p; n]) (order_get (t_adapters t) (length rq))))
        with (afind (t_adapters t) (rq, p, n)).
      rewrite A. destruct (aget akey_eqb (adapters r) (rq, p, n)) as [old|] eqn:G; auto.
      assert (D : forall emptied,
                 (emptied = false -> truthy (tremove (rq ++ [p]) n (order_get (t_adapters t) (length rq))) = true) ->
                 R W (with_bk t (if emptied
                                 then strip (set_nth (t_adapters t) (length rq) (tremove (rq ++ [p]) n (order_get (t_adapters t) (length rq))))
                                 else set_nth (t_adapters t) (length rq) (tremove (rq ++ [p]) n (order_get (t_adapters t) (length rq))))
                              (t_subscribers t) (changed (provide_decr W (bk t) p 1)))
                     (changed (provide_decr W (set_ad r (adel akey_eqb (adapters r) (rq, p, n))) p 1))).
      { intros emptied NE. apply R_delete; auto. exists old; auto. }
      assert (NE : forall d, tfind (rq ++ [p]) (order_get (t_adapters t) (length rq)) = Some d ->
                   negb (truthy (Node (adel Nat.eqb (items d) n))) = false ->
                   truthy (tremove (rq ++ [p]) n (order_get (t_adapters t) (length rq))) = true).
      { intros d Fd T. apply negb_false_iff in T. eapply truthy_tremove; eauto. }
      assert (Path : exists d, tfind (rq ++ [p]) (order_get (t_adapters t) (length rq)) = Some d).
      { specialize (A (rq, p, n)). rewrite G in A. unfold afind in A.
        replace (rq ++ [p; n]) with ((rq ++ [p]) ++ [n]) in A by (rewrite <- app_assoc; reflexivity).
        revert A. generalize (rq ++ [p]) (order_get (t_adapters t) (length rq)).
        induction l as [|x l IHl]; intros c; cbn [app tfind]; [eexists; reflexivity|].
        destruct (tget c x); [apply IHl | cbn; discriminate]. }
      destruct Path as (d & Fd). rewrite Fd.
      destruct v as [v'|]; [destruct (v_is old v'); auto|]; apply D; intros T; eapply NE; eauto.
  Qed.

  Lemma sim_register t r req p n v : R W t r -> R W (t_register W t req p n v) (register W r req p n v).
  Proof.
    destruct v as [v'|]; [|apply sim_unregister].
    intros HR. pose proof HR as (TI & I & A & Sf & B).
    unfold t_register, register. cbv zeta. set (rq := map conv req).
    change (leaf_value (tfind (rq ++ [p; n]) (order_get (pad (t_adapters t) (length rq)) (length rq))))
      with (afind (pad (t_adapters t) (length rq)) (rq, p, n)).
    rewrite afind_pad, A.
    destruct (aget akey_eqb (adapters r) (rq, p, n)) as [old|] eqn:G.
    - destruct (v_is old v') eqn:V; auto. apply R_insert; auto. intros o' H. rewrite G in H. inversion H; subst; auto.
    - apply R_insert; auto. intros o' H. rewrite G in H. discriminate.
  Qed.

  (* ---- subscribers *)
  Lemma skey_neq_dec (k k' : skey) : skey_eqb k' k = false -> k' <> k.
  Proof. intros E ->. rewrite (eqb_refl skey_eqb skey_eqb_eq) in E. discriminate. Qed.

  Lemma sfind_upsert b (rq : list spec) p f k' : length rq < length b ->
    sfind (set_nth b (length rq) (tupsert (rq ++ [pkey p]) 0 f (order_get b (length rq)))) k'
    = if skey_eqb k' (rq, p)
      then leaf_tuple (Some (f (tfind (rq ++ [pkey p; 0]) (order_get b (length rq)))))
      else sfind b k'.
  Proof.
    intros L. destruct k' as [rq' p']. unfold sfind. cbn [fst snd].
    rewrite (bfind_upsert b (length rq) (rq ++ [pkey p]) 0 _ (rq' ++ [pkey p'; 0]) (length rq'));
      [| rewrite app_length; cbn; lia | auto | rewrite app_length; cbn; lia].
    destruct (skey_eqb (rq', p') (rq, p)) eqn:K.
    - apply skey_eqb_eq in K. pose proof (proj2 (skey_path rq p rq' p') K) as [E1 E2].
      match goal with |- context [Nat.eq_dec ?a ?b] => destruct (Nat.eq_dec a b) end; [|contradiction].
      match goal with |- context [list_eq_dec ?d ?a ?b] => destruct (list_eq_dec d a b) end; [|contradiction].
      inversion K; subst. reflexivity.
    - apply skey_neq_dec in K.
      match goal with |- context [Nat.eq_dec ?a ?b] => destruct (Nat.eq_dec a b) as [E1|] end; [|reflexivity].
      match goal with |- context [list_eq_dec ?d ?a ?b] => destruct (list_eq_dec d a b) as [E2|] end; [|rewrite E1; reflexivity].
      exfalso. apply K. apply skey_path. auto.
  Qed.

  Lemma sfind_delete b (rq : list spec) p k' : length rq < length b -> wfd okl (S (length rq)) (order_get b (length rq)) ->
    sfind (set_nth b (length rq) (tremove (rq ++ [pkey p]) 0 (order_get b (length rq)))) k'
    = if skey_eqb k' (rq, p) then [] else sfind b k'.
  Proof.
    intros L Wf. destruct k' as [rq' p']. unfold sfind. cbn [fst snd].
    rewrite (bfind_remove okl b (length rq) (rq ++ [pkey p]) 0 (rq' ++ [pkey p'; 0]) (length rq'));
      [| rewrite app_length; cbn; lia | auto | rewrite app_length; cbn; lia | auto].
    destruct (skey_eqb (rq', p') (rq, p)) eqn:K.
    - apply skey_eqb_eq in K. pose proof (proj2 (skey_path rq p rq' p') K) as [E1 E2].
      match goal with |- context [Nat.eq_dec ?a ?b] => destruct (Nat.eq_dec a b) end; [|contradiction].
      match goal with |- context [list_eq_dec ?d ?a ?b] => destruct (list_eq_dec d a b) end; [reflexivity | contradiction].
    - apply skey_neq_dec in K.
      match goal with |- context [Nat.eq_dec ?a ?b] => destruct (Nat.eq_dec a b) as [E1|] end; [|reflexivity].
      match goal with |- context [list_eq_dec ?d ?a ?b] => destruct (list_eq_dec d a b) as [E2|] end; [|rewrite E1; reflexivity].
      exfalso. apply K. apply skey_path. auto.
  Qed.

  Lemma sfind_oob b k : length b <= length (fst k) -> sfind b k = [].
  Proof.
    intros L. unfold sfind, order_get. rewrite nth_overflow; auto.
    rewrite tfind_tempty; [reflexivity | destruct (fst k); discriminate].
  Qed.

  Lemma same_bk_bk_set_su t r s : same_bk (bk t) r -> same_bk (bk t) (set_su r s).
  Proof. intros (A & B & C). repeat split; auto. Qed.

  Lemma sim_subscribe t r req p v : R W t r -> R W (t_subscribe W t req p v) (subscribe W r req p v).
  Proof.
    intros HR. pose proof HR as (TI & I & A & Sf & B). destruct TI as (Ba & Bs & Sa & Ss).
    unfold t_subscribe. cbv zeta. set (rq := map conv req). set (o := length rq).
    set (b := pad (t_subscribers t) o).
    assert (Lo : o < length b) by apply length_pad.
    split; [|split; [|split; [|split]]].
    - split; [|split; [|split]]; cbn [t_adapters t_subscribers with_bk]; auto.
      + apply binv_set_nth; auto; [apply binv_pad; auto|].
        replace (S o) with (length (rq ++ [pkey p])) by (rewrite app_length; cbn; lia).
        apply wfd_tupsert.
        * intros old. eexists; split; [reflexivity|]. unfold okl. destruct (leaf_tuple old); discriminate.
        * rewrite app_length; cbn. replace (length rq + 1) with (S o) by lia. apply binv_pad; auto.
      + apply strip_set_nth_pad; auto. apply truthy_tupsert.
    - apply inv_subscribe; auto.
    - intros k'. cbn [t_adapters with_bk]. rewrite A, adapters_subscribe. reflexivity.
    - intros k'. cbn [t_subscribers with_bk]. subst o. rewrite sfind_upsert; auto.
      rewrite leaf_subscribe. fold rq.
      match goal with |- context [if ?c then _ else _] => destruct c eqn:K end.
      + cbn [leaf_tuple add_to_leaf]. f_equal.
        change (leaf_tuple (tfind (rq ++ [pkey p; 0]) (order_get b (length rq)))) with (sfind b (rq, p)).
        subst b. rewrite sfind_pad. apply Sf.
      + subst b. rewrite sfind_pad. apply Sf.
    - eapply same_bk_trans; [apply same_bk_with_bk|]. rewrite subscribe_form. cbv zeta.
      apply same_bk_changed. destruct p as [p'|]; [apply same_bk_incr|]; apply same_bk_bk_set_su; auto.
  Qed.

  Lemma sim_unsubscribe t r req p v : R W t r -> R W (t_unsubscribe W t req p v) (unsubscribe W r req p v).
  Proof.
    intros HR. pose proof HR as (TI & I & A & Sf & B). destruct TI as (Ba & Bs & Sa & Ss).
    pose proof (unsubscribe_cases W r req p v) as C; cbv zeta in C.
    pose proof (leaf_unsubscribe W r req p v) as LU.
    unfold t_unsubscribe. cbv zeta.
    remember (map conv req) as rq eqn:Erq.
    assert (OLD : leaf_tuple (tfind (rq ++ [pkey p; 0]) (order_get (t_subscribers t) (length rq))) = sub_leaf r (rq, p))
      by apply (Sf (rq, p)).
    destruct (Nat.leb (length (t_subscribers t)) (length rq)) eqn:LE.
    - apply Nat.leb_le in LE. pose proof (sfind_oob (t_subscribers t) (rq, p) LE) as Z. rewrite Sf in Z.
      rewrite Z in C. destruct C as [[C _]|[C _]]; [rewrite C; exact HR | cbn in C; lia].
    - apply Nat.leb_gt in LE. rewrite OLD.
      remember (sub_leaf r (rq, p)) as old eqn:EO.
      change (match v with None => [] | Some v' => filter (fun x => negb (v_eq x v')) old end) with (unsub_new old v).
      remember (unsub_new old v) as new eqn:EN.
      destruct old as [|x old'].
      { destruct C as [[C _]|[C _]]; [rewrite C; exact HR | cbn in C; lia]. }
      destruct (Nat.eqb (length new) (length (x :: old'))) eqn:EL.
      { apply Nat.eqb_eq in EL. destruct C as [[C _]|[C _]]; [rewrite C; exact HR | lia]. }
      apply Nat.eqb_neq in EL.
      destruct C as [[_ C]|[LT C]]; [rewrite C in EL; lia|].
      assert (Wf : wfd okl (S (length rq)) (order_get (t_subscribers t) (length rq))) by apply Bs.
      assert (TI' : binv okl (match new with
                              | [] => strip (set_nth (t_subscribers t) (length rq) (tremove (rq ++ [pkey p]) 0 (order_get (t_subscribers t) (length rq))))
                              | _ :: _ => set_nth (t_subscribers t) (length rq) (tupsert (rq ++ [pkey p]) 0 (fun _ => Leaf new) (order_get (t_subscribers t) (length rq)))
                              end)
                    /\ strip (match new with
                              | [] => strip (set_nth (t_subscribers t) (length rq) (tremove (rq ++ [pkey p]) 0 (order_get (t_subscribers t) (length rq))))
                              | _ :: _ => set_nth (t_subscribers t) (length rq) (tupsert (rq ++ [pkey p]) 0 (fun _ => Leaf new) (order_get (t_subscribers t) (length rq)))
                              end)
                       = (match new with
                              | [] => strip (set_nth (t_subscribers t) (length rq) (tremove (rq ++ [pkey p]) 0 (order_get (t_subscribers t) (length rq))))
                              | _ :: _ => set_nth (t_subscribers t) (length rq) (tupsert (rq ++ [pkey p]) 0 (fun _ => Leaf new) (order_get (t_subscribers t) (length rq)))
                              end)
                    /\ forall k', sfind (match new with
                              | [] => strip (set_nth (t_subscribers t) (length rq) (tremove (rq ++ [pkey p]) 0 (order_get (t_subscribers t) (length rq))))
                              | _ :: _ => set_nth (t_subscribers t) (length rq) (tupsert (rq ++ [pkey p]) 0 (fun _ => Leaf new) (order_get (t_subscribers t) (length rq)))
                              end) k' = if skey_eqb k' (rq, p) then new else sfind (t_subscribers t) k').
      { clear C LU EN EL LT. destruct new as [|y new'].
        - split; [|split].
          + apply binv_strip, binv_set_nth; auto.
            replace (S (length rq)) with (length (rq ++ [pkey p])) by (rewrite app_length; cbn; lia).
            apply wfd_tremove. rewrite app_length; cbn. replace (length rq + 1) with (S (length rq)) by lia. exact Wf.
          + apply strip_idem.
          + intros k'. rewrite sfind_strip. apply sfind_delete; auto.
        - split; [|split].
          + apply binv_set_nth; auto.
            replace (S (length rq)) with (length (rq ++ [pkey p])) by (rewrite app_length; cbn; lia).
            apply wfd_tupsert; [intros _; eexists; split; [reflexivity | unfold okl; discriminate]|].
            rewrite app_length; cbn. replace (length rq + 1) with (S (length rq)) by lia. exact Wf.
          + apply strip_set_nth; auto. apply truthy_tupsert.
          + intros k'. rewrite sfind_upsert; auto. }
      destruct TI' as (T1 & T2 & T3).
      split; [|split; [|split; [|split]]].
      + split; [|split; [|split]]; cbn [t_adapters t_subscribers with_bk]; auto.
      + apply inv_unsubscribe; auto.
      + intros k'. cbn [t_adapters with_bk]. rewrite A, adapters_unsubscribe. reflexivity.
      + intros k'. cbn [t_subscribers with_bk]. rewrite T3, LU; [|apply I].
        destruct (skey_eqb k' (rq, p)); [reflexivity | apply Sf].
      + eapply same_bk_trans; [apply same_bk_with_bk|]. rewrite C.
        apply same_bk_changed. destruct p as [p'|]; [apply same_bk_decr|]; apply same_bk_bk_set_su; auto.
  Qed.
End Sim.

(* ------------------------------------------------------------------ replay, rebuild, histories *)
Section Hist.
  Variable W : world.

  Lemma binv_nil {P} (okp : P -> Prop) : binv okp [].
  Proof. intros i. unfold order_get. destruct i; apply wfd_tempty. Qed.

  Lemma R_fresh g : R W (t_fresh g) (fresh_reg g).
  Proof.
    split; [|split; [|split; [|split]]].
    - split; [apply binv_nil|]. split; [apply binv_nil|]. split; reflexivity.
    - apply inv_changed, inv_empty.
    - intros [[rq p] n]. cbn [t_adapters t_fresh]. rewrite afind_oob; [reflexivity | cbn; lia].
    - intros k. cbn [t_subscribers t_fresh]. rewrite sfind_oob; [reflexivity | cbn; lia].
    - repeat split.
  Qed.

  Lemma R_empty : R W t_empty empty_reg.
  Proof.
    split; [|split; [|split; [|split]]].
    - split; [apply binv_nil|]. split; [apply binv_nil|]. split; reflexivity.
    - apply inv_empty.
    - intros [[rq p] n]. cbn [t_adapters t_empty]. rewrite afind_oob; [reflexivity | cbn; lia].
    - intros k. cbn [t_subscribers t_empty]. rewrite sfind_oob; [reflexivity | cbn; lia].
    - repeat split.
  Qed.

  Lemma sim_replay regs subs : forall t0 r0, R W t0 r0 ->
    R W (t_replay W t0 regs subs) (replay_into W r0 regs subs).
  Proof.
    unfold t_replay, replay_into, replay_regs, replay_subs.
    assert (H1 : forall regs t0 r0, R W t0 r0 ->
              R W (fold_left (fun acc kv => let '(req, p, n) := fst kv in
                                            t_register W acc (map Some req) p n (Some (snd kv))) regs t0)
                  (fold_left (fun acc kv => let '(req, p, n) := fst kv in
                                            register W acc (map Some req) p n (Some (snd kv))) regs r0)).
    { induction regs0 as [|[[[rq p] n] v] regs0 IH]; intros t0 r0 H; cbn [fold_left fst snd]; auto.
      apply IH. apply sim_register; auto. }
    assert (H2 : forall subs t0 r0, R W t0 r0 ->
              R W (fold_left (fun acc kv => t_subscribe W acc (map Some (fst (fst kv))) (snd (fst kv)) (snd kv)) subs t0)
                  (fold_left (fun acc kv => subscribe W acc (map Some (fst (fst kv))) (snd (fst kv)) (snd kv)) subs r0)).
    { induction subs0 as [|[[rq p] v] subs0 IH]; intros t0 r0 H; cbn [fold_left fst snd]; auto.
      apply IH. apply sim_subscribe; auto. }
    intros t0 r0 H. apply H2, H1, H.
  Qed.


  Lemma sim_step_R t r o : R W t r -> R W (fst (lock_step W (t, r) o)) (snd (lock_step W (t, r) o)).
  Proof.
    intros H. destruct o; cbn [lock_step fst snd t_bstep bstep].
    - apply sim_register; auto.
    - apply sim_unregister; auto.
    - apply sim_subscribe; auto.
    - apply sim_unsubscribe; auto.
    - unfold t_rebuild. destruct H as (_ & _ & _ & _ & (_ & _ & G)). cbn [bk generation] in G. rewrite G.
      apply sim_replay. apply R_fresh.
  Qed.

  Lemma sim_run_R ops : R W (fst (lock_run W ops)) (snd (lock_run W ops)).
  Proof.
    unfold lock_run. induction ops as [|o ops IH] using rev_ind; [apply R_empty|].
    rewrite fold_left_app. cbn [fold_left]. destruct (fold_left (lock_step W) ops (t_empty, empty_reg)) as [t r].
    apply sim_step_R; auto.
  Qed.

  Lemma sim_run_trie ops : fst (lock_run W ops) = t_brun W ops.
  Proof.
    unfold lock_run, t_brun. induction ops as [|o ops IH] using rev_ind; [reflexivity|].
    rewrite !fold_left_app. cbn [fold_left]. rewrite <- IH. reflexivity.
  Qed.
End Hist.

(* ------------------------------------------------------------------ the walkers over nested dictionaries
   equal the walkers over the flat map: the ``if comps:`` tests and the ``order >= len(byorder)`` guards
   are redundant *)
Section Walkers.
  Variable W : world.

  Lemma lookup_walk_none m n exts : forall specs prefix,
    (forall xs e, length xs = length specs -> aget akey_eqb m (prefix ++ xs, e, n) = None) ->
    lookup_walk W m prefix specs exts n = None.
  Proof.
    induction specs as [|s specs IH]; intros prefix H; cbn [lookup_walk].
    - apply first_some_None_all. intros e _. specialize (H [] e eq_refl). rewrite app_nil_r in H. exact H.
    - apply first_some_None_all. intros x _. apply IH. intros xs e L.
      rewrite <- app_assoc. apply (H (x :: xs)). cbn; lia.
  Qed.

  Lemma tfind_not_truthy {P} (c : trie P) q : truthy c = false -> q <> [] -> tfind q c = None.
  Proof. intros T N. rewrite (truthy_false _ T). apply tfind_tempty; auto. Qed.

  Lemma t_lookup_flat m exts n : forall specs comps prefix,
    (forall xs e, length xs = length specs ->
                  aget akey_eqb m (prefix ++ xs, e, n) = leaf_value (tfind (xs ++ [e; n]) comps)) ->
    t_lookup W comps specs exts n = lookup_walk W m prefix specs exts n.
  Proof.
    induction specs as [|s specs IH]; intros comps prefix H; cbn [t_lookup lookup_walk].
    - apply first_some_ext_in. intros e _. specialize (H [] e eq_refl). rewrite app_nil_r in H. rewrite H.
      cbn [app tfind]. destruct (tget comps e) as [c|]; [|reflexivity].
      destruct (truthy c) eqn:T.
      + destruct (tget c n); reflexivity.
      + rewrite (truthy_false _ T). reflexivity.
    - apply first_some_ext_in. intros x _.
      destruct (tget comps x) as [c|] eqn:G.
      + destruct (truthy c) eqn:T.
        * apply IH. intros xs e L. rewrite <- app_assoc. rewrite (H (x :: xs)); [|cbn; lia].
          cbn [app tfind]. rewrite G. reflexivity.
        * symmetry. apply lookup_walk_none. intros xs e L. rewrite <- app_assoc. rewrite (H (x :: xs)); [|cbn; lia].
          cbn [app tfind]. rewrite G, tfind_not_truthy; auto. destruct xs; discriminate.
      + symmetry. apply lookup_walk_none. intros xs e L. rewrite <- app_assoc. rewrite (H (x :: xs)); [|cbn; lia].
        cbn [app tfind]. rewrite G. reflexivity.
  Qed.

  Lemma t_uncached_lookup_flat ts rs required p n : Forall2 (R W) ts rs ->
    t_uncached_lookup W ts required p n = uncached_lookup W rs required p n.
  Proof.
    unfold t_uncached_lookup, uncached_lookup.
    induction 1 as [|t r ts rs HR _ IH]; cbn [first_some]; auto.
    destruct HR as (_ & _ & A & _ & (_ & E & _)). cbn [bk extendors] in E. rewrite E.
    assert (X : (if Nat.leb (length (t_adapters t)) (length required) then None
                 else match ext_get (extendors r) p with
                      | [] => None
                      | exts => t_lookup W (order_get (t_adapters t) (length required)) required exts n
                      end)
                = match ext_get (extendors r) p with
                  | [] => None
                  | exts => lookup_walk W (adapters r) [] required exts n
                  end).
    { destruct (ext_get (extendors r) p) as [|e0 exts] eqn:EX; [destruct (Nat.leb _ _); reflexivity|].
      destruct (Nat.leb (length (t_adapters t)) (length required)) eqn:LE.
      - apply Nat.leb_le in LE. symmetry. apply lookup_walk_none. intros xs e L. cbn [app].
        rewrite <- A. apply afind_oob. lia.
      - apply t_lookup_flat. intros xs e L. cbn [app]. rewrite <- A. unfold afind. rewrite L. reflexivity. }
    rewrite X, IH. reflexivity.
  Qed.

  (* ---- subscriptions *)
  Definition fleaf (m : list (skey * list value)) (k : skey) : list value :=
    match aget skey_eqb m k with Some l => l | None => [] end.

  Lemma subs_walk_nil_leaves m oexts : forall specs prefix,
    (forall xs oe, length xs = length specs -> fleaf m (prefix ++ xs, oe) = []) ->
    subs_walk W m prefix specs oexts = [].
  Proof.
    induction specs as [|s specs IH]; intros prefix H; cbn [subs_walk].
    - apply flat_map_all_nil. intros oe _. specialize (H [] oe eq_refl). rewrite app_nil_r in H. exact H.
    - apply flat_map_all_nil. intros x _. apply IH. intros xs oe L.
      rewrite <- app_assoc. apply (H (x :: xs)). cbn; lia.
  Qed.

  Lemma t_subscriptions_flat m oexts : forall specs comps prefix,
    (forall xs oe, length xs = length specs ->
                   fleaf m (prefix ++ xs, oe) = leaf_tuple (tfind (xs ++ [pkey oe; 0]) comps)) ->
    t_subscriptions W comps specs (map pkey oexts) = subs_walk W m prefix specs oexts.
  Proof.
    induction specs as [|s specs IH]; intros comps prefix H; cbn [t_subscriptions subs_walk].
    - rewrite <- map_rev, flat_map_map'. apply flat_map_ext_in'. intros oe _.
      specialize (H [] oe eq_refl). rewrite app_nil_r in H. unfold fleaf in H. rewrite H.
      cbn [app tfind]. destruct (tget comps (pkey oe)) as [c|]; [|reflexivity].
      destruct (truthy c) eqn:T.
      + destruct (tget c 0); reflexivity.
      + rewrite (truthy_false _ T). reflexivity.
    - apply flat_map_ext_in'. intros x _.
      destruct (tget comps x) as [c|] eqn:G.
      + destruct (truthy c) eqn:T.
        * apply IH. intros xs oe L. rewrite <- app_assoc. rewrite (H (x :: xs)); [|cbn; lia].
          cbn [app tfind]. rewrite G. reflexivity.
        * symmetry. apply subs_walk_nil_leaves. intros xs oe L. rewrite <- app_assoc. rewrite (H (x :: xs)); [|cbn; lia].
          cbn [app tfind]. rewrite G, tfind_not_truthy; auto. destruct xs; discriminate.
      + symmetry. apply subs_walk_nil_leaves. intros xs oe L. rewrite <- app_assoc. rewrite (H (x :: xs)); [|cbn; lia].
        cbn [app tfind]. rewrite G. reflexivity.
  Qed.

  Lemma t_uncached_subscriptions_flat ts rs required p : Forall2 (R W) ts rs ->
    t_uncached_subscriptions W ts required p = uncached_subscriptions W rs required p.
  Proof.
    intros F. unfold t_uncached_subscriptions, uncached_subscriptions.
    eapply flat_map_rev_Forall2; [exact F|].
    intros t r (_ & _ & _ & Sf & (_ & E & _)). cbn [bk extendors] in E.
    assert (X : forall oexts,
               (if Nat.leb (length (t_subscribers t)) (length required) then []
                else t_subscriptions W (order_get (t_subscribers t) (length required)) required (map pkey oexts))
               = subs_walk W (subscribers r) [] required oexts).
    { intros oexts. destruct (Nat.leb (length (t_subscribers t)) (length required)) eqn:LE.
      - apply Nat.leb_le in LE. symmetry. apply subs_walk_nil_leaves. intros xs oe L. cbn [app].
        change (fleaf (subscribers r) (xs, oe)) with (sub_leaf r (xs, oe)).
        rewrite <- Sf. apply sfind_oob. cbn; lia.
      - apply t_subscriptions_flat. intros xs oe L. cbn [app].
        change (fleaf (subscribers r) (xs, oe)) with (sub_leaf r (xs, oe)).
        rewrite <- Sf. unfold sfind. cbn [fst snd]. rewrite L. reflexivity. }
    destruct p as [p'|].
    - rewrite E. destruct (aget Nat.eqb (extendors r) p') as [exts|].
      + rewrite <- (X (map Some exts)). rewrite map_map. reflexivity.
      + destruct (Nat.leb _ _); reflexivity.
    - apply (X [None]).
  Qed.
End Walkers.

(* ------------------------------------------------------------------ lookupAll: equal as finite maps
   (the order of the names in the result dictionary follows the nested / the flat enumeration) *)
Definition meq (a b : list (name * value)) : Prop := forall n, aget Nat.eqb a n = aget Nat.eqb b n.

Lemma fold_meq {A} (f g : list (name * value) -> A -> list (name * value)) (l : list A) :
  (forall x a a', In x l -> meq a a' -> meq (f a x) (g a' x)) ->
  forall a a', meq a a' -> meq (fold_left f l a) (fold_left g l a').
Proof.
  induction l as [|x l IH]; intros H a a' M; cbn [fold_left]; auto.
  apply IH; [intros; apply H; cbn; auto | apply H; cbn; auto].
Qed.

Section LookupAll.
  Variable W : world.

  Lemma flat_update_spec prefix e : forall (m : list (akey * value)) acc n, NoDup (map fst m) ->
    aget Nat.eqb
      (fold_left (fun acc kv => let '(r, p, n) := fst kv in
                                if lspec_eqb r prefix && Nat.eqb p e then aset Nat.eqb acc n (snd kv) else acc) m acc) n
    = match aget akey_eqb m (prefix, e, n) with Some v => Some v | None => aget Nat.eqb acc n end.
  Proof.
    induction m as [|[[[r p] n0] v0] m IH]; intros acc n ND; cbn [fold_left fst snd aget]; auto.
    inversion ND as [|? ? NI ND']; subst. rewrite IH; auto.
    destruct (akey_eqb (prefix, e, n) (r, p, n0)) eqn:K.
    - apply akey_eqb_eq in K. inversion K; subst.
      match goal with |- context [aget akey_eqb m ?k] => destruct (aget akey_eqb m k) as [vv|] eqn:Z end.
      { exfalso. apply NI. apply (aget_Some_In akey_eqb akey_eqb_eq) in Z. apply (in_map fst) in Z. exact Z. }
      assert (T : lspec_eqb r r && Nat.eqb p p = true) by (rewrite andb_true_iff, Nat.eqb_refl; split; auto; apply lspec_eqb_eq; auto).
      rewrite T. apply (aget_aset_same Nat.eqb Nat.eqb_eq).
    - destruct (aget akey_eqb m (prefix, e, n)); auto.
      destruct (lspec_eqb r prefix && Nat.eqb p e) eqn:T; auto.
      apply andb_true_iff in T. destruct T as [T1 T2]. apply lspec_eqb_eq in T1. apply Nat.eqb_eq in T2. subst.
      rewrite (aget_aset_other Nat.eqb Nat.eqb_eq); auto.
      intros ->. rewrite (eqb_refl akey_eqb akey_eqb_eq) in K. discriminate.
  Qed.

  Lemma dict_update_spec : forall (l : list (nat * trie value)) acc n, NoDup (map fst l) ->
    aget Nat.eqb (fold_left (fun acc kv => match snd kv with
                                           | Leaf v => aset Nat.eqb acc (fst kv) v
                                           | Node _ => acc end) l acc) n
    = match leaf_value (aget Nat.eqb l n) with Some v => Some v | None => aget Nat.eqb acc n end.
  Proof.
    induction l as [|[n0 x0] l IH]; intros acc n ND; cbn [fold_left fst snd aget]; auto.
    inversion ND as [|? ? NI ND']; subst. rewrite IH; auto.
    destruct (Nat.eqb n n0) eqn:K.
    - apply Nat.eqb_eq in K; subst.
      assert (Z : aget Nat.eqb l n0 = None) by (apply (aget_None_notin Nat.eqb Nat.eqb_eq); auto).
      rewrite Z. cbn [leaf_value]. destruct x0 as [v|]; cbn [leaf_value]; auto.
      apply (aget_aset_same Nat.eqb Nat.eqb_eq).
    - destruct (leaf_value (aget Nat.eqb l n)); auto. destruct x0 as [v|]; auto.
      rewrite (aget_aset_other Nat.eqb Nat.eqb_eq); auto. apply Nat.eqb_neq; auto.
  Qed.

  Lemma lookupAll_walk_noop m exts : forall specs prefix acc, NoDup (map fst m) ->
    (forall xs e n, length xs = length specs -> aget akey_eqb m (prefix ++ xs, e, n) = None) ->
    meq acc (lookupAll_walk W m prefix specs exts acc).
  Proof.
    induction specs as [|s specs IH]; intros prefix acc ND H; cbn [lookupAll_walk].
    - generalize (rev exts). intros l. revert acc. induction l as [|e l IHl]; intros acc; cbn [fold_left]; [intros n; reflexivity|].
      intros n. rewrite <- IHl. rewrite flat_update_spec; auto.
      specialize (H [] e n eq_refl). rewrite app_nil_r in H.
      match goal with |- context [aget akey_eqb m ?k] =>
        replace (aget akey_eqb m k) with (@None value) by (symmetry; exact H) end. reflexivity.
    - generalize (rev (w_sro W s)). intros l. revert acc. induction l as [|x l IHl]; intros acc; cbn [fold_left]; [intros n; reflexivity|].
      intros n. rewrite <- IHl. apply IH; auto. intros xs e n' L. rewrite <- app_assoc. apply (H (x :: xs)). cbn; lia.
  Qed.

  Lemma t_lookupAll_flat m exts : NoDup (map fst m) -> forall specs comps prefix acc acc',
    wfd okv (S (length specs)) comps ->
    (forall xs e n, length xs = length specs ->
                    aget akey_eqb m (prefix ++ xs, e, n) = leaf_value (tfind (xs ++ [e; n]) comps)) ->
    meq acc acc' ->
    meq (t_lookupAll W comps specs exts acc) (lookupAll_walk W m prefix specs exts acc').
  Proof.
    intros ND. induction specs as [|s specs IH]; intros comps prefix acc acc' Wf H M; cbn [t_lookupAll lookupAll_walk].
    - apply fold_meq; auto. intros e a a' _ Ma n. rewrite flat_update_spec; auto.
      specialize (H [] e n eq_refl). rewrite app_nil_r in H.
      match goal with |- context [aget akey_eqb m ?k] =>
        replace (aget akey_eqb m k) with (leaf_value (tfind ([] ++ [e; n]) comps)) by (symmetry; exact H) end.
      cbn [app tfind].
      destruct (tget comps e) as [c|] eqn:G; [|apply Ma].
      destruct (truthy c) eqn:T.
      + unfold dict_update. rewrite dict_update_spec.
        * unfold tget. destruct (aget Nat.eqb (items c) n) as [[v|l]|]; cbn [leaf_value]; auto.
        * destruct Wf as (_ & _ & C). apply (aget_Some_In Nat.eqb Nat.eqb_eq) in G.
          destruct (C _ _ G) as [Wc _]. apply (wfd_nodup okv 0 c Wc).
      + rewrite (truthy_false _ T). cbn. apply Ma.
    - apply fold_meq; auto. intros x a a' _ Ma.
      assert (NONE : (forall xs e n, length xs = length specs ->
                        leaf_value (tfind (x :: xs ++ [e; n]) comps) = None) ->
                     meq a (lookupAll_walk W m (prefix ++ [x]) specs exts a')).
      { intros Z n. rewrite Ma. apply lookupAll_walk_noop; auto. intros xs e n' L.
        rewrite <- app_assoc. rewrite (H (x :: xs)); [|cbn; lia]. apply Z; auto. }
      destruct (tget comps x) as [c|] eqn:G.
      + destruct (truthy c) eqn:T.
        * apply IH; auto.
          -- destruct Wf as (_ & _ & C). apply (aget_Some_In Nat.eqb Nat.eqb_eq) in G. apply (C _ _ G).
          -- intros xs e n L. rewrite <- app_assoc. rewrite (H (x :: xs)); [|cbn; lia].
             cbn [app tfind]. rewrite G. reflexivity.
        * apply NONE. intros xs e n L. cbn [tfind]. rewrite G, tfind_not_truthy; auto. destruct xs; discriminate.
      + apply NONE. intros xs e n L. cbn [tfind]. rewrite G. reflexivity.
  Qed.

  Lemma t_uncached_lookupAll_flat ts rs required p : Forall2 (R W) ts rs ->
    meq (t_uncached_lookupAll W ts required p) (uncached_lookupAll W rs required p).
  Proof.
    intros F. unfold t_uncached_lookupAll, uncached_lookupAll.
    assert (G : forall l l', Forall2 (R W) l l' -> forall acc acc', meq acc acc' ->
              meq (fold_left (fun acc t =>
                                if Nat.leb (length (t_adapters t)) (length required) then acc else
                                match ext_get (t_extendors t) p with
                                | [] => acc
                                | exts => t_lookupAll W (order_get (t_adapters t) (length required)) required exts acc
                                end) l acc)
                  (fold_left (fun acc r => match ext_get (extendors r) p with
                                           | [] => acc
                                           | exts => lookupAll_walk W (adapters r) [] required exts acc
                                           end) l' acc')).
    { induction 1 as [|t r l l' HR _ IH]; intros acc acc' M; cbn [fold_left]; auto.
      apply IH. destruct HR as ((Ba & _) & (I & _) & A & _ & (_ & E & _)). cbn [bk extendors] in E. rewrite E.
      destruct (ext_get (extendors r) p) as [|e0 exts] eqn:EX; [destruct (Nat.leb _ _); auto|].
      destruct (Nat.leb (length (t_adapters t)) (length required)) eqn:LE.
      - apply Nat.leb_le in LE. intros n. rewrite M. apply lookupAll_walk_noop; [apply I|].
        intros xs e n' L. cbn [app]. rewrite <- A. apply afind_oob. lia.
      - apply t_lookupAll_flat; [apply I | apply Ba | | exact M].
        intros xs e n L. cbn [app]. rewrite <- A. unfold afind. rewrite L. reflexivity. }
    apply G; [|intros n; reflexivity].
    clear G. induction F as [|t r ts rs HR _ IH]; cbn [rev]; [constructor|].
    apply Forall2_app; auto.
  Qed.
End LookupAll.

(* ------------------------------------------------------------------ _allKeys / _all_entries enumerate exactly
   the stored key paths *)
Section Enum.
  Context {P : Type}.
  Variable okp : P -> Prop.

  Lemma all_keys_spec : forall n (t : trie P) parent, wfd okp n t -> forall q x,
    In (q, x) (all_keys n t parent)
    <-> exists q', q = parent ++ q' /\ length q' = S n /\ tfind q' t = Some x.
  Proof.
    induction n as [|n IH]; intros t parent Wf q x; cbn [all_keys].
    - rewrite in_map_iff. split.
      + intros ([k c] & E & H). cbn [fst snd] in E. inversion E; subst. exists [k]. split; [auto|]. split; [auto|].
        cbn [tfind]. unfold tget. rewrite (In_aget Nat.eqb Nat.eqb_eq _ k x); auto. apply (wfd_nodup okp 0 t Wf).
      + intros (q' & -> & L & F). destruct q' as [|k [|? ?]]; cbn in L; try lia.
        cbn [tfind] in F. destruct (tget t k) as [d|] eqn:G; [|discriminate]. inversion F; subst.
        exists (k, x). split; auto. apply (aget_Some_In Nat.eqb Nat.eqb_eq). exact G.
    - rewrite in_flat_map. split.
      + intros ([k c] & H & H'). cbn [fst snd] in H'.
        destruct Wf as (ND & _ & C). destruct (C _ _ H) as [Wc _].
        apply (IH c (parent ++ [k]) Wc) in H'. destruct H' as (q'' & -> & L & F).
        exists (k :: q''). split; [rewrite <- app_assoc; reflexivity|]. split; [cbn; lia|].
        cbn [tfind]. unfold tget. rewrite (In_aget Nat.eqb Nat.eqb_eq _ k c); auto.
      + intros (q' & -> & L & F). destruct q' as [|k q'']; cbn in L; [lia|].
        cbn [tfind] in F. destruct (tget t k) as [c|] eqn:G; [|discriminate].
        apply (aget_Some_In Nat.eqb Nat.eqb_eq) in G.
        exists (k, c). split; auto. cbn [fst snd].
        destruct Wf as (ND & _ & C). destruct (C _ _ G) as [Wc _].
        apply (IH c (parent ++ [k]) Wc). exists q''. split; [rewrite <- app_assoc; reflexivity|]. split; [lia | auto].
  Qed.

  Lemma all_entries_spec : forall (b : list (trie P)) i,
    (forall j, wfd okp (S (i + j)) (order_get b j)) -> forall i' q x,
    In (i', (q, x)) (all_entries_from i b)
    <-> exists j, i' = i + j /\ j < length b /\ length q = S (S i') /\ tfind q (order_get b j) = Some x.
  Proof.
    induction b as [|c b IH]; intros i Wf i' q x; cbn [all_entries_from].
    - split; [intros [] | intros (j & _ & L & _); cbn in L; lia].
    - rewrite in_app_iff, in_map_iff. split.
      + intros [((q0 & x0) & E & H)|H].
        * inversion E; subst. specialize (Wf 0). rewrite Nat.add_0_r in Wf. cbn in Wf.
          apply (all_keys_spec (S i') c [] Wf) in H. destruct H as (q' & -> & L & F).
          exists 0. cbn. split; [lia|]. split; [lia|]. split; auto.
        * apply (IH (S i)) in H.
          -- destruct H as (j & -> & L & Lq & F). exists (S j). cbn. split; [lia|]. split; [lia|]. split; auto.
          -- intros j. specialize (Wf (S j)). cbn in Wf. replace (S i + j) with (i + S j) by lia. exact Wf.
      + intros (j & -> & L & Lq & F). destruct j as [|j].
        * left. exists (q, x). rewrite Nat.add_0_r. split; auto.
          specialize (Wf 0). rewrite Nat.add_0_r in Wf. cbn in Wf.
          apply (all_keys_spec (S i) c [] Wf). exists q. cbn in F. rewrite Nat.add_0_r in Lq. auto.
        * right. apply (IH (S i)).
          -- intros j'. specialize (Wf (S j')). cbn in Wf. replace (S i + j') with (i + S j') by lia. exact Wf.
          -- exists j. cbn in L, F. split; [lia|]. split; [lia|]. split; auto.
  Qed.
End Enum.

Lemma path_split : forall (i : nat) (path : list nat), length path = S (S i) ->
  path = firstn i path ++ [nth i path 0; nth (S i) path 0] /\ length (firstn i path) = i.
Proof.
  induction i as [|i IH]; intros path L.
  - destruct path as [|a [|b [|? ?]]]; cbn in L; try lia. cbn. auto.
  - destruct path as [|a path]; cbn in L; [lia|]. destruct (IH path) as [E1 E2]; [lia|].
    cbn [firstn nth app length]. split; [f_equal; exact E1 | lia].
Qed.

Lemma key_of_path (req : list nat) (p n : nat) :
  firstn (length req) (req ++ [p; n]) = req /\ nth (length req) (req ++ [p; n]) 0 = p
  /\ nth (S (length req)) (req ++ [p; n]) 0 = n.
Proof.
  induction req as [|a req (E1 & E2 & E3)]; cbn [length firstn app nth]; auto.
  rewrite E1. auto.
Qed.

(* allRegistrations() of the nested dictionaries lists exactly what registered() finds *)
Lemma t_allRegistrations_spec t : binv okv (t_adapters t) -> forall k v,
  In (k, v) (t_allRegistrations t) <-> afind (t_adapters t) k = Some v.
Proof.
  intros B k v. unfold t_allRegistrations. rewrite in_flat_map. split.
  - intros ((i & path & x) & H & H').
    apply (all_entries_spec okv (t_adapters t) 0) in H; [|intros j; apply B].
    destruct H as (j & -> & Lj & Lp & F). cbn [Nat.add] in *.
    destruct x as [v'|l]; [|destruct H'].
    destruct H' as [H'|[]]. inversion H'; subst.
    destruct (path_split j path Lp) as [E1 E2]. unfold afind. cbv beta iota.
    change (leaf_value (tfind (firstn j path ++ [nth j path 0; nth (S j) path 0]) (order_get (t_adapters t) (length (firstn j path)))) = Some v).
    rewrite E2, <- E1, F. reflexivity.
  - destruct k as [[req p] n]. unfold afind. intros H.
    destruct (tfind (req ++ [p; n]) (order_get (t_adapters t) (length req))) as [[v'|l]|] eqn:F; cbn in H; try discriminate.
    inversion H; subst.
    exists (length req, (req ++ [p; n], Leaf v)). split.
    + apply (all_entries_spec okv (t_adapters t) 0); [intros j; apply B|].
      exists (length req). cbn. split; auto. split.
      * destruct (Nat.lt_ge_cases (length req) (length (t_adapters t))) as [L|L]; auto.
        unfold order_get in F. rewrite nth_overflow in F; auto.
        rewrite tfind_tempty in F; [discriminate | destruct req; discriminate].
      * split; [rewrite app_length; cbn; lia | exact F].
    + destruct (key_of_path req p n) as (E1 & E2 & E3). cbv beta iota. left.
      f_equal. f_equal; [f_equal; [exact E1 | exact E2] | exact E3].
Qed.


(* ------------------------------------------------------------------ assembled for Properties/C09.v *)
Section Final.
  Variable W : world.

  Lemma trie_refines_flat_lemma ops :
    let t := t_brun W ops in
    let r := snd (lock_run W ops) in
    fst (lock_run W ops) = t /\ R W t r
    /\ (forall req p n, t_registered t req p n = registered r req p n)
    /\ (forall req p v, t_subscribed t req p v = subscribed r req p v)
    /\ (forall required p n, t_uncached_lookup W [t] required p n = uncached_lookup W [r] required p n)
    /\ (forall required p, t_uncached_subscriptions W [t] required p = uncached_subscriptions W [r] required p)
    /\ (forall required p n, aget Nat.eqb (t_uncached_lookupAll W [t] required p) n
                             = aget Nat.eqb (uncached_lookupAll W [r] required p) n)
    /\ (forall k v, In (k, v) (t_allRegistrations t) <-> In (k, v) (allRegistrations r)).
  Proof.
    intros t r. pose proof (sim_run_R W ops) as HR. pose proof (sim_run_trie W ops) as E.
    fold r in HR. rewrite E in HR. fold t in HR.
    split; [exact E|]. split; [exact HR|].
    pose proof HR as (TI & I & A & Sf & B).
    split; [intros req p n; apply (A (map conv req, p, n))|].
    split; [intros req p v; unfold t_subscribed, subscribed; f_equal; apply (Sf (map conv req, p))|].
    assert (F2 : Forall2 (R W) [t] [r]) by (constructor; [exact HR | constructor]).
    split; [intros required p n; apply t_uncached_lookup_flat; exact F2|].
    split; [intros required p; apply t_uncached_subscriptions_flat; exact F2|].
    split; [intros required p n; apply t_uncached_lookupAll_flat; exact F2|].
    intros k v. rewrite t_allRegistrations_spec; [|apply TI]. rewrite A. unfold allRegistrations. split.
    - apply (aget_Some_In akey_eqb akey_eqb_eq).
    - apply (In_aget akey_eqb akey_eqb_eq). apply I.
  Qed.

  (* the flat side of the lockstep run and the plain flat run [brun] carry the same two maps *)
  Definition same_maps (r r' : reg) : Prop :=
    (forall k, aget akey_eqb (adapters r) k = aget akey_eqb (adapters r') k)
    /\ (forall k, sub_leaf r k = sub_leaf r' k).
End Final.

Lemma lock_run_no_rebuild W ops : forallb (fun o => match o with BRebuild => false | _ => true end) ops = true ->
  snd (lock_run W ops) = brun W ops.
Proof.
  unfold lock_run, brun. induction ops as [|o ops IH] using rev_ind; [reflexivity|].
  rewrite forallb_app, andb_true_iff. cbn [forallb]. intros [H1 H2].
  rewrite !fold_left_app. cbn [fold_left lock_step snd]. rewrite IH; auto.
  destruct o; auto. discriminate.
Qed.
