(* C08 - proofs about the lookup entry points (Model/Lookup.v) and the uncached walkers
   (Model/Adapter.v). *)
From Coq Require Import List Arith Bool Lia.
Import ListNotations.
From ZI Require Import Model.Ro Model.Adapter Model.Lookup Spec.EntryPoints.

(* ------------------------------------------------------------------ equality tests *)
Lemma lspec_eqb_eq a b : lspec_eqb a b = true <-> a = b.
Proof.
  revert b; induction a as [|x a IH]; intros [|y b]; cbn; try (split; congruence).
  fold (lspec_eqb a b). rewrite andb_true_iff, Nat.eqb_eq, IH.
  split; [intros [-> ->]; auto | intros E; inversion E; auto].
Qed.

Lemma akey_eqb_eq a b : akey_eqb a b = true <-> a = b.
Proof.
  destruct a as [[r1 p1] n1], b as [[r2 p2] n2]; cbn.
  rewrite !andb_true_iff, !Nat.eqb_eq, lspec_eqb_eq.
  split; [intros [[-> ->] ->]; auto | intros E; inversion E; auto].
Qed.

Lemma ckey_eqb_eq a b : ckey_eqb a b = true <-> a = b.
Proof.
  destruct a, b; cbn; try (split; congruence).
  - rewrite Nat.eqb_eq; split; congruence.
  - rewrite lspec_eqb_eq; split; congruence.
Qed.

Lemma cache_key_eqb_eq a b : cache_key_eqb a b = true <-> a = b.
Proof.
  destruct a as [[p1 n1] k1], b as [[p2 n2] k2]; cbn.
  rewrite !andb_true_iff, !Nat.eqb_eq, ckey_eqb_eq.
  split; [intros [[-> ->] ->]; auto | intros E; inversion E; auto].
Qed.

Lemma mkey_eqb_eq a b : mkey_eqb a b = true <-> a = b.
Proof.
  destruct a as [p1 r1], b as [p2 r2]; unfold mkey_eqb; cbn.
  rewrite andb_true_iff, Nat.eqb_eq, lspec_eqb_eq.
  split; [intros [-> ->]; auto | intros E; inversion E; auto].
Qed.

Lemma ospec_eqb_eq a b : ospec_eqb a b = true <-> a = b.
Proof.
  destruct a, b; cbn; try (split; congruence).
  rewrite Nat.eqb_eq; split; congruence.
Qed.

Lemma sckey_eqb_eq a b : sckey_eqb a b = true <-> a = b.
Proof.
  destruct a as [p1 r1], b as [p2 r2]; unfold sckey_eqb; cbn.
  rewrite andb_true_iff, ospec_eqb_eq, lspec_eqb_eq.
  split; [intros [-> ->]; auto | intros E; inversion E; auto].
Qed.

Lemma ckey_of_inj a b : ckey_of a = ckey_of b -> a = b.
Proof.
  destruct a as [|x [|y a]], b as [|x' [|y' b]]; cbn; congruence.
Qed.

(* ------------------------------------------------------------------ association lists *)
Section AssocFacts.
  Context {K V : Type} (eqb : K -> K -> bool).
  Hypothesis eqb_eq : forall a b, eqb a b = true <-> a = b.

  Lemma eqb_refl k : eqb k k = true.
  Proof. apply eqb_eq; reflexivity. Qed.

  Lemma aget_aset (m : list (K * V)) k v k' :
    aget eqb (aset eqb m k v) k' = if eqb k' k then Some v else aget eqb m k'.
  Proof.
    induction m as [|[k0 v0] m IH]; cbn.
    - destruct (eqb k' k); reflexivity.
    - destruct (eqb k k0) eqn:E; cbn.
      + apply eqb_eq in E; subst k0. destruct (eqb k' k); reflexivity.
      + rewrite IH. destruct (eqb k' k0) eqn:E1; [|reflexivity].
        destruct (eqb k' k) eqn:E2; [|reflexivity].
        apply eqb_eq in E1, E2; subst. rewrite eqb_refl in E; discriminate.
  Qed.

  Lemma aget_Some_In (m : list (K * V)) k v : aget eqb m k = Some v -> In k (map fst m).
  Proof.
    induction m as [|[k0 v0] m IH]; cbn; [discriminate|].
    destruct (eqb k k0) eqn:E; [apply eqb_eq in E; auto | auto].
  Qed.

  Lemma aget_None_iff (m : list (K * V)) k : aget eqb m k = None <-> ~ In k (map fst m).
  Proof.
    induction m as [|[k0 v0] m IH]; cbn; [tauto|].
    destruct (eqb k k0) eqn:E.
    - apply eqb_eq in E; subst. split; [discriminate | intros H; exfalso; auto].
    - rewrite IH. split; [intros H [H1|H1]; [subst; rewrite eqb_refl in E; discriminate | auto] | tauto].
  Qed.

  Lemma aset_keys_In (m : list (K * V)) k v x :
    In x (map fst (aset eqb m k v)) <-> x = k \/ In x (map fst m).
  Proof.
    induction m as [|[k0 v0] m IH]; cbn; [intuition|].
    destruct (eqb k k0) eqn:E; cbn.
    - apply eqb_eq in E; subst. intuition.
    - rewrite IH. intuition.
  Qed.

  Lemma aset_keys_NoDup (m : list (K * V)) k v :
    NoDup (map fst m) -> NoDup (map fst (aset eqb m k v)).
  Proof.
    induction m as [|[k0 v0] m IH]; cbn; intros H.
    - constructor; [intros []|constructor].
    - inversion H as [|? ? Hn Hd]; subst. destruct (eqb k k0) eqn:E; cbn.
      + constructor; assumption.
      + constructor; [|auto]. rewrite aset_keys_In. intros [->|H1]; [|auto].
        rewrite eqb_refl in E; discriminate.
  Qed.

  Lemma adel_keys_incl (m : list (K * V)) k x : In x (map fst (adel eqb m k)) -> In x (map fst m).
  Proof.
    induction m as [|[k0 v0] m IH]; cbn; [tauto|].
    destruct (eqb k k0); cbn; intuition.
  Qed.

  Lemma adel_keys_NoDup (m : list (K * V)) k : NoDup (map fst m) -> NoDup (map fst (adel eqb m k)).
  Proof.
    induction m as [|[k0 v0] m IH]; cbn; intros H; [constructor|].
    inversion H as [|? ? Hn Hd]; subst. destruct (eqb k k0); cbn; [assumption|].
    constructor; [intros H1; apply Hn; eapply adel_keys_incl; eauto | auto].
  Qed.
End AssocFacts.

(* ================================================================== the cache layer *)
Section CacheLayer.
  Variable u_lookup : list spec -> spec -> name -> option value.
  Variable u_lookupAll : list spec -> spec -> list (name * value).
  Variable u_subscriptions : list spec -> option spec -> list value.
  Variable call : value -> list nat -> option nat.

  Notation CV := (CacheValid u_lookup u_lookupAll u_subscriptions).
  Notation lookup' := (lookup u_lookup).
  Notation lookup1' := (lookup1 u_lookup).
  Notation hook' := (adapter_hook u_lookup call).
  Notation multi' := (queryMultiAdapter u_lookup call).
  Notation all' := (lookupAll u_lookupAll).
  Notation names' := (names u_lookupAll).
  Notation subs' := (subscriptions u_subscriptions).
  Notation subscribers' := (subscribers u_subscriptions call).

  Definition res_of (r : option value) : res value :=
    match r with Some v => RVal v | None => RDefault end.

  (* ---- relations between the entry points: hold in EVERY cache state, valid or not,
          including the resulting cache state *)
  Lemma lookup1_eq_lookup c r p n : lookup1' c r p n = lookup' c [r] p n.
  Proof.
    destruct n as [n|]; [|reflexivity].
    unfold lookup1, lookup. cbn [ckey_of].
    destruct (aget cache_key_eqb (c_cache c) (p, n, CSingle r)) as [[v|]|]; reflexivity.
  Qed.

  Lemma adapter_hook_eq c p o n :
    hook' c p o n = (fst (lookup' c [o_provides o] p n),
                     apply_factory call (snd (lookup' c [o_provides o] p n)) [unwrap o]).
  Proof.
    destruct n as [n|]; [|reflexivity].
    unfold adapter_hook, lookup. cbn [ckey_of].
    destruct (aget cache_key_eqb (c_cache c) (p, n, CSingle (o_provides o))) as [[v|]|]; cbn.
    - destruct (call v [unwrap o]); reflexivity.
    - reflexivity.
    - destruct (u_lookup [o_provides o] p n) as [v|]; cbn; [destruct (call v [unwrap o])|]; reflexivity.
  Qed.

  Lemma queryMultiAdapter_eq c os p n :
    multi' c os p n = (fst (lookup' c (map o_provides os) p n),
                       apply_factory call (snd (lookup' c (map o_provides os) p n)) (map unwrap os)).
  Proof.
    unfold queryMultiAdapter.
    destruct (lookup' c (map o_provides os) p n) as [c' [f| |]]; cbn; [destruct (call f (map unwrap os))| |]; reflexivity.
  Qed.

  Lemma subscribers_eq c os p :
    subscribers' c os p =
    (fst (subs' c (map o_provides os) p),
     (match p with None => [] | Some _ => call_all call (snd (subs' c (map o_provides os) p)) (map o_id os) end,
      snd (subs' c (map o_provides os) p))).
  Proof.
    unfold subscribers. destruct (subs' c (map o_provides os) p) as [c' s]; cbn.
    destruct p; reflexivity.
  Qed.

  Lemma names_eq c req p :
    names' c req p = (fst (all' c req p), map fst (snd (all' c req p))).
  Proof. unfold names. destruct (all' c req p); reflexivity. Qed.

  Lemma nonstring_rejected c req r os o p :
    lookup' c req p NotAString = (c, RValueError) /\
    lookup1' c r p NotAString = (c, RValueError) /\
    hook' c p o NotAString = (c, RValueError) /\
    multi' c os p NotAString = (c, RValueError).
  Proof. repeat split. Qed.

  (* ---- answers in a valid cache state *)
  Lemma subscribe_required_caches c req :
    c_cache (subscribe_required c req) = c_cache c /\
    c_mcache (subscribe_required c req) = c_mcache c /\
    c_scache (subscribe_required c req) = c_scache c.
  Proof. repeat split. Qed.

  Lemma lookup_valid_res c req p n : CV c -> snd (lookup' c req p (NStr n)) = res_of (u_lookup req p n).
  Proof.
    intros (H & _ & _). unfold lookup.
    destruct (aget cache_key_eqb (c_cache c) (p, n, ckey_of req)) as [r|] eqn:E.
    - apply H in E; subst r. destruct (u_lookup req p n); reflexivity.
    - cbn. destruct (u_lookup req p n); reflexivity.
  Qed.

  Lemma lookupAll_valid_res c req p : CV c -> snd (all' c req p) = u_lookupAll req p.
  Proof.
    intros (_ & H & _). unfold lookupAll.
    destruct (aget mkey_eqb (c_mcache c) (p, req)) as [r|] eqn:E; cbn; [eauto | reflexivity].
  Qed.

  Lemma subscriptions_valid_res c req p : CV c -> snd (subs' c req p) = u_subscriptions req p.
  Proof.
    intros (_ & _ & H). unfold subscriptions.
    destruct (aget sckey_eqb (c_scache c) (p, req)) as [r|] eqn:E; cbn; [eauto | reflexivity].
  Qed.

  (* ---- validity: empty, preserved by every entry point *)
  Lemma CV_empty : CV empty_caches.
  Proof. repeat split; cbn; discriminate. Qed.

  Lemma CV_lookup c req p n : CV c -> CV (fst (lookup' c req p n)).
  Proof.
    intros HV. destruct n as [n|]; [|exact HV]. unfold lookup.
    destruct (aget cache_key_eqb (c_cache c) (p, n, ckey_of req)) as [[v|]|] eqn:E; cbn [fst]; try exact HV.
    destruct HV as (H1 & H2 & H3). repeat split.
    - intros req' p' n' r. cbn [subscribe_required c_cache].
      rewrite (aget_aset cache_key_eqb cache_key_eqb_eq).
      destruct (cache_key_eqb (p', n', ckey_of req') (p, n, ckey_of req)) eqn:E1.
      + apply cache_key_eqb_eq in E1. inversion E1 as [[Hp Hn Hk]]. apply ckey_of_inj in Hk. subst.
        congruence.
      + apply H1.
    - exact H2.
    - exact H3.
  Qed.

  Lemma CV_lookupAll c req p : CV c -> CV (fst (all' c req p)).
  Proof.
    intros HV. unfold lookupAll.
    destruct (aget mkey_eqb (c_mcache c) (p, req)) as [r|] eqn:E; cbn [fst]; try exact HV.
    destruct HV as (H1 & H2 & H3). repeat split.
    - exact H1.
    - intros req' p' r. cbn [subscribe_required c_mcache].
      rewrite (aget_aset mkey_eqb mkey_eqb_eq).
      destruct (mkey_eqb (p', req') (p, req)) eqn:E1.
      + apply mkey_eqb_eq in E1. inversion E1; subst. congruence.
      + apply H2.
    - exact H3.
  Qed.

  Lemma CV_subscriptions c req p : CV c -> CV (fst (subs' c req p)).
  Proof.
    intros HV. unfold subscriptions.
    destruct (aget sckey_eqb (c_scache c) (p, req)) as [r|] eqn:E; cbn [fst]; try exact HV.
    destruct HV as (H1 & H2 & H3). repeat split.
    - exact H1.
    - exact H2.
    - intros req' p' r. cbn [subscribe_required c_scache].
      rewrite (aget_aset sckey_eqb sckey_eqb_eq).
      destruct (sckey_eqb (p', req') (p, req)) eqn:E1.
      + apply sckey_eqb_eq in E1. inversion E1; subst. congruence.
      + apply H3.
  Qed.

  Lemma CV_step c e : CV c -> CV (ep_step u_lookup u_lookupAll u_subscriptions call c e).
  Proof.
    intros HV. destruct e; cbn [ep_step].
    - apply CV_lookup, HV.
    - rewrite lookup1_eq_lookup. apply CV_lookup, HV.
    - rewrite adapter_hook_eq. apply CV_lookup, HV.
    - unfold queryAdapter. rewrite adapter_hook_eq. apply CV_lookup, HV.
    - rewrite queryMultiAdapter_eq. apply CV_lookup, HV.
    - apply CV_lookupAll, HV.
    - rewrite names_eq. apply CV_lookupAll, HV.
    - apply CV_subscriptions, HV.
    - rewrite subscribers_eq. apply CV_subscriptions, HV.
  Qed.

  Lemma CV_fold es : forall c, CV c -> CV (fold_left (ep_step u_lookup u_lookupAll u_subscriptions call) es c).
  Proof. induction es as [|e es IH]; intros c H; cbn; [exact H | apply IH, CV_step, H]. Qed.

  Lemma CV_warm es : CV (warm u_lookup u_lookupAll u_subscriptions call es).
  Proof. apply CV_fold, CV_empty. Qed.

  (* ---- each entry point's answer with a valid cache = its answer with the empty cache *)
  Lemma lookup_indep c req p n : CV c -> snd (lookup' c req p n) = snd (lookup' empty_caches req p n).
  Proof.
    intros H. destruct n as [n|]; [|reflexivity].
    rewrite (lookup_valid_res c), (lookup_valid_res empty_caches); auto using CV_empty.
  Qed.

  Lemma results_independent c : CV c ->
    (forall req p n, snd (lookup' c req p n) = snd (lookup' empty_caches req p n)) /\
    (forall r p n, snd (lookup1' c r p n) = snd (lookup1' empty_caches r p n)) /\
    (forall p o n, snd (hook' c p o n) = snd (hook' empty_caches p o n)) /\
    (forall os p n, snd (multi' c os p n) = snd (multi' empty_caches os p n)) /\
    (forall req p, snd (all' c req p) = snd (all' empty_caches req p)) /\
    (forall req p, snd (names' c req p) = snd (names' empty_caches req p)) /\
    (forall req p, snd (subs' c req p) = snd (subs' empty_caches req p)) /\
    (forall os p, snd (subscribers' c os p) = snd (subscribers' empty_caches os p)).
  Proof.
    intros H. repeat split; intros.
    - apply lookup_indep, H.
    - rewrite !lookup1_eq_lookup. apply lookup_indep, H.
    - rewrite !adapter_hook_eq. cbn [snd]. rewrite (lookup_indep c); auto.
    - rewrite !queryMultiAdapter_eq. cbn [snd]. rewrite (lookup_indep c); auto.
    - rewrite (lookupAll_valid_res c), (lookupAll_valid_res empty_caches); auto using CV_empty.
    - rewrite !names_eq. cbn [snd].
      rewrite (lookupAll_valid_res c), (lookupAll_valid_res empty_caches); auto using CV_empty.
    - rewrite (subscriptions_valid_res c), (subscriptions_valid_res empty_caches); auto using CV_empty.
    - rewrite !subscribers_eq. cbn [snd].
      rewrite (subscriptions_valid_res c), (subscriptions_valid_res empty_caches); auto using CV_empty.
  Qed.
End CacheLayer.

(* ================================================================== the uncached walkers *)

(* "first match walking forward = last write walking backward" *)
Lemma fold_rev_first_some {A} (f : A -> name -> option value)
      (g : list (name * value) -> A -> list (name * value)) (l : list A) :
  (forall x, In x l -> forall acc n,
      aget Nat.eqb (g acc x) n = match f x n with Some v => Some v | None => aget Nat.eqb acc n end) ->
  forall acc n,
    aget Nat.eqb (fold_left g (rev l) acc) n =
    match first_some (fun x => f x n) l with Some v => Some v | None => aget Nat.eqb acc n end.
Proof.
  induction l as [|x l IH]; intros Hg acc n; cbn; [reflexivity|].
  rewrite fold_left_app; cbn. rewrite Hg by (left; reflexivity).
  destruct (f x n); [reflexivity|]. apply IH. intros y Hy. apply Hg. right; exact Hy.
Qed.

Lemma fold_NoDup {A} (g : list (name * value) -> A -> list (name * value)) (l : list A) :
  (forall acc x, NoDup (map fst acc) -> NoDup (map fst (g acc x))) ->
  forall acc, NoDup (map fst acc) -> NoDup (map fst (fold_left g l acc)).
Proof. intros Hg. induction l as [|x l IH]; intros acc H; cbn; auto. Qed.

Definition leaf_update (prefix : list spec) (e : spec) (acc : list (name * value)) (kv : akey * value) :=
  let '(r, p, n) := fst kv in
  if lspec_eqb r prefix && Nat.eqb p e then aset Nat.eqb acc n (snd kv) else acc.

(* dict.update(comps) at a leaf: one write per name stored under (prefix, e) *)
Lemma leaf_update_spec prefix e m : NoDup (map fst m) -> forall acc n,
  aget Nat.eqb (fold_left (leaf_update prefix e) m acc) n =
  match aget akey_eqb m (prefix, e, n) with Some v => Some v | None => aget Nat.eqb acc n end.
Proof.
  induction m as [|[[[r p] n0] v] m IH]; intros Hnd acc n; cbn [fold_left aget]; [reflexivity|].
  inversion Hnd as [|? ? Hn Hd]; subst. rewrite IH by exact Hd.
  unfold leaf_update. cbn [fst snd akey_eqb].
  destruct (aget akey_eqb m (prefix, e, n)) as [v'|] eqn:E.
  - (* a later entry with the same key would contradict uniqueness, unless this one differs *)
    destruct (lspec_eqb prefix r && Nat.eqb e p && Nat.eqb n n0) eqn:E1; [|reflexivity].
    exfalso. rewrite !andb_true_iff, lspec_eqb_eq, !Nat.eqb_eq in E1. destruct E1 as [[-> ->] ->].
    apply (aget_Some_In akey_eqb akey_eqb_eq) in E. auto.
  - destruct (lspec_eqb r prefix && Nat.eqb p e) eqn:E2.
    + rewrite andb_true_iff, lspec_eqb_eq, Nat.eqb_eq in E2. destruct E2 as [-> ->].
      rewrite (aget_aset Nat.eqb Nat.eqb_eq).
      replace (lspec_eqb prefix prefix) with true by (symmetry; apply lspec_eqb_eq; reflexivity).
      rewrite Nat.eqb_refl. cbn [andb]. destruct (Nat.eqb n n0); reflexivity.
    + replace (lspec_eqb prefix r && Nat.eqb e p) with false; [reflexivity|].
      symmetry. apply not_true_is_false. intros H. rewrite andb_true_iff, lspec_eqb_eq, Nat.eqb_eq in H.
      destruct H as [-> ->]. rewrite Nat.eqb_refl, andb_true_r in E2.
      assert (lspec_eqb r r = true) by (apply lspec_eqb_eq; reflexivity). congruence.
Qed.

Lemma leaf_update_NoDup prefix e m : forall acc,
  NoDup (map fst acc) -> NoDup (map fst (fold_left (leaf_update prefix e) m acc)).
Proof.
  apply fold_NoDup. intros acc [[[r p] n] v] H. unfold leaf_update; cbn [fst snd].
  destruct (lspec_eqb r prefix && Nat.eqb p e); [apply (aset_keys_NoDup Nat.eqb Nat.eqb_eq), H | exact H].
Qed.

Lemma lookupAll_walk_leaf W m prefix exts acc :
  lookupAll_walk W m prefix [] exts acc =
  fold_left (fun acc e => fold_left (leaf_update prefix e) m acc) (rev exts) acc.
Proof. reflexivity. Qed.

(* the walker of lookupAll writes, for every name, what the walker of lookup finds first *)
Lemma lookupAll_walk_spec W m exts : NoDup (map fst m) -> forall specs prefix acc n,
  aget Nat.eqb (lookupAll_walk W m prefix specs exts acc) n =
  match lookup_walk W m prefix specs exts n with Some v => Some v | None => aget Nat.eqb acc n end.
Proof.
  intros Hnd. induction specs as [|s rest IH]; intros prefix acc n.
  - rewrite lookupAll_walk_leaf. cbn [lookup_walk].
    apply (fold_rev_first_some (fun e n => aget akey_eqb m (prefix, e, n))).
    intros e _ acc' n'. apply leaf_update_spec, Hnd.
  - cbn [lookupAll_walk lookup_walk].
    apply (fold_rev_first_some (fun x n => lookup_walk W m (prefix ++ [x]) rest exts n)
                               (fun acc x => lookupAll_walk W m (prefix ++ [x]) rest exts acc)).
    intros x _ acc' n'. apply IH.
Qed.

Lemma lookupAll_walk_NoDup W m exts : forall specs prefix acc,
  NoDup (map fst acc) -> NoDup (map fst (lookupAll_walk W m prefix specs exts acc)).
Proof.
  induction specs as [|s rest IH]; intros prefix acc H.
  - rewrite lookupAll_walk_leaf. apply fold_NoDup; [|exact H].
    intros acc' e H'. apply leaf_update_NoDup, H'.
  - cbn [lookupAll_walk]. apply fold_NoDup; [|exact H]. intros acc' x H'. apply IH, H'.
Qed.

Theorem uncached_lookupAll_is_map_of_lookup W ro req p :
  Forall adapters_wf ro ->
  forall n, aget Nat.eqb (uncached_lookupAll W ro req p) n = uncached_lookup W ro req p n.
Proof.
  intros Hwf n. unfold uncached_lookupAll, uncached_lookup.
  rewrite (fold_rev_first_some
             (fun r n => match ext_get (extendors r) p with
                         | [] => None
                         | exts => lookup_walk W (adapters r) [] req exts n
                         end)).
  - cbn [aget]. destruct (first_some _ ro); reflexivity.
  - intros r Hr acc n'. rewrite Forall_forall in Hwf. specialize (Hwf r Hr).
    destruct (ext_get (extendors r) p) as [|e exts]; [reflexivity|].
    apply lookupAll_walk_spec, Hwf.
Qed.

Lemma uncached_lookupAll_NoDup W ro req p : NoDup (map fst (uncached_lookupAll W ro req p)).
Proof.
  unfold uncached_lookupAll. apply fold_NoDup; [|constructor].
  intros acc r H. destruct (ext_get (extendors r) p); [exact H|]. apply lookupAll_walk_NoDup, H.
Qed.

Lemma uncached_names_iff W ro req p : Forall adapters_wf ro ->
  forall n, In n (map fst (uncached_lookupAll W ro req p)) <-> uncached_lookup W ro req p n <> None.
Proof.
  intros Hwf n. rewrite <- (uncached_lookupAll_is_map_of_lookup W ro req p Hwf n).
  rewrite (aget_None_iff Nat.eqb Nat.eqb_eq).
  destruct (in_dec Nat.eq_dec n (map fst (uncached_lookupAll W ro req p))); tauto.
Qed.

(* ------------------------------------------------------------------ the side condition holds
   in every reachable storage state *)
Lemma adapters_wf_empty : adapters_wf empty_reg.
Proof. constructor. Qed.

Lemma adapters_provide_incr W r p : adapters (provide_incr W r p) = adapters r.
Proof. reflexivity. Qed.
Lemma adapters_provide_decr W r p k : adapters (provide_decr W r p k) = adapters r.
Proof. unfold provide_decr. destruct (Nat.eqb _ 0); reflexivity. Qed.

Lemma adapters_wf_unregister W r req p n v : adapters_wf r -> adapters_wf (unregister W r req p n v).
Proof.
  unfold adapters_wf, unregister. intros H.
  destruct (aget akey_eqb (adapters r) (map conv req, p, n)) as [old|]; [|exact H].
  assert (H' : NoDup (map fst (adel akey_eqb (adapters r) (map conv req, p, n))))
    by (apply (adel_keys_NoDup akey_eqb), H).
  destruct v as [v'|]; [destruct (v_is old v'); [|exact H]|];
    cbn [changed adapters]; rewrite adapters_provide_decr; exact H'.
Qed.

Lemma adapters_wf_register W r req p n v : adapters_wf r -> adapters_wf (register W r req p n v).
Proof.
  unfold register. intros H. destruct v as [v'|]; [|apply adapters_wf_unregister, H].
  unfold adapters_wf in *.
  assert (H' : NoDup (map fst (aset akey_eqb (adapters r) (map conv req, p, n) v')))
    by (apply (aset_keys_NoDup akey_eqb akey_eqb_eq), H).
  destruct (aget akey_eqb (adapters r) (map conv req, p, n)) as [old|]; [destruct (v_is old v'); [exact H|]|];
    cbn [changed adapters]; rewrite adapters_provide_incr; exact H'.
Qed.

Lemma adapters_subscribe W r req p v : adapters (subscribe W r req p v) = adapters r.
Proof. unfold subscribe. destruct p; reflexivity. Qed.

Lemma adapters_unsubscribe W r req p v : adapters (unsubscribe W r req p v) = adapters r.
Proof.
  unfold unsubscribe. destruct (sub_leaf r (map conv req, p)); [reflexivity|].
  destruct (Nat.eqb _ _); [reflexivity|].
  destruct p; cbn [changed adapters]; rewrite ?adapters_provide_decr; reflexivity.
Qed.

Lemma adapters_wf_rebuild W r : adapters_wf (rebuild W r).
Proof.
  unfold rebuild.
  assert (HA : forall l x, adapters_wf x ->
            adapters_wf (fold_left (fun acc (kv : akey * value) =>
                                      let '(req, p, n) := fst kv in
                                      register W acc (map Some req) p n (Some (snd kv))) l x)).
  { induction l as [|[[[rq p] n] v] l IH]; intros x Hx; cbn [fold_left fst snd]; [exact Hx|].
    apply IH, adapters_wf_register, Hx. }
  assert (HS : forall l x, adapters_wf x ->
            adapters_wf (fold_left (fun acc (kv : skey * value) =>
                                      subscribe W acc (map Some (fst (fst kv))) (snd (fst kv)) (snd kv)) l x)).
  { induction l as [|kv l IH]; intros x Hx; cbn [fold_left]; [exact Hx|].
    apply IH. unfold adapters_wf. rewrite adapters_subscribe. exact Hx. }
  apply HS, HA. constructor.
Qed.

(* ------------------------------------------------------------------ ... and in every registry
   of every reachable system of registries (Model/RegSys.v), whatever the history *)
From ZI Require Import Model.RegSys.

Definition sys_wf (s : sys) : Prop := Forall (fun x => adapters_wf (rs_reg x)) s.

Lemma get_wf s r : sys_wf s -> adapters_wf (rs_reg (get s r)).
Proof.
  intros H. unfold get. destruct (nth_in_or_default r s dummy_rs) as [Hin|Hd]; [|rewrite Hd; constructor].
  unfold sys_wf in H. rewrite Forall_forall in H. apply H, Hin.
Qed.

Lemma set_wf s : forall r x, sys_wf s -> adapters_wf (rs_reg x) -> sys_wf (set s r x).
Proof.
  induction s as [|y s IH]; intros r x H Hx; cbn [set]; [constructor|].
  inversion H; subst. destruct r; constructor; auto. apply IH; auto.
Qed.

Lemma upd_wf s r f : sys_wf s -> (forall y, adapters_wf (rs_reg y) -> adapters_wf (rs_reg (f y))) ->
  sys_wf (upd s r f).
Proof. intros H Hf. unfold upd. apply set_wf; [exact H|]. apply Hf, get_wf, H. Qed.

Lemma fold_wf {A} (g : sys -> A -> sys) (l : list A) :
  (forall s x, sys_wf s -> sys_wf (g s x)) -> forall s, sys_wf s -> sys_wf (fold_left g l s).
Proof. intros Hg. induction l as [|x l IH]; intros s H; cbn [fold_left]; auto. Qed.

Lemma refresh_ro_wf fuel : forall s r, sys_wf s -> sys_wf (refresh_ro fuel s r).
Proof.
  induction fuel as [|f IH]; intros s r H; cbn [refresh_ro].
  - apply set_wf; [exact H|]. cbn [rs_reg]. apply get_wf, H.
  - assert (H1 : sys_wf (set s r (mkRS (rs_reg (get s r)) (rs_caches (get s r)) (rs_bases (get s r)) (fresh_ro s r)
                                       (rs_subs (get s r)) (rs_vro (get s r)) (rs_vgen (get s r)) (rs_flavour (get s r)))))
      by (apply set_wf; [exact H|]; cbn [rs_reg]; apply get_wf, H).
    destruct (rs_flavour (get s r)); [|exact H1].
    apply fold_wf; [|exact H1]. intros s' x Hs'. apply IH, Hs'.
Qed.

Lemma lookup_changed_wf b s r : sys_wf s -> sys_wf (lookup_changed b s r).
Proof.
  intros H. unfold lookup_changed. destruct (rs_flavour (get s r)).
  - apply set_wf; [exact H|]. cbn [rs_reg]. apply get_wf, H.
  - destruct b; cbv beta iota zeta;
      (apply set_wf; [try apply refresh_ro_wf; exact H | cbn [rs_reg]; apply get_wf; try apply refresh_ro_wf; exact H]).
Qed.

Lemma changed_wf g : adapters_wf g -> adapters_wf (changed g).
Proof. exact (fun H => H). Qed.

Lemma bump_wf s r : sys_wf s -> sys_wf (upd s r bump).
Proof. intros H. apply upd_wf; [exact H|]. intros y Hy. exact Hy. Qed.

Lemma sub_changed_wf fuel : forall s r, sys_wf s -> sys_wf (sub_changed fuel s r).
Proof.
  induction fuel as [|f IH]; intros s r H; cbn [sub_changed].
  - apply lookup_changed_wf, bump_wf, H.
  - assert (H1 : sys_wf (lookup_changed false (upd s r bump) r)) by apply lookup_changed_wf, bump_wf, H.
    destruct (rs_flavour _); [|exact H1].
    apply fold_wf; [|exact H1]. intros s' x Hs'. apply IH, Hs'.
Qed.

Lemma after_bump_wf s r : sys_wf s -> sys_wf (after_bump s r).
Proof.
  intros H. unfold after_bump.
  assert (H1 : sys_wf (lookup_changed false s r)) by apply lookup_changed_wf, H.
  destruct (rs_flavour _); [|exact H1].
  apply fold_wf; [|exact H1]. intros s' x Hs'. apply sub_changed_wf, Hs'.
Qed.

Lemma mutate_wf s r f : (forall g, adapters_wf g -> adapters_wf (f g)) -> sys_wf s -> sys_wf (mutate s r f).
Proof.
  intros Hf H. unfold mutate. destruct (Nat.eqb _ _); [exact H|].
  apply after_bump_wf, set_wf; [exact H|]. cbn [rs_reg]. apply Hf, get_wf, H.
Qed.

Lemma set_bases_wf s r bs : sys_wf s -> sys_wf (set_bases s r bs).
Proof.
  intros H. unfold set_bases.
  apply after_bump_wf, bump_wf, refresh_ro_wf, upd_wf; [|intros y Hy; exact Hy].
  destruct (rs_flavour (get s r)); [|exact H].
  apply fold_wf; [|apply fold_wf; [|exact H]]; intros s' b Hs'; destruct (mem b _); try exact Hs';
    (apply upd_wf; [exact Hs' | intros y Hy; exact Hy]).
Qed.

Lemma new_reg_wf s fl bs : sys_wf s -> sys_wf (new_reg s fl bs).
Proof.
  intros H. unfold new_reg. apply set_bases_wf. unfold sys_wf. apply Forall_app. split; [exact H|].
  constructor; [constructor | constructor].
Qed.

Lemma verify_wf s r : sys_wf s -> sys_wf (verify s r).
Proof.
  intros H. unfold verify. destruct (rs_flavour _); [exact H|].
  destruct (lspec_eqb _ _); [exact H | apply lookup_changed_wf, H].
Qed.

Lemma with_lookup_wf {A} W s r f : sys_wf s -> sys_wf (fst (@with_lookup W A s r f)).
Proof.
  intros H. unfold with_lookup. destruct (f _ _ _ _) as [c' a]. cbn [fst].
  apply upd_wf; [apply verify_wf, H|]. intros y Hy. exact Hy.
Qed.

Lemma step_wf W call s o : sys_wf s -> sys_wf (fst (step W call s o)).
Proof.
  intros H. destruct o; cbn [step fst];
    try (match goal with |- context [with_lookup ?W ?s ?r ?f] =>
           pose proof (with_lookup_wf W s r f H) as HW; destruct (with_lookup W s r f); exact HW end);
    try exact H.
  - apply new_reg_wf, H.
  - apply set_bases_wf, H.
  - apply mutate_wf; [intros g; apply adapters_wf_register | exact H].
  - apply mutate_wf; [intros g; apply adapters_wf_unregister | exact H].
  - apply mutate_wf; [|exact H]. intros g Hg. unfold adapters_wf. rewrite adapters_subscribe. exact Hg.
  - apply mutate_wf; [|exact H]. intros g Hg. unfold adapters_wf. rewrite adapters_unsubscribe. exact Hg.
  - apply after_bump_wf, set_wf; [exact H|]. cbn [rs_reg]. apply adapters_wf_rebuild.
Qed.

Theorem reachable_sys_wf W call ops : sys_wf (final W call [] ops).
Proof.
  unfold final. assert (H : sys_wf []) by constructor. revert H. generalize (@nil rstate).
  induction ops as [|o ops IH]; intros s H; cbn [fold_left]; [exact H|]. apply IH, step_wf, H.
Qed.

(* the registries a lookup of registry r walks *)
Lemma ro_regs_wf s r : sys_wf s -> Forall adapters_wf (ro_regs s r).
Proof.
  intros H. unfold ro_regs. apply Forall_forall. intros x Hx. apply in_map_iff in Hx.
  destruct Hx as (i & <- & _). apply get_wf, H.
Qed.
