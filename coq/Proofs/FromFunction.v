(* Proofs for C18: the regenerated kernel Gen/FromFunction.v (fromFunction as the source says
   it now) meets Spec/Signature.v on CPython's layout of every valid signature. *)
From Coq Require Import List ZArith Bool Arith Lia NArith.
Import ListNotations.
From ZI Require Import Lib.Str Model.PyFunc Spec.Signature Gen.FromFunction Model.FromFunctionPrefix.

Lemma norm_bound_nat n i : norm_bound n (Z.of_nat i) = Nat.min i n.
Proof.
  unfold norm_bound. destruct (Z.ltb_spec (Z.of_nat i) 0); [lia|]. now rewrite Nat2Z.id.
Qed.

Lemma py_slice_from_nat {A} (l : list A) i : py_slice l (Some (Z.of_nat i)) None = skipn i l.
Proof.
  unfold py_slice. rewrite norm_bound_nat.
  destruct (Nat.le_gt_cases i (length l)).
  - rewrite Nat.min_l by lia. apply firstn_all2. rewrite skipn_length. lia.
  - rewrite Nat.min_r by lia. rewrite Nat.sub_diag. cbn. symmetry. apply skipn_all2. lia.
Qed.

Lemma py_slice_to_nat {A} (l : list A) i : py_slice l None (Some (Z.of_nat i)) = firstn i l.
Proof.
  unfold py_slice. rewrite norm_bound_nat. cbn [skipn]. rewrite Nat.sub_0_r.
  destruct (Nat.le_gt_cases i (length l)).
  - now rewrite Nat.min_l by lia.
  - rewrite Nat.min_r by lia. rewrite firstn_all. symmetry. apply firstn_all2. lia.
Qed.

Lemma py_index_nat {A} (l : list A) i :
  py_index l (Z.of_nat i) = match nth_error l i with Some x => Ok x | None => IndexError end.
Proof.
  unfold py_index. destruct (Z.ltb_spec (Z.of_nat i) 0); [lia|].
  destruct (Z.ltb_spec (Z.of_nat i) 0); [lia|]. now rewrite Nat2Z.id.
Qed.

Lemma dict_set_fresh {V} (d : list (name * V)) k v : ~ In k (map fst d) -> dict_set d k v = d ++ [(k, v)].
Proof.
  induction d as [|[k' v'] d IH]; cbn; intros H; auto.
  destruct (Nat.eqb_spec k k'); [subst; tauto|]. f_equal. apply IH. tauto.
Qed.

Lemma dict_update_fresh {V} (e d : list (name * V)) : NoDup (map fst (d ++ e)) -> dict_update d e = d ++ e.
Proof.
  unfold dict_update. revert d. induction e as [|[k v] e IH]; intros d H; cbn.
  - now rewrite app_nil_r.
  - rewrite dict_set_fresh.
    + rewrite IH; rewrite <- app_assoc; cbn; auto.
    + rewrite map_app in H. cbn in H. apply NoDup_remove_2 in H. intros X. apply H. apply in_or_app; auto.
Qed.

Lemma dict_of_pairs_nodup {V} (l : list (name * V)) : NoDup (map fst l) -> dict_of_pairs l = l.
Proof. intros H. unfold dict_of_pairs. now rewrite dict_update_fresh. Qed.

Lemma if_eq0 (x : Z) : (if (x =? 0)%Z then Ok 0%Z else Ok x) = Ok x.
Proof. destruct (Z.eqb_spec x 0); subst; reflexivity. Qed.

Lemma clamp_nat (i n : nat) :
  (if (Z.of_nat i >? Z.of_nat n)%Z then Ok (Z.of_nat n) else Ok (Z.of_nat i)) = Ok (Z.of_nat (Nat.min i n)).
Proof.
  destruct (Z.gtb_spec (Z.of_nat i) (Z.of_nat n)); f_equal; f_equal; lia.
Qed.

Lemma rbind_ok {A B} (a : A) (f : A -> result B) : rbind (Ok a) f = f a.
Proof. reflexivity. Qed.

Lemma skipn_app_len {A} (a b : list A) n : n = length a -> skipn n (a ++ b) = b.
Proof. intros ->. rewrite skipn_app, skipn_all, Nat.sub_diag. reflexivity. Qed.

Lemma firstn_app_len {A} (a b : list A) n : n = length a -> firstn n (a ++ b) = a.
Proof. intros ->. rewrite firstn_app, firstn_all, Nat.sub_diag. cbn. apply app_nil_r. Qed.

Lemma combine_fst_snd_app {A B} (l : list (A * B)) (rest : list A) :
  combine (map fst l ++ rest) (map snd l) = l.
Proof. induction l as [|[a b] l IH]; cbn; [now destruct rest | now rewrite IH]. Qed.

Lemma nth_error_app_plus {A} (a b : list A) n j : n = length a -> nth_error (a ++ b) (n + j) = nth_error b j.
Proof. intros ->. rewrite nth_error_app2 by lia. f_equal. lia. Qed.

Definition osome {A} (o : option A) : bool := match o with Some _ => true | None => false end.

(* the kernel on an explicitly segmented code object: [pre] are the imlevel leading names that
   are cut off, [Od] the defaults that belonged to them *)

Lemma core (R : list name) (O Od : list (name * dflt)) (pre KN : list name) va vk locals fd :
  (R = [] \/ Od = []) -> NoDup (map fst O) -> NoDup (map fst fd) ->
  fromFunction (mkCode (length pre + length R + length O) (length KN)
                  (pre ++ R ++ map fst O ++ KN ++ olist va ++ olist vk ++ locals)
                  (osome va) (osome vk) (map snd Od ++ map snd O) (length pre) fd)
  = Ok (mkMethod (R ++ map fst O) R O va vk fd).
Proof.
  intros HR HO Hfd. unfold fromFunction.
  cbn [co_argcount co_kwonlyargcount co_varnames has_varargs has_varkw fn_defaults fn_imlevel fn_dict].
  cbv zeta.
  rewrite clamp_nat, rbind_ok. cbv beta.
  rewrite (Nat.min_l (length pre)) by lia.
  rewrite negb_involutive, if_eq0, rbind_ok.
  replace (Z.of_nat (length pre + length R + length O) - Z.of_nat (length pre))%Z
    with (Z.of_nat (length R + length O)) by lia.
  rewrite py_slice_from_nat, skipn_app, skipn_all, Nat.sub_diag. cbn [skipn app].
  unfold py_len. rewrite app_length, !map_length.
  rewrite (dict_update_fresh fd []) by exact Hfd. cbn [app].
  match goal with |- rbind ?X _ = _ => assert (E : X = Ok (map snd O, Z.of_nat (length R))) end.
  { destruct (Z.ltb_spec (Z.of_nat (length R + length O) - Z.of_nat (length Od + length O)) 0) as [H|H].
    - destruct HR as [-> | ->]; [|cbn [length] in H; lia].
      replace (- (Z.of_nat (length (@nil name) + length O) - Z.of_nat (length Od + length O)))%Z
        with (Z.of_nat (length Od)) by (cbn [length]; lia).
      rewrite py_slice_from_nat, skipn_app_len by (now rewrite map_length). reflexivity.
    - assert (Od = []) as ->.
      { destruct HR as [-> | ->]; auto. destruct Od; auto. cbn [length] in H. lia. }
      cbn [map app length]. f_equal. f_equal. lia. }
  rewrite E, rbind_ok. cbv beta iota. clear E.
  rewrite !py_slice_to_nat, py_slice_from_nat.
  rewrite (firstn_app_len R _ (length R)) by reflexivity.
  rewrite (skipn_app_len R) by reflexivity.
  unfold py_zip. rewrite combine_fst_snd_app, dict_of_pairs_nodup by exact HO.
  rewrite (dict_update_fresh O []) by exact HO. cbn [app].
  replace (firstn (length R + length O) (R ++ map fst O ++ KN ++ olist va ++ olist vk ++ locals))
    with (R ++ map fst O)
    by (rewrite (app_assoc R); symmetry; apply firstn_app_len; now rewrite app_length, map_length).
  replace (R ++ map fst O ++ KN ++ olist va ++ olist vk ++ locals)
    with ((R ++ map fst O ++ KN) ++ olist va ++ olist vk ++ locals) by (now rewrite <- !app_assoc).
  assert (L : length R + length O + length KN = length (R ++ map fst O ++ KN))
    by (now rewrite !app_length, map_length, Nat.add_assoc).
  rewrite <- !Nat2Z.inj_add.
  replace (Z.of_nat (length R + length O + length KN) + 1)%Z
    with (Z.of_nat (length R + length O + length KN + 1)) by lia.
  set (n := length R + length O + length KN) in *.
  assert (I0 : forall rest : list name, py_index ((R ++ map fst O ++ KN) ++ rest) (Z.of_nat n)
                 = match nth_error rest 0 with Some x => Ok x | None => IndexError end).
  { intros rest. rewrite py_index_nat. rewrite <- (Nat.add_0_r n). now rewrite (nth_error_app_plus _ _ _ 0 L). }
  assert (I1 : forall rest : list name, py_index ((R ++ map fst O ++ KN) ++ rest) (Z.of_nat (n + 1))
                 = match nth_error rest 1 with Some x => Ok x | None => IndexError end).
  { intros rest. rewrite py_index_nat. now rewrite (nth_error_app_plus _ _ _ 1 L). }
  destruct va as [a|], vk as [k|]; cbn [osome olist app];
    rewrite ?I0, ?I1; cbn [nth_error]; rewrite ?rbind_ok; cbv beta iota;
    rewrite ?I0, ?I1; cbn [nth_error]; rewrite ?rbind_ok; reflexivity.
Qed.

(* ---- valid positional parameter lists are "required ++ optional" *)
Definition req_params (R : list name) : list param := map (fun n => (n, @None dflt)) R.
Definition opt_params (O : list (name * dflt)) : list param := map (fun kd => (fst kd, Some (snd kd))) O.

Lemma all_default_split t : forallb has_default t = true -> exists O, t = opt_params O.
Proof.
  induction t as [|[n [d|]] t IH]; cbn; intros H; try discriminate.
  - now exists [].
  - destruct (IH H) as [O ->]. now exists ((n, d) :: O).
Qed.

Lemma dflt_suffix_split P : dflt_suffix P = true -> exists R O, P = req_params R ++ opt_params O.
Proof.
  induction P as [|[n [d|]] t IH]; cbn; intros H.
  - now exists [], [].
  - destruct (all_default_split t H) as [O ->]. now exists [], ((n, d) :: O).
  - destruct (IH H) as (R & O & ->). now exists (n :: R), O.
Qed.

Lemma names_split R O : map fst (req_params R ++ opt_params O) = R ++ map fst O.
Proof.
  unfold req_params, opt_params. rewrite map_app, !map_map. cbn. now rewrite map_id.
Qed.
Lemma defaults_split R O : defaults_of (req_params R ++ opt_params O) = map snd O.
Proof.
  induction R as [|n R IH]; cbn; auto.
  induction O as [|[n d] O IH]; cbn; auto. now rewrite <- IH.
Qed.
Lemma optional_split R O : optional_of (req_params R ++ opt_params O) = O.
Proof.
  induction R as [|n R IH]; cbn; auto.
  induction O as [|[n d] O IH]; cbn; auto. f_equal. exact IH.
Qed.
Lemma required_split R O : required_of (req_params R ++ opt_params O) = R.
Proof.
  induction R as [|n R IH]; cbn.
  - induction O as [|[n d] O IH]; cbn; auto.
  - f_equal. exact IH.
Qed.
Lemma skipn_split i R O :
  skipn i (req_params R ++ opt_params O) = req_params (skipn i R) ++ opt_params (skipn (i - length R) O).
Proof.
  unfold req_params, opt_params. now rewrite skipn_app, !skipn_map, map_length.
Qed.

Lemma NoDup_app_l {A} (a b : list A) : NoDup (a ++ b) -> NoDup a.
Proof.
  induction a as [|x a IH]; cbn; intros H; [constructor|].
  inversion H; subst. constructor; [|auto]. intros X. apply H2. apply in_or_app; auto.
Qed.
Lemma NoDup_app_r {A} (a b : list A) : NoDup (a ++ b) -> NoDup b.
Proof. induction a as [|x a IH]; cbn; intros H; auto. inversion H; auto. Qed.
Lemma NoDup_skipn {A} (l : list A) n : NoDup l -> NoDup (skipn n l).
Proof. intros H. rewrite <- (firstn_skipn n l) in H. now apply NoDup_app_r in H. Qed.

(* ---- the main statement *)
Lemma fromFunction_correct_le : forall (s : signature) (locals : list name) (fd : list (name * dflt)) (iml : nat),
  valid s -> NoDup (map fst fd) -> iml <= length (positionals s) ->
  fromFunction (layout s locals fd iml) = Ok (spec_info s iml fd).
Proof.
  intros s locals fd iml [Hs Hn] Hfd Hi.
  destruct (dflt_suffix_split _ Hs) as (R & O & HP).
  unfold layout, spec_info, visible, param_names. unfold param_names in Hn.
  rewrite <- app_length. fold (positionals s).
  rewrite HP in *. clear HP Hs.
  rewrite skipn_split, names_split, defaults_split, optional_split, required_split.
  rewrite app_length in Hi. unfold req_params, opt_params in Hi. rewrite !map_length in Hi.
  set (R' := skipn iml R). set (O' := skipn (iml - length R) O).
  set (Od := firstn (iml - length R) O). set (pre := firstn iml (R ++ map fst O)).
  assert (Lpre : length pre = iml) by (unfold pre; rewrite firstn_length, app_length, map_length; lia).
  assert (LR : length R' = length R - iml) by (unfold R'; now rewrite skipn_length).
  assert (LO : length O' = length O - (iml - length R)) by (unfold O'; now rewrite skipn_length).
  assert (HN : NoDup (map fst O')).
  { rewrite names_split in Hn.
    apply NoDup_app_l in Hn. apply NoDup_app_r in Hn.
    unfold O'. rewrite <- skipn_map. now apply NoDup_skipn. }
  assert (HRO : R' = [] \/ Od = []).
  { destruct (Nat.le_gt_cases iml (length R)).
    - right. unfold Od. now replace (iml - length R) with 0 by lia.
    - left. unfold R'. apply skipn_all2. lia. }
  rewrite (names_split R' O').
  rewrite <- (core R' O' Od pre (map fst (kwonly s)) (vararg s) (varkw s) locals fd HRO HN Hfd).
  f_equal. rewrite Lpre. f_equal.
  - rewrite app_length. unfold req_params, opt_params. rewrite !map_length. lia.
  - now rewrite map_length.
  - assert (E : R ++ map fst O = pre ++ R' ++ map fst O').
    { unfold pre, R', O'. rewrite <- (firstn_skipn iml (R ++ map fst O)) at 1.
      f_equal. now rewrite skipn_app, skipn_map. }
    rewrite E. now rewrite <- !app_assoc.
  - unfold Od, O'. now rewrite <- map_app, firstn_skipn.
Qed.

(* the source clamps imlevel to co_argcount: an imlevel beyond the positional parameters strips
   all of them and nothing else *)
Lemma fromFunction_clamp co :
  fromFunction co = fromFunction (with_imlevel (Nat.min (fn_imlevel co) (co_argcount co)) co).
Proof.
  unfold fromFunction, with_imlevel.
  cbn [co_argcount co_kwonlyargcount co_varnames has_varargs has_varkw fn_defaults fn_imlevel fn_dict].
  cbv zeta. rewrite !clamp_nat.
  rewrite (Nat.min_l (Nat.min (fn_imlevel co) (co_argcount co))) by apply Nat.le_min_r.
  reflexivity.
Qed.

Lemma skipn_min {A} (l : list A) n : skipn (Nat.min n (length l)) l = skipn n l.
Proof.
  destruct (Nat.le_gt_cases n (length l)).
  - now rewrite Nat.min_l.
  - rewrite Nat.min_r by lia. rewrite skipn_all. symmetry. apply skipn_all2. lia.
Qed.

Lemma fromFunction_correct : forall (s : signature) (locals : list name) (fd : list (name * dflt)) (iml : nat),
  valid s -> NoDup (map fst fd) ->
  fromFunction (layout s locals fd iml) = Ok (spec_info s iml fd).
Proof.
  intros s locals fd iml Hv Hfd. rewrite fromFunction_clamp.
  change (with_imlevel (Nat.min (fn_imlevel (layout s locals fd iml)) (co_argcount (layout s locals fd iml)))
                       (layout s locals fd iml))
    with (layout s locals fd (Nat.min iml (length (posonly s) + length (pos s)))).
  rewrite <- app_length. fold (positionals s).
  rewrite fromFunction_correct_le; auto using Nat.le_min_r.
  unfold spec_info, visible. now rewrite skipn_min.
Qed.

(* ---- getSignatureString *)
Lemma dict_get_absent {V} (d : list (name * V)) k : ~ In k (map fst d) -> dict_get d k = None.
Proof.
  induction d as [|[k' v] d IH]; cbn; intros H; auto.
  destruct (Nat.eqb_spec k k'); [subst; tauto|]. apply IH. tauto.
Qed.

Lemma optional_of_keys l k : In k (map fst (optional_of l)) -> In k (map fst l).
Proof.
  induction l as [|[n [d|]] l IH]; cbn; auto. intros [H|H]; auto.
Qed.

Lemma dict_get_optional l : NoDup (map fst l) ->
  forall p, In p l -> dict_get (optional_of l) (fst p) = snd p.
Proof.
  induction l as [|[n o] l IH]; cbn [map fst]; intros H p Hp; [destruct Hp|].
  inversion H as [|? ? Hn Hl]; subst. destruct Hp as [<-|Hp].
  - cbn [fst snd]. destruct o as [d|]; cbn.
    + now rewrite Nat.eqb_refl.
    + apply dict_get_absent. intros X. apply Hn. now apply optional_of_keys.
  - assert (fst p <> n) by (intros <-; apply Hn; now apply in_map).
    destruct o as [d|]; cbn; [|now apply IH].
    destruct (Nat.eqb_spec (fst p) n); [tauto|]. now apply IH.
Qed.

Lemma string_of_spec_info s iml fd :
  NoDup (param_names s) -> getSignatureString (spec_info s iml fd) = render s iml.
Proof.
  intros Hn. unfold getSignatureString, render, spec_info.
  cbn [m_positional m_optional m_varargs m_kwargs]. f_equal.
  rewrite map_map. apply map_ext_in. intros p Hp.
  rewrite (dict_get_optional (visible s iml)); auto.
  unfold visible. rewrite <- skipn_map. apply NoDup_skipn.
  unfold param_names in Hn. now apply NoDup_app_l in Hn.
Qed.

Lemma signature_string_renders : forall (s : signature) (locals : list name) (fd : list (name * dflt)) (iml : nat),
  valid s -> NoDup (map fst fd) ->
  exists m, fromFunction (layout s locals fd iml) = Ok m /\ getSignatureString m = render s iml.
Proof.
  intros s locals fd iml Hv Hfd. exists (spec_info s iml fd). split.
  - now apply fromFunction_correct.
  - apply string_of_spec_info. apply Hv.
Qed.

(* ---- fromMethod *)
Lemma fromMethod_strips_self : forall (s : signature) (locals : list name) (fd : list (name * dflt)) (iml0 : nat),
  valid s -> NoDup (map fst fd) ->
  fromMethod (layout s locals fd iml0)
  = Ok (mkMethod (map fst (tl (positionals s))) (required_of (tl (positionals s)))
                 (optional_of (tl (positionals s))) (vararg s) (varkw s) fd).
Proof.
  intros s locals fd iml0 Hv Hfd. unfold fromMethod.
  change (with_imlevel 1 (layout s locals fd iml0)) with (layout s locals fd 1).
  rewrite fromFunction_correct; auto.
Qed.

(* ======================================================================= generated = model
   The further regenerated definitions of Gen/FromFunction.v (Method.getSignatureInfo /
   getSignatureString, Element's tagged-value accessors, ABCInterfaceClass.__method_from_function)
   equal the hand-written Model/PyFunc.v definitions the property theorems and the Spec oracle use. *)
Lemma generated_abc_eq co :
  abc_method_from_function co
  = fromFunction (with_imlevel (if Nat.eqb (co_argcount co) 0 then 0 else 1) co).
Proof.
  unfold abc_method_from_function. destruct (co_argcount co); reflexivity.
Qed.

Lemma info_eq m : getSignatureInfo m = (m_positional m, m_required m, m_optional m, m_varargs m, m_kwargs m).
Proof. reflexivity. Qed.

(* --- tagged *)
Definition tv_of (d : list (name * dflt)) : tvstate :=
  fold_left (fun tv kv => setTaggedValue tv (fst kv) (snd kv)) d tv_init.

Lemma set_fold d : forall tv,
  fold_left (fun tv kv => setTaggedValue tv (fst kv) (snd kv)) d tv
  = match d with [] => tv | _ => Some (dict_update (tv_dict tv) d) end.
Proof.
  induction d as [|kv d IH]; intros tv; [reflexivity|].
  cbn [fold_left]. rewrite IH. unfold setTaggedValue, dict_update. cbn [fold_left].
  destruct tv as [x|]; cbn [tv_is_none tv_dict]; destruct d; reflexivity.
Qed.

Lemma dict_set_nonempty {V} (d : list (name * V)) k v : dict_set d k v <> [].
Proof. destruct d as [|[k' v'] d]; cbn; [discriminate|]. destruct (Nat.eqb k k'); discriminate. Qed.

Lemma dict_update_nonempty {V} (e d : list (name * V)) : d <> [] -> dict_update d e <> [].
Proof.
  unfold dict_update. revert d. induction e as [|kv e IH]; intros d H; cbn; auto.
  apply IH. apply dict_set_nonempty.
Qed.

Lemma tagged_eq d none t :
  let d' := dict_update [] d in
  [code_get (getTaggedValue (tv_of d) t); code_get (getDirectTaggedValue (tv_of d) t);
   code_query none (queryTaggedValue (tv_of d) t queryTaggedValue_default);
   code_query none (queryDirectTaggedValue (tv_of d) t queryTaggedValue_default);
   code_query_d (queryTaggedValue (tv_of d) t VSentinel);
   code_query_d (queryDirectTaggedValue (tv_of d) t VSentinel)] = tag_reads d' none t
  /\ getTaggedValueTags (tv_of d) = map fst d' /\ getDirectTaggedValueTags (tv_of d) = map fst d'
  /\ tv_dict (tv_of d) = d'.
Proof.
  intros d'. unfold tv_of. rewrite set_fold. unfold tv_init. cbn [tv_dict].
  unfold getDirectTaggedValue, queryDirectTaggedValue, getDirectTaggedValueTags.
  destruct d as [|kv d].
  - subst d'. cbn. auto.
  - fold d'. assert (N : d' <> []).
    { unfold d', dict_update. cbn [fold_left]. apply dict_update_nonempty. apply dict_set_nonempty. }
    destruct d' as [|p l]; [congruence|].
    unfold getTaggedValue, queryTaggedValue, getTaggedValueTags, tag_reads, py_getitem, dict_getd, queryTaggedValue_default.
    cbn [tv_truth tv_dict negb].
    destruct (dict_get (p :: l) t); cbn; auto.
Qed.

(* --- getSignatureString *)
Lemma last_iadd_snoc (acc : list pstr) a x : py_last_iadd (acc ++ [a]) x = acc ++ [a ++ x].
Proof.
  induction acc as [|b acc IH]; [reflexivity|].
  cbn [app]. destruct acc as [|c acc]; cbn [app py_last_iadd] in *; [reflexivity|].
  f_equal. exact IH.
Qed.

Definition gen_item (O : list (name * dflt)) (v : name) : pstr :=
  match dict_get O v with Some d => [PName v; PLit [61%N]; PRepr d] | None => [PName v] end.

Lemma text_app names reprs a b : pstr_text names reprs (a ++ b) = pstr_text names reprs a ++ pstr_text names reprs b.
Proof. apply flat_map_app. Qed.

Lemma join_text names reprs (L : list pstr) :
  pstr_text names reprs (py_join [PLit [44%N; 32%N]] L) = join_comma (map (pstr_text names reprs) L).
Proof.
  induction L as [|x L IH]; [reflexivity|].
  destruct L as [|y L]; [reflexivity|].
  change (py_join [PLit [44%N; 32%N]] (x :: y :: L)) with (x ++ [PLit [44%N; 32%N]] ++ py_join [PLit [44%N; 32%N]] (y :: L)).
  rewrite !text_app, IH. reflexivity.
Qed.

Lemma signature_string_eq names reprs m :
  pstr_text names reprs (getSignatureString_gen m) = sig_text names reprs (getSignatureString m).
Proof.
  unfold getSignatureString_gen. cbv zeta.
  assert (F : forall P acc,
    fold_left (fun (v_sig : list pstr) (v_v : name) =>
       if dict_has (m_optional m) v_v
       then py_last_iadd (v_sig ++ [[PName v_v]]) ([PLit [61%N]] ++ py_getitem_repr (m_optional m) v_v)
       else v_sig ++ [[PName v_v]]) P acc = acc ++ map (gen_item (m_optional m)) P).
  { induction P as [|v P IH]; intros acc; cbn [fold_left map]; [now rewrite app_nil_r|].
    rewrite IH.
    replace (if dict_has (m_optional m) v
             then py_last_iadd (acc ++ [[PName v]]) ([PLit [61%N]] ++ py_getitem_repr (m_optional m) v)
             else acc ++ [[PName v]]) with (acc ++ [gen_item (m_optional m) v]).
    - now rewrite <- app_assoc.
    - unfold dict_has, py_getitem_repr, gen_item. rewrite last_iadd_snoc.
      destruct (dict_get (m_optional m) v); reflexivity. }
  rewrite F. cbn [app]. clear F.
  unfold py_format1, sig_text, getSignatureString. rewrite !text_app, join_text. cbn [pstr_text flat_map piece_text].
  rewrite app_nil_r. f_equal. f_equal. f_equal.
  assert (E : map (pstr_text names reprs) (map (gen_item (m_optional m)) (m_positional m))
              = map (tok_text names reprs)
                  (map (fun v : name => match dict_get (m_optional m) v with
                                        | Some d => TNameDefault v d | None => TName v end) (m_positional m))).
  { rewrite !map_map. apply map_ext. intros v. unfold gen_item.
    destruct (dict_get (m_optional m) v); cbn; now rewrite ?app_nil_r. }
  destruct (m_varargs m) as [a|], (m_kwargs m) as [k|]; cbn [oname_truth oname_pstr ostar ostarstar app];
    rewrite ?app_nil_r, ?map_app, <- ?app_assoc;
    first [exact E | f_equal; [exact E | cbn; now rewrite ?app_nil_r]].
Qed.

Lemma generated_abc_correct : forall (s : signature) (locals : list name) (fd : list (name * dflt)) (iml0 : nat),
  valid s -> NoDup (map fst fd) ->
  abc_method_from_function (layout s locals fd iml0)
  = Ok (mkMethod (map fst (tl (positionals s))) (required_of (tl (positionals s)))
                 (optional_of (tl (positionals s))) (vararg s) (varkw s) fd).
Proof.
  intros s locals fd iml0 Hv Hfd. rewrite generated_abc_eq.
  change (co_argcount (layout s locals fd iml0)) with (length (posonly s) + length (pos s)).
  rewrite <- app_length. fold (positionals s).
  destruct (positionals s) as [|p P] eqn:E; cbn [length Nat.eqb].
  - change (with_imlevel 0 (layout s locals fd iml0)) with (layout s locals fd 0).
    rewrite fromFunction_correct; auto. unfold spec_info, visible. now rewrite E.
  - change (with_imlevel 1 (layout s locals fd iml0)) with (layout s locals fd 1).
    rewrite fromFunction_correct; auto. unfold spec_info, visible. now rewrite E.
Qed.

(* ---- the description is faithful: it determines the positional parameters with their defaults,
   the * and ** names and the attributes (everything the statement lists), and nothing of the
   keyword-only parameters or the local variables *)
Lemma params_determined P1 P2 :
  dflt_suffix P1 = true -> dflt_suffix P2 = true ->
  required_of P1 = required_of P2 -> optional_of P1 = optional_of P2 -> P1 = P2.
Proof.
  intros H1 H2 Hr Ho.
  destruct (dflt_suffix_split P1 H1) as (R1 & O1 & ->).
  destruct (dflt_suffix_split P2 H2) as (R2 & O2 & ->).
  rewrite !required_split in Hr. rewrite !optional_split in Ho. now subst.
Qed.

Lemma dflt_suffix_skipn i P : dflt_suffix P = true -> dflt_suffix (skipn i P) = true.
Proof.
  intros H. destruct (dflt_suffix_split P H) as (R & O & ->). rewrite skipn_split.
  generalize (skipn i R) (skipn (i - length R) O). clear.
  intros R O. induction R as [|n R IH]; cbn; auto.
  destruct O as [|[n d] O]; cbn; auto.
  unfold opt_params. rewrite forallb_forall. intros x Hx. apply in_map_iff in Hx.
  destruct Hx as (y & <- & _). reflexivity.
Qed.

Lemma description_faithful :
  forall (s1 s2 : signature) (l1 l2 : list name) (fd1 fd2 : list (name * dflt)) (iml : nat),
  valid s1 -> NoDup (map fst fd1) -> valid s2 -> NoDup (map fst fd2) ->
  fromFunction (layout s1 l1 fd1 iml) = fromFunction (layout s2 l2 fd2 iml) ->
  visible s1 iml = visible s2 iml /\ vararg s1 = vararg s2 /\ varkw s1 = varkw s2 /\ fd1 = fd2.
Proof.
  intros s1 s2 l1 l2 fd1 fd2 iml Hv1 Hf1 Hv2 Hf2 E.
  rewrite !fromFunction_correct in E by assumption.
  unfold spec_info in E. injection E as _ Hr Ho Hva Hvk Hfd.
  repeat split; auto.
  apply params_determined; auto; unfold visible; apply dflt_suffix_skipn; [apply Hv1 | apply Hv2].
Qed.

Lemma description_ignores_kwonly_and_locals :
  forall (s1 s2 : signature) (l1 l2 : list name) (fd : list (name * dflt)) (iml : nat),
  valid s1 -> valid s2 -> NoDup (map fst fd) ->
  posonly s1 ++ pos s1 = posonly s2 ++ pos s2 -> vararg s1 = vararg s2 -> varkw s1 = varkw s2 ->
  fromFunction (layout s1 l1 fd iml) = fromFunction (layout s2 l2 fd iml).
Proof.
  intros s1 s2 l1 l2 fd iml Hv1 Hv2 Hf Hp Hva Hvk.
  rewrite !fromFunction_correct by assumption.
  unfold spec_info, visible, positionals. now rewrite Hp, Hva, Hvk.
Qed.
