(* The kernel regenerated from interface.py (Gen/AttrsKernel.v) IS the model of Model/Attrs.v that
   the theorems of property C15 are about: equal on every input and every state.
   The proofs are deliberately rigid: they go through only if the regenerated text has the
   structure of the model (same order walked, same sentinel, same memo writes). *)
From Coq Require Import List Arith Bool.
Import ListNotations.
From ZI Require Import Model.Ro Model.Attrs Gen.AttrsKernel.

Lemma loop_first_direct w n l : loop_first (fun iface => gen_direct w iface n) l = first_direct w l n.
Proof. induction l as [|i l IH]; cbn; [reflexivity|]. unfold gen_direct, direct in *. rewrite IH. reflexivity. Qed.

Lemma loop_first_tag s t l : loop_first (fun iface => query_direct_tag s iface t) l = first_tag s l t.
Proof. induction l as [|i l IH]; cbn; [reflexivity|]. rewrite IH. reflexivity. Qed.

Lemma fold_left_ext_in {A B} (f g : A -> B -> A) l : (forall a b, In b l -> f a b = g a b) ->
  forall a, fold_left f l a = fold_left g l a.
Proof.
  induction l as [|b l IH]; intros H a; cbn; [reflexivity|].
  rewrite (H a b) by (left; auto). apply IH. intros a' b' Hb'. apply H. right; auto.
Qed.

Lemma gen_direct_eq_model : forall w x n, gen_direct w x n = direct w x n.
Proof. reflexivity. Qed.

Lemma gen_get_eq_model : forall w s x n, gen_get w s x n = get w s x n.
Proof. intros. unfold gen_get, get. rewrite loop_first_direct. reflexivity. Qed.

Lemma gen_getitem_eq_model : forall w s x n, gen_getitem w s x n = getitem w s x n.
Proof. intros. unfold gen_getitem, getitem. apply gen_get_eq_model. Qed.

Lemma gen_query_description_for_eq_model : forall w s x n,
  gen_query_description_for w s x n = query_description_for w s x n.
Proof. intros. unfold gen_query_description_for, query_description_for. apply gen_get_eq_model. Qed.

Lemma gen_contains_eq_model : forall w s x n, gen_contains w s x n = contains w s x n.
Proof. intros. unfold gen_contains, contains. rewrite gen_get_eq_model. reflexivity. Qed.

Lemma gen_names_all_eq_model : forall w fuel g x, gen_names_all w fuel g x = names_all w fuel g x.
Proof.
  intros w fuel g. induction fuel as [|f IH]; intros x; cbn [gen_names_all names_all]; [reflexivity|].
  unfold gen_names_direct, names_direct. apply fold_left_ext_in. intros r b _. rewrite IH. reflexivity.
Qed.

Lemma gen_names_eq_model : forall w s x,
  gen_names_direct w x = names_direct w x /\
  gen_names_all w (w_fuel w) (st_graph s) x = names_all w (w_fuel w) (st_graph s) x /\
  gen_iter w s x = iter w s x.
Proof. intros. unfold gen_iter, iter. rewrite gen_names_all_eq_model. repeat split; reflexivity. Qed.

Lemma gen_nad_all_eq_model : forall w s x, gen_nad_all w s x = nad_all w s x.
Proof. reflexivity. Qed.

Lemma gen_validate_eq_model : forall fails s x errors, gen_validate fails s x errors = validate fails s x errors.
Proof. reflexivity. Qed.

Lemma gen_query_tagged_eq_model : forall s x t,
  gen_query_tagged s x t = query_tagged s x t /\ gen_get_tagged s x t = get_tagged s x t.
Proof.
  intros. unfold gen_get_tagged, get_tagged, gen_query_tagged, query_tagged.
  rewrite loop_first_tag. split; reflexivity.
Qed.

Lemma gen_tagged_tags_eq_model : forall s x, gen_tagged_tags s x = tagged_tags s x.
Proof. reflexivity. Qed.

(* changed() as translated: a visited node gets the fresh order and an empty memo, exactly what
   set_bases does to x and its transitive dependents; everybody else is untouched *)
Lemma gen_changed_eq_model : forall w s x bs y,
  let s' := set_bases w s x bs in
  (st_iro s' y, st_memo s' y) =
    if reachesb (w_fuel w) (st_graph s') y x
    then gen_changed_node (iro_fresh (w_fuel w) (st_graph s') y) (st_iro s y, st_memo s y)
    else (st_iro s y, st_memo s y).
Proof.
  intros. unfold s', set_bases, gen_changed_node; cbn [st_iro st_memo st_graph].
  destruct (reachesb (w_fuel w) (gupdate (st_graph s) x bs) y x); reflexivity.
Qed.
