(* Proofs for property C06 over MIXED registry graphs: verifying registries whose bases include
   invalidating (push) registries.  Push registries only have push bases and only list push
   sub-registries, so the push part of a system evolves as in Proofs/RegChain.v Part C; a verifying
   registry is nobody's sub-registry and relies on the generations of ALL members of its snapshot
   (push ones included) only growing, every relevant change bumping one (Part D's argument). *)
From Coq Require Import List Arith Bool Lia.
Import ListNotations.
From ZI Require Import Model.Ro Model.Adapter Model.Lookup Model.RegSys Spec.RegChain Proofs.RegChain.

(* ================================================================== stable interface *)
Definition fl (s : sys) (i : nat) : flavour := rs_flavour (get s i).

(* flavour discipline: push registries have push bases; only push registries have
   sub-registries, and those are push *)
Definition flav_ok (s : sys) : Prop :=
  (forall r b, fl s r = Push -> In b (Bs s r) -> fl s b = Push) /\
  (forall r y, In y (rs_subs (get s r)) -> fl s r = Push /\ fl s y = Push).

(* sub-registry lists: later, existing registries; every PUSH registry is listed in its bases *)
Definition msubs_ok (s : sys) : Prop :=
  (forall r y, In y (rs_subs (get s r)) -> r < y /\ y < length s) /\
  (forall r b, fl s r = Push -> In b (Bs s r) -> In r (rs_subs (get s b))).

(* invariant of mixed systems *)
Definition MInv (s : sys) : Prop :=
  ranked (Bs s) /\ flav_ok s /\ msubs_ok s /\
  (forall r, r < length s -> fl s r = Push -> rs_ro (get s r) = fresh_ro s r) /\
  (forall r, r < length s -> fl s r = Verifying -> snap_ok s r).

(* ================================================================== M0: basics *)
(* the bases along which change notifications travel *)
Definition PB (s : sys) (x : nat) : list nat := match fl s x with Push => Bs s x | Verifying => [] end.

(* verifying registries are untouched *)
Definition vsame (s s' : sys) : Prop := forall i, fl s i = Verifying -> get s' i = get s i.

Lemma graph_eq_fl s s' : graph_eq s s' -> forall i, fl s i = fl s' i.
Proof. intros (_ & H) i. apply H. Qed.

Lemma graph_eq_PB s s' : graph_eq s s' -> forall i, PB s i = PB s' i.
Proof. intros G i. unfold PB. rewrite <- (graph_eq_fl _ _ G), (graph_eq_Bs _ _ G). reflexivity. Qed.

Lemma graph_eq_flav_ok s s' : graph_eq s s' -> flav_ok s -> flav_ok s'.
Proof.
  intros G (F1 & F2). pose proof (graph_eq_fl _ _ G) as E. pose proof (graph_eq_Bs _ _ G) as EB.
  destruct G as (_ & H). split.
  - intros r b. rewrite <- !E, <- EB. apply F1.
  - intros r y. destruct (H r) as (_ & <- & _). rewrite <- !E. apply F2.
Qed.

Lemma graph_eq_msubs_ok s s' : graph_eq s s' -> msubs_ok s -> msubs_ok s'.
Proof.
  intros G (S1 & S2). pose proof (graph_eq_fl _ _ G) as E. pose proof (graph_eq_Bs _ _ G) as EB.
  destruct G as (L & H). split.
  - intros r y. destruct (H r) as (_ & <- & _). rewrite <- L. apply S1.
  - intros r b. rewrite <- E, <- EB. destruct (H b) as (_ & <- & _). apply S2.
Qed.

Lemma vsame_refl s : vsame s s.
Proof. intros i _. reflexivity. Qed.

Lemma vsame_trans a b c : (forall i, fl a i = fl b i) -> vsame a b -> vsame b c -> vsame a c.
Proof. intros G H1 H2 i F. rewrite H2, H1; auto. rewrite <- G. auto. Qed.

Lemma Reach_push s x y : flav_ok s -> fl s x = Push -> Reach (Bs s) x y -> Reach (PB s) x y /\ fl s y = Push.
Proof.
  intros (F1 & _) Fx H. induction H as [|x b y Hb Hr IH]; [split; [apply Reach_refl|auto]|].
  destruct (IH (F1 _ _ Fx Hb)) as (R & Fy). split; auto.
  eapply Reach_step; eauto. unfold PB. rewrite Fx. auto.
Qed.

Lemma Reach_PB_Bs s x y : Reach (PB s) x y -> Reach (Bs s) x y.
Proof.
  induction 1 as [|x b y Hb Hr IH]; [apply Reach_refl|]. eapply Reach_step; eauto.
  unfold PB in Hb. destruct (fl s x); [auto|destruct Hb].
Qed.

(* ================================================================== M1: traversals reach every push
   registry below (the argument of RegChain.trav_reach along PB) *)
Section TravB.
  Variable visit : sys -> nat -> sys.
  Variable P : sys -> nat -> Prop.
  Hypothesis visit_graph : forall s r, graph_eq s (visit s r).
  Hypothesis visit_P : forall s r, r < length s -> P (visit s r) r.
  Hypothesis visit_keeps : forall s r x, P s x -> P (visit s r) x.

  Let I : sys -> Prop := fun _ => True.
  Let tI : forall f s r, I s -> I (trav visit f s r) := fun _ _ _ _ => Logic.I.

  Lemma travB_graph f s r : graph_eq s (trav visit f s r).
  Proof. apply (trav_graph visit I); unfold I; auto. Qed.

  Lemma travB_keeps f s r x : P s x -> P (trav visit f s r) x.
  Proof. apply (trav_keeps visit I); unfold I; auto. Qed.

  Lemma travB_fold_keeps f l s x : P s x -> P (fold_left (fun acc sub => trav visit f acc sub) l s) x.
  Proof. apply (trav_fold_keeps visit I); unfold I; auto. Qed.

  Lemma travB_fold_graph f l s : graph_eq s (fold_left (fun acc sub => trav visit f acc sub) l s).
  Proof. apply (trav_fold_graph visit I); unfold I; auto. Qed.

  Definition reachB_goal (f : nat) : Prop :=
    forall s r, msubs_ok s -> r < length s -> length s <= r + S f ->
                forall x, Reach (PB s) x r -> P (trav visit f s r) x.

  Lemma PB_sub s r b : msubs_ok s -> In b (PB s r) -> In r (rs_subs (get s b)).
  Proof. intros (_ & S2) H. unfold PB in H. destruct (fl s r) eqn:F; [apply S2; auto|destruct H]. Qed.

  Lemma travB_fold_reach f : reachB_goal f ->
    forall l s0 acc y x, msubs_ok s0 -> graph_eq s0 acc -> In y l -> y < length s0 ->
                         length s0 <= y + S f ->
                         Reach (PB s0) x y -> P (fold_left (fun acc sub => trav visit f acc sub) l acc) x.
  Proof.
    intros G. induction l as [|a l IH]; intros s0 acc y x S0 E Hy L1 L2 Rx; [destruct Hy|].
    cbn [fold_left]. destruct (Nat.eq_dec a y) as [->|N].
    - apply travB_fold_keeps. apply G; auto.
      + eapply graph_eq_msubs_ok; eauto.
      + destruct E as (<- & _); auto.
      + destruct E as (<- & _); auto.
      + apply (Reach_ext (PB s0) (PB acc)); auto. apply graph_eq_PB; auto.
    - destruct Hy as [?|Hy]; [congruence|]. eapply IH; eauto.
      eapply graph_eq_trans; eauto using travB_graph.
  Qed.

  Lemma travB_reach : forall f, reachB_goal f.
  Proof.
    induction f as [|f IH]; intros s r S0 L1 L2 x Rx; cbn [trav].
    - destruct (Nat.eq_dec x r) as [->|N]; auto.
      destruct (Reach_last _ _ _ Rx N) as (y & _ & Hy). apply (PB_sub s y r S0) in Hy. apply S0 in Hy. lia.
    - destruct (Nat.eq_dec x r) as [->|N]; [apply travB_fold_keeps; auto|].
      destruct (Reach_last _ _ _ Rx N) as (y & Ry & Hy). apply (PB_sub s y r S0) in Hy.
      pose proof (proj1 S0 _ _ Hy).
      eapply (travB_fold_reach f IH _ s); eauto; lia.
  Qed.
End TravB.

(* ================================================================== M2: _refresh_ro and changed() from a
   push registry, in a mixed system *)
Definition gvisit_ro (s : sys) (r : nat) : sys := match fl s r with Push => visit_ro s r | Verifying => s end.
Definition gvisit_ch (s : sys) (r : nat) : sys := match fl s r with Push => visit_ch s r | Verifying => s end.

Definition P_ro' (s : sys) (x : nat) : Prop := fl s x = Push -> rs_ro (get s x) = fresh_ro s x.
Definition P_c' (s : sys) (x : nat) : Prop := fl s x = Push -> rs_caches (get s x) = empty_caches.

Lemma gvisit_ro_graph s r : graph_eq s (gvisit_ro s r).
Proof. unfold gvisit_ro. destruct (fl s r); [apply visit_ro_graph|apply graph_eq_refl]. Qed.

Lemma gvisit_ro_P s r : r < length s -> P_ro' (gvisit_ro s r) r.
Proof.
  intros L F. rewrite <- (graph_eq_fl _ _ (gvisit_ro_graph s r)) in F. unfold gvisit_ro. rewrite F.
  apply visit_ro_P; auto.
Qed.

Lemma gvisit_ro_keeps s r x : P_ro' s x -> P_ro' (gvisit_ro s r) x.
Proof.
  intros H F. rewrite <- (graph_eq_fl _ _ (gvisit_ro_graph s r)) in F. unfold gvisit_ro.
  destruct (fl s r); [apply visit_ro_keeps|]; apply H; auto.
Qed.

Lemma m_set_set s : forall r a b, set (set s r a) r b = set s r b.
Proof. induction s as [|y s IH]; intros [|r] a b; cbn; auto. rewrite IH; auto. Qed.

Lemma m_upd_upd s r f g : upd (upd s r f) r g = upd s r (fun x => g (f x)).
Proof.
  unfold upd. destruct (Nat.lt_ge_cases r (length s)) as [L|L].
  - rewrite get_set_same by auto. apply m_set_set.
  - rewrite (set_oob s r (f (get s r))) by auto. rewrite !set_oob by auto. reflexivity.
Qed.

Lemma fl_upd s r f i : (forall x, rs_flavour (f x) = rs_flavour x) -> fl (upd s r f) i = fl s i.
Proof.
  intros H. unfold fl. rewrite get_upd. destruct (Nat.eqb i r && Nat.ltb r (length s)) eqn:E; auto.
  apply andb_true_iff in E. destruct E as (E & _). apply Nat.eqb_eq in E. subst. apply H.
Qed.

Lemma visit_ch_push s r : fl s r = Push ->
  visit_ch s r = upd s r (fun x => mkRS (changed (rs_reg x)) empty_caches (rs_bases x) (rs_ro x) (rs_subs x)
                                        (rs_vro x) (rs_vgen x) Push).
Proof.
  intros F. unfold visit_ch. rewrite lookup_changed_push.
  - rewrite m_upd_upd. reflexivity.
  - change (fl (upd s r bump) r = Push). rewrite fl_upd; auto.
Qed.

Lemma gvisit_ch_skel s r : skel_eq s (gvisit_ch s r).
Proof.
  unfold gvisit_ch. destruct (fl s r) eqn:F; [|apply skel_eq_refl]. rewrite visit_ch_push by auto.
  split; [split; [symmetry; apply upd_length|]|]; intros i; rewrite get_upd;
    destruct (Nat.eqb i r && Nat.ltb r (length s)) eqn:E; auto;
    apply andb_true_iff in E; destruct E as (E & _); apply Nat.eqb_eq in E; subst; cbn; auto.
Qed.

Lemma gvisit_ch_graph s r : graph_eq s (gvisit_ch s r).
Proof. apply gvisit_ch_skel. Qed.

Lemma gvisit_ch_P s r : r < length s -> P_c' (gvisit_ch s r) r.
Proof.
  intros L F. rewrite <- (graph_eq_fl _ _ (gvisit_ch_graph s r)) in F. unfold gvisit_ch. rewrite F.
  rewrite visit_ch_push by auto. rewrite get_upd_same; auto.
Qed.

Lemma gvisit_ch_keeps s r x : P_c' s x -> P_c' (gvisit_ch s r) x.
Proof.
  intros H F. rewrite <- (graph_eq_fl _ _ (gvisit_ch_graph s r)) in F. unfold gvisit_ch.
  destruct (fl s r) eqn:Fr; [|apply H; auto]. rewrite visit_ch_push by auto. rewrite get_upd.
  destruct (Nat.eqb x r && Nat.ltb r (length s)); [reflexivity|apply H; auto].
Qed.

Lemma gvisit_ro_vsame s r : vsame s (gvisit_ro s r).
Proof.
  intros i F. unfold gvisit_ro. destruct (fl s r) eqn:Fr; auto. unfold visit_ro. rewrite get_upd.
  destruct (Nat.eqb i r && Nat.ltb r (length s)) eqn:E; auto.
  apply andb_true_iff in E. destruct E as (E & _). apply Nat.eqb_eq in E. subst. congruence.
Qed.

Lemma gvisit_ch_vsame s r : vsame s (gvisit_ch s r).
Proof.
  intros i F. unfold gvisit_ch. destruct (fl s r) eqn:Fr; auto. rewrite visit_ch_push by auto. rewrite get_upd.
  destruct (Nat.eqb i r && Nat.ltb r (length s)) eqn:E; auto.
  apply andb_true_iff in E. destruct E as (E & _). apply Nat.eqb_eq in E. subst. congruence.
Qed.

(* relations kept by the push-side traversals *)
Definition gv (s s' : sys) : Prop := graph_eq s s' /\ vsame s s'.
Definition sv (s s' : sys) : Prop := skel_eq s s' /\ vsame s s'.

Lemma gv_refl s : gv s s. Proof. split; [apply graph_eq_refl|apply vsame_refl]. Qed.
Lemma gv_trans a b c : gv a b -> gv b c -> gv a c.
Proof.
  intros (G1 & V1) (G2 & V2). split; [eapply graph_eq_trans; eauto|].
  apply (vsame_trans a b c); auto. apply graph_eq_fl; auto.
Qed.
Lemma sv_refl s : sv s s. Proof. split; [apply skel_eq_refl|apply vsame_refl]. Qed.
Lemma sv_trans a b c : sv a b -> sv b c -> sv a c.
Proof.
  intros (G1 & V1) (G2 & V2). split; [eapply skel_eq_trans; eauto|].
  apply (vsame_trans a b c); auto. apply graph_eq_fl. apply G1.
Qed.

Lemma trav_ro_gv f s r : gv s (trav gvisit_ro f s r).
Proof.
  apply (trav_pres gvisit_ro (fun _ => True)); auto using gv_refl.
  - intros; eapply gv_trans; eauto.
  - intros. split; [apply gvisit_ro_graph|apply gvisit_ro_vsame].
Qed.

Lemma trav_ch_sv f s r : sv s (trav gvisit_ch f s r).
Proof.
  apply (trav_pres gvisit_ch (fun _ => True)); auto using sv_refl.
  - intros; eapply sv_trans; eauto.
  - intros. split; [apply gvisit_ch_skel|apply gvisit_ch_vsame].
Qed.

Lemma trav_ch_fold_sv f l s : sv s (fold_left (fun acc sub => trav gvisit_ch f acc sub) l s).
Proof.
  apply (trav_fold_pres gvisit_ch (fun _ => True)); auto using sv_refl.
  - intros; eapply sv_trans; eauto.
  - intros. split; [apply gvisit_ch_skel|apply gvisit_ch_vsame].
Qed.

(* the model's functions ARE these traversals, from a push registry of a flavour-disciplined system *)
Lemma m_refresh_ro_trav : forall f s r, flav_ok s -> fl s r = Push -> refresh_ro f s r = trav gvisit_ro f s r.
Proof.
  induction f as [|f IH]; intros s r Fo F; cbn [refresh_ro trav]; unfold gvisit_ro; rewrite F; [reflexivity|].
  assert (E : forall X Y : sys, match rs_flavour (get s r) with Push => X | Verifying => Y end = X)
    by (intros; unfold fl in F; rewrite F; auto).
  rewrite E. change (set s r _) with (visit_ro s r).
  apply (fold_left_ext_inv (fun a => graph_eq s a)).
  - apply visit_ro_graph.
  - intros a b Ha _. eapply graph_eq_trans; eauto. apply (trav_ro_gv f a b).
  - intros a b Ha Hb. apply IH; [eapply graph_eq_flav_ok; eauto|].
    rewrite <- (graph_eq_fl _ _ Ha). apply (proj2 Fo r b Hb).
Qed.

Lemma m_sub_changed_trav : forall f s r, flav_ok s -> fl s r = Push -> sub_changed f s r = trav gvisit_ch f s r.
Proof.
  induction f as [|f IH]; intros s r Fo F; cbn [sub_changed trav]; fold (visit_ch s r);
    unfold gvisit_ch; rewrite F; [reflexivity|].
  pose proof (gvisit_ch_skel s r) as K. unfold gvisit_ch in K. rewrite F in K.
  assert (F1 : fl (visit_ch s r) r = Push) by (rewrite <- (graph_eq_fl _ _ (proj1 K)); auto).
  assert (E : forall X Y : sys, match rs_flavour (get (visit_ch s r) r) with Push => X | Verifying => Y end = X)
    by (intros; unfold fl in F1; rewrite F1; auto).
  rewrite E.
  replace (rs_subs (get (visit_ch s r) r)) with (rs_subs (get s r))
    by (destruct K as ((_ & H) & _); apply H).
  apply (fold_left_ext_inv (fun a => graph_eq s a)).
  - apply K.
  - intros a b Ha _. eapply graph_eq_trans; eauto. apply (trav_ch_sv f a b).
  - intros a b Ha Hb. apply IH; [eapply graph_eq_flav_ok; eauto|].
    rewrite <- (graph_eq_fl _ _ Ha). apply (proj2 Fo r b Hb).
Qed.

Lemma lookup_changed_push_sv b s r : fl s r = Push -> sv s (lookup_changed b s r).
Proof.
  intros F. rewrite lookup_changed_push by auto.
  assert (C : forall i, Nat.eqb i r && Nat.ltb r (length s) = true -> i = r).
  { intros i E. apply andb_true_iff in E. destruct E as (E & _). apply Nat.eqb_eq in E. auto. }
  split; [split; [split|]|].
  - symmetry; apply upd_length.
  - intros i. rewrite get_upd. destruct (Nat.eqb i r && Nat.ltb r (length s)) eqn:E; auto.
    apply C in E. subst. cbn. unfold fl in F. rewrite F. auto.
  - intros i. rewrite get_upd. destruct (Nat.eqb i r && Nat.ltb r (length s)) eqn:E; auto.
    apply C in E. subst. reflexivity.
  - intros i Fv. rewrite get_upd. destruct (Nat.eqb i r && Nat.ltb r (length s)) eqn:E; auto.
    apply C in E. subst. congruence.
Qed.

Lemma m_after_bump_push s r : flav_ok s -> fl s r = Push ->
  after_bump s r = fold_left (fun acc sub => trav gvisit_ch (length s) acc sub) (rs_subs (get s r))
                             (lookup_changed false s r).
Proof.
  intros Fo F. unfold after_bump.
  destruct (lookup_changed_push_sv false s r F) as (K & _).
  assert (F1 : fl (lookup_changed false s r) r = Push) by (rewrite <- (graph_eq_fl _ _ (proj1 K)); auto).
  unfold fl in F1. rewrite F1.
  replace (rs_subs (get (lookup_changed false s r) r)) with (rs_subs (get s r))
    by (destruct K as ((_ & H) & _); apply H).
  apply (fold_left_ext_inv (fun a => graph_eq s a)).
  - apply K.
  - intros a b Ha _. eapply graph_eq_trans; eauto. apply (trav_ch_sv (length s) a b).
  - intros a b Ha Hb. apply m_sub_changed_trav; [eapply graph_eq_flav_ok; eauto|].
    rewrite <- (graph_eq_fl _ _ Ha). apply (proj2 Fo r b Hb).
Qed.

Lemma m_after_bump_sv s r : flav_ok s -> fl s r = Push -> sv s (after_bump s r).
Proof.
  intros Fo F. rewrite m_after_bump_push by auto.
  eapply sv_trans; [apply (lookup_changed_push_sv false s r F)|]. apply trav_ch_fold_sv.
Qed.

Lemma m_after_bump_empties s r : flav_ok s -> msubs_ok s -> fl s r = Push -> r < length s ->
  forall x, fl s x = Push -> Reach (Bs s) x r -> rs_caches (get (after_bump s r) x) = empty_caches.
Proof.
  intros Fo S0 F L x Fx Rx. destruct (Reach_push s x r Fo Fx Rx) as (Rp & _).
  pose proof (m_after_bump_sv s r Fo F) as (K & _).
  assert (Fx' : fl (after_bump s r) x = Push) by (rewrite <- (graph_eq_fl _ _ (proj1 K)); auto).
  revert Fx'. change (P_c' (after_bump s r) x). rewrite m_after_bump_push by auto.
  destruct (lookup_changed_push_sv false s r F) as (K1 & _).
  destruct (Nat.eq_dec x r) as [->|N].
  - apply (travB_fold_keeps gvisit_ch P_c'); [intros; apply gvisit_ch_keeps; auto|].
    intros _. rewrite lookup_changed_push by auto. rewrite get_upd_same; auto.
  - destruct (Reach_last _ _ _ Rp N) as (y & Ry & Hy). apply (PB_sub s y r S0) in Hy.
    pose proof (proj1 S0 _ _ Hy).
    apply (travB_fold_reach gvisit_ch P_c' gvisit_ch_graph) with (s0 := s) (y := y); auto; try lia.
    + intros; apply gvisit_ch_keeps; auto.
    + apply travB_reach; auto using gvisit_ch_graph, gvisit_ch_P. intros; apply gvisit_ch_keeps; auto.
    + apply K1.
Qed.

Lemma m_refresh_ro_gv f s r : flav_ok s -> fl s r = Push -> gv s (refresh_ro f s r).
Proof. intros Fo F. rewrite m_refresh_ro_trav by auto. apply trav_ro_gv. Qed.

Lemma m_refresh_ro_keeps f s r x : flav_ok s -> fl s r = Push -> P_ro' s x -> P_ro' (refresh_ro f s r) x.
Proof.
  intros Fo F H. rewrite m_refresh_ro_trav by auto.
  apply (travB_keeps gvisit_ro P_ro'); auto. intros; apply gvisit_ro_keeps; auto.
Qed.

Lemma m_refresh_ro_reaches s r x : flav_ok s -> msubs_ok s -> fl s r = Push -> r < length s ->
  Reach (PB s) x r -> P_ro' (refresh_ro (length s) s r) x.
Proof.
  intros Fo S0 F L Rx. rewrite m_refresh_ro_trav by auto.
  apply (travB_reach gvisit_ro P_ro' gvisit_ro_graph); auto using gvisit_ro_P; try lia.
  intros; apply gvisit_ro_keeps; auto.
Qed.

(* ================================================================== M3: operations on a push registry *)
Lemma MInv_sv s s' : MInv s -> sv s s' -> gen_le s s' -> MInv s'.
Proof.
  intros (R & Fo & S0 & Cp & Cv) (K & V) M. pose proof (proj1 K) as G. destruct K as (_ & Ro).
  pose proof (graph_eq_fl _ _ G) as E. pose proof (graph_eq_Bs _ _ G) as EB. pose proof (proj1 G) as L.
  split; [eapply graph_eq_ranked; eauto|]. split; [eapply graph_eq_flav_ok; eauto|].
  split; [eapply graph_eq_msubs_ok; eauto|]. split.
  - intros r Lr F. rewrite <- Ro, <- (graph_eq_fresh _ _ r G). apply Cp; [lia|rewrite E; auto].
  - intros r Lr F. rewrite <- E in F. assert (Lr' : r < length s) by lia.
    apply (snap_frame s s' r); auto; try lia; try (rewrite V; auto; fail).
    intros i N. exfalso. apply N. apply EB.
Qed.

Lemma book_other old s r bs i : ~ In i old -> ~ In i bs -> get (book old s r bs) i = get s i.
Proof.
  intros N1 N2. unfold book.
  apply (fold_left_inv (fun a => get a i = get s i)).
  - apply (fold_left_inv (fun a => get a i = get s i)); auto.
    intros a b Ha Hb. destruct (mem b bs); auto. rewrite get_upd_other; auto. intros ->; tauto.
  - intros a b Ha Hb. destruct (mem b old); auto. rewrite get_upd_other; auto. intros ->; tauto.
Qed.

Lemma book_regs old s r bs : regs_eq s (book old s r bs).
Proof.
  unfold book. apply (fold_left_inv (fun a => regs_eq s a)).
  - apply (fold_left_inv (fun a => regs_eq s a)); [apply regs_eq_refl|].
    intros a b Ha _. destruct (mem b bs); auto. eapply regs_eq_trans; eauto. apply upd_regs_eq. reflexivity.
  - intros a b Ha _. destruct (mem b old); auto. eapply regs_eq_trans; eauto. apply upd_regs_eq. reflexivity.
Qed.

Lemma m_set_bases_push_shape s r bs :
  ranked (Bs s) -> flav_ok s -> msubs_ok s ->
  (forall x, x < length s -> x <> r -> fl s x = Push -> rs_ro (get s x) = fresh_ro s x) ->
  (forall x, x < length s -> fl s x = Verifying -> snap_ok s x) ->
  r < length s -> fl s r = Push -> (forall b, In b bs -> b < r /\ fl s b = Push) ->
  exists s4, set_bases s r bs = after_bump s4 r /\ MInv s4 /\ length s4 = length s /\
             (forall i, fl s4 i = fl s i) /\ vsame s s4 /\ (forall y, y <> r -> Bs s4 y = Bs s y).
Proof.
  intros R Fo S0 C Cv Lr F Hbs. rewrite set_bases_push_eq by apply F. cbv zeta.
  destruct (book_spec (rs_bases (get s r)) bs r s) as (O & B2 & B3 & B4).
  pose proof (book_other (rs_bases (get s r)) s r bs) as BO.
  pose proof (book_regs (rs_bases (get s r)) s r bs) as BR.
  set (sb := book (rs_bases (get s r)) s r bs) in *.
  set (s2 := upd sb r (setb bs)).
  assert (Fd : forall i, rs_bases (get s2 i) = (if Nat.eqb i r then bs else rs_bases (get s i)) /\
                        rs_subs (get s2 i) = rs_subs (get sb i) /\
                        rs_flavour (get s2 i) = rs_flavour (get s i) /\
                        rs_ro (get s2 i) = rs_ro (get s i)) by (intros; apply s2_fields; auto).
  assert (L2 : length s2 = length s) by (unfold s2; rewrite upd_length; apply O).
  assert (E2 : forall i, fl s2 i = fl s i) by (intros i; apply Fd).
  assert (R2 : ranked (Bs s2)).
  { intros y b. unfold Bs. destruct (Fd y) as (-> & _). destruct (Nat.eqb y r) eqn:E.
    - apply Nat.eqb_eq in E. subst. intros Hb. apply Hbs; auto.
    - apply R. }
  assert (Fo2 : flav_ok s2).
  { split.
    - intros x b. rewrite !E2. unfold Bs. destruct (Fd x) as (-> & _). destruct (Nat.eqb x r) eqn:E.
      + intros _ Hb. apply Hbs; auto.
      + apply Fo.
    - intros x y. rewrite !E2. destruct (Fd x) as (_ & -> & _). intros Hy.
      destruct (B2 _ _ Hy) as [Hy'|(-> & Hi)]; [apply Fo; auto|]. split; auto. apply Hbs; auto. }
  assert (S2 : msubs_ok s2).
  { split.
    - intros i y. destruct (Fd i) as (_ & -> & _). intros Hy. rewrite L2.
      destruct (B2 _ _ Hy) as [Hy'|(-> & Hi)]; [apply S0; auto|]. split; auto. apply Hbs; auto.
    - intros x b. rewrite E2. unfold Bs. destruct (Fd x) as (-> & _). destruct (Fd b) as (_ & -> & _).
      destruct (Nat.eqb x r) eqn:E.
      + apply Nat.eqb_eq in E. subst. intros _ Hb. destruct (Hbs _ Hb). apply B4; auto; try lia.
        intros Ho. apply S0; auto.
      + apply Nat.eqb_neq in E. intros Fx Hb. apply B3; auto. apply S0; auto. }
  assert (V2 : vsame s s2).
  { intros i Fi. assert (i <> r) by congruence. unfold s2. rewrite get_upd_other by auto. apply BO.
    - intros Hi. apply (proj1 Fo r i F) in Hi. congruence.
    - intros Hi. apply Hbs in Hi. destruct Hi. congruence. }
  assert (C2 : forall x, x < length s2 -> ~ Reach (Bs s2) x r -> P_ro' s2 x).
  { intros x Lx N Fx. rewrite E2 in Fx. destruct (Fd x) as (_ & _ & _ & ->).
    assert (x <> r) by (intros ->; apply N, Reach_refl).
    rewrite C; auto; [|lia]. symmetry. apply fresh_ro_frame; auto; try lia.
    apply Reach_avoid with (r := r); auto.
    intros y Hy. unfold Bs. destruct (Fd y) as (-> & _). apply Nat.eqb_neq in Hy. rewrite Hy. auto. }
  set (s3 := refresh_ro (length s) s2 r).
  assert (F2 : fl s2 r = Push) by (rewrite E2; auto).
  destruct (m_refresh_ro_gv (length s) s2 r Fo2 F2) as (G3 & V3). fold s3 in G3, V3.
  assert (L3 : length s3 = length s) by (destruct G3 as (<- & _); auto).
  assert (P3 : forall x, x < length s -> fl s x = Push -> rs_ro (get s3 x) = fresh_ro s3 x).
  { intros x Lx Fx. assert (Fx3 : fl s3 x = Push) by (rewrite <- (graph_eq_fl _ _ G3), E2; auto).
    revert Fx3. change (P_ro' s3 x). unfold s3.
    destruct (Reach_dec (Bs s2) r R2 x) as [Y|N].
    - rewrite <- L2. apply m_refresh_ro_reaches; auto; try lia.
      apply (Reach_push s2 x r Fo2); auto. rewrite E2; auto.
    - apply m_refresh_ro_keeps; auto. apply C2; auto. lia. }
  set (s4 := upd s3 r bump).
  assert (K4 : skel_eq s3 s4) by apply bump_skel.
  assert (G4 : graph_eq s2 s4) by (eapply graph_eq_trans; [exact G3|apply K4]).
  exists s4. split; [reflexivity|]. split; [|split; [|split; [|split]]].
  5:{ intros y Ny. rewrite <- (graph_eq_Bs _ _ G4). unfold Bs. destruct (Fd y) as (-> & _).
      apply Nat.eqb_neq in Ny. rewrite Ny. auto. }
  - split; [eapply graph_eq_ranked; eauto|]. split; [eapply graph_eq_flav_ok; eauto|].
    split; [eapply graph_eq_msubs_ok; eauto|]. split.
    + intros x Lx Fx. unfold s4 in Lx. rewrite upd_length, L3 in Lx.
      rewrite <- (graph_eq_fl _ _ G4), E2 in Fx.
      rewrite <- (proj2 K4 x), <- (graph_eq_fresh _ _ x (proj1 K4)). apply P3; auto.
    + intros x Lx Fx. unfold s4 in Lx. rewrite upd_length, L3 in Lx.
      rewrite <- (graph_eq_fl _ _ G4), E2 in Fx. assert (Nx : x <> r) by congruence.
      assert (Gx : get s4 x = get s x).
      { unfold s4. rewrite get_upd_other by auto. rewrite V3 by (rewrite E2; auto). apply V2; auto. }
      assert (RG3 : regs_eq s s3).
      { eapply regs_eq_trans; [exact BR|]. eapply regs_eq_trans; [|apply refresh_ro_regs].
        apply upd_regs_eq. reflexivity. }
      assert (Rg : forall i, i <> r -> gen_of s4 i = gen_of s i).
      { intros i Ni. unfold gen_of, s4. rewrite get_upd_other by auto. rewrite <- RG3. reflexivity. }
      assert (Rr : gen_of s4 r = S (gen_of s r)).
      { unfold gen_of, s4. rewrite get_upd_same by lia. cbn. rewrite <- RG3. reflexivity. }
      apply (snap_frame s s4 x); auto; try (rewrite Gx; auto; fail).
      * unfold s4. rewrite upd_length. lia.
      * intros i. destruct (Nat.eq_dec i r) as [->|Ni]; [lia|rewrite Rg; auto].
      * intros i Ni. destruct (Nat.eq_dec i r) as [->|Nr]; [lia|]. exfalso. apply Ni.
        rewrite <- (graph_eq_Bs _ _ G4). unfold Bs. destruct (Fd i) as (-> & _).
        apply Nat.eqb_neq in Nr. rewrite Nr. auto.
      * rewrite <- (graph_eq_Bs _ _ G4). unfold Bs. destruct (Fd x) as (-> & _).
        apply Nat.eqb_neq in Nx. rewrite Nx. auto.
  - unfold s4. rewrite upd_length. auto.
  - intros i. rewrite <- (graph_eq_fl _ _ G4). apply E2.
  - intros i Fi. assert (i <> r) by congruence. unfold s4. rewrite get_upd_other by auto.
    rewrite V3 by (rewrite E2; auto). apply V2; auto.
Qed.

Lemma m_set_bases_push s r bs :
  ranked (Bs s) -> flav_ok s -> msubs_ok s ->
  (forall x, x < length s -> x <> r -> fl s x = Push -> rs_ro (get s x) = fresh_ro s x) ->
  (forall x, x < length s -> fl s x = Verifying -> snap_ok s x) ->
  r < length s -> fl s r = Push -> (forall b, In b bs -> b < r /\ fl s b = Push) ->
  MInv (set_bases s r bs) /\ length (set_bases s r bs) = length s /\
  (forall i, fl (set_bases s r bs) i = fl s i).
Proof.
  intros R Fo S0 C Cv Lr F Hbs.
  destruct (m_set_bases_push_shape s r bs R Fo S0 C Cv Lr F Hbs) as (s4 & -> & M4 & L4 & E4 & _ & _).
  assert (F4 : fl s4 r = Push) by (rewrite E4; auto).
  pose proof (m_after_bump_sv s4 r (proj1 (proj2 M4)) F4) as K.
  split; [apply (MInv_sv s4); auto; apply after_bump_gen_le|]. split.
  - destruct K as (((<- & _) & _) & _). auto.
  - intros i. rewrite <- (graph_eq_fl _ _ (proj1 (proj1 K))). apply E4.
Qed.

Lemma setreg_sv s r g' : fl s r = Push ->
  sv s (set s r (mkRS g' (rs_caches (get s r)) (rs_bases (get s r)) (rs_ro (get s r)) (rs_subs (get s r))
                      (rs_vro (get s r)) (rs_vgen (get s r)) (rs_flavour (get s r)))).
Proof.
  intros F. split; [apply (set_reg_skel s r g')|].
  intros i Fi. assert (i <> r) by congruence. rewrite get_set_other; auto.
Qed.

Lemma setreg_gen_le s r g' : generation (rs_reg (get s r)) <= generation g' ->
  gen_le s (set s r (mkRS g' (rs_caches (get s r)) (rs_bases (get s r)) (rs_ro (get s r)) (rs_subs (get s r))
                          (rs_vro (get s r)) (rs_vgen (get s r)) (rs_flavour (get s r)))).
Proof.
  intros G i. unfold gen_of. rewrite get_set. destruct (Nat.eqb i r && Nat.ltb r (length s)) eqn:E; auto.
  apply andb_true_iff in E. destruct E as (E & _). apply Nat.eqb_eq in E. subst. cbn. auto.
Qed.

Lemma sv_length s s' : sv s s' -> length s' = length s.
Proof. intros (((<- & _) & _) & _). reflexivity. Qed.

Lemma sv_fl s s' : sv s s' -> forall i, fl s' i = fl s i.
Proof. intros ((G & _) & _) i. symmetry. apply (graph_eq_fl _ _ G). Qed.

Lemma m_setreg_push s r g' : MInv s -> fl s r = Push -> generation (rs_reg (get s r)) <= generation g' ->
  let s4 := set s r (mkRS g' (rs_caches (get s r)) (rs_bases (get s r)) (rs_ro (get s r)) (rs_subs (get s r))
                          (rs_vro (get s r)) (rs_vgen (get s r)) (rs_flavour (get s r))) in
  MInv s4 /\ fl s4 r = Push /\ MInv (after_bump s4 r) /\ sv s (after_bump s4 r).
Proof.
  intros M F G s4. pose proof (setreg_sv s r g' F) as K. fold s4 in K.
  assert (M4 : MInv s4) by (apply (MInv_sv s); auto; apply setreg_gen_le; auto).
  assert (F4 : fl s4 r = Push) by (rewrite (sv_fl _ _ K); auto).
  pose proof (m_after_bump_sv s4 r (proj1 (proj2 M4)) F4) as K'.
  split; auto. split; auto. split; [apply (MInv_sv s4); auto; apply after_bump_gen_le|].
  eapply sv_trans; eauto.
Qed.

Lemma m_mutate_push s r f : MInv s -> fl s r = Push -> (forall g, generation g <= generation (f g)) ->
  MInv (mutate s r f) /\ sv s (mutate s r f).
Proof.
  intros M F Mf. unfold mutate.
  destruct (Nat.eqb (generation (f (rs_reg (get s r)))) (generation (rs_reg (get s r)))); [split; auto using sv_refl|].
  destruct (m_setreg_push s r (f (rs_reg (get s r))) M F (Mf _)) as (_ & _ & M' & K). auto.
Qed.

Lemma m_with_lookup_push W {A} s r (f : _ -> _ -> _ -> caches -> caches * A) : MInv s -> fl s r = Push ->
  MInv (fst (with_lookup W s r f)) /\ sv s (fst (with_lookup W s r f)).
Proof.
  intros M F. destruct (with_lookup_fst W s r f) as (c' & ->). rewrite verify_push by apply F.
  assert (K : sv s (upd s r (fun x => set_caches x c'))).
  { split; [apply set_caches_skel|]. intros i Fi. assert (i <> r) by congruence. rewrite get_upd_other; auto. }
  split; auto. apply (MInv_sv s); auto. apply regs_eq_gen_le. apply upd_regs_eq. reflexivity.
Qed.

(* appending a registry *)
Lemma app_new_fl s x i : fl (s ++ [x]) i = if Nat.ltb i (length s) then fl s i
                                           else if Nat.eqb i (length s) then rs_flavour x else Push.
Proof.
  unfold fl. rewrite get_app_cases. destruct (Nat.ltb i (length s)); auto. destruct (Nat.eqb i (length s)); auto.
Qed.

Lemma app_new_snap s f x : ranked (Bs s) -> x < length s -> snap_ok s x ->
  snap_ok (s ++ [mkRS empty_reg empty_caches [] [] [] [] [] f]) x.
Proof.
  intros R Lx Sn. set (s0 := s ++ _).
  assert (G1 : forall i, i < length s -> get s0 i = get s i) by (intros; apply get_app_l; auto).
  apply (snap_frame s s0 x); auto; try (rewrite G1; auto; fail).
  - unfold s0. rewrite app_length. lia.
  - intros i. unfold gen_of, s0. rewrite get_app_cases. destruct (Nat.ltb i (length s)) eqn:Li; auto.
    apply Nat.ltb_ge in Li. rewrite (get_oob s i) by auto. cbn. lia.
  - intros i N. exfalso. apply N. unfold Bs, s0. rewrite get_app_cases.
    destruct (Nat.ltb i (length s)) eqn:Li; auto.
    apply Nat.ltb_ge in Li. rewrite (get_oob s i) by auto. destruct (Nat.eqb i (length s)); reflexivity.
  - unfold Bs. rewrite G1; auto.
Qed.

Lemma app_new_struct s f : MInv s ->
  let s0 := s ++ [mkRS empty_reg empty_caches [] [] [] [] [] f] in
  ranked (Bs s0) /\ flav_ok s0 /\ msubs_ok s0 /\
  (forall x, x < length s0 -> x <> length s -> fl s0 x = Push -> rs_ro (get s0 x) = fresh_ro s0 x) /\
  (forall x, x < length s0 -> x <> length s -> fl s0 x = Verifying -> snap_ok s0 x) /\
  length s0 = S (length s) /\ (forall i, i < length s -> get s0 i = get s i).
Proof.
  intros (R & (F1 & F2) & (S1 & S2) & Cp & Cv) s0.
  assert (L0 : length s0 = S (length s)) by (unfold s0; rewrite app_length; cbn; lia).
  assert (G : forall i, get s0 i = if Nat.ltb i (length s) then get s i
                                   else if Nat.eqb i (length s) then mkRS empty_reg empty_caches [] [] [] [] [] f
                                        else dummy_rs) by (intros; apply get_app_cases).
  assert (G1 : forall i, i < length s -> get s0 i = get s i) by (intros; apply get_app_l; auto).
  assert (Lt : forall i, i < length s -> Nat.ltb i (length s) = true) by (intros; apply Nat.ltb_lt; auto).
  assert (Bsub : forall i b, In b (Bs s0 i) -> i < length s /\ In b (Bs s i)).
  { intros i b. unfold Bs. rewrite G. destruct (Nat.ltb i (length s)) eqn:Li.
    - apply Nat.ltb_lt in Li. auto.
    - destruct (Nat.eqb i (length s)); cbn; tauto. }
  assert (Ssub : forall i y, In y (rs_subs (get s0 i)) -> i < length s /\ In y (rs_subs (get s i))).
  { intros i y. rewrite G. destruct (Nat.ltb i (length s)) eqn:Li.
    - apply Nat.ltb_lt in Li. auto.
    - destruct (Nat.eqb i (length s)); cbn; tauto. }
  split; [apply app_new_ranked; auto|]. split; [|split; [|split; [|split; [|split]]]]; auto.
  - split.
    + intros r b Fr Hb. destruct (Bsub _ _ Hb) as (Lr & Hb'). pose proof (R _ _ Hb').
      unfold fl in *. rewrite G1 in * by lia. apply (F1 r b); auto.
    + intros r y Hy. destruct (Ssub _ _ Hy) as (Lr & Hy'). destruct (S1 _ _ Hy').
      unfold fl. rewrite !G1 by lia. apply F2; auto.
  - split.
    + intros r y Hy. destruct (Ssub _ _ Hy) as (Lr & Hy'). destruct (S1 _ _ Hy'). lia.
    + intros r b Fr Hb. destruct (Bsub _ _ Hb) as (Lr & Hb'). pose proof (R _ _ Hb').
      unfold fl in Fr. rewrite G1 in * by lia. apply S2; auto.
  - intros x Lx N Fx. assert (Lx' : x < length s) by lia. unfold fl in Fx. rewrite G1 in * by auto.
    unfold s0. rewrite app_new_fresh; auto.
  - intros x Lx N Fx. assert (Lx' : x < length s) by lia. unfold fl in Fx. rewrite G1 in Fx by auto.
    apply app_new_snap; auto.
Qed.

Lemma flavours_same s s' : length s' = length s -> (forall i, fl s' i = fl s i) -> flavours s' = flavours s.
Proof.
  intros L E. apply (nth_ext _ _ Push Push); unfold flavours; rewrite !map_length; auto.
  intros i _. change Push with (rs_flavour dummy_rs). rewrite !map_nth. apply E.
Qed.

Lemma flavours_app s f s' :
  length s' = S (length s) ->
  (forall i, fl s' i = fl (s ++ [mkRS empty_reg empty_caches [] [] [] [] [] f]) i) ->
  flavours s' = flavours s ++ [f].
Proof.
  intros L E. transitivity (flavours (s ++ [mkRS empty_reg empty_caches [] [] [] [] [] f])).
  - apply flavours_same; auto. rewrite app_length. cbn. lia.
  - unfold flavours. rewrite map_app. reflexivity.
Qed.

Lemma fl_flavours s i : fl_at (flavours s) i = fl s i.
Proof. unfold fl_at, flavours, fl, get. change Push with (rs_flavour dummy_rs). apply map_nth. Qed.

Lemma m_new_reg_push s bs : MInv s -> (forall b, In b bs -> b < length s /\ fl s b = Push) ->
  MInv (new_reg s Push bs) /\ length (new_reg s Push bs) = S (length s) /\
  flavours (new_reg s Push bs) = flavours s ++ [Push].
Proof.
  intros M Hbs. destruct (app_new_struct s Push M) as (R0 & Fo0 & S0 & Cp0 & Cv0 & L0 & G1).
  unfold new_reg. set (s0 := s ++ _) in *.
  assert (Fn : fl s0 (length s) = Push) by (unfold fl, s0; rewrite get_app_new; reflexivity).
  destruct (m_set_bases_push s0 (length s) bs) as (M' & L' & E'); auto; try lia.
  - intros x Lx Fx. apply Cv0; auto. congruence.
  - intros b Hb. destruct (Hbs b Hb). split; auto. unfold fl. rewrite G1; auto.
  - split; auto. split; [lia|]. apply flavours_app; auto. lia.
Qed.

(* ================================================================== M4: operations on a verifying registry *)
Lemma m_resnap b s s4 r :
  ranked (Bs s) -> flav_ok s -> msubs_ok s ->
  (forall x, x < length s -> fl s x = Push -> rs_ro (get s x) = fresh_ro s x) ->
  (forall x, x < length s -> x <> r -> fl s x = Verifying -> snap_ok s x) ->
  r < length s -> fl s r = Verifying ->
  length s4 = length s -> (forall i, i <> r -> get s4 i = get s i) ->
  rs_flavour (get s4 r) = Verifying -> rs_subs (get s4 r) = rs_subs (get s r) -> ranked (Bs s4) ->
  gen_of s r <= gen_of s4 r -> (Bs s r <> Bs s4 r -> gen_of s r < gen_of s4 r) ->
  MInv (lookup_changed b s4 r) /\ length (lookup_changed b s4 r) = length s /\
  (forall i, fl (lookup_changed b s4 r) i = fl s i).
Proof.
  intros R Fo S0 Cp Sn Lr Fr L4 O4 F4 Su4 R4 Gr St.
  destruct (lookup_changed_ver b s4 r F4) as (L' & O' & G'); [lia|].
  set (s' := lookup_changed b s4 r) in *.
  assert (Oo : forall i, i <> r -> get s' i = get s i) by (intros; rewrite O', O4; auto).
  assert (B' : forall i, Bs s' i = Bs s4 i).
  { intros i. unfold Bs. destruct (Nat.eq_dec i r) as [->|N]; [rewrite G'; reflexivity|rewrite O'; auto]. }
  assert (Bo : forall i, i <> r -> Bs s' i = Bs s i) by (intros i N; unfold Bs; rewrite Oo; auto).
  assert (Gn : forall i, gen_of s' i = gen_of s4 i).
  { intros i. unfold gen_of. destruct (Nat.eq_dec i r) as [->|N]; [rewrite G'; reflexivity|rewrite O'; auto]. }
  assert (E' : forall i, fl s' i = fl s i).
  { intros i. unfold fl. destruct (Nat.eq_dec i r) as [->|N]; [rewrite G'; cbn; symmetry; apply Fr|rewrite Oo; auto]. }
  assert (Sb : forall i, rs_subs (get s' i) = rs_subs (get s i)).
  { intros i. destruct (Nat.eq_dec i r) as [->|N]; [rewrite G'; cbn; auto|rewrite Oo; auto]. }
  assert (R' : ranked (Bs s')) by (intros y c; rewrite B'; apply R4).
  assert (Fr' : fresh_ro s' r = fresh_ro s4 r) by (apply fresh_ro_ext; auto).
  assert (NP : forall x, fl s x = Push -> x <> r) by (intros x Fx ->; congruence).
  split; [|split; [lia|auto]]. split; auto. split; [|split; [|split]].
  - split.
    + intros x c. rewrite !E'. intros Fx. rewrite Bo by auto. apply Fo; auto.
    + intros x y. rewrite !E', Sb. apply Fo.
  - split.
    + intros x y. rewrite Sb, L', L4. apply S0.
    + intros x c. rewrite E', Sb. intros Fx. rewrite Bo by auto. apply S0; auto.
  - intros x Lx Fx. rewrite E' in Fx. pose proof (NP x Fx) as Nx. rewrite Oo by auto.
    rewrite Cp by (auto; lia). apply fresh_ro_frame; auto; try lia.
    intros y Hy. destruct (Reach_push s x y Fo Fx Hy) as (_ & Fy). symmetry. apply Bo; auto.
  - intros x Lx Fx. rewrite E' in Fx. destruct (Nat.eq_dec x r) as [->|N].
    + destruct (fresh_ro_head s4 r R4) as (t & Ht); [lia|].
      unfold snap_ok. rewrite G'. cbn [rs_ro rs_vro rs_vgen]. rewrite Ht. cbn [tl].
      split; auto. split; [|split].
      * intros y Hy. rewrite <- Ht in Hy. apply fresh_ro_mem in Hy; auto; [|lia].
        apply (Reach_le _ R4) in Hy. lia.
      * rewrite (gens_ext s' s4 t) by (intros; apply Gn). apply Forall2_le_refl.
      * intros _. rewrite Fr'. auto.
    + assert (Lx' : x < length s) by lia.
      apply (snap_frame s s' x); auto; try lia; try (rewrite Oo; auto; fail).
      * intros i. rewrite Gn. destruct (Nat.eq_dec i r) as [->|Ni]; auto.
        unfold gen_of. rewrite O4; auto.
      * intros i. rewrite Gn, B'. destruct (Nat.eq_dec i r) as [->|Ni]; auto.
        unfold Bs. rewrite O4; auto. congruence.
      * symmetry. apply Bo; auto.
Qed.

Lemma MInv_parts s : MInv s ->
  ranked (Bs s) /\ flav_ok s /\ msubs_ok s /\
  (forall x, x < length s -> fl s x = Push -> rs_ro (get s x) = fresh_ro s x) /\
  (forall x, x < length s -> fl s x = Verifying -> snap_ok s x).
Proof. auto. Qed.

Lemma m_set_bases_ver s r bs :
  ranked (Bs s) -> flav_ok s -> msubs_ok s ->
  (forall x, x < length s -> fl s x = Push -> rs_ro (get s x) = fresh_ro s x) ->
  (forall x, x < length s -> x <> r -> fl s x = Verifying -> snap_ok s x) ->
  r < length s -> fl s r = Verifying -> (forall b, In b bs -> b < r) ->
  MInv (set_bases s r bs) /\ length (set_bases s r bs) = length s /\
  (forall i, fl (set_bases s r bs) i = fl s i).
Proof.
  intros R Fo S0 Cp Sn Lr Fr Hbs. rewrite set_bases_ver_eq by auto.
  set (s4 := upd (visit_ro (upd s r (setb bs)) r) r bump).
  assert (L4 : length s4 = length s) by (unfold s4, visit_ro; rewrite !upd_length; auto).
  assert (O4 : forall i, i <> r -> get s4 i = get s i).
  { intros i N. unfold s4, visit_ro. rewrite !get_upd_other; auto. }
  assert (G4 : get s4 r = bump (mkRS (rs_reg (get s r)) (rs_caches (get s r)) bs
                                     (fresh_ro (upd s r (setb bs)) r) (rs_subs (get s r)) (rs_vro (get s r))
                                     (rs_vgen (get s r)) (rs_flavour (get s r)))).
  { unfold s4, visit_ro. rewrite get_upd_same by (rewrite !upd_length; auto).
    rewrite get_upd_same by (rewrite upd_length; auto). rewrite get_upd_same by auto. reflexivity. }
  apply (m_resnap false s s4 r); auto.
  - rewrite G4. cbn. auto.
  - rewrite G4. reflexivity.
  - intros y b. unfold Bs. destruct (Nat.eq_dec y r) as [->|N].
    + rewrite G4. cbn. auto.
    + rewrite O4 by auto. apply R.
  - unfold gen_of. rewrite G4. cbn. lia.
  - intros _. unfold gen_of. rewrite G4. cbn. lia.
Qed.

Lemma m_setreg_ver s r g' : MInv s -> r < length s -> fl s r = Verifying ->
  generation (rs_reg (get s r)) <= generation g' ->
  let s4 := set s r (mkRS g' (rs_caches (get s r)) (rs_bases (get s r)) (rs_ro (get s r)) (rs_subs (get s r))
                          (rs_vro (get s r)) (rs_vgen (get s r)) (rs_flavour (get s r))) in
  MInv (after_bump s4 r) /\ length (after_bump s4 r) = length s /\
  (forall i, fl (after_bump s4 r) i = fl s i) /\
  (forall i, i <> r -> get (after_bump s4 r) i = get s i) /\
  gen_of (after_bump s4 r) r = generation g' /\
  rs_caches (get (after_bump s4 r) r) = empty_caches.
Proof.
  intros (R & Fo & S0 & Cp & Cv) Lr Fr Mg s4.
  assert (L4 : length s4 = length s) by (unfold s4; rewrite set_length; auto).
  assert (O4 : forall i, i <> r -> get s4 i = get s i) by (intros; unfold s4; rewrite get_set_other; auto).
  assert (G4 : get s4 r = mkRS g' (rs_caches (get s r)) (rs_bases (get s r)) (rs_ro (get s r))
                               (rs_subs (get s r)) (rs_vro (get s r)) (rs_vgen (get s r)) (rs_flavour (get s r)))
    by (unfold s4; rewrite get_set_same; auto).
  assert (F4 : rs_flavour (get s4 r) = Verifying) by (rewrite G4; cbn; auto).
  rewrite after_bump_ver; auto; try lia.
  assert (B4 : forall i, Bs s4 i = Bs s i).
  { intros i. unfold Bs. destruct (Nat.eq_dec i r) as [->|N]; [rewrite G4; reflexivity|rewrite O4; auto]. }
  destruct (m_resnap false s s4 r) as (M' & L' & E'); auto.
  - rewrite G4. reflexivity.
  - intros y b. rewrite B4. apply R.
  - unfold gen_of. rewrite G4. cbn. auto.
  - rewrite B4. congruence.
  - destruct (lookup_changed_ver false s4 r F4) as (_ & O' & G'); [lia|].
    split; auto. split; auto. split; auto. split; [|split].
    + intros i N. rewrite O' by auto. auto.
    + unfold gen_of. rewrite G', G4. reflexivity.
    + rewrite G'. reflexivity.
Qed.

Lemma m_mutate_ver s r f : MInv s -> r < length s -> fl s r = Verifying ->
  (forall g, generation g <= generation (f g)) ->
  MInv (mutate s r f) /\ length (mutate s r f) = length s /\ (forall i, fl (mutate s r f) i = fl s i).
Proof.
  intros M Lr Fr Mf. unfold mutate.
  destruct (Nat.eqb (generation (f (rs_reg (get s r)))) (generation (rs_reg (get s r)))); [auto|].
  destruct (m_setreg_ver s r (f (rs_reg (get s r))) M Lr Fr (Mf _)) as (M' & L' & E' & _). auto.
Qed.

Lemma m_verify_ver s r : MInv s -> r < length s -> fl s r = Verifying ->
  MInv (verify s r) /\ length (verify s r) = length s /\ (forall i, fl (verify s r) i = fl s i) /\
  rs_ro (get (verify s r) r) = fresh_ro (verify s r) r /\
  (forall i, rs_reg (get (verify s r) i) = rs_reg (get s i)) /\
  (forall i, Bs (verify s r) i = Bs s i) /\
  (forall i, i <> r -> get (verify s r) i = get s i) /\
  (gens s (rs_vro (get s r)) <> rs_vgen (get s r) -> rs_caches (get (verify s r) r) = empty_caches) /\
  (gens s (rs_vro (get s r)) = rs_vgen (get s r) -> verify s r = s).
Proof.
  intros M Lr Fr. pose proof M as (R & Fo & S0 & Cp & Cv). unfold verify. unfold fl in Fr. rewrite Fr.
  destruct (lspec_eqb (gens s (rs_vro (get s r))) (rs_vgen (get s r))) eqn:E.
  - apply lspec_eqb_eq in E. split; [auto|]. split; [auto|]. split; [auto|].
    split; [destruct (Cv r Lr Fr) as (_ & _ & _ & V3); auto|].
    split; [auto|]. split; [auto|]. split; [auto|]. split; [intros N; congruence|auto].
  - assert (NE : gens s (rs_vro (get s r)) <> rs_vgen (get s r)).
    { intros H. apply lspec_eqb_eq in H. congruence. }
    destruct (lookup_changed_ver true s r Fr Lr) as (L' & O' & G').
    destruct (m_resnap true s s r) as (M' & _ & E'); auto.
    { congruence. }
    assert (B' : forall i, Bs (lookup_changed true s r) i = Bs s i).
    { intros i. unfold Bs. destruct (Nat.eq_dec i r) as [->|N]; [rewrite G'; reflexivity|rewrite O'; auto]. }
    split; auto. split; auto. split; auto.
    split; [|split; [|split; [|split; [|split]]]]; auto.
    + rewrite G'. cbn. apply fresh_ro_ext; auto.
    + intros i. destruct (Nat.eq_dec i r) as [->|N]; [rewrite G'; reflexivity|rewrite O'; auto].
    + intros _. rewrite G'. reflexivity.
    + congruence.
Qed.

Lemma m_set_caches s r c : MInv s -> MInv (upd s r (fun x => set_caches x c)).
Proof.
  intros M. set (s' := upd s r _).
  assert (F : forall i, rs_reg (get s' i) = rs_reg (get s i) /\ rs_bases (get s' i) = rs_bases (get s i) /\
                        rs_ro (get s' i) = rs_ro (get s i) /\ rs_vro (get s' i) = rs_vro (get s i) /\
                        rs_vgen (get s' i) = rs_vgen (get s i) /\ rs_flavour (get s' i) = rs_flavour (get s i)).
  { intros i. unfold s'. rewrite get_upd. destruct (Nat.eqb i r && Nat.ltb r (length s)) eqn:E;
      [|repeat split; reflexivity].
    apply andb_true_iff in E. destruct E as (E & _). apply Nat.eqb_eq in E. subst. cbn.
    repeat split; reflexivity. }
  pose proof M as (R & Fo & S0 & Cp & Cv).
  assert (K : skel_eq s s') by apply set_caches_skel.
  pose proof (proj1 K) as G. pose proof (graph_eq_fl _ _ G) as E.
  split; [eapply graph_eq_ranked; eauto|]. split; [eapply graph_eq_flav_ok; eauto|].
  split; [eapply graph_eq_msubs_ok; eauto|]. split.
  - intros x Lx Fx. rewrite <- (proj2 K), <- (graph_eq_fresh _ _ x G). apply Cp; [unfold s' in Lx; rewrite upd_length in Lx; auto|rewrite E; auto].
  - intros x Lx Fx. unfold s' in Lx. rewrite upd_length in Lx. rewrite <- E in Fx.
    apply (snap_frame s s' x); auto; try apply F.
    + unfold s'. rewrite upd_length. lia.
    + intros i. unfold gen_of. destruct (F i) as (-> & _). auto.
    + intros i. unfold Bs. destruct (F i) as (_ & -> & _). congruence.
    + unfold Bs. destruct (F x) as (_ & -> & _). auto.
Qed.

Lemma m_with_lookup_ver W {A} s r (f : _ -> _ -> _ -> caches -> caches * A) :
  MInv s -> r < length s -> fl s r = Verifying ->
  MInv (fst (with_lookup W s r f)) /\ length (fst (with_lookup W s r f)) = length s /\
  (forall i, fl (fst (with_lookup W s r f)) i = fl s i).
Proof.
  intros M Lr Fr. destruct (with_lookup_fst W s r f) as (c' & ->).
  destruct (m_verify_ver s r M Lr Fr) as (M' & L' & E' & _). split; [apply m_set_caches; auto|].
  split; [rewrite upd_length; auto|]. intros i. rewrite <- E'. apply fl_upd. reflexivity.
Qed.

Lemma m_new_reg_ver s bs : MInv s -> (forall b, In b bs -> b < length s) ->
  MInv (new_reg s Verifying bs) /\ length (new_reg s Verifying bs) = S (length s) /\
  flavours (new_reg s Verifying bs) = flavours s ++ [Verifying].
Proof.
  intros M Hbs. destruct (app_new_struct s Verifying M) as (R0 & Fo0 & S0 & Cp0 & Cv0 & L0 & G1).
  unfold new_reg. set (s0 := s ++ _) in *.
  assert (Fn : fl s0 (length s) = Verifying) by (unfold fl, s0; rewrite get_app_new; reflexivity).
  destruct (m_set_bases_ver s0 (length s) bs) as (M' & L' & E'); auto; try lia.
  - intros x Lx Fx. apply Cp0; auto. congruence.
  - split; auto. split; [lia|]. apply flavours_app; auto. lia.
Qed.

(* ================================================================== M5: every operation of a well-formed
   mixed history keeps the invariant *)
Lemma flavours_length s : length (flavours s) = length s.
Proof. apply map_length. Qed.

Lemma push_bases_ok_spec s f bs : push_bases_ok (flavours s) f bs = true -> f = Push ->
  forall b, In b bs -> fl s b = Push.
Proof.
  intros H -> b Hb. cbn in H. rewrite forallb_forall in H. specialize (H b Hb).
  rewrite fl_flavours in H. destruct (fl s b); auto. discriminate.
Qed.

Lemma MInv_nil : MInv [].
Proof.
  assert (G : forall i, get [] i = dummy_rs) by (intros [|i]; reflexivity).
  split; [|split; [|split; [|split]]].
  - intros y b. unfold Bs. rewrite G. cbn. tauto.
  - split; intros r y; unfold Bs, fl; rewrite ?G; cbn; tauto.
  - split; intros r y; unfold Bs, fl; rewrite ?G; cbn; tauto.
  - intros r H. cbn in H. lia.
  - intros r H. cbn in H. lia.
Qed.

Lemma MInv_step W call s o : MInv s -> mwf_op (flavours s) o = true ->
  MInv (fst (step W call s o)) /\ flavours (fst (step W call s o)) = fls_after (flavours s) o /\
  length (fst (step W call s o)) = n_after (length s) o.
Proof.
  intros M Wf. pose proof M as (R & Fo & S0 & Cp & Cv).
  (* operations that keep the flavours *)
  assert (SAME : forall s', MInv s' -> length s' = length s -> (forall i, fl s' i = fl s i) ->
                            MInv s' /\ flavours s' = flavours s /\ length s' = length s).
  { intros s' M' L' E'. split; auto. split; auto. apply flavours_same; auto. }
  assert (SV : forall s', MInv s' -> sv s s' -> MInv s' /\ flavours s' = flavours s /\ length s' = length s).
  { intros s' M' K. apply SAME; auto. apply (sv_length _ _ K). apply (sv_fl _ _ K). }
  assert (LOOK : forall {A} r (f : _ -> _ -> _ -> caches -> caches * A), Nat.ltb r (length (flavours s)) = true ->
                 MInv (fst (with_lookup W s r f)) /\ flavours (fst (with_lookup W s r f)) = flavours s /\
                 length (fst (with_lookup W s r f)) = length s).
  { intros A r f Lr. rewrite flavours_length in Lr. apply Nat.ltb_lt in Lr. destruct (fl s r) eqn:F.
    - destruct (m_with_lookup_push W s r f M F). apply SV; auto.
    - destruct (m_with_lookup_ver W s r f M Lr F) as (M' & L' & E'). apply SAME; auto. }
  assert (MUT : forall r f, Nat.ltb r (length (flavours s)) = true -> (forall g, generation g <= generation (f g)) ->
                MInv (mutate s r f) /\ flavours (mutate s r f) = flavours s /\ length (mutate s r f) = length s).
  { intros r f Lr Mf. rewrite flavours_length in Lr. apply Nat.ltb_lt in Lr. destruct (fl s r) eqn:F.
    - destruct (m_mutate_push s r f M F Mf). apply SV; auto.
    - destruct (m_mutate_ver s r f M Lr F Mf) as (M' & L' & E'). apply SAME; auto. }
  destruct o; cbn [step mwf_op fls_after n_after fst] in *; try rewrite fst_let;
    try (apply LOOK; auto; fail); try (apply SAME; auto; fail).
  - (* new registry *)
    apply andb_true_iff in Wf. destruct Wf as (Hb & Pb). rewrite flavours_length in Hb.
    pose proof (forallb_ltb _ _ Hb) as Hlt. destruct fl0.
    + destruct (m_new_reg_push s bs M) as (M' & L' & E'); auto.
      intros b Hbb. split; auto. apply (push_bases_ok_spec s Push bs Pb eq_refl); auto.
    + destruct (m_new_reg_ver s bs M) as (M' & L' & E'); auto.
  - (* __bases__ assignment *)
    apply andb_true_iff in Wf. destruct Wf as (Wf & Pb). apply andb_true_iff in Wf. destruct Wf as (Lr & Hb).
    rewrite flavours_length in Lr. apply Nat.ltb_lt in Lr. pose proof (forallb_ltb _ _ Hb) as Hlt.
    rewrite fl_flavours in Pb. destruct (fl s r) eqn:F.
    + destruct (m_set_bases_push s r bs) as (M' & L' & E'); auto.
      intros b Hbb. split; auto. apply (push_bases_ok_spec s Push bs Pb eq_refl); auto.
    + destruct (m_set_bases_ver s r bs) as (M' & L' & E'); auto.
  - apply MUT; auto. intros; apply register_gen.
  - apply MUT; auto. intros; apply unregister_gen.
  - apply MUT; auto. intros; apply subscribe_gen.
  - apply MUT; auto. intros; apply unsubscribe_gen.
  - (* rebuild *)
    rewrite flavours_length in Wf. apply Nat.ltb_lt in Wf.
    pose proof (rebuild_gen W (rs_reg (get s r))) as G. destruct (fl s r) eqn:F.
    + destruct (m_setreg_push s r (rebuild W (rs_reg (get s r))) M F) as (_ & _ & M' & K); [lia|]. apply SV; auto.
    + destruct (m_setreg_ver s r (rebuild W (rs_reg (get s r))) M Wf F) as (M' & L' & E' & _); [lia|].
      apply SAME; auto.
Qed.

Lemma MInv_final W call : forall ops s, MInv s -> mwf_hist (flavours s) ops = true -> MInv (final W call s ops).
Proof.
  induction ops as [|o ops IH]; intros s M Wf; cbn [final fold_left]; auto.
  cbn [mwf_hist] in Wf. apply andb_true_iff in Wf. destruct Wf as (Wo & Wf).
  destruct (MInv_step W call s o M Wo) as (M' & E' & _). apply IH; auto. rewrite E'; auto.
Qed.

Lemma mwf_hist_app W call : forall ops s o, MInv s -> mwf_hist (flavours s) (ops ++ [o]) = true ->
  MInv (final W call s ops) /\ mwf_op (flavours (final W call s ops)) o = true.
Proof.
  induction ops as [|a ops IH]; intros s o M H; cbn [app mwf_hist final fold_left] in *.
  - apply andb_true_iff in H. destruct H; auto.
  - apply andb_true_iff in H. destruct H as (Wa & H).
    destruct (MInv_step W call s a M Wa) as (M' & E' & _). apply IH; auto. rewrite E'; auto.
Qed.

(* homogeneous histories are mixed histories *)
Lemma fl_at_repeat f : forall n b, b < n -> fl_at (repeat f n) b = f.
Proof.
  unfold fl_at. induction n as [|n IH]; intros b H; [lia|]. destruct b; cbn; auto. apply IH. lia.
Qed.

Lemma wf_op_mwf f n o : wf_op f n o = true ->
  mwf_op (repeat f n) o = true /\ fls_after (repeat f n) o = repeat f (n_after n o).
Proof.
  assert (PB_ok : forall m bs, m <= n -> forallb (fun b => Nat.ltb b m) bs = true ->
                               push_bases_ok (repeat f n) f bs = true).
  { intros m bs Hm H. destruct f; cbn; auto. apply forallb_forall. intros b Hb.
    rewrite forallb_forall in H. specialize (H b Hb). apply Nat.ltb_lt in H.
    rewrite fl_at_repeat by lia. reflexivity. }
  intros H. destruct o; cbn [wf_op mwf_op fls_after n_after] in *; rewrite ?repeat_length; auto.
  - apply andb_true_iff in H. destruct H as (E & Hb).
    assert (fl0 = f) by (destruct fl0, f; auto; discriminate). subst fl0.
    rewrite Hb, (PB_ok n bs) by auto. split; auto. cbn [repeat]. symmetry. apply repeat_cons.
  - apply andb_true_iff in H. destruct H as (Lr & Hb). rewrite Lr, Hb. cbn [andb].
    apply Nat.ltb_lt in Lr. rewrite fl_at_repeat by auto. rewrite (PB_ok r bs) by (auto; lia). auto.
Qed.

Lemma wf_hist_mwf f : forall ops n, wf_hist f n ops = true -> mwf_hist (repeat f n) ops = true.
Proof.
  induction ops as [|o ops IH]; intros n H; cbn [wf_hist mwf_hist] in *; auto.
  apply andb_true_iff in H. destruct H as (Ho & H). destruct (wf_op_mwf f n o Ho) as (-> & ->).
  cbn [andb]. apply IH; auto.
Qed.

(* ================================================================== M6: what lookups answer in a mixed system *)
Lemma m_chain_after_verify s r : MInv s -> r < length s -> ro_regs (verify s r) r = chain_regs s r.
Proof.
  intros M Lr. unfold ro_regs, chain_regs. destruct (fl s r) eqn:F.
  - rewrite verify_push by apply F. destruct M as (_ & _ & _ & Cp & _). rewrite Cp; auto.
  - destruct (m_verify_ver s r M Lr F) as (_ & L' & _ & Ro & Rg & B' & _). rewrite Ro.
    rewrite (fresh_ro_ext (verify s r) s r L' B'). apply map_ext. intros i. apply Rg.
Qed.

Lemma m_verify_cache_cases s r : MInv s -> r < length s ->
  rs_caches (get (verify s r) r) = empty_caches \/ verify s r = s.
Proof.
  intros M Lr. destruct (fl s r) eqn:F.
  - right. apply verify_push. apply F.
  - destruct (m_verify_ver s r M Lr F) as (_ & _ & _ & _ & _ & _ & _ & Ne & Eq).
    destruct (list_eq_dec Nat.eq_dec (gens s (rs_vro (get s r))) (rs_vgen (get s r))); auto.
Qed.

Section MAnswers.
  Variable W : world.
  Variable call : value -> list nat -> option nat.

  Lemma m_cold_after_verify s r (P : caches -> Prop) : MInv s -> r < length s ->
    P empty_caches -> P (rs_caches (get s r)) -> P (rs_caches (get (verify s r) r)).
  Proof. intros M Lr P0 Ps. destruct (m_verify_cache_cases s r M Lr) as [->| ->]; auto. Qed.

  Lemma m_lookup_current_chain s r req p n : MInv s -> r < length s ->
    aget cache_key_eqb (c_cache (rs_caches (get s r))) (p, n, ckey_of req) = None ->
    snd (step W call s (QLookup r req p (NStr n))) =
    enc_res_value (res_of (uncached_lookup W (chain_regs s r) req p n)).
  Proof.
    intros M Lr Cold. rewrite step_QLookup, (m_chain_after_verify s r M Lr), lookup_cold; auto.
    apply (m_cold_after_verify s r (fun c => aget cache_key_eqb (c_cache c) (p, n, ckey_of req) = None)); auto.
  Qed.

  Lemma m_lookupAll_current_chain s r req p : MInv s -> r < length s ->
    aget mkey_eqb (c_mcache (rs_caches (get s r))) (p, req) = None ->
    snd (step W call s (QLookupAll r req p)) = enc_pairs (uncached_lookupAll W (chain_regs s r) req p).
  Proof.
    intros M Lr Cold. rewrite step_QLookupAll, (m_chain_after_verify s r M Lr), lookupAll_cold; auto.
    apply (m_cold_after_verify s r (fun c => aget mkey_eqb (c_mcache c) (p, req) = None)); auto.
  Qed.

  Lemma m_subscriptions_current_chain s r req p : MInv s -> r < length s ->
    aget sckey_eqb (c_scache (rs_caches (get s r))) (p, req) = None ->
    snd (step W call s (QSubscriptions r req p)) = map vid (uncached_subscriptions W (chain_regs s r) req p).
  Proof.
    intros M Lr Cold. rewrite step_QSubscriptions, (m_chain_after_verify s r M Lr), subscriptions_cold; auto.
    apply (m_cold_after_verify s r (fun c => aget sckey_eqb (c_scache c) (p, req) = None)); auto.
  Qed.

  Lemma m_answers_when_cleared s r : MInv s -> r < length s ->
    rs_caches (get (verify s r) r) = empty_caches ->
    (forall req p n, snd (step W call s (QLookup r req p (NStr n))) =
                     enc_res_value (res_of (uncached_lookup W (chain_regs s r) req p n))) /\
    (forall req p, snd (step W call s (QLookupAll r req p)) =
                   enc_pairs (uncached_lookupAll W (chain_regs s r) req p)) /\
    (forall req p, snd (step W call s (QSubscriptions r req p)) =
                   map vid (uncached_subscriptions W (chain_regs s r) req p)).
  Proof.
    intros M Lr E. split; [|split]; intros.
    - rewrite step_QLookup, (m_chain_after_verify s r M Lr), E, lookup_cold; auto.
    - rewrite step_QLookupAll, (m_chain_after_verify s r M Lr), E, lookupAll_cold; auto.
    - rewrite step_QSubscriptions, (m_chain_after_verify s r M Lr), E, subscriptions_cold; auto.
  Qed.
End MAnswers.

(* a verifying registry below a changed registry m finds a differing generation *)
Lemma m_ver_stale s0 s m r : ranked (Bs s0) -> r < length s0 -> snap_ok s0 r -> get s r = get s0 r ->
  gen_le s0 s -> gen_of s0 m < gen_of s m -> (forall y, y <> m -> Bs s y = Bs s0 y) -> r <> m ->
  Reach (Bs s) r m -> gens s (rs_vro (get s r)) <> rs_vgen (get s r).
Proof.
  intros R0 Lr (V1 & V4 & V2 & V3) Gr M G Bo N Rr E. rewrite Gr in E.
  destruct (gens_sandwich s0 s M _ _ V2 E) as (E0 & Eq).
  assert (Rr0 : Reach (Bs s0) r m) by (apply (Reach_first (Bs s) (Bs s0) m); auto).
  apply (fresh_ro_mem s0 r m R0) in Rr0; [|lia]. rewrite <- (V3 E0), V1 in Rr0.
  destruct Rr0 as [?|Hm]; [congruence|]. apply Eq in Hm. lia.
Qed.

Lemma mwf_wf_change W s o m : mwf_op (flavours s) o = true -> bump_target W s o = Some m ->
  wf_op Push (length s) o = true /\ m < length s.
Proof.
  intros Wf Bt. assert (CG : forall r f, changed_gen s r f = Some m -> m = r).
  { intros r f H. unfold changed_gen in H. destruct (Nat.eqb _ _) in H; inversion H; auto. }
  destruct o; cbn [mwf_op bump_target wf_op] in *; try discriminate; rewrite flavours_length in Wf.
  - inversion Bt; subst. apply andb_true_iff in Wf. destruct Wf as (Wf & _). rewrite Wf.
    apply andb_true_iff in Wf. destruct Wf as (Lr & _). apply Nat.ltb_lt in Lr. auto.
  - apply CG in Bt. subst. split; auto. apply Nat.ltb_lt in Wf. auto.
  - apply CG in Bt. subst. split; auto. apply Nat.ltb_lt in Wf. auto.
  - apply CG in Bt. subst. split; auto. apply Nat.ltb_lt in Wf. auto.
  - apply CG in Bt. subst. split; auto. apply Nat.ltb_lt in Wf. auto.
  - inversion Bt; subst. split; auto. apply Nat.ltb_lt in Wf. auto.
Qed.

Section MCleared.
  Variable W : world.
  Variable call : value -> list nat -> option nat.

  (* the shape of the state right after an effective change at registry m *)
  Lemma m_change_shape s0 o m : MInv s0 -> mwf_op (flavours s0) o = true -> bump_target W s0 o = Some m ->
    m < length s0 /\ gen_le s0 (fst (step W call s0 o)) /\ gen_of s0 m < gen_of (fst (step W call s0 o)) m /\
    (forall y, y <> m -> Bs (fst (step W call s0 o)) y = Bs s0 y) /\
    (fl s0 m = Push -> vsame s0 (fst (step W call s0 o)) /\
                       exists s4, fst (step W call s0 o) = after_bump s4 m /\ MInv s4 /\ m < length s4 /\
                                  fl s4 m = Push) /\
    (fl s0 m = Verifying -> (forall i, i <> m -> get (fst (step W call s0 o)) i = get s0 i) /\
                            rs_caches (get (fst (step W call s0 o)) m) = empty_caches).
  Proof.
    intros M Wf Bt. destruct (mwf_wf_change W s0 o m Wf Bt) as (Wf' & Lm).
    destruct (step_gen W call Push s0 o Wf') as (GL & GS). specialize (GS m Bt).
    split; auto. split; auto. split; auto.
    pose proof M as (R & Fo & S0 & Cp & Cv).
    (* storage changes (mutators that changed something, rebuild) *)
    assert (SETREG : forall g', generation (rs_reg (get s0 m)) <= generation g' ->
      let s4 := set s0 m (mkRS g' (rs_caches (get s0 m)) (rs_bases (get s0 m)) (rs_ro (get s0 m))
                              (rs_subs (get s0 m)) (rs_vro (get s0 m)) (rs_vgen (get s0 m)) (rs_flavour (get s0 m))) in
      (forall y, y <> m -> Bs (after_bump s4 m) y = Bs s0 y) /\
      (fl s0 m = Push -> vsame s0 (after_bump s4 m) /\
                         exists s5, after_bump s4 m = after_bump s5 m /\ MInv s5 /\ m < length s5 /\ fl s5 m = Push) /\
      (fl s0 m = Verifying -> (forall i, i <> m -> get (after_bump s4 m) i = get s0 i) /\
                              rs_caches (get (after_bump s4 m) m) = empty_caches)).
    { intros g' G s4. split; [|split].
      - intros y Ny. destruct (fl s0 m) eqn:F.
        + destruct (m_setreg_push s0 m g' M F G) as (_ & _ & _ & K). fold s4 in K.
          symmetry. apply (graph_eq_Bs _ _ (proj1 (proj1 K))).
        + destruct (m_setreg_ver s0 m g' M Lm F G) as (_ & _ & _ & O & _). fold s4 in O.
          unfold Bs. rewrite O; auto.
      - intros F. destruct (m_setreg_push s0 m g' M F G) as (M4 & F4 & _ & K). fold s4 in M4, F4, K.
        split; [apply K|]. exists s4. split; auto. split; auto. split; auto.
        unfold s4. rewrite set_length. auto.
      - intros F. destruct (m_setreg_ver s0 m g' M Lm F G) as (_ & _ & _ & O & _ & Cm). auto. }
    assert (MUTATE : forall f, (forall g, generation g <= generation (f g)) -> changed_gen s0 m f = Some m ->
      (forall y, y <> m -> Bs (mutate s0 m f) y = Bs s0 y) /\
      (fl s0 m = Push -> vsame s0 (mutate s0 m f) /\
                         exists s5, mutate s0 m f = after_bump s5 m /\ MInv s5 /\ m < length s5 /\ fl s5 m = Push) /\
      (fl s0 m = Verifying -> (forall i, i <> m -> get (mutate s0 m f) i = get s0 i) /\
                              rs_caches (get (mutate s0 m f) m) = empty_caches)).
    { intros f Mf Ch. unfold changed_gen in Ch. unfold mutate.
      destruct (Nat.eqb (generation (f (rs_reg (get s0 m)))) (generation (rs_reg (get s0 m)))); [discriminate|].
      apply SETREG. apply Mf. }
    assert (CG : forall r f, changed_gen s0 r f = Some m -> m = r).
    { intros r f H. unfold changed_gen in H. destruct (Nat.eqb _ _) in H; inversion H; auto. }
    destruct o; cbn [bump_target] in Bt; try discriminate; cbn [step fst mwf_op] in *.
    - (* __bases__ assignment *)
      inversion Bt; subst r. apply andb_true_iff in Wf. destruct Wf as (Wf & Pb).
      apply andb_true_iff in Wf. destruct Wf as (_ & Hb). pose proof (forallb_ltb _ _ Hb) as Hlt.
      rewrite fl_flavours in Pb. split; [|split].
      + intros y Ny. destruct (fl s0 m) eqn:F.
        * destruct (m_set_bases_push_shape s0 m bs) as (s4 & -> & M4 & L4 & E4 & V4 & B4); auto.
          { intros b Hbb. split; auto. apply (push_bases_ok_spec s0 Push bs Pb eq_refl); auto. }
          assert (F4 : fl s4 m = Push) by (rewrite E4; auto).
          pose proof (m_after_bump_sv s4 m (proj1 (proj2 M4)) F4) as K.
          rewrite <- (graph_eq_Bs _ _ (proj1 (proj1 K))). apply B4; auto.
        * destruct (set_bases_ver_shape s0 m bs F Lm) as (O & _). unfold Bs. rewrite O; auto.
      + intros F. rewrite F in Pb. destruct (m_set_bases_push_shape s0 m bs) as (s4 & -> & M4 & L4 & E4 & V4 & B4); auto.
        { intros b Hbb. split; auto. apply (push_bases_ok_spec s0 Push bs Pb eq_refl); auto. }
        assert (F4 : fl s4 m = Push) by (rewrite E4; auto).
        pose proof (m_after_bump_sv s4 m (proj1 (proj2 M4)) F4) as K. split.
        * apply (vsame_trans s0 s4 _); [intros i; symmetry; apply E4 | exact V4 | apply K].
        * exists s4. split; auto. split; auto. split; [lia|auto].
      + intros F. destruct (set_bases_ver_shape s0 m bs F Lm) as (O & _ & Cm). auto.
    - apply CG in Bt as E; subst r. apply MUTATE; auto. intros; apply register_gen.
    - apply CG in Bt as E; subst r. apply MUTATE; auto. intros; apply unregister_gen.
    - apply CG in Bt as E; subst r. apply MUTATE; auto. intros; apply subscribe_gen.
    - apply CG in Bt as E; subst r. apply MUTATE; auto. intros; apply unsubscribe_gen.
    - inversion Bt; subst r. apply SETREG. pose proof (rebuild_gen W (rs_reg (get s0 m))). lia.
  Qed.
End MCleared.

Section MCleared2.
  Variable W : world.
  Variable call : value -> list nat -> option nat.

  (* right after an effective change at m, every registry below m — push or verifying, whatever the
     flavour of m — has (push) or gets on its next _verify (verifying) empty caches *)
  Lemma m_cleared_after_change s0 o m : MInv s0 -> mwf_op (flavours s0) o = true ->
    bump_target W s0 o = Some m ->
    forall r, r < length (fst (step W call s0 o)) -> Reach (Bs (fst (step W call s0 o))) r m ->
              rs_caches (get (verify (fst (step W call s0 o)) r) r) = empty_caches.
  Proof.
    intros M Wf Bt r Lr Rr.
    destruct (MInv_step W call s0 o M Wf) as (M' & E' & L').
    destruct (m_change_shape W call s0 o m M Wf Bt) as (Lm & GL & GS & Bo & ShP & ShV).
    set (s' := fst (step W call s0 o)) in *.
    assert (NA : n_after (length s0) o = length s0).
    { destruct o; cbn [bump_target] in Bt; try discriminate; reflexivity. }
    assert (FA : fls_after (flavours s0) o = flavours s0).
    { destruct o; cbn [bump_target] in Bt; try discriminate; reflexivity. }
    assert (Ef : forall i, fl s' i = fl s0 i).
    { intros i. rewrite <- !fl_flavours, E', FA. reflexivity. }
    pose proof M' as (R' & Fo' & S0' & _ & _).
    destruct (fl s' r) eqn:F.
    - (* a push registry: m is push too *)
      destruct (Reach_push s' r m Fo' F Rr) as (_ & Fm). rewrite Ef in Fm.
      destruct (ShP Fm) as (_ & s4 & Es & M4 & L4 & F4).
      rewrite verify_push by apply F. unfold s' in *. rewrite Es in *.
      pose proof (m_after_bump_sv s4 m (proj1 (proj2 M4)) F4) as K.
      apply m_after_bump_empties; auto; try apply M4.
      + rewrite <- (sv_fl _ _ K). auto.
      + apply (Reach_ext (Bs (after_bump s4 m)) (Bs s4)); auto.
        intros i. symmetry. apply (graph_eq_Bs _ _ (proj1 (proj1 K))).
    - (* a verifying registry *)
      destruct (m_verify_ver s' r M' Lr F) as (_ & _ & _ & _ & _ & _ & _ & Ne & Eq).
      destruct (Nat.eq_dec r m) as [->|N].
      + rewrite Ef in F. destruct (ShV F) as (_ & Cm).
        destruct (m_verify_cache_cases s' m M' Lr) as [E|E]; auto. rewrite E. auto.
      + apply Ne. rewrite L', NA in Lr. rewrite Ef in F.
        assert (Gr : get s' r = get s0 r).
        { destruct (fl s0 m) eqn:Fm; [apply (proj1 (ShP eq_refl)); auto | apply (proj1 (ShV eq_refl)); auto]. }
        apply (m_ver_stale s0 s' m r);
          [apply M | exact Lr | apply (proj2 (proj2 (proj2 (proj2 M)))); auto | exact Gr | exact GL | exact GS
           | exact Bo | exact N | exact Rr].
  Qed.

  Lemma m_answers_after_change s0 o m : MInv s0 -> mwf_op (flavours s0) o = true ->
    bump_target W s0 o = Some m ->
    forall r, r < length (fst (step W call s0 o)) -> Reach (Bs (fst (step W call s0 o))) r m ->
    (forall req p n, snd (step W call (fst (step W call s0 o)) (QLookup r req p (NStr n))) =
                     enc_res_value (res_of (uncached_lookup W (chain_regs (fst (step W call s0 o)) r) req p n))) /\
    (forall req p, snd (step W call (fst (step W call s0 o)) (QLookupAll r req p)) =
                   enc_pairs (uncached_lookupAll W (chain_regs (fst (step W call s0 o)) r) req p)) /\
    (forall req p, snd (step W call (fst (step W call s0 o)) (QSubscriptions r req p)) =
                   map vid (uncached_subscriptions W (chain_regs (fst (step W call s0 o)) r) req p)).
  Proof.
    intros M Wf Bt r Lr Rr. destruct (MInv_step W call s0 o M Wf) as (M' & _).
    apply (m_answers_when_cleared W call); auto.
    apply (m_cleared_after_change s0 o m); auto.
  Qed.

  (* ---- statements over mixed histories (quoted verbatim by Properties/C06.v) *)
  Notation fin ops := (final W call [] ops).

  Lemma m_hist_Inv ops : mwf_hist [] ops = true -> MInv (fin ops).
  Proof. intros H. apply MInv_final; auto. apply MInv_nil. Qed.

  Lemma mixed_ro_coherent_hist ops r : mwf_hist [] ops = true -> r < length (fin ops) ->
    (rs_flavour (get (fin ops) r) = Push -> rs_ro (get (fin ops) r) = fresh_ro (fin ops) r) /\
    rs_ro (get (verify (fin ops) r) r) = fresh_ro (verify (fin ops) r) r /\
    fresh_ro (verify (fin ops) r) r = fresh_ro (fin ops) r /\
    (forall i, rs_reg (get (verify (fin ops) r) i) = rs_reg (get (fin ops) i)).
  Proof.
    intros H L. pose proof (m_hist_Inv ops H) as M. pose proof M as (_ & _ & _ & Cp & _).
    split; [intros F; apply Cp; auto|].
    destruct (fl (fin ops) r) eqn:F.
    - rewrite verify_push by apply F. split; [apply Cp; auto|]. split; auto.
    - destruct (m_verify_ver _ r M L F) as (_ & L' & _ & Ro & Rg & B' & _).
      split; [exact Ro|]. split; [apply fresh_ro_ext; auto | exact Rg].
  Qed.

  Lemma mixed_chain_is_reachable_set_hist ops r : mwf_hist [] ops = true -> r < length (fin ops) ->
    (exists t, fresh_ro (fin ops) r = r :: t) /\
    (forall y, In y (fresh_ro (fin ops) r) <-> Reach (Bs (fin ops)) r y).
  Proof.
    intros H L. pose proof (m_hist_Inv ops H) as (R & _).
    split; [apply fresh_ro_head; auto|]. intros y. apply fresh_ro_mem; auto.
  Qed.

  Lemma mixed_lookup_uses_current_chain_hist ops r req p n : mwf_hist [] ops = true -> r < length (fin ops) ->
    aget cache_key_eqb (c_cache (rs_caches (get (fin ops) r))) (p, n, ckey_of req) = None ->
    snd (step W call (fin ops) (QLookup r req p (NStr n))) =
    enc_res_value (res_of (uncached_lookup W (chain_regs (fin ops) r) req p n)).
  Proof. intros H L. apply (m_lookup_current_chain W call); auto. apply m_hist_Inv; auto. Qed.

  Lemma mixed_lookupAll_uses_current_chain_hist ops r req p : mwf_hist [] ops = true -> r < length (fin ops) ->
    aget mkey_eqb (c_mcache (rs_caches (get (fin ops) r))) (p, req) = None ->
    snd (step W call (fin ops) (QLookupAll r req p)) =
    enc_pairs (uncached_lookupAll W (chain_regs (fin ops) r) req p).
  Proof. intros H L. apply (m_lookupAll_current_chain W call); auto. apply m_hist_Inv; auto. Qed.

  Lemma mixed_subscriptions_uses_current_chain_hist ops r req p : mwf_hist [] ops = true -> r < length (fin ops) ->
    aget sckey_eqb (c_scache (rs_caches (get (fin ops) r))) (p, req) = None ->
    snd (step W call (fin ops) (QSubscriptions r req p)) =
    map vid (uncached_subscriptions W (chain_regs (fin ops) r) req p).
  Proof. intros H L. apply (m_subscriptions_current_chain W call); auto. apply m_hist_Inv; auto. Qed.

  Lemma mixed_change_empties_caches_below_hist ops o m r : mwf_hist [] (ops ++ [o]) = true ->
    bump_target W (fin ops) o = Some m ->
    r < length (fin (ops ++ [o])) -> Reach (Bs (fin (ops ++ [o]))) r m ->
    rs_caches (get (verify (fin (ops ++ [o])) r) r) = empty_caches.
  Proof.
    intros H Bt. rewrite final_app. destruct (mwf_hist_app W call ops [] o MInv_nil H) as (M & Wo).
    apply (m_cleared_after_change _ o m); auto.
  Qed.

  Lemma mixed_answers_after_change_hist ops o m r : mwf_hist [] (ops ++ [o]) = true ->
    bump_target W (fin ops) o = Some m ->
    r < length (fin (ops ++ [o])) -> Reach (Bs (fin (ops ++ [o]))) r m ->
    (forall req p n, snd (step W call (fin (ops ++ [o])) (QLookup r req p (NStr n))) =
                     enc_res_value (res_of (uncached_lookup W (chain_regs (fin (ops ++ [o])) r) req p n))) /\
    (forall req p, snd (step W call (fin (ops ++ [o])) (QLookupAll r req p)) =
                   enc_pairs (uncached_lookupAll W (chain_regs (fin (ops ++ [o])) r) req p)) /\
    (forall req p, snd (step W call (fin (ops ++ [o])) (QSubscriptions r req p)) =
                   map vid (uncached_subscriptions W (chain_regs (fin (ops ++ [o])) r) req p)).
  Proof.
    intros H Bt. rewrite final_app. destruct (mwf_hist_app W call ops [] o MInv_nil H) as (M & Wo).
    apply (m_answers_after_change _ o m); auto.
  Qed.

  (* the discipline itself: in every reachable mixed state push registries have push bases and the
     sub-registry lists mirror the __bases__ of the PUSH registries only *)
  Lemma mixed_discipline_hist ops : mwf_hist [] ops = true ->
    (forall r b, rs_flavour (get (fin ops) r) = Push -> In b (rs_bases (get (fin ops) r)) ->
                 rs_flavour (get (fin ops) b) = Push /\ In r (rs_subs (get (fin ops) b)) /\ b < r) /\
    (forall r y, In y (rs_subs (get (fin ops) r)) ->
                 rs_flavour (get (fin ops) r) = Push /\ rs_flavour (get (fin ops) y) = Push).
  Proof.
    intros H. destruct (m_hist_Inv ops H) as (R & (F1 & F2) & (_ & S2) & _). split.
    - intros r b F Hb. split; [apply (F1 r b); auto|]. split; [apply S2; auto|apply R; auto].
    - intros r y Hy. apply (F2 r y Hy).
  Qed.
End MCleared2.
