(* The kernel regenerated from the source text (Gen/SuperKernel.v, written on every run by
   harness/translate/super_kernel.py) IS the model the theorems of Properties/C19.v are about:
   generated = Model/Super.v / Model/Lookup.v definitions, for all inputs and all states. *)
From Coq Require Import List Arith Bool ZArith Lia.
Import ListNotations.
From ZI Require Import Model.Ro Model.Adapter Model.Lookup Model.Super Model.SuperPrims Gen.SuperKernel.
From ZI Require Import Spec.Super Proofs.Super.

(* ---- the vocabulary on the arguments the unchanged source uses *)
Lemma norm_index_nat len k : norm_index len (Z.of_nat k) = Some k.
Proof.
  unfold norm_index. destruct (Z.of_nat k <? 0)%Z eqn:L; [apply Z.ltb_lt in L; lia|].
  rewrite Nat2Z.id. reflexivity.
Qed.

Lemma norm_index_succ len k : norm_index len (Z.of_nat k + 1)%Z = Some (S k).
Proof.
  replace (Z.of_nat k + 1)%Z with (Z.of_nat (S k)) by lia. apply norm_index_nat.
Qed.

Lemma py_slice_from_nat l k : py_slice_from l (Z.of_nat k) = skipn k l.
Proof. unfold py_slice_from. rewrite norm_index_nat. reflexivity. Qed.

Lemma py_item_succ l k : py_item l (Z.of_nat k + 1)%Z = nth_error l (S k).
Proof. unfold py_item. rewrite norm_index_succ. reflexivity. Qed.

Lemma classes_of_RCls l : classes_of (map RCls l) = l.
Proof. unfold classes_of. induction l as [|c l IH]; cbn; congruence. Qed.

Lemma update_nth_last {A} (l : list A) x f : update_nth (l ++ [x]) (length l) f = l ++ [f x].
Proof. induction l as [|y l IH]; cbn; congruence. Qed.

Lemma nset_same {V} (m : list (nat * V)) k v : nget m k = Some v -> nset m k v = m.
Proof.
  induction m as [|[k' v'] m IH]; cbn; [discriminate|].
  destruct (Nat.eqb k k') eqn:E; intros H.
  - inversion H; subst. reflexivity.
  - rewrite IH; auto.
Qed.

Lemma nset_nset {V} (m : list (nat * V)) k v w : nset (nset m k v) k w = nset m k w.
Proof.
  induction m as [|[k' v'] m IH]; cbn; [rewrite Nat.eqb_refl; reflexivity|].
  destruct (Nat.eqb k k') eqn:E; cbn; rewrite E; congruence.
Qed.

(* ---- _next_super_class *)
Lemma gen_next_super_class_eq E C T j :
  gen_next_super_class E (mkPS C T j) =
  match mro_of E T with Some mro => next_super_class mro C | None => None end.
Proof.
  unfold gen_next_super_class, py_mro, py_index, next_super_class. cbn [ps_self_class ps_thisclass].
  destruct (mro_of E T) as [mro|]; [|reflexivity].
  destruct (index_of C mro) as [i|]; cbn [option_map]; [|reflexivity].
  rewrite py_item_succ. destruct (nth_error mro (S i)); reflexivity.
Qed.

(* ---- _implementedBy_super *)
Lemma gen_implementedBy_super_eq E st C T j :
  gen_implementedBy_super E st (mkPS C T j) =
  (let '(st', r) := implementedBy_super E st T C in (st', option_map RSynth r)).
Proof.
  destruct st as [d syn ca regs].
  unfold gen_implementedBy_super, implementedBy_super.
  rewrite !gen_next_super_class_eq.
  unfold get_super_cache, set_super_cache, cache_of, py_mro, py_index.
  cbn [ps_self_class ps_thisclass st_cache st_decl st_synth st_regs].
  destruct (nget ca T) as [cache|] eqn:K.
  - rewrite (nset_same ca T cache K).
    destruct (nget cache C) as [s|]; [reflexivity|].
    destruct (mro_of E T) as [mro|]; [|reflexivity].
    destruct (next_super_class mro C) as [nxt|]; [|reflexivity].
    destruct (index_of nxt mro) as [ix|]; cbn [option_map]; [|reflexivity].
    rewrite py_slice_from_nat.
    unfold alloc_implements, set_spec_inherit, set_spec_declared, store_super_cache, spec_inherit, spec_declared, cache_of.
    cbn [st_cache st_decl st_synth st_regs]. rewrite K.
    rewrite classes_of_RCls, !update_nth_last. cbn [sy_bases sy_inherit sy_declared sy_dspecs option_map fst snd]. reflexivity.
  - cbn [nget].
    destruct (mro_of E T) as [mro|]; [|reflexivity].
    destruct (next_super_class mro C) as [nxt|]; [|reflexivity].
    destruct (index_of nxt mro) as [ix|]; cbn [option_map]; [|reflexivity].
    rewrite py_slice_from_nat.
    unfold alloc_implements, set_spec_inherit, set_spec_declared, store_super_cache, spec_inherit, spec_declared, cache_of.
    cbn [st_cache st_decl st_synth st_regs]. rewrite nget_nset_eq, nset_nset.
    rewrite classes_of_RCls, !update_nth_last. cbn [sy_bases sy_inherit sy_declared sy_dspecs option_map fst snd]. reflexivity.
Qed.

(* ---- Implements.changed (its own part) *)
Lemma gen_implements_changed_eq st c : gen_implements_changed st (RCls c) = drop_cache st c.
Proof. reflexivity. Qed.

(* notify = the generated ``changed`` run on every specification that Specification.changed reaches *)
Lemma notify_is_generated_changed E st c :
  notify E st c = fold_left (fun s x => gen_implements_changed s (RCls x)) (notified E (st_decl st) (cfuel E) c) st.
Proof. reflexivity. Qed.

(* ---- the super branches of implementedBy / providedBy (Python) *)
Lemma gen_py_implementedBy_eq E st a : gen_py_implementedBy E st a = py_implementedBy E st a.
Proof.
  destruct a as [j|C j|C T|C]; unfold gen_py_implementedBy;
    cbn [is_super_arg psuper_of py_implementedBy implementedBy_rest]; try reflexivity;
    apply gen_implementedBy_super_eq.
Qed.

Lemma gen_py_providedBy_eq E st a : gen_py_providedBy E st a = py_providedBy E st a.
Proof.
  destruct a as [j|C j|C T|C]; unfold gen_py_providedBy;
    cbn [is_super_arg py_providedBy providedBy_rest py_implementedBy]; try reflexivity;
    apply gen_py_implementedBy_eq.
Qed.

(* ---- adapter.py *)
Lemma lookup_str_not_valueerror ul c req p n :
  snd (lookup ul c req p (NStr n)) <> RValueError.
Proof.
  unfold lookup. destruct (aget cache_key_eqb (c_cache c) (p, n, ckey_of req)) as [[v|]|]; cbn; try discriminate.
  destruct (ul req p n); discriminate.
Qed.

Lemma unwrap_obj_self o : o_id (if is_super_obj o then obj_self o else o) = unwrap o.
Proof. unfold is_super_obj, obj_self, unwrap. destruct (o_super_of o); reflexivity. Qed.

Lemma gen_adapter_hook_eq ul fcall c p o n :
  gen_adapter_hook ul fcall c p o n = adapter_hook ul fcall c p o n.
Proof.
  unfold gen_adapter_hook, adapter_hook. destruct n as [n|]; [|reflexivity].
  pose proof (unwrap_obj_self o) as U. unfold is_super_obj, obj_self in *.
  destruct (aget cache_key_eqb (c_cache c) (p, n, CSingle (o_provides o))) as [[f|]|].
  - destruct (o_super_of o); cbn in U |- *; rewrite <- U; destruct (fcall f _); reflexivity.
  - reflexivity.
  - pose proof (lookup_str_not_valueerror ul c [o_provides o] p n) as NV.
    destruct (lookup ul c [o_provides o] p (NStr n)) as [c' [f| |]]; cbn [snd res_opt] in *; [| reflexivity | congruence].
    destruct (o_super_of o); cbn in U |- *; rewrite <- U; destruct (fcall f _); reflexivity.
Qed.

Lemma gen_queryMultiAdapter_eq ul fcall c os p n :
  gen_queryMultiAdapter ul fcall c os p n = queryMultiAdapter ul fcall c os p n.
Proof.
  unfold gen_queryMultiAdapter, queryMultiAdapter.
  assert (M : map (fun o => o_id (if is_super_obj o then obj_self o else o)) os = map unwrap os)
    by (apply map_ext; intros o; apply unwrap_obj_self).
  rewrite M.
  destruct (lookup ul c (map (fun o => o_provides o) os) p n) as [c' [f| |]]; cbn [res_opt]; try reflexivity.
Qed.
