(* C20 proofs.  Part A: lists (mem, dedupe).  Part B: C3 merge / legacy order / fresh_sro
   membership (= reachability) and NoDup.  Part C: interfaces / iteration / normalisation.
   Part D: contains / flattened.  Part E: sub / add.  Part F: instance declarations, store. *)
From Coq Require Import List Arith Bool Lia.
Import ListNotations.
From ZI Require Import Model.Ro Model.DeclAlg Spec.DeclAlg.

(* ------------------------------------------------------------------ Part A *)
Lemma mem_In x l : mem x l = true <-> In x l.
Proof.
  induction l as [|y l IH]; cbn; [split; [discriminate|tauto]|].
  rewrite orb_true_iff, Nat.eqb_eq, IH. split; intros [H|H]; auto.
Qed.

Lemma mem_false x l : mem x l = false <-> ~ In x l.
Proof. rewrite <- mem_In. destruct (mem x l); split; congruence. Qed.

Lemma mem_app x a b : mem x (a ++ b) = mem x a || mem x b.
Proof. induction a as [|y a IH]; cbn; [reflexivity|]. rewrite IH, orb_assoc. reflexivity. Qed.

Definition same_mem (s s' : list node) := forall x, mem x s = mem x s'.

Lemma dedupe_acc_ext l : forall s s', same_mem s s' -> dedupe_acc s l = dedupe_acc s' l.
Proof.
  induction l as [|x l IH]; intros s s' H; cbn; [reflexivity|].
  rewrite (H x). destruct (mem x s'); [apply IH; assumption|].
  f_equal. apply IH. intros y. cbn. rewrite (H y). reflexivity.
Qed.

Lemma dedupe_acc_In l : forall s y, In y (dedupe_acc s l) <-> In y l /\ ~ In y s.
Proof.
  induction l as [|x l IH]; intros s y; cbn; [tauto|].
  destruct (mem x s) eqn:E.
  - rewrite IH. apply mem_In in E. split; [tauto|]. intros [[->|H] N]; tauto.
  - apply mem_false in E. cbn. rewrite IH. cbn. split.
    + intros [->|[H N]]; [tauto|]. split; [tauto|]. intros F; apply N; auto.
    + intros [[->|H] N]; [tauto|]. destruct (Nat.eq_dec x y); [tauto|]. right. split; [assumption|].
      intros [F|F]; tauto.
Qed.

Lemma dedupe_acc_NoDup l : forall s, NoDup (dedupe_acc s l).
Proof.
  induction l as [|x l IH]; intros s; cbn; [constructor|].
  destruct (mem x s); [apply IH|]. constructor; [|apply IH].
  rewrite dedupe_acc_In. cbn. tauto.
Qed.

Lemma dedupe_acc_app a : forall s b s2, same_mem s2 (a ++ s) ->
  dedupe_acc s (a ++ b) = dedupe_acc s a ++ dedupe_acc s2 b.
Proof.
  induction a as [|x a IH]; intros s b s2 H; cbn.
  - apply dedupe_acc_ext. intros y. symmetry. apply H.
  - destruct (mem x s) eqn:E.
    + apply IH. intros y. rewrite (H y). cbn. rewrite !mem_app.
      destruct (Nat.eqb y x) eqn:Ey; cbn; [|reflexivity]. apply Nat.eqb_eq in Ey. subst y.
      rewrite E, orb_true_r. reflexivity.
    + cbn. f_equal. apply IH. intros y. rewrite (H y). cbn. rewrite !mem_app. cbn.
      destruct (Nat.eqb y x); cbn; [rewrite orb_true_r|]; reflexivity.
Qed.

Lemma dedupe_acc_idem a : forall s s', dedupe_acc s (dedupe_acc s' a) = dedupe_acc (s ++ s') a.
Proof.
  induction a as [|x a IH]; intros s s'; cbn; [reflexivity|].
  rewrite mem_app. destruct (mem x s') eqn:E'.
  - rewrite orb_true_r. apply IH.
  - rewrite orb_false_r. cbn. destruct (mem x s) eqn:E.
    + rewrite IH. apply dedupe_acc_ext. intros y. rewrite !mem_app. cbn.
      destruct (Nat.eqb y x) eqn:Ey; [|reflexivity]. apply Nat.eqb_eq in Ey. subst y.
      rewrite E. reflexivity.
    + f_equal. rewrite IH. apply dedupe_acc_ext. intros y. cbn. rewrite !mem_app. cbn.
      destruct (Nat.eqb y x); cbn; reflexivity.
Qed.

Lemma dedupe_acc_id l : forall s, NoDup l -> (forall x, In x l -> ~ In x s) -> dedupe_acc s l = l.
Proof.
  induction l as [|x l IH]; intros s ND H; cbn; [reflexivity|].
  inversion ND as [|? ? Hx ND']; subst.
  assert (E : mem x s = false) by (apply mem_false, H; left; reflexivity).
  rewrite E. f_equal. apply IH; [assumption|].
  intros y Hy [F|F]; [subst; tauto|]. apply (H y); [right; assumption|assumption].
Qed.

Lemma dedupe_acc_filter l : forall s, NoDup l ->
  dedupe_acc s l = filter (fun x => negb (mem x s)) l.
Proof.
  induction l as [|x l IH]; intros s ND; cbn; [reflexivity|].
  inversion ND as [|? ? Hx ND']; subst.
  destruct (mem x s) eqn:E; cbn; [apply IH; assumption|].
  f_equal. rewrite IH by assumption. apply filter_ext_in. intros y Hy. cbn.
  destruct (Nat.eqb y x) eqn:Ey; [|reflexivity]. apply Nat.eqb_eq in Ey. subst. tauto.
Qed.

(* dedupe-equivalence: the two lists are indistinguishable under any "seen" set *)
Definition deq (l l' : list node) := forall s, dedupe_acc s l = dedupe_acc s l'.

Lemma deq_refl l : deq l l. Proof. intros s. reflexivity. Qed.
Lemma deq_trans a b c : deq a b -> deq b c -> deq a c.
Proof. intros H1 H2 s. rewrite H1. apply H2. Qed.
Lemma deq_sym a b : deq a b -> deq b a.
Proof. intros H s. symmetry. apply H. Qed.

Lemma deq_mem a b : deq a b -> same_mem a b.
Proof.
  intros H x. specialize (H []).
  destruct (mem x a) eqn:Ea, (mem x b) eqn:Eb; try reflexivity.
  - apply mem_In in Ea. apply mem_false in Eb. exfalso. apply Eb.
    assert (In x (dedupe_acc [] b)) by (rewrite <- H; apply dedupe_acc_In; cbn; tauto).
    apply dedupe_acc_In in H0. tauto.
  - apply mem_In in Eb. apply mem_false in Ea. exfalso. apply Ea.
    assert (In x (dedupe_acc [] a)) by (rewrite H; apply dedupe_acc_In; cbn; tauto).
    apply dedupe_acc_In in H0. tauto.
Qed.

Lemma deq_app a a' b b' : deq a a' -> deq b b' -> deq (a ++ b) (a' ++ b').
Proof.
  intros Ha Hb s.
  rewrite (dedupe_acc_app a s b (a ++ s)) by (intros y; reflexivity).
  rewrite (dedupe_acc_app a' s b' (a ++ s)).
  - rewrite Ha, Hb. reflexivity.
  - intros y. rewrite !mem_app. rewrite (deq_mem _ _ Ha y). reflexivity.
Qed.

Lemma deq_dedupe a : deq (dedupe a) a.
Proof. intros s. unfold dedupe. rewrite dedupe_acc_idem, app_nil_r. reflexivity. Qed.

Lemma deq_flat_map {A} (f h : A -> list node) l :
  (forall x, In x l -> deq (f x) (h x)) -> deq (flat_map f l) (flat_map h l).
Proof.
  induction l as [|x l IH]; intros H; cbn; [apply deq_refl|].
  apply deq_app; [apply H; left; reflexivity|apply IH; intros; apply H; right; assumption].
Qed.

Lemma dedupe_In l y : In y (dedupe l) <-> In y l.
Proof. unfold dedupe. rewrite dedupe_acc_In. cbn. tauto. Qed.
Lemma dedupe_NoDup l : NoDup (dedupe l).
Proof. apply dedupe_acc_NoDup. Qed.
Lemma dedupe_id l : NoDup l -> dedupe l = l.
Proof. intros. apply dedupe_acc_id; [assumption|]. intros ? ? []. Qed.

(* ------------------------------------------------------------------ Part B *)
Definition elems (seqs : list (list node)) (y : node) : Prop := exists s, In s seqs /\ In y s.

Lemma filter_neq_len b (s : list node) :
  length (filter (fun y => negb (Nat.eqb y b)) s) <= length s.
Proof. induction s as [|x s IH]; cbn; [lia|]. destruct (negb (Nat.eqb x b)); cbn; lia. Qed.

Lemma filter_neq_len_lt b (s : list node) : In b s ->
  length (filter (fun y => negb (Nat.eqb y b)) s) < length s.
Proof.
  induction s as [|x s IH]; cbn; [tauto|]. intros [->|H].
  - rewrite Nat.eqb_refl. cbn. pose proof (filter_neq_len b s). lia.
  - specialize (IH H). destruct (negb (Nat.eqb x b)); cbn; lia.
Qed.

Lemma total_len_cons s l : total_len (s :: l) = length s + total_len l.
Proof. reflexivity. Qed.

Lemma total_len_nonempty l : total_len (filter nonempty l) = total_len l.
Proof.
  induction l as [|s l IH]; [reflexivity|]. cbn [filter]. destruct s; cbn [nonempty].
  - rewrite total_len_cons. cbn. assumption.
  - rewrite !total_len_cons. lia.
Qed.

Lemma total_len_remove b seqs : total_len (remove_everywhere b seqs) <= total_len seqs.
Proof.
  unfold remove_everywhere. rewrite total_len_nonempty.
  induction seqs as [|s l IH]; [cbn; lia|]. cbn [map]. rewrite !total_len_cons.
  pose proof (filter_neq_len b s). unfold node in *; lia.
Qed.

Lemma total_len_remove_lt b seqs : elems seqs b -> total_len (remove_everywhere b seqs) < total_len seqs.
Proof.
  unfold remove_everywhere. rewrite total_len_nonempty. intros [s [Hs Hb]].
  induction seqs as [|s' l IH]; [destruct Hs|]. cbn [map]. rewrite !total_len_cons. destruct Hs as [->|Hs].
  - pose proof (filter_neq_len_lt b s Hb).
    pose proof (total_len_remove b l) as H1. unfold remove_everywhere in H1. rewrite total_len_nonempty in H1.
    unfold node in *; lia.
  - specialize (IH Hs). pose proof (filter_neq_len b s'). unfold node in *; lia.
Qed.

Lemma nonempty_true (s : list node) : nonempty s = true <-> s <> [].
Proof. destruct s; cbn; split; congruence. Qed.

Lemma elems_remove b seqs y : elems (remove_everywhere b seqs) y <-> y <> b /\ elems seqs y.
Proof.
  unfold remove_everywhere, elems. split.
  - intros [s' [Hs' Hy]]. apply filter_In in Hs'. destruct Hs' as [Hs' _].
    apply in_map_iff in Hs'. destruct Hs' as [s [<- Hs]]. apply filter_In in Hy. destruct Hy as [Hy Hn].
    split; [|exists s; tauto]. intros ->. rewrite Nat.eqb_refl in Hn. discriminate.
  - intros [Hn [s [Hs Hy]]]. exists (filter (fun b0 => negb (Nat.eqb b0 b)) s).
    assert (In y (filter (fun b0 => negb (Nat.eqb b0 b)) s)).
    { apply filter_In. split; [assumption|]. apply negb_true_iff, Nat.eqb_neq. assumption. }
    split; [|assumption]. apply filter_In. split; [apply in_map; assumption|].
    apply nonempty_true. intros E. rewrite E in H. destruct H.
Qed.

Lemma find_from_head all l b : find_from l all = Some b -> elems l b.
Proof.
  induction l as [|s l IH]; [discriminate|]. cbn [find_from]. destruct s as [|h t].
  - intros H. destruct (IH H) as [s [Hs Hb]]. exists s. split; [right|]; assumption.
  - destruct (can_choose h all).
    + intros [= ->]. exists (b :: t). split; left; reflexivity.
    + intros H. destruct (IH H) as [s [Hs Hb]]. exists s. split; [right|]; assumption.
Qed.

Lemma find_next_head seqs b : find_next seqs = Some b -> elems seqs b.
Proof. unfold find_next. apply find_from_head. Qed.

Lemma merge_loop_spec fuel : forall seqs acc,
  Forall (fun s => s <> []) seqs -> total_len seqs < fuel ->
  match merge_loop fuel seqs acc with
  | MOk l => (forall y, In y l <-> In y acc \/ elems seqs y) /\
             (NoDup acc -> (forall y, In y acc -> ~ elems seqs y) -> NoDup l)
  | MBad => True
  | MFuel => False
  end.
Proof.
  induction fuel as [|f IH]; intros seqs acc HF HL; [lia|].
  cbn [merge_loop]. destruct seqs as [|s0 rest].
  - split.
    + intros y. rewrite <- in_rev. split; [tauto|]. intros [H|[s [[] _]]]. assumption.
    + intros ND _. apply NoDup_rev. assumption.
  - remember (s0 :: rest) as seqs. destruct (find_next seqs) as [b|] eqn:EF; [|exact I].
    pose proof (find_next_head _ _ EF) as Hb.
    assert (HF' : Forall (fun s => s <> []) (remove_everywhere b seqs)).
    { apply Forall_forall. intros s Hs. unfold remove_everywhere in Hs. apply filter_In in Hs.
      apply nonempty_true. tauto. }
    assert (HL' : total_len (remove_everywhere b seqs) < f).
    { pose proof (total_len_remove_lt b seqs Hb). lia. }
    specialize (IH (remove_everywhere b seqs) (b :: acc) HF' HL').
    destruct (merge_loop f (remove_everywhere b seqs) (b :: acc)) as [l| |]; [|exact I|exact IH].
    destruct IH as [IH1 IH2]. split.
    + intros y. rewrite IH1, elems_remove. cbn. destruct (Nat.eq_dec b y) as [->|N]; [tauto|].
      split; [intros [[?|?]|[? ?]]; tauto|]. intros [?|?]; [tauto|]. right. split; [congruence|assumption].
    + intros ND HD. apply IH2.
      * constructor; [|assumption]. intros F. apply (HD b F Hb).
      * intros y [<-|Hy]; rewrite elems_remove; [tauto|]. intros [_ F]. apply (HD y Hy F).
Qed.

Lemma c3_merge_spec seqs :
  match c3_merge seqs with
  | MOk l => (forall y, In y l <-> elems seqs y) /\ NoDup l
  | MBad => True
  | MFuel => False
  end.
Proof.
  unfold c3_merge.
  assert (HF : Forall (fun s => s <> []) (filter nonempty seqs)).
  { apply Forall_forall. intros s Hs. apply filter_In in Hs. apply nonempty_true. tauto. }
  pose proof (merge_loop_spec (S (total_len (filter nonempty seqs))) (filter nonempty seqs) [] HF (Nat.lt_succ_diag_r _)) as H.
  destruct (merge_loop _ _ _) as [l| |]; [|exact I|exact H].
  destruct H as [H1 H2]. split.
  - intros y. rewrite H1. cbn. split.
    + intros [[]|[s [Hs Hy]]]. apply filter_In in Hs. exists s. tauto.
    + intros [s [Hs Hy]]. right. exists s. split; [|assumption]. apply filter_In. split; [assumption|].
      apply nonempty_true. intros ->. destruct Hy.
  - apply H2; [constructor|]. intros y [].
Qed.

Lemma keep_last_In l y : In y (keep_last l) <-> In y l.
Proof.
  induction l as [|x l IH]; cbn; [tauto|]. destruct (mem x l) eqn:E.
  - rewrite IH. apply mem_In in E. split; [tauto|]. intros [->|H]; assumption.
  - cbn. rewrite IH. tauto.
Qed.

Lemma keep_last_NoDup l : NoDup (keep_last l).
Proof.
  induction l as [|x l IH]; cbn; [constructor|]. destruct (mem x l) eqn:E; [assumption|].
  constructor; [|assumption]. rewrite keep_last_In. apply mem_false. assumption.
Qed.

Lemma NoDup_snoc (a : list node) r : NoDup a -> ~ In r a -> NoDup (a ++ [r]).
Proof.
  induction a as [|x a IH]; cbn; intros ND N; [constructor; [tauto|constructor]|].
  inversion ND; subst. constructor.
  - rewrite in_app_iff. cbn. intros [F|[F|[]]]; [tauto|]. apply N. left. congruence.
  - apply IH; [assumption|]. tauto.
Qed.

Lemma last_is_In r l : last_is r l = true -> In r l.
Proof.
  unfold last_is. destruct (rev l) as [|y t] eqn:E; [discriminate|].
  intros H. apply Nat.eqb_eq in H. subst y. apply in_rev. rewrite E. left. reflexivity.
Qed.

Lemma root_last_In r l y : l <> [] -> (In y (root_last r l) <-> y = r \/ In y l).
Proof.
  intros NE. unfold root_last. destruct l as [|x t]; [congruence|].
  remember (x :: t) as l. destruct (last_is r l) eqn:E.
  - apply last_is_In in E. split; [tauto|]. intros [->|H]; assumption.
  - rewrite in_app_iff, filter_In. cbn. destruct (Nat.eq_dec y r) as [->|N]; [tauto|].
    split; [intuition congruence|]. intros [?|H]; [tauto|]. left. split; [assumption|].
    apply negb_true_iff, Nat.eqb_neq. assumption.
Qed.

Lemma root_last_NoDup r l : NoDup l -> NoDup (root_last r l).
Proof.
  intros ND. unfold root_last. destruct l as [|x t]; [constructor|].
  destruct (last_is r (x :: t)); [assumption|]. apply NoDup_snoc.
  - apply NoDup_filter. assumption.
  - rewrite filter_In. intros [_ F]. rewrite Nat.eqb_refl in F. discriminate.
Qed.

Lemma elems_c3 x ms bs y : elems ([[x]] ++ ms ++ [bs]) y <-> y = x \/ elems ms y \/ In y bs.
Proof.
  unfold elems. split.
  - intros [s [Hs Hy]]. cbn in Hs. destruct Hs as [<-|Hs].
    + destruct Hy as [<-|[]]. left. reflexivity.
    + apply in_app_iff in Hs. destruct Hs as [Hs|[<-|[]]].
      * right. left. exists s. split; assumption.
      * right. right. assumption.
  - intros [->|[[s [Hs Hy]]|H]].
    + exists [x]. split; left; reflexivity.
    + exists s. split; [|assumption]. cbn [app]. right. apply in_app_iff. left. exact Hs.
    + exists bs. split; [|assumption]. cbn [app]. right. apply in_app_iff. right. left. reflexivity.
Qed.

Section Graph.
  Variable gr : graph.
  Hypothesis wfb : forall x b, In b (bases gr x) -> b < x.

  Lemma reach_inv x y : reach gr x y <-> x = y \/ exists b, In b (bases gr x) /\ reach gr b y.
  Proof.
    split.
    - intros H. destruct H; [left; reflexivity|right; eauto].
    - intros [->|[b [Hb H]]]; [constructor|econstructor; eassumption].
  Qed.

  Lemma reach_trans x y z : reach gr x y -> reach gr y z -> reach gr x z.
  Proof. induction 1; [tauto|]. intros. econstructor; [eassumption|auto]. Qed.

  Lemma reach_le x y : reach gr x y -> y <= x.
  Proof. induction 1; [lia|]. apply wfb in H. lia. Qed.

  Lemma reach_root y : reach gr root y -> y = root.
  Proof. intros H. apply reach_le in H. unfold root in *. lia. Qed.

  Lemma legacy_flatten_In fuel : forall x y, x <= fuel ->
    (In y (legacy_flatten fuel gr x) <-> reach gr x y).
  Proof.
    induction fuel as [|f IH]; intros x y Hx.
    - assert (x = 0) by lia. subst. cbn. split.
      + intros [<-|[]]. constructor.
      + intros H. apply reach_le in H. lia.
    - cbn [legacy_flatten]. cbn [In]. rewrite in_flat_map, reach_inv. split.
      + intros [->|[b [Hb H]]]; [tauto|]. right. exists b. split; [assumption|].
        apply IH; [|assumption]. apply wfb in Hb. lia.
      + intros [->|[b [Hb H]]]; [tauto|]. right. exists b. split; [assumption|].
        apply IH; [|assumption]. apply wfb in Hb. lia.
  Qed.

  Lemma c3_node_cases x bs ms leg :
    (exists b m, bs = [b] /\ ms = [m] /\ c3_node false x bs ms false leg = ROk (x :: m) false) \/
    c3_node false x bs ms false leg =
      match c3_merge ([[x]] ++ ms ++ [bs]) with
      | MOk l => ROk l false
      | MBad => ROk leg true
      | MFuel => RFuel
      end.
  Proof.
    destruct bs as [|b [|b2 bs]]; destruct ms as [|m [|m2 ms]]; cbn; auto.
    left. exists b, m. auto.
  Qed.

  Lemma fresh_sro_spec fuel : forall x, x < fuel ->
    (forall y, In y (fresh_sro fuel root gr x) <-> y = root \/ reach gr x y) /\
    NoDup (fresh_sro fuel root gr x).
  Proof.
    induction fuel as [|f IH]; intros x Hx; [lia|].
    cbn [fresh_sro]. unfold calc_sro. destruct (Nat.eqb x root) eqn:Er.
    - apply Nat.eqb_eq in Er. subst x. split.
      + intros y. cbn [In]. split; [intros [<-|[]]; auto|].
        intros [->|H]; [auto|]. apply reach_root in H. auto.
      + constructor; [intros []|constructor].
    - apply Nat.eqb_neq in Er.
      assert (IHb : forall b, In b (bases gr x) ->
                 (forall y, In y (fresh_sro f root gr b) <-> y = root \/ reach gr b y) /\
                 NoDup (fresh_sro f root gr b)).
      { intros b Hb. apply IH. apply wfb in Hb. lia. }
      set (leg := legacy_ro (S f) gr x).
      destruct (c3_node_cases x (bases gr x) (map (fresh_sro f root gr) (bases gr x)) leg)
        as [[b [m [Eb [Em ->]]]] | ->].
      + rewrite Eb in Em. cbn in Em. injection Em as <-.
        assert (Hb : In b (bases gr x)) by (rewrite Eb; left; reflexivity).
        destruct (IHb b Hb) as [M ND]. split.
        * intros y. rewrite root_last_In by discriminate. cbn [In]. rewrite M, (reach_inv x y), Eb. cbn [In].
          split; [intros [?|[?|[?|?]]]; eauto 6|].
          intros [?|[?|[b' [[<-|[]] ?]]]]; tauto.
        * apply root_last_NoDup. constructor; [|assumption]. rewrite M. intros [F|F]; [congruence|].
          apply reach_le in F. apply wfb in Hb. lia.
      + pose proof (c3_merge_spec ([[x]] ++ map (fresh_sro f root gr) (bases gr x) ++ [bases gr x])) as HM.
        destruct (c3_merge _) as [l| |]; [| |destruct HM].
        * destruct HM as [M ND]. assert (NE : l <> []).
          { intros ->. apply (M x). apply elems_c3. left. reflexivity. }
          split; [|apply root_last_NoDup; assumption].
          intros y. rewrite root_last_In by assumption. rewrite M, elems_c3, (reach_inv x y). split.
          -- intros [?|[->|[[s [Hs Hy]]|Hy]]]; [tauto|tauto| |].
             ++ apply in_map_iff in Hs. destruct Hs as [b [<- Hb]]. apply (IHb b Hb) in Hy.
                destruct Hy; [tauto|]. right. right. eauto.
             ++ right. right. exists y. split; [assumption|constructor].
          -- intros [->|[->|[b [Hb H]]]]; [tauto|tauto|].
             right. right. left. exists (fresh_sro f root gr b). split.
             ++ apply in_map. assumption.
             ++ apply (IHb b Hb). tauto.
        * assert (ML : forall y, In y leg <-> reach gr x y).
          { intros y. unfold leg, legacy_ro. rewrite keep_last_In. apply legacy_flatten_In. lia. }
          assert (NE : leg <> []).
          { intros E. assert (In x leg) by (apply ML; constructor). rewrite E in H. destruct H. }
          split; [|apply root_last_NoDup, keep_last_NoDup].
          intros y. rewrite root_last_In by assumption. rewrite ML. tauto.
  Qed.
End Graph.
