(* C20 proofs.  Part A: lists (mem, dedupe).  Part B: C3 merge / legacy order / fresh_sro
   membership (= reachability) and NoDup.  Part C: interfaces / iteration / normalisation.
   Part D: contains / flattened.  Part E: sub / add.  Part F: instance declarations, store. *)
From Coq Require Import List Arith Bool Lia.
Import ListNotations.
From ZI Require Import Model.Ro Model.DeclAlg Spec.DeclAlg.

(* ------------------------------------------------------------------ Part A *)
Lemma mem_In x l : mem x l = true <-> In x l.
Proof.
  induction l as [|y l IH]; cbn; [split; [discriminate|tauto]|].
  rewrite orb_true_iff, Nat.eqb_eq, IH. split; intros [H|H]; auto.
Qed.

Lemma mem_false x l : mem x l = false <-> ~ In x l.
Proof. rewrite <- mem_In. destruct (mem x l); split; congruence. Qed.

Lemma mem_app x a b : mem x (a ++ b) = mem x a || mem x b.
Proof. induction a as [|y a IH]; cbn; [reflexivity|]. rewrite IH, orb_assoc. reflexivity. Qed.

Definition same_mem (s s' : list node) := forall x, mem x s = mem x s'.

Lemma dedupe_acc_ext l : forall s s', same_mem s s' -> dedupe_acc s l = dedupe_acc s' l.
Proof.
  induction l as [|x l IH]; intros s s' H; cbn; [reflexivity|].
  rewrite (H x). destruct (mem x s'); [apply IH; assumption|].
  f_equal. apply IH. intros y. cbn. rewrite (H y). reflexivity.
Qed.

Lemma dedupe_acc_In l : forall s y, In y (dedupe_acc s l) <-> In y l /\ ~ In y s.
Proof.
  induction l as [|x l IH]; intros s y; cbn; [tauto|].
  destruct (mem x s) eqn:E.
  - rewrite IH. apply mem_In in E. split; [tauto|]. intros [[->|H] N]; tauto.
  - apply mem_false in E. cbn. rewrite IH. cbn. split.
    + intros [->|[H N]]; [tauto|]. split; [tauto|]. intros F; apply N; auto.
    + intros [[->|H] N]; [tauto|]. destruct (Nat.eq_dec x y); [tauto|]. right. split; [assumption|].
      intros [F|F]; tauto.
Qed.

Lemma dedupe_acc_NoDup l : forall s, NoDup (dedupe_acc s l).
Proof.
  induction l as [|x l IH]; intros s; cbn; [constructor|].
  destruct (mem x s); [apply IH|]. constructor; [|apply IH].
  rewrite dedupe_acc_In. cbn. tauto.
Qed.

Lemma dedupe_acc_app a : forall s b s2, same_mem s2 (a ++ s) ->
  dedupe_acc s (a ++ b) = dedupe_acc s a ++ dedupe_acc s2 b.
Proof.
  induction a as [|x a IH]; intros s b s2 H; cbn.
  - apply dedupe_acc_ext. intros y. symmetry. apply H.
  - destruct (mem x s) eqn:E.
    + apply IH. intros y. rewrite (H y). cbn. rewrite !mem_app.
      destruct (Nat.eqb y x) eqn:Ey; cbn; [|reflexivity]. apply Nat.eqb_eq in Ey. subst y.
      rewrite E, orb_true_r. reflexivity.
    + cbn. f_equal. apply IH. intros y. rewrite (H y). cbn. rewrite !mem_app. cbn.
      destruct (Nat.eqb y x); cbn; [rewrite orb_true_r|]; reflexivity.
Qed.

Lemma dedupe_acc_idem a : forall s s', dedupe_acc s (dedupe_acc s' a) = dedupe_acc (s ++ s') a.
Proof.
  induction a as [|x a IH]; intros s s'; cbn; [reflexivity|].
  rewrite mem_app. destruct (mem x s') eqn:E'.
  - rewrite orb_true_r. apply IH.
  - rewrite orb_false_r. cbn. destruct (mem x s) eqn:E.
    + rewrite IH. apply dedupe_acc_ext. intros y. rewrite !mem_app. cbn.
      destruct (Nat.eqb y x) eqn:Ey; [|reflexivity]. apply Nat.eqb_eq in Ey. subst y.
      rewrite E. reflexivity.
    + f_equal. rewrite IH. apply dedupe_acc_ext. intros y. cbn. rewrite !mem_app. cbn.
      destruct (Nat.eqb y x); cbn; [rewrite orb_true_r|]; reflexivity.
Qed.

Lemma dedupe_acc_id l : forall s, NoDup l -> (forall x, In x l -> ~ In x s) -> dedupe_acc s l = l.
Proof.
  induction l as [|x l IH]; intros s ND H; cbn; [reflexivity|].
  inversion ND as [|? ? Hx ND']; subst.
  assert (E : mem x s = false) by (apply mem_false, H; left; reflexivity).
  rewrite E. f_equal. apply IH; [assumption|].
  intros y Hy [F|F]; [subst; tauto|]. apply (H y); [right; assumption|assumption].
Qed.

Lemma dedupe_acc_filter l : forall s, NoDup l ->
  dedupe_acc s l = filter (fun x => negb (mem x s)) l.
Proof.
  induction l as [|x l IH]; intros s ND; cbn; [reflexivity|].
  inversion ND as [|? ? Hx ND']; subst.
  destruct (mem x s) eqn:E; cbn; [apply IH; assumption|].
  f_equal. rewrite IH by assumption. apply filter_ext_in. intros y Hy. cbn.
  destruct (Nat.eqb y x) eqn:Ey; [|reflexivity]. apply Nat.eqb_eq in Ey. subst. tauto.
Qed.

(* dedupe-equivalence: the two lists are indistinguishable under any "seen" set *)
Definition deq (l l' : list node) := forall s, dedupe_acc s l = dedupe_acc s l'.

Lemma deq_refl l : deq l l. Proof. intros s. reflexivity. Qed.
Lemma deq_trans a b c : deq a b -> deq b c -> deq a c.
Proof. intros H1 H2 s. rewrite H1. apply H2. Qed.
Lemma deq_sym a b : deq a b -> deq b a.
Proof. intros H s. symmetry. apply H. Qed.

Lemma deq_mem a b : deq a b -> same_mem a b.
Proof.
  intros H x. specialize (H []).
  destruct (mem x a) eqn:Ea, (mem x b) eqn:Eb; try reflexivity.
  - apply mem_In in Ea. apply mem_false in Eb. exfalso. apply Eb.
    assert (In x (dedupe_acc [] b)) by (rewrite <- H; apply dedupe_acc_In; cbn; tauto).
    apply dedupe_acc_In in H0. tauto.
  - apply mem_In in Eb. apply mem_false in Ea. exfalso. apply Ea.
    assert (In x (dedupe_acc [] a)) by (rewrite H; apply dedupe_acc_In; cbn; tauto).
    apply dedupe_acc_In in H0. tauto.
Qed.

Lemma deq_app a a' b b' : deq a a' -> deq b b' -> deq (a ++ b) (a' ++ b').
Proof.
  intros Ha Hb s.
  rewrite (dedupe_acc_app a s b (a ++ s)) by (intros y; reflexivity).
  rewrite (dedupe_acc_app a' s b' (a ++ s)).
  - rewrite Ha, Hb. reflexivity.
  - intros y. rewrite !mem_app. rewrite (deq_mem _ _ Ha y). reflexivity.
Qed.

Lemma deq_dedupe a : deq (dedupe a) a.
Proof. intros s. unfold dedupe. rewrite dedupe_acc_idem, app_nil_r. reflexivity. Qed.

Lemma deq_flat_map {A} (f h : A -> list node) l :
  (forall x, In x l -> deq (f x) (h x)) -> deq (flat_map f l) (flat_map h l).
Proof.
  induction l as [|x l IH]; intros H; cbn; [apply deq_refl|].
  apply deq_app; [apply H; left; reflexivity|apply IH; intros; apply H; right; assumption].
Qed.

Lemma dedupe_In l y : In y (dedupe l) <-> In y l.
Proof. unfold dedupe. rewrite dedupe_acc_In. cbn. tauto. Qed.
Lemma dedupe_NoDup l : NoDup (dedupe l).
Proof. apply dedupe_acc_NoDup. Qed.
Lemma dedupe_id l : NoDup l -> dedupe l = l.
Proof. intros. apply dedupe_acc_id; [assumption|]. intros ? ? []. Qed.
