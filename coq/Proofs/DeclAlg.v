(* C20 proofs.  Part A: lists (mem, dedupe).  Part B: C3 merge / legacy order / fresh_sro
   membership (= reachability) and NoDup.  Part C: interfaces / iteration / normalisation.
   Part D: contains / flattened.  Part E: sub / add.  Part F: instance declarations, store. *)
From Coq Require Import List Arith Bool Lia.
Import ListNotations.
From ZI Require Import Model.Ro Model.DeclAlg Spec.DeclAlg.

(* ------------------------------------------------------------------ Part A *)
Lemma mem_In x l : mem x l = true <-> In x l.
Proof.
  induction l as [|y l IH]; cbn; [split; [discriminate|tauto]|].
  rewrite orb_true_iff, Nat.eqb_eq, IH. split; intros [H|H]; auto.
Qed.

Lemma mem_false x l : mem x l = false <-> ~ In x l.
Proof. rewrite <- mem_In. destruct (mem x l); split; congruence. Qed.

Lemma mem_app x a b : mem x (a ++ b) = mem x a || mem x b.
Proof. induction a as [|y a IH]; cbn; [reflexivity|]. rewrite IH, orb_assoc. reflexivity. Qed.

Definition same_mem (s s' : list node) := forall x, mem x s = mem x s'.

Lemma dedupe_acc_ext l : forall s s', same_mem s s' -> dedupe_acc s l = dedupe_acc s' l.
Proof.
  induction l as [|x l IH]; intros s s' H; cbn; [reflexivity|].
  rewrite (H x). destruct (mem x s'); [apply IH; assumption|].
  f_equal. apply IH. intros y. cbn. rewrite (H y). reflexivity.
Qed.

Lemma dedupe_acc_In l : forall s y, In y (dedupe_acc s l) <-> In y l /\ ~ In y s.
Proof.
  induction l as [|x l IH]; intros s y; cbn; [tauto|].
  destruct (mem x s) eqn:E.
  - rewrite IH. apply mem_In in E. split; [tauto|]. intros [[->|H] N]; tauto.
  - apply mem_false in E. cbn. rewrite IH. cbn. split.
    + intros [->|[H N]]; [tauto|]. split; [tauto|]. intros F; apply N; auto.
    + intros [[->|H] N]; [tauto|]. destruct (Nat.eq_dec x y); [tauto|]. right. split; [assumption|].
      intros [F|F]; tauto.
Qed.

Lemma dedupe_acc_NoDup l : forall s, NoDup (dedupe_acc s l).
Proof.
  induction l as [|x l IH]; intros s; cbn; [constructor|].
  destruct (mem x s); [apply IH|]. constructor; [|apply IH].
  rewrite dedupe_acc_In. cbn. tauto.
Qed.

Lemma dedupe_acc_app a : forall s b s2, same_mem s2 (a ++ s) ->
  dedupe_acc s (a ++ b) = dedupe_acc s a ++ dedupe_acc s2 b.
Proof.
  induction a as [|x a IH]; intros s b s2 H; cbn.
  - apply dedupe_acc_ext. intros y. symmetry. apply H.
  - destruct (mem x s) eqn:E.
    + apply IH. intros y. rewrite (H y). cbn. rewrite !mem_app.
      destruct (Nat.eqb y x) eqn:Ey; cbn; [|reflexivity]. apply Nat.eqb_eq in Ey. subst y.
      rewrite E, orb_true_r. reflexivity.
    + cbn. f_equal. apply IH. intros y. rewrite (H y). cbn. rewrite !mem_app. cbn.
      destruct (Nat.eqb y x); cbn; [rewrite orb_true_r|]; reflexivity.
Qed.

Lemma dedupe_acc_idem a : forall s s', dedupe_acc s (dedupe_acc s' a) = dedupe_acc (s ++ s') a.
Proof.
  induction a as [|x a IH]; intros s s'; cbn; [reflexivity|].
  rewrite mem_app. destruct (mem x s') eqn:E'.
  - rewrite orb_true_r. apply IH.
  - rewrite orb_false_r. cbn. destruct (mem x s) eqn:E.
    + rewrite IH. apply dedupe_acc_ext. intros y. rewrite !mem_app. cbn.
      destruct (Nat.eqb y x) eqn:Ey; [|reflexivity]. apply Nat.eqb_eq in Ey. subst y.
      rewrite E. reflexivity.
    + f_equal. rewrite IH. apply dedupe_acc_ext. intros y. cbn. rewrite !mem_app. cbn.
      destruct (Nat.eqb y x); cbn; reflexivity.
Qed.

Lemma dedupe_acc_id l : forall s, NoDup l -> (forall x, In x l -> ~ In x s) -> dedupe_acc s l = l.
Proof.
  induction l as [|x l IH]; intros s ND H; cbn; [reflexivity|].
  inversion ND as [|? ? Hx ND']; subst.
  assert (E : mem x s = false) by (apply mem_false, H; left; reflexivity).
  rewrite E. f_equal. apply IH; [assumption|].
  intros y Hy [F|F]; [subst; tauto|]. apply (H y); [right; assumption|assumption].
Qed.

Lemma dedupe_acc_filter l : forall s, NoDup l ->
  dedupe_acc s l = filter (fun x => negb (mem x s)) l.
Proof.
  induction l as [|x l IH]; intros s ND; cbn; [reflexivity|].
  inversion ND as [|? ? Hx ND']; subst.
  destruct (mem x s) eqn:E; cbn; [apply IH; assumption|].
  f_equal. rewrite IH by assumption. apply filter_ext_in. intros y Hy. cbn.
  destruct (Nat.eqb y x) eqn:Ey; [|reflexivity]. apply Nat.eqb_eq in Ey. subst. tauto.
Qed.

(* dedupe-equivalence: the two lists are indistinguishable under any "seen" set *)
Definition deq (l l' : list node) := forall s, dedupe_acc s l = dedupe_acc s l'.

Lemma deq_refl l : deq l l. Proof. intros s. reflexivity. Qed.
Lemma deq_trans a b c : deq a b -> deq b c -> deq a c.
Proof. intros H1 H2 s. rewrite H1. apply H2. Qed.
Lemma deq_sym a b : deq a b -> deq b a.
Proof. intros H s. symmetry. apply H. Qed.

Lemma deq_mem a b : deq a b -> same_mem a b.
Proof.
  intros H x. specialize (H []).
  destruct (mem x a) eqn:Ea, (mem x b) eqn:Eb; try reflexivity.
  - apply mem_In in Ea. apply mem_false in Eb. exfalso. apply Eb.
    assert (In x (dedupe_acc [] b)) by (rewrite <- H; apply dedupe_acc_In; cbn; tauto).
    apply dedupe_acc_In in H0. tauto.
  - apply mem_In in Eb. apply mem_false in Ea. exfalso. apply Ea.
    assert (In x (dedupe_acc [] a)) by (rewrite H; apply dedupe_acc_In; cbn; tauto).
    apply dedupe_acc_In in H0. tauto.
Qed.

Lemma deq_app a a' b b' : deq a a' -> deq b b' -> deq (a ++ b) (a' ++ b').
Proof.
  intros Ha Hb s.
  rewrite (dedupe_acc_app a s b (a ++ s)) by (intros y; reflexivity).
  rewrite (dedupe_acc_app a' s b' (a ++ s)).
  - rewrite Ha, Hb. reflexivity.
  - intros y. rewrite !mem_app. rewrite (deq_mem _ _ Ha y). reflexivity.
Qed.

Lemma deq_dedupe a : deq (dedupe a) a.
Proof. intros s. unfold dedupe. rewrite dedupe_acc_idem, app_nil_r. reflexivity. Qed.

Lemma deq_flat_map {A} (f h : A -> list node) l :
  (forall x, In x l -> deq (f x) (h x)) -> deq (flat_map f l) (flat_map h l).
Proof.
  induction l as [|x l IH]; intros H; cbn; [apply deq_refl|].
  apply deq_app; [apply H; left; reflexivity|apply IH; intros; apply H; right; assumption].
Qed.

Lemma dedupe_In l y : In y (dedupe l) <-> In y l.
Proof. unfold dedupe. rewrite dedupe_acc_In. cbn. tauto. Qed.
Lemma dedupe_NoDup l : NoDup (dedupe l).
Proof. apply dedupe_acc_NoDup. Qed.
Lemma dedupe_id l : NoDup l -> dedupe l = l.
Proof. intros. apply dedupe_acc_id; [assumption|]. intros ? ? []. Qed.

(* ------------------------------------------------------------------ Part B *)
Definition elems (seqs : list (list node)) (y : node) : Prop := exists s, In s seqs /\ In y s.

Lemma filter_neq_len b (s : list node) :
  length (filter (fun y => negb (Nat.eqb y b)) s) <= length s.
Proof. induction s as [|x s IH]; cbn; [lia|]. destruct (negb (Nat.eqb x b)); cbn; lia. Qed.

Lemma filter_neq_len_lt b (s : list node) : In b s ->
  length (filter (fun y => negb (Nat.eqb y b)) s) < length s.
Proof.
  induction s as [|x s IH]; cbn; [tauto|]. intros [->|H].
  - rewrite Nat.eqb_refl. cbn. pose proof (filter_neq_len b s). lia.
  - specialize (IH H). destruct (negb (Nat.eqb x b)); cbn; lia.
Qed.

Lemma total_len_cons s l : total_len (s :: l) = length s + total_len l.
Proof. reflexivity. Qed.

Lemma total_len_nonempty l : total_len (filter nonempty l) = total_len l.
Proof.
  induction l as [|s l IH]; [reflexivity|]. cbn [filter]. destruct s; cbn [nonempty].
  - rewrite total_len_cons. cbn. assumption.
  - rewrite !total_len_cons. lia.
Qed.

Lemma total_len_remove b seqs : total_len (remove_everywhere b seqs) <= total_len seqs.
Proof.
  unfold remove_everywhere. rewrite total_len_nonempty.
  induction seqs as [|s l IH]; [cbn; lia|]. cbn [map]. rewrite !total_len_cons.
  pose proof (filter_neq_len b s). unfold node in *; lia.
Qed.

Lemma total_len_remove_lt b seqs : elems seqs b -> total_len (remove_everywhere b seqs) < total_len seqs.
Proof.
  unfold remove_everywhere. rewrite total_len_nonempty. intros [s [Hs Hb]].
  induction seqs as [|s' l IH]; [destruct Hs|]. cbn [map]. rewrite !total_len_cons. destruct Hs as [->|Hs].
  - pose proof (filter_neq_len_lt b s Hb).
    pose proof (total_len_remove b l) as H1. unfold remove_everywhere in H1. rewrite total_len_nonempty in H1.
    unfold node in *; lia.
  - specialize (IH Hs). pose proof (filter_neq_len b s'). unfold node in *; lia.
Qed.

Lemma nonempty_true (s : list node) : nonempty s = true <-> s <> [].
Proof. destruct s; cbn; split; congruence. Qed.

Lemma elems_remove b seqs y : elems (remove_everywhere b seqs) y <-> y <> b /\ elems seqs y.
Proof.
  unfold remove_everywhere, elems. split.
  - intros [s' [Hs' Hy]]. apply filter_In in Hs'. destruct Hs' as [Hs' _].
    apply in_map_iff in Hs'. destruct Hs' as [s [<- Hs]]. apply filter_In in Hy. destruct Hy as [Hy Hn].
    split; [|exists s; tauto]. intros ->. rewrite Nat.eqb_refl in Hn. discriminate.
  - intros [Hn [s [Hs Hy]]]. exists (filter (fun b0 => negb (Nat.eqb b0 b)) s).
    assert (In y (filter (fun b0 => negb (Nat.eqb b0 b)) s)).
    { apply filter_In. split; [assumption|]. apply negb_true_iff, Nat.eqb_neq. assumption. }
    split; [|assumption]. apply filter_In. split; [apply in_map; assumption|].
    apply nonempty_true. intros E. rewrite E in H. destruct H.
Qed.

Lemma find_from_head all l b : find_from l all = Some b -> elems l b.
Proof.
  induction l as [|s l IH]; [discriminate|]. cbn [find_from]. destruct s as [|h t].
  - intros H. destruct (IH H) as [s [Hs Hb]]. exists s. split; [right|]; assumption.
  - destruct (can_choose h all).
    + intros [= ->]. exists (b :: t). split; left; reflexivity.
    + intros H. destruct (IH H) as [s [Hs Hb]]. exists s. split; [right|]; assumption.
Qed.

Lemma find_next_head seqs b : find_next seqs = Some b -> elems seqs b.
Proof. unfold find_next. apply find_from_head. Qed.

Lemma merge_loop_spec fuel : forall seqs acc,
  Forall (fun s => s <> []) seqs -> total_len seqs < fuel ->
  match merge_loop fuel seqs acc with
  | MOk l => (forall y, In y l <-> In y acc \/ elems seqs y) /\
             (NoDup acc -> (forall y, In y acc -> ~ elems seqs y) -> NoDup l)
  | MBad => True
  | MFuel => False
  end.
Proof.
  induction fuel as [|f IH]; intros seqs acc HF HL; [lia|].
  cbn [merge_loop]. destruct seqs as [|s0 rest].
  - split.
    + intros y. rewrite <- in_rev. split; [tauto|]. intros [H|[s [[] _]]]. assumption.
    + intros ND _. apply NoDup_rev. assumption.
  - remember (s0 :: rest) as seqs. destruct (find_next seqs) as [b|] eqn:EF; [|exact I].
    pose proof (find_next_head _ _ EF) as Hb.
    assert (HF' : Forall (fun s => s <> []) (remove_everywhere b seqs)).
    { apply Forall_forall. intros s Hs. unfold remove_everywhere in Hs. apply filter_In in Hs.
      apply nonempty_true. tauto. }
    assert (HL' : total_len (remove_everywhere b seqs) < f).
    { pose proof (total_len_remove_lt b seqs Hb). lia. }
    specialize (IH (remove_everywhere b seqs) (b :: acc) HF' HL').
    destruct (merge_loop f (remove_everywhere b seqs) (b :: acc)) as [l| |]; [|exact I|exact IH].
    destruct IH as [IH1 IH2]. split.
    + intros y. rewrite IH1, elems_remove. cbn. destruct (Nat.eq_dec b y) as [->|N]; [tauto|].
      split; [intros [[?|?]|[? ?]]; tauto|]. intros [?|?]; [tauto|]. right. split; [congruence|assumption].
    + intros ND HD. apply IH2.
      * constructor; [|assumption]. intros F. apply (HD b F Hb).
      * intros y [<-|Hy]; rewrite elems_remove; [tauto|]. intros [_ F]. apply (HD y Hy F).
Qed.

Lemma c3_merge_spec seqs :
  match c3_merge seqs with
  | MOk l => (forall y, In y l <-> elems seqs y) /\ NoDup l
  | MBad => True
  | MFuel => False
  end.
Proof.
  unfold c3_merge.
  assert (HF : Forall (fun s => s <> []) (filter nonempty seqs)).
  { apply Forall_forall. intros s Hs. apply filter_In in Hs. apply nonempty_true. tauto. }
  pose proof (merge_loop_spec (S (total_len (filter nonempty seqs))) (filter nonempty seqs) [] HF (Nat.lt_succ_diag_r _)) as H.
  destruct (merge_loop _ _ _) as [l| |]; [|exact I|exact H].
  destruct H as [H1 H2]. split.
  - intros y. rewrite H1. cbn. split.
    + intros [[]|[s [Hs Hy]]]. apply filter_In in Hs. exists s. tauto.
    + intros [s [Hs Hy]]. right. exists s. split; [|assumption]. apply filter_In. split; [assumption|].
      apply nonempty_true. intros ->. destruct Hy.
  - apply H2; [constructor|]. intros y [].
Qed.

Lemma keep_last_In l y : In y (keep_last l) <-> In y l.
Proof.
  induction l as [|x l IH]; cbn; [tauto|]. destruct (mem x l) eqn:E.
  - rewrite IH. apply mem_In in E. split; [tauto|]. intros [->|H]; assumption.
  - cbn. rewrite IH. tauto.
Qed.

Lemma keep_last_NoDup l : NoDup (keep_last l).
Proof.
  induction l as [|x l IH]; cbn; [constructor|]. destruct (mem x l) eqn:E; [assumption|].
  constructor; [|assumption]. rewrite keep_last_In. apply mem_false. assumption.
Qed.

Lemma NoDup_snoc (a : list node) r : NoDup a -> ~ In r a -> NoDup (a ++ [r]).
Proof.
  induction a as [|x a IH]; cbn; intros ND N; [constructor; [tauto|constructor]|].
  inversion ND; subst. constructor.
  - rewrite in_app_iff. cbn. intros [F|[F|[]]]; [tauto|]. apply N. left. congruence.
  - apply IH; [assumption|]. tauto.
Qed.

Lemma last_is_In r l : last_is r l = true -> In r l.
Proof.
  unfold last_is. destruct (rev l) as [|y t] eqn:E; [discriminate|].
  intros H. apply Nat.eqb_eq in H. subst y. apply in_rev. rewrite E. left. reflexivity.
Qed.

Lemma root_last_In r l y : l <> [] -> (In y (root_last r l) <-> y = r \/ In y l).
Proof.
  intros NE. unfold root_last. destruct l as [|x t]; [congruence|].
  remember (x :: t) as l. destruct (last_is r l) eqn:E.
  - apply last_is_In in E. split; [tauto|]. intros [->|H]; assumption.
  - rewrite in_app_iff, filter_In. cbn. destruct (Nat.eq_dec y r) as [->|N]; [tauto|].
    split; [intuition congruence|]. intros [?|H]; [tauto|]. left. split; [assumption|].
    apply negb_true_iff, Nat.eqb_neq. assumption.
Qed.

Lemma root_last_NoDup r l : NoDup l -> NoDup (root_last r l).
Proof.
  intros ND. unfold root_last. destruct l as [|x t]; [constructor|].
  destruct (last_is r (x :: t)); [assumption|]. apply NoDup_snoc.
  - apply NoDup_filter. assumption.
  - rewrite filter_In. intros [_ F]. rewrite Nat.eqb_refl in F. discriminate.
Qed.

Lemma elems_c3 x ms bs y : elems ([[x]] ++ ms ++ [bs]) y <-> y = x \/ elems ms y \/ In y bs.
Proof.
  unfold elems. split.
  - intros [s [Hs Hy]]. cbn in Hs. destruct Hs as [<-|Hs].
    + destruct Hy as [<-|[]]. left. reflexivity.
    + apply in_app_iff in Hs. destruct Hs as [Hs|[<-|[]]].
      * right. left. exists s. split; assumption.
      * right. right. assumption.
  - intros [->|[[s [Hs Hy]]|H]].
    + exists [x]. split; left; reflexivity.
    + exists s. split; [|assumption]. cbn [app]. right. apply in_app_iff. left. exact Hs.
    + exists bs. split; [|assumption]. cbn [app]. right. apply in_app_iff. right. left. reflexivity.
Qed.

Section Graph.
  Variable gr : graph.
  Hypothesis wfb : forall x b, In b (bases gr x) -> b < x.

  Lemma reach_inv x y : reach gr x y <-> x = y \/ exists b, In b (bases gr x) /\ reach gr b y.
  Proof.
    split.
    - intros H. destruct H; [left; reflexivity|right; eauto].
    - intros [->|[b [Hb H]]]; [constructor|econstructor; eassumption].
  Qed.

  Lemma reach_trans x y z : reach gr x y -> reach gr y z -> reach gr x z.
  Proof. induction 1; [tauto|]. intros. econstructor; [eassumption|auto]. Qed.

  Lemma reach_le x y : reach gr x y -> y <= x.
  Proof. induction 1; [lia|]. apply wfb in H. lia. Qed.

  Lemma reach_root y : reach gr root y -> y = root.
  Proof. intros H. apply reach_le in H. unfold root in *. lia. Qed.

  Lemma legacy_flatten_In fuel : forall x y, x <= fuel ->
    (In y (legacy_flatten fuel gr x) <-> reach gr x y).
  Proof.
    induction fuel as [|f IH]; intros x y Hx.
    - assert (x = 0) by lia. subst. cbn. split.
      + intros [<-|[]]. constructor.
      + intros H. apply reach_le in H. lia.
    - cbn [legacy_flatten]. cbn [In]. rewrite in_flat_map, reach_inv. split.
      + intros [->|[b [Hb H]]]; [tauto|]. right. exists b. split; [assumption|].
        apply IH; [|assumption]. apply wfb in Hb. lia.
      + intros [->|[b [Hb H]]]; [tauto|]. right. exists b. split; [assumption|].
        apply IH; [|assumption]. apply wfb in Hb. lia.
  Qed.

  Lemma c3_node_cases x bs ms leg :
    (exists b m, bs = [b] /\ ms = [m] /\ c3_node false x bs ms false leg = ROk (x :: m) false) \/
    c3_node false x bs ms false leg =
      match c3_merge ([[x]] ++ ms ++ [bs]) with
      | MOk l => ROk l false
      | MBad => ROk leg true
      | MFuel => RFuel
      end.
  Proof.
    destruct bs as [|b [|b2 bs]]; destruct ms as [|m [|m2 ms]]; cbn; auto.
    left. exists b, m. auto.
  Qed.

  Lemma fresh_sro_spec fuel : forall x, x < fuel ->
    (forall y, In y (fresh_sro fuel root gr x) <-> y = root \/ reach gr x y) /\
    NoDup (fresh_sro fuel root gr x).
  Proof.
    induction fuel as [|f IH]; intros x Hx; [lia|].
    cbn [fresh_sro]. unfold calc_sro. destruct (Nat.eqb x root) eqn:Er.
    - apply Nat.eqb_eq in Er. subst x. split.
      + intros y. cbn [In]. split; [intros [<-|[]]; auto|].
        intros [->|H]; [auto|]. apply reach_root in H. auto.
      + constructor; [intros []|constructor].
    - apply Nat.eqb_neq in Er.
      assert (IHb : forall b, In b (bases gr x) ->
                 (forall y, In y (fresh_sro f root gr b) <-> y = root \/ reach gr b y) /\
                 NoDup (fresh_sro f root gr b)).
      { intros b Hb. apply IH. apply wfb in Hb. lia. }
      set (leg := legacy_ro (S f) gr x).
      destruct (c3_node_cases x (bases gr x) (map (fresh_sro f root gr) (bases gr x)) leg)
        as [[b [m [Eb [Em ->]]]] | ->].
      + rewrite Eb in Em. cbn in Em. injection Em as <-.
        assert (Hb : In b (bases gr x)) by (rewrite Eb; left; reflexivity).
        destruct (IHb b Hb) as [M ND]. split.
        * intros y. rewrite root_last_In by discriminate. cbn [In]. rewrite M, (reach_inv x y), Eb. cbn [In].
          split; [intros [?|[?|[?|?]]]; eauto 6|].
          intros [?|[?|[b' [[<-|[]] ?]]]]; tauto.
        * apply root_last_NoDup. constructor; [|assumption]. rewrite M. intros [F|F]; [congruence|].
          apply reach_le in F. apply wfb in Hb. lia.
      + pose proof (c3_merge_spec ([[x]] ++ map (fresh_sro f root gr) (bases gr x) ++ [bases gr x])) as HM.
        destruct (c3_merge _) as [l| |]; [| |destruct HM].
        * destruct HM as [M ND]. assert (NE : l <> []).
          { intros ->. apply (M x). apply elems_c3. left. reflexivity. }
          split; [|apply root_last_NoDup; assumption].
          intros y. rewrite root_last_In by assumption. rewrite M, elems_c3, (reach_inv x y). split.
          -- intros [?|[->|[[s [Hs Hy]]|Hy]]]; [tauto|tauto| |].
             ++ apply in_map_iff in Hs. destruct Hs as [b [<- Hb]]. apply (IHb b Hb) in Hy.
                destruct Hy; [tauto|]. right. right. eauto.
             ++ right. right. exists y. split; [assumption|constructor].
          -- intros [->|[->|[b [Hb H]]]]; [tauto|tauto|].
             right. right. left. exists (fresh_sro f root gr b). split.
             ++ apply in_map. assumption.
             ++ apply (IHb b Hb). tauto.
        * assert (ML : forall y, In y leg <-> reach gr x y).
          { intros y. unfold leg, legacy_ro. rewrite keep_last_In. apply legacy_flatten_In. lia. }
          assert (NE : leg <> []).
          { intros E. assert (In x leg) by (apply ML; constructor). rewrite E in H. destruct H. }
          split; [|apply root_last_NoDup, keep_last_NoDup].
          intros y. rewrite root_last_In by assumption. rewrite ML. tauto.
  Qed.
End Graph.

(* ------------------------------------------------------------------ Part C *)
Lemma flat_map_flat_map {A B C} (f : B -> list C) (h : A -> list B) l :
  flat_map f (flat_map h l) = flat_map (fun x => flat_map f (h x)) l.
Proof. induction l as [|x l IH]; cbn; [reflexivity|]. rewrite flat_map_app, IH. reflexivity. Qed.

Lemma tree_ind2 (P : tree -> Prop) :
  (forall x, P (Leaf x)) -> (forall ts, Forall P ts -> P (Seq ts)) -> (forall d, P (OfDecl d)) ->
  forall t, P t.
Proof.
  intros HL HS HD. fix IH 1. intros [x|ts|d]; [apply HL| |apply HD].
  apply HS. induction ts as [|t ts IHts]; constructor; [apply IH|apply IHts].
Qed.

Lemma list_max_ge l x : In x l -> x <= list_max l.
Proof.
  induction l as [|y l IH]; [intros []|]. change (list_max (y :: l)) with (Nat.max y (list_max l)).
  intros [->|H]; [lia|]. specialize (IH H). lia.
Qed.

Lemma NoDup_app2 (a b : list node) :
  NoDup a -> NoDup b -> (forall x, In x a -> ~ In x b) -> NoDup (a ++ b).
Proof.
  induction a as [|x a IH]; cbn; intros Ha Hb H; [assumption|].
  inversion Ha; subst. constructor.
  - rewrite in_app_iff. intros [F|F]; [tauto|]. apply (H x); auto.
  - apply IH; auto.
Qed.

Section World.
  Variable g : graph.
  Variable ifs : list node.

  Lemma interfaces_f_deq fuel : forall x, deq (interfaces_f g ifs fuel x) (leaves_f g ifs fuel x).
  Proof.
    induction fuel as [|f IH]; intros x; cbn [interfaces_f leaves_f];
      destruct (is_iface ifs x); try apply deq_refl.
    eapply deq_trans; [apply deq_dedupe|]. apply deq_flat_map. intros; apply IH.
  Qed.

  Lemma interfaces_deq x : deq (interfaces g ifs x) (leaves g ifs x).
  Proof. apply interfaces_f_deq. Qed.

  Lemma interfaces_f_iface fuel : forall x i, In i (interfaces_f g ifs fuel x) -> is_iface ifs i = true.
  Proof.
    induction fuel as [|f IH]; intros x i; cbn [interfaces_f]; destruct (is_iface ifs x) eqn:E.
    - intros [<-|[]]. assumption.
    - intros [].
    - intros [<-|[]]. assumption.
    - rewrite dedupe_In, in_flat_map. intros [b [_ H]]. eapply IH. eassumption.
  Qed.

  Lemma interfaces_of_iface x : is_iface ifs x = true -> interfaces g ifs x = [x].
  Proof. intros H. unfold interfaces. cbn [interfaces_f]. rewrite H. reflexivity. Qed.

  Lemma decl_interfaces_iface d i : In i (decl_interfaces g ifs d) -> is_iface ifs i = true.
  Proof.
    unfold decl_interfaces. rewrite dedupe_In, in_flat_map. intros [b [_ H]].
    eapply interfaces_f_iface. exact H.
  Qed.

  Lemma decl_interfaces_NoDup d : NoDup (decl_interfaces g ifs d).
  Proof. apply dedupe_NoDup. Qed.

  Lemma flat_map_interfaces_id l :
    (forall i, In i l -> is_iface ifs i = true) -> flat_map (interfaces g ifs) l = l.
  Proof.
    induction l as [|x l IH]; intros H; cbn [flat_map]; [reflexivity|].
    rewrite interfaces_of_iface by (apply H; left; reflexivity). cbn [app]. f_equal. apply IH.
    intros; apply H; right; assumption.
  Qed.

  (* a declaration whose bases are distinct interfaces iterates as its bases *)
  Lemma iter_of_ifaces l : NoDup l -> (forall i, In i l -> is_iface ifs i = true) -> iter g ifs l = l.
  Proof.
    intros ND H. unfold iter, decl_interfaces. rewrite flat_map_interfaces_id by assumption.
    apply dedupe_id. assumption.
  Qed.

  Lemma normalize_deq t :
    deq (flat_map (interfaces g ifs) (normalize g ifs t)) (tree_leaves g ifs t).
  Proof.
    induction t as [x|ts IH|d] using tree_ind2.
    - cbn. rewrite app_nil_r. apply interfaces_deq.
    - cbn [normalize tree_leaves]. rewrite flat_map_flat_map. apply deq_flat_map.
      intros t Ht. rewrite Forall_forall in IH. apply IH. assumption.
    - cbn [normalize tree_leaves]. rewrite flat_map_interfaces_id by apply decl_interfaces_iface.
      unfold decl_interfaces. eapply deq_trans; [apply deq_dedupe|].
      apply deq_flat_map. intros; apply interfaces_deq.
  Qed.

  Lemma iter_exact_lemma args :
    iter g ifs (mk_decl g ifs args) = dedupe (flat_map (tree_leaves g ifs) args) /\
    NoDup (iter g ifs (mk_decl g ifs args)) /\
    (forall i, In i (iter g ifs (mk_decl g ifs args)) -> is_iface ifs i = true).
  Proof.
    split; [|split; [apply decl_interfaces_NoDup|apply decl_interfaces_iface]].
    unfold iter, decl_interfaces, mk_decl. rewrite flat_map_flat_map.
    apply (deq_flat_map _ _ args (fun t _ => normalize_deq t) []).
  Qed.

  (* ---------------- with well-formedness *)
  Hypothesis WF : wf g ifs = true.

  Lemma wf_bases : forall x b, In b (bases g x) -> b < x.
  Proof.
    unfold wf in WF. apply andb_true_iff in WF. destruct WF as [W _]. clear WF.
    induction g as [|[y bs] g' IH]; intros x b; cbn; [tauto|].
    cbn in W. apply andb_true_iff in W. destruct W as [W1 W2].
    destruct (Nat.eqb x y) eqn:E.
    - apply Nat.eqb_eq in E. subst y. intros H. rewrite forallb_forall in W1.
      apply Nat.ltb_lt. apply W1. assumption.
    - apply IH. assumption.
  Qed.

  Lemma wf_ifs i : is_iface ifs i = true -> In i (map fst g).
  Proof.
    unfold wf in WF. apply andb_true_iff in WF. destruct WF as [_ W].
    rewrite forallb_forall in W. intros H. apply mem_In in H. apply mem_In. apply W. assumption.
  Qed.

  Lemma interfaces_f_In fuel : forall x i, x < fuel ->
    (In i (interfaces_f g ifs fuel x) <-> first_iface g ifs x i).
  Proof.
    induction fuel as [|f IH]; intros x i Hx; [lia|].
    cbn [interfaces_f]. destruct (is_iface ifs x) eqn:E.
    - split.
      + intros [<-|[]]. constructor. assumption.
      + intros H. inversion H; subst; [left; reflexivity|congruence].
    - rewrite dedupe_In, in_flat_map. split.
      + intros [b [Hb H]]. econstructor; [assumption|eassumption|].
        apply IH; [|assumption]. apply wf_bases in Hb. lia.
      + intros H. inversion H; subst; [congruence|]. exists b. split; [assumption|].
        apply IH; [|assumption]. apply wf_bases in H1. lia.
  Qed.

  Lemma decl_interfaces_In d i :
    In i (decl_interfaces g ifs d) <-> exists b, In b d /\ first_iface g ifs b i.
  Proof.
    unfold decl_interfaces. rewrite dedupe_In, in_flat_map. split; intros [b [Hb H]]; exists b; split; auto.
    - apply (interfaces_f_In (S b)); [lia|assumption].
    - apply (interfaces_f_In (S b)); [lia|assumption].
  Qed.

  Lemma first_iface_reach x i : first_iface g ifs x i -> reach g x i /\ is_iface ifs i = true.
  Proof.
    induction 1 as [x H|x b i E Hb H [IH1 IH2]]; [split; [constructor|assumption]|].
    split; [econstructor; eassumption|assumption].
  Qed.

  Lemma reach_first_iface x y : reach g x y -> is_iface ifs y = true ->
    exists i, first_iface g ifs x i /\ reach g i y.
  Proof.
    induction 1 as [x|x b y Hb H IH]; intros Hy.
    - exists x. split; constructor. assumption.
    - destruct (is_iface ifs x) eqn:E.
      + exists x. split; [constructor; assumption|econstructor; eassumption].
      + destruct (IH Hy) as [i [Hi Hr]]. exists i. split; [econstructor; eassumption|assumption].
  Qed.

  (* ---------------- Part D: the declaration as a new node on top of the graph *)
  Section Decl.
    Variable d : decl.
    Let n := fresh_id g d.
    Let G : graph := (n, d) :: g.

    Lemma fresh_gt_keys x : In x (map fst g) -> x < n.
    Proof. intros H. apply list_max_ge in H. unfold n, fresh_id. lia. Qed.

    Lemma fresh_gt_d b : In b d -> b < n.
    Proof. intros H. apply list_max_ge in H. unfold n, fresh_id. lia. Qed.

    Lemma bases_G x : bases G x = if Nat.eqb x n then d else bases g x.
    Proof. reflexivity. Qed.

    Lemma bases_nonkey x : In x (map fst g) \/ bases g x = [].
    Proof.
      clear WF. induction g as [|[y bs] g' IH]; cbn; [tauto|].
      destruct (Nat.eqb x y) eqn:E; [apply Nat.eqb_eq in E; auto|]. destruct IH; auto.
    Qed.

    Lemma wfb_G : forall x b, In b (bases G x) -> b < x.
    Proof.
      intros x b. rewrite bases_G. destruct (Nat.eqb x n) eqn:E.
      - apply Nat.eqb_eq in E. subst x. apply fresh_gt_d.
      - apply wf_bases.
    Qed.

    Lemma reach_G_g x y : x < n -> (reach G x y <-> reach g x y).
    Proof.
      intros Hx. split.
      - intros H. induction H as [x|x b y Hb H IH]; [constructor|].
        rewrite bases_G in Hb. destruct (Nat.eqb x n) eqn:E; [apply Nat.eqb_eq in E; lia|].
        econstructor; [eassumption|]. apply IH. apply wf_bases in Hb. lia.
      - intros H. induction H as [x|x b y Hb H IH]; [constructor|].
        apply reach_step with b.
        + rewrite bases_G. destruct (Nat.eqb x n) eqn:E; [apply Nat.eqb_eq in E; lia|assumption].
        + apply IH. apply wf_bases in Hb. lia.
    Qed.

    Lemma reach_decl y : reach G n y <-> y = n \/ exists b, In b d /\ reach g b y.
    Proof.
      rewrite reach_inv, bases_G, Nat.eqb_refl. split.
      - intros [<-|[b [Hb H]]]; [tauto|]. right. exists b. split; [assumption|].
        apply reach_G_g; [apply fresh_gt_d|]; assumption.
      - intros [->|[b [Hb H]]]; [tauto|]. right. exists b. split; [assumption|].
        apply reach_G_g; [apply fresh_gt_d|]; assumption.
    Qed.

    Lemma decl_sro_In y :
      In y (decl_sro g d) <-> y = root \/ y = n \/ exists b, In b d /\ reach g b y.
    Proof.
      unfold decl_sro. fold n. fold G.
      destruct (fresh_sro_spec G wfb_G (S n) n (Nat.lt_succ_diag_r n)) as [M _].
      rewrite M, reach_decl. tauto.
    Qed.

    Lemma decl_sro_NoDup : NoDup (decl_sro g d).
    Proof.
      unfold decl_sro. fold n. fold G.
      apply (fresh_sro_spec G wfb_G (S n) n (Nat.lt_succ_diag_r n)).
    Qed.

    Lemma fresh_not_iface : is_iface ifs n = false.
    Proof.
      destruct (is_iface ifs n) eqn:E; [|reflexivity].
      apply wf_ifs, fresh_gt_keys in E. lia.
    Qed.

    Lemma contains_iff_lemma x : contains g ifs d x = true <-> In x (iter g ifs d).
    Proof.
      unfold contains, iter. fold n. split.
      { intros H. apply andb_true_iff in H. destruct H as [_ H]. apply mem_In. exact H. }
      intros H. apply andb_true_iff. split; [|apply mem_In; exact H]. apply andb_true_iff.
      apply decl_interfaces_In in H. destruct H as [b [Hb H]].
      apply first_iface_reach in H. destruct H as [H _]. split.
      - apply mem_In, decl_sro_In. right. right. eauto.
      - apply negb_true_iff, Nat.eqb_neq. apply (reach_le g wf_bases) in H. apply fresh_gt_d in Hb. lia.
    Qed.

    Lemma flattened_members_lemma y :
      In y (flattened g ifs d) <->
      is_iface ifs y = true /\ (y = root \/ exists i, In i (iter g ifs d) /\ reach g i y).
    Proof.
      unfold flattened. rewrite filter_In, decl_sro_In. split.
      - intros [[->|[->|[b [Hb H]]]] Hy]; split; try assumption; [left; reflexivity| |].
        + rewrite fresh_not_iface in Hy. discriminate.
        + destruct (reach_first_iface b y H Hy) as [i [Hi Hr]]. right. exists i. split; [|assumption].
          apply decl_interfaces_In. eauto.
      - intros [Hy [->|[i [Hi Hr]]]]; split; try assumption; [left; reflexivity|].
        apply decl_interfaces_In in Hi. destruct Hi as [b [Hb Hi]]. apply first_iface_reach in Hi.
        right. right. exists b. split; [assumption|]. eapply reach_trans; [apply Hi|assumption].
    Qed.

    Lemma flattened_NoDup : NoDup (flattened g ifs d).
    Proof. apply NoDup_filter, decl_sro_NoDup. Qed.
  End Decl.

  Lemma is_or_extends_iff x y : is_or_extends g x y = true <-> implies g x y.
  Proof.
    unfold is_or_extends, sro, implies. rewrite mem_In.
    apply (fresh_sro_spec g wf_bases (S x) x (Nat.lt_succ_diag_r x)).
  Qed.

  Lemma extends_strict_iff x y : extends_strict g x y = true <-> extends g x y.
  Proof.
    unfold extends_strict, extends. rewrite andb_true_iff, is_or_extends_iff, negb_true_iff, Nat.eqb_neq. tauto.
  Qed.
End World.

(* ------------------------------------------------------------------ Part E: - and + *)
Lemma interleave_In l f k : interleave l f k -> forall x, In x l <-> In x f \/ In x k.
Proof. induction 1; intros y; cbn; [tauto| |]; rewrite IHinterleave; tauto. Qed.

Lemma interleave_NoDup l f k : interleave l f k -> NoDup l ->
  NoDup f /\ NoDup k /\ (forall x, In x f -> ~ In x k).
Proof.
  induction 1 as [|x l f k H IH|x l f k H IH]; intros ND.
  - repeat split; try constructor. intros x [].
  - inversion ND as [|? ? Hx ND']; subst. destruct (IH ND') as [Nf [Nk D]].
    pose proof (interleave_In _ _ _ H) as M. repeat split; [|assumption|].
    + constructor; [|assumption]. intros F. apply Hx. apply M. tauto.
    + intros y [<-|Hy]; [|apply D; assumption]. intros F. apply Hx. apply M. tauto.
  - inversion ND as [|? ? Hx ND']; subst. destruct (IH ND') as [Nf [Nk D]].
    pose proof (interleave_In _ _ _ H) as M. repeat split; [assumption| |].
    + constructor; [|assumption]. intros F. apply Hx. apply M. tauto.
    + intros y Hy [<-|F]; [|apply (D y); assumption]. apply Hx. apply M. tauto.
Qed.

Lemma interleave_filter (P : node -> bool) l f k : interleave l f k -> NoDup l ->
  (forall x, In x l -> (In x f <-> P x = true)) ->
  f = filter P l /\ k = filter (fun x => negb (P x)) l.
Proof.
  induction 1 as [|x l f k H IH|x l f k H IH]; intros ND HP.
  - split; reflexivity.
  - inversion ND as [|? ? Hx ND']; subst. pose proof (interleave_In _ _ _ H) as M.
    assert (Px : P x = true) by (apply HP; left; reflexivity).
    destruct IH as [-> ->]; [assumption| |cbn; rewrite Px; cbn; split; reflexivity].
    intros y Hy. rewrite <- HP by (right; assumption). cbn. split; [tauto|].
    intros [<-|?]; [tauto|assumption].
  - inversion ND as [|? ? Hx ND']; subst. pose proof (interleave_In _ _ _ H) as M.
    assert (Px : P x = false).
    { destruct (P x) eqn:E; [|reflexivity]. exfalso. apply Hx. apply M. left. apply HP; [left; reflexivity|assumption]. }
    destruct IH as [-> ->]; [assumption| |cbn; rewrite Px; cbn; split; reflexivity].
    intros y Hy. apply HP. right. assumption.
Qed.

Section Algebra.
  Variable g : graph.
  Variable ifs : list node.

  Lemma sub_iface a b i : In i (sub g ifs a b) -> is_iface ifs i = true.
  Proof. unfold sub. rewrite filter_In. intros [H _]. eapply decl_interfaces_iface. exact H. Qed.

  Lemma sub_NoDup a b : NoDup (sub g ifs a b).
  Proof. apply NoDup_filter, decl_interfaces_NoDup. Qed.

  Lemma sub_spec_lemma a b :
    iter g ifs (sub g ifs a b) =
    filter (fun i => negb (existsb (fun j => is_or_extends g i j) (iter g ifs b))) (iter g ifs a).
  Proof. rewrite iter_of_ifaces; [reflexivity|apply sub_NoDup|apply sub_iface]. Qed.

  (* the two output lists of the loop of __add__, on the new interfaces only *)
  Fixpoint place (res l : list node) : list node * list node :=
    match l with
    | [] => ([], [])
    | i :: t =>
        if existsb (fun x => extends_strict g i x) res
        then let '(f, k) := place res t in (i :: f, k)
        else let '(f, k) := place (res ++ [i]) t in (f, i :: k)
    end.

  Lemma add_loop_place l : forall bf res seen,
    add_loop g bf res seen l =
    let '(f, k) := place res (dedupe_acc seen l) in (bf ++ f, res ++ k).
  Proof.
    induction l as [|i t IH]; intros bf res seen; cbn [add_loop dedupe_acc].
    - cbn. rewrite !app_nil_r. reflexivity.
    - destruct (mem i seen); [apply IH|]. cbn [place].
      destruct (existsb (fun x => extends_strict g i x) res).
      + rewrite IH. destruct (place res (dedupe_acc (i :: seen) t)) as [f k].
        rewrite <- app_assoc. reflexivity.
      + rewrite IH. destruct (place (res ++ [i]) (dedupe_acc (i :: seen) t)) as [f k].
        rewrite <- app_assoc. reflexivity.
  Qed.

  Lemma place_interleave l : forall res, interleave l (fst (place res l)) (snd (place res l)).
  Proof.
    induction l as [|i t IH]; intros res; cbn [place]; [constructor|].
    destruct (existsb (fun x => extends_strict g i x) res).
    - specialize (IH res). destruct (place res t) as [f k]. cbn in *. constructor. assumption.
    - specialize (IH (res ++ [i])). destruct (place (res ++ [i]) t) as [f k]. cbn in *. constructor. assumption.
  Qed.

  Lemma place_rule l : forall res, NoDup l -> forall p x q, l = p ++ x :: q ->
    (In x (fst (place res l)) <->
     exists y, (In y res \/ (In y p /\ In y (snd (place res l)))) /\ extends_strict g x y = true).
  Proof.
    induction l as [|i t IH]; intros res ND p x q E; [destruct p; discriminate|].
    inversion ND as [|? ? Hi ND']; subst.
    cbn [place]. destruct (existsb (fun x0 => extends_strict g i x0) res) eqn:EX.
    - pose proof (place_interleave t res) as IL. specialize (IH res ND').
      destruct (place res t) as [f k]. cbn [fst snd] in *.
      destruct p as [|i' p']; cbn in E; injection E as <- ->.
      + split; [|intros _; left; reflexivity]. intros _.
        apply existsb_exists in EX. destruct EX as [y [Hy Hs]]. exists y. tauto.
      + specialize (IH p' x q eq_refl).
        assert (Nx : i <> x). { intros ->. apply Hi. apply in_app_iff. right. left. reflexivity. }
        assert (Nk : ~ In i k). { intros F. apply Hi. apply (interleave_In _ _ _ IL). tauto. }
        cbn [In]. rewrite IH. split.
        * intros [?|[y [[Hy|[Hy Hk]] Hs]]]; [congruence| |]; exists y; cbn [In]; tauto.
        * intros [y [[Hy|[[<-|Hy] Hk]] Hs]]; [| tauto |]; right; exists y; tauto.
    - pose proof (place_interleave t (res ++ [i])) as IL. specialize (IH (res ++ [i]) ND').
      destruct (place (res ++ [i]) t) as [f k]. cbn [fst snd] in *.
      destruct p as [|i' p']; cbn in E; injection E as <- ->.
      + split.
        * intros F. exfalso. apply Hi. apply (interleave_In _ _ _ IL). tauto.
        * intros [y [[Hy|[[] _]] Hs]]. exfalso.
          assert (existsb (fun x0 => extends_strict g i x0) res = true) by (apply existsb_exists; eauto).
          congruence.
      + specialize (IH p' x q eq_refl). rewrite IH. split.
        * intros [y [[Hy|[Hy Hk]] Hs]]; exists y; (split; [|assumption]).
          -- apply in_app_iff in Hy. destruct Hy as [Hy|[<-|[]]]; [tauto|]. right. split; left; reflexivity.
          -- right. split; right; assumption.
        * intros [y [[Hy|[Hp Hk]] Hs]]; exists y; (split; [|assumption]).
          -- left. apply in_app_iff. tauto.
          -- destruct Hp as [<-|Hp]; [left; apply in_app_iff; right; left; reflexivity|].
             destruct Hk as [<-|Hk]; [left; apply in_app_iff; right; left; reflexivity|].
             right. tauto.
  Qed.

  Definition new_of (a b : decl) : list node :=
    filter (fun i => negb (mem i (iter g ifs a))) (iter g ifs b).

  Lemma new_of_In a b x : In x (new_of a b) <-> In x (iter g ifs b) /\ ~ In x (iter g ifs a).
  Proof. unfold new_of. rewrite filter_In, negb_true_iff, mem_false. tauto. Qed.

  Lemma new_of_NoDup a b : NoDup (new_of a b).
  Proof. apply NoDup_filter, decl_interfaces_NoDup. Qed.

  Lemma add_shape a b :
    let A := iter g ifs a in
    let f := fst (place A (new_of a b)) in
    let k := snd (place A (new_of a b)) in
    add g ifs a b = f ++ A ++ k /\ iter g ifs (add g ifs a b) = f ++ A ++ k /\
    interleave (new_of a b) f k /\ NoDup (f ++ A ++ k).
  Proof.
    intros A f k.
    assert (E : add g ifs a b = f ++ A ++ k).
    { unfold f, k, A, add, new_of, iter. cbv zeta. rewrite add_loop_place.
      rewrite dedupe_acc_filter by apply decl_interfaces_NoDup.
      destruct (place _ _) as [f' k']. reflexivity. }
    pose proof (place_interleave (new_of a b) A) as IL. fold f in IL. fold k in IL.
    pose proof (interleave_In _ _ _ IL) as M.
    destruct (interleave_NoDup _ _ _ IL (new_of_NoDup a b)) as [Nf [Nk D]].
    assert (ND : NoDup (f ++ A ++ k)).
    { apply NoDup_app2; [assumption| |].
      - apply NoDup_app2; [apply decl_interfaces_NoDup|assumption|].
        intros x Hx Hk. assert (In x (new_of a b)) by (apply M; tauto).
        apply new_of_In in H. tauto.
      - intros x Hx. rewrite in_app_iff. intros [F|F]; [|apply (D x); assumption].
        assert (In x (new_of a b)) by (apply M; tauto). apply new_of_In in H. tauto. }
    repeat split; try assumption.
    rewrite E. apply iter_of_ifaces; [assumption|].
    intros i. rewrite !in_app_iff. intros [H|[H|H]].
    - assert (In i (new_of a b)) by (apply M; tauto). apply new_of_In in H0.
      eapply decl_interfaces_iface. apply H0.
    - eapply decl_interfaces_iface. exact H.
    - assert (In i (new_of a b)) by (apply M; tauto). apply new_of_In in H0.
      eapply decl_interfaces_iface. apply H0.
  Qed.

  Lemma add_members_lemma a b :
    NoDup (iter g ifs (add g ifs a b)) /\
    (forall x, In x (iter g ifs (add g ifs a b)) <-> In x (iter g ifs a) \/ In x (iter g ifs b)).
  Proof.
    destruct (add_shape a b) as [_ [E [IL ND]]]. rewrite E. split; [assumption|].
    intros x. rewrite !in_app_iff. pose proof (interleave_In _ _ _ IL x) as M.
    rewrite new_of_In in M. destruct (in_dec Nat.eq_dec x (iter g ifs a)); tauto.
  Qed.

  Hypothesis WF : wf g ifs = true.

  Lemma sub_members_lemma a b x :
    In x (iter g ifs (sub g ifs a b)) <->
    In x (iter g ifs a) /\ ~ exists j, In j (iter g ifs b) /\ implies g x j.
  Proof.
    rewrite sub_spec_lemma, filter_In, negb_true_iff.
    destruct (existsb (fun j => is_or_extends g x j) (iter g ifs b)) eqn:E.
    - apply existsb_exists in E. destruct E as [j [Hj H]]. apply (is_or_extends_iff g ifs WF) in H.
      split; [intros [_ F]; discriminate|]. intros [_ F]. exfalso. apply F. eauto.
    - split; [|tauto]. intros [H _]. split; [assumption|]. intros [j [Hj F]].
      apply (is_or_extends_iff g ifs WF) in F.
      assert (existsb (fun j => is_or_extends g x j) (iter g ifs b) = true) by (apply existsb_exists; eauto).
      congruence.
  Qed.

  Lemma add_spec_lemma a b :
    exists front back,
      iter g ifs (add g ifs a b) = front ++ iter g ifs a ++ back /\
      interleave (new_of a b) front back /\
      (forall p x q, new_of a b = p ++ x :: q ->
         (In x front <->
          exists y, (In y (iter g ifs a) \/ (In y p /\ In y back)) /\ extends g x y)).
  Proof.
    destruct (add_shape a b) as [_ [E [IL _]]].
    exists (fst (place (iter g ifs a) (new_of a b))), (snd (place (iter g ifs a) (new_of a b))).
    split; [assumption|]. split; [assumption|].
    intros p x q Hn. rewrite (place_rule _ _ (new_of_NoDup a b) p x q Hn).
    split; intros [y [H1 H2]]; exists y; (split; [assumption|]); apply (extends_strict_iff g ifs WF); assumption.
  Qed.

  Lemma add_in_front_lemma a b front back :
    iter g ifs (add g ifs a b) = front ++ iter g ifs a ++ back ->
    interleave (new_of a b) front back ->
    (forall p x q, new_of a b = p ++ x :: q ->
       (In x front <-> exists y, (In y (iter g ifs a) \/ (In y p /\ In y back)) /\ extends g x y)) ->
    (forall x y, In x (new_of a b) -> In y (iter g ifs a) -> extends g x y -> In x front) /\
    (forall x y, In x back -> In y (iter g ifs a) -> ~ extends g x y).
  Proof.
    intros _ IL R. pose proof (interleave_In _ _ _ IL) as M.
    destruct (interleave_NoDup _ _ _ IL (new_of_NoDup a b)) as [_ [_ D]].
    assert (K : forall x y, In x (new_of a b) -> In y (iter g ifs a) -> extends g x y -> In x front).
    { intros x y Hx Hy He. destruct (in_split _ _ Hx) as [p [q Hn]]. apply (R p x q Hn). exists y. tauto. }
    split; [assumption|]. intros x y Hx Hy He. apply (D x); [|assumption].
    apply (K x y); [apply M; tauto|assumption|assumption].
  Qed.

  Definition ext_of_A (a : decl) (x : node) : bool :=
    existsb (fun y => extends_strict g x y) (iter g ifs a).

  Lemma add_as_worded_lemma a b :
    (forall x y, In x (new_of a b) -> In y (new_of a b) -> ~ extends g x y) ->
    iter g ifs (add g ifs a b) =
    filter (ext_of_A a) (new_of a b) ++ iter g ifs a ++ filter (fun x => negb (ext_of_A a x)) (new_of a b).
  Proof.
    intros Hno. destruct (add_spec_lemma a b) as [front [back [E [IL R]]]]. rewrite E.
    pose proof (interleave_In _ _ _ IL) as M.
    destruct (interleave_filter (ext_of_A a) _ _ _ IL (new_of_NoDup a b)) as [-> ->]; [|reflexivity].
    intros x Hx. destruct (in_split _ _ Hx) as [p [q Hn]]. rewrite (R p x q Hn).
    unfold ext_of_A. rewrite existsb_exists. split.
    - intros [y [[Hy|[Hp Hk]] He]].
      + exists y. split; [assumption|]. apply (extends_strict_iff g ifs WF). assumption.
      + exfalso. apply (Hno x y); [assumption| |assumption]. apply M. tauto.
    - intros [y [Hy He]]. exists y. split; [tauto|]. apply (extends_strict_iff g ifs WF). assumption.
  Qed.

  (* ---------------------------------------------------------------- Part F: instances *)
  Lemma dpb_directly c args :
    directly_provided_by (Some (directly_provides g ifs c args)) = strip_cls g c (mk_decl g ifs args).
  Proof. unfold directly_provided_by, directly_provides. apply removelast_last. Qed.

  Lemma iface_in_iter l x : In x l -> is_iface ifs x = true -> In x (iter g ifs l).
  Proof.
    intros H Hx. unfold iter, decl_interfaces. rewrite dedupe_In, in_flat_map. exists x.
    split; [assumption|]. rewrite interfaces_of_iface by assumption. left. reflexivity.
  Qed.

  Lemma also_provides_lemma c p args :
    match also_provides g ifs c p args with
    | Some bs =>
        iter g ifs (directly_provided_by (Some bs)) =
        iter g ifs (strip_cls g c (iter g ifs (directly_provided_by p) ++ mk_decl g ifs args)) /\
        (forall x, In x (iter g ifs (directly_provided_by p)) -> is_or_extends g c x = false ->
                   In x (iter g ifs (directly_provided_by (Some bs))))
    | None => False
    end.
  Proof.
    unfold also_provides. rewrite dpb_directly.
    assert (E : mk_decl g ifs (OfDecl (directly_provided_by p) :: args) =
                iter g ifs (directly_provided_by p) ++ mk_decl g ifs args) by reflexivity.
    rewrite E. split; [reflexivity|].
    intros x Hx Hc. apply iface_in_iter; [|eapply decl_interfaces_iface; exact Hx].
    unfold strip_cls. apply filter_In. split; [apply in_app_iff; tauto|]. rewrite Hc. reflexivity.
  Qed.

  Lemma no_longer_provides_exact_lemma c p i : is_iface ifs i = true ->
    iter g ifs (directly_provided_by (fst (no_longer_provides g ifs c p i))) =
    filter (fun x => negb (is_or_extends g c x))
           (filter (fun x => negb (is_or_extends g x i)) (iter g ifs (directly_provided_by p))).
  Proof.
    intros Hi. unfold no_longer_provides. cbn [fst]. rewrite dpb_directly.
    assert (E : mk_decl g ifs [OfDecl (sub g ifs (directly_provided_by p) [i])] =
                sub g ifs (directly_provided_by p) [i]).
    { unfold mk_decl. cbn [flat_map normalize]. rewrite app_nil_r.
      apply iter_of_ifaces; [apply sub_NoDup|apply sub_iface]. }
    rewrite E.
    assert (Ei : decl_interfaces g ifs [i] = [i]).
    { unfold decl_interfaces. cbn [flat_map]. rewrite interfaces_of_iface by assumption. reflexivity. }
    rewrite iter_of_ifaces.
    - unfold strip_cls, sub. rewrite Ei. f_equal. apply filter_ext. intros x. cbn. rewrite orb_false_r. reflexivity.
    - apply NoDup_filter, sub_NoDup.
    - intros x Hx. apply filter_In in Hx. eapply sub_iface. apply Hx.
  Qed.

  Lemma no_longer_provides_members_lemma c p i : is_iface ifs i = true ->
    (forall x, In x (iter g ifs (directly_provided_by (fst (no_longer_provides g ifs c p i)))) <->
               In x (iter g ifs (directly_provided_by p)) /\ ~ implies g x i /\ ~ implies g c x) /\
    (snd (no_longer_provides g ifs c p i) = true <-> implies g c i).
  Proof.
    intros Hi. split.
    - intros x. rewrite no_longer_provides_exact_lemma by assumption.
      rewrite !filter_In, !negb_true_iff.
      rewrite <- !(is_or_extends_iff g ifs WF).
      destruct (is_or_extends g x i), (is_or_extends g c x); intuition congruence.
    - unfold no_longer_provides. cbn [snd]. rewrite mem_In, (decl_sro_In g ifs WF).
      unfold implies. split.
      + intros [?|[E|[b [Hb H]]]]; [tauto| |].
        * exfalso. rewrite E in Hi. rewrite (fresh_not_iface g ifs WF) in Hi. discriminate.
        * unfold directly_provides in Hb. apply in_app_iff in Hb. destruct Hb as [Hb|[<-|[]]]; [|tauto].
          exfalso. rewrite <- dpb_directly in Hb.
          assert (Hx : In b (iter g ifs (directly_provided_by (fst (no_longer_provides g ifs c p i))))).
          { unfold no_longer_provides. cbn [fst]. apply iface_in_iter; [assumption|].
            rewrite dpb_directly in Hb. unfold strip_cls in Hb. apply filter_In in Hb. destruct Hb as [Hb _].
            unfold mk_decl in Hb. cbn [flat_map normalize] in Hb. rewrite app_nil_r in Hb.
            eapply decl_interfaces_iface. exact Hb. }
          rewrite no_longer_provides_exact_lemma in Hx by assumption.
          rewrite !filter_In, !negb_true_iff in Hx. destruct Hx as [[_ Hx] _].
          assert (is_or_extends g b i = true) by (apply (is_or_extends_iff g ifs WF); right; assumption).
          congruence.
      + intros [?|H]; [tauto|]. right. right. exists c. split; [|assumption].
        unfold directly_provides. apply in_app_iff. right. left. reflexivity.
  Qed.

  Lemma dstep_prefix s o i : i < length s -> nth_error (dstep g ifs s o) i = nth_error s i.
  Proof. intros H. destruct o; cbn [dstep]; try reflexivity; apply nth_error_app1; assumption. Qed.

  Lemma dstep_length s o : length s <= length (dstep g ifs s o).
  Proof. destruct o; cbn [dstep]; rewrite ?app_length; lia. Qed.

  Lemma operands_unchanged_lemma ops : forall s i, i < length s ->
    nth_error (fold_left (dstep g ifs) ops s) i = nth_error s i.
  Proof.
    induction ops as [|o ops IH]; intros s i H; cbn [fold_left]; [reflexivity|].
    rewrite IH; [apply dstep_prefix; assumption|]. pose proof (dstep_length s o). lia.
  Qed.
End Algebra.

(* ------------------------------------------------------------------ Part G: extras *)
Lemma dedupe_acc_as_filter s l : dedupe_acc s l = filter (fun x => negb (mem x s)) (dedupe l).
Proof.
  rewrite <- (dedupe_acc_filter (dedupe l) s (dedupe_NoDup l)).
  unfold dedupe. rewrite dedupe_acc_idem, app_nil_r. reflexivity.
Qed.

Lemma dedupe_cons x l : dedupe (x :: l) = x :: filter (fun y => negb (Nat.eqb y x)) (dedupe l).
Proof.
  unfold dedupe at 1. cbn [dedupe_acc mem]. f_equal. rewrite dedupe_acc_as_filter.
  apply filter_ext. intros y. cbn. rewrite orb_false_r. reflexivity.
Qed.

Section Extras.
  Variable g : graph.
  Variable ifs : list node.
  Hypothesis WF : wf g ifs = true.

  Lemma flattened_nonempty_lemma d :
    (exists i, In i (iter g ifs d) /\ reach g i root) ->
    forall y, In y (flattened g ifs d) <->
              is_iface ifs y = true /\ exists i, In i (iter g ifs d) /\ reach g i y.
  Proof.
    intros [i0 [H0 R0]] y. rewrite (flattened_members_lemma g ifs WF). split.
    - intros [Hy [->|H]]; split; try assumption. exists i0. tauto.
    - intros [Hy H]. tauto.
  Qed.

  Lemma radd_lemma x a : is_iface ifs x = true ->
    iter g ifs (radd g ifs x a) =
    if mem x (iter g ifs a) then iter g ifs a
    else if existsb (fun y => extends_strict g x y) (iter g ifs a) then x :: iter g ifs a
         else iter g ifs a ++ [x].
  Proof.
    intros Hx. unfold radd. destruct (add_shape g ifs a [x]) as [_ [E _]]. rewrite E. clear E.
    assert (Ei : iter g ifs [x] = [x]).
    { apply iter_of_ifaces; [constructor; [intros []|constructor]|]. intros i [<-|[]]. assumption. }
    unfold new_of. rewrite Ei. cbn [filter].
    destruct (mem x (iter g ifs a)); cbn [negb].
    - cbn. rewrite app_nil_r. reflexivity.
    - cbn [place]. destruct (existsb (fun y => extends_strict g x y) (iter g ifs a)); cbn.
      + rewrite app_nil_r. reflexivity.
      + reflexivity.
  Qed.
End Extras.
