(* C08 - the C twins (Model/CLookup.v) answer exactly like the Python-derived entry points
   (Model/Lookup.v), for all inputs, all default / name argument shapes and ALL cache states,
   and leave the same caches behind. *)
From Coq Require Import List Arith Bool.
Import ListNotations.
From ZI Require Import Model.Ro Model.Adapter Model.Lookup Model.CLookup.

Lemma c_getcache_flat p name : c_getcache p name = (p, c_name_str name).
Proof.
  destruct name as [[n|]|]; cbn; try reflexivity.
  destruct (Nat.eqb n 0) eqn:E; [apply Nat.eqb_eq in E; subst|]; reflexivity.
Qed.

Lemma c_key_is_ckey_of (required : list spec) :
  match required with [s] => CSingle s | _ => CMulti required end = ckey_of required.
Proof. destruct required as [|s [|]]; reflexivity. Qed.

Section CEqPy.
  Variable u_lookup : list spec -> spec -> Adapter.name -> option value.
  Variable u_lookupAll : list spec -> spec -> list (Adapter.name * value).
  Variable u_subscriptions : list spec -> option spec -> list value.
  Variable call : value -> list nat -> option nat.

  Lemma c_lookup_eq_py c req p name d :
    c_lookup u_lookup c req p name d =
    (fst (lookup u_lookup c req p (cname name)), py_ret d (snd (lookup u_lookup c req p (cname name)))).
  Proof.
    unfold c_lookup. destruct name as [[n|]|]; cbn [c_name_bad cname]; try reflexivity.
    - rewrite c_getcache_flat, c_key_is_ckey_of. cbn [c_name_str]. unfold lookup.
      destruct (aget cache_key_eqb (c_cache c) (p, n, ckey_of req)) as [[v|]|]; cbn;
        [destruct d; reflexivity | destruct d; reflexivity |].
      destruct (u_lookup req p n); cbn; destruct d; reflexivity.
    - rewrite c_getcache_flat, c_key_is_ckey_of. cbn [c_name_str]. unfold lookup.
      destruct (aget cache_key_eqb (c_cache c) _) as [[v|]|]; cbn;
        [destruct d; reflexivity | destruct d; reflexivity |].
      destruct (u_lookup req p 0); cbn; destruct d; reflexivity.
  Qed.

  Lemma c_lookup1_eq_py c r p name d :
    c_lookup1 u_lookup c r p name d =
    (fst (lookup1 u_lookup c r p (cname name)), py_ret d (snd (lookup1 u_lookup c r p (cname name)))).
  Proof.
    unfold c_lookup1. destruct name as [[n|]|]; cbn [c_name_bad cname]; try reflexivity.
    - rewrite c_getcache_flat. cbn [c_name_str]. unfold lookup1.
      destruct (aget cache_key_eqb (c_cache c) (p, n, CSingle r)) as [[v|]|]; cbn [entry_obj is_none andb fst snd py_ret];
        [reflexivity | destruct d; reflexivity |].
      apply (c_lookup_eq_py c [r] p (Some (NStr n)) d).
    - rewrite c_getcache_flat. cbn [c_name_str]. unfold lookup1.
      destruct (aget cache_key_eqb (c_cache c) _) as [[v|]|]; cbn [entry_obj is_none andb fst snd py_ret];
        [reflexivity | destruct d; reflexivity |].
      apply (c_lookup_eq_py c [r] p None d).
  Qed.

  Lemma c_adapter_hook_eq_py c p o name d :
    c_adapter_hook u_lookup call c p o name d =
    (fst (adapter_hook u_lookup call c p o (cname name)),
     py_ret_nat d (snd (adapter_hook u_lookup call c p o (cname name)))).
  Proof.
    unfold c_adapter_hook. rewrite c_lookup1_eq_py.
    destruct name as [[n|]|]; cbn [c_name_bad cname]; try reflexivity.
    - unfold lookup1, adapter_hook, lookup. cbn [ckey_of].
      destruct (aget cache_key_eqb (c_cache c) (p, n, CSingle (o_provides o))) as [[v|]|];
        cbn [fst snd py_ret is_none negb call_obj dflt_obj].
      + unfold unwrap. destruct (call v _); cbn; [reflexivity | destruct d; reflexivity].
      + destruct d; reflexivity.
      + destruct (u_lookup [o_provides o] p n) as [v|]; cbn [fst snd py_ret is_none negb call_obj dflt_obj].
        * unfold unwrap. destruct (call v _); cbn; [reflexivity | destruct d; reflexivity].
        * destruct d; reflexivity.
    - unfold lookup1, adapter_hook, lookup. cbn [ckey_of].
      destruct (aget cache_key_eqb (c_cache c) _) as [[v|]|];
        cbn [fst snd py_ret is_none negb call_obj dflt_obj].
      + unfold unwrap. destruct (call v _); cbn; [reflexivity | destruct d; reflexivity].
      + destruct d; reflexivity.
      + destruct (u_lookup [o_provides o] p 0) as [v|]; cbn [fst snd py_ret is_none negb call_obj dflt_obj].
        * unfold unwrap. destruct (call v _); cbn; [reflexivity | destruct d; reflexivity].
        * destruct d; reflexivity.
  Qed.

  Lemma c_lookupAll_eq_py c req p : c_lookupAll u_lookupAll c req p = lookupAll u_lookupAll c req p.
  Proof. unfold c_lookupAll, lookupAll. destruct (aget mkey_eqb (c_mcache c) (p, req)); reflexivity. Qed.

  Lemma c_subscriptions_eq_py c req p :
    c_subscriptions u_subscriptions c req p = subscriptions u_subscriptions c req p.
  Proof. unfold c_subscriptions, subscriptions. destruct (aget sckey_eqb (c_scache c) (p, req)); reflexivity. Qed.
End CEqPy.
