(* The kernel regenerated from the text of class Specification (Gen/SpecGraphKernel.v) does what
   the hand-written model (Model/SpecGraph.v) does, for all states.  State results are compared
   with [state_equiv] (function-valued fields pointwise: two writes to one attribute and one
   write are different Gallina terms, and no extensionality axiom is used). *)
From Coq Require Import List Arith Bool Lia.
Import ListNotations.
From ZI Require Import Model.Ro Model.SpecGraph Model.SpecGraphPrim Spec.SpecGraph Proofs.SpecGraph
  Gen.SpecGraphKernel.

(* ------------------------------------------------------------------ state_equiv *)
Lemma se_refl a : state_equiv a a.
Proof. unfold state_equiv; auto 10. Qed.

Lemma se_sym a b : state_equiv a b -> state_equiv b a.
Proof. unfold state_equiv. intros [? [? [? [? [? ?]]]]]. repeat split; auto. Qed.

Lemma se_trans a b c : state_equiv a b -> state_equiv b c -> state_equiv a c.
Proof.
  unfold state_equiv. intros [? [? [? [? [? ?]]]]] [? [? [? [? [? ?]]]]].
  repeat split; try congruence; intros y; etransitivity; eauto.
Qed.

Lemma upd_ext {A} (f g : node -> A) x v w y : (forall z, f z = g z) -> v = w -> upd f x v y = upd g x w y.
Proof. intros H ->. unfold upd. destruct (Nat.eqb y x); auto. Qed.

Lemma set_deps_equiv a b x v w : state_equiv a b -> v = w -> state_equiv (set_deps a x v) (set_deps b x w).
Proof.
  unfold state_equiv, set_deps. cbn. intros [? [? [? [? [? ?]]]]] E.
  repeat split; auto. intros y. now apply upd_ext.
Qed.

Lemma set_sro_equiv a b x v w : state_equiv a b -> v = w -> state_equiv (set_sro a x v) (set_sro b x w).
Proof.
  unfold state_equiv, set_sro. cbn. intros [? [? [? [? [? ?]]]]] E.
  repeat split; auto. intros y. now apply upd_ext.
Qed.

Lemma set_implied_equiv a b x v w : state_equiv a b -> v = w ->
  state_equiv (set_implied a x v) (set_implied b x w).
Proof.
  unfold state_equiv, set_implied. cbn. intros [? [? [? [? [? ?]]]]] E.
  repeat split; auto. intros y. now apply upd_ext.
Qed.

Lemma set_bases_equiv a b x v : state_equiv a b ->
  state_equiv (set_bases_field a x v) (set_bases_field b x v).
Proof.
  unfold state_equiv, set_bases_field. cbn. intros [? [? [? [? [? ?]]]]].
  repeat split; auto. congruence.
Qed.

Lemma fold_equiv {A} (F G : state -> A -> state) l :
  (forall s s' v, state_equiv s s' -> state_equiv (F s v) (G s' v)) ->
  forall s s', state_equiv s s' -> state_equiv (fold_left F l s) (fold_left G l s').
Proof. intros H. induction l as [|v l IH]; cbn; intros s s' E; auto. Qed.

(* equivalent states answer alike *)
Lemma se_answers a b : state_equiv a b ->
  forall S T strict, isOrExtends a S T = isOrExtends b S T /\ extends a S T strict = extends b S T strict /\
    get_sro a S = get_sro b S /\ get_iro a S = get_iro b S /\ get_bases a S = get_bases b S /\
    deps a S = deps b S.
Proof.
  intros [El [Eg [Ei [Es [Em Ed]]]]] S T strict.
  unfold isOrExtends, extends, get_sro, get_iro, get_bases. rewrite Em, Es, Eg, Ed.
  repeat split; auto. apply filter_ext. auto.
Qed.

(* ------------------------------------------------------------------ dictionary arithmetic *)
Lemma dict_find_cons k y n l :
  dict_find k ((y, n) :: l) = if Nat.eqb k y then Some n else dict_find k l.
Proof. reflexivity. Qed.

Lemma subscribe_arith d l : dict_set d (Nat.add (dict_get d l 0) 1) l = dep_incr d l.
Proof.
  rewrite Nat.add_1_r. induction l as [|[y n] l IH]; [reflexivity|].
  unfold dict_get in *. rewrite dict_find_cons. cbn [dict_set dep_incr].
  destruct (Nat.eqb d y); [reflexivity|]. now rewrite IH.
Qed.

Lemma dict_find_none d l : dict_find d l = None <-> ~ In d (dep_keys l).
Proof.
  unfold dep_keys. induction l as [|[y n] l IH]; cbn; [tauto|].
  destruct (Nat.eqb d y) eqn:E.
  - apply Nat.eqb_eq in E. subst. split; [discriminate|tauto].
  - apply Nat.eqb_neq in E. rewrite IH. split; [intros H [?|?]; auto; congruence | tauto].
Qed.

Lemma dep_decr_missing d l : dict_find d l = None -> dep_decr d l = l.
Proof.
  induction l as [|[y n] l IH]; cbn; auto. destruct (Nat.eqb d y); [discriminate|].
  intros H. now rewrite IH.
Qed.

Lemma unsubscribe_arith d l n : dict_find d l = Some n ->
  (if Nat.eqb (Nat.sub n 1) 0 then dict_del d l else dict_set d (Nat.sub n 1) l) = dep_decr d l.
Proof.
  induction l as [|[y m] l IH]; cbn; [discriminate|].
  destruct (Nat.eqb d y) eqn:E.
  - intros H; injection H as ->. destruct n as [|[|k]]; cbn; rewrite ?E; auto.
  - intros H. rewrite <- (IH H). destruct (Nat.eqb (n - 1) 0); reflexivity.
Qed.

(* ------------------------------------------------------------------ subscribe / unsubscribe *)
Lemma k_subscribe_eq st b x : k_subscribe st b x = set_deps st b (dep_incr x (deps st b)).
Proof. unfold k_subscribe. now rewrite subscribe_arith. Qed.

Lemma k_unsubscribe_eq st b x :
  (k_unsubscribe st b x = None <-> ~ In x (dep_keys (deps st b))) /\
  (forall st', k_unsubscribe st b x = Some st' -> st' = set_deps st b (dep_decr x (deps st b))).
Proof.
  unfold k_unsubscribe. destruct (dict_find x (deps st b)) as [n|] eqn:E.
  - split.
    + split; [discriminate|]. intros H. apply dict_find_none in H. congruence.
    + intros st' H. injection H as <-. rewrite negb_involutive.
      rewrite <- (unsubscribe_arith _ _ _ E). destruct (Nat.eqb (n - 1) 0); reflexivity.
  - split; [|discriminate]. split; auto. intros _. now apply dict_find_none.
Qed.

Lemma call_unsubscribe_equiv s s' b x : state_equiv s s' ->
  state_equiv (call_unsubscribe s b x) (set_deps s' b (dep_decr x (deps s' b))).
Proof.
  intros E. assert (Ed : deps s b = deps s' b) by apply E.
  unfold call_unsubscribe. destruct (k_unsubscribe_eq s b x) as [N S].
  destruct (k_unsubscribe s b x) as [st'|] eqn:K.
  - rewrite (S st' eq_refl). apply set_deps_equiv; auto. now rewrite Ed.
  - assert (F : dict_find x (deps s b) = None) by (apply dict_find_none, N; auto).
    rewrite <- Ed, (dep_decr_missing _ _ F).
    eapply se_trans; [|apply set_deps_equiv; [exact E | reflexivity]].
    unfold state_equiv, set_deps; cbn. repeat split; auto. intros y. unfold upd.
    destruct (Nat.eqb y b) eqn:Ey; auto. apply Nat.eqb_eq in Ey. now subst.
Qed.

Lemma k_subscribe_equiv s s' b x : state_equiv s s' ->
  state_equiv (k_subscribe s b x) (set_deps s' b (dep_incr x (deps s' b))).
Proof.
  intros E. rewrite k_subscribe_eq. apply set_deps_equiv; auto.
  assert (Ed : deps s b = deps s' b) by apply E. now rewrite Ed.
Qed.

(* ------------------------------------------------------------------ _calculate_sro *)
Lemma bm_lookup_map (f : node -> list node) bs b : In b bs ->
  bm_lookup b (map (fun v => (v, f v)) bs) = f b.
Proof.
  induction bs as [|a bs IH]; cbn; [tauto|]. intros H.
  destruct (Nat.eqb b a) eqn:E; [apply Nat.eqb_eq in E; now subst|].
  apply IH. destruct H as [->|H]; auto. now rewrite Nat.eqb_refl in E.
Qed.

Lemma py_last_is l r0 : l <> [] -> Nat.eqb (py_last l) r0 = last_is r0 l.
Proof.
  intros N. unfold py_last, last_is.
  destruct (exists_last N) as [l' [a ->]]. rewrite last_last, rev_unit. reflexivity.
Qed.

Lemma root_fixup m :
  (if andb (negb false) (andb (nonempty m) (negb (Nat.eqb (py_last m) root)))
   then filter (fun v => negb (Nat.eqb v root)) m ++ [root] else m) = root_last root m.
Proof.
  unfold root_last. destruct m as [|a m]; [reflexivity|].
  rewrite py_last_is by discriminate. cbn [negb andb nonempty].
  destruct (last_is root (a :: m)); reflexivity.
Qed.

Lemma k_calc_eq st x : k_calc st x = calc (gr st) (sro st) x.
Proof.
  unfold k_calc, calc, calc_sro. destruct (Nat.eqb x root); [reflexivity|].
  unfold k_calculate_sro, do_calculate_ro.
  rewrite (map_ext_in _ (sro st) (bases (gr st) x)) by (intros b Hb; now apply bm_lookup_map).
  destruct (c3_node false x (bases (gr st) x) (map (sro st) (bases (gr st) x)) false
                    (legacy_ro (fuel_of (gr st)) (gr st) x)) as [| |m i]; try reflexivity.
  apply root_fixup.
Qed.

Lemma calc_equiv a b x : state_equiv a b -> calc (gr a) (sro a) x = calc (gr b) (sro b) x.
Proof. intros [_ [Eg [_ [Es _]]]]. rewrite Eg. apply calc_ext. auto. Qed.

(* ------------------------------------------------------------------ changed *)
Lemma recompute_equiv a b x : state_equiv a b -> state_equiv (recompute x a) (recompute x b).
Proof.
  intros E. pose proof (calc_equiv a b x E) as Ec. destruct E as [? [? [? [? [? ?]]]]].
  unfold state_equiv, recompute. cbn. repeat split; auto; intros y; now apply upd_ext.
Qed.

Lemma fill_implied x l : forall s,
  state_equiv (fold_left (fun st a => set_implied st x (keyset_add a (implied st x))) l s)
              (set_implied s x (implied s x ++ l)).
Proof.
  induction l as [|a l IH]; intros s; cbn [fold_left].
  - unfold state_equiv, set_implied; cbn. repeat split; auto. intros y. unfold upd.
    destruct (Nat.eqb y x) eqn:E; auto. apply Nat.eqb_eq in E. subst. now rewrite app_nil_r.
  - eapply se_trans; [apply IH|]. unfold state_equiv, set_implied, keyset_add; cbn.
    repeat split; auto. intros y. unfold upd. rewrite Nat.eqb_refl.
    destruct (Nat.eqb y x); auto. now rewrite <- app_assoc.
Qed.

Lemma k_changed_step_equiv s s' x oc : state_equiv s s' ->
  state_equiv (k_changed_step s x oc) (recompute x s').
Proof.
  intros E. eapply se_trans; [|apply recompute_equiv; exact E].
  unfold k_changed_step, set_iro. eapply se_trans; [apply fill_implied|].
  rewrite k_calc_eq. unfold state_equiv, recompute, set_implied, set_sro. cbn.
  repeat split; auto. intros y. unfold upd. rewrite Nat.eqb_refl. destruct (Nat.eqb y x); auto.
Qed.

Section WithOrder.
  Variable reorder : list node -> list node.
  Hypothesis reorder_In : forall l y, In y (reorder l) <-> In y l.

  Lemma reorder_nil : reorder [] = [].
  Proof.
    destruct (reorder []) as [|a l] eqn:E; auto.
    assert (H : In a (reorder [])) by (rewrite E; now left). apply (proj1 (reorder_In _ _)) in H. destruct H.
  Qed.

  Lemma k_targets_eq st x : k_changed_targets reorder st x = reorder (dep_keys (deps st x)).
  Proof.
    unfold k_changed_targets, dict_keys, dep_keys. destruct (deps st x); cbn; auto.
    now rewrite reorder_nil.
  Qed.

  Lemma changed_equiv f : forall x a b, state_equiv a b ->
    state_equiv (changed reorder f x a) (changed reorder f x b).
  Proof.
    induction f as [|f IH]; intros x a b E; cbn [changed]; auto.
    assert (Ed : deps (recompute x a) x = deps (recompute x b) x) by (cbn; apply E).
    rewrite Ed. apply fold_equiv; [intros; now apply IH | now apply recompute_equiv].
  Qed.

  Lemma k_changed_equiv f : forall x oc s s', state_equiv s s' ->
    state_equiv (k_changed reorder f s x oc) (changed reorder f x s').
  Proof.
    induction f as [|f IH]; intros x oc s s' E; cbn [k_changed changed]; auto.
    pose proof (k_changed_step_equiv s s' x oc E) as Es.
    rewrite k_targets_eq.
    assert (Ed : deps (k_changed_step s x oc) x = deps (recompute x s') x) by apply Es.
    rewrite Ed. apply fold_equiv; auto.
  Qed.

  (* the two loops of __setBases against the model's folds over the dictionaries *)
  Definition with_deps (s : state) (dp : node -> deps_t) : state :=
    mkState (live s) (gr s) (isif s) (sro s) (implied s) dp.

  Lemma unsub_loop x l : forall s s', state_equiv s s' ->
    state_equiv (fold_left (fun st b => call_unsubscribe st b x) l s)
                (with_deps s' (fold_left (fun dp b => unsubscribe x b dp) l (deps s'))).
  Proof.
    induction l as [|b l IH]; intros s s' E; cbn [fold_left].
    - destruct E as [? [? [? [? [? ?]]]]]. unfold state_equiv, with_deps; cbn. auto 10.
    - eapply se_trans; [apply IH; apply call_unsubscribe_equiv; exact E|].
      unfold with_deps, set_deps, unsubscribe. cbn. apply se_refl.
  Qed.

  Lemma sub_loop x l : forall s s', state_equiv s s' ->
    state_equiv (fold_left (fun st b => k_subscribe st b x) l s)
                (with_deps s' (fold_left (fun dp b => subscribe x b dp) l (deps s'))).
  Proof.
    induction l as [|b l IH]; intros s s' E; cbn [fold_left].
    - destruct E as [? [? [? [? [? ?]]]]]. unfold state_equiv, with_deps; cbn. auto 10.
    - eapply se_trans; [apply IH; apply k_subscribe_equiv; exact E|].
      unfold with_deps, set_deps, subscribe. cbn. apply se_refl.
  Qed.

  Lemma k_setBases_equiv st x bs :
    state_equiv (k_setBases reorder st x bs) (set_bases reorder x bs st).
  Proof.
    unfold k_setBases, set_bases.
    set (s1 := fold_left (fun st0 v_b => call_unsubscribe st0 v_b x) (bases (gr st) x) st).
    set (dp1 := fold_left (fun dp b => unsubscribe x b dp) (bases (gr st) x) (deps st)).
    assert (E1 : state_equiv s1 (with_deps st dp1)) by (apply unsub_loop, se_refl).
    set (s2 := set_bases_field s1 x bs).
    assert (E2 : state_equiv s2 (set_bases_field (with_deps st dp1) x bs)) by now apply set_bases_equiv.
    set (s3 := fold_left (fun st0 v_b => k_subscribe st0 v_b x) bs s2).
    pose proof (sub_loop x bs s2 _ E2) as E3. fold s3 in E3. cbn in E3.
    assert (Eg : gr s3 = (x, bs) :: gr st) by apply E3.
    rewrite Eg. apply k_changed_equiv. exact E3.
  Qed.
End WithOrder.

Lemma k_queries_eq st S T strict :
  k_isOrExtends st S T = isOrExtends st S T /\ k_extends st S T strict = extends st S T strict /\
  k_iro_of st (get_sro st S) = get_iro st S.
Proof. repeat split. Qed.

Lemma k_changed_step_lemma st x oc :
  state_equiv (k_changed_step st x oc) (recompute x st).
Proof. apply k_changed_step_equiv, se_refl. Qed.

Lemma k_changed_lemma (reorder : list node -> list node) :
  (forall l y, In y (reorder l) <-> In y l) ->
  forall fuel st x oc, state_equiv (k_changed reorder fuel st x oc) (changed reorder fuel x st).
Proof. intros H fuel st x oc. apply k_changed_equiv; auto. apply se_refl. Qed.

Lemma k_setBases_lemma (reorder : list node -> list node) :
  (forall l y, In y (reorder l) <-> In y l) ->
  forall st x bs, state_equiv (k_setBases reorder st x bs) (set_bases reorder x bs st).
Proof. intros H st x bs. now apply k_setBases_equiv. Qed.
