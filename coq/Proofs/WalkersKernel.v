(* The kernel regenerated from adapter.py (Gen/WalkersKernel.v) equals the hand-written
   nested-dictionary walkers of Model/Trie.v and Model/Adapter.v's extendors surgery; with
   C09's trie/flat refinement the generated _uncached_lookup on the nested dictionaries of
   reachable registries is Model.Adapter.uncached_lookup on their abstraction, so the C04
   theorems are about the current source text. *)
From Coq Require Import List Arith Bool Lia.
Import ListNotations.
From ZI Require Import Model.Ro Model.Adapter Model.Trie Model.WalkersVocab Gen.WalkersKernel
     Model.Bookkeeping Spec.Bookkeeping Spec.TrieRel Proofs.TrieRefines
     Spec.LookupSpec Proofs.LookupSpec Proofs.LookupInv.

(* ------------------------------------------------------------------ generic *)
Lemma fs_ext {A B} (f g : A -> option B) l : (forall x, f x = g x) -> first_some f l = first_some g l.
Proof. intros H. induction l as [|a l IH]; cbn; auto. rewrite H, IH. reflexivity. Qed.

Lemma fold_ext {A B} (f g : A -> B -> A) l : (forall a x, f a x = g a x) -> forall a, fold_left f l a = fold_left g l a.
Proof. intros H. induction l as [|b l IH]; intros a; cbn; auto. rewrite H. apply IH. Qed.

Lemma fold_flat {A B} (f : list A -> B -> list A) (h : B -> list A) l :
  (forall acc x, f acc x = acc ++ h x) -> forall acc, fold_left f l acc = acc ++ flat_map h l.
Proof.
  intros H. induction l as [|b l IH]; intros acc; cbn; [rewrite app_nil_r; auto|].
  rewrite IH, H, <- app_assoc. reflexivity.
Qed.

Lemma flat_map_nil {A B} (h : A -> list B) l : (forall x, h x = []) -> flat_map h l = [].
Proof. intros H. induction l as [|a l IH]; cbn; auto. rewrite H, IH. reflexivity. Qed.

Lemma skipn_nth {A} (d : A) : forall i l, i < length l -> skipn i l = nth i l d :: skipn (S i) l.
Proof.
  induction i as [|i IH]; intros [|x l] H; cbn in *; try lia; auto.
  apply IH. lia.
Qed.

Lemma skipn_ge {A} : forall i (l : list A), length l <= i -> skipn i l = [].
Proof. induction i as [|i IH]; intros [|x l] H; cbn in *; auto; try lia. apply IH. lia. Qed.

(* ------------------------------------------------------------------ vocabulary *)
Lemma otruthy_v (o : option (trie value)) :
  otruthy vtruthy o = match o with Some t => truthy t | None => false end.
Proof. destruct o as [[p|[|x l]]|]; reflexivity. Qed.

Lemma otuple_leaf_tuple o : otuple o = leaf_tuple o.
Proof. destruct o as [[l|l]|]; reflexivity. Qed.

Lemma tget_leaf {P} (p : P) k : tget (Leaf p) k = None.
Proof. reflexivity. Qed.

Lemma t_subscriptions_leaf W p specs prov : t_subscriptions W (Leaf p) specs prov = [].
Proof. destruct specs; cbn [t_subscriptions]; apply flat_map_nil; intros x; rewrite tget_leaf; reflexivity. Qed.

(* ------------------------------------------------------------------ module-level walkers *)
Lemma g_lookup_eq W prov n specs : forall fuel c i, length specs - i < fuel ->
  g_lookup fuel W c specs prov n i (length specs) = t_lookup W c (skipn i specs) prov n.
Proof.
  induction fuel as [|f IH]; intros c i Hf; [lia|]. cbn [g_lookup].
  destruct (Nat.ltb i (length specs)) eqn:E.
  - apply Nat.ltb_lt in E. rewrite (skipn_nth root i specs E). cbn [t_lookup].
    apply fs_ext. intros x. cbv zeta. rewrite otruthy_v.
    destruct (tget c x) as [t|]; [|reflexivity]. cbn [odict].
    destruct (truthy t); [|reflexivity]. rewrite Nat.add_1_r. apply IH. lia.
  - apply Nat.ltb_ge in E. rewrite (skipn_ge i specs E). cbn [t_lookup].
    apply fs_ext. intros x. cbv zeta. rewrite otruthy_v.
    destruct (tget c x) as [t|]; [|reflexivity]. cbn [odict]. reflexivity.
Qed.

Lemma g_lookupAll_eq W prov specs : forall fuel c i acc, length specs - i < fuel ->
  g_lookupAll fuel W c specs prov acc i (length specs) = t_lookupAll W c (skipn i specs) prov acc.
Proof.
  induction fuel as [|f IH]; intros c i acc Hf; [lia|]. cbn [g_lookupAll].
  destruct (Nat.ltb i (length specs)) eqn:E.
  - apply Nat.ltb_lt in E. rewrite (skipn_nth root i specs E). cbn [t_lookupAll].
    apply fold_ext. intros a x. cbv zeta. rewrite otruthy_v.
    destruct (tget c x) as [t|]; [|reflexivity]. cbn [odict].
    destruct (truthy t); [|reflexivity]. rewrite Nat.add_1_r. apply IH. lia.
  - apply Nat.ltb_ge in E. rewrite (skipn_ge i specs E). cbn [t_lookupAll].
    apply fold_ext. intros a x. cbv zeta. rewrite otruthy_v.
    destruct (tget c x) as [t|]; [|reflexivity]. cbn [odict]. reflexivity.
Qed.

Lemma g_subscriptions_eq W prov specs : forall fuel c i acc, length specs - i < fuel ->
  g_subscriptions fuel W c specs prov 0 acc i (length specs) = acc ++ t_subscriptions W c (skipn i specs) prov.
Proof.
  induction fuel as [|f IH]; intros c i acc Hf; [lia|]. cbn [g_subscriptions].
  destruct (Nat.ltb i (length specs)) eqn:E.
  - apply Nat.ltb_lt in E. rewrite (skipn_nth root i specs E). cbn [t_subscriptions].
    apply fold_flat. intros a x. cbv zeta.
    destruct (tget c x) as [[p|[|e l]]|]; cbn [otruthy odict truthy]; try (rewrite app_nil_r; reflexivity).
    + destruct (tnonempty p).
      * rewrite Nat.add_1_r. apply IH. lia.
      * rewrite t_subscriptions_leaf, app_nil_r. reflexivity.
    + rewrite Nat.add_1_r. apply IH. lia.
  - apply Nat.ltb_ge in E. rewrite (skipn_ge i specs E). cbn [t_subscriptions].
    apply fold_flat. intros a x. cbv zeta.
    destruct (tget c x) as [[p|[|e l]]|]; cbn [otruthy odict truthy]; try (rewrite app_nil_r; reflexivity).
    + cbn. destruct (tnonempty p); rewrite app_nil_r; reflexivity.
    + destruct (tget (Node (e :: l)) 0) as [[tl|[|e' l']]|]; cbn [otruthy otuple leaf_tuple tnonempty];
        try (rewrite app_nil_r; reflexivity).
      destruct tl; cbn; [rewrite app_nil_r|]; reflexivity.
Qed.

(* ------------------------------------------------------------------ entry points *)
Lemma nth_error_order {P} (b : list (trie P)) o : Nat.leb (length b) o = false ->
  nth_error b o = Some (order_get b o).
Proof. intros H. apply Nat.leb_gt in H. unfold order_get. apply nth_error_nth'. exact H. Qed.

Lemma g_uncached_lookup_eq W ts required p n :
  g_uncached_lookup W ts required p n = t_uncached_lookup W ts required p n.
Proof.
  unfold g_uncached_lookup, t_uncached_lookup. cbv zeta. apply fs_ext. intros t.
  destruct (Nat.leb (length (t_adapters t)) (length required)) eqn:E; [reflexivity|].
  rewrite (nth_error_order _ _ E). unfold ext_get.
  destruct (aget Nat.eqb (t_extendors t) p) as [[|e l]|]; cbn [lotruthy negb olist]; try reflexivity.
  rewrite g_lookup_eq by lia. reflexivity.
Qed.

Lemma g_uncached_lookupAll_eq W ts required p :
  g_uncached_lookupAll W ts required p = t_uncached_lookupAll W ts required p.
Proof.
  unfold g_uncached_lookupAll, t_uncached_lookupAll. cbv zeta. apply fold_ext. intros acc t.
  destruct (Nat.leb (length (t_adapters t)) (length required)) eqn:E; [reflexivity|].
  rewrite (nth_error_order _ _ E). unfold ext_get.
  destruct (aget Nat.eqb (t_extendors t) p) as [[|e l]|]; cbn [lotruthy negb olist]; try reflexivity.
  rewrite g_lookupAll_eq by lia. reflexivity.
Qed.

Lemma g_uncached_subscriptions_eq W ts required p :
  g_uncached_subscriptions W ts required p = t_uncached_subscriptions W ts required p.
Proof.
  unfold g_uncached_subscriptions, t_uncached_subscriptions. cbv zeta.
  rewrite fold_flat with (h := fun t =>
              let byorder := t_subscribers t in
              if Nat.leb (length byorder) (length required) then [] else
              match p with
              | None => t_subscriptions W (order_get byorder (length required)) required [pkey None]
              | Some p' => match aget Nat.eqb (t_extendors t) p' with
                           | None => []
                           | Some exts => t_subscriptions W (order_get byorder (length required)) required
                                                          (map (fun e => pkey (Some e)) exts)
                           end
              end); [reflexivity|].
  intros acc t. cbv zeta.
  destruct (Nat.leb (length (t_subscribers t)) (length required)) eqn:E; [rewrite app_nil_r; reflexivity|].
  rewrite (nth_error_order _ _ E).
  destruct p as [p'|].
  - destruct (aget Nat.eqb (t_extendors t) p') as [exts|]; [|rewrite app_nil_r; reflexivity].
    rewrite g_subscriptions_eq by lia. reflexivity.
  - rewrite g_subscriptions_eq by lia. reflexivity.
Qed.

(* ------------------------------------------------------------------ extendors, None *)
Lemma g_add_extendor_eq W e p : g_add_extendor W e p = add_extendor W e p.
Proof.
  unfold g_add_extendor, add_extendor. apply fold_ext. intros d i. cbv zeta.
  rewrite <- app_assoc. reflexivity.
Qed.

Lemma g_remove_extendor_eq W e p : g_remove_extendor W e p = remove_extendor W e p.
Proof. reflexivity. Qed.

Lemma g_init_extendors_eq W c : g_init_extendors W c = fold_left (add_extendor W) (map fst c) [].
Proof. unfold g_init_extendors. apply fold_ext. intros d p. apply g_add_extendor_eq. Qed.

Lemma g_convert_eq x : g_convert_None_to_Interface x = conv x.
Proof. destruct x; reflexivity. Qed.

Lemma generated_walkers_eq_trie_lemma W ts required :
  (forall p n, g_uncached_lookup W ts required p n = t_uncached_lookup W ts required p n)
  /\ (forall p, g_uncached_lookupAll W ts required p = t_uncached_lookupAll W ts required p)
  /\ (forall p, g_uncached_subscriptions W ts required p = t_uncached_subscriptions W ts required p)
  /\ (forall fuel c specs prov n, length specs < fuel ->
        g_lookup fuel W c specs prov n 0 (length specs) = t_lookup W c specs prov n)
  /\ (forall fuel c specs prov acc, length specs < fuel ->
        g_lookupAll fuel W c specs prov acc 0 (length specs) = t_lookupAll W c specs prov acc)
  /\ (forall fuel c specs prov acc, length specs < fuel ->
        g_subscriptions fuel W c specs prov 0 acc 0 (length specs) = acc ++ t_subscriptions W c specs prov).
Proof.
  split; [|split; [|split; [|split; [|split]]]]; intros.
  - apply g_uncached_lookup_eq.
  - apply g_uncached_lookupAll_eq.
  - apply g_uncached_subscriptions_eq.
  - rewrite g_lookup_eq by lia. reflexivity.
  - rewrite g_lookupAll_eq by lia. reflexivity.
  - rewrite g_subscriptions_eq by lia. reflexivity.
Qed.

Lemma generated_extendors_eq_model_lemma W :
  (forall e p, g_add_extendor W e p = add_extendor W e p)
  /\ (forall e p, g_remove_extendor W e p = remove_extendor W e p)
  /\ (forall c, g_init_extendors W c = fold_left (add_extendor W) (map fst c) [])
  /\ (forall x, g_convert_None_to_Interface x = conv x).
Proof.
  split; [|split; [|split]]; intros.
  - apply g_add_extendor_eq.
  - apply g_remove_extendor_eq.
  - apply g_init_extendors_eq.
  - apply g_convert_eq.
Qed.

(* ------------------------------------------------------------------ generated = flat model *)
Lemma generated_walkers_eq_model_lemma W ts rs required : Forall2 (R W) ts rs ->
  (forall p n, g_uncached_lookup W ts required p n = uncached_lookup W rs required p n)
  /\ (forall p, g_uncached_subscriptions W ts required p = uncached_subscriptions W rs required p)
  /\ (forall p n, aget Nat.eqb (g_uncached_lookupAll W ts required p) n
                  = aget Nat.eqb (uncached_lookupAll W rs required p) n).
Proof.
  intros F. split; [|split].
  - intros p n. rewrite g_uncached_lookup_eq. apply t_uncached_lookup_flat; auto.
  - intros p. rewrite g_uncached_subscriptions_eq. apply t_uncached_subscriptions_flat; auto.
  - intros p n. rewrite g_uncached_lookupAll_eq. apply t_uncached_lookupAll_flat; auto.
Qed.

(* the registries reached by histories, in lockstep on nested dictionaries and on the flat map *)
Definition reached_tries (W : world) (hs : list (list bop)) : list treg := map (fun ops => fst (lock_run W ops)) hs.
Definition reached_flat (W : world) (hs : list (list bop)) : list reg := map (fun ops => snd (lock_run W ops)) hs.

Lemma reached_related W hs : Forall2 (R W) (reached_tries W hs) (reached_flat W hs).
Proof. induction hs as [|ops hs IH]; cbn; constructor; auto. apply sim_run_R. Qed.

Lemma generated_lookup_reached_lemma W hs required p n :
  g_uncached_lookup W (reached_tries W hs) required p n = uncached_lookup W (reached_flat W hs) required p n.
Proof. apply generated_walkers_eq_model_lemma. apply reached_related. Qed.

(* the flat side of a lockstep history satisfies the extendors invariant *)
Lemma inv_replay_into W r0 regs subs : wf_world W -> reg_inv W r0 -> reg_inv W (replay_into W r0 regs subs).
Proof.
  intros Hwf H0. unfold replay_into, replay_subs, replay_regs.
  assert (H1 : forall regs r, reg_inv W r ->
            reg_inv W (fold_left (fun acc kv => let '(req, p, n) := fst kv in
                                                register W acc (map Some req) p n (Some (snd kv))) regs r)).
  { induction regs0 as [|[[[rq p] n] v] l IH]; intros r Hr; cbn [fold_left]; auto.
    apply IH. cbn [fst snd]. apply inv_register; auto. }
  assert (H2 : forall subs r, reg_inv W r ->
            reg_inv W (fold_left (fun acc kv => subscribe W acc (map Some (fst (fst kv))) (snd (fst kv)) (snd kv)) subs r)).
  { induction subs0 as [|[[rq p] v] l IH]; intros r Hr; cbn [fold_left]; auto.
    apply IH. cbn [fst snd]. apply inv_subscribe; auto. }
  apply H2, H1, H0.
Qed.

Lemma lock_run_inv W ops : wf_world W -> reg_inv W (snd (lock_run W ops)).
Proof.
  intros Hwf. unfold lock_run. induction ops as [|o ops IH] using rev_ind; [apply reg_inv_empty|].
  rewrite fold_left_app. cbn [fold_left]. destruct (fold_left (lock_step W) ops (t_empty, empty_reg)) as [t r].
  cbn [snd] in IH. destruct o; cbn [lock_step snd fst bstep].
  - apply inv_register; auto.
  - apply inv_unregister; auto.
  - apply inv_subscribe; auto.
  - apply inv_unsubscribe; auto.
  - apply inv_replay_into; auto. apply reg_inv_empty.
Qed.

Lemma reached_flat_inv W hs : wf_world W -> Forall (ext_inv W) (reached_flat W hs).
Proof.
  intros Hwf. apply Forall_forall. intros r Hr. apply in_map_iff in Hr. destruct Hr as (ops & <- & _).
  apply reg_inv_ext_inv. apply lock_run_inv; auto.
Qed.

Lemma generated_lookup_meets_spec_lemma W hs looked p n : wf_world W -> w_iface W p = true ->
  let ro := reached_flat W hs in
  (g_uncached_lookup W (reached_tries W hs) looked p n = None <->
   forall r req pr v, In r ro -> live r req pr n v -> ~ applicable W req pr n looked p n)
  /\ forall v, g_uncached_lookup W (reached_tries W hs) looked p n = Some v ->
     exists iw rw reqw pw,
       nth_error ro iw = Some rw /\ live rw reqw pw n v /\ applicable W reqw pw n looked p n /\
       forall ic rc reqc pc vc,
         nth_error ro ic = Some rc -> live rc reqc pc n vc -> applicable W reqc pc n looked p n ->
         preferred W looked iw reqw pw ic reqc pc.
Proof.
  intros Hwf Hif ro. rewrite generated_lookup_reached_lemma. fold ro.
  pose proof (reached_flat_inv W hs Hwf) as Hinv. fold ro in Hinv. split.
  - apply lookup_complete_lemma; auto.
  - intros v Hv. apply lookup_least_lemma; auto.
Qed.
