(* The C slot IB_richcompare as extracted from the C source on every run (Gen/CompareC.v) equals
   the hand-written c_richcompare of Model/Order.v that the C12 theorems are about.  If the C
   function changes, either this file stops checking or the extractor refuses. *)
From Coq Require Import List NArith Bool.
From ZI Require Import Lib.Str Model.Order Gen.CompareC.

Lemma gen_c_richcompare_eq_model o self other :
  gen_c_richcompare o self other = c_richcompare o self other.
Proof.
  unfold gen_c_richcompare, c_richcompare, gen_c_same_true, gen_c_same_false, gen_c_none_true.
  destruct (same_obj self other); destruct o; cbn [andb orb]; try reflexivity;
    destruct (okind_of other); reflexivity.
Qed.

(* with the generated slot in the method table, the operator semantics is the model's *)
Lemma gen_c_method_table o self other :
  okind_of self = KIface ->
  method_table true o self other = gen_c_richcompare o self other.
Proof.
  intros K. unfold method_table. rewrite K. cbn. symmetry. apply gen_c_richcompare_eq_model.
Qed.
