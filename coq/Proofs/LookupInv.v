(* Proofs for property C04, part 2: the extendors / _provided invariant holds after every
   history of register / unregister / subscribe / unsubscribe / rebuild. *)
From Coq Require Import List Arith Bool Lia Permutation.
Import ListNotations.
From ZI Require Import Model.Ro Model.Adapter Spec.LookupSpec Proofs.LookupSpec.

(* ------------------------------------------------------------------ association lists *)
Section AssocFacts.
  Context {K V : Type} (eqb : K -> K -> bool).
  Hypothesis eqb_eq : forall a b, eqb a b = true <-> a = b.

  Lemma eqb_refl' k : eqb k k = true.
  Proof. apply eqb_eq; auto. Qed.

  Lemma eqb_neq k k' : k <> k' -> eqb k k' = false.
  Proof. intros H. destruct (eqb k k') eqn:E; auto. apply eqb_eq in E. contradiction. Qed.

  Lemma aget_aset_same (m : list (K * V)) k v : aget eqb (aset eqb m k v) k = Some v.
  Proof.
    induction m as [|[k' v'] m IH]; cbn; [rewrite eqb_refl'; auto|].
    destruct (eqb k k') eqn:E; cbn; rewrite E; auto.
  Qed.

  Lemma aget_aset_other (m : list (K * V)) k k' v : k' <> k -> aget eqb (aset eqb m k v) k' = aget eqb m k'.
  Proof.
    intros Hne. induction m as [|[k2 v2] m IH]; cbn; [rewrite eqb_neq; auto|].
    destruct (eqb k k2) eqn:E; cbn.
    - apply eqb_eq in E; subst k2. rewrite eqb_neq; auto.
    - destruct (eqb k' k2); auto.
  Qed.

  Lemma aget_adel_other (m : list (K * V)) k k' : k' <> k -> aget eqb (adel eqb m k) k' = aget eqb m k'.
  Proof.
    intros Hne. induction m as [|[k2 v2] m IH]; cbn; auto.
    destruct (eqb k k2) eqn:E; cbn.
    - apply eqb_eq in E; subst k2. rewrite eqb_neq; auto.
    - destruct (eqb k' k2); auto.
  Qed.

  Lemma aget_none_keys (m : list (K * V)) k : aget eqb m k = None <-> ~ In k (map fst m).
  Proof.
    induction m as [|[k2 v2] m IH]; cbn; [tauto|].
    destruct (eqb k k2) eqn:E.
    - apply eqb_eq in E; subst. split; [discriminate|tauto].
    - rewrite IH. split; [intros H [->|H']; [rewrite eqb_refl' in E; discriminate|tauto] | tauto].
  Qed.

  Lemma aget_adel_same (m : list (K * V)) k : NoDup (map fst m) -> aget eqb (adel eqb m k) k = None.
  Proof.
    induction m as [|[k2 v2] m IH]; cbn; auto. intros Hnd. inversion Hnd; subst.
    destruct (eqb k k2) eqn:E; cbn.
    - apply eqb_eq in E; subst. apply aget_none_keys; auto.
    - rewrite E. auto.
  Qed.

  Lemma keys_adel_incl (m : list (K * V)) k x : In x (map fst (adel eqb m k)) -> In x (map fst m).
  Proof.
    induction m as [|[k2 v2] m IH]; cbn; auto.
    destruct (eqb k k2); cbn; [auto|]. intros [H|H]; auto.
  Qed.

  Lemma keys_adel_nodup (m : list (K * V)) k : NoDup (map fst m) -> NoDup (map fst (adel eqb m k)).
  Proof.
    induction m as [|[k2 v2] m IH]; cbn; auto. intros Hnd; inversion Hnd; subst.
    destruct (eqb k k2); cbn; auto. constructor; auto. intros H; apply keys_adel_incl in H; auto.
  Qed.

  Lemma keys_aset_in (m : list (K * V)) k v x : In x (map fst (aset eqb m k v)) -> x = k \/ In x (map fst m).
  Proof.
    induction m as [|[k2 v2] m IH]; cbn; [intros [H|H]; auto|].
    destruct (eqb k k2); cbn; [tauto|]. intros [H|H]; auto. apply IH in H; tauto.
  Qed.

  Lemma keys_aset_nodup (m : list (K * V)) k v : NoDup (map fst m) -> NoDup (map fst (aset eqb m k v)).
  Proof.
    induction m as [|[k2 v2] m IH]; cbn; [intros; constructor; auto; constructor|].
    intros Hnd; inversion Hnd; subst. destruct (eqb k k2) eqn:E; cbn; [constructor; auto|].
    constructor; auto. intros H. apply keys_aset_in in H. destruct H as [->|H]; auto.
    rewrite eqb_refl' in E. discriminate.
  Qed.

  (* weighted sums over the entries *)
  Variable w : K -> V -> nat.
  Definition sumw (m : list (K * V)) : nat := fold_right (fun kv acc => w (fst kv) (snd kv) + acc) 0 m.

  Lemma sumw_aset_none m k v : aget eqb m k = None -> sumw (aset eqb m k v) = sumw m + w k v.
  Proof.
    unfold sumw. induction m as [|[k2 v2] m IH]; cbn; [lia|].
    destruct (eqb k k2) eqn:E; [discriminate|]. intros H. cbn. rewrite IH; auto. lia.
  Qed.

  Lemma sumw_aset_some m k v old : aget eqb m k = Some old -> sumw (aset eqb m k v) + w k old = sumw m + w k v.
  Proof.
    unfold sumw. induction m as [|[k2 v2] m IH]; cbn; [discriminate|].
    destruct (eqb k k2) eqn:E.
    - apply eqb_eq in E; subst k2. intros H; inversion H; subst. cbn. lia.
    - intros H. cbn. specialize (IH H). lia.
  Qed.

  Lemma sumw_adel_some m k old : aget eqb m k = Some old -> sumw (adel eqb m k) + w k old = sumw m.
  Proof.
    unfold sumw. induction m as [|[k2 v2] m IH]; cbn; [discriminate|].
    destruct (eqb k k2) eqn:E.
    - apply eqb_eq in E; subst k2. intros H; inversion H; subst. lia.
    - intros H. cbn. specialize (IH H). lia.
  Qed.
End AssocFacts.

Lemma nat_eqb_eq a b : Nat.eqb a b = true <-> a = b.
Proof. apply Nat.eqb_eq. Qed.

(* ------------------------------------------------------------------ counts as weighted sums *)
Definition wa (p : spec) (k : akey) (_ : value) : nat := if Nat.eqb (akey_provided k) p then 1 else 0.
Definition ws (p : spec) (k : skey) (l : list value) : nat := if ospec_eqb (snd k) (Some p) then length l else 0.

Definition n_ad (a : list (akey * value)) (p : spec) : nat := sumw (wa p) a.
Definition n_su (s : list (skey * list value)) (p : spec) : nat := sumw (ws p) s.

Lemma n_adapters_sumw r p : n_adapters r p = n_ad (adapters r) p.
Proof.
  unfold n_adapters, n_ad, sumw, wa. induction (adapters r) as [|kv m IH]; cbn; auto.
  destruct (Nat.eqb (akey_provided (fst kv)) p); cbn; rewrite IH; auto.
Qed.

Lemma n_subscriptions_sumw r p : n_subscriptions r p = n_su (subscribers r) p.
Proof. reflexivity. Qed.

(* ------------------------------------------------------------------ extendors surgery *)
Definition upd_ext (g : list spec -> list spec) (l : list spec) (e : list (spec * list spec)) :=
  fold_left (fun e i => aset Nat.eqb e i (g (ext_get e i))) l e.

Lemma ext_get_aset e i l j : ext_get (aset Nat.eqb e i l) j = if Nat.eqb j i then l else ext_get e j.
Proof.
  unfold ext_get. destruct (Nat.eqb j i) eqn:E.
  - apply Nat.eqb_eq in E; subst. rewrite (aget_aset_same Nat.eqb nat_eqb_eq). auto.
  - rewrite (aget_aset_other Nat.eqb nat_eqb_eq); auto. apply Nat.eqb_neq; auto.
Qed.

Lemma ext_get_upd g : forall l e j, NoDup l ->
  ext_get (upd_ext g l e) j = if mem j l then g (ext_get e j) else ext_get e j.
Proof.
  induction l as [|a l IH]; intros e j Hnd; cbn; auto.
  inversion Hnd; subst. unfold upd_ext in IH. rewrite IH; auto. rewrite !ext_get_aset.
  destruct (Nat.eqb j a) eqn:E; cbn.
  - apply Nat.eqb_eq in E; subst. assert (mem a l = false) by (apply memF; auto).
    rewrite H. auto.
  - auto.
Qed.

Definition add_list (W : world) (p : spec) (old : list spec) : list spec :=
  filter (fun x => isOrExtends W p x) old ++ [p] ++ filter (fun x => negb (isOrExtends W p x)) old.
Definition rem_list (p : spec) (old : list spec) : list spec := filter (fun x => negb (Nat.eqb x p)) old.

Lemma add_extendor_upd W e p : add_extendor W e p = upd_ext (add_list W p) (iro W p) e.
Proof. reflexivity. Qed.
Lemma remove_extendor_upd W e p : remove_extendor W e p = upd_ext (rem_list p) (iro W p) e.
Proof. reflexivity. Qed.

Lemma in_add_list W p old q : In q (add_list W p old) <-> q = p \/ In q old.
Proof.
  unfold add_list. rewrite !in_app_iff, !filter_In. cbn.
  destruct (isOrExtends W p q) eqn:E; cbn; intuition congruence.
Qed.

Lemma in_rem_list p old q : In q (rem_list p old) <-> q <> p /\ In q old.
Proof.
  unfold rem_list. rewrite filter_In, negb_true_iff, Nat.eqb_neq. tauto.
Qed.

Lemma nodup_partition {A} (f : A -> bool) l :
  NoDup l -> NoDup (filter f l ++ filter (fun x => negb (f x)) l).
Proof.
  induction l as [|x l IH]; cbn; [constructor|]. intros Hnd; inversion Hnd; subst.
  destruct (f x); cbn.
  - constructor; auto. rewrite in_app_iff, !filter_In. tauto.
  - apply (NoDup_Add (Add_app x _ _)). split; auto.
    rewrite in_app_iff, !filter_In. tauto.
Qed.

Lemma nodup_add_list W p old : NoDup old -> ~ In p old -> NoDup (add_list W p old).
Proof.
  intros Hnd Hp. unfold add_list. cbn [app].
  apply (NoDup_Add (Add_app p _ _)). split; [apply nodup_partition; auto|].
  rewrite in_app_iff, !filter_In. tauto.
Qed.

Lemma gen_first_app W l1 l2 :
  gen_first W (l1 ++ l2) <->
  gen_first W l1 /\ gen_first W l2 /\ forall a q, In a l1 -> In q l2 -> ~ strict_ext W a q.
Proof.
  induction l1 as [|x l1 IH]; cbn.
  - intuition.
  - rewrite IH. split.
    + intros (Hx & H1 & H2 & H3). repeat split; auto.
      * intros q Hq; apply Hx; apply in_or_app; auto.
      * intros a q [<-|Ha] Hq; [apply Hx; apply in_or_app; auto | apply H3; auto].
    + intros ((Hx & H1) & H2 & H3). repeat split; auto.
      intros q Hq; apply in_app_or in Hq. destruct Hq; auto.
Qed.

Lemma gen_first_filter W f l : gen_first W l -> gen_first W (filter f l).
Proof.
  induction l as [|x l IH]; cbn; auto. intros [Hx Hl].
  destruct (f x); cbn; auto. split; auto. intros q Hq. apply filter_In in Hq. apply Hx; tauto.
Qed.

Lemma isOrExtends_trans W : sro_closed W -> forall a b c,
  isOrExtends W a b = true -> isOrExtends W b c = true -> isOrExtends W a c = true.
Proof.
  unfold isOrExtends. intros Hc a b c Hab Hbc. apply memP. apply memP in Hab, Hbc.
  eapply Hc; eauto.
Qed.

Lemma gen_first_add_list W p old : sro_closed W -> gen_first W old -> gen_first W (add_list W p old).
Proof.
  intros Hc Hg. unfold add_list. apply gen_first_app. split; [apply gen_first_filter; auto|]. split.
  - cbn [app gen_first]. split; [|apply gen_first_filter; auto].
    intros q Hq [H1 _]. apply filter_In in Hq. destruct Hq as [_ Hq]. rewrite H1 in Hq. discriminate.
  - intros a q Ha Hq. apply filter_In in Ha. destruct Ha as [_ Hpa].
    cbn [app] in Hq. destruct Hq as [<-|Hq].
    + intros [_ H2]. congruence.
    + apply filter_In in Hq. destruct Hq as [_ Hpq]. intros [Haq _].
      rewrite (isOrExtends_trans W Hc _ _ _ Hpa Haq) in Hpq. discriminate.
Qed.

(* ------------------------------------------------------------------ the count / extendors invariant *)
Definition ec_inv (W : world) (c : list (spec * nat)) (e : list (spec * list spec)) : Prop :=
  (forall i p, In p (ext_get e i) <-> (0 < cnt_get c p /\ In i (iro W p))) /\
  (forall i, NoDup (ext_get e i)) /\
  (forall i, gen_first W (ext_get e i)) /\
  NoDup (map fst c).

Lemma cnt_get_aset c p n q : cnt_get (aset Nat.eqb c p n) q = if Nat.eqb q p then n else cnt_get c q.
Proof.
  unfold cnt_get. destruct (Nat.eqb q p) eqn:E.
  - apply Nat.eqb_eq in E; subst. rewrite (aget_aset_same Nat.eqb nat_eqb_eq). auto.
  - rewrite (aget_aset_other Nat.eqb nat_eqb_eq); auto. apply Nat.eqb_neq; auto.
Qed.

Lemma cnt_get_adel c p q : NoDup (map fst c) ->
  cnt_get (adel Nat.eqb c p) q = if Nat.eqb q p then 0 else cnt_get c q.
Proof.
  intros Hnd. unfold cnt_get. destruct (Nat.eqb q p) eqn:E.
  - apply Nat.eqb_eq in E; subst. rewrite (aget_adel_same Nat.eqb nat_eqb_eq); auto.
  - rewrite (aget_adel_other Nat.eqb nat_eqb_eq); auto. apply Nat.eqb_neq; auto.
Qed.

Lemma nodup_iro W p : sro_nodup W -> NoDup (iro W p).
Proof. intros H. unfold iro. apply NoDup_filter. apply H. Qed.

Lemma ec_inv_incr W r p : wf_world W ->
  ec_inv W (provided_cnt r) (extendors r) ->
  ec_inv W (provided_cnt (provide_incr W r p)) (extendors (provide_incr W r p)) /\
  (forall q, cnt_get (provided_cnt (provide_incr W r p)) q =
             if Nat.eqb q p then S (cnt_get (provided_cnt r) p) else cnt_get (provided_cnt r) q).
Proof.
  intros (_ & Hnd & Hcl) (Hmem & Hnd2 & Hgf & Hk).
  unfold provide_incr. cbv zeta. cbn [provided_cnt extendors].
  split; [|intros q; apply cnt_get_aset].
  destruct (Nat.eqb (S (cnt_get (provided_cnt r) p)) 1) eqn:E1.
  - apply Nat.eqb_eq in E1. assert (H0 : cnt_get (provided_cnt r) p = 0) by lia.
    rewrite add_extendor_upd. split; [|split; [|split]].
    + intros i q. rewrite ext_get_upd by (apply nodup_iro; auto). rewrite cnt_get_aset.
      specialize (Hmem i q).
      destruct (mem i (iro W p)) eqn:Em.
      * rewrite in_add_list. destruct (Nat.eqb q p) eqn:Ep.
        -- apply Nat.eqb_eq in Ep; subst q. apply memP in Em. split; [intros _; split; [lia|auto] | auto].
        -- apply Nat.eqb_neq in Ep. rewrite Hmem. tauto.
      * rewrite Hmem. destruct (Nat.eqb q p) eqn:Ep; [|tauto].
        apply Nat.eqb_eq in Ep; subst q. apply memF in Em. split; [lia|tauto].
    + intros i. rewrite ext_get_upd by (apply nodup_iro; auto).
      destruct (mem i (iro W p)); auto. apply nodup_add_list; auto.
      intros Hi. apply Hmem in Hi. lia.
    + intros i. rewrite ext_get_upd by (apply nodup_iro; auto).
      destruct (mem i (iro W p)); auto. apply gen_first_add_list; auto.
    + apply (keys_aset_nodup Nat.eqb nat_eqb_eq); auto.
  - apply Nat.eqb_neq in E1. split; [|split; [|split]]; auto.
    + intros i q. rewrite cnt_get_aset. rewrite (Hmem i q).
      destruct (Nat.eqb q p) eqn:Ep; [|tauto]. apply Nat.eqb_eq in Ep; subst q.
      split; intros [Hc Hi]; split; auto; lia.
    + apply (keys_aset_nodup Nat.eqb nat_eqb_eq); auto.
Qed.

Lemma ec_inv_decr W r p k : wf_world W ->
  ec_inv W (provided_cnt r) (extendors r) ->
  ec_inv W (provided_cnt (provide_decr W r p k)) (extendors (provide_decr W r p k)) /\
  (forall q, cnt_get (provided_cnt (provide_decr W r p k)) q =
             if Nat.eqb q p then cnt_get (provided_cnt r) p - k else cnt_get (provided_cnt r) q).
Proof.
  intros (_ & Hnd & Hcl) (Hmem & Hnd2 & Hgf & Hk).
  unfold provide_decr. cbv zeta.
  destruct (Nat.eqb (cnt_get (provided_cnt r) p - k) 0) eqn:E0; cbn [provided_cnt extendors].
  - apply Nat.eqb_eq in E0. split.
    2:{ intros q. rewrite cnt_get_adel; auto. destruct (Nat.eqb q p); auto. }
    rewrite remove_extendor_upd. split; [|split; [|split]].
    + intros i q. rewrite ext_get_upd by (apply nodup_iro; auto). rewrite cnt_get_adel; auto.
      specialize (Hmem i q).
      destruct (mem i (iro W p)) eqn:Em.
      * rewrite in_rem_list. destruct (Nat.eqb q p) eqn:Ep.
        -- apply Nat.eqb_eq in Ep. split; [tauto|lia].
        -- apply Nat.eqb_neq in Ep. rewrite Hmem. tauto.
      * rewrite Hmem. destruct (Nat.eqb q p) eqn:Ep; [|tauto].
        apply Nat.eqb_eq in Ep; subst q. apply memF in Em. split; [tauto|lia].
    + intros i. rewrite ext_get_upd by (apply nodup_iro; auto).
      destruct (mem i (iro W p)); auto. apply NoDup_filter; auto.
    + intros i. rewrite ext_get_upd by (apply nodup_iro; auto).
      destruct (mem i (iro W p)); auto. apply gen_first_filter; auto.
    + apply (keys_adel_nodup Nat.eqb); auto.
  - apply Nat.eqb_neq in E0. split; [|intros q; apply cnt_get_aset].
    split; [|split; [|split]]; auto.
    + intros i q. rewrite cnt_get_aset. rewrite (Hmem i q).
      destruct (Nat.eqb q p) eqn:Ep; [|tauto]. apply Nat.eqb_eq in Ep; subst q.
      split; intros [Hc Hi]; split; auto; lia.
    + apply (keys_aset_nodup Nat.eqb nat_eqb_eq); auto.
Qed.
