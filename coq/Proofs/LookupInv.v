(* Proofs for property C04, part 2: the extendors / _provided invariant holds after every
   history of register / unregister / subscribe / unsubscribe / rebuild. *)
From Coq Require Import List Arith Bool Lia Permutation.
Import ListNotations.
From ZI Require Import Model.Ro Model.Adapter Spec.LookupSpec Proofs.LookupSpec.

(* ------------------------------------------------------------------ association lists *)
Section AssocFacts.
  Context {K V : Type} (eqb : K -> K -> bool).
  Hypothesis eqb_eq : forall a b, eqb a b = true <-> a = b.

  Lemma eqb_refl' k : eqb k k = true.
  Proof. apply eqb_eq; auto. Qed.

  Lemma eqb_neq k k' : k <> k' -> eqb k k' = false.
  Proof. intros H. destruct (eqb k k') eqn:E; auto. apply eqb_eq in E. contradiction. Qed.

  Lemma aget_aset_same (m : list (K * V)) k v : aget eqb (aset eqb m k v) k = Some v.
  Proof.
    induction m as [|[k' v'] m IH]; cbn; [rewrite eqb_refl'; auto|].
    destruct (eqb k k') eqn:E; cbn; rewrite E; auto.
  Qed.

  Lemma aget_aset_other (m : list (K * V)) k k' v : k' <> k -> aget eqb (aset eqb m k v) k' = aget eqb m k'.
  Proof.
    intros Hne. induction m as [|[k2 v2] m IH]; cbn; [rewrite eqb_neq; auto|].
    destruct (eqb k k2) eqn:E; cbn.
    - apply eqb_eq in E; subst k2. rewrite eqb_neq; auto.
    - destruct (eqb k' k2); auto.
  Qed.

  Lemma aget_adel_other (m : list (K * V)) k k' : k' <> k -> aget eqb (adel eqb m k) k' = aget eqb m k'.
  Proof.
    intros Hne. induction m as [|[k2 v2] m IH]; cbn; auto.
    destruct (eqb k k2) eqn:E; cbn.
    - apply eqb_eq in E; subst k2. rewrite eqb_neq; auto.
    - destruct (eqb k' k2); auto.
  Qed.

  Lemma aget_none_keys (m : list (K * V)) k : aget eqb m k = None <-> ~ In k (map fst m).
  Proof.
    induction m as [|[k2 v2] m IH]; cbn; [tauto|].
    destruct (eqb k k2) eqn:E.
    - apply eqb_eq in E; subst. split; [discriminate|tauto].
    - rewrite IH. split; [intros H [->|H']; [rewrite eqb_refl' in E; discriminate|tauto] | tauto].
  Qed.

  Lemma aget_adel_same (m : list (K * V)) k : NoDup (map fst m) -> aget eqb (adel eqb m k) k = None.
  Proof.
    induction m as [|[k2 v2] m IH]; cbn; auto. intros Hnd. inversion Hnd; subst.
    destruct (eqb k k2) eqn:E; cbn.
    - apply eqb_eq in E; subst. apply aget_none_keys; auto.
    - rewrite E. auto.
  Qed.

  Lemma keys_adel_incl (m : list (K * V)) k x : In x (map fst (adel eqb m k)) -> In x (map fst m).
  Proof.
    induction m as [|[k2 v2] m IH]; cbn; auto.
    destruct (eqb k k2); cbn; [auto|]. intros [H|H]; auto.
  Qed.

  Lemma keys_adel_nodup (m : list (K * V)) k : NoDup (map fst m) -> NoDup (map fst (adel eqb m k)).
  Proof.
    induction m as [|[k2 v2] m IH]; cbn; auto. intros Hnd; inversion Hnd; subst.
    destruct (eqb k k2); cbn; auto. constructor; auto. intros H; apply keys_adel_incl in H; auto.
  Qed.

  Lemma keys_aset_in (m : list (K * V)) k v x : In x (map fst (aset eqb m k v)) -> x = k \/ In x (map fst m).
  Proof.
    induction m as [|[k2 v2] m IH]; cbn; [intros [H|H]; auto|].
    destruct (eqb k k2); cbn; [tauto|]. intros [H|H]; auto. apply IH in H; tauto.
  Qed.

  Lemma keys_aset_nodup (m : list (K * V)) k v : NoDup (map fst m) -> NoDup (map fst (aset eqb m k v)).
  Proof.
    induction m as [|[k2 v2] m IH]; cbn; [intros; constructor; auto; constructor|].
    intros Hnd; inversion Hnd; subst. destruct (eqb k k2) eqn:E; cbn; [constructor; auto|].
    constructor; auto. intros H. apply keys_aset_in in H. destruct H as [->|H]; auto.
    rewrite eqb_refl' in E. discriminate.
  Qed.

  (* weighted sums over the entries *)
  Variable w : K -> V -> nat.
  Definition sumw (m : list (K * V)) : nat := fold_right (fun kv acc => w (fst kv) (snd kv) + acc) 0 m.

  Lemma sumw_aset_none m k v : aget eqb m k = None -> sumw (aset eqb m k v) = sumw m + w k v.
  Proof.
    unfold sumw. induction m as [|[k2 v2] m IH]; cbn; [lia|].
    destruct (eqb k k2) eqn:E; [discriminate|]. intros H. cbn. rewrite IH; auto. lia.
  Qed.

  Lemma sumw_aset_some m k v old : aget eqb m k = Some old -> sumw (aset eqb m k v) + w k old = sumw m + w k v.
  Proof.
    unfold sumw. induction m as [|[k2 v2] m IH]; cbn; [discriminate|].
    destruct (eqb k k2) eqn:E.
    - apply eqb_eq in E; subst k2. intros H; inversion H; subst. cbn. lia.
    - intros H. cbn. specialize (IH H). lia.
  Qed.

  Lemma sumw_adel_some m k old : aget eqb m k = Some old -> sumw (adel eqb m k) + w k old = sumw m.
  Proof.
    unfold sumw. induction m as [|[k2 v2] m IH]; cbn; [discriminate|].
    destruct (eqb k k2) eqn:E.
    - apply eqb_eq in E; subst k2. intros H; inversion H; subst. lia.
    - intros H. cbn. specialize (IH H). lia.
  Qed.
End AssocFacts.

Lemma nat_eqb_eq a b : Nat.eqb a b = true <-> a = b.
Proof. apply Nat.eqb_eq. Qed.

(* ------------------------------------------------------------------ counts as weighted sums *)
Definition wa (p : spec) (k : akey) (_ : value) : nat := if Nat.eqb (akey_provided k) p then 1 else 0.
Definition ws (p : spec) (k : skey) (l : list value) : nat := if ospec_eqb (snd k) (Some p) then length l else 0.

Definition n_ad (a : list (akey * value)) (p : spec) : nat := sumw (wa p) a.
Definition n_su (s : list (skey * list value)) (p : spec) : nat := sumw (ws p) s.

Lemma n_adapters_sumw r p : n_adapters r p = n_ad (adapters r) p.
Proof.
  unfold n_adapters, n_ad, sumw, wa. induction (adapters r) as [|kv m IH]; cbn; auto.
  destruct (Nat.eqb (akey_provided (fst kv)) p); cbn; rewrite IH; auto.
Qed.

Lemma n_subscriptions_sumw r p : n_subscriptions r p = n_su (subscribers r) p.
Proof. reflexivity. Qed.

(* ------------------------------------------------------------------ extendors surgery *)
Definition upd_ext (g : list spec -> list spec) (l : list spec) (e : list (spec * list spec)) :=
  fold_left (fun e i => aset Nat.eqb e i (g (ext_get e i))) l e.

Lemma ext_get_aset e i l j : ext_get (aset Nat.eqb e i l) j = if Nat.eqb j i then l else ext_get e j.
Proof.
  unfold ext_get. destruct (Nat.eqb j i) eqn:E.
  - apply Nat.eqb_eq in E; subst. rewrite (aget_aset_same Nat.eqb nat_eqb_eq). auto.
  - rewrite (aget_aset_other Nat.eqb nat_eqb_eq); auto. apply Nat.eqb_neq; auto.
Qed.

Lemma ext_get_upd g : forall l e j, NoDup l ->
  ext_get (upd_ext g l e) j = if mem j l then g (ext_get e j) else ext_get e j.
Proof.
  induction l as [|a l IH]; intros e j Hnd; cbn; auto.
  inversion Hnd; subst. unfold upd_ext in IH. rewrite IH; auto. rewrite !ext_get_aset.
  destruct (Nat.eqb j a) eqn:E; cbn.
  - apply Nat.eqb_eq in E; subst. assert (mem a l = false) by (apply memF; auto).
    rewrite H. auto.
  - auto.
Qed.

Definition add_list (W : world) (p : spec) (old : list spec) : list spec :=
  filter (fun x => isOrExtends W p x) old ++ [p] ++ filter (fun x => negb (isOrExtends W p x)) old.
Definition rem_list (p : spec) (old : list spec) : list spec := filter (fun x => negb (Nat.eqb x p)) old.

Lemma add_extendor_upd W e p : add_extendor W e p = upd_ext (add_list W p) (iro W p) e.
Proof. reflexivity. Qed.
Lemma remove_extendor_upd W e p : remove_extendor W e p = upd_ext (rem_list p) (iro W p) e.
Proof. reflexivity. Qed.

Lemma in_add_list W p old q : In q (add_list W p old) <-> q = p \/ In q old.
Proof.
  unfold add_list. rewrite !in_app_iff, !filter_In. cbn.
  destruct (isOrExtends W p q) eqn:E; cbn; intuition congruence.
Qed.

Lemma in_rem_list p old q : In q (rem_list p old) <-> q <> p /\ In q old.
Proof.
  unfold rem_list. rewrite filter_In, negb_true_iff, Nat.eqb_neq. tauto.
Qed.

Lemma nodup_partition {A} (f : A -> bool) l :
  NoDup l -> NoDup (filter f l ++ filter (fun x => negb (f x)) l).
Proof.
  induction l as [|x l IH]; cbn; [constructor|]. intros Hnd; inversion Hnd; subst.
  destruct (f x); cbn.
  - constructor; auto. rewrite in_app_iff, !filter_In. tauto.
  - apply (NoDup_Add (Add_app x _ _)). split; auto.
    rewrite in_app_iff, !filter_In. tauto.
Qed.

Lemma nodup_add_list W p old : NoDup old -> ~ In p old -> NoDup (add_list W p old).
Proof.
  intros Hnd Hp. unfold add_list. cbn [app].
  apply (NoDup_Add (Add_app p _ _)). split; [apply nodup_partition; auto|].
  rewrite in_app_iff, !filter_In. tauto.
Qed.

Lemma gen_first_app W l1 l2 :
  gen_first W (l1 ++ l2) <->
  gen_first W l1 /\ gen_first W l2 /\ forall a q, In a l1 -> In q l2 -> ~ strict_ext W a q.
Proof.
  induction l1 as [|x l1 IH]; cbn.
  - intuition.
  - rewrite IH. split.
    + intros (Hx & H1 & H2 & H3). repeat split; auto.
      * intros q Hq; apply Hx; apply in_or_app; auto.
      * intros a q [<-|Ha] Hq; [apply Hx; apply in_or_app; auto | apply H3; auto].
    + intros ((Hx & H1) & H2 & H3). repeat split; auto.
      intros q Hq; apply in_app_or in Hq. destruct Hq; auto.
Qed.

Lemma gen_first_filter W f l : gen_first W l -> gen_first W (filter f l).
Proof.
  induction l as [|x l IH]; cbn; auto. intros [Hx Hl].
  destruct (f x); cbn; auto. split; auto. intros q Hq. apply filter_In in Hq. apply Hx; tauto.
Qed.

Lemma isOrExtends_trans W : sro_closed W -> forall a b c,
  isOrExtends W a b = true -> isOrExtends W b c = true -> isOrExtends W a c = true.
Proof.
  unfold isOrExtends. intros Hc a b c Hab Hbc. apply memP. apply memP in Hab, Hbc.
  eapply Hc; eauto.
Qed.

Lemma gen_first_add_list W p old : sro_closed W -> gen_first W old -> gen_first W (add_list W p old).
Proof.
  intros Hc Hg. unfold add_list. apply gen_first_app. split; [apply gen_first_filter; auto|]. split.
  - cbn [app gen_first]. split; [|apply gen_first_filter; auto].
    intros q Hq [H1 _]. apply filter_In in Hq. destruct Hq as [_ Hq]. rewrite H1 in Hq. discriminate.
  - intros a q Ha Hq. apply filter_In in Ha. destruct Ha as [_ Hpa].
    cbn [app] in Hq. destruct Hq as [<-|Hq].
    + intros [_ H2]. congruence.
    + apply filter_In in Hq. destruct Hq as [_ Hpq]. intros [Haq _].
      rewrite (isOrExtends_trans W Hc _ _ _ Hpa Haq) in Hpq. discriminate.
Qed.

(* ------------------------------------------------------------------ the count / extendors invariant *)
Definition ec_inv (W : world) (c : list (spec * nat)) (e : list (spec * list spec)) : Prop :=
  (forall i p, In p (ext_get e i) <-> (0 < cnt_get c p /\ In i (iro W p))) /\
  (forall i, NoDup (ext_get e i)) /\
  (forall i, gen_first W (ext_get e i)) /\
  NoDup (map fst c).

Lemma cnt_get_aset c p n q : cnt_get (aset Nat.eqb c p n) q = if Nat.eqb q p then n else cnt_get c q.
Proof.
  unfold cnt_get. destruct (Nat.eqb q p) eqn:E.
  - apply Nat.eqb_eq in E; subst. rewrite (aget_aset_same Nat.eqb nat_eqb_eq). auto.
  - rewrite (aget_aset_other Nat.eqb nat_eqb_eq); auto. apply Nat.eqb_neq; auto.
Qed.

Lemma cnt_get_adel c p q : NoDup (map fst c) ->
  cnt_get (adel Nat.eqb c p) q = if Nat.eqb q p then 0 else cnt_get c q.
Proof.
  intros Hnd. unfold cnt_get. destruct (Nat.eqb q p) eqn:E.
  - apply Nat.eqb_eq in E; subst. rewrite (aget_adel_same Nat.eqb nat_eqb_eq); auto.
  - rewrite (aget_adel_other Nat.eqb nat_eqb_eq); auto. apply Nat.eqb_neq; auto.
Qed.

Lemma nodup_iro W p : sro_nodup W -> NoDup (iro W p).
Proof. intros H. unfold iro. apply NoDup_filter. apply H. Qed.

Lemma ec_inv_incr W r p : wf_world W ->
  ec_inv W (provided_cnt r) (extendors r) ->
  ec_inv W (provided_cnt (provide_incr W r p)) (extendors (provide_incr W r p)) /\
  (forall q, cnt_get (provided_cnt (provide_incr W r p)) q =
             if Nat.eqb q p then S (cnt_get (provided_cnt r) p) else cnt_get (provided_cnt r) q).
Proof.
  intros (_ & Hnd & Hcl) (Hmem & Hnd2 & Hgf & Hk).
  unfold provide_incr. cbv zeta. cbn [provided_cnt extendors].
  split; [|intros q; apply cnt_get_aset].
  destruct (Nat.eqb (S (cnt_get (provided_cnt r) p)) 1) eqn:E1.
  - apply Nat.eqb_eq in E1. assert (H0 : cnt_get (provided_cnt r) p = 0) by lia.
    rewrite add_extendor_upd. split; [|split; [|split]].
    + intros i q. rewrite ext_get_upd by (apply nodup_iro; auto). rewrite cnt_get_aset.
      specialize (Hmem i q).
      destruct (mem i (iro W p)) eqn:Em.
      * rewrite in_add_list. destruct (Nat.eqb q p) eqn:Ep.
        -- apply Nat.eqb_eq in Ep; subst q. apply memP in Em. split; [intros _; split; [lia|auto] | auto].
        -- apply Nat.eqb_neq in Ep. rewrite Hmem. tauto.
      * rewrite Hmem. destruct (Nat.eqb q p) eqn:Ep; [|tauto].
        apply Nat.eqb_eq in Ep; subst q. apply memF in Em. split; [lia|tauto].
    + intros i. rewrite ext_get_upd by (apply nodup_iro; auto).
      destruct (mem i (iro W p)); auto. apply nodup_add_list; auto.
      intros Hi. apply Hmem in Hi. lia.
    + intros i. rewrite ext_get_upd by (apply nodup_iro; auto).
      destruct (mem i (iro W p)); auto. apply gen_first_add_list; auto.
    + apply (keys_aset_nodup Nat.eqb nat_eqb_eq); auto.
  - apply Nat.eqb_neq in E1. split; [|split; [|split]]; auto.
    + intros i q. rewrite cnt_get_aset. rewrite (Hmem i q).
      destruct (Nat.eqb q p) eqn:Ep; [|tauto]. apply Nat.eqb_eq in Ep; subst q.
      split; intros [Hc Hi]; split; auto; lia.
    + apply (keys_aset_nodup Nat.eqb nat_eqb_eq); auto.
Qed.

Lemma ec_inv_decr W r p k : wf_world W ->
  ec_inv W (provided_cnt r) (extendors r) ->
  ec_inv W (provided_cnt (provide_decr W r p k)) (extendors (provide_decr W r p k)) /\
  (forall q, cnt_get (provided_cnt (provide_decr W r p k)) q =
             if Nat.eqb q p then cnt_get (provided_cnt r) p - k else cnt_get (provided_cnt r) q).
Proof.
  intros (_ & Hnd & Hcl) (Hmem & Hnd2 & Hgf & Hk).
  unfold provide_decr. cbv zeta.
  destruct (Nat.eqb (cnt_get (provided_cnt r) p - k) 0) eqn:E0; cbn [provided_cnt extendors].
  - apply Nat.eqb_eq in E0. split.
    2:{ intros q. rewrite cnt_get_adel; auto. destruct (Nat.eqb q p); auto. }
    rewrite remove_extendor_upd. split; [|split; [|split]].
    + intros i q. rewrite ext_get_upd by (apply nodup_iro; auto). rewrite cnt_get_adel; auto.
      specialize (Hmem i q).
      destruct (mem i (iro W p)) eqn:Em.
      * rewrite in_rem_list. destruct (Nat.eqb q p) eqn:Ep.
        -- apply Nat.eqb_eq in Ep. split; [tauto|lia].
        -- apply Nat.eqb_neq in Ep. rewrite Hmem. tauto.
      * rewrite Hmem. destruct (Nat.eqb q p) eqn:Ep; [|tauto].
        apply Nat.eqb_eq in Ep; subst q. apply memF in Em. split; [tauto|lia].
    + intros i. rewrite ext_get_upd by (apply nodup_iro; auto).
      destruct (mem i (iro W p)); auto. apply NoDup_filter; auto.
    + intros i. rewrite ext_get_upd by (apply nodup_iro; auto).
      destruct (mem i (iro W p)); auto. apply gen_first_filter; auto.
    + apply (keys_adel_nodup Nat.eqb); auto.
  - apply Nat.eqb_neq in E0. split; [|intros q; apply cnt_get_aset].
    split; [|split; [|split]]; auto.
    + intros i q. rewrite cnt_get_aset. rewrite (Hmem i q).
      destruct (Nat.eqb q p) eqn:Ep; [|tauto]. apply Nat.eqb_eq in Ep; subst q.
      split; intros [Hc Hi]; split; auto; lia.
    + apply (keys_aset_nodup Nat.eqb nat_eqb_eq); auto.
Qed.

(* ------------------------------------------------------------------ the full invariant *)
Definition reg_inv (W : world) (r : reg) : Prop :=
  ec_inv W (provided_cnt r) (extendors r) /\
  forall p, n_ad (adapters r) p + n_su (subscribers r) p <= cnt_get (provided_cnt r) p.

Lemma reg_inv_changed W r : reg_inv W r -> reg_inv W (changed r).
Proof. intros H. exact H. Qed.

Lemma reg_inv_fields W r r' :
  adapters r' = adapters r -> subscribers r' = subscribers r ->
  provided_cnt r' = provided_cnt r -> extendors r' = extendors r ->
  reg_inv W r -> reg_inv W r'.
Proof. unfold reg_inv. intros -> -> -> ->. auto. Qed.

Lemma adapters_incr W r p : adapters (provide_incr W r p) = adapters r.
Proof. reflexivity. Qed.
Lemma subscribers_incr W r p : subscribers (provide_incr W r p) = subscribers r.
Proof. reflexivity. Qed.
Lemma adapters_decr W r p k : adapters (provide_decr W r p k) = adapters r.
Proof. unfold provide_decr. cbv zeta. destruct (Nat.eqb _ 0); reflexivity. Qed.
Lemma subscribers_decr W r p k : subscribers (provide_decr W r p k) = subscribers r.
Proof. unfold provide_decr. cbv zeta. destruct (Nat.eqb _ 0); reflexivity. Qed.

Lemma n_ad_aset_le a k v q :
  n_ad (aset akey_eqb a k v) q <= n_ad a q + (if Nat.eqb (akey_provided k) q then 1 else 0).
Proof.
  unfold n_ad. destruct (aget akey_eqb a k) as [old|] eqn:E.
  - pose proof (sumw_aset_some akey_eqb akey_eqb_eq (wa q) a k v old E) as H. unfold wa in *. lia.
  - rewrite (sumw_aset_none akey_eqb (wa q) a k v E). unfold wa. lia.
Qed.

Lemma n_ad_adel a k old q : aget akey_eqb a k = Some old ->
  n_ad (adel akey_eqb a k) q + (if Nat.eqb (akey_provided k) q then 1 else 0) = n_ad a q.
Proof. intros E. unfold n_ad. apply (sumw_adel_some akey_eqb akey_eqb_eq (wa q) a k old E). Qed.

Lemma inv_register_some W r req p n v : wf_world W -> reg_inv W r ->
  reg_inv W (changed (provide_incr W (mkReg (aset akey_eqb (adapters r) (map conv req, p, n) v)
                                           (subscribers r) (provided_cnt r) (extendors r) (generation r)) p)).
Proof.
  intros Hwf [Hec Hc]. apply reg_inv_changed.
  set (r1 := mkReg _ _ _ _ _).
  destruct (ec_inv_incr W r1 p Hwf Hec) as [Hec' Hcnt].
  split; auto. intros q. rewrite adapters_incr, subscribers_incr, Hcnt. cbn [adapters subscribers provided_cnt r1].
  pose proof (n_ad_aset_le (adapters r) (map conv req, p, n) v q) as H.
  unfold akey_provided in H. cbn [fst snd] in H. specialize (Hc q).
  rewrite (Nat.eqb_sym q p). destruct (Nat.eqb p q) eqn:E; [apply Nat.eqb_eq in E; subst|]; lia.
Qed.

Lemma inv_unregister_some W r req p n old : wf_world W -> reg_inv W r ->
  aget akey_eqb (adapters r) (map conv req, p, n) = Some old ->
  reg_inv W (changed (provide_decr W (mkReg (adel akey_eqb (adapters r) (map conv req, p, n))
                                           (subscribers r) (provided_cnt r) (extendors r) (generation r)) p 1)).
Proof.
  intros Hwf [Hec Hc] Hg. apply reg_inv_changed.
  set (r1 := mkReg _ _ _ _ _).
  destruct (ec_inv_decr W r1 p 1 Hwf Hec) as [Hec' Hcnt].
  split; auto. intros q. rewrite adapters_decr, subscribers_decr, Hcnt. cbn [adapters subscribers provided_cnt r1].
  pose proof (n_ad_adel (adapters r) _ old q Hg) as H.
  unfold akey_provided in H. cbn [fst snd] in H. specialize (Hc q).
  rewrite (Nat.eqb_sym q p). destruct (Nat.eqb p q) eqn:E; [apply Nat.eqb_eq in E; subst|]; lia.
Qed.

Lemma inv_unregister W r req p n v : wf_world W -> reg_inv W r -> reg_inv W (unregister W r req p n v).
Proof.
  intros Hwf Hi. unfold unregister. cbv zeta.
  destruct (aget akey_eqb (adapters r) (map conv req, p, n)) as [old|] eqn:E; auto.
  destruct v as [v'|]; [destruct (v_is old v'); auto|]; eapply inv_unregister_some; eauto.
Qed.

Lemma inv_register W r req p n v : wf_world W -> reg_inv W r -> reg_inv W (register W r req p n v).
Proof.
  intros Hwf Hi. unfold register. destruct v as [v'|]; [|apply inv_unregister; auto]. cbv zeta.
  destruct (aget akey_eqb (adapters r) (map conv req, p, n)) as [old|] eqn:E.
  - destruct (v_is old v'); auto. apply inv_register_some; auto.
  - apply inv_register_some; auto.
Qed.

Lemma sub_leaf_aget r k : sub_leaf r k <> [] -> aget skey_eqb (subscribers r) k = Some (sub_leaf r k).
Proof. unfold sub_leaf. destruct (aget skey_eqb (subscribers r) k); auto. congruence. Qed.

Lemma n_su_aset s k new q old :
  (aget skey_eqb s k = Some old \/ (aget skey_eqb s k = None /\ old = [])) ->
  n_su (aset skey_eqb s k new) q + ws q k old = n_su s q + ws q k new.
Proof.
  unfold n_su. intros [E|[E ->]].
  - apply (sumw_aset_some skey_eqb skey_eqb_eq (ws q) s k new old E).
  - rewrite (sumw_aset_none skey_eqb (ws q) s k new E). unfold ws. cbn. destruct (ospec_eqb _ _); lia.
Qed.

Lemma sub_leaf_cases r k :
  aget skey_eqb (subscribers r) k = Some (sub_leaf r k) \/
  (aget skey_eqb (subscribers r) k = None /\ sub_leaf r k = []).
Proof. unfold sub_leaf. destruct (aget skey_eqb (subscribers r) k); auto. Qed.

Lemma inv_subscribe W r req p v : wf_world W -> reg_inv W r -> reg_inv W (subscribe W r req p v).
Proof.
  intros Hwf [Hec Hc]. unfold subscribe. cbv zeta. apply reg_inv_changed.
  set (k := (map conv req, p)).
  pose proof (fun q => n_su_aset (subscribers r) k (sub_leaf r k ++ [v]) q (sub_leaf r k) (sub_leaf_cases r k)) as Hs.
  destruct p as [p'|].
  - set (r1 := mkReg _ _ _ _ _).
    destruct (ec_inv_incr W r1 p' Hwf Hec) as [Hec' Hcnt].
    split; auto. intros q. rewrite adapters_incr, subscribers_incr, Hcnt.
    cbn [adapters subscribers provided_cnt r1]. specialize (Hs q). specialize (Hc q).
    unfold ws in Hs. cbn [snd k ospec_eqb] in Hs. rewrite app_length in Hs. cbn [length] in Hs.
    rewrite (Nat.eqb_sym q p'). destruct (Nat.eqb p' q) eqn:E; [apply Nat.eqb_eq in E; subst|]; lia.
  - split; auto. intros q. cbn [adapters subscribers provided_cnt]. specialize (Hs q). specialize (Hc q).
    unfold ws in Hs. cbn [snd k ospec_eqb] in Hs. lia.
Qed.

Lemma filter_length_le {A} (f : A -> bool) l : length (filter f l) <= length l.
Proof. induction l as [|x l IH]; cbn; auto. destruct (f x); cbn; lia. Qed.

Lemma inv_unsubscribe W r req p v : wf_world W -> reg_inv W r -> reg_inv W (unsubscribe W r req p v).
Proof.
  intros Hwf [Hec Hc]. unfold unsubscribe. cbv zeta.
  set (k := (map conv req, p)).
  destruct (sub_leaf r k) as [|o1 ol] eqn:Eold; [split; auto|].
  set (old := o1 :: ol) in *.
  set (new := match v with None => [] | Some v' => filter (fun x => negb (v_eq x v')) old end).
  destruct (Nat.eqb (length new) (length old)) eqn:El; [split; auto|].
  apply reg_inv_changed.
  assert (Hle : length new <= length old).
  { subst new. destruct v; [apply filter_length_le | cbn; lia]. }
  assert (Hg : aget skey_eqb (subscribers r) k = Some old).
  { rewrite <- Eold. apply sub_leaf_aget. rewrite Eold. discriminate. }
  set (subs := match new with [] => adel skey_eqb (subscribers r) k | _ => aset skey_eqb (subscribers r) k new end).
  assert (Hs : forall q, n_su subs q + ws q k old = n_su (subscribers r) q + ws q k new).
  { intros q. subst subs. destruct new as [|n1 nl] eqn:En.
    - unfold n_su. rewrite <- (sumw_adel_some skey_eqb skey_eqb_eq (ws q) (subscribers r) k old Hg).
      unfold ws. cbn [length]. destruct (ospec_eqb _ _); lia.
    - apply n_su_aset. auto. }
  destruct p as [p'|].
  - set (r1 := mkReg _ _ _ _ _).
    destruct (ec_inv_decr W r1 p' (length old - length new) Hwf Hec) as [Hec' Hcnt].
    split; auto. intros q. rewrite adapters_decr, subscribers_decr, Hcnt.
    cbn [adapters subscribers provided_cnt r1]. specialize (Hs q). specialize (Hc q).
    unfold ws in Hs. cbn [snd k ospec_eqb] in Hs.
    rewrite (Nat.eqb_sym q p'). destruct (Nat.eqb p' q) eqn:E; [apply Nat.eqb_eq in E; subst|]; lia.
  - split; auto. intros q. cbn [adapters subscribers provided_cnt]. specialize (Hs q). specialize (Hc q).
    unfold ws in Hs. cbn [snd k ospec_eqb] in Hs. lia.
Qed.

Lemma reg_inv_empty W g : reg_inv W (mkReg [] [] [] [] g).
Proof.
  split; [|intros; cbn; lia]. cbn. split; [|split; [|split]].
  - intros i p. cbn. split; [tauto|lia].
  - intros; constructor.
  - intros; exact I.
  - constructor.
Qed.

Lemma inv_rebuild W r : wf_world W -> reg_inv W (rebuild W r).
Proof.
  intros Hwf. unfold rebuild. cbv zeta.
  assert (H0 : reg_inv W (changed (mkReg [] [] [] [] (generation r)))) by apply reg_inv_empty.
  revert H0. generalize (changed (mkReg [] [] [] [] (generation r))) as r0.
  intros r0 H0.
  assert (H1 : reg_inv W (fold_left (fun acc kv => let '(req, p, n) := fst kv in
                                       register W acc (map Some req) p n (Some (snd kv)))
                                    (allRegistrations r) r0)).
  { revert r0 H0. induction (allRegistrations r) as [|[[[rq p] n] v] l IH]; intros r0 H0; cbn [fold_left]; auto.
    apply IH. cbn [fst snd]. apply inv_register; auto. }
  revert H1. generalize (fold_left (fun acc kv => let '(req, p, n) := fst kv in
                                       register W acc (map Some req) p n (Some (snd kv)))
                                    (allRegistrations r) r0) as r1.
  intros r1. induction (allSubscriptions r) as [|[[rq p] v] l IH] in r1 |- *; intros H1; cbn [fold_left]; auto.
  apply IH. cbn [fst snd]. apply inv_subscribe; auto.
Qed.

Lemma inv_step W r o : wf_world W -> reg_inv W r -> reg_inv W (reg_step W r o).
Proof.
  intros Hwf Hi. destruct o; cbn [reg_step].
  - apply inv_register; auto.
  - apply inv_unregister; auto.
  - apply inv_subscribe; auto.
  - apply inv_unsubscribe; auto.
  - apply inv_rebuild; auto.
Qed.

Lemma inv_history W ops : wf_world W -> forall r, reg_inv W r -> reg_inv W (fold_left (reg_step W) ops r).
Proof. intros Hwf. induction ops as [|o ops IH]; intros r Hi; cbn; auto. apply IH. apply inv_step; auto. Qed.

(* a live registration is counted *)
Lemma live_counted a k v : aget akey_eqb a k = Some v -> 0 < n_ad a (akey_provided k).
Proof.
  intros H. pose proof (n_ad_adel a k v (akey_provided k) H) as E. rewrite Nat.eqb_refl in E. lia.
Qed.

Lemma reg_inv_ext_inv W r : reg_inv W r -> ext_inv W r.
Proof.
  intros [(Hmem & Hnd & Hgf & _) Hc]. unfold ext_inv. repeat (split; [assumption|]). split.
  - intros p. rewrite n_adapters_sumw, n_subscriptions_sumw. apply Hc.
  - intros req p n v Hl. unfold live in Hl. apply live_counted in Hl.
    unfold akey_provided in Hl. cbn [fst snd] in Hl. specialize (Hc p). lia.
Qed.

Lemma extendors_inv_lemma W : wf_world W -> forall ops, ext_inv W (fold_left (reg_step W) ops empty_reg).
Proof. intros Hwf ops. apply reg_inv_ext_inv. apply inv_history; auto. apply reg_inv_empty. Qed.

(* ------------------------------------------------------------------ systems of registries:
   every registry of every state reached by a RegSys history satisfies the invariant, so the
   lookup theorems apply to the registry list any lookup entry point walks *)
From ZI Require Import Model.Lookup Model.RegSys.

Section Sys.
  Variable W : world.
  Hypothesis Hwf : wf_world W.

  Definition sys_ok (s : sys) : Prop := Forall (fun x => reg_inv W (rs_reg x)) s.

  Lemma get_ok s r : sys_ok s -> reg_inv W (rs_reg (get s r)).
  Proof.
    intros H. unfold get. destruct (nth_in_or_default r s dummy_rs) as [Hin| ->].
    - unfold sys_ok in H. rewrite Forall_forall in H. auto.
    - apply reg_inv_empty.
  Qed.

  Lemma set_ok s r x : sys_ok s -> reg_inv W (rs_reg x) -> sys_ok (set s r x).
  Proof.
    intros H Hx. revert r. induction H as [|y s Hy Hs IH]; intros r; cbn; [constructor|].
    destruct r; constructor; auto. apply IH.
  Qed.

  Lemma upd_ok s r f : sys_ok s -> (forall y, reg_inv W (rs_reg y) -> reg_inv W (rs_reg (f y))) -> sys_ok (upd s r f).
  Proof. intros H Hf. apply set_ok; auto. apply Hf. apply get_ok; auto. Qed.

  Lemma fold_ok {A} (f : sys -> A -> sys) l : (forall s x, sys_ok s -> sys_ok (f s x)) ->
    forall s, sys_ok s -> sys_ok (fold_left f l s).
  Proof. intros Hf. induction l as [|a l IH]; intros s H; cbn; auto. Qed.

  Lemma refresh_ro_ok fuel : forall s r, sys_ok s -> sys_ok (refresh_ro fuel s r).
  Proof.
    induction fuel as [|f IH]; intros s r H; cbn [refresh_ro].
    - apply set_ok; auto. cbn. apply get_ok; auto.
    - assert (H1 : sys_ok (set s r (mkRS (rs_reg (get s r)) (rs_caches (get s r)) (rs_bases (get s r))
                                         (fresh_ro s r) (rs_subs (get s r)) (rs_vro (get s r))
                                         (rs_vgen (get s r)) (rs_flavour (get s r))))).
      { apply set_ok; auto. cbn. apply get_ok; auto. }
      destruct (rs_flavour (get s r)); auto. apply fold_ok; auto.
  Qed.

  Lemma lookup_changed_ok b s r : sys_ok s -> sys_ok (lookup_changed b s r).
  Proof.
    intros H. unfold lookup_changed. destruct (rs_flavour (get s r)).
    - apply set_ok; auto. cbn. apply get_ok; auto.
    - cbv zeta. try destruct b;
        (apply set_ok; [|cbn [rs_reg]; apply get_ok]); first [exact H | apply refresh_ro_ok; exact H].
  Qed.

  Lemma bump_ok s r : sys_ok s -> sys_ok (upd s r bump).
  Proof. intros H. apply upd_ok; auto; intros y Hy; cbn; apply reg_inv_changed; auto. Qed.

  Lemma sub_changed_ok fuel : forall s r, sys_ok s -> sys_ok (sub_changed fuel s r).
  Proof.
    induction fuel as [|f IH]; intros s r H; cbn [sub_changed].
    - apply lookup_changed_ok, bump_ok; auto.
    - assert (H1 : sys_ok (lookup_changed false (upd s r bump) r)) by (apply lookup_changed_ok, bump_ok; auto).
      destruct (rs_flavour _); auto. apply fold_ok; auto.
  Qed.

  Lemma after_bump_ok s r : sys_ok s -> sys_ok (after_bump s r).
  Proof.
    intros H. unfold after_bump. cbv zeta.
    assert (H1 : sys_ok (lookup_changed false s r)) by (apply lookup_changed_ok; auto).
    destruct (rs_flavour _); auto. apply fold_ok; auto. intros; apply sub_changed_ok; auto.
  Qed.

  Lemma mutate_ok s r f : (forall g, reg_inv W g -> reg_inv W (f g)) -> sys_ok s -> sys_ok (mutate s r f).
  Proof.
    intros Hf H. unfold mutate. cbv zeta. destruct (Nat.eqb _ _); auto.
    apply after_bump_ok. apply set_ok; auto. cbn. apply Hf, get_ok; auto.
  Qed.

  Lemma set_bases_ok s r bs : sys_ok s -> sys_ok (set_bases s r bs).
  Proof.
    intros H. unfold set_bases. cbv zeta. apply after_bump_ok, bump_ok, refresh_ro_ok.
    apply upd_ok; [|intros y Hy; exact Hy].
    destruct (rs_flavour (get s r)); auto.
    apply fold_ok; [intros s0 b H0; destruct (mem b (rs_bases (get s r))); auto; apply upd_ok; auto|].
    apply fold_ok; [intros s0 b H0; destruct (mem b bs); auto; apply upd_ok; auto|]. auto.
  Qed.

  Lemma new_reg_ok s fl bs : sys_ok s -> sys_ok (new_reg s fl bs).
  Proof.
    intros H. unfold new_reg. cbv zeta. apply set_bases_ok. apply Forall_app. split; auto.
    constructor; [|constructor]. cbn. apply reg_inv_empty.
  Qed.

  Lemma verify_ok s r : sys_ok s -> sys_ok (verify s r).
  Proof.
    intros H. unfold verify. cbv zeta. destruct (rs_flavour _); auto.
    destruct (lspec_eqb _ _); auto. apply lookup_changed_ok; auto.
  Qed.

  Variable call : value -> list nat -> option nat.

  Lemma with_lookup_ok {A} s r f : sys_ok s -> sys_ok (fst (@with_lookup W A s r f)).
  Proof.
    intros H. unfold with_lookup. cbv zeta. destruct (f _ _ _ _) as [c' a]. cbn [fst].
    apply upd_ok; [apply verify_ok; auto|]. intros y Hy. exact Hy.
  Qed.

  Lemma step_ok s o : sys_ok s -> sys_ok (fst (step W call s o)).
  Proof.
    intros H. destruct o; cbn [step fst];
      try (apply mutate_ok; auto; intros g Hg;
           first [apply inv_register | apply inv_unregister | apply inv_subscribe | apply inv_unsubscribe]; auto);
      try match goal with
          | |- sys_ok (fst (let '(s', a) := with_lookup ?W ?s ?r ?f in _)) =>
              let Hw := fresh in
              pose proof (with_lookup_ok s r f H) as Hw;
              destruct (with_lookup W s r f); exact Hw
          end; auto.
    - apply new_reg_ok; auto.
    - apply set_bases_ok; auto.
    - apply after_bump_ok. apply set_ok; auto. cbn. apply inv_rebuild; auto.
  Qed.

  Lemma final_ok ops : forall s, sys_ok s -> sys_ok (final W call s ops).
  Proof.
    unfold final. induction ops as [|o ops IH]; intros s H; cbn; auto. apply IH, step_ok; auto.
  Qed.

  Lemma system_inv_lemma ops r : Forall (ext_inv W) (ro_regs (final W call [] ops) r).
  Proof.
    unfold ro_regs. apply Forall_forall. intros x Hx. apply in_map_iff in Hx.
    destruct Hx as (i & <- & _). apply reg_inv_ext_inv. apply get_ok. apply final_ok. constructor.
  Qed.
End Sys.

(* ------------------------------------------------------------------ None means any *)
Lemma conv_some_conv req : map conv (map (fun x => Some (conv x)) req) = map conv req.
Proof. rewrite map_map. apply map_ext. intros [x|]; reflexivity. Qed.

Lemma none_means_any_lemma W : root_everywhere W ->
  forall r req p n v,
    register W r req p n v = register W r (map (fun x => Some (conv x)) req) p n v /\
    unregister W r req p n v = unregister W r (map (fun x => Some (conv x)) req) p n v /\
    forall s, isOrExtends W s (conv None) = true.
Proof.
  intros Hroot r req p n v. unfold register, unregister. rewrite conv_some_conv.
  repeat split; auto. intros s. apply memP. apply Hroot.
Qed.
