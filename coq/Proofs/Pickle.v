(* Proofs for property C13 (Model/Pickle.v). *)
From Coq Require Import List NArith ZArith Bool Arith Lia.
Import ListNotations.
From ZI Require Import Lib.Str Lib.Util Model.Pickle.
Local Open Scope nat_scope.

(* ------------------------------------------------------------------ small facts *)

Lemma gname_eqb_eq a b : gname_eqb a b = true <-> a = b.
Proof.
  destruct a as [a1 a2], b as [b1 b2]. unfold gname_eqb; cbn [fst snd].
  rewrite andb_true_iff, !str_eqb_eq. split; [intros [-> ->]; auto | intros E; inversion E; auto].
Qed.

Lemma lnat_eqb_eq a b : lnat_eqb a b = true <-> a = b.
Proof. apply list_eqb_eq. intros; apply Nat.eqb_eq. Qed.

Lemma ckey_eqb_eq a b : ckey_eqb a b = true <-> a = b.
Proof.
  destruct a as [a1 a2], b as [b1 b2]. unfold ckey_eqb; cbn [fst snd].
  rewrite andb_true_iff, Nat.eqb_eq, lnat_eqb_eq. split; [intros [-> ->]; auto | intros E; inversion E; auto].
Qed.

Lemma ckey_eqb_refl a : ckey_eqb a a = true.
Proof. apply ckey_eqb_eq; reflexivity. Qed.

Lemma sref_eqb_eq a b : sref_eqb a b = true <-> a = b.
Proof.
  destruct a, b; cbn; try rewrite Nat.eqb_eq; split; try congruence; auto.
Qed.

Lemma lsref_eqb_eq a b : list_eqb sref_eqb a b = true <-> a = b.
Proof. apply list_eqb_eq. exact sref_eqb_eq. Qed.

Lemma obj_eqb_eq a b : obj_eqb a b = true <-> a = b.
Proof.
  destruct a, b; cbn; try rewrite Nat.eqb_eq; try rewrite Z.eqb_eq; try rewrite gname_eqb_eq;
    split; try congruence; auto.
Qed.

Lemma assoc_key_In k l p : assoc_key k l = Some p -> In (k, p) l.
Proof.
  induction l as [|[k' v] l IH]; cbn; [discriminate|].
  destruct (ckey_eqb k k') eqn:E.
  - intros H; inversion H; subst. apply ckey_eqb_eq in E; subst. auto.
  - auto.
Qed.

Lemma assoc_key_filter (g : nat -> bool) k l p :
  assoc_key k l = Some p -> g p = true ->
  assoc_key k (filter (fun kp : ckey * nat => g (snd kp)) l) = Some p.
Proof.
  induction l as [|[k' v] l IH]; cbn; [discriminate|].
  destruct (ckey_eqb k k') eqn:E.
  - intros H G; inversion H; subst. rewrite G. cbn. rewrite E. reflexivity.
  - intros H G. destruct (g v); cbn; [rewrite E|]; auto.
Qed.

Lemma nth_error_set_nth {A} (l : list A) o o' x :
  nth_error (set_nth o x l) o' = if Nat.eqb o o' then (if Nat.ltb o (List.length l) then Some x else None) else nth_error l o'.
Proof.
  revert o o'; induction l as [|y l IH]; intros o o'.
  - cbn. destruct (Nat.eqb o o'); destruct o'; destruct o; reflexivity.
  - destruct o as [|o]; destruct o' as [|o']; cbn [set_nth nth_error Nat.eqb]; try reflexivity.
    rewrite IH. destruct (Nat.eqb o o'); [|reflexivity].
    change (S o <? List.length (y :: l)) with (o <? List.length l). reflexivity.
Qed.

Lemma all_some_map_Some {A B} (f : B -> A) l : all_some (map (fun x => Some (f x)) l) = Some (map f l).
Proof. induction l as [|x l IH]; cbn; [reflexivity|]. rewrite IH; reflexivity. Qed.

Lemma map_as_iface w l : map (as_arg w) (map OIface l) = map (fun i => Some i) l.
Proof. induction l as [|x l IH]; cbn; [reflexivity|]. rewrite IH; reflexivity. Qed.

Lemma map_as_int l : map as_int (map OInt l) = map (fun z => Some z) l.
Proof. induction l as [|x l IH]; cbn; [reflexivity|]. rewrite IH; reflexivity. Qed.

Lemma all_some_Some {A} (l : list A) : all_some (map (fun x => Some x) l) = Some l.
Proof. induction l as [|x l IH]; cbn; [reflexivity|]. rewrite IH; reflexivity. Qed.

(* ------------------------------------------------------------------ unpickling: unfolding *)

Lemma rebuild_Call fuel w st f args :
  rebuild fuel w st (Call f args) =
  let '(st', vs) := rebuild_list fuel w st args in apply_fn fuel w st' f vs.
Proof.
  cbn [rebuild].
  match goal with
  | |- (let '(_, _) := ?F st args in _) = _ =>
      assert (E : forall l s, F s l = rebuild_list fuel w s l)
  end.
  { induction l as [|a l IH]; intros s; cbn [rebuild_list]; [reflexivity|].
    destruct (rebuild fuel w s a) as [s1 v]. rewrite IH. reflexivity. }
  rewrite E. reflexivity.
Qed.

Lemma rebuild_list_names fuel w st gs :
  rebuild_list fuel w st (map ByName gs) = (st, map (lookup_global w) gs).
Proof.
  induction gs as [|g gs IH]; cbn [map rebuild_list rebuild]; [reflexivity|]. rewrite IH. reflexivity.
Qed.

Lemma rebuild_list_ints fuel w st zs :
  rebuild_list fuel w st (map RInt zs) = (st, map (fun z => Some (OInt z)) zs).
Proof.
  induction zs as [|z zs IH]; cbn [map rebuild_list rebuild]; [reflexivity|]. rewrite IH. reflexivity.
Qed.

(* ------------------------------------------------------------------ importable names *)

Lemma wf_iface w i : wf_globals w = true -> i < List.length (w_ifaces w) ->
  lookup_global w (iname w i) = Some (OIface i).
Proof.
  unfold wf_globals. rewrite !andb_true_iff. intros [[H _] _] Hi.
  rewrite forallb_forall in H. specialize (H i). rewrite in_seq in H.
  assert (G : option_eqb obj_eqb (lookup_global w (iname w i)) (Some (OIface i)) = true) by (apply H; lia).
  destruct (lookup_global w (iname w i)) as [x|]; cbn in G; [|discriminate].
  apply obj_eqb_eq in G. congruence.
Qed.

Lemma wf_class w c : wf_globals w = true -> c < List.length (w_classes w) ->
  lookup_global w (cname w c) = Some (OClass c).
Proof.
  unfold wf_globals. rewrite !andb_true_iff. intros [[_ H] _] Hc.
  rewrite forallb_forall in H. specialize (H c). rewrite in_seq in H.
  assert (G : option_eqb obj_eqb (lookup_global w (cname w c)) (Some (OClass c)) = true) by (apply H; lia).
  destruct (lookup_global w (cname w c)) as [x|]; cbn in G; [|discriminate].
  apply obj_eqb_eq in G. congruence.
Qed.

Lemma wf_ifaces w is : wf_globals w = true ->
  forallb (fun i => Nat.ltb i (List.length (w_ifaces w))) is = true ->
  map (lookup_global w) (map (iname w) is) = map (fun i => Some (OIface i)) is.
Proof.
  intros W. induction is as [|i is IH]; cbn [map forallb]; [reflexivity|].
  rewrite andb_true_iff, Nat.ltb_lt. intros [Hi H]. rewrite (wf_iface w i W Hi), IH by exact H. reflexivity.
Qed.

Lemma assoc_nat_In {A} c (l : list (nat * A)) v : assoc_nat c l = Some v -> In (c, v) l.
Proof.
  induction l as [|[k x] l IH]; cbn; [discriminate|]. destruct (Nat.eqb c k) eqn:E.
  - intros H; inversion H; subst. apply Nat.eqb_eq in E; subst. auto.
  - auto.
Qed.

(* the metaclass argument of a ClassProvides resolves to a metaclass object *)
Lemma wf_meta w c : wf_globals w = true ->
  exists g m, meta_ref w c = ByName g /\ lookup_global w g = Some m /\ is_metaclass m = true.
Proof.
  intros W. unfold meta_ref. destruct (assoc_nat c (w_meta w)) as [g|] eqn:E.
  - exists g, (OMeta g). split; [reflexivity|]. split; [|reflexivity].
    unfold wf_globals in W. rewrite !andb_true_iff in W. destruct W as [_ H].
    rewrite forallb_forall in H. specialize (H _ (assoc_nat_In _ _ _ E)). cbn [snd] in H.
    destruct (lookup_global w g) as [x|]; cbn in H; [|discriminate]. apply obj_eqb_eq in H. congruence.
  - exists g_type, OType. repeat split.
Qed.

(* interface-only argument lists: arg_ref is the interface's name *)
Lemma arg_refs_ifaces w is :
  forallb (fun i => Nat.ltb i (List.length (w_ifaces w))) is = true ->
  map (arg_ref w) is = map ByName (map (iname w) is).
Proof.
  induction is as [|i is IH]; cbn [map forallb]; [reflexivity|].
  rewrite andb_true_iff. intros [Hi H]. rewrite IH by exact H.
  unfold arg_ref at 1, nifaces. rewrite Hi. reflexivity.
Qed.

Lemma ids_ok_split w c is : ids_ok w c is = true ->
  c < List.length (w_classes w) /\ forallb (fun i => Nat.ltb i (List.length (w_ifaces w))) is = true.
Proof. unfold ids_ok. rewrite andb_true_iff, Nat.ltb_lt. auto. Qed.

(* ------------------------------------------------------------------ implementedBy *)

Lemma implementedBy_existing fuel w st c r :
  assoc_nat c (st_impl st) = Some r -> implementedBy fuel w st c = st.
Proof. intros H. destruct fuel; cbn [implementedBy]; rewrite H; reflexivity. Qed.

(* the parts of the state implementedBy never touches *)
Definition frame (a b : state) : Prop :=
  st_provs b = st_provs a /\ st_cache b = st_cache a /\ st_insts b = st_insts a.

Lemma frame_refl a : frame a a.
Proof. repeat split. Qed.

Lemma frame_trans a b c : frame a b -> frame b c -> frame a c.
Proof. unfold frame. intros (A1 & A2 & A3) (B1 & B2 & B3). repeat split; congruence. Qed.

Lemma fold_left_pres {A} (R : state -> state -> Prop) (f : state -> A -> state) :
  (forall s, R s s) -> (forall a b c, R a b -> R b c -> R a c) ->
  forall l, (forall s x, In x l -> R s (f s x)) -> forall s, R s (fold_left f l s).
Proof.
  intros Rr Rt l. induction l as [|x l IH]; intros H s; cbn [fold_left]; [apply Rr|].
  eapply Rt; [apply H; left; reflexivity|]. apply IH. intros; apply H; right; assumption.
Qed.

Lemma implementedBy_frame fuel w : forall st c, frame st (implementedBy fuel w st c).
Proof.
  induction fuel as [|f IH]; intros st c; cbn [implementedBy];
    destruct (assoc_nat c (st_impl st)); try apply frame_refl.
  set (st1 := fold_left (implementedBy f w) (cbases w c) st).
  assert (F1 : frame st st1).
  { apply (fold_left_pres frame); [apply frame_refl|apply frame_trans|]. intros; apply IH. }
  destruct (is_builtin w c); [eapply frame_trans; [exact F1|]; repeat split|].
  destruct (assoc_nat c (st_cprov_of (set_impl st1 c (default_impl w c))));
    (eapply frame_trans; [exact F1|]); repeat split.
Qed.

(* queries see a class through get_impl only, and implementedBy does not change what they see *)
Definition same_impl (w : world) (a b : state) : Prop := forall k, get_impl w b k = get_impl w a k.

Lemma same_impl_refl w a : same_impl w a a.
Proof. intros k; reflexivity. Qed.

Lemma same_impl_trans w a b c : same_impl w a b -> same_impl w b c -> same_impl w a c.
Proof. intros H1 H2 k. rewrite H2, H1. reflexivity. Qed.

Lemma same_impl_fields w a b : st_impl b = st_impl a -> same_impl w a b.
Proof. intros E k. unfold get_impl. rewrite E. reflexivity. Qed.

Lemma implementedBy_same_impl fuel w : forall st c, same_impl w st (implementedBy fuel w st c).
Proof.
  induction fuel as [|f IH]; intros st c; cbn [implementedBy];
    destruct (assoc_nat c (st_impl st)) eqn:E; try apply same_impl_refl.
  set (st1 := fold_left (implementedBy f w) (cbases w c) st).
  assert (F1 : same_impl w st st1).
  { apply (fold_left_pres (same_impl w)); [apply same_impl_refl|apply same_impl_trans|]. intros; apply IH. }
  assert (F2 : same_impl w st (set_impl st1 c (default_impl w c))).
  { intros k. unfold get_impl at 1. cbn [set_impl st_impl assoc_nat].
    destruct (Nat.eqb k c) eqn:K.
    - apply Nat.eqb_eq in K; subst k. unfold get_impl. rewrite E. reflexivity.
    - apply (F1 k). }
  destruct (is_builtin w c); [exact F2|].
  destruct (assoc_nat c (st_cprov_of (set_impl st1 c (default_impl w c)))); [exact F2|].
  eapply same_impl_trans; [exact F2|]. apply same_impl_fields. reflexivity.
Qed.

Lemma sref_interfaces_ext w a b : same_impl w a b ->
  forall fuel r, sref_interfaces fuel w b r = sref_interfaces fuel w a r.
Proof.
  intros H. induction fuel as [|f IH]; intros r; cbn [sref_interfaces]; [reflexivity|].
  destruct r; try reflexivity. rewrite (H c). f_equal. apply flat_map_ext. intros; apply IH.
Qed.

Lemma sref_implied_ext w a b : same_impl w a b ->
  forall fuel r, sref_implied fuel w b r = sref_implied fuel w a r.
Proof.
  intros H. induction fuel as [|f IH]; intros r; cbn [sref_implied]; [reflexivity|].
  destruct r; try reflexivity. rewrite (H c). apply flat_map_ext. intros; apply IH.
Qed.

Lemma decl_interfaces_ext w a b fuel bases : same_impl w a b ->
  decl_interfaces fuel w b bases = decl_interfaces fuel w a bases.
Proof.
  intros H. unfold decl_interfaces. f_equal. apply flat_map_ext. intros; apply sref_interfaces_ext; assumption.
Qed.

Lemma reaches_ext w a b : same_impl w a b ->
  forall fuel d c, reaches fuel w b d c = reaches fuel w a d c.
Proof.
  intros H. induction fuel as [|f IH]; intros d c; cbn [reaches]; [reflexivity|].
  rewrite (H d). f_equal. induction (im_bases (get_impl w a d)) as [|x l IHl]; cbn [existsb]; [reflexivity|].
  rewrite IHl. destruct x; try reflexivity. rewrite IH. reflexivity.
Qed.

Lemma spec_isOrExtends_ext w a b fuel c x : same_impl w a b ->
  spec_isOrExtends fuel w b c x = spec_isOrExtends fuel w a c x.
Proof.
  intros H. unfold spec_isOrExtends. rewrite (sref_implied_ext w a b H), (reaches_ext w a b H). reflexivity.
Qed.

Lemma filter_ext_all {A} (f g : A -> bool) l : (forall a, f a = g a) -> filter f l = filter g l.
Proof. intros H. induction l as [|x l IH]; cbn; [reflexivity|]. rewrite H, IH. reflexivity. Qed.

Lemma build_bases_ext w a b fuel c is : same_impl w a b ->
  build_bases fuel w b c is = build_bases fuel w a c is.
Proof.
  intros H. unfold build_bases. f_equal. f_equal. apply filter_ext_all. intros x.
  rewrite (spec_isOrExtends_ext w a b fuel c x H). reflexivity.
Qed.

(* ------------------------------------------------------------------ invariant 1: every class spec knows its class *)

Definition good (c : nat) (r : impl_rec) : Prop :=
  im_cls r = Some c /\ (im_inherit r = None \/ im_inherit r = Some c).

Definition impl_inv (st : state) : Prop :=
  forall c r, assoc_nat c (st_impl st) = Some r -> good c r.

Lemma good_default w c : good c (default_impl w c).
Proof.
  unfold default_impl. destruct (assoc_nat c (w_oldstyle w)); split; try reflexivity; [left|right]; reflexivity.
Qed.

Lemma get_impl_good w st c : impl_inv st -> good c (get_impl w st c).
Proof.
  intros H. unfold get_impl. destruct (assoc_nat c (st_impl st)) eqn:E; [apply H; assumption|apply good_default].
Qed.

Lemma impl_inv_set st c r : impl_inv st -> good c r -> impl_inv (set_impl st c r).
Proof.
  intros H G c' r'. cbn [set_impl st_impl assoc_nat]. destruct (Nat.eqb c' c) eqn:K.
  - apply Nat.eqb_eq in K; subst. intros E; inversion E; subst; assumption.
  - apply H.
Qed.

Lemma impl_inv_fields a b : st_impl b = st_impl a -> impl_inv a -> impl_inv b.
Proof. unfold impl_inv. intros E H. rewrite E. exact H. Qed.

Lemma implementedBy_impl_inv fuel w : forall st c, impl_inv st -> impl_inv (implementedBy fuel w st c).
Proof.
  induction fuel as [|f IH]; intros st c H; cbn [implementedBy];
    destruct (assoc_nat c (st_impl st)); try assumption.
  set (st1 := fold_left (implementedBy f w) (cbases w c) st).
  assert (F1 : impl_inv st1).
  { unfold st1. clear st1. generalize (cbases w c). intros l. revert st H.
    induction l as [|x l IHl]; intros st H; cbn [fold_left]; [assumption|]. apply IHl. apply IH; assumption. }
  assert (F2 : impl_inv (set_impl st1 c (default_impl w c))) by (apply impl_inv_set; [assumption|apply good_default]).
  destruct (is_builtin w c); [exact F2|].
  destruct (assoc_nat c (st_cprov_of (set_impl st1 c (default_impl w c)))); [exact F2|].
  eapply impl_inv_fields; [|exact F2]. reflexivity.
Qed.

Lemma ordered_impl_inv fuel w st c before after : impl_inv st -> impl_inv (ordered fuel w st c before after).
Proof.
  intros H. unfold ordered. apply impl_inv_set; [assumption|].
  destruct (get_impl_good w st c H) as [G1 G2]. split; assumption.
Qed.

Lemma provides_factory_impl_inv fuel w st c is :
  impl_inv st -> impl_inv (fst (provides_factory fuel w st c is)).
Proof.
  intros H. unfold provides_factory. destruct (assoc_key (c, is) (st_cache st)); cbn [fst]; [assumption|].
  eapply impl_inv_fields; [|apply (implementedBy_impl_inv fuel w st c H)]. reflexivity.
Qed.

Lemma directly_provides_impl_inv fuel w st o is : impl_inv st -> impl_inv (directly_provides fuel w st o is).
Proof.
  intros H. unfold directly_provides. destruct (nth_error (st_insts st) o) as [io|]; [|assumption].
  pose proof (provides_factory_impl_inv fuel w st (in_cls io) is H) as G.
  destruct (provides_factory fuel w st (in_cls io) is) as [st1 p]. cbn [fst] in G.
  eapply impl_inv_fields; [|exact G]. reflexivity.
Qed.

Lemma step_impl_inv fuel w st x : impl_inv st -> impl_inv (step fuel w st x).
Proof.
  intros H. destruct x; cbn [step].
  - apply implementedBy_impl_inv; assumption.
  - unfold class_implements. apply ordered_impl_inv. apply implementedBy_impl_inv; assumption.
  - unfold class_implements_only. apply ordered_impl_inv.
    pose proof (implementedBy_impl_inv fuel w st c H) as H1.
    apply impl_inv_set; [assumption|].
    destruct (get_impl_good w _ c H1) as [G1 _]. split; [assumption|left; reflexivity].
  - unfold class_implements_first. apply ordered_impl_inv. apply implementedBy_impl_inv; assumption.
  - unfold class_provides. eapply impl_inv_fields; [|apply (implementedBy_impl_inv fuel w st c H)]. reflexivity.
  - unfold class_also_provides, class_provides.
    eapply impl_inv_fields; [|apply (implementedBy_impl_inv fuel w st c H)]. reflexivity.
  - unfold class_no_longer_provides, class_provides.
    eapply impl_inv_fields; [|apply (implementedBy_impl_inv fuel w st c H)]. reflexivity.
  - apply directly_provides_impl_inv; assumption.
  - apply directly_provides_impl_inv; assumption.
  - apply directly_provides_impl_inv; assumption.
  - eapply impl_inv_fields; [|exact H]. reflexivity.
Qed.

Lemma run_impl_inv fuel w ops : impl_inv (run fuel w ops).
Proof.
  unfold run. assert (H : impl_inv (init_state w)) by (intros c r; cbn; discriminate).
  revert H. generalize (init_state w). induction ops as [|x ops IH]; intros st H; cbn [fold_left]; [assumption|].
  apply IH. apply step_impl_inv; assumption.
Qed.

(* what the fix made true: whatever was declared, the reduction names the class of the spec *)
Lemma reduce_impl_good w c r : good c r -> reduce_impl w r = Call FImplementedBy [ByName (cname w c)].
Proof.
  intros [G1 [G2|G2]]; unfold reduce_impl; rewrite G2; [rewrite G1|]; reflexivity.
Qed.

Lemma reduce_impl_names_own_class fuel w ops c r :
  assoc_nat c (st_impl (run fuel w ops)) = Some r ->
  reduce_impl w r = Call FImplementedBy [ByName (cname w c)].
Proof. intros H. apply reduce_impl_good. apply (run_impl_inv fuel w ops c r H). Qed.

Lemma iface_roundtrip fuel w st i :
  wf_globals w = true -> i < List.length (w_ifaces w) ->
  rebuild fuel w st (reduce_iface w i) = (st, Some (OIface i)).
Proof. intros W Hi. cbn [reduce_iface rebuild]. rewrite wf_iface by assumption. reflexivity. Qed.

Lemma class_roundtrip fuel w st c :
  wf_globals w = true -> c < List.length (w_classes w) ->
  rebuild fuel w st (reduce_class w c) = (st, Some (OClass c)).
Proof. intros W Hc. cbn [reduce_class rebuild]. rewrite wf_class by assumption. reflexivity. Qed.

Lemma empty_roundtrip fuel w st : rebuild fuel w st reduce_empty = (st, Some OEmpty).
Proof. reflexivity. Qed.

Lemma implements_roundtrip fuel w ops c r :
  wf_globals w = true -> c < List.length (w_classes w) ->
  assoc_nat c (st_impl (run fuel w ops)) = Some r ->
  rebuild fuel w (run fuel w ops) (reduce_impl w r) = (run fuel w ops, Some (OImpl c)).
Proof.
  intros W Hc H. rewrite (reduce_impl_names_own_class fuel w ops c r H).
  rewrite rebuild_Call. change [ByName (cname w c)] with (map ByName [cname w c]).
  rewrite rebuild_list_names. cbn [map]. rewrite wf_class by assumption.
  cbn [apply_fn all_some]. rewrite (implementedBy_existing fuel w _ c r H). reflexivity.
Qed.

(* ------------------------------------------------------------------ invariant 2: the weak cache *)

(* a cache entry's key is the argument tuple of its value *)
Definition cache_inv (st : state) : Prop :=
  forall k p, In (k, p) (st_cache st) ->
  exists pr, nth_error (st_provs st) p = Some pr /\ (pv_cls pr, pv_ifaces pr) = k.

(* a declaration held by an instance is alive, so the weak cache still maps its arguments to it *)
Definition live_inv (st : state) : Prop :=
  forall o io p, nth_error (st_insts st) o = Some io -> in_provides io = Some p ->
  exists pr, nth_error (st_provs st) p = Some pr /\
             assoc_key (pv_cls pr, pv_ifaces pr) (st_cache st) = Some p.

Definition pinv (st : state) : Prop := cache_inv st /\ live_inv st.

Lemma pinv_frame a b : frame a b -> pinv a -> pinv b.
Proof.
  intros (E1 & E2 & E3) [C L]. split.
  - intros k p. rewrite E1, E2. apply C.
  - intros o io p. rewrite E1, E2, E3. apply L.
Qed.

Lemma provides_factory_spec fuel w st c is st' p :
  pinv st -> provides_factory fuel w st c is = (st', p) ->
  cache_inv st' /\ st_insts st' = st_insts st /\
  (forall p0 pr0, nth_error (st_provs st) p0 = Some pr0 -> nth_error (st_provs st') p0 = Some pr0) /\
  (forall k p0, assoc_key k (st_cache st) = Some p0 -> assoc_key k (st_cache st') = Some p0) /\
  exists pr, nth_error (st_provs st') p = Some pr /\ pv_cls pr = c /\ pv_ifaces pr = is /\
             assoc_key (c, is) (st_cache st') = Some p.
Proof.
  intros [Cc Lv]. unfold provides_factory. destruct (assoc_key (c, is) (st_cache st)) as [p1|] eqn:E.
  - intros H; inversion H; subst st' p. repeat split; auto.
    destruct (Cc _ _ (assoc_key_In _ _ _ E)) as (pr & N & K). inversion K; subst.
    exists pr. repeat split; auto.
  - destruct (implementedBy_frame fuel w st c) as (F1 & F2 & F3).
    set (st1 := implementedBy fuel w st c) in *.
    intros H. injection H as <- <-. unfold cache_inv. cbn [st_provs st_cache st_insts].
    split; [|split; [|split; [|split]]].
    + intros k p [K|K].
      * inversion K; subst. exists (mkProv c is (build_bases fuel w st1 c is)). split; [|reflexivity].
        cbn [st_provs]. rewrite nth_error_app2 by lia. rewrite Nat.sub_diag. reflexivity.
      * rewrite F2 in K. destruct (Cc _ _ K) as (pr & N & Kk). exists pr. split; [|assumption].
        rewrite F1. rewrite nth_error_app1; [assumption|]. apply nth_error_Some. congruence.
    + assumption.
    + intros p0 pr0 N. rewrite F1. rewrite nth_error_app1; [assumption|]. apply nth_error_Some. congruence.
    + intros k p0 A. cbn [assoc_key]. destruct (ckey_eqb k (c, is)) eqn:K.
      * apply ckey_eqb_eq in K; subst. congruence.
      * rewrite F2. assumption.
    + exists (mkProv c is (build_bases fuel w st1 c is)).
      split; [cbn [st_provs]; rewrite nth_error_app2 by lia; rewrite Nat.sub_diag; reflexivity|].
      cbn [pv_cls pv_ifaces assoc_key]. rewrite ckey_eqb_refl. auto.
Qed.

Lemma directly_provides_pinv fuel w st o is : pinv st -> pinv (directly_provides fuel w st o is).
Proof.
  intros P. unfold directly_provides. destruct (nth_error (st_insts st) o) as [io|] eqn:Eo; [|assumption].
  destruct (provides_factory fuel w st (in_cls io) is) as [st1 p] eqn:Ef.
  destruct (provides_factory_spec _ _ _ _ _ _ _ P Ef) as (Cc & Ei & Mp & Mc & pr & Np & _ & _ & Ap).
  destruct P as [_ Lv]. split.
  - exact Cc.
  - intros o' io' p'. cbn [set_inst st_insts st_provs st_cache]. rewrite nth_error_set_nth.
    destruct (Nat.eqb o o') eqn:K.
    + destruct (Nat.ltb o (List.length (st_insts st1))); [|discriminate].
      intros H; inversion H; subst io'; clear H. cbn [in_provides]. intros H; inversion H; subst p'.
      exists pr. split; [assumption|].
      assert (Hk : (pv_cls pr, pv_ifaces pr) = (in_cls io, is)).
      { destruct (Cc _ _ (assoc_key_In _ _ _ Ap)) as (pr2 & N2 & K2). congruence. }
      rewrite Hk. assumption.
    + rewrite Ei. intros N I. destruct (Lv _ _ _ N I) as (pr0 & N0 & A0). exists pr0. auto.
Qed.

Lemma referenced_live st o io p :
  nth_error (st_insts st) o = Some io -> in_provides io = Some p -> referenced st p = true.
Proof.
  intros N I. unfold referenced. apply existsb_exists. exists io. split; [eapply nth_error_In; eassumption|].
  rewrite I. apply Nat.eqb_refl.
Qed.

Lemma gc_pinv st : pinv st -> pinv (gc st).
Proof.
  intros [Cc Lv]. split.
  - intros k p. cbn [gc st_cache st_provs]. rewrite filter_In. intros [H _]. apply Cc; assumption.
  - intros o io p. cbn [gc st_cache st_provs st_insts]. intros N I.
    destruct (Lv _ _ _ N I) as (pr & Np & A). exists pr. split; [assumption|].
    apply (assoc_key_filter (referenced st)); [assumption|]. eapply referenced_live; eassumption.
Qed.

(* class-level operations leave the heap of declarations and the instances alone and can only
   shrink the weak cache (Provides.changed) *)
Definition shrink (a b : state) : Prop :=
  st_provs b = st_provs a /\ st_insts b = st_insts a /\ incl (st_cache b) (st_cache a).

Lemma shrink_refl a : shrink a a.
Proof. repeat split. apply incl_refl. Qed.

Lemma shrink_trans a b c : shrink a b -> shrink b c -> shrink a c.
Proof.
  intros (A1 & A2 & A3) (B1 & B2 & B3). repeat split; try congruence. eapply incl_tran; eassumption.
Qed.

Lemma frame_shrink a b : frame a b -> shrink a b.
Proof. intros (A1 & A2 & A3). repeat split; auto. rewrite A2. apply incl_refl. Qed.

Lemma notify_shrink fuel w st c : shrink st (notify fuel w st c).
Proof. repeat split. cbn [notify st_cache]. intros x I. apply filter_In in I. tauto. Qed.

Lemma ordered_shrink fuel w st c b a : shrink st (ordered fuel w st c b a).
Proof.
  unfold ordered. eapply shrink_trans; [|apply notify_shrink]. apply frame_shrink. repeat split.
Qed.

Lemma class_step_shrink fuel w st x : is_class_op x = true -> shrink st (step fuel w st x).
Proof.
  destruct x; cbn [is_class_op step]; try discriminate; intros _.
  - apply frame_shrink, implementedBy_frame.
  - unfold class_implements. eapply shrink_trans; [apply frame_shrink, implementedBy_frame|apply ordered_shrink].
  - unfold class_implements_only. eapply shrink_trans; [apply frame_shrink, implementedBy_frame|].
    eapply shrink_trans; [|apply ordered_shrink].
    eapply shrink_trans; [|apply notify_shrink]. apply frame_shrink. repeat split.
  - unfold class_implements_first. eapply shrink_trans; [apply frame_shrink, implementedBy_frame|apply ordered_shrink].
  - unfold class_provides. eapply shrink_trans; [apply frame_shrink, implementedBy_frame|].
    apply frame_shrink. repeat split.
  - unfold class_also_provides, class_provides. eapply shrink_trans; [apply frame_shrink, implementedBy_frame|].
    apply frame_shrink. repeat split.
  - unfold class_no_longer_provides, class_provides. eapply shrink_trans; [apply frame_shrink, implementedBy_frame|].
    apply frame_shrink. repeat split.
Qed.

Lemma class_ops_shrink fuel w cops : forall st,
  forallb is_class_op cops = true -> shrink st (fold_left (step fuel w) cops st).
Proof.
  induction cops as [|x l IH]; intros st; cbn [forallb fold_left]; [intros; apply shrink_refl|].
  rewrite andb_true_iff. intros [K H]. eapply shrink_trans; [apply class_step_shrink; exact K|apply IH; exact H].
Qed.

Lemma inst_step_pinv fuel w st x : is_class_op x = false -> pinv st -> pinv (step fuel w st x).
Proof.
  intros K P. destruct x; cbn [is_class_op] in K; try discriminate; cbn [step].
  - apply directly_provides_pinv; assumption.
  - apply directly_provides_pinv; assumption.
  - apply directly_provides_pinv; assumption.
  - apply gc_pinv; assumption.
Qed.

Lemma init_pinv w : pinv (init_state w).
Proof.
  split.
  - intros k p [].
  - intros o io p. cbn [init_state st_insts]. intros N I. exfalso.
    apply nth_error_In in N. apply in_map_iff in N. destruct N as (x & E & _). subst io. discriminate.
Qed.

(* after the class-level part of a module-ordered history no instance has a declaration yet *)
Lemma class_ops_pinv fuel w cops : forallb is_class_op cops = true -> pinv (run fuel w cops).
Proof.
  intros H. destruct (class_ops_shrink fuel w cops (init_state w) H) as (E1 & E2 & E3). fold (run fuel w cops) in *.
  destruct (init_pinv w) as [_ Lv]. split.
  - intros k p I. apply E3 in I. destruct I.
  - intros o io p. rewrite E2. intros N I. destruct (Lv _ _ _ N I) as (pr & Np & A). discriminate.
Qed.

Lemma inst_ops_pinv fuel w iops : forall st,
  forallb (fun x => negb (is_class_op x)) iops = true -> pinv st -> pinv (fold_left (step fuel w) iops st).
Proof.
  induction iops as [|x l IH]; intros st; cbn [forallb fold_left]; [auto|].
  rewrite andb_true_iff, negb_true_iff. intros [K H] P. apply IH; [assumption|]. apply inst_step_pinv; assumption.
Qed.

Lemma ordered_run_pinv fuel w cops iops :
  forallb is_class_op cops = true -> forallb (fun x => negb (is_class_op x)) iops = true ->
  pinv (run fuel w (cops ++ iops)).
Proof.
  intros Hc Hi. unfold run. rewrite fold_left_app. apply inst_ops_pinv; [assumption|].
  apply class_ops_pinv; assumption.
Qed.

(* ------------------------------------------------------------------ unpickling a Provides *)

Lemma rebuild_prov fuel w st pr :
  wf_globals w = true -> ids_ok w (pv_cls pr) (pv_ifaces pr) = true ->
  rebuild fuel w st (reduce_prov w pr) =
  let '(st', p) := provides_factory fuel w st (pv_cls pr) (pv_ifaces pr) in (st', Some (OProv p)).
Proof.
  intros W I. destruct (ids_ok_split _ _ _ I) as [Hc Hi].
  unfold reduce_prov. rewrite rebuild_Call.
  rewrite (arg_refs_ifaces w _ Hi). change (ByName (cname w (pv_cls pr)) :: map ByName (map (iname w) (pv_ifaces pr)))
    with (map ByName (cname w (pv_cls pr) :: map (iname w) (pv_ifaces pr))).
  rewrite rebuild_list_names. cbn [map]. rewrite wf_class by assumption. rewrite wf_ifaces by assumption.
  unfold apply_fn.
  replace (Some (OClass (pv_cls pr)) :: map (fun i => Some (OIface i)) (pv_ifaces pr))
    with (map (fun x : obj => Some x) (OClass (pv_cls pr) :: map OIface (pv_ifaces pr)))
    by (cbn [map]; rewrite map_map; reflexivity).
  rewrite all_some_Some. rewrite (map_as_iface w), all_some_Some. reflexivity.
Qed.

(* a declaration that is still shared (the cache maps its arguments to it) unpickles to itself *)
Lemma provides_roundtrip_shared fuel w st pr p :
  wf_globals w = true -> ids_ok w (pv_cls pr) (pv_ifaces pr) = true ->
  assoc_key (pv_cls pr, pv_ifaces pr) (st_cache st) = Some p ->
  rebuild fuel w st (reduce_prov w pr) = (st, Some (OProv p)).
Proof.
  intros W K A. rewrite rebuild_prov by assumption. unfold provides_factory. rewrite A. reflexivity.
Qed.

(* in a module-ordered history every declaration an instance holds is still shared *)
Lemma provides_roundtrip_live fuel w cops iops o io p :
  wf_globals w = true ->
  forallb is_class_op cops = true -> forallb (fun x => negb (is_class_op x)) iops = true ->
  nth_error (st_insts (run fuel w (cops ++ iops))) o = Some io -> in_provides io = Some p ->
  exists pr, nth_error (st_provs (run fuel w (cops ++ iops))) p = Some pr /\
    assoc_key (pv_cls pr, pv_ifaces pr) (st_cache (run fuel w (cops ++ iops))) = Some p /\
    (ids_ok w (pv_cls pr) (pv_ifaces pr) = true ->
     rebuild fuel w (run fuel w (cops ++ iops)) (reduce_prov w pr) = (run fuel w (cops ++ iops), Some (OProv p))).
Proof.
  intros W Hc Hi N I. destruct (ordered_run_pinv fuel w cops iops Hc Hi) as [_ Lv].
  destruct (Lv _ _ _ N I) as (pr & Np & A). exists pr. split; [assumption|]. split; [assumption|]. intros K.
  apply provides_roundtrip_shared; assumption.
Qed.

(* ------------------------------------------------------------------ Provides in another process *)

Lemma prov_current_eq fuel w st pr :
  prov_current fuel w st pr = true <-> pv_bases pr = build_bases fuel w st (pv_cls pr) (pv_ifaces pr).
Proof. unfold prov_current. apply lsref_eqb_eq. Qed.

Lemma prov_current_ext fuel w a b pr : same_impl w a b -> prov_current fuel w b pr = prov_current fuel w a pr.
Proof. intros H. unfold prov_current. rewrite (build_bases_ext w a b fuel _ _ H). reflexivity. Qed.

Lemma cache_current_In fuel w st k p :
  cache_current fuel w st = true -> In (k, p) (st_cache st) ->
  exists pr, nth_error (st_provs st) p = Some pr /\ k = (pv_cls pr, pv_ifaces pr) /\ prov_current fuel w st pr = true.
Proof.
  unfold cache_current. rewrite forallb_forall. intros H I. specialize (H _ I). cbn [fst snd] in H.
  destruct (nth_error (st_provs st) p) as [pr|]; [|discriminate].
  apply andb_true_iff in H. destruct H as [H1 H2]. apply ckey_eqb_eq in H1. exists pr. auto.
Qed.

Lemma provides_factory_fresh fuel w st c is :
  assoc_key (c, is) (st_cache st) = None ->
  exists pr, nth_error (st_provs (fst (provides_factory fuel w st c is))) (snd (provides_factory fuel w st c is)) = Some pr
    /\ pv_cls pr = c /\ pv_ifaces pr = is
    /\ prov_current fuel w (fst (provides_factory fuel w st c is)) pr = true.
Proof.
  intros E. unfold provides_factory. rewrite E. cbn [fst snd st_provs].
  exists (mkProv c is (build_bases fuel w (implementedBy fuel w st c) c is)).
  split; [rewrite nth_error_app2 by lia; rewrite Nat.sub_diag; reflexivity|].
  split; [reflexivity|]. split; [reflexivity|].
  apply prov_current_eq. cbn [pv_bases pv_cls pv_ifaces]. apply build_bases_ext.
  apply same_impl_fields. reflexivity.
Qed.

Lemma provides_roundtrip_same fuel w st st2 pr :
  wf_globals w = true -> ids_ok w (pv_cls pr) (pv_ifaces pr) = true ->
  same_impl w st st2 -> prov_current fuel w st pr = true -> cache_current fuel w st2 = true ->
  exists st2' p' pr',
    rebuild fuel w st2 (reduce_prov w pr) = (st2', Some (OProv p')) /\
    nth_error (st_provs st2') p' = Some pr' /\
    pv_cls pr' = pv_cls pr /\ pv_ifaces pr' = pv_ifaces pr /\ pv_bases pr' = pv_bases pr /\
    obj_interfaces fuel w st2' (OProv p') = decl_interfaces fuel w st (pv_bases pr).
Proof.
  intros W I S Cu CC. rewrite rebuild_prov by assumption.
  apply prov_current_eq in Cu.
  destruct (assoc_key (pv_cls pr, pv_ifaces pr) (st_cache st2)) as [p'|] eqn:E.
  - unfold provides_factory. rewrite E.
    destruct (cache_current_In _ _ _ _ _ CC (assoc_key_In _ _ _ E)) as (pr' & N & K & Cu').
    inversion K. apply prov_current_eq in Cu'.
    assert (B : pv_bases pr' = pv_bases pr).
    { rewrite Cu', Cu. rewrite <- H0, <- H1. apply build_bases_ext; assumption. }
    exists st2, p', pr'. repeat split; auto.
    cbn [obj_interfaces]. rewrite N, B. apply decl_interfaces_ext; assumption.
  - destruct (provides_factory_fresh fuel w st2 _ _ E) as (pr' & N & K1 & K2 & Cu').
    pose proof (implementedBy_same_impl fuel w st2 (pv_cls pr)) as S1.
    assert (S2 : same_impl w st (fst (provides_factory fuel w st2 (pv_cls pr) (pv_ifaces pr)))).
    { eapply same_impl_trans; [exact S|]. eapply same_impl_trans; [exact S1|].
      unfold provides_factory. rewrite E. apply same_impl_fields. reflexivity. }
    apply prov_current_eq in Cu'.
    assert (B : pv_bases pr' = pv_bases pr).
    { rewrite Cu', Cu, K1, K2. apply build_bases_ext; assumption. }
    destruct (provides_factory fuel w st2 (pv_cls pr) (pv_ifaces pr)) as [st2' p'] eqn:F. cbn [fst snd] in *.
    exists st2', p', pr'. repeat split; auto.
    cbn [obj_interfaces]. rewrite N, B. apply decl_interfaces_ext; assumption.
Qed.

(* ---- module discipline: once the classes are declared, instance operations keep every cached
        (hence every live) declaration current *)

Lemma inst_step_same_impl fuel w st x : is_class_op x = false -> same_impl w st (step fuel w st x).
Proof.
  assert (D : forall o is, same_impl w st (directly_provides fuel w st o is)).
  { intros o is. unfold directly_provides. destruct (nth_error (st_insts st) o) as [io|]; [|apply same_impl_refl].
    unfold provides_factory. destruct (assoc_key (in_cls io, is) (st_cache st)).
    - apply same_impl_fields. reflexivity.
    - eapply same_impl_trans; [apply (implementedBy_same_impl fuel w st (in_cls io))|].
      apply same_impl_fields. reflexivity. }
  destruct x; cbn [is_class_op step]; try discriminate; intros _.
  - apply D.
  - apply D.
  - apply D.
  - apply same_impl_fields. reflexivity.
Qed.

Lemma cache_current_ext fuel w a b :
  st_provs b = st_provs a -> st_cache b = st_cache a -> same_impl w a b ->
  cache_current fuel w a = true -> cache_current fuel w b = true.
Proof.
  intros E1 E2 S. unfold cache_current. rewrite E1, E2, !forallb_forall. intros H x I. specialize (H x I).
  destruct (nth_error (st_provs a) (snd x)); [|discriminate]. rewrite (prov_current_ext fuel w a b _ S). assumption.
Qed.

Lemma directly_provides_current fuel w st o is :
  cache_current fuel w st = true -> cache_current fuel w (directly_provides fuel w st o is) = true.
Proof.
  intros CC. unfold directly_provides. destruct (nth_error (st_insts st) o) as [io|]; [|assumption].
  destruct (assoc_key (in_cls io, is) (st_cache st)) as [p|] eqn:E.
  - unfold provides_factory. rewrite E. eapply cache_current_ext; [| | |exact CC]; try reflexivity.
    apply same_impl_fields. reflexivity.
  - destruct (provides_factory_fresh fuel w st _ _ E) as (pr & N & K1 & K2 & Cu).
    pose proof (implementedBy_same_impl fuel w st (in_cls io)) as S1.
    destruct (implementedBy_frame fuel w st (in_cls io)) as (F1 & F2 & _).
    revert N Cu. unfold provides_factory. rewrite E. cbn [fst snd]. intros N Cu.
    set (st1 := implementedBy fuel w st (in_cls io)) in *.
    match goal with |- cache_current _ _ (set_inst ?s _ _) = true => set (st' := s) in * end.
    assert (S' : same_impl w st st').
    { eapply same_impl_trans; [exact S1|]. apply same_impl_fields. reflexivity. }
    eapply (cache_current_ext fuel w st'); try reflexivity; [apply same_impl_fields; reflexivity|].
    unfold cache_current. subst st'. cbn [st_cache st_provs forallb fst snd] in *.
    rewrite N. rewrite K1, K2, ckey_eqb_refl, Cu. cbn [andb].
    rewrite F2. unfold cache_current in CC. rewrite forallb_forall in *. intros x I. specialize (CC x I).
    destruct (nth_error (st_provs st) (snd x)) as [pr0|] eqn:N0; [|discriminate].
    rewrite F1, nth_error_app1 by (apply nth_error_Some; congruence). rewrite N0.
    rewrite (prov_current_ext fuel w st _ pr0); [assumption|].
    eapply same_impl_trans; [exact S1|apply same_impl_fields; reflexivity].
Qed.

Lemma inst_step_current fuel w st x :
  is_class_op x = false -> cache_current fuel w st = true -> cache_current fuel w (step fuel w st x) = true.
Proof.
  destruct x; cbn [is_class_op step]; try discriminate; intros _ CC.
  - apply directly_provides_current; assumption.
  - apply directly_provides_current; assumption.
  - apply directly_provides_current; assumption.
  - unfold cache_current in *. cbn [gc st_cache st_provs]. rewrite forallb_forall in *.
    intros y I. apply filter_In in I. destruct I as [I _]. specialize (CC y I).
    destruct (nth_error (st_provs st) (snd y)); [|discriminate].
    rewrite (prov_current_ext fuel w st (gc st)); [assumption|]. apply same_impl_fields. reflexivity.
Qed.

Lemma class_ops_cache fuel w cops :
  forallb is_class_op cops = true -> st_cache (run fuel w cops) = [].
Proof.
  intros H. destruct (class_ops_shrink fuel w cops (init_state w) H) as (_ & _ & E3). fold (run fuel w cops) in E3.
  destruct (st_cache (run fuel w cops)) as [|x l]; [reflexivity|]. destruct (E3 x); left; reflexivity.
Qed.

Lemma inst_ops_current fuel w iops : forall st,
  forallb (fun x => negb (is_class_op x)) iops = true -> cache_current fuel w st = true ->
  cache_current fuel w (fold_left (step fuel w) iops st) = true /\ same_impl w st (fold_left (step fuel w) iops st).
Proof.
  induction iops as [|x l IH]; intros st; cbn [forallb fold_left]; [intros; split; [assumption|apply same_impl_refl]|].
  rewrite andb_true_iff, negb_true_iff. intros [K H] CC.
  destruct (IH (step fuel w st x) H (inst_step_current fuel w st x K CC)) as [A B].
  split; [assumption|].
  apply (same_impl_trans w st (step fuel w st x)); [apply inst_step_same_impl; exact K|exact B].
Qed.

Lemma module_order_current fuel w cops iops :
  forallb is_class_op cops = true -> forallb (fun x => negb (is_class_op x)) iops = true ->
  cache_current fuel w (run fuel w (cops ++ iops)) = true /\
  same_impl w (run fuel w cops) (run fuel w (cops ++ iops)).
Proof.
  intros Hc Hi. unfold run. rewrite fold_left_app. apply inst_ops_current; [assumption|].
  unfold cache_current. fold (run fuel w cops). rewrite (class_ops_cache fuel w cops Hc). reflexivity.
Qed.

Lemma live_is_current fuel w st o io p :
  pinv st -> cache_current fuel w st = true ->
  nth_error (st_insts st) o = Some io -> in_provides io = Some p ->
  exists pr, nth_error (st_provs st) p = Some pr /\ prov_current fuel w st pr = true.
Proof.
  intros [_ Lv] CC N I. destruct (Lv _ _ _ N I) as (pr & Np & A).
  destruct (cache_current_In _ _ _ _ _ CC (assoc_key_In _ _ _ A)) as (pr' & Np' & _ & Cu).
  exists pr. split; [assumption|]. congruence.
Qed.

(* the instance's declaration, pickled in the process with history cops ++ iops, unpickled in any
   process that executed the same class-level operations (and any instance operations of its own) *)
Lemma provides_roundtrip_fresh_process fuel w cops iops iops' o io p :
  wf_globals w = true ->
  forallb is_class_op cops = true ->
  forallb (fun x => negb (is_class_op x)) iops = true ->
  forallb (fun x => negb (is_class_op x)) iops' = true ->
  nth_error (st_insts (run fuel w (cops ++ iops))) o = Some io -> in_provides io = Some p ->
  exists pr, nth_error (st_provs (run fuel w (cops ++ iops))) p = Some pr /\
    (ids_ok w (pv_cls pr) (pv_ifaces pr) = true ->
     exists st2' p' pr',
       rebuild fuel w (run fuel w (cops ++ iops')) (reduce_prov w pr) = (st2', Some (OProv p')) /\
       nth_error (st_provs st2') p' = Some pr' /\
       pv_cls pr' = pv_cls pr /\ pv_ifaces pr' = pv_ifaces pr /\ pv_bases pr' = pv_bases pr /\
       obj_interfaces fuel w st2' (OProv p') = obj_interfaces fuel w (run fuel w (cops ++ iops)) (OProv p)).
Proof.
  intros W Hc Hi Hi' N I.
  destruct (module_order_current fuel w cops iops Hc Hi) as [CC S].
  destruct (module_order_current fuel w cops iops' Hc Hi') as [CC' S'].
  destruct (live_is_current fuel w _ o io p (ordered_run_pinv fuel w cops iops Hc Hi) CC N I) as (pr & Np & Cu).
  exists pr. split; [assumption|]. intros K.
  assert (S2 : same_impl w (run fuel w (cops ++ iops)) (run fuel w (cops ++ iops'))).
  { intros k. rewrite (S' k), (S k). reflexivity. }
  destruct (provides_roundtrip_same fuel w _ _ pr W K S2 Cu CC') as (st2' & p' & pr' & R & N' & K1 & K2 & K3 & L).
  exists st2', p', pr'. repeat split; auto. rewrite L. cbn [obj_interfaces]. rewrite Np. reflexivity.
Qed.

(* ------------------------------------------------------------------ ClassProvides *)

Definition cprov_inv (w : world) (st : state) : Prop :=
  forall q qr, nth_error (st_cprovs st) q = Some qr ->
  cp_bases qr = cprov_bases (List.length (w_ifaces w)) (w_root w) (cp_ifaces qr).

Lemma cprov_inv_fields w a b : st_cprovs b = st_cprovs a -> cprov_inv w a -> cprov_inv w b.
Proof. unfold cprov_inv. intros E H. rewrite E. exact H. Qed.

Lemma cprov_inv_alloc w st c is : cprov_inv w st -> cprov_inv w (alloc_cprov w st c is).
Proof.
  intros H q qr. cbn [alloc_cprov st_cprovs].
  destruct (Nat.lt_ge_cases q (List.length (st_cprovs st))) as [L|L].
  - rewrite nth_error_app1 by assumption. apply H.
  - rewrite nth_error_app2 by assumption. destruct (q - List.length (st_cprovs st)) as [|[|n]]; cbn; try discriminate.
    intros E; inversion E; subst. reflexivity.
Qed.

Lemma implementedBy_cprov_inv fuel w : forall st c, cprov_inv w st -> cprov_inv w (implementedBy fuel w st c).
Proof.
  induction fuel as [|f IH]; intros st c H; cbn [implementedBy];
    destruct (assoc_nat c (st_impl st)); try assumption.
  set (st1 := fold_left (implementedBy f w) (cbases w c) st).
  assert (F1 : cprov_inv w st1).
  { unfold st1. clear st1. generalize (cbases w c). intros l. revert st H.
    induction l as [|x l IHl]; intros st H; cbn [fold_left]; [assumption|]. apply IHl. apply IH; assumption. }
  assert (F2 : cprov_inv w (set_impl st1 c (default_impl w c))) by (eapply cprov_inv_fields; [|exact F1]; reflexivity).
  destruct (is_builtin w c); [exact F2|].
  destruct (assoc_nat c (st_cprov_of (set_impl st1 c (default_impl w c)))); [exact F2|].
  eapply cprov_inv_fields; [|apply (cprov_inv_alloc w _ c [] F2)]. reflexivity.
Qed.

Lemma directly_provides_cprov_inv fuel w st o is : cprov_inv w st -> cprov_inv w (directly_provides fuel w st o is).
Proof.
  intros H. unfold directly_provides. destruct (nth_error (st_insts st) o) as [io|]; [|assumption].
  unfold provides_factory. destruct (assoc_key (in_cls io, is) (st_cache st)).
  - eapply cprov_inv_fields; [|exact H]. reflexivity.
  - eapply cprov_inv_fields; [|apply (implementedBy_cprov_inv fuel w st (in_cls io) H)]. reflexivity.
Qed.

Lemma step_cprov_inv fuel w st x : cprov_inv w st -> cprov_inv w (step fuel w st x).
Proof.
  intros H. destruct x; cbn [step].
  - apply implementedBy_cprov_inv; assumption.
  - eapply cprov_inv_fields; [|apply (implementedBy_cprov_inv fuel w st c H)]. reflexivity.
  - eapply cprov_inv_fields; [|apply (implementedBy_cprov_inv fuel w st c H)]. reflexivity.
  - eapply cprov_inv_fields; [|apply (implementedBy_cprov_inv fuel w st c H)]. reflexivity.
  - unfold class_provides. eapply cprov_inv_fields;
      [|apply (cprov_inv_alloc w _ c is (implementedBy_cprov_inv fuel w st c H))]. reflexivity.
  - unfold class_also_provides, class_provides. eapply cprov_inv_fields;
      [|apply (cprov_inv_alloc w _ c (class_provided_by fuel w st c ++ is) (implementedBy_cprov_inv fuel w st c H))].
    reflexivity.
  - unfold class_no_longer_provides, class_provides. eapply cprov_inv_fields;
      [|apply (cprov_inv_alloc w _ c (minus fuel w (class_provided_by fuel w st c) i)
                 (implementedBy_cprov_inv fuel w st c H))].
    reflexivity.
  - apply directly_provides_cprov_inv; assumption.
  - apply directly_provides_cprov_inv; assumption.
  - apply directly_provides_cprov_inv; assumption.
  - eapply cprov_inv_fields; [|exact H]. reflexivity.
Qed.

Lemma run_cprov_inv fuel w ops : cprov_inv w (run fuel w ops).
Proof.
  unfold run. assert (H : cprov_inv w (init_state w)) by (intros [|q] qr; cbn; discriminate).
  revert H. generalize (init_state w). induction ops as [|x ops IH]; intros st H; cbn [fold_left]; [assumption|].
  apply IH. apply step_cprov_inv; assumption.
Qed.

Lemma rebuild_cprov fuel w st qr :
  wf_globals w = true -> ids_ok w (cp_cls qr) (cp_ifaces qr) = true ->
  rebuild fuel w st (reduce_cprov w qr) =
  (alloc_cprov w (implementedBy fuel w st (cp_cls qr)) (cp_cls qr) (cp_ifaces qr),
   Some (OCProv (List.length (st_cprovs (implementedBy fuel w st (cp_cls qr)))))).
Proof.
  intros W I. destruct (ids_ok_split _ _ _ I) as [Hc Hi].
  destruct (wf_meta w (cp_cls qr) W) as (g & m & Eg & Lg & Mm).
  unfold reduce_cprov. fold (meta_ref w (cp_cls qr)). unfold type_ref in Eg.
  replace (match assoc_nat (cp_cls qr) (w_meta w) with Some g0 => ByName g0 | None => ByName g_type end)
    with (ByName g) by (unfold meta_ref, type_ref in Eg; symmetry; exact Eg).
  rewrite rebuild_Call.
  rewrite (arg_refs_ifaces w _ Hi).
  change (ByName (cname w (cp_cls qr)) :: ByName g :: map ByName (map (iname w) (cp_ifaces qr)))
    with (map ByName (cname w (cp_cls qr) :: g :: map (iname w) (cp_ifaces qr))).
  rewrite rebuild_list_names. cbn [map]. rewrite wf_class by assumption. rewrite wf_ifaces by assumption.
  rewrite Lg. unfold apply_fn.
  replace (Some (OClass (cp_cls qr)) :: Some m :: map (fun i => Some (OIface i)) (cp_ifaces qr))
    with (map (fun x : obj => Some x) (OClass (cp_cls qr) :: m :: map OIface (cp_ifaces qr)))
    by (cbn [map]; rewrite map_map; reflexivity).
  rewrite all_some_Some. rewrite Mm. rewrite (map_as_iface w), all_some_Some. reflexivity.
Qed.

Lemma classprovides_roundtrip fuel w ops q qr :
  wf_globals w = true ->
  nth_error (st_cprovs (run fuel w ops)) q = Some qr ->
  ids_ok w (cp_cls qr) (cp_ifaces qr) = true ->
  exists st' q' qr',
    rebuild fuel w (run fuel w ops) (reduce_cprov w qr) = (st', Some (OCProv q')) /\
    nth_error (st_cprovs st') q' = Some qr' /\
    cp_cls qr' = cp_cls qr /\ cp_ifaces qr' = cp_ifaces qr /\ cp_bases qr' = cp_bases qr /\
    obj_interfaces fuel w st' (OCProv q') = obj_interfaces fuel w (run fuel w ops) (OCProv q).
Proof.
  intros W N I. set (st := run fuel w ops) in *.
  rewrite rebuild_cprov by assumption.
  set (st1 := implementedBy fuel w st (cp_cls qr)).
  set (bs := cprov_bases (List.length (w_ifaces w)) (w_root w) (cp_ifaces qr)).
  exists (alloc_cprov w st1 (cp_cls qr) (cp_ifaces qr)), (List.length (st_cprovs st1)),
         (mkCProv (cp_cls qr) (cp_ifaces qr) bs).
  assert (B : cp_bases qr = bs) by (apply (run_cprov_inv fuel w ops q qr N)).
  assert (Nn : nth_error (st_cprovs (alloc_cprov w st1 (cp_cls qr) (cp_ifaces qr))) (List.length (st_cprovs st1))
               = Some (mkCProv (cp_cls qr) (cp_ifaces qr) bs)).
  { cbn [alloc_cprov st_cprovs]. rewrite nth_error_app2 by lia. rewrite Nat.sub_diag. reflexivity. }
  repeat split; auto.
  cbn [obj_interfaces]. rewrite Nn, N. cbn [cp_bases]. rewrite B. apply decl_interfaces_ext.
  eapply same_impl_trans; [apply (implementedBy_same_impl fuel w st (cp_cls qr))|].
  apply same_impl_fields. reflexivity.
Qed.

(* ------------------------------------------------------------------ objects carrying a declaration *)

Lemma rebuild_inst fuel w st io d v :
  wf_globals w = true -> in_cls io < List.length (w_classes w) ->
  rebuild fuel w st d = (st, Some v) ->
  (v = ONone /\ in_provides io = None) \/ (exists p, v = OProv p /\ in_provides io = Some p) ->
  rebuild fuel w st (Call FNewObj (ByName (cname w (in_cls io)) :: d :: map RInt (in_attrs io))) =
  (mkState (st_impl st) (st_cprov_of st) (st_cprovs st) (st_provs st) (st_cache st) (st_insts st ++ [io]),
   Some (OInst (List.length (st_insts st)))).
Proof.
  intros W Hc Hd Hv. rewrite rebuild_Call. cbn [rebuild_list rebuild]. rewrite wf_class by assumption.
  rewrite Hd. rewrite rebuild_list_ints. unfold apply_fn.
  replace (Some (OClass (in_cls io)) :: Some v :: map (fun z => Some (OInt z)) (in_attrs io))
    with (map (fun x : obj => Some x) (OClass (in_cls io) :: v :: map OInt (in_attrs io)))
    by (cbn [map]; rewrite map_map; reflexivity).
  rewrite all_some_Some. rewrite map_as_int, all_some_Some.
  destruct io as [c pp zs]. cbn [in_cls in_provides in_attrs] in *.
  destruct Hv as [[-> ->]|(p & -> & ->)]; reflexivity.
Qed.

(* any state: an instance record whose declaration (if any) is a valid, importable, still shared one *)
Lemma object_roundtrip fuel w st io :
  wf_globals w = true ->
  in_cls io < List.length (w_classes w) ->
  (forall p, in_provides io = Some p ->
     exists pr, nth_error (st_provs st) p = Some pr /\ ids_ok w (pv_cls pr) (pv_ifaces pr) = true /\
                assoc_key (pv_cls pr, pv_ifaces pr) (st_cache st) = Some p) ->
  exists st',
    rebuild fuel w st (reduce_inst w st io) = (st', Some (OInst (List.length (st_insts st)))) /\
    nth_error (st_insts st') (List.length (st_insts st)) = Some io /\
    st_impl st' = st_impl st /\ st_provs st' = st_provs st /\ st_cache st' = st_cache st /\
    inst_provided fuel w st' io = inst_provided fuel w st io.
Proof.
  intros W Hc Hp.
  set (st' := mkState (st_impl st) (st_cprov_of st) (st_cprovs st) (st_provs st) (st_cache st) (st_insts st ++ [io])).
  assert (R : rebuild fuel w st (reduce_inst w st io) = (st', Some (OInst (List.length (st_insts st))))).
  { unfold reduce_inst. destruct (in_provides io) as [p|] eqn:Ip.
    - destruct (Hp p eq_refl) as (pr & Np & K & A).
      rewrite Np. apply (rebuild_inst fuel w st io (reduce_prov w pr) (OProv p)); try assumption.
      + apply provides_roundtrip_shared; assumption.
      + right. exists p. auto.
    - apply (rebuild_inst fuel w st io RNone ONone); try assumption; [reflexivity|]. left; auto. }
  exists st'. split; [exact R|]. split.
  { unfold st'. cbn [st_insts]. rewrite nth_error_app2 by lia. rewrite Nat.sub_diag. reflexivity. }
  repeat split.
  unfold inst_provided. assert (S : same_impl w st st') by (apply same_impl_fields; reflexivity).
  destruct (in_provides io) as [p|]; cbn [obj_interfaces].
  - change (st_provs st') with (st_provs st). destruct (nth_error (st_provs st) p); [|reflexivity].
    apply decl_interfaces_ext; assumption.
  - apply sref_interfaces_ext; assumption.
Qed.

(* module-ordered histories meet that hypothesis for every instance *)
Lemma object_roundtrip_ordered fuel w cops iops o io :
  wf_globals w = true ->
  forallb is_class_op cops = true -> forallb (fun x => negb (is_class_op x)) iops = true ->
  nth_error (st_insts (run fuel w (cops ++ iops))) o = Some io ->
  in_cls io < List.length (w_classes w) ->
  (forall p pr, in_provides io = Some p -> nth_error (st_provs (run fuel w (cops ++ iops))) p = Some pr ->
                ids_ok w (pv_cls pr) (pv_ifaces pr) = true) ->
  exists st',
    rebuild fuel w (run fuel w (cops ++ iops)) (reduce_inst w (run fuel w (cops ++ iops)) io)
      = (st', Some (OInst (List.length (st_insts (run fuel w (cops ++ iops)))))) /\
    nth_error (st_insts st') (List.length (st_insts (run fuel w (cops ++ iops)))) = Some io /\
    st_impl st' = st_impl (run fuel w (cops ++ iops)) /\ st_provs st' = st_provs (run fuel w (cops ++ iops)) /\
    st_cache st' = st_cache (run fuel w (cops ++ iops)) /\
    inst_provided fuel w st' io = inst_provided fuel w (run fuel w (cops ++ iops)) io.
Proof.
  intros W Hc Hi N Hcl Hp. apply object_roundtrip; try assumption.
  intros p Ip. destruct (provides_roundtrip_live fuel w cops iops o io p W Hc Hi N Ip) as (pr & Np & A & _).
  exists pr. split; [assumption|]. split; [apply (Hp p pr Ip Np)|assumption].
Qed.

(* ------------------------------------------------------------------ equality and hash *)

Lemma gname_eqb_refl g : gname_eqb g g = true.
Proof. apply gname_eqb_eq; reflexivity. Qed.

Lemma py_eq_refl w x : py_eq w x x = true.
Proof.
  destruct x; cbn [py_eq obj_eqb]; try reflexivity; try apply Nat.eqb_refl;
    try apply gname_eqb_refl; apply Z.eqb_refl.
Qed.

Lemma roundtrip_eq_hash fuel w ops :
  wf_globals w = true ->
  (forall i, i < List.length (w_ifaces w) ->
     exists y, rebuild fuel w (run fuel w ops) (reduce_iface w i) = (run fuel w ops, Some y) /\
       py_eq w y (OIface i) = true /\
       forall hk hid, py_hash w hk hid y = py_hash w hk hid (OIface i)) /\
  (forall c r, c < List.length (w_classes w) -> assoc_nat c (st_impl (run fuel w ops)) = Some r ->
     exists y, rebuild fuel w (run fuel w ops) (reduce_impl w r) = (run fuel w ops, Some y) /\
       py_eq w y (OImpl c) = true /\
       forall hk hid, py_hash w hk hid y = py_hash w hk hid (OImpl c)) /\
  (forall p pr, nth_error (st_provs (run fuel w ops)) p = Some pr -> ids_ok w (pv_cls pr) (pv_ifaces pr) = true ->
     assoc_key (pv_cls pr, pv_ifaces pr) (st_cache (run fuel w ops)) = Some p ->
     exists y, rebuild fuel w (run fuel w ops) (reduce_prov w pr) = (run fuel w ops, Some y) /\
       py_eq w y (OProv p) = true /\
       forall hk hid, py_hash w hk hid y = py_hash w hk hid (OProv p)).
Proof.
  intros W. split; [|split].
  - intros i Hi. exists (OIface i). split; [apply iface_roundtrip; assumption|].
    split; [apply py_eq_refl|reflexivity].
  - intros c r Hc H. exists (OImpl c). split; [apply implements_roundtrip; assumption|].
    split; [apply py_eq_refl|reflexivity].
  - intros p pr Np K A. exists (OProv p). split; [apply provides_roundtrip_shared; assumption|].
    split; [apply py_eq_refl|reflexivity].
Qed.

(* ------------------------------------------------------------------ every shared declaration is current *)
(* (what Provides.changed buys: in EVERY reachable state, not only after module-ordered histories) *)

Lemma flat_map_ext_in {A B} (f g : A -> list B) l :
  (forall a, In a l -> f a = g a) -> flat_map f l = flat_map g l.
Proof.
  induction l as [|x l IH]; intros H; cbn [flat_map]; [reflexivity|].
  rewrite (H x) by (left; reflexivity). rewrite IH; [reflexivity|]. intros; apply H; right; assumption.
Qed.

Lemma existsb_false {A} (f : A -> bool) l : existsb f l = false -> forall x, In x l -> f x = false.
Proof.
  induction l as [|y l IH]; cbn [existsb]; intros H x []; apply orb_false_iff in H; destruct H; subst; auto.
Qed.

Lemma get_impl_set_other w st c r d : d <> c -> get_impl w (set_impl st c r) d = get_impl w st d.
Proof.
  intros H. unfold get_impl. cbn [set_impl st_impl assoc_nat].
  destruct (Nat.eqb d c) eqn:E; [apply Nat.eqb_eq in E; contradiction|reflexivity].
Qed.

(* a class that does not depend on c sees the same implied interfaces after c's spec is replaced *)
Lemma implied_frame w st c r : forall fuel d,
  reaches fuel w (set_impl st c r) d c = false ->
  sref_implied fuel w (set_impl st c r) (RC d) = sref_implied fuel w st (RC d).
Proof.
  induction fuel as [|f IH]; intros d H; [reflexivity|].
  cbn [reaches] in H. apply orb_false_iff in H. destruct H as [H1 H2].
  apply Nat.eqb_neq in H1. rewrite (get_impl_set_other w st c r d H1) in H2.
  cbn [sref_implied]. rewrite (get_impl_set_other w st c r d H1).
  apply flat_map_ext_in. intros x I.
  destruct x as [i|b|].
  - destruct f; reflexivity.
  - apply IH. apply (existsb_false _ _ H2 (RC b) I).
  - destruct f; reflexivity.
Qed.

Lemma existsb_ext_in {A} (f g : A -> bool) l : (forall a, In a l -> f a = g a) -> existsb f l = existsb g l.
Proof.
  induction l as [|x l IH]; intros H; cbn [existsb]; [reflexivity|].
  rewrite (H x) by (left; reflexivity). rewrite IH; [reflexivity|]. intros; apply H; right; assumption.
Qed.

(* ... and reaches the same classes *)
Lemma reaches_frame w st c r : forall fuel d x,
  reaches fuel w (set_impl st c r) d c = false ->
  reaches fuel w (set_impl st c r) d x = reaches fuel w st d x.
Proof.
  induction fuel as [|f IH]; intros d x H; [reflexivity|].
  cbn [reaches] in *. apply orb_false_iff in H. destruct H as [H1 H2].
  apply Nat.eqb_neq in H1. rewrite (get_impl_set_other w st c r d H1) in *.
  f_equal. apply existsb_ext_in. intros y I. destruct y as [i|b|]; try reflexivity.
  apply IH. apply (existsb_false _ _ H2 (RC b) I).
Qed.

Lemma build_bases_frame fuel w st c r d is :
  reaches fuel w (set_impl st c r) d c = false ->
  build_bases fuel w (set_impl st c r) d is = build_bases fuel w st d is.
Proof.
  intros H. unfold build_bases. f_equal. f_equal. apply filter_ext_all. intros x.
  unfold spec_isOrExtends. rewrite (implied_frame w st c r fuel d H), (reaches_frame w st c r fuel d _ H). reflexivity.
Qed.

(* replace the spec of c and notify: what stays in the cache is still current *)
Lemma set_notify_current fuel w st c r :
  cache_current fuel w st = true -> cache_current fuel w (notify fuel w (set_impl st c r) c) = true.
Proof.
  unfold cache_current. cbn [notify st_cache st_provs set_impl]. rewrite !forallb_forall.
  intros H x I. apply filter_In in I. destruct I as [I R]. specialize (H x I).
  destruct (nth_error (st_provs st) (snd x)) as [pr|]; [|discriminate].
  apply andb_true_iff in H. destruct H as [H1 H2]. rewrite H1. cbn [andb].
  apply ckey_eqb_eq in H1. apply negb_true_iff in R. rewrite H1 in R. unfold prov_depends in R.
  apply orb_false_iff in R. destruct R as [R _]. cbn [fst] in R.
  apply prov_current_eq. apply prov_current_eq in H2. rewrite H2.
  rewrite (build_bases_ext w (set_impl st c r) (notify fuel w (set_impl st c r) c))
    by (apply same_impl_fields; reflexivity).
  symmetry. apply build_bases_frame. assumption.
Qed.

Lemma ordered_current fuel w st c b a :
  cache_current fuel w st = true -> cache_current fuel w (ordered fuel w st c b a) = true.
Proof. intros H. unfold ordered. apply set_notify_current. assumption. Qed.

Lemma implementedBy_current fuel w st c :
  cache_current fuel w st = true -> cache_current fuel w (implementedBy fuel w st c) = true.
Proof.
  intros H. destruct (implementedBy_frame fuel w st c) as (F1 & F2 & _).
  eapply cache_current_ext; [exact F1|exact F2|apply implementedBy_same_impl|exact H].
Qed.

Lemma step_current fuel w st x :
  cache_current fuel w st = true -> cache_current fuel w (step fuel w st x) = true.
Proof.
  intros H. destruct (is_class_op x) eqn:K; [|apply inst_step_current; assumption].
  destruct x; cbn [is_class_op] in K; try discriminate; cbn [step].
  - apply implementedBy_current; assumption.
  - unfold class_implements. apply ordered_current, implementedBy_current; assumption.
  - unfold class_implements_only. apply ordered_current, set_notify_current, implementedBy_current; assumption.
  - unfold class_implements_first. apply ordered_current, implementedBy_current; assumption.
  - unfold class_provides. eapply cache_current_ext; [| | |apply (implementedBy_current fuel w st c H)];
      try reflexivity. apply same_impl_fields. reflexivity.
  - unfold class_also_provides, class_provides.
    eapply cache_current_ext; [| | |apply (implementedBy_current fuel w st c H)];
      try reflexivity. apply same_impl_fields. reflexivity.
  - unfold class_no_longer_provides, class_provides.
    eapply cache_current_ext; [| | |apply (implementedBy_current fuel w st c H)];
      try reflexivity. apply same_impl_fields. reflexivity.
Qed.

Lemma run_current fuel w ops : cache_current fuel w (run fuel w ops) = true.
Proof.
  unfold run. assert (H : cache_current fuel w (init_state w) = true) by reflexivity.
  revert H. generalize (init_state w). induction ops as [|x ops IH]; intros st H; cbn [fold_left]; [assumption|].
  apply IH. apply step_current; assumption.
Qed.

(* a still-shared declaration of ANY reachable state, unpickled in ANY reachable state of a process
   with the same class declarations *)
Lemma provides_roundtrip_reachable fuel w ops ops2 p pr :
  wf_globals w = true -> ids_ok w (pv_cls pr) (pv_ifaces pr) = true ->
  (forall k, get_impl w (run fuel w ops2) k = get_impl w (run fuel w ops) k) ->
  nth_error (st_provs (run fuel w ops)) p = Some pr ->
  assoc_key (pv_cls pr, pv_ifaces pr) (st_cache (run fuel w ops)) = Some p ->
  exists st2' p' pr',
    rebuild fuel w (run fuel w ops2) (reduce_prov w pr) = (st2', Some (OProv p')) /\
    nth_error (st_provs st2') p' = Some pr' /\
    pv_cls pr' = pv_cls pr /\ pv_ifaces pr' = pv_ifaces pr /\ pv_bases pr' = pv_bases pr /\
    obj_interfaces fuel w st2' (OProv p') = obj_interfaces fuel w (run fuel w ops) (OProv p).
Proof.
  intros W K S Np A.
  destruct (cache_current_In _ _ _ _ _ (run_current fuel w ops) (assoc_key_In _ _ _ A)) as (pr0 & Np0 & _ & Cu).
  assert (pr0 = pr) by congruence. subst pr0.
  destruct (provides_roundtrip_same fuel w _ _ pr W K S Cu (run_current fuel w ops2))
    as (st2' & p' & pr' & R & N' & K1 & K2 & K3 & L).
  exists st2', p', pr'. repeat split; auto. rewrite L. cbn [obj_interfaces]. rewrite Np. reflexivity.
Qed.
